/-
  C05, memory backend — readers deliver the SOURCE's bytes whatever happens in the
  window of `NewAofWritter` (Model/StoreMemWindow.lean).

  The invariant is about TRUTH, not about the shape of the index (which the stray
  append of a replaced writer breaks: its segment then overlaps its successor): given
  a source `src : offset → byte` such that every chunk handed to a stream writer is the
  source's bytes at the writer's end (`SrcOkW`),
    * every indexed segment holds the source's bytes at its offsets,
    * every copy loop that holds an indexed segment has written to its pipe exactly
      `src[start, pos)`,
    * what a blocked writer (the current one, or a replaced one not yet finished) is
      waiting to append is the source's bytes at the end of ITS segment.
-/
import GunYu.Model.StoreMemWindow
import GunYu.Proofs.StoreMemInv
import GunYu.Proofs.StoreMem

namespace GunYu.Store
open GunYu

/-! ### bytes of the source -/

def BytesTrue (src : Nat → UInt8) (off : Nat) (bs : Bytes) : Prop :=
  ∀ i b, bs[i]? = some b → b = src (off + i)

theorem BytesTrue.nil (src : Nat → UInt8) (off : Nat) : BytesTrue src off [] := by
  intro i b h; simp at h

theorem BytesTrue.append {src : Nat → UInt8} {off : Nat} {a b : Bytes} (h1 : BytesTrue src off a)
    (h2 : BytesTrue src (off + a.length) b) : BytesTrue src off (a ++ b) := by
  intro i x hx
  by_cases hi : i < a.length
  · rw [List.getElem?_append_left hi] at hx; exact h1 i x hx
  · rw [List.getElem?_append_right (by omega)] at hx
    have := h2 (i - a.length) x hx
    rw [this]; congr 1; omega

theorem BytesTrue.take {src : Nat → UInt8} {off : Nat} {bs : Bytes} (h : BytesTrue src off bs) (k : Nat) :
    BytesTrue src off (bs.take k) := by
  intro i x hx
  rw [List.getElem?_take] at hx
  split at hx
  · exact h i x hx
  · cases hx

theorem BytesTrue.drop {src : Nat → UInt8} {off : Nat} {bs : Bytes} (h : BytesTrue src off bs) (k : Nat) :
    BytesTrue src (off + k) (bs.drop k) := by
  intro i x hx
  rw [List.getElem?_drop] at hx
  have := h (k + i) x hx
  rw [this]; congr 1; omega

theorem BytesTrue.congr {src : Nat → UInt8} {off off' : Nat} {bs : Bytes} (h : BytesTrue src off bs) (e : off' = off) :
    BytesTrue src off' bs := e ▸ h

def SegTrue (src : Nat → UInt8) (g : MSeg) : Prop := BytesTrue src g.left g.data

def OutTrue (src : Nat → UInt8) (r : MReader) : Prop :=
  r.pos = r.start + r.out.length ∧ BytesTrue src r.start r.out

/-- a reservation: the bytes `bs` are the source's bytes at the end of the segment(s)
    with identity `sid` -/
def Res (src : Nat → UInt8) (segs : List MSeg) (sid : Nat) (bs : Bytes) : Prop :=
  ∀ g ∈ segs, g.sid = sid → BytesTrue src g.right bs

/-! ### the core invariant -/

structure CInv (src : Nat → UInt8) (s : Mem) : Prop where
  segs : ∀ g ∈ s.segs, SegTrue src g
  bound : ∀ g ∈ s.segs, g.sid < s.nextSid
  rbound : ∀ r ∈ s.readers, r.isAof = true → r.seg < s.nextSid
  readers : ∀ r ∈ s.readers, r.isAof = true → r.released = false → (∃ g ∈ s.segs, g.sid = r.seg) → OutTrue src r
  wsid : ∀ cur, s.aofW = some cur → cur < s.nextSid

theorem CInv.init (src : Nat → UInt8) (l m : Nat) : CInv src (Mem.init l m) := by
  refine ⟨?_, ?_, ?_, ?_, ?_⟩
  · intro g hg; cases hg
  · intro g hg; cases hg
  · intro r hr; cases hr
  · intro r hr; cases hr
  · intro c h; cases h

/-- fewer segments (in the sense of membership), the same readers -/
theorem CInv.shrink {src : Nat → UInt8} {s s' : Mem} (h : CInv src s) (hsub : ∀ g ∈ s'.segs, g ∈ s.segs)
    (hn : s.nextSid ≤ s'.nextSid) (hr : s'.readers = s.readers) (hw : s'.aofW = s.aofW ∨ s'.aofW = none) :
    CInv src s' := by
  refine ⟨fun g hg => h.segs g (hsub g hg), fun g hg => Nat.lt_of_lt_of_le (h.bound g (hsub g hg)) hn, ?_, ?_, ?_⟩
  · intro r hr' ha; rw [hr] at hr'; exact Nat.lt_of_lt_of_le (h.rbound r hr' ha) hn
  · intro r hr' ha hrel hex
    rw [hr] at hr'
    obtain ⟨g, hg, hs⟩ := hex
    exact h.readers r hr' ha hrel ⟨g, hsub g hg, hs⟩
  · intro cur hc
    rcases hw with e | e
    · rw [e] at hc; exact Nat.lt_of_lt_of_le (h.wsid cur hc) hn
    · rw [e] at hc; cases hc

theorem Res.shrink {src : Nat → UInt8} {segs segs' : List MSeg} {sid : Nat} {bs : Bytes} (h : Res src segs sid bs)
    (hsub : ∀ g ∈ segs', g ∈ segs) : Res src segs' sid bs :=
  fun g hg hs => h g (hsub g hg) hs

/-- every segment replaced by one with the same identity, offset and bytes -/
theorem CInv.mapSegs {src : Nat → UInt8} {s : Mem} (h : CInv src s) (f : MSeg → MSeg) (hs : ∀ g, (f g).sid = g.sid)
    (hl : ∀ g, (f g).left = g.left) (hd : ∀ g, (f g).data = g.data) : CInv src { s with segs := s.segs.map f } := by
  refine ⟨?_, ?_, h.rbound, ?_, h.wsid⟩
  · intro g hg
    obtain ⟨g0, hg0, rfl⟩ := List.mem_map.mp hg
    unfold SegTrue; rw [hl, hd]; exact h.segs g0 hg0
  · intro g hg
    obtain ⟨g0, hg0, rfl⟩ := List.mem_map.mp hg
    rw [hs]; exact h.bound g0 hg0
  · intro r hr ha hrel hex
    obtain ⟨g, hg, hsid⟩ := hex
    obtain ⟨g0, hg0, rfl⟩ := List.mem_map.mp hg
    exact h.readers r hr ha hrel ⟨g0, hg0, by rw [← hsid, hs]⟩

theorem Res.mapSegs {src : Nat → UInt8} {segs : List MSeg} {sid : Nat} {bs : Bytes} (h : Res src segs sid bs)
    (f : MSeg → MSeg) (hs : ∀ g, (f g).sid = g.sid) (hl : ∀ g, (f g).left = g.left) (hd : ∀ g, (f g).data = g.data) :
    Res src (segs.map f) sid bs := by
  intro g hg hsid
  obtain ⟨g0, hg0, rfl⟩ := List.mem_map.mp hg
  have := h g0 hg0 (by rw [← hsid, hs])
  unfold MSeg.right at *
  rw [hl, hd]; exact this

/-- a new, empty segment with a fresh identity becomes the writer's -/
theorem CInv.push {src : Nat → UInt8} {s : Mem} (h : CInv src s) (left : Nat) :
    CInv src { s with segs := s.segs ++ [{ sid := s.nextSid, left := left, data := [], closed := false, next := none }],
                      aofW := some s.nextSid, nextSid := s.nextSid + 1 } := by
  refine ⟨?_, ?_, ?_, ?_, ?_⟩
  · intro g hg
    rcases List.mem_append.mp hg with hg | hg
    · exact h.segs g hg
    · rw [List.mem_singleton] at hg; subst hg; exact BytesTrue.nil _ _
  · intro g hg
    rcases List.mem_append.mp hg with hg | hg
    · have := h.bound g hg; show g.sid < s.nextSid + 1; omega
    · rw [List.mem_singleton] at hg; subst hg; show s.nextSid < s.nextSid + 1; omega
  · intro r hr ha; have := h.rbound r hr ha; show r.seg < s.nextSid + 1; omega
  · intro r hr ha hrel hex
    obtain ⟨g, hg, hsid⟩ := hex
    rcases List.mem_append.mp hg with hg | hg
    · exact h.readers r hr ha hrel ⟨g, hg, hsid⟩
    · rw [List.mem_singleton] at hg; subst hg
      have := h.rbound r hr ha
      simp only at hsid; omega
  · intro cur hc; cases hc; show s.nextSid < s.nextSid + 1; omega

theorem Res.push_other {src : Nat → UInt8} {s : Mem} (h : CInv src s) {sid : Nat} {bs : Bytes} (hr : Res src s.segs sid bs)
    (hlt : sid < s.nextSid) (nxt : MSeg) (hn : nxt.sid = s.nextSid) : Res src (s.segs ++ [nxt]) sid bs := by
  intro g hg hs
  rcases List.mem_append.mp hg with hg | hg
  · exact hr g hg hs
  · rw [List.mem_singleton] at hg; subst hg; omega

theorem Res.push_new {src : Nat → UInt8} {s : Mem} (h : CInv src s) {bs : Bytes} (left : Nat) (hb : BytesTrue src left bs) :
    Res src (s.segs ++ [{ sid := s.nextSid, left := left, data := [], closed := false, next := none }]) s.nextSid bs := by
  intro g hg hs
  rcases List.mem_append.mp hg with hg | hg
  · have := h.bound g hg; omega
  · rw [List.mem_singleton] at hg; subst hg
    exact hb.congr (by simp [MSeg.right])

/-- a true piece is appended to the segment(s) `cur`, for which it was reserved -/
theorem CInv.put {src : Nat → UInt8} {s : Mem} (h : CInv src s) (cur : Nat) (piece : Bytes) (n : Nat)
    (hp : Res src s.segs cur piece) :
    CInv src { s with segs := mUpdate s.segs cur (fun g => { g with data := g.data ++ piece }), total := n } := by
  refine ⟨?_, ?_, h.rbound, ?_, h.wsid⟩
  · intro g hg
    obtain ⟨g0, hg0, rfl⟩ := mem_mUpdate.mp hg
    split
    · rename_i hc
      exact (h.segs g0 hg0).append (hp g0 hg0 (beq_iff_eq.mp hc))
    · exact h.segs g0 hg0
  · intro g hg
    obtain ⟨g0, hg0, rfl⟩ := mem_mUpdate.mp hg
    have := h.bound g0 hg0
    split <;> exact this
  · intro r hr ha hrel hex
    obtain ⟨g, hg, hsid⟩ := hex
    obtain ⟨g0, hg0, rfl⟩ := mem_mUpdate.mp hg
    refine h.readers r hr ha hrel ⟨g0, hg0, ?_⟩
    rw [← hsid]; split <;> rfl

theorem Res.put_other {src : Nat → UInt8} {segs : List MSeg} {sid cur : Nat} {bs piece : Bytes} (h : Res src segs sid bs)
    (hne : sid ≠ cur) : Res src (mUpdate segs cur (fun g => { g with data := g.data ++ piece })) sid bs := by
  intro g hg hs
  obtain ⟨g0, hg0, rfl⟩ := mem_mUpdate.mp hg
  by_cases hc : (g0.sid == cur) = true
  · exfalso
    simp only [hc, if_true] at hs
    exact hne (by rw [← hs]; exact beq_iff_eq.mp hc)
  · simp only [hc] at hs ⊢
    exact h g0 hg0 hs

theorem Res.put_same {src : Nat → UInt8} {segs : List MSeg} {cur : Nat} {buf : Bytes} (k : Nat)
    (h : Res src segs cur buf) (hk : k ≤ buf.length) :
    Res src (mUpdate segs cur (fun g => { g with data := g.data ++ buf.take k })) cur (buf.drop k) := by
  intro g hg hs
  obtain ⟨g0, hg0, rfl⟩ := mem_mUpdate.mp hg
  by_cases hc : (g0.sid == cur) = true
  · simp only [hc, if_true]
    have := (h g0 hg0 (beq_iff_eq.mp hc)).drop k
    refine this.congr ?_
    simp only [MSeg.right, List.length_append, List.length_take]
    omega
  · exfalso
    have hc' : (g0.sid == cur) = false := by simpa using hc
    simp only [hc', Bool.false_eq_true, if_false] at hs
    rw [hs] at hc'
    simp at hc'


theorem Res.take {src : Nat → UInt8} {segs : List MSeg} {sid : Nat} {bs : Bytes} (h : Res src segs sid bs) (k : Nat) :
    Res src segs sid (bs.take k) := fun g hg hs => (h g hg hs).take k

/-- the invariant only reads the index, the readers, the writer and the identity counter -/
theorem CInv.congr {src : Nat → UInt8} {s s' : Mem} (h : CInv src s) (hs : s'.segs = s.segs) (hr : s'.readers = s.readers)
    (hn : s'.nextSid = s.nextSid) (hw : s'.aofW = s.aofW) : CInv src s' :=
  h.shrink (by rw [hs]; exact fun g hg => hg) (Nat.le_of_eq hn.symm) hr (Or.inl hw)

/-! ### the collector (no hypothesis) -/

/-- what a collector-like step leaves alone -/
structure GcLike (s s' : Mem) : Prop where
  segs : ∃ pre, s.segs = pre ++ s'.segs
  readers : s'.readers = s.readers
  aofW : s'.aofW = s.aofW
  nextSid : s'.nextSid = s.nextSid
  pendA : s'.pendA = s.pendA
  logSize : s'.logSize = s.logSize

theorem GcLike.refl (s : Mem) : GcLike s s := ⟨⟨[], by simp⟩, rfl, rfl, rfl, rfl, rfl⟩

theorem GcLike.trans {a b c : Mem} (h1 : GcLike a b) (h2 : GcLike b c) : GcLike a c := by
  obtain ⟨p1, e1⟩ := h1.segs
  obtain ⟨p2, e2⟩ := h2.segs
  exact ⟨⟨p1 ++ p2, by rw [e1, e2, List.append_assoc]⟩, h2.readers.trans h1.readers, h2.aofW.trans h1.aofW,
    h2.nextSid.trans h1.nextSid, h2.pendA.trans h1.pendA, h2.logSize.trans h1.logSize⟩

theorem GcLike.sub {s s' : Mem} (h : GcLike s s') : ∀ g ∈ s'.segs, g ∈ s.segs := by
  obtain ⟨pre, e⟩ := h.segs
  intro g hg; rw [e]; exact List.mem_append_right _ hg

theorem gcOnce_like {s s' : Mem} (h : s.gcOnce = some s') : GcLike s s' := by
  unfold Mem.gcOnce at h
  cases ha : s.gcAof with
  | some s1 =>
    rw [ha] at h; simp at h; subst h
    unfold Mem.gcAof at ha
    split at ha
    · rename_i first rest hsg
      split at ha
      · simp at ha; subst ha
        exact ⟨⟨[first], by rw [hsg]; rfl⟩, rfl, rfl, rfl, rfl, rfl⟩
      · simp at ha
    · simp at ha
  | none =>
    rw [ha] at h
    dsimp only at h
    unfold Mem.gcRdb at h
    split at h
    · split at h
      · split at h
        · simp at h; subst h
          exact ⟨⟨[], by simp⟩, rfl, rfl, rfl, rfl, rfl⟩
        · simp at h
      · simp at h
    · simp at h

theorem gcLoop_like (need fuel : Nat) : ∀ s : Mem, GcLike s (Mem.gcLoop need fuel s) := by
  induction fuel with
  | zero => intro s; exact GcLike.refl s
  | succ fuel ih =>
    intro s
    simp only [Mem.gcLoop]
    split
    · cases hg : s.gcOnce with
      | none => exact GcLike.refl s
      | some s' => exact (gcOnce_like hg).trans (ih s')
    · exact GcLike.refl s

theorem gc_like (s : Mem) (need : Nat) : GcLike s (s.gc need) := by
  unfold Mem.gc
  split
  · exact GcLike.refl s
  · exact gcLoop_like need _ s

theorem ensure_like (s : Mem) (need : Nat) : GcLike s (s.ensure need).1 := by
  unfold Mem.ensure
  split
  · exact GcLike.refl s
  · exact gc_like s need

theorem CInv.gcLike {src : Nat → UInt8} {s s' : Mem} (h : CInv src s) (hg : GcLike s s') : CInv src s' :=
  h.shrink hg.sub (Nat.le_of_eq hg.nextSid.symm) hg.readers (Or.inl hg.aofW)

/-! ### the stream writer's append loop -/

theorem pieceSpace_le (logSize segLen bufLen : Nat) : (pieceSpace logSize segLen bufLen).1 ≤ bufLen := by
  unfold pieceSpace
  split
  · exact Nat.le_refl _
  · split
    · exact Nat.min_le_left _ _
    · exact Nat.min_le_left _ _

/-- what an operation does to the reservations of segments OTHER than the writer's -/
def KeepsRes (src : Nat → UInt8) (s s' : Mem) : Prop :=
  ∀ sid bs, sid < s.nextSid → s.aofW ≠ some sid → Res src s.segs sid bs → Res src s'.segs sid bs ∧ s'.aofW ≠ some sid

theorem KeepsRes.of_gcLike {src : Nat → UInt8} {s s' : Mem} (hg : GcLike s s') : KeepsRes src s s' :=
  fun sid bs _ hw hr => ⟨hr.shrink hg.sub, by rw [hg.aofW]; exact hw⟩

theorem aofRotate_true {src : Nat → UInt8} (s : Mem) (cur : Nat) (seg : MSeg) (rotate : Bool) (buf : Bytes)
    (h : CInv src s) (hw : s.aofW = some cur) (hf : mFind s.segs cur = some seg) (hb : Res src s.segs cur buf) :
    CInv src (aofRotate s cur seg rotate).1 ∧ (aofRotate s cur seg rotate).1.aofW = some (aofRotate s cur seg rotate).2 ∧
      Res src (aofRotate s cur seg rotate).1.segs (aofRotate s cur seg rotate).2 buf ∧
      (aofRotate s cur seg rotate).1.readers = s.readers ∧ s.nextSid ≤ (aofRotate s cur seg rotate).1.nextSid ∧
      (aofRotate s cur seg rotate).1.pendA = s.pendA ∧ (aofRotate s cur seg rotate).1.logSize = s.logSize ∧
      KeepsRes src s (aofRotate s cur seg rotate).1 := by
  unfold aofRotate
  cases rotate with
  | false =>
    simp only [Bool.false_eq_true, if_false]
    exact ⟨h, hw, hb, by trivial, Nat.le_refl _, by trivial, by trivial, fun sid bs _ hne hr => ⟨hr, hne⟩⟩
  | true =>
    simp only [if_true]
    have hm := h.mapSegs (fun g => if g.sid == cur then ({ g with closed := true } : MSeg) else g)
      (by intro g; split <;> rfl) (by intro g; split <;> rfl) (by intro g; split <;> rfl)
    have hp := hm.push seg.right
    obtain ⟨hsm, hss⟩ := mFind_some hf
    refine ⟨?_, by trivial, ?_, by trivial, Nat.le_succ _, by trivial, by trivial, ?_⟩
    · rw [mUpdate_eq_map]; exact hp
    · rw [mUpdate_eq_map]
      exact Res.push_new hm seg.right (hb seg hsm hss)
    · intro sid bs hlt hne hr
      refine ⟨?_, ?_⟩
      · rw [mUpdate_eq_map]
        have := hr.mapSegs (fun g => if g.sid == cur then ({ g with closed := true } : MSeg) else g)
          (by intro g; split <;> rfl) (by intro g; split <;> rfl) (by intro g; split <;> rfl)
        exact Res.push_other hm this hlt _ rfl
      · intro e; cases e; omega

theorem appendAofLoop_true {src : Nat → UInt8} (fuel : Nat) : ∀ (s : Mem) (buf : Bytes) (done : Nat), CInv src s →
    (∀ cur, s.aofW = some cur → Res src s.segs cur buf) →
    CInv src (Mem.appendAofLoop fuel s buf done).1 ∧ done ≤ (Mem.appendAofLoop fuel s buf done).2.1 ∧
    (∀ cur, (Mem.appendAofLoop fuel s buf done).1.aofW = some cur →
        Res src (Mem.appendAofLoop fuel s buf done).1.segs cur (buf.drop ((Mem.appendAofLoop fuel s buf done).2.1 - done))) ∧
    (Mem.appendAofLoop fuel s buf done).1.readers = s.readers ∧
    s.nextSid ≤ (Mem.appendAofLoop fuel s buf done).1.nextSid ∧
    (Mem.appendAofLoop fuel s buf done).1.pendA = s.pendA ∧
    KeepsRes src s (Mem.appendAofLoop fuel s buf done).1 := by
  induction fuel with
  | zero =>
    intro s buf done h hb
    simp only [Mem.appendAofLoop, Nat.sub_self, List.drop_zero]
    exact ⟨h, Nat.le_refl _, hb, by trivial, Nat.le_refl _, by trivial, fun sid bs _ hne hr => ⟨hr, hne⟩⟩
  | succ fuel ih =>
    intro s buf done h hb
    have stop : ∀ s' : Mem, CInv src s' → (∀ cur, s'.aofW = some cur → Res src s'.segs cur buf) → s'.readers = s.readers →
        s.nextSid ≤ s'.nextSid → s'.pendA = s.pendA → KeepsRes src s s' → ∀ b : Bool,
        CInv src ((s', done, b) : Mem × Nat × Bool).1 ∧ done ≤ ((s', done, b) : Mem × Nat × Bool).2.1 ∧
        (∀ cur, ((s', done, b) : Mem × Nat × Bool).1.aofW = some cur →
          Res src ((s', done, b) : Mem × Nat × Bool).1.segs cur (buf.drop (((s', done, b) : Mem × Nat × Bool).2.1 - done))) ∧
        ((s', done, b) : Mem × Nat × Bool).1.readers = s.readers ∧ s.nextSid ≤ ((s', done, b) : Mem × Nat × Bool).1.nextSid ∧
        ((s', done, b) : Mem × Nat × Bool).1.pendA = s.pendA ∧ KeepsRes src s ((s', done, b) : Mem × Nat × Bool).1 := by
      intro s' h' hb' hr hn hp hk b
      simp only [Nat.sub_self, List.drop_zero]
      exact ⟨h', Nat.le_refl _, hb', hr, hn, hp, hk⟩
    have keep0 : KeepsRes src s s := fun sid bs _ hne hr => ⟨hr, hne⟩
    rw [appendAofLoop_succ]
    split
    · exact stop s h hb rfl (Nat.le_refl _) rfl keep0 false
    · cases haw : s.aofW with
      | none => exact stop s h hb rfl (Nat.le_refl _) rfl keep0 false
      | some cur =>
        dsimp only
        cases hf : mFind s.segs cur with
        | none => exact stop s h hb rfl (Nat.le_refl _) rfl keep0 false
        | some seg =>
          dsimp only
          obtain ⟨c1, w1, r1, rd1, n1, p1, l1, k1⟩ :=
            aofRotate_true s cur seg (pieceSpace s.logSize seg.data.length buf.length).2 buf h haw hf (hb cur haw)
          have g2 := ensure_like (aofRotate s cur seg (pieceSpace s.logSize seg.data.length buf.length).2).1
            (pieceSpace s.logSize seg.data.length buf.length).1
          have c2 := c1.gcLike g2
          have r2 := r1.shrink g2.sub
          have w2 := g2.aofW.trans w1
          have k2 : KeepsRes src s ((aofRotate s cur seg (pieceSpace s.logSize seg.data.length buf.length).2).1.ensure
              (pieceSpace s.logSize seg.data.length buf.length).1).1 := by
            intro sid bs hlt hne hr
            obtain ⟨a1, a2⟩ := k1 sid bs hlt hne hr
            exact ⟨a1.shrink g2.sub, by rw [g2.aofW]; exact a2⟩
          split
          · refine stop _ c2 ?_ (g2.readers.trans rd1) (by rw [g2.nextSid]; exact n1) (g2.pendA.trans p1) k2 true
            intro c hc; rw [w2] at hc; cases hc; exact r2
          · -- the piece is appended to the writer's segment
            have hle := pieceSpace_le s.logSize seg.data.length buf.length
            have c3 : CInv src (aofPut ((aofRotate s cur seg (pieceSpace s.logSize seg.data.length buf.length).2).1.ensure
                (pieceSpace s.logSize seg.data.length buf.length).1).1
                (aofRotate s cur seg (pieceSpace s.logSize seg.data.length buf.length).2).2
                (buf.take (pieceSpace s.logSize seg.data.length buf.length).1)) :=
              (c2.put _ _ 0 (r2.take _)).congr rfl rfl rfl rfl
            have r3 := Res.put_same (pieceSpace s.logSize seg.data.length buf.length).1 r2 hle
            obtain ⟨c4, d4, r4, rd4, n4, p4, k4⟩ := ih _ (buf.drop (pieceSpace s.logSize seg.data.length buf.length).1)
              (done + (buf.take (pieceSpace s.logSize seg.data.length buf.length).1).length) c3
              (by intro c hc
                  have hc' : ((aofRotate s cur seg (pieceSpace s.logSize seg.data.length buf.length).2).1.ensure
                    (pieceSpace s.logSize seg.data.length buf.length).1).1.aofW = some c := hc
                  rw [w2] at hc'; cases hc'; exact r3)
            have hlen : (buf.take (pieceSpace s.logSize seg.data.length buf.length).1).length =
                (pieceSpace s.logSize seg.data.length buf.length).1 := by
              rw [List.length_take]; exact Nat.min_eq_left hle
            refine ⟨c4, by omega, ?_, ?_, ?_, ?_, ?_⟩
            · intro c hc
              have := r4 c hc
              rw [List.drop_drop] at this
              refine (fun g hg hs => (this g hg hs).congr rfl) |> fun t => ?_
              have e : (pieceSpace s.logSize seg.data.length buf.length).1 +
                  ((Mem.appendAofLoop fuel (aofPut ((aofRotate s cur seg (pieceSpace s.logSize seg.data.length buf.length).2).1.ensure
                    (pieceSpace s.logSize seg.data.length buf.length).1).1
                    (aofRotate s cur seg (pieceSpace s.logSize seg.data.length buf.length).2).2
                    (buf.take (pieceSpace s.logSize seg.data.length buf.length).1))
                    (buf.drop (pieceSpace s.logSize seg.data.length buf.length).1)
                    (done + (buf.take (pieceSpace s.logSize seg.data.length buf.length).1).length)).2.1 -
                    (done + (buf.take (pieceSpace s.logSize seg.data.length buf.length).1).length)) =
                  (Mem.appendAofLoop fuel (aofPut ((aofRotate s cur seg (pieceSpace s.logSize seg.data.length buf.length).2).1.ensure
                    (pieceSpace s.logSize seg.data.length buf.length).1).1
                    (aofRotate s cur seg (pieceSpace s.logSize seg.data.length buf.length).2).2
                    (buf.take (pieceSpace s.logSize seg.data.length buf.length).1))
                    (buf.drop (pieceSpace s.logSize seg.data.length buf.length).1)
                    (done + (buf.take (pieceSpace s.logSize seg.data.length buf.length).1).length)).2.1 - done := by
                omega
              rw [e] at this
              exact this
            · exact rd4.trans (g2.readers.trans rd1)
            · have : s.nextSid ≤ ((aofRotate s cur seg (pieceSpace s.logSize seg.data.length buf.length).2).1.ensure
                  (pieceSpace s.logSize seg.data.length buf.length).1).1.nextSid := by rw [g2.nextSid]; exact n1
              exact Nat.le_trans this n4
            · exact p4.trans (g2.pendA.trans p1)
            · intro sid bs hlt hne hr
              obtain ⟨a1, a2⟩ := k2 sid bs hlt hne hr
              have hne2 : sid ≠ (aofRotate s cur seg (pieceSpace s.logSize seg.data.length buf.length).2).2 := by
                intro e; apply a2; rw [w2, e]
              have a3 : Res src (aofPut ((aofRotate s cur seg (pieceSpace s.logSize seg.data.length buf.length).2).1.ensure
                  (pieceSpace s.logSize seg.data.length buf.length).1).1
                  (aofRotate s cur seg (pieceSpace s.logSize seg.data.length buf.length).2).2
                  (buf.take (pieceSpace s.logSize seg.data.length buf.length).1)).segs sid bs := a1.put_other hne2
              refine k4 sid bs ?_ a2 a3
              have : s.nextSid ≤ ((aofRotate s cur seg (pieceSpace s.logSize seg.data.length buf.length).2).1.ensure
                  (pieceSpace s.logSize seg.data.length buf.length).1).1.nextSid := by rw [g2.nextSid]; exact n1
              exact Nat.lt_of_lt_of_le hlt this


/-! ### operations that append nothing to the stream -/

/-- no stream byte is added or changed; the readers are the same -/
structure Quiet (s s' : Mem) : Prop where
  segs : ∀ g' ∈ s'.segs, ∃ g ∈ s.segs, g'.sid = g.sid ∧ g'.left = g.left ∧ g'.data = g.data
  readers : s'.readers = s.readers
  nextSid : s.nextSid ≤ s'.nextSid
  aofW : s'.aofW = s.aofW ∨ s'.aofW = none

theorem Quiet.refl (s : Mem) : Quiet s s :=
  ⟨fun g hg => ⟨g, hg, rfl, rfl, rfl⟩, rfl, Nat.le_refl _, Or.inl rfl⟩

theorem Quiet.trans {a b c : Mem} (h1 : Quiet a b) (h2 : Quiet b c) : Quiet a c := by
  refine ⟨?_, h2.readers.trans h1.readers, Nat.le_trans h1.nextSid h2.nextSid, ?_⟩
  · intro g hg
    obtain ⟨g1, hg1, e1, e2, e3⟩ := h2.segs g hg
    obtain ⟨g0, hg0, f1, f2, f3⟩ := h1.segs g1 hg1
    exact ⟨g0, hg0, e1.trans f1, e2.trans f2, e3.trans f3⟩
  · rcases h2.aofW with e | e
    · rcases h1.aofW with f | f
      · exact Or.inl (e.trans f)
      · exact Or.inr (e.trans f)
    · exact Or.inr e

theorem Quiet.of_gcLike {s s' : Mem} (h : GcLike s s') : Quiet s s' :=
  ⟨fun g hg => ⟨g, h.sub g hg, rfl, rfl, rfl⟩, h.readers, Nat.le_of_eq h.nextSid.symm, Or.inl h.aofW⟩

/-- same index, same readers -/
theorem Quiet.of_same {s s' : Mem} (hs : s'.segs = s.segs) (hr : s'.readers = s.readers) (hn : s.nextSid ≤ s'.nextSid)
    (hw : s'.aofW = s.aofW ∨ s'.aofW = none) : Quiet s s' :=
  ⟨fun g hg => ⟨g, hs ▸ hg, rfl, rfl, rfl⟩, hr, hn, hw⟩

theorem CInv.quiet {src : Nat → UInt8} {s s' : Mem} (h : CInv src s) (q : Quiet s s') : CInv src s' := by
  refine ⟨?_, ?_, ?_, ?_, ?_⟩
  · intro g hg
    obtain ⟨g0, hg0, _, e2, e3⟩ := q.segs g hg
    unfold SegTrue; rw [e2, e3]; exact h.segs g0 hg0
  · intro g hg
    obtain ⟨g0, hg0, e1, _, _⟩ := q.segs g hg
    rw [e1]; exact Nat.lt_of_lt_of_le (h.bound g0 hg0) q.nextSid
  · intro r hr ha; rw [q.readers] at hr; exact Nat.lt_of_lt_of_le (h.rbound r hr ha) q.nextSid
  · intro r hr ha hrel hex
    rw [q.readers] at hr
    obtain ⟨g, hg, hs⟩ := hex
    obtain ⟨g0, hg0, e1, _, _⟩ := q.segs g hg
    exact h.readers r hr ha hrel ⟨g0, hg0, by rw [← e1]; exact hs⟩
  · intro cur hc
    rcases q.aofW with e | e
    · rw [e] at hc; exact Nat.lt_of_lt_of_le (h.wsid cur hc) q.nextSid
    · rw [e] at hc; cases hc

theorem Res.quiet {src : Nat → UInt8} {s s' : Mem} {sid : Nat} {bs : Bytes} (h : Res src s.segs sid bs) (q : Quiet s s') :
    Res src s'.segs sid bs := by
  intro g hg hs
  obtain ⟨g0, hg0, e1, e2, e3⟩ := q.segs g hg
  have := h g0 hg0 (by rw [← e1]; exact hs)
  unfold MSeg.right at *
  rw [e2, e3]; exact this

theorem Quiet.keepsRes {src : Nat → UInt8} {s s' : Mem} (q : Quiet s s') : KeepsRes src s s' := by
  intro sid bs _ hne hr
  refine ⟨hr.quiet q, ?_⟩
  rcases q.aofW with e | e
  · rw [e]; exact hne
  · rw [e]; simp

theorem finishAof_quiet (s : Mem) (cur : Nat) (isCurrent : Bool) : Quiet s (s.finishAof cur isCurrent) := by
  unfold Mem.finishAof
  dsimp only
  have hmap : ∀ g' ∈ mUpdate s.segs cur (fun g => ({ g with closed := true } : MSeg)),
      ∃ g ∈ s.segs, g'.sid = g.sid ∧ g'.left = g.left ∧ g'.data = g.data := by
    intro g' hg'
    obtain ⟨g0, hg0, rfl⟩ := mem_mUpdate.mp hg'
    exact ⟨g0, hg0, by split <;> rfl, by split <;> rfl, by split <;> rfl⟩
  have haw : (if isCurrent then none else s.aofW) = s.aofW ∨ (if isCurrent then none else s.aofW) = none := by
    cases isCurrent
    · exact Or.inl rfl
    · exact Or.inr rfl
  have key : ∀ X : Mem, (∀ g' ∈ X.segs, ∃ g ∈ s.segs, g'.sid = g.sid ∧ g'.left = g.left ∧ g'.data = g.data) →
      X.readers = s.readers → X.nextSid = s.nextSid → X.aofW = (if isCurrent then none else s.aofW) →
      Quiet s (X.gc 0) := by
    intro X h1 h2 h3 h4
    exact Quiet.trans ⟨h1, h2, Nat.le_of_eq h3.symm, by rw [h4]; exact haw⟩ (Quiet.of_gcLike (gc_like X 0))
  cases mFind (mUpdate s.segs cur (fun g => { g with closed := true })) cur with
  | none =>
    dsimp only
    exact key _ hmap rfl rfl rfl
  | some g =>
    dsimp only
    split
    · exact key _ (fun g' hg' => hmap g' (List.mem_filter.mp hg').1) rfl rfl rfl
    · exact key _ hmap rfl rfl rfl

theorem finishRdb_quiet (s : Mem) (failed : Bool) :
    Quiet s (s.finishRdb failed) ∧ (s.finishRdb failed).aofW = s.aofW ∧ (s.finishRdb failed).pendA = s.pendA := by
  unfold Mem.finishRdb
  cases s.rdb with
  | none => exact ⟨Quiet.refl s, rfl, rfl⟩
  | some r =>
    dsimp only
    split
    · exact ⟨Quiet.refl s, rfl, rfl⟩
    · split
      · exact ⟨Quiet.of_same rfl rfl (Nat.le_refl _) (Or.inl rfl), rfl, rfl⟩
      · exact ⟨Quiet.of_same rfl rfl (Nat.le_refl _) (Or.inl rfl), rfl, rfl⟩

theorem reset_quiet (s : Mem) : Quiet s s.reset := by
  refine ⟨?_, rfl, Nat.le_refl _, Or.inr rfl⟩
  intro g hg; cases hg

theorem appendRdbLoop_quiet (fuel : Nat) : ∀ (s : Mem) (buf : Bytes) (done : Nat),
    Quiet s (Mem.appendRdbLoop fuel s buf done).1 ∧ (Mem.appendRdbLoop fuel s buf done).1.pendA = s.pendA ∧
      (Mem.appendRdbLoop fuel s buf done).1.aofW = s.aofW := by
  induction fuel with
  | zero => intro s buf done; exact ⟨Quiet.refl s, rfl, rfl⟩
  | succ fuel ih =>
    intro s buf done
    rw [appendRdbLoop_succ]
    split
    · exact ⟨Quiet.refl s, rfl, rfl⟩
    · cases s.rdb with
      | none => exact ⟨Quiet.refl s, rfl, rfl⟩
      | some r =>
        dsimp only
        split
        · exact ⟨Quiet.refl s, rfl, rfl⟩
        · cases mFind r.segs r.cur with
          | none => exact ⟨Quiet.refl s, rfl, rfl⟩
          | some seg =>
            dsimp only
            have q1 : Quiet s (rdbRotate s r seg (pieceSpace s.logSize seg.data.length buf.length).2).1 ∧
                (rdbRotate s r seg (pieceSpace s.logSize seg.data.length buf.length).2).1.pendA = s.pendA ∧
                (rdbRotate s r seg (pieceSpace s.logSize seg.data.length buf.length).2).1.aofW = s.aofW := by
              unfold rdbRotate
              split
              · exact ⟨Quiet.of_same rfl rfl (Nat.le_succ _) (Or.inl rfl), rfl, rfl⟩
              · exact ⟨Quiet.refl s, rfl, rfl⟩
            have g2 := ensure_like (rdbRotate s r seg (pieceSpace s.logSize seg.data.length buf.length).2).1
              (pieceSpace s.logSize seg.data.length buf.length).1
            generalize rdbRotate s r seg (pieceSpace s.logSize seg.data.length buf.length).2 = R at q1 g2 ⊢
            generalize R.1.ensure (pieceSpace s.logSize seg.data.length buf.length).1 = E at g2 ⊢
            have q2 := q1.1.trans (Quiet.of_gcLike g2)
            have p2 := g2.pendA.trans q1.2.1
            have w2 := g2.aofW.trans q1.2.2
            split
            · exact ⟨q2, p2, w2⟩
            · cases E.1.rdb with
              | none => exact ⟨q2, p2, w2⟩
              | some r2 =>
                dsimp only
                obtain ⟨q3, p3, w3⟩ := ih (rdbPut E.1 r2 R.2.cur (buf.take (pieceSpace s.logSize seg.data.length buf.length).1))
                  (buf.drop (pieceSpace s.logSize seg.data.length buf.length).1)
                  (done + (buf.take (pieceSpace s.logSize seg.data.length buf.length).1).length)
                have q4 : Quiet E.1 (rdbPut E.1 r2 R.2.cur (buf.take (pieceSpace s.logSize seg.data.length buf.length).1)) :=
                  Quiet.of_same rfl rfl (Nat.le_refl _) (Or.inl rfl)
                exact ⟨q2.trans (q4.trans q3), p3.trans p2, w3.trans w2⟩

/-! ### readers -/

theorem CInv.setReader {src : Nat → UInt8} {s : Mem} (h : CInv src s) (r' : MReader)
    (hb : r'.isAof = true → r'.seg < s.nextSid)
    (ho : r'.isAof = true → r'.released = false → (∃ g ∈ s.segs, g.sid = r'.seg) → OutTrue src r') :
    CInv src { s with readers := mSetReader s.readers r' } := by
  refine ⟨h.segs, h.bound, ?_, ?_, h.wsid⟩
  · intro x hx ha
    rcases mem_mSetReader hx with hx | rfl
    · exact h.rbound x hx ha
    · exact hb ha
  · intro x hx ha hrel hex
    rcases mem_mSetReader hx with hx | rfl
    · exact h.readers x hx ha hrel hex
    · exact ho ha hrel hex

theorem CInv.finishR {src : Nat → UInt8} {s : Mem} (h : CInv src s) {r : MReader} (hr : r ∈ s.readers) (st : RSt) :
    CInv src { s with readers := mSetReader s.readers { r with st := st, released := true } } :=
  h.setReader _ (fun ha => h.rbound r hr ha) (fun _ hrel => by cases hrel)

theorem CInv.addReader {src : Nat → UInt8} {s : Mem} (h : CInv src s) (r : MReader)
    (hb : r.isAof = true → r.seg < s.nextSid) (ho : r.isAof = true → OutTrue src r) :
    CInv src { s with readers := s.readers ++ [r] } := by
  refine ⟨h.segs, h.bound, ?_, ?_, h.wsid⟩
  · intro x hx ha
    rcases List.mem_append.mp hx with hx | hx
    · exact h.rbound x hx ha
    · rw [List.mem_singleton] at hx; subst hx; exact hb ha
  · intro x hx ha hrel hex
    rcases List.mem_append.mp hx with hx | hx
    · exact h.readers x hx ha hrel hex
    · rw [List.mem_singleton] at hx; subst hx; exact ho ha

theorem mContigRun_sub : ∀ (l : List MSeg) (g : MSeg), g ∈ mContigRun l → g ∈ l := by
  intro l
  induction l with
  | nil => intro g hg; simp [mContigRun] at hg
  | cons a t ih =>
    intro g hg
    cases t with
    | nil => simpa [mContigRun] using hg
    | cons b u =>
      simp only [mContigRun] at hg
      split at hg
      · rcases List.mem_cons.mp hg with rfl | hg
        · simp
        · exact List.mem_cons_of_mem _ (ih g hg)
      · exact List.mem_cons_of_mem _ (ih g hg)

theorem indexAof_mem {s : Mem} {off : Nat} {g : MSeg} (h : s.indexAof off = some g) : g ∈ s.segs := by
  unfold Mem.indexAof Mem.runRev at h
  have := List.mem_of_find?_eq_some h
  exact mContigRun_sub _ g (List.mem_reverse.mp this)

/-- the segment a reader's identity resolves to is the indexed one whenever an indexed one exists -/
theorem lookup_indexed {s : Mem} {sid : Nat} {g : MSeg} (hl : s.lookup sid = some g) (hex : ∃ g0 ∈ s.segs, g0.sid = sid) :
    g ∈ s.segs := by
  obtain ⟨g0, hg0, hs⟩ := hex
  unfold Mem.lookup at hl
  cases hf : mFind s.segs sid with
  | some g1 => rw [hf] at hl; cases hl; exact (mFind_some hf).1
  | none =>
    exfalso
    unfold mFind at hf
    have := List.find?_eq_none.mp hf g0 hg0
    simp [hs] at this

theorem open_true {src : Nat → UInt8} (s : Mem) (rid off : Nat) (h : CInv src s) : CInv src (s.open rid off).1 := by
  unfold Mem.open
  split
  · exact h
  · split
    · exact h
    · cases hidx : s.indexAof off with
      | some g =>
        dsimp only
        exact h.addReader _ (fun _ => h.bound g (indexAof_mem hidx)) (fun _ => ⟨by simp, BytesTrue.nil _ _⟩)
      | none =>
        dsimp only
        split
        · split
          · split
            · exact h.addReader _ (fun ha => by cases ha) (fun ha => by cases ha)
            · exact h
          · exact h
        · exact h

theorem copyStep_true {src : Nat → UInt8} (s : Mem) (rid : Nat) (h : CInv src s) : CInv src (s.copyStep rid).1 := by
  simp only [Mem.copyStep]
  cases hf : mFindReader s.readers rid with
  | none => exact h
  | some r =>
    have hr := mFindReader_mem hf
    dsimp only
    split
    · exact h
    · rename_i hrs
      have hrel : r.released = false := by
        cases hx : r.released with
        | false => rfl
        | true => simp [hx] at hrs
      split
      · exact h.finishR hr _
      · cases hl : s.lookup r.seg with
        | none => exact h.finishR hr _
        | some g =>
          dsimp only
          by_cases ha : r.isAof = true
          · rw [if_pos ha]
            split
            · exact h.finishR hr _
            · rename_i hpos
              split
              · -- delivers the rest of the segment
                refine h.setReader _ (fun _ => h.rbound r hr ha) ?_
                intro _ _ hex
                have hg := lookup_indexed hl hex
                obtain ⟨hp, ht⟩ := h.readers r hr ha hrel hex
                have hbs : BytesTrue src r.pos (g.data.drop (r.pos - g.left)) :=
                  ((h.segs g hg).drop (r.pos - g.left)).congr (by omega)
                refine ⟨?_, ?_⟩
                · show r.pos + (g.data.drop (r.pos - g.left)).length = r.start + (r.out ++ g.data.drop (r.pos - g.left)).length
                  rw [List.length_append]; omega
                · exact ht.append (hbs.congr hp.symm)
              · split
                · cases hn : mNextOf s.segs g.sid with
                  | none => exact h.finishR hr _
                  | some nx =>
                    dsimp only
                    obtain ⟨pre, g0, post, hsplit, hs0⟩ := mNextOf_some hn
                    have hnx : nx ∈ s.segs := by rw [hsplit]; simp
                    have hg0 : g0 ∈ s.segs := by rw [hsplit]; simp
                    refine h.setReader _ (fun _ => h.bound nx hnx) ?_
                    intro _ _ _
                    exact h.readers r hr ha hrel ⟨g0, hg0, by rw [hs0]; exact lookup_sid hl⟩
                · exact h
          · rw [if_neg ha]
            have hna : ∀ r' : MReader, r'.isAof = r.isAof → CInv src { s with readers := mSetReader s.readers r' } := by
              intro r' e
              exact h.setReader r' (fun ha' => by rw [e] at ha'; exact absurd ha' ha) (fun ha' => by rw [e] at ha'; exact absurd ha' ha)
            repeat' split
            all_goals first | exact h | exact hna _ rfl

theorem copyStep_frame (s : Mem) (rid : Nat) :
    (s.copyStep rid).1.segs = s.segs ∧ (s.copyStep rid).1.nextSid = s.nextSid ∧ (s.copyStep rid).1.aofW = s.aofW ∧
      (s.copyStep rid).1.pendA = s.pendA := by
  simp only [Mem.copyStep]
  repeat' split
  all_goals exact ⟨rfl, rfl, rfl, rfl⟩


theorem CInv.touchReader {src : Nat → UInt8} {s : Mem} (h : CInv src s) {r : MReader} (hr : r ∈ s.readers) (r' : MReader)
    (e1 : r'.isAof = r.isAof) (e2 : r'.seg = r.seg) (e3 : r'.pos = r.pos) (e4 : r'.start = r.start) (e5 : r'.out = r.out)
    (e6 : r'.released = false → r.released = false) : CInv src { s with readers := mSetReader s.readers r' } := by
  refine h.setReader r' (fun ha => by rw [e2]; exact h.rbound r hr (e1 ▸ ha)) ?_
  intro ha hrel hex
  have := h.readers r hr (e1 ▸ ha) (e6 hrel) (by rw [← e2]; exact hex)
  unfold OutTrue at *
  rw [e3, e4, e5]; exact this

theorem open_frame (s : Mem) (rid off : Nat) :
    (s.open rid off).1.segs = s.segs ∧ (s.open rid off).1.nextSid = s.nextSid ∧ (s.open rid off).1.aofW = s.aofW ∧
      (s.open rid off).1.pendA = s.pendA := by
  unfold Mem.open
  repeat' split
  all_goals exact ⟨rfl, rfl, rfl, rfl⟩

theorem consume_true {src : Nat → UInt8} (s : Mem) (rid n : Nat) (h : CInv src s) :
    CInv src (s.consume rid n).1 ∧ (s.consume rid n).1.segs = s.segs ∧ (s.consume rid n).1.nextSid = s.nextSid ∧
      (s.consume rid n).1.aofW = s.aofW ∧ (s.consume rid n).1.pendA = s.pendA := by
  unfold Mem.consume
  cases hf : mFindReader s.readers rid with
  | none => exact ⟨h, rfl, rfl, rfl, rfl⟩
  | some r =>
    have hr := mFindReader_mem hf
    dsimp only
    split
    · exact ⟨h.touchReader hr _ rfl rfl rfl rfl rfl (fun x => x), rfl, rfl, rfl, rfl⟩
    · split
      · exact ⟨h.touchReader hr _ rfl rfl rfl rfl rfl (fun x => x), rfl, rfl, rfl, rfl⟩
      · split
        · split <;> exact ⟨h, rfl, rfl, rfl, rfl⟩
        · exact ⟨h, rfl, rfl, rfl, rfl⟩

theorem closeReader_true {src : Nat → UInt8} (s : Mem) (rid : Nat) (h : CInv src s) :
    CInv src (s.closeReader rid).1 ∧ (s.closeReader rid).1.segs = s.segs ∧ (s.closeReader rid).1.nextSid = s.nextSid ∧
      (s.closeReader rid).1.aofW = s.aofW ∧ (s.closeReader rid).1.pendA = s.pendA := by
  unfold Mem.closeReader
  cases hf : mFindReader s.readers rid with
  | none => exact ⟨h, rfl, rfl, rfl, rfl⟩
  | some r =>
    have hr := mFindReader_mem hf
    dsimp only
    split
    · exact ⟨h.touchReader hr _ rfl rfl rfl rfl rfl (fun x => x), rfl, rfl, rfl, rfl⟩
    · exact ⟨h.touchReader hr _ rfl rfl rfl rfl rfl (fun x => by cases x), rfl, rfl, rfl, rfl⟩

/-! ### the whole state -/

/-- what the current stream writer is waiting to append, if it is blocked, is the
    source's bytes at the end of its segment -/
structure PInv (src : Nat → UInt8) (s : Mem) : Prop where
  writer : s.pendA ≠ none → s.aofW ≠ none
  res : ∀ buf cur, s.pendA = some buf → s.aofW = some cur → Res src s.segs cur buf

theorem PInv.of_none {src : Nat → UInt8} {s : Mem} (h : s.pendA = none) : PInv src s :=
  ⟨fun hne => absurd h hne, fun buf cur hb => by rw [h] at hb; cases hb⟩

theorem PInv.quiet {src : Nat → UInt8} {s s' : Mem} (h : PInv src s) (q : Quiet s s')
    (hp : s'.pendA = s.pendA ∧ s'.aofW = s.aofW ∨ s'.pendA = none) : PInv src s' := by
  rcases hp with ⟨e1, e2⟩ | e
  · refine ⟨by rw [e1, e2]; exact h.writer, ?_⟩
    intro buf cur hb hc
    rw [e1] at hb; rw [e2] at hc
    exact (h.res buf cur hb hc).quiet q
  · exact PInv.of_none e

theorem appendAofLoop_blocked_writer (fuel : Nat) : ∀ (s : Mem) (buf : Bytes) (done : Nat),
    (Mem.appendAofLoop fuel s buf done).2.2 = true → (Mem.appendAofLoop fuel s buf done).1.aofW ≠ none := by
  induction fuel with
  | zero => intro s buf done h; simp [Mem.appendAofLoop] at h
  | succ fuel ih =>
    intro s buf done
    rw [appendAofLoop_succ]
    split
    · intro h; cases h
    · cases haw : s.aofW with
      | none => intro h; cases h
      | some cur =>
        dsimp only
        cases mFind s.segs cur with
        | none => intro h; cases h
        | some seg =>
          dsimp only
          have g2 := ensure_like (aofRotate s cur seg (pieceSpace s.logSize seg.data.length buf.length).2).1
            (pieceSpace s.logSize seg.data.length buf.length).1
          have hw1 : (aofRotate s cur seg (pieceSpace s.logSize seg.data.length buf.length).2).1.aofW ≠ none := by
            unfold aofRotate
            split
            · simp
            · rw [haw]; simp
          split
          · intro _; rw [g2.aofW]; exact hw1
          · exact ih _ _ _

theorem finishAof_aofW (s : Mem) (cur : Nat) : (s.finishAof cur false).aofW = s.aofW := by
  unfold Mem.finishAof
  dsimp only
  cases mFind (mUpdate s.segs cur (fun g => { g with closed := true })) cur with
  | none => dsimp only; exact (gc_like _ 0).aofW
  | some g =>
    dsimp only
    split
    · exact (gc_like _ 0).aofW
    · exact (gc_like _ 0).aofW

/-- the chunk handed to a stream writer is the source's bytes at the end of its segment -/
def ChunkTrue (src : Nat → UInt8) (s : Mem) : MOp → Prop
  | .aofAppend chunk => ∀ cur, s.aofW = some cur → Res src s.segs cur chunk
  | _ => True

theorem KeepsRes.refl (src : Nat → UInt8) (s : Mem) : KeepsRes src s s := fun _ _ _ hne hr => ⟨hr, hne⟩

theorem KeepsRes.of_same {src : Nat → UInt8} {s s' : Mem} (hs : s'.segs = s.segs) (hw : s'.aofW = s.aofW) : KeepsRes src s s' :=
  fun _ _ _ hne hr => ⟨hs ▸ hr, hw ▸ hne⟩

/-- the stream writer's append: the loop, then the rest of the chunk waits if it blocked -/
theorem append_true {src : Nat → UInt8} (s : Mem) (buf : Bytes) (h : CInv src s)
    (hb : ∀ cur, s.aofW = some cur → Res src s.segs cur buf) :
    let r := Mem.appendAofLoop (buf.length + 1) s buf 0
    ∀ s' : Mem, (s' = { r.1 with pendA := some (buf.drop r.2.1) } ∧ r.2.2 = true ∨ s' = { r.1 with pendA := none }) →
      CInv src s' ∧ PInv src s' ∧ s.nextSid ≤ s'.nextSid ∧ KeepsRes src s s' := by
  intro r s' hs'
  obtain ⟨c1, _, r1, rd1, n1, _, k1⟩ := appendAofLoop_true (src := src) (buf.length + 1) s buf 0 h hb
  rcases hs' with ⟨rfl, hbl⟩ | rfl
  · refine ⟨c1.congr rfl rfl rfl rfl, ⟨fun _ => appendAofLoop_blocked_writer _ s buf 0 hbl, ?_⟩, n1, ?_⟩
    · intro b cur hb' hc
      cases hb'
      have := r1 cur hc
      simpa using this
    · intro sid bs hlt hne hr; exact k1 sid bs hlt hne hr
  · refine ⟨c1.congr rfl rfl rfl rfl, PInv.of_none rfl, n1, ?_⟩
    intro sid bs hlt hne hr; exact k1 sid bs hlt hne hr


theorem push_keepsRes {src : Nat → UInt8} {s : Mem} (h : CInv src s) (left : Nat) (s1 : Mem)
    (hs : s1.segs = s.segs ++ [{ sid := s.nextSid, left := left, data := [], closed := false, next := none }])
    (hw : s1.aofW = some s.nextSid) : KeepsRes src s s1 := by
  intro sid bs hlt _ hr
  refine ⟨?_, ?_⟩
  · rw [hs]; exact Res.push_other h hr hlt _ rfl
  · rw [hw]; intro e; cases e; omega

theorem KeepsRes.trans_quiet {src : Nat → UInt8} {a b c : Mem} (h1 : KeepsRes src a b) (q : Quiet b c) : KeepsRes src a c := by
  intro sid bs hlt hne hr
  obtain ⟨r1, w1⟩ := h1 sid bs hlt hne hr
  refine ⟨r1.quiet q, ?_⟩
  rcases q.aofW with e | e
  · rw [e]; exact w1
  · rw [e]; simp

/-- `Mem.step (.newAofWriter off)` after the discontinuity check -/
theorem newAofWriter_true {src : Nat → UInt8} (s : Mem) (off : Nat) (hb : Nat) (hh : Bytes) (h : CInv src s) (hp : PInv src s) :
    let s1 : Mem := { s with segs := s.segs ++ [{ sid := s.nextSid, left := off, data := [], closed := false, next := none }],
                             aofW := some s.nextSid, nextSid := s.nextSid + 1, hbase := hb, hist := hh }
    let s2 := match s.aofW with
      | some old => s1.finishAof old false
      | none => s1
    CInv src s2 ∧ PInv src s2 ∧ s.nextSid ≤ s2.nextSid ∧ KeepsRes src s s2 := by
  intro s1 s2
  have c1 : CInv src s1 := (h.push off).congr rfl rfl rfl rfl
  have k1 : KeepsRes src s s1 := push_keepsRes h off s1 rfl rfl
  cases haw : s.aofW with
  | none =>
    have e : s2 = s1 := by show (match s.aofW with | some old => s1.finishAof old false | none => s1) = s1; rw [haw]
    rw [e]
    have hpn : s.pendA = none := by
      cases hpa : s.pendA with
      | none => rfl
      | some b => exact absurd haw (hp.writer (by rw [hpa]; simp))
    exact ⟨c1, PInv.of_none hpn, Nat.le_succ _, k1⟩
  | some old =>
    have e : s2 = s1.finishAof old false := by
      show (match s.aofW with | some old => s1.finishAof old false | none => s1) = _; rw [haw]
    rw [e]
    have q := finishAof_quiet s1 old false
    refine ⟨c1.quiet q, PInv.of_none ?_, Nat.le_trans (Nat.le_succ _) q.nextSid, k1.trans_quiet q⟩
    unfold Mem.finishAof
    dsimp only
    cases mFind (mUpdate s1.segs old (fun g => { g with closed := true })) old with
    | none => dsimp only; exact (gc_like _ 0).pendA
    | some g =>
      dsimp only
      split
      · exact (gc_like _ 0).pendA
      · exact (gc_like _ 0).pendA

theorem mem_step_true {src : Nat → UInt8} (s : Mem) (op : MOp) (h : CInv src s) (hp : PInv src s)
    (hc : ChunkTrue src s op) :
    CInv src (s.step op).1 ∧ PInv src (s.step op).1 ∧ s.nextSid ≤ (s.step op).1.nextSid ∧ KeepsRes src s (s.step op).1 := by
  have viaQuiet : ∀ s' : Mem, Quiet s s' → (s'.pendA = s.pendA ∧ s'.aofW = s.aofW ∨ s'.pendA = none) →
      CInv src s' ∧ PInv src s' ∧ s.nextSid ≤ s'.nextSid ∧ KeepsRes src s s' :=
    fun s' q hpa => ⟨h.quiet q, hp.quiet q hpa, q.nextSid, q.keepsRes⟩
  have same : CInv src s ∧ PInv src s ∧ s.nextSid ≤ s.nextSid ∧ KeepsRes src s s :=
    ⟨h, hp, Nat.le_refl _, KeepsRes.refl src s⟩
  have viaReaders : ∀ s' : Mem, CInv src s' → s'.segs = s.segs → s'.nextSid = s.nextSid → s'.aofW = s.aofW →
      s'.pendA = s.pendA → CInv src s' ∧ PInv src s' ∧ s.nextSid ≤ s'.nextSid ∧ KeepsRes src s s' := by
    intro s' c e1 e2 e3 e4
    refine ⟨c, ⟨by rw [e4, e3]; exact hp.writer, ?_⟩, Nat.le_of_eq e2.symm, KeepsRes.of_same e1 e3⟩
    intro buf cur hb hw
    rw [e4] at hb; rw [e3] at hw; rw [e1]
    exact hp.res buf cur hb hw
  -- the snapshot writer's side: the loop, possibly followed by `finishRdb`
  have rdbSide : ∀ (buf : Bytes) (s' : Mem),
      (s' = { (Mem.appendRdbLoop (buf.length + 1) s buf 0).1 with pendR := s'.pendR } ∨
       s' = ({ (Mem.appendRdbLoop (buf.length + 1) s buf 0).1 with pendR := none } : Mem).finishRdb false ∨
       s' = (Mem.appendRdbLoop (buf.length + 1) s buf 0).1.finishRdb false) →
      CInv src s' ∧ PInv src s' ∧ s.nextSid ≤ s'.nextSid ∧ KeepsRes src s s' := by
    intro buf s' hs'
    obtain ⟨q1, p1, w1⟩ := appendRdbLoop_quiet (buf.length + 1) s buf 0
    rcases hs' with e | e | e
    · rw [e]
      exact viaQuiet _ (q1.trans (Quiet.of_same rfl rfl (Nat.le_refl _) (Or.inl rfl))) (Or.inl ⟨p1, w1⟩)
    · rw [e]
      obtain ⟨q2, w2, p2⟩ := finishRdb_quiet ({ (Mem.appendRdbLoop (buf.length + 1) s buf 0).1 with pendR := none } : Mem) false
      have q0 : Quiet (Mem.appendRdbLoop (buf.length + 1) s buf 0).1
          ({ (Mem.appendRdbLoop (buf.length + 1) s buf 0).1 with pendR := none } : Mem) :=
        Quiet.of_same rfl rfl (Nat.le_refl _) (Or.inl rfl)
      exact viaQuiet _ ((q1.trans q0).trans q2) (Or.inl ⟨p2.trans p1, w2.trans w1⟩)
    · rw [e]
      obtain ⟨q2, w2, p2⟩ := finishRdb_quiet (Mem.appendRdbLoop (buf.length + 1) s buf 0).1 false
      exact viaQuiet _ (q1.trans q2) (Or.inl ⟨p2.trans p1, w2.trans w1⟩)
  cases op with
  | setRunId id => exact viaQuiet _ (Quiet.of_same rfl rfl (Nat.le_refl _) (Or.inl rfl)) (Or.inl ⟨rfl, rfl⟩)
  | delRunId id =>
    simp only [Mem.step]
    split
    · exact same
    · exact viaQuiet _ ((reset_quiet s).trans (Quiet.of_same rfl rfl (Nat.le_refl _) (Or.inl rfl))) (Or.inr rfl)
  | newRdbWriter off size =>
    exact viaQuiet _ ((reset_quiet s).trans (Quiet.of_same rfl rfl (Nat.le_succ _) (Or.inl rfl))) (Or.inr rfl)
  | rdbAppend chunk =>
    simp only [Mem.step]
    split
    · exact same
    · split
      · exact rdbSide chunk _ (Or.inl rfl)
      · split
        · split
          · exact rdbSide chunk _ (Or.inr (Or.inr rfl))
          · exact rdbSide chunk _ (Or.inl rfl)
        · exact rdbSide chunk _ (Or.inl rfl)
  | rdbClose =>
    obtain ⟨q, w, p⟩ := finishRdb_quiet s false
    exact viaQuiet _ q (Or.inl ⟨p, w⟩)
  | rdbFail =>
    obtain ⟨q, w, p⟩ := finishRdb_quiet s true
    exact viaQuiet _ q (Or.inl ⟨p, w⟩)
  | newAofWriter off =>
    simp only [Mem.step]
    cases hm : mLastRight s.segs with
    | some r =>
      dsimp only
      split
      · exact same
      · exact newAofWriter_true s off s.hbase s.hist h hp
    | none =>
      dsimp only
      have hs : s.segs = [] := by
        cases hsg : s.segs with
        | nil => rfl
        | cons a t =>
          rw [mLastRight_eq, hsg] at hm
          cases hl : (a :: t).getLast? with
          | none => simp at hl
          | some x => rw [hl] at hm; cases hm
      have := newAofWriter_true s off off [] h hp
      rw [hs] at this
      exact this
  | aofAppend chunk =>
    simp only [Mem.step]
    cases haw : s.aofW with
    | none => exact same
    | some cur =>
      dsimp only
      split
      · exact same
      · have := append_true s chunk h (by intro c hc'; exact hc c hc')
        split
        · rename_i hbl
          exact this _ (Or.inl ⟨rfl, hbl⟩)
        · rename_i hbl
          have hpn : s.pendA = none := by
            cases hpa : s.pendA with
            | none => rfl
            | some b => rename_i hps; rw [hpa] at hps; simp at hps
          obtain ⟨c1, _, _, _, n1, p1, k1⟩ := appendAofLoop_true (src := src) (chunk.length + 1) s chunk 0 h
            (by intro c hc'; exact hc c hc')
          exact ⟨c1, PInv.of_none (p1.trans hpn), n1, k1⟩
  | aofClose =>
    simp only [Mem.step]
    cases haw : s.aofW with
    | none => exact same
    | some cur =>
      dsimp only
      refine viaQuiet _ (finishAof_quiet s cur true) (Or.inr ?_)
      unfold Mem.finishAof
      dsimp only
      cases mFind (mUpdate s.segs cur (fun g => { g with closed := true })) cur with
      | none => dsimp only; exact (gc_like _ 0).pendA
      | some g =>
        dsimp only
        split
        · exact (gc_like _ 0).pendA
        · exact (gc_like _ 0).pendA
  | openReader rid off =>
    obtain ⟨e1, e2, e3, e4⟩ := open_frame s rid off
    exact viaReaders _ (open_true s rid off h) e1 e2 e3 e4
  | startReader rid =>
    simp only [Mem.step]
    cases hf : mFindReader s.readers rid with
    | none => exact same
    | some r =>
      dsimp only
      split
      · exact same
      · exact viaReaders _ (h.touchReader (mFindReader_mem hf) _ rfl rfl rfl rfl rfl (fun x => x)) rfl rfl rfl rfl
  | copyStep rid =>
    obtain ⟨e1, e2, e3, e4⟩ := copyStep_frame s rid
    exact viaReaders _ (copyStep_true s rid h) e1 e2 e3 e4
  | consume rid n =>
    obtain ⟨c, e1, e2, e3, e4⟩ := consume_true (src := src) s rid n h
    exact viaReaders _ c e1 e2 e3 e4
  | closeReader rid =>
    obtain ⟨c, e1, e2, e3, e4⟩ := closeReader_true (src := src) s rid h
    exact viaReaders _ c e1 e2 e3 e4
  | retryAppend =>
    simp only [Mem.step, Mem.retry]
    cases hpa : s.pendA with
    | some buf =>
      dsimp only
      cases haw : s.aofW with
      | none => exact absurd haw (hp.writer (by rw [hpa]; simp))
      | some cur =>
        dsimp only
        have := append_true s buf h (by intro c hc'; exact hp.res buf c hpa hc')
        split
        · rename_i hbl
          exact this _ (Or.inl ⟨rfl, hbl⟩)
        · exact this _ (Or.inr rfl)
    | none =>
      dsimp only
      cases hpr : s.pendR with
      | none => exact same
      | some buf =>
        dsimp only
        cases hr : s.rdb with
        | none =>
          dsimp only
          exact viaQuiet _ (Quiet.of_same rfl rfl (Nat.le_refl _) (Or.inl rfl)) (Or.inr rfl)
        | some r =>
          dsimp only
          split
          · exact viaQuiet _ (Quiet.of_same rfl rfl (Nat.le_refl _) (Or.inl rfl)) (Or.inr rfl)
          · split
            · exact rdbSide buf _ (Or.inl rfl)
            · split
              · split
                · exact rdbSide buf _ (Or.inr (Or.inl rfl))
                · exact rdbSide buf _ (Or.inl rfl)
              · exact rdbSide buf _ (Or.inl rfl)


/-! ### the window -/

/-- the invariant of a window state -/
structure WInv (src : Nat → UInt8) (w : MemW) : Prop where
  core : CInv src w.s
  pend : PInv src w.s
  old : ∀ o p, w.old = some ⟨o, p⟩ →
    o < w.s.nextSid ∧ w.s.aofW ≠ some o ∧ ∀ piece, p = some piece → Res src w.s.segs o piece

theorem WInv.init (src : Nat → UInt8) (l m : Nat) : WInv src (MemW.init l m) :=
  ⟨CInv.init src l m, PInv.of_none rfl, by intro o p h; cases h⟩

def ChunkTrueW (src : Nat → UInt8) (w : MemW) : WOp → Prop
  | .base o => ChunkTrue src w.s o
  | _ => True

/-- every chunk handed to a stream writer is the source's bytes at the end of its segment -/
def SrcOkW (src : Nat → UInt8) (w : MemW) : List WOp → Prop
  | [] => True
  | op :: rest => ChunkTrueW src w op ∧ SrcOkW src (w.step op).1 rest

theorem installWriter_spec {s s1 : Mem} {off : Nat} (h : s.installWriter off = some s1) :
    s1.segs = s.segs ++ [{ sid := s.nextSid, left := off, data := [], closed := false, next := none }] ∧
    s1.aofW = some s.nextSid ∧ s1.nextSid = s.nextSid + 1 ∧ s1.readers = s.readers ∧ s1.pendA = s.pendA := by
  unfold Mem.installWriter at h
  cases hm : mLastRight s.segs with
  | some r =>
    rw [hm] at h
    dsimp only at h
    split at h
    · cases h
    · cases h; exact ⟨rfl, rfl, rfl, rfl, rfl⟩
  | none =>
    rw [hm] at h
    dsimp only at h
    cases h
    have hs : s.segs = [] := by
      cases hsg : s.segs with
      | nil => rfl
      | cons a t =>
        rw [mLastRight_eq, hsg] at hm
        cases hl : (a :: t).getLast? with
        | none => simp at hl
        | some x => rw [hl] at hm; cases hm
    exact ⟨by rw [hs]; rfl, rfl, rfl, rfl, rfl⟩

theorem WInv.step {src : Nat → UInt8} {w : MemW} (h : WInv src w) (op : WOp) (hc : ChunkTrueW src w op) :
    WInv src (w.step op).1 := by
  cases op with
  | base o =>
    obtain ⟨c, p, n, k⟩ := mem_step_true w.s o h.core h.pend hc
    refine ⟨c, p, ?_⟩
    intro o' p' ho
    have ho' : w.old = some ⟨o', p'⟩ := ho
    obtain ⟨a1, a2, a3⟩ := h.old o' p' ho'
    have kk := k o' [] a1 a2 (fun g _ _ => BytesTrue.nil _ _)
    refine ⟨Nat.lt_of_lt_of_le a1 n, kk.2, ?_⟩
    intro piece hp
    exact (k o' piece a1 a2 (a3 piece hp)).1
  | install off =>
    simp only [MemW.step]
    split
    · exact h
    · rename_i hold
      have hon : w.old = none := by
        cases ho : w.old with
        | none => rfl
        | some x => rw [ho] at hold; simp at hold
      cases hi : w.s.installWriter off with
      | none => exact h
      | some s1 =>
        dsimp only
        obtain ⟨e1, e2, e3, e4, e5⟩ := installWriter_spec hi
        have c1 : CInv src s1 := by
          have := (h.core.push off)
          exact this.shrink (by rw [e1]; exact fun g hg => hg) (Nat.le_of_eq e3.symm) e4 (Or.inl e2)
        cases haw : w.s.aofW with
        | none =>
          dsimp only
          have hpn : w.s.pendA = none := by
            cases hpa : w.s.pendA with
            | none => rfl
            | some b => exact absurd haw (h.pend.writer (by rw [hpa]; simp))
          exact ⟨c1, PInv.of_none (e5.trans hpn), by intro o p ho; cases ho⟩
        | some cur =>
          dsimp only
          refine ⟨c1.congr rfl rfl rfl rfl, PInv.of_none rfl, ?_⟩
          intro o p ho
          cases ho
          have hcur := h.core.wsid cur haw
          refine ⟨by show cur < s1.nextSid; rw [e3]; omega, ?_, ?_⟩
          · show s1.aofW ≠ some cur
            rw [e2]; intro e; cases e; omega
          · intro piece hp
            show Res src s1.segs cur piece
            unfold Mem.blockedPiece at hp
            cases hpa : w.s.pendA with
            | none => rw [hpa] at hp; cases hp
            | some buf =>
              rw [hpa, haw] at hp
              dsimp only at hp
              cases hf : mFind w.s.segs cur with
              | none => rw [hf] at hp; cases hp
              | some seg =>
                rw [hf] at hp
                cases hp
                rw [e1]
                exact Res.push_other h.core ((h.pend.res buf cur hpa haw).take _) hcur _ rfl
  | oldWake =>
    simp only [MemW.step]
    cases ho : w.old with
    | none => exact h
    | some ow =>
      obtain ⟨o, p⟩ := ow
      cases p with
      | none => exact h
      | some piece =>
        dsimp only
        obtain ⟨a1, a2, a3⟩ := h.old o (some piece) ho
        have g2 := ensure_like w.s piece.length
        have c2 := h.core.gcLike g2
        have p2 : PInv src (w.s.ensure piece.length).1 :=
          h.pend.quiet (Quiet.of_gcLike g2) (Or.inl ⟨g2.pendA, g2.aofW⟩)
        have r2 : Res src (w.s.ensure piece.length).1.segs o piece := (a3 piece rfl).shrink g2.sub
        have w2 : (w.s.ensure piece.length).1.aofW ≠ some o := by rw [g2.aofW]; exact a2
        have n2 : o < (w.s.ensure piece.length).1.nextSid := by rw [g2.nextSid]; exact a1
        split
        · -- still no room
          refine ⟨c2, p2, ?_⟩
          intro o' p' ho'
          cases ho'
          exact ⟨n2, w2, fun pc hpc => by cases hpc; exact r2⟩
        · cases hf : mFind (w.s.ensure piece.length).1.segs o with
          | none =>
            dsimp only
            refine ⟨c2, p2, ?_⟩
            intro o' p' ho'
            cases ho'
            exact ⟨n2, w2, fun pc hpc => by cases hpc⟩
          | some _ =>
            dsimp only
            refine ⟨(c2.put o piece _ r2).congr rfl rfl rfl rfl, ⟨p2.writer, ?_⟩, ?_⟩
            · intro buf cur hb hcw
              have hne : cur ≠ o := by intro e; apply w2; rw [← e]; exact hcw
              exact (p2.res buf cur hb hcw).put_other hne
            · intro o' p' ho'
              cases ho'
              exact ⟨n2, w2, fun pc hpc => by cases hpc⟩
  | finishOld =>
    simp only [MemW.step]
    cases ho : w.old with
    | none => exact h
    | some ow =>
      obtain ⟨o, p⟩ := ow
      dsimp only
      have q := finishAof_quiet w.s o false
      have hw := finishAof_aofW w.s o
      refine ⟨(h.core.quiet q).congr rfl rfl rfl rfl, ⟨?_, ?_⟩, by intro o' p' ho'; cases ho'⟩
      · show w.s.pendA ≠ none → (w.s.finishAof o false).aofW ≠ none
        rw [hw]; exact h.pend.writer
      · intro buf cur hb hcw
        have hcw' : (w.s.finishAof o false).aofW = some cur := hcw
        rw [hw] at hcw'
        show Res src (w.s.finishAof o false).segs cur buf
        exact (h.pend.res buf cur hb hcw').quiet q

theorem WInv.run {src : Nat → UInt8} {w : MemW} (h : WInv src w) (ops : List WOp) (hs : SrcOkW src w ops) :
    WInv src (w.run ops) := by
  induction ops generalizing w with
  | nil => exact h
  | cons op rest ih => exact ih (h.step op hs.1) hs.2

/-! ### the two lock sections with nothing in between are the atomic step -/

theorem gc_pendA (s : Mem) (n : Nat) : (s.gc n).pendA = s.pendA := (gc_like s n).pendA

theorem finishAof_pendA (s : Mem) (cur : Nat) (b : Bool) : (s.finishAof cur b).pendA = none := by
  unfold Mem.finishAof
  dsimp only
  cases mFind (mUpdate s.segs cur (fun g => { g with closed := true })) cur with
  | none => dsimp only; exact gc_pendA _ 0
  | some g =>
    dsimp only
    split
    · exact gc_pendA _ 0
    · exact gc_pendA _ 0

theorem step_newAofWriter_eq (s : Mem) (off : Nat) :
    (s.step (.newAofWriter off)).1 = match s.installWriter off with
      | none => s
      | some s1 => (match s.aofW with
        | some old => s1.finishAof old false
        | none => s1) := by
  simp only [Mem.step, Mem.installWriter]
  cases mLastRight s.segs with
  | some r =>
    dsimp only
    by_cases hr : (r != off) = true
    · simp only [hr, if_true]
    · simp only [hr, if_false, Bool.false_eq_true]
      cases s.aofW <;> rfl
  | none => rfl

theorem pendA_eta (X : Mem) (h : X.pendA = none) : ({ X with pendA := none } : Mem) = X := by
  cases X
  simp only at h
  subst h
  rfl

theorem window_atomic (w : MemW) (off : Nat) (hold : w.old = none) :
    ((w.step (.install off)).1.step .finishOld).1.s = (w.s.step (.newAofWriter off)).1 ∧
    ((w.step (.install off)).1.step .finishOld).1.old = none := by
  rw [step_newAofWriter_eq]
  simp only [MemW.step, hold, Option.isSome_none, Bool.false_eq_true, if_false]
  cases hi : w.s.installWriter off with
  | none =>
    dsimp only
    rw [hold]
    exact ⟨rfl, hold⟩
  | some s1 =>
    dsimp only
    cases haw : w.s.aofW with
    | none => exact ⟨rfl, rfl⟩
    | some cur =>
      dsimp only
      refine ⟨?_, rfl⟩
      have e' : Mem.finishAof ({ s1 with pendA := none } : Mem) cur false = Mem.finishAof s1 cur false := rfl
      show ({ Mem.finishAof ({ s1 with pendA := none } : Mem) cur false with pendA := none } : Mem) = _
      rw [e']
      exact pendA_eta _ (finishAof_pendA s1 cur false)

end GunYu.Store
