/-
  C05, disk backend — BOUNDED PROGRESS: the reader REACHES the writer's end.

  `follow_delivers` (Proofs/StoreProgress.lean) is one catch-up step. Here the steps are
  composed over a SCHEDULE: any interleaving of
    * the reader's own moves `AofRotateReader.read` (`Disk.follow` / `Disk.followGc`,
      the driven `dread` / `dreadgc` operations),
    * collector passes, appends of the stream writer, snapshot chunks and every move of
      OTHER readers (open, read, both halves of a rotation, close) — `quiet` operations.
  The reader's distance to the writer's end (`lag`) obeys a counted bound (`lagBound`):
  every own move takes at least one byte off it while it is positive, a collector pass
  or another reader's move never adds to it, an append adds exactly its length. The
  fairness assumption of the liveness reading is thereby a HYPOTHESIS of a safety
  theorem: "the schedule contains k moves of the reader after the last append".
-/
import GunYu.Proofs.StoreProgress

namespace GunYu.Store
open GunYu

/-- a move of the schedule -/
inductive PMove where
  | follow (n : Nat)        -- `AofRotateReader.read` with a buffer of n bytes
  | followGc (n : Nat)      -- the same with a collector pass inside its rotation step
  | other (op : DOp)        -- anything else that does not invalidate the reader
deriving Repr, DecidableEq

/-- operations that neither are moves of reader `rid` nor invalidate stream readers -/
def quiet (rid : Nat) : DOp → Bool
  | .gc | .aofAppend _ | .rdbAppend _ => true
  | .openReader r _ _ | .read r _ | .advAcquire r | .advRelease r | .closeReader r => r != rid
  | _ => false

def Disk.move (s : Disk) (rid : Nat) : PMove → Disk
  | .follow n => (s.follow rid n).1
  | .followGc n => (s.followGc rid n).1
  | .other op => (s.step op).1

def Disk.sched (s : Disk) (rid : Nat) : List PMove → Disk
  | [] => s
  | m :: rest => (s.move rid m).sched rid rest

/-- the schedule respects the callers' protocol and leaves the reader alone -/
def Disk.schedOk (s : Disk) (rid : Nat) : List PMove → Prop
  | [] => True
  | m :: rest =>
    (match m with
     | .follow n => 0 < n
     | .followGc n => 0 < n
     | .other op => quiet rid op = true ∧ s.okOp op) ∧ (s.move rid m).schedOk rid rest

instance Disk.decSchedOk : (s : Disk) → (rid : Nat) → (l : List PMove) → Decidable (s.schedOk rid l)
  | _, _, [] => isTrue trivial
  | s, rid, m :: rest =>
    have := Disk.decSchedOk (s.move rid m) rid rest
    by
      unfold Disk.schedOk
      cases m <;> simp only [] <;> infer_instance

/-- the counted bound on the reader's distance to the writer's end -/
def lagBound : Nat → List PMove → Nat
  | d, [] => d
  | d, .follow _ :: rest => lagBound (d - 1) rest
  | d, .followGc _ :: rest => lagBound (d - 1) rest
  | d, .other (.aofAppend chunk) :: rest => lagBound (d + chunk.length) rest
  | d, .other _ :: rest => lagBound d rest

/-- reader `rid` is an open stream reader between two moves (not inside a rotation step) -/
structure Follows (s : Disk) (rid : Nat) (r : DReader) : Prop where
  found : findReader s.readers rid = some r
  isOpen : r.isOpen = true
  isAof : r.isAof = true
  prev : r.prev = none

def Disk.endOff (s : Disk) : Nat := s.hbase + s.hist.length

/-! ### frame lemmas -/

theorem findReader_setReader_ne (rs : List DReader) (x : DReader) (rid : Nat) (h : x.id ≠ rid) :
    findReader (setReader rs x) rid = findReader rs rid := by
  unfold findReader setReader
  induction rs with
  | nil => rfl
  | cons y t ih =>
    simp only [List.map_cons, List.find?_cons]
    by_cases hy : y.id == x.id
    · have hyx : y.id = x.id := by simpa using hy
      have h1 : (x.id == rid) = false := by simpa using h
      have h2 : (y.id == rid) = false := by rw [hyx]; exact h1
      simp only [hy, if_true, h1, h2]
      exact ih
    · simp only [hy, Bool.false_eq_true, if_false]
      cases hyr : (y.id == rid) with
      | true => rfl
      | false => exact ih

theorem findReader_setReader_hit {rs : List DReader} {rid : Nat} {r x : DReader}
    (hf : findReader rs rid = some r) (hx : x.id = rid) : findReader (setReader rs x) rid = some x := by
  unfold findReader setReader at *
  induction rs with
  | nil => simp at hf
  | cons y t ih =>
    simp only [List.map_cons, List.find?_cons] at hf ⊢
    cases hyr : (y.id == rid) with
    | true =>
      have : y.id = x.id := by rw [hx]; simpa using hyr
      have hxx : (x.id == rid) = true := by simpa using hx
      simp [this, hxx]
    | false =>
      rw [hyr] at hf
      have hne : (y.id == x.id) = false := by rw [hx]; exact hyr
      simp only [hne, Bool.false_eq_true, if_false, hyr]
      exact ih hf

theorem findReader_append_ne (rs : List DReader) (x : DReader) (rid : Nat) (h : x.id ≠ rid) :
    findReader (rs ++ [x]) rid = findReader rs rid := by
  unfold findReader
  rw [List.find?_append]
  have : (x.id == rid) = false := by simpa using h
  cases rs.find? (fun y => y.id == rid) <;> simp [this]

/-- a quiet operation leaves the reader exactly as it is, never removes history and adds
    exactly the appended chunk -/
theorem quiet_frame (s : Disk) (rid : Nat) (op : DOp) (hq : quiet rid op = true) :
    findReader (s.step op).1.readers rid = findReader s.readers rid ∧
    (s.step op).1.hbase = s.hbase ∧
    ((s.step op).1.hist = s.hist ∨ ∃ chunk, op = .aofAppend chunk ∧ (s.step op).1.hist = s.hist ++ chunk) := by
  cases op with
  | gc =>
    obtain ⟨_, _, hr, hb, hh⟩ := gc_frame s
    exact ⟨by show findReader s.gc.readers rid = _; rw [hr], hb, Or.inl hh⟩
  | aofAppend chunk =>
    have hrd := appendLive_readers s chunk
    rcases appendLive_spec s chunk with h | ⟨h1, h2, h3⟩
    · simp only [Disk.step, h]
      exact ⟨rfl, rfl, Or.inl rfl⟩
    · simp only [Disk.step]
      cases hp : s.appendLive chunk with
      | mk s' ok =>
        rw [hp] at h1 h2 h3 hrd
        simp only [] at h1 h2 h3 hrd
        subst h1
        simp only [if_true]
        exact ⟨by rw [hrd], h2, Or.inr ⟨chunk, rfl, h3⟩⟩
  | rdbAppend chunk =>
    simp only [Disk.step]
    repeat' split
    all_goals exact ⟨rfl, rfl, Or.inl rfl⟩
  | openReader r off crcOk =>
    have hne : r ≠ rid := by simpa [quiet] using hq
    simp only [Disk.step, Disk.open]
    repeat' split
    all_goals first
      | exact ⟨rfl, rfl, Or.inl rfl⟩
      | exact ⟨findReader_append_ne _ _ _ hne, rfl, Or.inl rfl⟩
  | read r n =>
    have hne : r ≠ rid := by simpa [quiet] using hq
    simp only [Disk.step, Disk.read]
    cases hf : findReader s.readers r with
    | none => exact ⟨rfl, rfl, Or.inl rfl⟩
    | some x =>
      have hxid : x.id ≠ rid := by rw [(findReader_some hf).2]; exact hne
      simp only []
      repeat' split
      all_goals first
        | exact ⟨rfl, rfl, Or.inl rfl⟩
        | exact ⟨findReader_setReader_ne _ _ _ hxid, rfl, Or.inl rfl⟩
  | advAcquire r =>
    have hne : r ≠ rid := by simpa [quiet] using hq
    simp only [Disk.step, Disk.advAcquire]
    cases hf : findReader s.readers r with
    | none => exact ⟨rfl, rfl, Or.inl rfl⟩
    | some x =>
      have hxid : x.id ≠ rid := by rw [(findReader_some hf).2]; exact hne
      simp only []
      split
      · exact ⟨findReader_setReader_ne _ _ _ hxid, rfl, Or.inl rfl⟩
      · exact ⟨rfl, rfl, Or.inl rfl⟩
  | advRelease r =>
    have hne : r ≠ rid := by simpa [quiet] using hq
    simp only [Disk.step, Disk.advRelease]
    cases hf : findReader s.readers r with
    | none => exact ⟨rfl, rfl, Or.inl rfl⟩
    | some x =>
      have hxid : x.id ≠ rid := by rw [(findReader_some hf).2]; exact hne
      simp only []
      split
      · exact ⟨findReader_setReader_ne _ _ _ hxid, rfl, Or.inl rfl⟩
      · exact ⟨rfl, rfl, Or.inl rfl⟩
  | closeReader r =>
    have hne : r ≠ rid := by simpa [quiet] using hq
    simp only [Disk.step, Disk.closeReader]
    cases hf : findReader s.readers r with
    | none => exact ⟨rfl, rfl, Or.inl rfl⟩
    | some x =>
      have hxid : x.close.id ≠ rid := by rw [close_id, (findReader_some hf).2]; exact hne
      exact ⟨findReader_setReader_ne _ _ _ hxid, rfl, Or.inl rfl⟩
  | setRunId _ => simp [quiet] at hq
  | delRunId => simp [quiet] at hq
  | newRdbWriter _ _ => simp [quiet] at hq
  | rdbClose => simp [quiet] at hq
  | newAofWriter _ => simp [quiet] at hq
  | aofClose => simp [quiet] at hq

/-! ### the reader's own move -/

/-- the state in which the `file.Read` of the composite move happens: the reader stands
    where it stood, on the file it reads from, outside a rotation step -/
theorem follow_mid {s : Disk} (h : DInv s) {rid : Nat} {r : DReader} (hF : Follows s rid r) (n : Nat)
    (withGc : Bool) :
    ∃ s1 r1, (if withGc then s.followGc rid n else s.follow rid n) = s1.read rid n ∧ DInv s1 ∧
      Follows s1 rid r1 ∧ r1.pos = r.pos ∧ r1.start = r.start ∧ r1.out = r.out ∧
      s1.hist = s.hist ∧ s1.hbase = s.hbase := by
  obtain ⟨hrm, hid⟩ := findReader_some hF.found
  subst hid
  by_cases hca : s.canAdvance r = true
  · have hs1 := adv_both h hrm hca
    have hi1 : DInv ((s.step (.advAcquire r.id)).1.step (.advRelease r.id)).1 :=
      (h.step (.advAcquire r.id) trivial).step (.advRelease r.id) trivial
    have hf1 : findReader ((s.step (.advAcquire r.id)).1.step (.advRelease r.id)).1.readers r.id =
        some { r with prev := none, cur := r.pos } := by
      rw [hs1]
      exact findReader_setReader_hit (findReader_setReader_hit hF.found rfl) rfl
    have hF1 : Follows ((s.step (.advAcquire r.id)).1.step (.advRelease r.id)).1 r.id
        { r with prev := none, cur := r.pos } := ⟨hf1, hF.isOpen, hF.isAof, rfl⟩
    have hh1 : (((s.step (.advAcquire r.id)).1.step (.advRelease r.id)).1).hist = s.hist ∧
        (((s.step (.advAcquire r.id)).1.step (.advRelease r.id)).1).hbase = s.hbase := by
      rw [hs1]; exact ⟨rfl, rfl⟩
    cases withGc with
    | false =>
      refine ⟨_, _, ?_, hi1, hF1, rfl, rfl, rfl, hh1.1, hh1.2⟩
      simp only [Bool.false_eq_true, if_false, Disk.follow, hF.found, hca, if_true]
      rfl
    | true =>
      obtain ⟨_, _, hrs, hb2, hh2⟩ := gc_frame ((s.step (.advAcquire r.id)).1.step (.advRelease r.id)).1
      refine ⟨((((s.step (.advAcquire r.id)).1.step (.advRelease r.id)).1).step .gc).1,
        { r with prev := none, cur := r.pos }, ?_, hi1.step .gc trivial,
        ⟨?_, hF.isOpen, hF.isAof, rfl⟩, rfl, rfl, rfl, ?_, ?_⟩
      · simp only [if_true, Disk.followGc, hF.found, hca]
        rfl
      · show findReader (((s.step (.advAcquire r.id)).1.step (.advRelease r.id)).1).gc.readers r.id = _
        rw [hrs]; exact hF1.found
      · show (((s.step (.advAcquire r.id)).1.step (.advRelease r.id)).1).gc.hist = _; rw [hh2, hh1.1]
      · show (((s.step (.advAcquire r.id)).1.step (.advRelease r.id)).1).gc.hbase = _; rw [hb2, hh1.2]
  · have hca' : s.canAdvance r = false := by simpa using hca
    refine ⟨s, r, ?_, h, hF, rfl, rfl, rfl, rfl, rfl⟩
    cases withGc with
    | false => simp only [Bool.false_eq_true, if_false, Disk.follow, hF.found, hca']; rfl
    | true => simp only [if_true, Disk.followGc, hF.found, hca', Bool.false_eq_true, if_false]; rfl

/-- one `file.Read` of a stream reader: it stays what it is and moves forward by exactly
    what it delivers -/
theorem read_reader {s : Disk} {rid : Nat} {r : DReader} (hF : Follows s rid r) (n : Nat) :
    ∃ r', Follows (s.read rid n).1 rid r' ∧ r'.start = r.start ∧
      (s.read rid n).1.hist = s.hist ∧ (s.read rid n).1.hbase = s.hbase ∧
      ((r' = r ∧ ∀ bs, (s.read rid n).2 ≠ Out.data bs) ∨
       ∃ bs, (s.read rid n).2 = Out.data bs ∧ r'.pos = r.pos + bs.length ∧ r'.out = r.out ++ bs) := by
  obtain ⟨_, hid⟩ := findReader_some hF.found
  cases hfs : findSeg s.all r.cur with
  | none =>
    have e : s.read rid n = (s, Out.err) := by
      simp [Disk.read, hF.found, hF.isOpen, hF.isAof, hfs]
    rw [e]
    exact ⟨r, hF, rfl, rfl, rfl, Or.inl ⟨rfl, by intro bs hh; cases hh⟩⟩
  | some g =>
    cases hb : ((g.data.drop (r.pos - g.left)).take n).isEmpty with
    | true =>
      have e : s.read rid n = (s, Out.eof) := by
        simp only [Disk.read, hF.found, hF.isOpen, hF.isAof, hfs, hb, Bool.not_true, Bool.false_eq_true, if_false, if_true]
      rw [e]
      exact ⟨r, hF, rfl, rfl, rfl, Or.inl ⟨rfl, by intro bs hh; cases hh⟩⟩
    | false =>
      have e : s.read rid n = ({ s with readers := (setReader s.readers ({ r with pos := r.pos + ((g.data.drop (r.pos - g.left)).take n).length, out := r.out ++ (g.data.drop (r.pos - g.left)).take n } : DReader)) },
          Out.data ((g.data.drop (r.pos - g.left)).take n)) := by
        simp only [Disk.read, hF.found, hF.isOpen, hF.isAof, hfs, hb, Bool.not_true, Bool.false_eq_true, if_false, if_true]
      rw [e]
      exact ⟨_, ⟨findReader_setReader_hit hF.found hid, hF.isOpen, hF.isAof, hF.prev⟩, rfl, rfl, rfl,
        Or.inr ⟨_, rfl, rfl, rfl⟩⟩

/-- an open stream reader never stands beyond the writer's end, and what it delivered are
    the history's bytes from where it started to where it stands -/
theorem follows_le_end {s : Disk} (h : DInv s) {rid : Nat} {r : DReader} (hF : Follows s rid r) :
    r.pos ≤ s.endOff ∧ s.hbase ≤ r.start ∧ r.start ≤ r.pos ∧
      r.out = (s.hist.drop (r.start - s.hbase)).take (r.pos - r.start) := by
  obtain ⟨hrm, _⟩ := findReader_some hF.found
  obtain ⟨⟨g, hg, _, _, hr⟩, _, hs, hsp, hout⟩ := (h.readersOk r hrm hF.isOpen).1 hF.isAof
  obtain ⟨_, e2, _⟩ := h.embed g hg
  exact ⟨by unfold Disk.endOff; omega, hs, hsp, hout⟩

/-- **one own move**: the reader stays a valid stream reader, nothing is appended, it never
    moves back, and while it is below the writer's end it moves forward. -/
theorem follow_move {s : Disk} (h : DInv s) {rid : Nat} {r : DReader} (hF : Follows s rid r) (n : Nat)
    (hn : 0 < n) (withGc : Bool) :
    let s' := (if withGc then s.followGc rid n else s.follow rid n).1
    ∃ r', DInv s' ∧ Follows s' rid r' ∧ r'.start = r.start ∧ s'.hist = s.hist ∧ s'.hbase = s.hbase ∧
      r.pos ≤ r'.pos ∧ (r.pos < s.endOff → r.pos < r'.pos) := by
  obtain ⟨s1, r1, heq, hi1, hF1, hp1, hst1, _, hh1, hb1⟩ := follow_mid h hF n withGc
  obtain ⟨r', hF', hst', hh', hb', hcase⟩ := read_reader hF1 n
  have hi' : DInv (s1.read rid n).1 := hi1.read rid n
  intro s'
  have es : s' = (s1.read rid n).1 := by show (if withGc then s.followGc rid n else s.follow rid n).1 = _; rw [heq]
  rw [es]
  refine ⟨r', hi', hF', by rw [hst', hst1], by rw [hh', hh1], by rw [hb', hb1], ?_, ?_⟩
  · rcases hcase with ⟨e, _⟩ | ⟨bs, _, hp, _⟩
    · rw [e, hp1]; exact Nat.le_refl _
    · omega
  · intro hlt
    obtain ⟨hrm, hid⟩ := findReader_some hF.found
    subst hid
    obtain ⟨bs, hout, hne, _⟩ := follow_delivers h hrm hF.isOpen hF.isAof hF.prev
      (by unfold Disk.endOff at hlt; exact hlt) n hn withGc
    rw [heq] at hout
    rcases hcase with ⟨_, hno⟩ | ⟨bs', hout', hp, _⟩
    · exact absurd hout (hno bs)
    · rw [hout'] at hout
      have hbb : bs' = bs := Out.data.inj hout
      have : 0 < bs'.length := by rw [hbb]; exact List.length_pos_iff.mpr hne
      omega

/-! ### the schedule -/

theorem lagBound_mono : ∀ (l : List PMove) {a b : Nat}, a ≤ b → lagBound a l ≤ lagBound b l
  | [], _, _, h => h
  | .follow _ :: rest, _, _, h => lagBound_mono rest (Nat.sub_le_sub_right h 1)
  | .followGc _ :: rest, _, _, h => lagBound_mono rest (Nat.sub_le_sub_right h 1)
  | .other op :: rest, a, b, h => by
    cases op with
    | aofAppend chunk => exact lagBound_mono rest (Nat.add_le_add_right h _)
    | _ => exact lagBound_mono rest h

/-- **bounded progress.** Over ANY schedule the reader stays a valid stream reader that
    delivered exactly the history's bytes from its start to its position, and its distance
    to the writer's end is at most the counted bound. -/
theorem sched_lag : ∀ (l : List PMove) {s : Disk} {rid : Nat} {r : DReader}, DInv s → Follows s rid r →
    s.schedOk rid l →
    ∃ r', DInv (s.sched rid l) ∧ Follows (s.sched rid l) rid r' ∧ r'.start = r.start ∧ r.pos ≤ r'.pos ∧
      (s.sched rid l).hbase = s.hbase ∧
      (s.sched rid l).endOff - r'.pos ≤ lagBound (s.endOff - r.pos) l
  | [], s, rid, r, h, hF, _ => ⟨r, h, hF, rfl, Nat.le_refl _, rfl, Nat.le_refl _⟩
  | m :: rest, s, rid, r, h, hF, hok => by
    obtain ⟨hm, hrest⟩ := hok
    have key : ∃ r1, DInv (s.move rid m) ∧ Follows (s.move rid m) rid r1 ∧ r1.start = r.start ∧ r.pos ≤ r1.pos ∧
        (s.move rid m).hbase = s.hbase ∧
        lagBound ((s.move rid m).endOff - r1.pos) rest ≤ lagBound (s.endOff - r.pos) (m :: rest) := by
      cases m with
      | follow n =>
        obtain ⟨r1, hi, hF1, hst, hh, hb, hle, hlt⟩ := follow_move h hF n hm false
        refine ⟨r1, hi, hF1, hst, hle, hb, ?_⟩
        show lagBound _ rest ≤ lagBound (s.endOff - r.pos - 1) rest
        apply lagBound_mono
        have e : (s.move rid (.follow n)).endOff = s.endOff := by
          unfold Disk.endOff; show (s.follow rid n).1.hbase + (s.follow rid n).1.hist.length = _
          simp only [Bool.false_eq_true, if_false] at hh hb
          rw [hh, hb]
        rw [e]
        by_cases hc : r.pos < s.endOff
        · have := hlt hc; omega
        · omega
      | followGc n =>
        obtain ⟨r1, hi, hF1, hst, hh, hb, hle, hlt⟩ := follow_move h hF n hm true
        refine ⟨r1, hi, hF1, hst, hle, hb, ?_⟩
        show lagBound _ rest ≤ lagBound (s.endOff - r.pos - 1) rest
        apply lagBound_mono
        have e : (s.move rid (.followGc n)).endOff = s.endOff := by
          unfold Disk.endOff; show (s.followGc rid n).1.hbase + (s.followGc rid n).1.hist.length = _
          simp only [if_true] at hh hb
          rw [hh, hb]
        rw [e]
        by_cases hc : r.pos < s.endOff
        · have := hlt hc; omega
        · omega
      | other op =>
        obtain ⟨hq, hokop⟩ := hm
        obtain ⟨hfr, hb, hhist⟩ := quiet_frame s rid op hq
        have hi : DInv (s.step op).1 := h.step op hokop
        have hF1 : Follows (s.step op).1 rid r := ⟨by rw [hfr]; exact hF.found, hF.isOpen, hF.isAof, hF.prev⟩
        refine ⟨r, hi, hF1, rfl, Nat.le_refl _, hb, ?_⟩
        show lagBound ((s.step op).1.endOff - r.pos) rest ≤ _
        rcases hhist with hh | ⟨chunk, rfl, hh⟩
        · have e : (s.step op).1.endOff = s.endOff := by unfold Disk.endOff; rw [hb, hh]
          rw [e]
          cases op with
          | aofAppend chunk => exact lagBound_mono rest (Nat.le_add_right _ _)
          | _ => exact Nat.le_refl _
        · have e : (s.step (.aofAppend chunk)).1.endOff = s.endOff + chunk.length := by
            unfold Disk.endOff; rw [hb, hh, List.length_append]; omega
          rw [e]
          show _ ≤ lagBound (s.endOff - r.pos + chunk.length) rest
          apply lagBound_mono
          omega
    obtain ⟨r1, hi1, hF1, hst1, hle1, hb1, hbound⟩ := key
    obtain ⟨r', hi', hF', hst', hle', hb', hlag⟩ := sched_lag rest hi1 hF1 hrest
    exact ⟨r', hi', hF', by rw [hst', hst1], Nat.le_trans hle1 hle', by
      show ((s.move rid m).sched rid rest).hbase = _; rw [hb', hb1], Nat.le_trans hlag hbound⟩

/-- own moves of a schedule -/
def ownMoves : List PMove → Nat
  | [] => 0
  | .other _ :: rest => ownMoves rest
  | _ :: rest => ownMoves rest + 1

/-- no append of the stream writer in the schedule -/
def noAppend : List PMove → Bool
  | [] => true
  | .other (.aofAppend _) :: _ => false
  | _ :: rest => noAppend rest

theorem lagBound_noAppend : ∀ (l : List PMove) (d : Nat), noAppend l = true → lagBound d l = d - ownMoves l
  | [], d, _ => by simp [lagBound, ownMoves]
  | .follow _ :: rest, d, h => by
    have := lagBound_noAppend rest (d - 1) (by simpa [noAppend] using h)
    simp only [lagBound, ownMoves, this]; omega
  | .followGc _ :: rest, d, h => by
    have := lagBound_noAppend rest (d - 1) (by simpa [noAppend] using h)
    simp only [lagBound, ownMoves, this]; omega
  | .other op :: rest, d, h => by
    cases op with
    | aofAppend chunk => simp [noAppend] at h
    | _ =>
      have := lagBound_noAppend rest d (by simpa [noAppend] using h)
      simp only [lagBound, ownMoves, this]

end GunYu.Store
