/-
  Invariant of the fan-out event system (Model/RdbFanout.lean) and its
  preservation by every event.
-/
import GunYu.Model.RdbFanout

namespace GunYu.RdbFanout

def termList {α} : Option Term → List (Item α)
  | none => []
  | some t => [.term t]

structure Inv {α} (c : Cfg α) (items0 : List (Item α)) (s : St α) : Prop where
  /-- what the distributor took, then what is still queued or unparsed, is the parser's output -/
  frame : s.consumed.map Item.entry ++ termList s.term ++ s.pipe0 ++ s.todo = items0
  /-- every entry the distributor took is applied, dropped by a failing worker, or queued for a worker -/
  member : ∀ a ∈ s.consumed, a ∈ s.applied ∨ a ∈ s.dropped ∨ ∃ i, i < c.n ∧ a ∈ s.pipes i
  distOk : s.dist = some .ok → s.term = some .done ∨ (s.term = none ∧ s.pipe0 = [] ∧ s.todo = [])
  termDist : s.dist = none → s.term = none
  closedW : s.closedW = true ↔ s.dist.isSome = true
  closed0 : s.closed0 = true → s.todo = []
  dropped : s.dropped ≠ [] → ∃ i, i < c.n ∧ s.wres i = some .err
  /-- a worker that returned nil saw its pipe closed and drained, or saw the context done -/
  wok : ∀ i, i < c.n → s.wres i = some .ok →
    (s.pipes i = [] ∧ s.closedW = true) ∨ s.cancelled = true ∨ s.childCancelled = true
  child : s.childCancelled = true → s.errs = true
  gotD : s.gotD = true → s.dist = some .ok ∨ (s.dist = some .err ∧ s.errs = true)
  gotW : ∀ i, s.gotW i = true → s.wres i = some .ok ∨ (s.wres i = some .err ∧ s.errs = true)
  /-- the checkpoint is written only after the distributor saw `Done` — or the
      channel closed without any terminal entry, which the distributor takes for a
      normal end (`!ok → return nil`) — and everything it took has been applied -/
  cp : s.checkpoint = true →
    (s.term = some .done ∨ (s.term = none ∧ s.pipe0 = [] ∧ s.todo = [])) ∧ ∀ a ∈ s.consumed, a ∈ s.applied
  cpDist : s.checkpoint = true → s.dist = some .ok
  /-- sendRdb returns nil only through setCheckpoint -/
  retOk : s.ret = some .ok → s.checkpoint = true

theorem map_entry_ne {α} (l es : List α) (t : Term) (junk : List (Item α)) :
    l.map Item.entry ≠ es.map Item.entry ++ Item.term t :: junk := by
  intro h
  have : Item.term t ∈ l.map Item.entry := by rw [h]; simp
  simp at this

theorem upd_same {β} (f : Nat → β) (i : Nat) (v : β) : upd f i v i = v := by simp [upd]
theorem upd_other {β} (f : Nat → β) (i j : Nat) (v : β) (h : j ≠ i) : upd f i v j = f j := by simp [upd, h]

theorem allGot_iff {α} (n : Nat) (s : St α) : allGot n s = true ↔ ∀ i, i < n → s.gotW i = true := by
  simp [allGot, List.all_eq_true]

theorem init_inv {α} (c : Cfg α) (items : List (Item α)) : Inv c items (init items) := by
  refine ⟨by simp [init, termList], ?_, ?_, ?_, ?_, ?_, ?_, ?_, ?_, ?_, ?_, ?_, ?_, ?_⟩ <;> simp [init]

section
variable {α : Type} (c : Cfg α) (items0 : List (Item α)) (s : St α) (inv : Inv c items0 s)
include inv

theorem parse_inv : Inv c items0 (stepParse c s) := by
  unfold stepParse
  split
  · next h =>
    split
    · exact inv
    · exact { inv with closed0 := fun _ => h }
  · next it rest h =>
    split
    · refine { inv with frame := ?_, distOk := ?_, closed0 := ?_, cp := ?_ }
      · have := inv.frame; rw [h] at this; simpa [List.append_assoc] using this
      · intro hd
        rcases inv.distOk hd with h1 | ⟨_, _, h3⟩
        · exact Or.inl h1
        · rw [h] at h3; cases h3
      · intro hc; have := inv.closed0 hc; rw [h] at this; cases this
      · intro hc
        refine ⟨?_, (inv.cp hc).2⟩
        rcases (inv.cp hc).1 with h1 | ⟨_, _, h3⟩
        · exact Or.inl h1
        · rw [h] at h3; cases h3
    · exact inv

theorem dist_inv (hn : 0 < c.n) : Inv c items0 (stepDist c s) := by
  unfold stepDist
  split
  · exact inv
  · next hdn =>
    have hd0 : s.dist = none := by simpa using hdn
    have ht0 : s.term = none := inv.termDist hd0
    have hcw : s.closedW = false := by
      cases hc : s.closedW with
      | false => rfl
      | true => have := inv.closedW.mp hc; rw [hd0] at this; cases this
    have hnog : s.gotD = true → False := by
      intro hg; rcases inv.gotD hg with h | ⟨h, _⟩ <;> (rw [hd0] at h; cases h)
    have hnocp : s.checkpoint = true → False := by
      intro h; have := inv.cpDist h; rw [hd0] at this; cases this
    split
    · next hp =>
      split
      · next hc0 =>
        refine { inv with distOk := ?_, termDist := ?_, closedW := ?_, wok := ?_, gotD := ?_, cpDist := fun h => absurd h (by simpa using hnocp) }
        · intro _; exact Or.inr ⟨ht0, hp, inv.closed0 hc0⟩
        · intro h; cases h
        · simp
        · intro i hi hw
          rcases inv.wok i hi hw with ⟨h1, _⟩ | h2
          · exact Or.inl ⟨h1, rfl⟩
          · exact Or.inr h2
        · intro hg; exact absurd hg (by simpa using hnog)
      · exact inv
    · next rest hp =>
      refine { inv with frame := ?_, distOk := ?_, termDist := ?_, closedW := ?_, wok := ?_, gotD := ?_, cp := ?_, cpDist := fun h => absurd h (by simpa using hnocp) }
      · have := inv.frame; rw [hp, ht0] at this; simpa [termList, List.append_assoc] using this
      · intro h; cases h
      · intro h; cases h
      · simp
      · intro i hi hw
        rcases inv.wok i hi hw with ⟨h1, _⟩ | h2
        · exact Or.inl ⟨h1, rfl⟩
        · exact Or.inr h2
      · intro hg; exact absurd hg (by simpa using hnog)
      · intro h; exact absurd h (by simpa using hnocp)
    · next rest hp =>
      refine { inv with frame := ?_, distOk := ?_, termDist := ?_, closedW := ?_, wok := ?_, gotD := ?_, cp := ?_, cpDist := fun h => absurd h (by simpa using hnocp) }
      · have := inv.frame; rw [hp, ht0] at this; simpa [termList, List.append_assoc] using this
      · intro _; exact Or.inl rfl
      · intro h; cases h
      · simp
      · intro i hi hw
        rcases inv.wok i hi hw with ⟨h1, _⟩ | h2
        · exact Or.inl ⟨h1, rfl⟩
        · exact Or.inr h2
      · intro hg; exact absurd hg (by simpa using hnog)
      · intro h; exact absurd h (by simpa using hnocp)
    · next a rest hp =>
      split
      · refine { inv with frame := ?_, member := ?_, distOk := ?_, wok := ?_, cp := ?_ }
        · have := inv.frame; rw [hp, ht0] at this
          simpa [termList, ht0, List.append_assoc] using this
        · intro x hx
          rcases List.mem_append.mp hx with hx | hx
          · rcases inv.member x hx with h | h | ⟨j, hj, hm⟩
            · exact Or.inl h
            · exact Or.inr (Or.inl h)
            · refine Or.inr (Or.inr ⟨j, hj, ?_⟩)
              by_cases hji : j = c.route a % c.n
              · subst hji; simp only [upd_same]; exact List.mem_append_left _ hm
              · simp only [upd_other _ _ _ _ hji]; exact hm
          · simp at hx; subst hx
            exact Or.inr (Or.inr ⟨c.route x % c.n, Nat.mod_lt _ hn, by simp only [upd_same]; simp⟩)
        · intro h; rw [hd0] at h; cases h
        · intro i hi hw
          rcases inv.wok i hi hw with ⟨_, h1⟩ | h2
          · rw [hcw] at h1; cases h1
          · exact Or.inr h2
        · intro h; exact absurd h (by simpa using hnocp)
      · exact inv

theorem distCancel_inv : Inv c items0 (stepDistCancel s) := by
  unfold stepDistCancel
  split
  · next h =>
    have hd0 : s.dist = none := by
      have := h; simp only [Bool.and_eq_true] at this; simpa using this.1
    refine { inv with distOk := ?_, termDist := ?_, closedW := ?_, wok := ?_, gotD := ?_, cpDist := ?_ }
    · intro h; cases h
    · intro h; cases h
    · simp
    · intro i hi hw
      rcases inv.wok i hi hw with ⟨h1, _⟩ | h2
      · exact Or.inl ⟨h1, rfl⟩
      · exact Or.inr h2
    · intro hg; rcases inv.gotD hg with h | ⟨h, _⟩ <;> (rw [hd0] at h; cases h)
    · intro hc; have := inv.cpDist hc; rw [hd0] at this; cases this
  · exact inv

theorem work_inv (i : Nat) : Inv c items0 (stepWork c s i) := by
  unfold stepWork
  split
  · exact inv
  · next hg =>
    have hw0 : s.wres i = none := by
      simp only [Bool.or_eq_true, not_or] at hg; simpa using hg.2
    split
    · exact inv
    · next a q hp =>
      refine { inv with member := ?_, wok := ?_, cp := ?_ }
      · intro x hx
        rcases inv.member x hx with h | h | ⟨j, hj, hm⟩
        · exact Or.inl (List.mem_append_left _ h)
        · exact Or.inr (Or.inl h)
        · by_cases hji : j = i
          · subst hji; rw [hp] at hm
            rcases List.mem_cons.mp hm with rfl | hm
            · exact Or.inl (by simp)
            · exact Or.inr (Or.inr ⟨j, hj, by simp only [upd_same]; exact hm⟩)
          · exact Or.inr (Or.inr ⟨j, hj, by simp only [upd_other _ _ _ _ hji]; exact hm⟩)
      · intro j hj hw
        have hji : j ≠ i := by intro h; subst h; rw [hw0] at hw; cases hw
        simp only [upd_other _ _ _ _ hji]
        exact inv.wok j hj hw
      · intro h
        exact ⟨(inv.cp h).1, fun x hx => List.mem_append_left _ ((inv.cp h).2 x hx)⟩

theorem workFail_inv (i : Nat) : Inv c items0 (stepWorkFail c s i) := by
  unfold stepWorkFail
  split
  · exact inv
  · next hg =>
    have hin : i < c.n := by
      simp only [Bool.or_eq_true, not_or] at hg; simpa using hg.1
    have hw0 : s.wres i = none := by
      simp only [Bool.or_eq_true, not_or] at hg; simpa using hg.2
    have hwok : ∀ j, j < c.n → upd s.wres i (some Res.err) j = some .ok → j ≠ i := by
      intro j _ hw h; subst h; simp only [upd_same] at hw; cases hw
    have hgw : ∀ j, s.gotW j = true →
        upd s.wres i (some Res.err) j = some .ok ∨ (upd s.wres i (some Res.err) j = some .err ∧ s.errs = true) := by
      intro j hgj
      have hji : j ≠ i := by
        intro h; subst h
        rcases inv.gotW j hgj with h | ⟨h, _⟩ <;> (rw [hw0] at h; cases h)
      simp only [upd_other _ _ _ _ hji]; exact inv.gotW j hgj
    split
    · next hp =>
      refine { inv with dropped := ?_, wok := ?_, gotW := hgw }
      · intro _; exact ⟨i, hin, upd_same _ _ _⟩
      · intro j hj hw
        have hji := hwok j hj hw
        simp only [upd_other _ _ _ _ hji] at hw
        exact inv.wok j hj hw
    · next a q hp =>
      refine { inv with member := ?_, dropped := ?_, wok := ?_, gotW := hgw }
      · intro x hx
        rcases inv.member x hx with h | h | ⟨j, hj, hm⟩
        · exact Or.inl h
        · exact Or.inr (Or.inl (List.mem_append_left _ h))
        · by_cases hji : j = i
          · subst hji; rw [hp] at hm
            rcases List.mem_cons.mp hm with rfl | hm
            · exact Or.inr (Or.inl (by simp))
            · exact Or.inr (Or.inr ⟨j, hj, by simp only [upd_same]; exact hm⟩)
          · exact Or.inr (Or.inr ⟨j, hj, by simp only [upd_other _ _ _ _ hji]; exact hm⟩)
      · intro _; exact ⟨i, hin, upd_same _ _ _⟩
      · intro j hj hw
        have hji := hwok j hj hw
        simp only [upd_other _ _ _ _ hji] at hw ⊢
        exact inv.wok j hj hw

theorem workCancel_inv (i : Nat) : Inv c items0 (stepWorkCancel c s i) := by
  unfold stepWorkCancel
  split
  · next hg =>
    simp only [Bool.and_eq_true, decide_eq_true_eq, ctxDone, Bool.or_eq_true] at hg
    obtain ⟨⟨hin, hw0⟩, hctx⟩ := hg
    have hw0 : s.wres i = none := by simpa using hw0
    refine { inv with dropped := ?_, wok := ?_, gotW := ?_ }
    · intro h
      obtain ⟨j, hj, hw⟩ := inv.dropped h
      have hji : j ≠ i := by intro h; subst h; rw [hw0] at hw; cases hw
      exact ⟨j, hj, by simp only [upd_other _ _ _ _ hji]; exact hw⟩
    · intro j hj hw
      by_cases hji : j = i
      · exact Or.inr hctx
      · simp only [upd_other _ _ _ _ hji] at hw; exact inv.wok j hj hw
    · intro j hgj
      have hji : j ≠ i := by
        intro h; subst h
        rcases inv.gotW j hgj with h | ⟨h, _⟩ <;> (rw [hw0] at h; cases h)
      simp only [upd_other _ _ _ _ hji]; exact inv.gotW j hgj
  · exact inv

theorem workClosed_inv (i : Nat) : Inv c items0 (stepWorkClosed c s i) := by
  unfold stepWorkClosed
  split
  · next hg =>
    simp only [Bool.and_eq_true, decide_eq_true_eq, List.isEmpty_iff] at hg
    obtain ⟨⟨⟨hin, hw0⟩, hemp⟩, hcl⟩ := hg
    have hw0 : s.wres i = none := by simpa using hw0
    refine { inv with dropped := ?_, wok := ?_, gotW := ?_ }
    · intro h
      obtain ⟨j, hj, hw⟩ := inv.dropped h
      have hji : j ≠ i := by intro h; subst h; rw [hw0] at hw; cases hw
      exact ⟨j, hj, by simp only [upd_other _ _ _ _ hji]; exact hw⟩
    · intro j hj hw
      by_cases hji : j = i
      · subst hji; exact Or.inl ⟨hemp, hcl⟩
      · simp only [upd_other _ _ _ _ hji] at hw; exact inv.wok j hj hw
    · intro j hgj
      have hji : j ≠ i := by
        intro h; subst h
        rcases inv.gotW j hgj with h | ⟨h, _⟩ <;> (rw [hw0] at h; cases h)
      simp only [upd_other _ _ _ _ hji]; exact inv.gotW j hgj
  · exact inv

theorem cancel_inv : Inv c items0 ({ s with cancelled := true }) := by
  refine { inv with wok := ?_ }
  intro j hj hw
  rcases inv.wok j hj hw with h | h | h
  · exact Or.inl h
  · exact Or.inr (Or.inl rfl)
  · exact Or.inr (Or.inr h)

theorem collectD_inv : Inv c items0 (stepCollectD s) := by
  unfold stepCollectD
  split
  · exact inv
  · split
    · exact inv
    · next hd => exact { inv with gotD := fun _ => Or.inl hd }
    · next hd =>
      refine { inv with wok := ?_, child := ?_, gotD := ?_, gotW := ?_ }
      · intro j hj hw
        rcases inv.wok j hj hw with h | h | _
        · exact Or.inl h
        · exact Or.inr (Or.inl h)
        · exact Or.inr (Or.inr rfl)
      · intro _; rfl
      · intro _; exact Or.inr ⟨hd, rfl⟩
      · intro j hgj
        rcases inv.gotW j hgj with h | ⟨h, _⟩
        · exact Or.inl h
        · exact Or.inr ⟨h, rfl⟩

theorem collectW_inv (i : Nat) : Inv c items0 (stepCollectW c s i) := by
  unfold stepCollectW
  split
  · exact inv
  · split
    · exact inv
    · next hw =>
      refine { inv with gotW := ?_ }
      intro j hgj
      by_cases hji : j = i
      · subst hji; exact Or.inl hw
      · simp only [upd_other _ _ _ _ hji] at hgj; exact inv.gotW j hgj
    · next hw =>
      refine { inv with wok := ?_, child := ?_, gotD := ?_, gotW := ?_ }
      · intro j hj hwj
        rcases inv.wok j hj hwj with h | h | _
        · exact Or.inl h
        · exact Or.inr (Or.inl h)
        · exact Or.inr (Or.inr rfl)
      · intro _; rfl
      · intro hg
        rcases inv.gotD hg with h | ⟨h, _⟩
        · exact Or.inl h
        · exact Or.inr ⟨h, rfl⟩
      · intro j hgj
        by_cases hji : j = i
        · subst hji; exact Or.inr ⟨hw, rfl⟩
        · simp only [upd_other _ _ _ _ hji] at hgj
          rcases inv.gotW j hgj with h | ⟨h, _⟩
          · exact Or.inl h
          · exact Or.inr ⟨h, rfl⟩

theorem finish_inv (cpOk : Bool) : Inv c items0 (stepFinish c s cpOk) := by
  unfold stepFinish
  split
  · exact inv
  · next hg =>
    simp only [Bool.or_eq_true, not_or, Bool.not_eq_eq_eq_not, Bool.not_true] at hg
    split
    · exact { inv with retOk := fun h => by cases h }
    · next herr =>
      split
      · exact { inv with retOk := fun h => by cases h }
      · next hcan =>
        split
        · -- the checkpoint is written: everything the parser produced was applied
          have hgd : s.gotD = true := by
            cases h : s.gotD with
            | true => rfl
            | false => simp [h] at hg
          have hall : ∀ i, i < c.n → s.gotW i = true := by
            apply (allGot_iff c.n s).mp
            cases h : allGot c.n s with
            | true => rfl
            | false => simp [h] at hg
          have herr' : s.errs = false := by simpa using herr
          have hcan' : s.cancelled = false := by simpa using hcan
          have hchild : s.childCancelled = false := by
            cases h : s.childCancelled with
            | false => rfl
            | true => have := inv.child h; rw [herr'] at this; cases this
          have hdist : s.dist = some .ok := by
            rcases inv.gotD hgd with h | ⟨_, h⟩
            · exact h
            · rw [herr'] at h; cases h
          have hwres : ∀ i, i < c.n → s.wres i = some .ok := by
            intro i hi
            rcases inv.gotW i (hall i hi) with h | ⟨_, h⟩
            · exact h
            · rw [herr'] at h; cases h
          have hpipes : ∀ i, i < c.n → s.pipes i = [] := by
            intro i hi
            rcases inv.wok i hi (hwres i hi) with ⟨h, _⟩ | h | h
            · exact h
            · rw [hcan'] at h; cases h
            · rw [hchild] at h; cases h
          have hdrop : s.dropped = [] := by
            cases hd : s.dropped with
            | nil => rfl
            | cons a l =>
              obtain ⟨i, hi, hw⟩ := inv.dropped (by rw [hd]; simp)
              rw [hwres i hi] at hw; cases hw
          refine { inv with cp := ?_, cpDist := fun _ => hdist, retOk := fun _ => rfl }
          intro _
          refine ⟨inv.distOk hdist, ?_⟩
          intro a ha
          rcases inv.member a ha with h | h | ⟨i, hi, hm⟩
          · exact h
          · rw [hdrop] at h; cases h
          · rw [hpipes i hi] at hm; cases hm
        · exact { inv with retOk := fun h => by cases h }

end

theorem step_inv {α} (c : Cfg α) (items0 : List (Item α)) (hn : 0 < c.n)
    (s : St α) (e : Ev) (inv : Inv c items0 s) : Inv c items0 (step c s e) := by
  cases e with
  | parse => exact parse_inv c items0 s inv
  | dist => exact dist_inv c items0 s inv hn
  | distCancel => exact distCancel_inv c items0 s inv
  | work i => exact work_inv c items0 s inv i
  | workFail i => exact workFail_inv c items0 s inv i
  | workCancel i => exact workCancel_inv c items0 s inv i
  | workClosed i => exact workClosed_inv c items0 s inv i
  | cancel => exact cancel_inv c items0 s inv
  | collectD => exact collectD_inv c items0 s inv
  | collectW i => exact collectW_inv c items0 s inv i
  | finish cpOk => exact finish_inv c items0 s inv cpOk

theorem run_inv {α} (c : Cfg α) (items0 : List (Item α)) (hn : 0 < c.n)
    (sched : List Ev) : ∀ s, Inv c items0 s → Inv c items0 (run c s sched) := by
  induction sched with
  | nil => intro s h; exact h
  | cons e rest ih =>
    intro s h
    simp only [run, List.foldl_cons]
    exact ih _ (step_inv c items0 hn s e h)

theorem entries_prefix_unique {α} : ∀ (l1 l2 : List α) (t1 t2 : Term) (r1 r2 : List (Item α)),
    l1.map Item.entry ++ Item.term t1 :: r1 = l2.map Item.entry ++ Item.term t2 :: r2 → l1 = l2 ∧ t1 = t2
  | [], [], t1, t2, r1, r2, h => by simp at h; exact ⟨rfl, h.1⟩
  | [], b :: l2, t1, t2, r1, r2, h => by simp at h
  | a :: l1, [], t1, t2, r1, r2, h => by simp at h
  | a :: l1, b :: l2, t1, t2, r1, r2, h => by
    simp only [List.map_cons, List.cons_append, List.cons.injEq, Item.entry.injEq] at h
    obtain ⟨hab, h⟩ := h
    obtain ⟨hl, ht⟩ := entries_prefix_unique l1 l2 t1 t2 r1 r2 h
    exact ⟨by rw [hab, hl], ht⟩

end GunYu.RdbFanout
