/-
  C02: what a target that dies after ANY prefix of the wire has executed.
  The executed requests are a PREFIX of the bodies of the batches in order
  (a MULTI/EXEC block that did not get its EXEC contributes nothing).
-/
import GunYu.Proofs.SenderWire
import GunYu.Proofs.TargetSeq

namespace GunYu.Target
open GunYu GunYu.Sender

theorem lookup_filter_ne (cps : List (Int × CpRec)) (d k : Int) (h : d ≠ k) :
    (cps.filter (fun p => p.1 ≠ k)).lookup d = cps.lookup d := by
  induction cps with
  | nil => rfl
  | cons p ps ih =>
    obtain ⟨a, r⟩ := p
    by_cases hp : a = k
    · have hdp : (d == a) = false := by
        have : d ≠ a := by rw [hp]; exact h
        simpa using this
      rw [List.filter_cons]
      simp only [hp, ne_eq, not_true_eq_false, decide_false, Bool.false_eq_true, ↓reduceIte]
      rw [List.lookup_cons]
      have : (d == k) = false := by simpa using h
      simp only [this]
      exact ih
    · rw [List.filter_cons]
      simp only [ne_eq, hp, not_false_eq_true, decide_true, ↓reduceIte]
      rw [List.lookup_cons, List.lookup_cons]
      cases (d == a)
      · exact ih
      · rfl

theorem getCp_setCp_ne (cps : List (Int × CpRec)) (d k : Int) (r : CpRec) (h : d ≠ k) :
    getCp (setCp cps k r) d = getCp cps d := by
  unfold getCp setCp
  have hne : (d == k) = false := by simpa using h
  rw [List.lookup_cons]
  simp only [hne]
  rw [lookup_filter_ne cps d k h]

theorem getCp_setCp_eq (cps : List (Int × CpRec)) (k : Int) (r : CpRec) :
    getCp (setCp cps k r) k = r := by
  simp [getCp, setCp]

/-- the bodies of the batches, in order: what executes if nothing crashes -/
def bodies (out : List Batch) : List Req := out.flatMap stripB

theorem stripB_plain (body : List Req) (hb : ∀ r ∈ body, Plain r = true) : stripB body = body := by
  cases body with
  | nil => rfl
  | cons r rest =>
    cases r with
    | multi => have := hb .multi (List.mem_cons_self ..); simp [Plain] at this
    | _ => rfl

theorem stripB_block (body : List Req) : stripB ([Req.multi] ++ body ++ [Req.exec]) = body := by
  simp [stripB]

theorem stripB_wf (b : Batch) (h : WFBatch b) :
    ∃ body, (∀ r ∈ body, Plain r = true) ∧ stripB b = body ∧
      (b = body ∨ b = [Req.multi] ++ body ++ [Req.exec]) := by
  obtain ⟨body, hp, h | h⟩ := h
  · exact ⟨body, hp, by rw [h]; exact stripB_plain body hp, Or.inl h⟩
  · exact ⟨body, hp, by rw [h]; exact stripB_block body, Or.inr h⟩

/-- two target states agree on what a restart can observe -/
def SameData (a b : TState) : Prop := a.applied = b.applied ∧ a.cps = b.cps

theorem applyLog_append (t : TState) (x y : List Req) :
    applyLog t (x ++ y) = applyLog (applyLog t x) y := by simp [applyLog, List.foldl_append]

theorem take_prefix_plain (body : List Req) (hb : ∀ r ∈ body, Plain r = true) (t : TState)
    (hq : t.queued = none) (k : Nat) :
    applyLog t (body.take k) = (body.take k).foldl execReq t :=
  applyLog_plain (body.take k) (fun r hr => hb r (List.mem_of_mem_take hr)) t hq

/-- **Crash = prefix of bodies.** Whatever prefix of the wire the target received
    before it died, the requests it executed form a prefix `E` of the batch
    bodies in order; an unfinished MULTI block contributes nothing. -/
theorem crash_executes_body_prefix (out : List Batch) (hwf : AllWF out) (t : TState)
    (hq : t.queued = none) (k : Nat) :
    ∃ E, E <+: bodies out ∧ SameData (applyLog t (out.flatten.take k)) (E.foldl execReq t) := by
  induction out generalizing t k with
  | nil => exact ⟨[], List.nil_prefix, by simp [applyLog, SameData]⟩
  | cons b rest ih =>
    obtain ⟨body, hp, hstrip, hshape⟩ := stripB_wf b (hwf b (List.mem_cons_self ..))
    have hrest : AllWF rest := fun x hx => hwf x (List.mem_cons_of_mem _ hx)
    have hbod : bodies (b :: rest) = body ++ bodies rest := by simp [bodies, hstrip]
    by_cases hk : b.length ≤ k
    · -- the whole batch was received
      have htk : (b :: rest).flatten.take k = b ++ rest.flatten.take (k - b.length) := by
        simp only [List.flatten_cons, List.take_append]
        rw [List.take_of_length_le hk]
      have hb : applyLog t b = body.foldl execReq t := by
        rcases hshape with h | h
        · rw [h]; exact applyLog_plain body hp t hq
        · rw [h]; exact applyLog_block body hp t hq
      have hq1 : (body.foldl execReq t).queued = none := by rw [foldl_execReq_queued, hq]
      obtain ⟨E, hE, hs⟩ := ih hrest (body.foldl execReq t) hq1 (k - b.length)
      refine ⟨body ++ E, ?_, ?_⟩
      · rw [hbod]; exact (List.prefix_append_right_inj body).mpr hE
      · rw [htk, applyLog_append, hb, List.foldl_append]; exact hs
    · -- the crash is inside this batch
      have hlt : k < b.length := Nat.lt_of_not_le hk
      have htk : (b :: rest).flatten.take k = b.take k := by
        simp only [List.flatten_cons, List.take_append]
        have : k - b.length = 0 := by omega
        simp [this]
      rw [htk]
      rcases hshape with h | h
      · -- not bracketed: the received part executed request by request
        refine ⟨body.take k, ?_, ?_⟩
        · rw [hbod]; exact (List.take_prefix k body).trans (List.prefix_append _ _)
        · rw [h, take_prefix_plain body hp t hq k]; exact ⟨rfl, rfl⟩
      · -- bracketed and EXEC not received: nothing executed
        refine ⟨[], List.nil_prefix, ?_⟩
        cases k with
        | zero => simp [applyLog, SameData]
        | succ j =>
          have hj : j ≤ body.length := by
            rw [h] at hlt; simp at hlt; omega
          have htake : b.take (j + 1) = [Req.multi] ++ body.take j := by
            rw [h]
            simp only [List.cons_append, List.take_succ_cons, List.nil_append]
            rw [List.take_append_of_le_length hj]
          rw [htake]
          unfold applyLog
          rw [List.foldl_append]
          have h1 : [Req.multi].foldl applyReq t = { t with queued := some [] } := by
            simp [applyReq, hq]
          rw [h1]
          have h2 := applyLog_queue (body.take j) (fun r hr => hp r (List.mem_of_mem_take hr))
            { t with queued := some [] } [] rfl
          unfold applyLog at h2
          rw [h2]
          exact ⟨rfl, rfl⟩

/-- keys are those of the bodies: brackets carry none -/
theorem keysB_stripB (b : Batch) (h : WFBatch b) : keysB (stripB b) = keysB b := by
  obtain ⟨body, _, hstrip, hshape⟩ := stripB_wf b h
  rw [hstrip]
  rcases hshape with h | h
  · rw [h]
  · rw [h]; simp [keysB, keyOfReq, List.filterMap_append, List.filterMap]

theorem keys_bodies (out : List Batch) (hwf : AllWF out) :
    keysB (bodies out) = keys out := by
  induction out with
  | nil => rfl
  | cons b rest ih =>
    have := ih (fun x hx => hwf x (List.mem_cons_of_mem _ hx))
    simp only [bodies, List.flatMap_cons, keys] at this ⊢
    rw [keysB_append, this, keysB_stripB b (hwf b (List.mem_cons_self ..))]

end GunYu.Target
