/-
  C17 — a sender session with gc passes BESIDE it keeps `Good` (Model/BookSys.lean `sessionRun`).

  The sender's theorems speak about the pure run (the wire log applied to the target the session found).
  `RelP`: what the target holds for the session's run id is the pure run's record of every database —
  except that an `_offset` may be missing (gc took it), never the `_runid` the sender remembers to have
  written (D24: gc keeps the run id and version fields of a live id; with all four fields deleted this
  relation breaks, and with it the proof). gc spares the database of the largest offset, the writes of
  a session never decrease (Props.C02 `wire_ordered`), so the position stays the pure run's.
-/
import GunYu.Proofs.BookLifeC

namespace GunYu.BookSys
open GunYu GunYu.Checkpoint

set_option linter.unusedSimpArgs false
set_option linter.unusedVariables false

def RelP (N n : Bytes) (t : Checkpoint.Target) (cps : List (Int × Target.CpRec)) : Prop :=
  ∀ db : Nat, (absRec N (t.cps db n)).hasRunId = (Target.getCp cps (db : Int)).hasRunId ∧
    ((absRec N (t.cps db n)).offset = (Target.getCp cps (db : Int)).offset ∨ (absRec N (t.cps db n)).offset = none)

theorem relP_of_abs {N n : Bytes} {t : Checkpoint.Target} {cps : List (Int × Target.CpRec)} (h : Abs N n cps t) :
    RelP N n t cps := fun db => by rw [h db]; exact ⟨rfl, Or.inl rfl⟩

theorem relP_write {N n ver : Bytes} {cps : List (Int × Target.CpRec)} {t : Checkpoint.Target}
    (h : RelP N n t cps) (w : Int × BkW) (hr : ∀ o, w.2 = .off o → InRange o) :
    RelP N n (Checkpoint.applyAll t (writeReq n N ver w)) (absW cps w) := by
  obtain ⟨wdb, ww⟩ := w
  intro db
  unfold writeReq
  by_cases hneg : 0 ≤ wdb
  · simp only [hneg, if_true, Checkpoint.applyAll, List.foldl_cons, List.foldl_nil]
    rw [applyReq_hsetCp_cps]
    have hwd : ((wdb.toNat : Nat) : Int) = wdb := Int.toNat_of_nonneg hneg
    by_cases hdb : db = wdb.toNat
    · subst hdb
      simp only [and_self, if_true]
      obtain ⟨h1, h2⟩ := h wdb.toNat
      rw [hwd] at h1 h2
      cases ww with
      | rmeta =>
        rw [absRec_meta]
        show _ = (Target.getCp (Target.setCp cps wdb _) _).hasRunId ∧ (_ = (Target.getCp (Target.setCp cps wdb _) _).offset ∨ _)
        rw [hwd, GunYu.Target.getCp_setCp_eq]
        exact ⟨rfl, h2⟩
      | off o =>
        rw [senderEntries_off_ver, absRec_off N _ o (hr o rfl)]
        show _ = (Target.getCp (Target.setCp cps wdb _) _).hasRunId ∧ (_ = (Target.getCp (Target.setCp cps wdb _) _).offset ∨ _)
        rw [hwd, GunYu.Target.getCp_setCp_eq]
        exact ⟨h1, Or.inl rfl⟩
    · have hne : ((db : Nat) : Int) ≠ wdb := by
        intro hc; apply hdb; rw [← hc]; simp
      simp only [hdb, false_and, if_false]
      have hget : Target.getCp (absW cps (wdb, ww)) (db : Int) = Target.getCp cps (db : Int) := by
        cases ww <;> exact GunYu.Target.getCp_setCp_ne cps _ _ _ hne
      rw [hget]; exact h db
  · simp only [hneg, if_false, Checkpoint.applyAll, List.foldl_nil]
    have hne : ((db : Nat) : Int) ≠ wdb := by omega
    have hget : Target.getCp (absW cps (wdb, ww)) (db : Int) = Target.getCp cps (db : Int) := by
      cases ww <;> exact GunYu.Target.getCp_setCp_ne cps _ _ _ hne
    rw [hget]; exact h db

theorem relP_fold {N n ver : Bytes} (tr : List (Int × BkW)) :
    ∀ {cps : List (Int × Target.CpRec)} {t : Checkpoint.Target}, RelP N n t cps →
      (∀ w ∈ tr, ∀ o, w.2 = .off o → InRange o) →
      RelP N n (Checkpoint.applyAll t (tr.flatMap (writeReq n N ver))) (tr.foldl absW cps) := by
  induction tr with
  | nil => intro cps t h _; exact h
  | cons w tr ih =>
    intro cps t h hr
    simp only [List.foldl_cons, List.flatMap_cons]
    rw [applyAll_append]
    exact ih (relP_write h w (hr w (List.mem_cons_self ..)))
      (fun w' hw' => hr w' (List.mem_cons_of_mem _ hw'))

/-! ### the abstract records after a trace -/

/-- the offset of database `z` after a trace: unchanged, or the value of an offset write at `z` -/
theorem absFold_offset_cases (z : Int) : ∀ (tr : List (Int × BkW)) (cps : List (Int × Target.CpRec)),
    (Target.getCp (tr.foldl absW cps) z).offset = (Target.getCp cps z).offset ∨
    ∃ o, (z, BkW.off o) ∈ tr ∧ (Target.getCp (tr.foldl absW cps) z).offset = some o := by
  intro tr
  induction tr with
  | nil => intro cps; exact Or.inl rfl
  | cons w tr ih =>
    intro cps
    simp only [List.foldl_cons]
    rcases ih (absW cps w) with h | ⟨o, ho, h⟩
    · obtain ⟨wdb, ww⟩ := w
      by_cases hz : z = wdb
      · subst hz
        cases ww with
        | rmeta =>
          left; rw [h]
          show (Target.getCp (Target.setCp cps z _) z).offset = _
          rw [GunYu.Target.getCp_setCp_eq]
        | off o =>
          right
          refine ⟨o, List.mem_cons_self .., ?_⟩
          rw [h]
          show (Target.getCp (Target.setCp cps z _) z).offset = _
          rw [GunYu.Target.getCp_setCp_eq]
      · left; rw [h]
        cases ww with
        | rmeta => show (Target.getCp (Target.setCp cps wdb _) z).offset = _
                   rw [GunYu.Target.getCp_setCp_ne _ _ _ _ hz]
        | off o => show (Target.getCp (Target.setCp cps wdb _) z).offset = _
                   rw [GunYu.Target.getCp_setCp_ne _ _ _ _ hz]
    · exact Or.inr ⟨o, List.mem_cons_of_mem _ ho, h⟩

/-- an offset write of the trace in a real database leaves the `_offset` field there -/
theorem hasKey_of_trace_off (N n ver : Bytes) : ∀ (tr : List (Int × BkW)) (t : Checkpoint.Target) (z o : Int),
    (z, BkW.off o) ∈ tr → 0 ≤ z →
    hasKey (N, Kind.offset) ((Checkpoint.applyAll t (tr.flatMap (writeReq n N ver))).cps z.toNat n) := by
  intro tr
  induction tr with
  | nil => intro t z o h; cases h
  | cons w tr ih =>
    intro t z o h hz
    simp only [List.flatMap_cons]
    rw [applyAll_append]
    rcases List.mem_cons.mp h with rfl | h'
    · -- written now; the later writes only add fields
      have h1 : hasKey (N, Kind.offset) ((Checkpoint.applyAll t (writeReq n N ver (z, BkW.off o))).cps z.toNat n) := by
        unfold writeReq
        simp only [hz, if_true, Checkpoint.applyAll, List.foldl_cons, List.foldl_nil]
        rw [applyReq_hsetCp_cps]; simp only [and_self, if_true]
        rw [hasKey_hsetMany]; left
        exact ⟨⟨N, .offset, intToDec o⟩, by simp [senderEntries], rfl⟩
      have hmono : ∀ (l : List (Int × BkW)) (t' : Checkpoint.Target), hasKey (N, Kind.offset) (t'.cps z.toNat n) →
          hasKey (N, Kind.offset) ((Checkpoint.applyAll t' (l.flatMap (writeReq n N ver))).cps z.toNat n) := by
        intro l
        induction l with
        | nil => intro t' h; exact h
        | cons x l ihl =>
          intro t' h
          simp only [List.flatMap_cons]
          rw [applyAll_append]
          apply ihl
          unfold writeReq
          split
          · simp only [Checkpoint.applyAll, List.foldl_cons, List.foldl_nil]
            exact hasKey_mono_hset _ _ _ h
          · exact h
      exact hmono tr _ h1
    · exact ih _ z o h' hz

/-! ### gc: which fields of which id a pass deletes -/

theorem gcLoop_shape2 (live : List Bytes) (before : Int) {names ids : List Bytes} :
    ∀ (pairs : List (Bytes × Bytes)) (orders : List (List Nat)) (t : Checkpoint.Target), StrA t names ids →
    ∀ q ∈ gcLoop live before t pairs orders,
      (∃ db name ρ b, q = Req.hdelCp db name (staleKeys ρ b) ∧ (ρ ∈ live → ρ ≠ qmark → b = true)) ∨
      (∃ rid, q = Req.hdelHash rid ∧ rid ∉ live) := by
  intro pairs
  induction pairs with
  | nil => intro orders t _ q hq; simp [gcLoop] at hq
  | cons pr rest ih =>
    intro orders t hstr q hq
    obtain ⟨rid, cpn⟩ := pr
    simp only [gcLoop] at hq
    rcases List.mem_append.mp hq with hq | hq
    · rcases List.mem_append.mp hq with hq | hq
      · left
        unfold delStale at hq
        cases hs : staleScan t cpn rid (orders.headD []) with
        | none => rw [hs] at hq; simp at hq
        | some s =>
          rw [hs] at hq
          simp only at hq
          obtain ⟨p, hp, rfl⟩ := List.mem_map.mp hq
          have hpf : p ∈ s.found := (List.mem_filter.mp hp).1
          have hfetch := staleScan_found t cpn rid (orders.headD []) {} s (by simp) hs p hpf
          have hown : ∀ e ∈ t.cps p.1 cpn, e.kind = .runid → e.val = e.rid := fun e he => (hstr.ok p.1 cpn e he).2
          have hr := fetch_one_runId rid (t.cps p.1 cpn) p.2 hown {} (Or.inr rfl) hfetch
          refine ⟨p.1, cpn, p.2.runId, _, rfl, ?_⟩
          intro hl hq'
          rcases hr with h | h
          · rw [h] at hl; exact List.contains_iff_mem.mpr hl
          · exact absurd h hq'
      · right
        split at hq
        · rename_i hc
          have : q = Req.hdelHash rid := by simpa using hq
          exact ⟨rid, this, fun h => hc.1 (List.contains_iff_mem.mpr h)⟩
        · simp at hq
    · apply ih _ _ _ q hq
      apply strA_applyAll _ hstr
      intro q' hq'
      -- the requests of this pair are deletions
      have : q' ∈ gcLoop live before t [(rid, cpn)] orders := by
        simp only [gcLoop, List.append_nil]; exact hq'
      rcases gcLoop_shape live before [(rid, cpn)] orders t q' this with ⟨_, _, _, _, rfl, _⟩ | ⟨_, rfl, _⟩ <;> trivial

theorem absRec_hdel_other {N : Bytes} {fs : Cp} {ks : List FKey} (h : ∀ k ∈ ks, k.1 ≠ N) :
    absRec N (hdelMany fs ks) = absRec N fs := by
  have hk : ∀ kd, hasKey (N, kd) (hdelMany fs ks) ↔ hasKey (N, kd) fs := by
    intro kd; rw [hasKey_hdelMany]
    exact ⟨fun h' => h'.1, fun h' => ⟨h', fun hin => h _ hin rfl⟩⟩
  have ho : offOf [N] (hdelMany fs ks) = offOf [N] fs := by
    apply offOf_hdel_irrel
    intro e he hc
    rw [← Bool.not_eq_true, offSel_iff, matchId_one]
    intro hs
    exact h _ (List.contains_iff_mem.mp hc) hs.1
  unfold absRec
  simp only [hk, ho]

theorem absRec_hdel_stale {N : Bytes} {fs : Cp} :
    absRec N (hdelMany fs (staleKeys N true)) = { absRec N fs with offset := none } := by
  have h1 : ¬ hasKey (N, Kind.offset) (hdelMany fs (staleKeys N true)) := by
    rw [hasKey_hdelMany]; intro h; exact h.2 (by simp [staleKeys])
  have h2 : hasKey (N, Kind.runid) (hdelMany fs (staleKeys N true)) ↔ hasKey (N, Kind.runid) fs := by
    rw [hasKey_hdelMany]
    exact ⟨fun h => h.1, fun h => ⟨h, by simp [staleKeys]⟩⟩
  unfold absRec
  simp only [h1, if_false, h2]

/-- a request of a gc pass keeps `RelP` -/
theorem relP_gcReq {N n : Bytes} {cps : List (Int × Target.CpRec)} {t : Checkpoint.Target} (h : RelP N n t cps)
    (q : Req) (hq : (∃ db name ρ b, q = Req.hdelCp db name (staleKeys ρ b) ∧ (ρ = N → b = true)) ∨
      (∃ rid, q = Req.hdelHash rid)) : RelP N n (applyReq t q) cps := by
  rcases hq with ⟨db, name, ρ, b, rfl, hb⟩ | ⟨rid, rfl⟩
  · intro db'
    rw [applyReq_hdelCp_cps]
    split
    · rename_i hc
      obtain ⟨rfl, rfl⟩ := hc
      by_cases hρ : ρ = N
      · subst hρ
        rw [hb rfl, absRec_hdel_stale]
        exact ⟨(h db').1, Or.inr rfl⟩
      · rw [absRec_hdel_other]
        · exact h db'
        · intro k hk
          have : k.1 = ρ := by
            unfold staleKeys at hk
            split at hk <;> simp [fourKeys] at hk <;> rcases hk with rfl | rfl | rfl | rfl <;> rfl
          rw [this]; exact hρ
    · exact h db'
  · exact h

/-! ### `Good` after writes of the master id, from the facts about its fields -/

theorem good_after_writes {t t' : Checkpoint.Target} {c : Ctl} {X Y : Int} {d dN : Nat}
    (G : Good t c X d) (hl : c.lab = c.mas) (hp : c.pend = none) (hXY : X ≤ Y) (Fnr' : FrameNR t' c X d)
    (hold : ∀ db n e, e ∈ t'.cps db n → e.rid ≠ c.mas → e ∈ t.cps db n)
    (hYk : hasKey (c.mas, Kind.offset) (t'.cps dN c.key)) (hYv : offOf [c.mas] (t'.cps dN c.key) = Y)
    (hrid' : ∀ db, hasKey (c.mas, Kind.offset) (t'.cps db c.key) → hasKey (c.mas, Kind.runid) (t'.cps db c.key))
    (hNlt : ∀ db, db ≠ dN → ∀ x ∈ t'.cps db c.key, x.key = (c.mas, Kind.offset) →
      ∀ v, Resp.parseInt64 x.val = some v → v < Y)
    (hlt : dN ≠ d → X < Y) : Good t' c Y dN := by
  obtain ⟨C, F, hH, hC⟩ := G
  have hsub : ∀ x, matchId [c.mas] x = true → matchId [c.mas, c.sec] x = true := by
    intro x hx; rw [matchId_one] at hx; rw [matchId_pair]; exact Or.inl hx
  have hpar : ∀ db, Parses [c.mas, c.sec] (t'.cps db c.key) := fun db => parses_of_ok Fnr'.str _ db _
  have hqok : ∀ db, ∀ x ∈ t'.cps db c.key, ridSel [c.mas, c.sec] x = true → x.val ≠ qmark := by
    intro db x hx hsx
    rw [ridSel_iff] at hsx
    rw [(Fnr'.str.ok db c.key x hx).2 hsx.2]
    rcases (matchId_pair _ _ _).mp hsx.1 with h | h <;> rw [h]
    · exact C.mq
    · exact C.sq
  refine ⟨C, ?_, ?_, ?_⟩
  · refine (⟨Fnr'.hashL, Fnr'.hashM, Fnr'.str, Fnr'.ord, fun db => (Fnr'.sle db).mono hXY, ?_⟩ :
      FrameNR t' c Y dN).withRid hrid'
    intro p hp'; rw [hp] at hp'; cases hp'
  · refine ⟨Int.le_trans hH.nonneg hXY, hpar, ?_, ?_, ?_⟩
    · rw [offOf_pair_eq_one (Fnr'.ord _) (hpar _) hYk]; exact hYv
    · exact ridOf_ne_of_hasKey ((matchId_pair _ _ _).mpr (Or.inl rfl)) (hrid' _ hYk) (hqok _)
    · intro db hdb x hx hsx v hv
      rw [offSel_iff, matchId_pair] at hsx
      rcases hsx.1 with hm | hs
      · exact hNlt db hdb x hx (by show (x.rid, x.kind) = _; rw [hm, hsx.2]) v hv
      · have hxo := hold db c.key x hx (by rw [hs]; exact C.hne.symm)
        have hs1 : offSel [c.sec] x = true := by rw [offSel_iff, matchId_one]; exact ⟨hs, hsx.2⟩
        have hle := F.sle db x hxo hs1 v hv
        by_cases hdd : db = d
        · have := hlt (fun h => hdb (by rw [hdd, h]))
          omega
        · have hs2 : offSel [c.mas, c.sec] x = true := by
            rw [offSel_iff, matchId_pair]; exact ⟨Or.inr hs, hsx.2⟩
          have := hH.dom db hdd x hxo hs2 v hv
          omega
  · rw [hl]
    refine ⟨hYv, ridOf_ne_of_hasKey ((matchId_one _ _).mpr rfl) (hrid' _ hYk) ?_⟩
    intro x hx hsx
    apply hqok _ x hx
    rw [ridSel_iff] at hsx ⊢
    exact ⟨hsub _ hsx.1, hsx.2⟩

/-! ### the session -/

/-- the wire log of the session -/
def fullLog (sc : Sender.SCfg) (evs : List Sender.Ev) : List Sender.Req := (Sender.run sc Sender.initS evs).2.flatten

/-- the pure run: the abstract target after `j` requests of the wire log -/
def pureAt (T0 : Target.TState) (sc : Sender.SCfg) (evs : List Sender.Ev) (j : Nat) : Target.TState :=
  Target.applyLog T0 ((fullLog sc evs).take j)

structure SessCtx (pc : Sender.PCfg) (sc : Sender.SCfg) (raws : List Sender.Raw) (evs : List Sender.Ev)
    (X0 : Int) (d0 : Nat) (T0 : Target.TState) : Prop where
  H : LifeHyp pc sc raws X0 (d0 : Int) evs
  hX0 : 0 ≤ X0
  hq0 : T0.queued = none
  hc0 : T0.cur = 0
  hu0 : Target.UniqueMax T0.cps (d0 : Int) X0
  hr0 : Sender.RunIdInv T0
  hhi : ∀ o ∈ Target.cpReqs (fullLog sc evs), o < 2^63

structure SessInv (c : Ctl) (t : Checkpoint.Target) (T0 : Target.TState) (sc : Sender.SCfg) (evs : List Sender.Ev)
    (j : Nat) (Xj : Int) (dj : Nat) : Prop where
  good : Good t c Xj dj
  rel : RelP c.mas c.key t (pureAt T0 sc evs j).cps
  max : Target.UniqueMax (pureAt T0 sc evs j).cps (dj : Int) Xj
  low : ∀ o ∈ Target.cpReqs ((fullLog sc evs).drop j), Xj ≤ o

theorem cpReqs_append (a b : List Sender.Req) : Target.cpReqs (a ++ b) = Target.cpReqs a ++ Target.cpReqs b := by
  simp [Target.cpReqs]

theorem applyLog_sameConn (l : List Sender.Req) : ∀ {a b : Target.TState}, SameConn a b →
    SameConn (Target.applyLog a l) (Target.applyLog b l) := by
  induction l with
  | nil => intro a b h; exact h
  | cons r rs ih =>
    intro a b h
    simp only [Target.applyLog, List.foldl_cons]
    exact ih (applyReq_sameConn h r).2

theorem pureAt_add (T0 : Target.TState) (sc : Sender.SCfg) (evs : List Sender.Ev) (j m : Nat) :
    pureAt T0 sc evs (j + m) = Target.applyLog (pureAt T0 sc evs j) (((fullLog sc evs).drop j).take m) := by
  unfold pureAt
  rw [List.take_add, GunYu.Target.applyLog_append]

/-- **a piece of the session** (no MULTI open at its start): the invariant holds after it, for the pure run's
    position at that point -/
theorem seg_step (ver : Bytes) {pc : Sender.PCfg} {sc : Sender.SCfg} {raws : List Sender.Raw} {evs : List Sender.Ev}
    {X0 : Int} {d0 : Nat} {T0 : Target.TState} (S : SessCtx pc sc raws evs X0 d0 T0)
    {c : Ctl} {t : Checkpoint.Target} {j : Nat} {Xj : Int} {dj : Nat} (I : SessInv c t T0 sc evs j Xj dj)
    (hX : X0 ≤ Xj) (hl : c.lab = c.mas) (hp : c.pend = none) (hq : (pureAt T0 sc evs j).queued = none) (m : Nat) :
    ∃ Y d', Xj ≤ Y ∧ SessInv c (applyAll t ((logTrace (pureAt T0 sc evs j) (((fullLog sc evs).drop j).take m)).flatMap
      (writeReq c.key c.mas ver))) T0 sc evs (j + m) Y d' := by
  obtain ⟨G, hrel, hmax, hlow⟩ := I
  have hG := G
  obtain ⟨C, F, hH, hC⟩ := G
  generalize hseg : ((fullLog sc evs).drop j).take m = seg
  generalize htr : logTrace (pureAt T0 sc evs j) seg = tr
  -- the remaining log splits into this piece and the rest; the positions it writes are sorted
  have hsplit : (fullLog sc evs).drop j = seg ++ (fullLog sc evs).drop (j + m) := by
    rw [← hseg, ← List.drop_drop, List.take_append_drop]
  have hsorted : (Target.cpReqs ((fullLog sc evs).drop j)).Pairwise (· ≤ ·) := by
    have h1 := life_sorted pc sc raws X0 d0 evs S.H S.hX0
    have h2 : fullLog sc evs = (fullLog sc evs).take j ++ (fullLog sc evs).drop j := (List.take_append_drop _ _).symm
    unfold fullLog at h2 ⊢
    rw [h2, cpReqs_append] at h1
    exact (List.pairwise_append.mp h1).2.1
  have hsub : ∀ o ∈ Target.cpReqs ((fullLog sc evs).drop j), o ∈ Target.cpReqs (fullLog sc evs) := by
    intro o ho
    have h2 : fullLog sc evs = (fullLog sc evs).take j ++ (fullLog sc evs).drop j := (List.take_append_drop _ _).symm
    rw [h2, cpReqs_append]; exact List.mem_append_right _ ho
  have htroff : ∀ w ∈ tr, ∀ o, w.2 = BkW.off o → o ∈ Target.cpReqs seg := by
    intro w hw o ho
    obtain ⟨wdb, ww⟩ := w
    simp only at ho; subst ho
    rw [← htr] at hw
    rcases logTrace_off seg _ hw with h | ⟨q, hq', _⟩
    · exact h
    · rw [hq] at hq'; cases hq'
  have hsegsub : ∀ o ∈ Target.cpReqs seg, o ∈ Target.cpReqs ((fullLog sc evs).drop j) := by
    intro o ho; rw [hsplit, cpReqs_append]; exact List.mem_append_left _ ho
  have hlo : ∀ w ∈ tr, ∀ o, w.2 = BkW.off o → Xj ≤ o := fun w hw o ho => hlow o (hsegsub o (htroff w hw o ho))
  have hrange : ∀ w ∈ tr, ∀ o, w.2 = BkW.off o → InRange o := by
    intro w hw o ho
    have h1 := hlo w hw o ho
    have h2 := hH.nonneg
    exact ⟨by omega, S.hhi o (hsub o (hsegsub o (htroff w hw o ho)))⟩
  -- the pure run after the piece
  have hP : (pureAt T0 sc evs (j + m)).cps = tr.foldl absW (pureAt T0 sc evs j).cps := by
    rw [pureAt_add, hseg, logTrace_cps, htr]
  have hrel' := relP_fold (ver := ver) tr hrel hrange
  rw [← hP] at hrel'
  have hmw := lifeReqs_masWrite c ver tr hrange
  obtain ⟨Fnr', hold, hmono, hhash⟩ := frameNR_masWrites C (tr.flatMap (writeReq c.key c.mas ver)) F.nr hmw
  obtain ⟨d', Y, hd'0, hX0Y, hum, hrun, _⟩ := life_abs pc sc raws X0 d0 evs S.H S.hX0
    (Int.natCast_nonneg d0) T0 S.hq0 S.hc0 S.hu0 S.hr0 (j + m)
  have hum' : Target.UniqueMax (pureAt T0 sc evs (j + m)).cps d' Y := hum
  have hrun' : Sender.RunIdInv (pureAt T0 sc evs (j + m)) := hrun
  generalize ht' : applyAll t (tr.flatMap (writeReq c.key c.mas ver)) = t' at hrel' Fnr' hold hmono hhash
  have hdN : ((d'.toNat : Nat) : Int) = d' := Int.toNat_of_nonneg hd'0
  have hC' : Carrier c.mas t c.key dj Xj := hl ▸ hC
  have hkd : hasKey (c.mas, Kind.offset) (t.cps dj c.key) := by
    apply Classical.byContradiction
    intro hno
    have h1 := offOf_one_of_not hno
    have h2 := hC'.1
    have h3 := hH.nonneg
    omega
  -- the old position's database still holds an offset at or above the old position
  obtain ⟨vj, hvj, hXvj⟩ := absFold_ge Xj dj tr (pureAt T0 sc evs j).cps ⟨Xj, hmax.1, Int.le_refl _⟩ hlo
  rw [← hP] at hvj
  -- the database of the pure run's position holds it on the target too
  have hkey : (absRec c.mas (t'.cps d'.toNat c.key)).offset = some Y := by
    rcases (hrel' d'.toNat).2 with h | h
    · rw [h, hdN]; exact hum'.1
    · exfalso
      have hnk' : ¬ hasKey (c.mas, Kind.offset) (t'.cps d'.toNat c.key) := by
        intro hk; rw [absRec_offset_of hk] at h; cases h
      have hnk : ¬ hasKey (c.mas, Kind.offset) (t.cps d'.toNat c.key) := fun hk => hnk' (hmono _ _ _ hk)
      have hne : d'.toNat ≠ dj := fun he => hnk (he ▸ hkd)
      have hneI : (dj : Int) ≠ d' := fun he => hne (by rw [← he]; simp)
      -- no offset write at d' in the piece: the pure run's record there is unchanged
      rcases absFold_offset_cases d' tr (pureAt T0 sc evs j).cps with hc | ⟨o, ho, _⟩
      · rw [← hP, hum'.1] at hc
        have h1 := hmax.2 d' (fun he => hneI he.symm) Y hc.symm
        have h2 := hum'.2 (dj : Int) hneI vj hvj
        omega
      · apply hnk'
        rw [← ht']
        exact hasKey_of_trace_off c.mas c.key ver tr t d' o ho hd'0
  obtain ⟨hYk, hYv⟩ := absRec_offset_some hkey
  have hXjY : Xj ≤ Y := by
    by_cases he : (dj : Int) = d'
    · rw [he, hum'.1] at hvj; injection hvj with hvj; omega
    · have := hum'.2 (dj : Int) he vj hvj; omega
  have hlt : d'.toNat ≠ dj → Xj < Y := by
    intro hne
    have := hum'.2 (dj : Int) (fun he => hne (by rw [← he]; simp)) vj hvj
    omega
  have hrid' : ∀ db, hasKey (c.mas, Kind.offset) (t'.cps db c.key) → hasKey (c.mas, Kind.runid) (t'.cps db c.key) := by
    intro db hk
    have h1 := (hrel' db)
    have ho : (Target.getCp (pureAt T0 sc evs (j + m)).cps (db : Int)).offset = some (offOf [c.mas] (t'.cps db c.key)) := by
      rcases h1.2 with h | h
      · rw [← h]; exact absRec_offset_of hk
      · rw [absRec_offset_of hk] at h; cases h
    have h2 := hrun' (db : Int) _ ho
    rw [← h1.1] at h2
    simpa [absRec] using h2
  have hNlt : ∀ db, db ≠ d'.toNat → ∀ x ∈ t'.cps db c.key, x.key = (c.mas, Kind.offset) →
      ∀ v, Resp.parseInt64 x.val = some v → v < Y := by
    intro db hdb x hx hk v hv
    have hv' := offOf_one_of_mem (Fnr'.str.nodup db c.key) hx hk hv
    have hne : (db : Int) ≠ d' := fun h => hdb (by rw [← h]; simp)
    apply hum'.2 (db : Int) hne v
    rcases (hrel' db).2 with h | h
    · rw [← h, absRec_offset_of ⟨x, hx, hk⟩, hv']
    · rw [absRec_offset_of ⟨x, hx, hk⟩] at h; cases h
  refine ⟨Y, d'.toNat, hXjY, good_after_writes hG hl hp hXjY Fnr' hold hYk hYv hrid' hNlt hlt, hrel', hdN ▸ hum', ?_⟩
  -- the position is at most every position still to be written
  intro o ho
  have hrest : o ∈ Target.cpReqs ((fullLog sc evs).drop j) := by
    rw [hsplit, cpReqs_append]; exact List.mem_append_right _ ho
  rcases absFold_offset_cases d' tr (pureAt T0 sc evs j).cps with hc | ⟨o', ho', hval⟩
  · -- unchanged record: it is the old position's database
    rw [← hP, hum'.1] at hc
    by_cases he : (dj : Int) = d'
    · rw [← he, hmax.1] at hc; injection hc with hc
      rw [hc]; exact hlow o hrest
    · exfalso
      have h1 := hmax.2 d' (fun h => he h.symm) Y hc.symm
      have h2 := hum'.2 (dj : Int) he vj hvj
      omega
  · rw [← hP, hum'.1] at hval
    injection hval with hval
    rw [hval]
    have ho'seg := htroff _ ho' o' rfl
    rw [hsplit, cpReqs_append] at hsorted
    exact (List.pairwise_append.mp hsorted).2.2 o' ho'seg o ho

/-- **a gc pass beside the session** (stopped after any number of its requests) keeps the invariant -/
theorem gc_step {c : Ctl} {t : Checkpoint.Target} {T0 : Target.TState} {sc : Sender.SCfg} {evs : List Sender.Ev}
    {j : Nat} {Xj : Int} {dj : Nat} (I : SessInv c t T0 sc evs j Xj dj) (g : GcPass)
    (h1 : c.mas ∈ g.live) (h2 : c.sec ∈ g.live) :
    SessInv c (applyAll t ((gcReqs t g.live g.before g.orders).take g.k)) T0 sc evs j Xj dj := by
  obtain ⟨G, hrel, hmax, hlow⟩ := I
  refine ⟨good_gc G g.live h1 h2 g.before g.orders g.k, ?_, hmax, hlow⟩
  have hshape : ∀ q ∈ (gcReqs t g.live g.before g.orders).take g.k,
      (∃ db name ρ b, q = Req.hdelCp db name (staleKeys ρ b) ∧ (ρ = c.mas → b = true)) ∨ (∃ rid, q = Req.hdelHash rid) := by
    intro q hq
    rcases gcLoop_shape2 g.live g.before t.hash g.orders t G.fr.str q (mem_take hq) with ⟨db, name, ρ, b, rfl, hb⟩ | ⟨rid, rfl, _⟩
    · exact Or.inl ⟨db, name, ρ, b, rfl, fun h => hb (h ▸ h1) (h ▸ G.ctl.mq)⟩
    · exact Or.inr ⟨rid, rfl⟩
  generalize (gcReqs t g.live g.before g.orders).take g.k = rs at hshape
  clear G hmax hlow
  induction rs generalizing t with
  | nil => exact hrel
  | cons q rs ih =>
    simp only [applyAll, List.foldl_cons]
    exact ih (relP_gcReq hrel q (hshape q (List.mem_cons_self ..)))
      (fun q' hq' => hshape q' (List.mem_cons_of_mem _ hq'))

/-- **A sender session with gc passes beside it keeps `Good`** — the production case: `gcStaleCheckpoint` is a
    cron of the replaying process. -/
theorem good_session_aux (ver : Bytes) {pc : Sender.PCfg} {sc : Sender.SCfg} {raws : List Sender.Raw}
    {evs : List Sender.Ev} {X0 : Int} {d0 : Nat} {T0 : Target.TState} (S : SessCtx pc sc raws evs X0 d0 T0)
    {c : Ctl} (hl : c.lab = c.mas) (hp : c.pend = none) :
    ∀ (sched : List (Nat × Option GcPass)) (conn : Target.TState) (t : Checkpoint.Target) (j : Nat) (Xj : Int) (dj : Nat),
      SameConn conn (pureAt T0 sc evs j) → SessInv c t T0 sc evs j Xj dj → X0 ≤ Xj →
      (pureAt T0 sc evs j).queued = none → SchedOK c.mas c.sec conn ((fullLog sc evs).drop j) sched →
      ∃ Y d', Xj ≤ Y ∧ Good (sessionRun c.key c.mas ver conn t ((fullLog sc evs).drop j) sched) c Y d' := by
  intro sched
  induction sched with
  | nil => intro conn t j Xj dj _ I _ _ _; exact ⟨Xj, dj, Int.le_refl _, I.good⟩
  | cons pg rest ih =>
    intro conn t j Xj dj hconn I hX hq hok
    obtain ⟨n, g⟩ := pg
    obtain ⟨hq', hlive, hrest⟩ := hok
    simp only [sessionRun]
    rw [logTrace_congr _ hconn]
    obtain ⟨Y, d', hXY, I1⟩ := seg_step ver S I hX hl hp hq n
    have hconn' : SameConn (Target.applyLog conn (((fullLog sc evs).drop j).take n)) (pureAt T0 sc evs (j + n)) := by
      rw [pureAt_add]; exact applyLog_sameConn _ hconn
    rw [List.drop_drop] at hrest ⊢
    have hXY0 : X0 ≤ Y := Int.le_trans hX hXY
    cases g with
    | none =>
      simp only
      cases rest with
      | nil => simp only [sessionRun]; exact ⟨Y, d', hXY, I1.good⟩
      | cons pg' rest' =>
        have hqn : (pureAt T0 sc evs (j + n)).queued = none := by
          rw [← hconn'.2]; exact hq' (Or.inr (by simp))
        obtain ⟨Y2, d2, hY2, G2⟩ := ih _ _ _ _ _ hconn' I1 hXY0 hqn hrest
        exact ⟨Y2, d2, Int.le_trans hXY hY2, G2⟩
    | some gp =>
      simp only
      obtain ⟨hl1, hl2⟩ := hlive gp rfl
      have I2 := gc_step I1 gp hl1 hl2
      have hqn : (pureAt T0 sc evs (j + n)).queued = none := by
        rw [← hconn'.2]; exact hq' (Or.inl rfl)
      obtain ⟨Y2, d2, hY2, G2⟩ := ih _ _ _ _ _ hconn' I2 hXY0 hqn hrest
      exact ⟨Y2, d2, Int.le_trans hXY hY2, G2⟩

theorem good_session (ver : Bytes) {t : Checkpoint.Target} {c : Ctl} {X : Int} {d : Nat} (G : Good t c X d)
    (hl : c.lab = c.mas) (hp : c.pend = none)
    (pc : Sender.PCfg) (sc : Sender.SCfg) (raws : List Sender.Raw) (evs : List Sender.Ev)
    (H : LifeHyp pc sc raws X (d : Int) evs)
    (hhi : ∀ o ∈ Target.cpReqs (fullLog sc evs), o < 2^63)
    (sched : List (Nat × Option GcPass)) (hok : SchedOK c.mas c.sec {} (fullLog sc evs) sched) :
    ∃ Y d', X ≤ Y ∧ Good (sessionRun c.key c.mas ver {} t (fullLog sc evs) sched) c Y d' := by
  obtain ⟨dbs, hfin⟩ := G.fr.str.fin
  have hC' : Carrier c.mas t c.key d X := hl ▸ G.carr
  have hsub : ∀ x, matchId [c.mas] x = true → matchId [c.mas, c.sec] x = true := by
    intro x hx; rw [matchId_one] at hx; rw [matchId_pair]; exact Or.inl hx
  have habs : Abs c.mas c.key (absOf c.mas c.key dbs t).cps t :=
    fun db => getCp_absOf (fun db' h => hfin db' h c.key) db
  have hkd : hasKey (c.mas, Kind.offset) (t.cps d c.key) := by
    apply Classical.byContradiction
    intro hno
    have h1 := offOf_one_of_not hno
    have h2 := hC'.1
    have h3 := G.holds.nonneg
    omega
  have hu : Target.UniqueMax (absOf c.mas c.key dbs t).cps (d : Int) X := by
    constructor
    · rw [habs d, absRec_offset_of hkd, hC'.1]
    · intro d' hd' o' ho'
      by_cases hneg : d' < 0
      · rw [getCp_absOf_neg _ _ _ _ _ hneg] at ho'; cases ho'
      · have hd'' : ((d'.toNat : Nat) : Int) = d' := Int.toNat_of_nonneg (by omega)
        rw [← hd'', habs d'.toNat] at ho'
        obtain ⟨_, hv⟩ := absRec_offset_some ho'
        have hdb : d'.toNat ≠ d := fun h => hd' (by rw [← hd'', h])
        have := offOf_lt_of_below ((G.holds.dom _ hdb).sub hsub) G.holds.nonneg
        omega
  have hr : Sender.RunIdInv (absOf c.mas c.key dbs t) := by
    intro d0 o ho
    by_cases hneg : d0 < 0
    · rw [getCp_absOf_neg _ _ _ _ _ hneg] at ho; cases ho
    · have hd'' : ((d0.toNat : Nat) : Int) = d0 := Int.toNat_of_nonneg (by omega)
      rw [← hd'', habs d0.toNat] at ho ⊢
      obtain ⟨hk, _⟩ := absRec_offset_some ho
      have := G.fr.hasrid _ hk
      simp [absRec, this]
  have S : SessCtx pc sc raws evs X d (absOf c.mas c.key dbs t) := ⟨H, G.holds.nonneg, rfl, rfl, hu, hr, hhi⟩
  have hlow0 : ∀ o ∈ Target.cpReqs ((fullLog sc evs).drop 0), X ≤ o := by
    intro o ho
    have hcp := (Props.C02.resumed_wire sc _ raws X evs H.items H.sorted H.above G.holds.nonneg).2.1
    rw [Sender.cpOffsetsB_bodies _ (Sender.run_wf sc Sender.initS evs)] at hcp
    rw [List.drop_zero] at ho
    unfold fullLog at ho
    rw [GunYu.Target.cpReqs_flatten] at ho
    exact hcp o ho
  have I0 : SessInv c t (absOf c.mas c.key dbs t) sc evs 0 X d := ⟨G, relP_of_abs habs, hu, hlow0⟩
  have := good_session_aux ver S hl hp sched {} t 0 X d ⟨rfl, rfl⟩ I0 (Int.le_refl _) rfl (by rw [List.drop_zero]; exact hok)
  rw [List.drop_zero] at this
  exact this

end GunYu.BookSys
