/-
  Helper lemmas for C12 (Props/C12.lean): the decoder model of Model/Resp.lean
  reads back the RESP framing, and counts exactly the bytes it consumes.
  Core only.
-/
import GunYu.Model.Resp
import GunYu.Proofs.Decimal

namespace GunYu.Resp
open GunYu GunYu.Decimal

theorem span_loop_eq {α} (p : α → Bool) (l acc : List α) :
    List.span.loop p l acc = (acc.reverse ++ l.takeWhile p, l.dropWhile p) := by
  induction l generalizing acc with
  | nil => simp [List.span.loop]
  | cons a as ih =>
    simp only [List.span.loop, List.takeWhile_cons, List.dropWhile_cons]
    split
    · rename_i h; rw [ih]; simp [h]
    · rename_i h; simp [h]

theorem span_eq {α} (p : α → Bool) (l : List α) : l.span p = (l.takeWhile p, l.dropWhile p) := by
  simp [List.span, span_loop_eq]

/-- `ReadBytes('\n')` returns exactly the first line -/
theorem readLine_line (l r : Bytes) (h : ∀ b ∈ l, b ≠ 10) :
    readLine (l ++ 10 :: r) = some (l ++ [10], r) := by
  unfold readLine
  rw [span_eq]
  have hp : ∀ a, a ∈ l → (fun x : UInt8 => decide (x ≠ 10)) a = true := by
    intro a ha; simp [h a ha]
  rw [List.takeWhile_append_of_pos hp, List.dropWhile_append_of_pos hp]
  simp

theorem digit_ne {b : UInt8} (h : isDigit b = true) : b ≠ 10 ∧ b ≠ 13 ∧ b ≠ 43 ∧ b ≠ 45 := by
  rw [isDigit_iff] at h
  refine ⟨?_, ?_, ?_, ?_⟩ <;> (intro e; subst e; simp at h)

theorem decodeText_dec (n : Nat) (r : Bytes) (off : Nat) :
    decodeText (natToDec n ++ crlf ++ r) off = .ok (natToDec n, off + ((natToDec n).length + 2), r) := by
  have hl : ∀ b ∈ natToDec n ++ [13], b ≠ 10 := by
    intro b hb
    rcases List.mem_append.mp hb with hb | hb
    · exact (digit_ne (natToDec_all_digit n b hb)).1
    · simp at hb; subst hb; decide
  have : natToDec n ++ crlf ++ r = (natToDec n ++ [13]) ++ 10 :: r := by simp [crlf]
  unfold decodeText
  rw [this, readLine_line _ _ hl]
  simp only [List.length_append, List.length_cons, List.length_nil]
  have h1 : (natToDec n).length + (0 + 1) + (0 + 1) - 2 = (natToDec n).length := by omega
  rw [h1]
  have h2 : (natToDec n ++ [13] ++ [10]).getD (natToDec n).length 0 = 13 := by
    simp [List.getD_eq_getElem?_getD, List.append_assoc]
  have h3 : (natToDec n ++ [13] ++ [10]).take (natToDec n).length = natToDec n := by
    rw [List.append_assoc]; exact List.take_left' rfl
  rw [h2, h3]
  have h4 : ¬ ((natToDec n).length + (0 + 1) + (0 + 1) < 2 ∨ (13 : UInt8) ≠ 13) := by
    intro h; rcases h with h | h
    · omega
    · exact h rfl
  rw [if_neg h4]

theorem parseInt64_natToDec (n : Nat) (h : n < 2^63) : parseInt64 (natToDec n) = some (n : Int) := by
  have hne := natToDec_ne_nil n
  match hd : natToDec n with
  | [] => exact absurd hd hne
  | b :: ds =>
    have hb : isDigit b = true := natToDec_all_digit n b (by rw [hd]; simp)
    obtain ⟨_, _, h43, h45⟩ := digit_ne hb
    simp only [parseInt64, h43, h45, if_false]
    rw [← hd]
    simp only [unsignedDec, decToNat?_natToDec]
    have : n ≤ 2^63 - 1 := by omega
    simp [this]

theorem decodeInt_dec (n : Nat) (h : n < 2^63) (r : Bytes) (off : Nat) :
    decodeInt (natToDec n ++ crlf ++ r) off = .ok ((n : Int), off + ((natToDec n).length + 2), r) := by
  unfold decodeInt
  rw [decodeText_dec]
  simp only [parseInt64_natToDec n h]


theorem encodeBulk_length (a : Bytes) :
    (encodeBulk a).length = 1 + ((natToDec a.length).length + 2) + (a.length + 2) := by
  simp [encodeBulk, crlf]; omega

theorem decodeBulk_enc (a r : Bytes) (h : a.length < 2^63) (off : Nat) :
    decodeBulk (natToDec a.length ++ crlf ++ (a ++ crlf ++ r)) off =
      .ok (some a, off + ((natToDec a.length).length + 2) + (a.length + 2), r) := by
  unfold decodeBulk
  rw [decodeInt_dec _ h]
  have hn1 : ¬ ((a.length : Int) < -1) := by omega
  have hn2 : ¬ ((a.length : Int) = -1) := by omega
  simp only [hn1, hn2, if_false, Int.toNat_natCast]
  have ht : (a ++ crlf ++ r).take (a.length + 2) = a ++ crlf := by
    exact List.take_left' (by simp [crlf])
  have hd : (a ++ crlf ++ r).drop (a.length + 2) = r := by
    exact List.drop_left' (by simp [crlf])
  simp only [ht, hd]
  have hlen : (a ++ crlf).length = a.length + 2 := by simp [crlf]
  have h13 : (a ++ crlf).getD a.length 0 = 13 := by
    simp [List.getD_eq_getElem?_getD, crlf]
  have h10 : (a ++ crlf).getD (a.length + 1) 0 = 10 := by
    simp [List.getD_eq_getElem?_getD, crlf]
  have hta : (a ++ crlf).take a.length = a := List.take_left' rfl
  simp only [hlen, h13, h10, hta]
  simp

/-- an encoded bulk is read back as that bulk, at any depth -/
theorem decodeResp_bulk (f d : Nat) (a r : Bytes) (h : a.length < 2^63) (off : Nat) :
    decodeResp (f + 1) d (encodeBulk a ++ r) off =
      .ok (.bulk (some a), off + (encodeBulk a).length, r) := by
  have e : encodeBulk a ++ r = 36 :: (natToDec a.length ++ crlf ++ (a ++ crlf ++ r)) := by
    simp [encodeBulk]
  rw [e, decodeResp, decodeType]
  simp only [show ((36 : UInt8) = 10) = False by decide, if_false,
    show ((36 : UInt8) = 43) = False by decide, show ((36 : UInt8) = 45) = False by decide,
    show ((36 : UInt8) = 58) = False by decide, if_true]
  rw [decodeBulk_enc a r h]
  simp only [encodeBulk_length]
  congr 3
  omega

def bulks (as : List Bytes) : List Resp := as.map (fun a => Resp.bulk (some a))

theorem decodeElems_bulks (f d : Nat) (as : List Bytes) (r : Bytes)
    (h : ∀ a ∈ as, a.length < 2^63) (off : Nat) :
    decodeElems (decodeResp (f + 1) d) as.length (as.flatMap encodeBulk ++ r) off =
      .ok (bulks as, off + (as.flatMap encodeBulk).length, r) := by
  induction as generalizing off with
  | nil => simp [decodeElems, bulks]
  | cons a as ih =>
    simp only [List.length_cons, List.flatMap_cons, List.append_assoc, decodeElems]
    rw [decodeResp_bulk f d a _ (h a (by simp))]
    simp only
    rw [ih (fun x hx => h x (by simp [hx]))]
    simp only [bulks, List.map_cons, List.length_append]
    congr 3
    omega

theorem encodeCmd_length (as : List Bytes) :
    (encodeCmd as).length = 1 + ((natToDec as.length).length + 2) + (as.flatMap encodeBulk).length := by
  simp [encodeCmd, crlf]; omega

theorem decodeResp_cmd (f : Nat) (as : List Bytes) (r : Bytes)
    (hn : as.length < 2^63) (h : ∀ a ∈ as, a.length < 2^63) (off : Nat) :
    decodeResp (f + 2) 0 (encodeCmd as ++ r) off =
      .ok (.arr (some (bulks as)), off + (encodeCmd as).length, r) := by
  have e : encodeCmd as ++ r = 42 :: (natToDec as.length ++ crlf ++ (as.flatMap encodeBulk ++ r)) := by
    simp [encodeCmd]
  rw [e, decodeResp, decodeType]
  simp only [show ((42 : UInt8) = 10) = False by decide, if_false,
    show ((42 : UInt8) = 43) = False by decide, show ((42 : UInt8) = 45) = False by decide,
    show ((42 : UInt8) = 58) = False by decide, show ((42 : UInt8) = 36) = False by decide, if_true]
  rw [decodeInt_dec _ hn]
  have hn1 : ¬ ((as.length : Int) < -1) := by omega
  have hn2 : ¬ ((as.length : Int) = -1) := by omega
  simp only [hn1, hn2, if_false, Int.toNat_natCast]
  rw [decodeElems_bulks f 1 as r h]
  simp only [encodeCmd_length]
  congr 3
  omega

theorem asBulks_bulks (as : List Bytes) : asBulks (bulks as) = some as := by
  induction as with
  | nil => rfl
  | cons a as ih => simp [bulks, asBulks] at ih ⊢; simp [ih]

theorem parseArgs_bulks (name : Bytes) (args : List Bytes) (h : name ≠ []) :
    parseArgs (.arr (some (bulks (name :: args)))) = some (lower name, args) := by
  simp [parseArgs, asBulks_bulks, h]


theorem decodeCmd_enc (f : Nat) (c : List Bytes) (r : Bytes) (h : WF c) (off : Nat) :
    decodeCmd (f + 2) (encodeCmd c ++ r) off = .ok (cmdOf c, off + (encodeCmd c).length, r) := by
  obtain ⟨hname, hn, hall, _⟩ := h
  match c, hname with
  | name :: args, hname =>
    unfold decodeCmd
    rw [decodeResp_cmd f _ r hn hall]
    simp only
    rw [parseArgs_bulks name args (by simpa using hname)]
    simp [cmdOf]

theorem decodeOne_enc (c : List Bytes) (r : Bytes) (h : WF c) :
    decodeOne (encodeCmd c ++ r) = .ok (cmdOf c, (encodeCmd c).length, r) := by
  unfold decodeOne
  have : (encodeCmd c ++ r).length + 1 = ((encodeCmd c ++ r).length - 1) + 2 := by
    simp [encodeCmd]
  rw [this, decodeCmd_enc _ c r h]
  simp

def expected (start : Nat) (s : List (List Bytes)) : List (Cmd × Nat) :=
  (s.map cmdOf).zip (boundaries start s)

theorem decodeAllAux_stream (F start : Nat) (s : List (List Bytes)) (r : Bytes) (k off : Nat)
    (hF : 2 ≤ F) (hk : s.length ≤ k) (hwf : ∀ c ∈ s, WF c) :
    decodeAllAux F start k (s.flatMap encodeCmd ++ r) off =
      ((expected (start + off) s) ++
          (decodeAllAux F start (k - s.length) r (off + (s.flatMap encodeCmd).length)).1,
        (decodeAllAux F start (k - s.length) r (off + (s.flatMap encodeCmd).length)).2) := by
  induction s generalizing k off with
  | nil => simp [expected, boundaries]
  | cons c cs ih =>
    obtain ⟨f, rfl⟩ : ∃ f, F = f + 2 := ⟨F - 2, by omega⟩
    match k, hk with
    | k + 1, hk =>
      simp only [List.flatMap_cons, List.append_assoc, decodeAllAux]
      rw [decodeCmd_enc f c _ (hwf c (by simp))]
      simp only
      rw [ih k _ (by simpa using hk) (fun x hx => hwf x (by simp [hx]))]
      simp only [expected, List.map_cons, boundaries, List.zip_cons_cons, List.length_cons,
        List.length_append, List.cons_append]
      have e1 : start + (off + (encodeCmd c).length) = start + off + (encodeCmd c).length := by omega
      have e2 : k + 1 - (cs.length + 1) = k - cs.length := by omega
      have e3 : off + (encodeCmd c).length + (cs.flatMap encodeCmd).length
              = off + ((encodeCmd c).length + (cs.flatMap encodeCmd).length) := by omega
      rw [e1, e2, e3]

theorem flatMap_encodeCmd_length_ge (s : List (List Bytes)) :
    s.length ≤ (s.flatMap encodeCmd).length := by
  induction s with
  | nil => simp
  | cons c cs ih =>
    simp only [List.flatMap_cons, List.length_append, List.length_cons, encodeCmd_length]
    omega

theorem decodeAll_stream (start : Nat) (s : List (List Bytes)) (hwf : ∀ c ∈ s, WF c) :
    decodeAll start (s.flatMap encodeCmd) = (expected start s, .eof) := by
  match s, hwf with
  | [], _ => simp [decodeAll, decodeAllFrom, decodeAllAux, decodeCmd, decodeResp, decodeType, expected, boundaries]
  | c :: cs, hwf =>
    unfold decodeAll decodeAllFrom
    have hlen := flatMap_encodeCmd_length_ge (c :: cs)
    have h := decodeAllAux_stream (((c :: cs).flatMap encodeCmd).length + 1) start (c :: cs) []
      (((c :: cs).flatMap encodeCmd).length + 1) 0
      (by simp only [List.length_cons] at hlen; omega) (by omega) hwf
    rw [List.append_nil] at h
    rw [h]
    have : ((c :: cs).flatMap encodeCmd).length + 1 - (c :: cs).length
         = (((c :: cs).flatMap encodeCmd).length - (c :: cs).length) + 1 := by omega
    rw [this]
    simp [decodeAllAux, decodeCmd, decodeResp, decodeType]

theorem parseInt64_intToDec (i : Int) (lo : -(2^63 : Int) ≤ i) (hi : i < 2^63) :
    parseInt64 (intToDec i) = some i := by
  unfold intToDec
  split
  · rename_i hneg
    simp only [parseInt64, show ((45 : UInt8) = 43) = False by decide, if_false, if_true,
      unsignedDec, decToNat?_natToDec]
    have : i.natAbs ≤ 2^63 := by omega
    simp only [this, if_true, Option.map_some, Int.ofNat_eq_natCast]
    congr 1
    omega
  · rename_i hneg
    rw [parseInt64_natToDec _ (by omega)]
    congr 1
    omega

theorem decodeType_replicate (k : Nat) (inp : Bytes) (off : Nat) :
    decodeType (List.replicate k 10 ++ inp) off = decodeType inp (off + k) := by
  induction k generalizing off with
  | zero => simp
  | succ k ih =>
    simp only [List.replicate_succ, List.cons_append, decodeType, if_true]
    rw [ih]; congr 1; omega

theorem decodeResp_replicate (f d k : Nat) (inp : Bytes) (off : Nat) :
    decodeResp (f + 1) d (List.replicate k 10 ++ inp) off = decodeResp (f + 1) d inp (off + k) := by
  rw [decodeResp, decodeResp, decodeType_replicate]

theorem decodeOne_nl_enc (k : Nat) (c : List Bytes) (r : Bytes) (h : WF c) :
    decodeOne (List.replicate k 10 ++ (encodeCmd c ++ r)) = .ok (cmdOf c, k + (encodeCmd c).length, r) := by
  unfold decodeOne
  have : (List.replicate k 10 ++ (encodeCmd c ++ r)).length + 1
       = ((List.replicate k 10 ++ (encodeCmd c ++ r)).length - 1) + 2 := by
    simp [encodeCmd]; omega
  rw [this]
  unfold decodeCmd
  rw [decodeResp_replicate]
  have h2 := decodeCmd_enc ((List.replicate k 10 ++ (encodeCmd c ++ r)).length - 1) c r h (0 + k)
  unfold decodeCmd at h2
  rw [h2]
  simp

theorem boundaries_length (start : Nat) (s : List (List Bytes)) : (boundaries start s).length = s.length := by
  induction s generalizing start with
  | nil => rfl
  | cons c cs ih => simp [boundaries, ih]

theorem boundaries_getElem? (start : Nat) (s : List (List Bytes)) (i : Nat) (h : i < s.length) :
    (boundaries start s)[i]? = some (start + ((s.take (i + 1)).flatMap encodeCmd).length) := by
  induction s generalizing start i with
  | nil => simp at h
  | cons c cs ih =>
    cases i with
    | zero => simp [boundaries]
    | succ i =>
      simp only [boundaries, List.getElem?_cons_succ, List.take_succ_cons, List.flatMap_cons,
        List.length_append]
      rw [ih _ i (by simpa using h)]
      congr 1; omega

theorem expected_length (start : Nat) (s : List (List Bytes)) : (expected start s).length = s.length := by
  simp [expected, boundaries_length]

theorem decodeAll_stream_prefix (start : Nat) (s : List (List Bytes)) (tail : Bytes)
    (hwf : ∀ c ∈ s, WF c) :
    (decodeAll start (s.flatMap encodeCmd ++ tail)).1.take s.length = expected start s := by
  match s, hwf with
  | [], _ => simp [expected, boundaries]
  | c :: cs, hwf =>
    unfold decodeAll decodeAllFrom
    have hlen := flatMap_encodeCmd_length_ge (c :: cs)
    have hL : (c :: cs).length ≤ ((c :: cs).flatMap encodeCmd ++ tail).length := by
      rw [List.length_append]; omega
    have h := decodeAllAux_stream (((c :: cs).flatMap encodeCmd ++ tail).length + 1) start (c :: cs) tail
      (((c :: cs).flatMap encodeCmd ++ tail).length + 1) 0
      (by simp only [List.length_cons] at hL; omega) (by omega) hwf
    rw [h]
    simp only [Nat.add_zero]
    exact List.take_left' (expected_length start (c :: cs))

theorem writeArgs_eq_encodeCmd (as : List Arg) : writeArgs as = encodeCmd (as.map Arg.payload) := by
  simp [writeArgs, encodeCmd, List.flatMap_map]

/-! ### offset = bytes consumed, for every accepted typed value -/

/-- the decoder advanced from `inp` to `rest` and counted exactly the bytes in between -/
def Adv (inp : Bytes) (off : Nat) (rest : Bytes) (off' : Nat) : Prop :=
  ∃ pre, inp = pre ++ rest ∧ off' = off + pre.length

theorem Adv.trans {a b c : Bytes} {o1 o2 o3 : Nat} (h1 : Adv a o1 b o2) (h2 : Adv b o2 c o3) :
    Adv a o1 c o3 := by
  obtain ⟨p1, rfl, rfl⟩ := h1
  obtain ⟨p2, rfl, rfl⟩ := h2
  exact ⟨p1 ++ p2, by simp, by simp; omega⟩

def isType (t : UInt8) : Prop := t = 43 ∨ t = 45 ∨ t = 58 ∨ t = 36 ∨ t = 42

theorem decodeType_adv (inp : Bytes) (off : Nat) (t : UInt8) (off' : Nat) (rest : Bytes)
    (h : decodeType inp off = .ok (t, off', rest)) :
    Adv inp off rest off' ∧ (typed inp → isType t) := by
  induction inp generalizing off with
  | nil => simp [decodeType] at h
  | cons b bs ih =>
    simp only [decodeType] at h
    split at h
    · rename_i hb
      obtain ⟨⟨pre, e1, e2⟩, ht⟩ := ih _ h
      refine ⟨⟨b :: pre, by simp [e1], by simp [e2]; omega⟩, ?_⟩
      intro hty; apply ht; simpa [typed, hb] using hty
    · rename_i hb
      simp only [Except.ok.injEq, Prod.mk.injEq] at h
      obtain ⟨rfl, rfl, rfl⟩ := h
      refine ⟨⟨[b], by simp, by simp⟩, ?_⟩
      intro hty; simpa [typed, hb, isType] using hty

theorem dropWhile_ne10 (xs : Bytes) :
    xs.dropWhile (· ≠ 10) = [] ∨ ∃ r', xs.dropWhile (· ≠ 10) = 10 :: r' := by
  induction xs with
  | nil => left; rfl
  | cons x xs ih =>
    by_cases hx : x = 10
    · right; exact ⟨xs, by rw [List.dropWhile_cons]; simp [hx]⟩
    · rw [List.dropWhile_cons]
      have : (decide (x ≠ 10)) = true := by simp [hx]
      rw [this]; exact ih

theorem readLine_split (inp l r : Bytes) (h : readLine inp = some (l, r)) : inp = l ++ r := by
  unfold readLine at h
  rw [span_eq] at h
  have htd := List.takeWhile_append_dropWhile (p := (fun x : UInt8 => decide (x ≠ 10))) (l := inp)
  rcases dropWhile_ne10 inp with h0 | ⟨r', h1⟩
  · rw [h0] at h; exact absurd h (by simp)
  · rw [h1] at h htd
    simp only [Option.some.injEq, Prod.mk.injEq] at h
    obtain ⟨rfl, rfl⟩ := h
    rw [List.append_assoc]; exact htd.symm

theorem decodeText_adv (inp : Bytes) (off : Nat) (v : Bytes) (off' : Nat) (rest : Bytes)
    (h : decodeText inp off = .ok (v, off', rest)) : Adv inp off rest off' := by
  unfold decodeText at h
  cases hr : readLine inp with
  | none => simp [hr] at h
  | some x =>
    obtain ⟨l, r⟩ := x
    simp only [hr] at h
    split at h
    · simp at h
    · simp only [Except.ok.injEq, Prod.mk.injEq] at h
      obtain ⟨_, rfl, rfl⟩ := h
      exact ⟨l, readLine_split _ _ _ hr, rfl⟩

theorem decodeInt_adv (inp : Bytes) (off : Nat) (v : Int) (off' : Nat) (rest : Bytes)
    (h : decodeInt inp off = .ok (v, off', rest)) : Adv inp off rest off' := by
  unfold decodeInt at h
  cases ht : decodeText inp off with
  | error e => simp [ht] at h
  | ok x =>
    obtain ⟨t, o, r⟩ := x
    simp only [ht] at h
    cases hp : parseInt64 t with
    | none => simp [hp] at h
    | some n =>
      simp only [hp, Except.ok.injEq, Prod.mk.injEq] at h
      obtain ⟨_, rfl, rfl⟩ := h
      exact decodeText_adv _ _ _ _ _ ht

theorem decodeBulk_adv (inp : Bytes) (off : Nat) (v : Option Bytes) (off' : Nat) (rest : Bytes)
    (h : decodeBulk inp off = .ok (v, off', rest)) : Adv inp off rest off' := by
  unfold decodeBulk at h
  cases hi : decodeInt inp off with
  | error e => simp [hi] at h
  | ok x =>
    obtain ⟨n, o, r⟩ := x
    have h1 := decodeInt_adv _ _ _ _ _ hi
    simp only [hi] at h
    split at h
    · simp at h
    · split at h
      · simp only [Except.ok.injEq, Prod.mk.injEq] at h
        obtain ⟨_, rfl, rfl⟩ := h
        exact h1
      · split at h
        · split at h <;> simp at h
        · rename_i hlen
          split at h
          · simp at h
          · simp only [Except.ok.injEq, Prod.mk.injEq] at h
            obtain ⟨_, rfl, rfl⟩ := h
            refine h1.trans ⟨r.take (n.toNat + 2), (List.take_append_drop _ _).symm, ?_⟩
            have := List.length_take_le (n.toNat + 2) r
            omega

theorem decodeElems_adv (elem : Bytes → Nat → Dec Resp)
    (he : ∀ inp off v off' rest, elem inp off = .ok (v, off', rest) → Adv inp off rest off')
    (n : Nat) (inp : Bytes) (off : Nat) (vs : List Resp) (off' : Nat) (rest : Bytes)
    (h : decodeElems elem n inp off = .ok (vs, off', rest)) : Adv inp off rest off' := by
  induction n generalizing inp off vs with
  | zero =>
    simp only [decodeElems, Except.ok.injEq, Prod.mk.injEq] at h
    obtain ⟨_, rfl, rfl⟩ := h
    exact ⟨[], by simp, by simp⟩
  | succ n ih =>
    simp only [decodeElems] at h
    cases h1 : elem inp off with
    | error e => simp [h1] at h
    | ok x =>
      obtain ⟨v1, o1, r1⟩ := x
      simp only [h1] at h
      cases h2 : decodeElems elem n r1 o1 with
      | error e => simp [h2] at h
      | ok y =>
        obtain ⟨v2, o2, r2⟩ := y
        simp only [h2, Except.ok.injEq, Prod.mk.injEq] at h
        obtain ⟨_, rfl, rfl⟩ := h
        exact (he _ _ _ _ _ h1).trans (ih _ _ _ h2)

theorem decodeResp_adv (f : Nat) : ∀ (d : Nat) (inp : Bytes) (off : Nat) (v : Resp) (off' : Nat) (rest : Bytes),
    (typed inp ∨ d ≠ 0) → decodeResp f d inp off = .ok (v, off', rest) → Adv inp off rest off' := by
  induction f with
  | zero => intro d inp off v off' rest _ h; simp [decodeResp] at h
  | succ f ih =>
    intro d inp off v off' rest hty h
    rw [decodeResp] at h
    cases hdt : decodeType inp off with
    | error e => simp [hdt] at h
    | ok x =>
      obtain ⟨t, o1, r1⟩ := x
      obtain ⟨ha1, htyp⟩ := decodeType_adv _ _ _ _ _ hdt
      simp only [hdt] at h
      split at h
      · -- '+'
        cases hx : decodeText r1 o1 with
        | error e => simp [hx] at h
        | ok y =>
          obtain ⟨a, b, c⟩ := y
          simp only [hx, Except.ok.injEq, Prod.mk.injEq] at h
          obtain ⟨_, rfl, rfl⟩ := h
          exact ha1.trans (decodeText_adv _ _ _ _ _ hx)
      · split at h
        · -- '-'
          cases hx : decodeText r1 o1 with
          | error e => simp [hx] at h
          | ok y =>
            obtain ⟨a, b, c⟩ := y
            simp only [hx, Except.ok.injEq, Prod.mk.injEq] at h
            obtain ⟨_, rfl, rfl⟩ := h
            exact ha1.trans (decodeText_adv _ _ _ _ _ hx)
        · split at h
          · -- ':'
            cases hx : decodeInt r1 o1 with
            | error e => simp [hx] at h
            | ok y =>
              obtain ⟨a, b, c⟩ := y
              simp only [hx, Except.ok.injEq, Prod.mk.injEq] at h
              obtain ⟨_, rfl, rfl⟩ := h
              exact ha1.trans (decodeInt_adv _ _ _ _ _ hx)
          · split at h
            · -- '$'
              cases hx : decodeBulk r1 o1 with
              | error e => simp [hx] at h
              | ok y =>
                obtain ⟨a, b, c⟩ := y
                simp only [hx, Except.ok.injEq, Prod.mk.injEq] at h
                obtain ⟨_, rfl, rfl⟩ := h
                exact ha1.trans (decodeBulk_adv _ _ _ _ _ hx)
            · split at h
              · -- '*'
                cases hx : decodeInt r1 o1 with
                | error e => simp [hx] at h
                | ok y =>
                  obtain ⟨n, o2, r2⟩ := y
                  have ha2 := decodeInt_adv _ _ _ _ _ hx
                  simp only [hx] at h
                  split at h
                  · simp at h
                  · split at h
                    · simp only [Except.ok.injEq, Prod.mk.injEq] at h
                      obtain ⟨_, rfl, rfl⟩ := h
                      exact ha1.trans ha2
                    · cases he : decodeElems (decodeResp f (d + 1)) n.toNat r2 o2 with
                      | error e => simp [he] at h
                      | ok z =>
                        obtain ⟨vs, o3, r3⟩ := z
                        simp only [he, Except.ok.injEq, Prod.mk.injEq] at h
                        obtain ⟨_, rfl, rfl⟩ := h
                        refine (ha1.trans ha2).trans (decodeElems_adv _ ?_ _ _ _ _ _ _ he)
                        intro i o w o' r hh
                        exact ih (d + 1) i o w o' r (Or.inr (by omega)) hh
              · -- not a type byte
                rename_i n43 n45 n58 n36 n42
                split at h
                · simp at h
                · rename_i hd
                  rcases hty with hty | hty
                  · have := htyp hty
                    simp [isType, n43, n45, n58, n36, n42] at this
                  · exact absurd (by simpa using hd) hty

theorem decodeResp_consumed (fuel depth : Nat) (inp : Bytes) (off : Nat)
    (v : Resp) (off' : Nat) (rest : Bytes)
    (hty : typed inp) (h : decodeResp fuel depth inp off = .ok (v, off', rest)) :
    ∃ pre, inp = pre ++ rest ∧ off' = off + pre.length :=
  decodeResp_adv fuel depth inp off v off' rest (Or.inl hty) h

/-! ### truncation: a cut anywhere inside a command is reported as (unexpected) EOF -/

def IsEof (e : DecErr) : Prop := e = .eof ∨ e = .ueof

theorem readLine_none_of_noNl (p : Bytes) (h : ∀ b ∈ p, b ≠ 10) : readLine p = none := by
  unfold readLine
  rw [span_eq]
  have : ∀ (q : Bytes), (∀ b ∈ q, b ≠ 10) → q.dropWhile (fun x : UInt8 => decide (x ≠ 10)) = [] := by
    intro q hq
    induction q with
    | nil => rfl
    | cons x xs ih =>
      rw [List.dropWhile_cons]
      have hx : decide (x ≠ 10) = true := by simp [hq x (by simp)]
      rw [hx]; exact ih (fun b hb => hq b (by simp [hb]))
  rw [this p h]

theorem line_prefix_noNl (n : Nat) (p s : Bytes) (h : natToDec n ++ crlf = p ++ s) (hs : s ≠ []) :
    ∀ b ∈ p, b ≠ 10 := by
  have hd : ∀ b ∈ natToDec n ++ [13], b ≠ 10 := by
    intro b hb
    rcases List.mem_append.mp hb with hb | hb
    · exact (digit_ne (natToDec_all_digit n b hb)).1
    · simp at hb; subst hb; decide
  have e : (natToDec n ++ [13]) ++ [10] = p ++ s := by rw [← h]; simp [crlf]
  rcases List.append_eq_append_iff.mp e with ⟨a', hp, hq⟩ | ⟨c', hp, _⟩
  · have : a' = [] := by
      cases a' with
      | nil => rfl
      | cons x xs =>
        have := congrArg List.length hq
        cases s with
        | nil => exact absurd rfl hs
        | cons y ys => simp at this <;> omega
    subst this; rw [hp]; simpa using hd
  · intro b hb; exact hd b (by rw [hp]; exact List.mem_append_left _ hb)

theorem decodeInt_trunc (n : Nat) (p s : Bytes) (h : natToDec n ++ crlf = p ++ s) (hs : s ≠ []) (off : Nat) :
    decodeInt p off = .error .eof := by
  unfold decodeInt decodeText
  rw [readLine_none_of_noNl p (line_prefix_noNl n p s h hs)]

theorem decodeBulk_trunc (a p s : Bytes) (hl : a.length < 2^63)
    (h : natToDec a.length ++ crlf ++ (a ++ crlf) = p ++ s) (hs : s ≠ []) (off : Nat) :
    ∃ e, decodeBulk p off = .error e ∧ IsEof e := by
  -- either the cut is inside the length line, or at/after its end
  have key : (∃ a', p = natToDec a.length ++ crlf ++ a' ∧ a ++ crlf = a' ++ s) ∨
             (∃ c', c' ≠ [] ∧ natToDec a.length ++ crlf = p ++ c') := by
    rcases List.append_eq_append_iff.mp h with ⟨a', hp, hq⟩ | ⟨c', hp, hq⟩
    · exact Or.inl ⟨a', hp, hq⟩
    · cases c' with
      | nil => exact Or.inl ⟨[], by simpa using hp.symm, by simpa using hq.symm⟩
      | cons x xs => exact Or.inr ⟨x :: xs, by simp, hp⟩
  rcases key with ⟨a', hp, hq⟩ | ⟨c', hc, hp⟩
  · subst hp
    unfold decodeBulk
    rw [decodeInt_dec _ hl]
    have hn1 : ¬ ((a.length : Int) < -1) := by omega
    have hn2 : ¬ ((a.length : Int) = -1) := by omega
    simp only [hn1, hn2, if_false, Int.toNat_natCast]
    have hlen : a'.length < a.length + 2 := by
      have := congrArg List.length hq
      cases s with
      | nil => exact absurd rfl hs
      | cons y ys => simp [crlf] at this <;> omega
    have ht : (a'.take (a.length + 2)).length < a.length + 2 := by
      rw [List.length_take]; omega
    simp only [ht, if_true]
    split
    · exact ⟨_, rfl, Or.inl rfl⟩
    · exact ⟨_, rfl, Or.inr rfl⟩
  · unfold decodeBulk
    rw [decodeInt_trunc _ p c' hp hc]
    exact ⟨_, rfl, Or.inl rfl⟩

theorem decodeResp_bulk_trunc (f d : Nat) (a p s : Bytes) (hl : a.length < 2^63)
    (h : encodeBulk a = p ++ s) (hs : s ≠ []) (off : Nat) :
    ∃ e, decodeResp (f + 1) d p off = .error e ∧ IsEof e := by
  cases p with
  | nil => exact ⟨.eof, by simp [decodeResp, decodeType], Or.inl rfl⟩
  | cons x p' =>
    simp only [encodeBulk, List.cons_append, List.cons.injEq] at h
    obtain ⟨rfl, h⟩ := h
    obtain ⟨e, he, hE⟩ := decodeBulk_trunc a p' s hl (by rw [← h]) hs (off + 1)
    refine ⟨e, ?_, hE⟩
    rw [decodeResp, decodeType]
    simp only [show ((36 : UInt8) = 10) = False by decide, if_false,
      show ((36 : UInt8) = 43) = False by decide, show ((36 : UInt8) = 45) = False by decide,
      show ((36 : UInt8) = 58) = False by decide, if_true]
    rw [he]

theorem decodeElems_trunc (f d : Nat) (as : List Bytes) (hall : ∀ a ∈ as, a.length < 2^63)
    (p s : Bytes) (h : as.flatMap encodeBulk = p ++ s) (hs : s ≠ []) (off : Nat) :
    ∃ e, decodeElems (decodeResp (f + 1) d) as.length p off = .error e ∧ IsEof e := by
  induction as generalizing p off with
  | nil =>
    simp only [List.flatMap_nil] at h
    have : s = [] := by
      have := congrArg List.length h; simp at this; exact List.eq_nil_of_length_eq_zero (by omega)
    exact absurd this hs
  | cons a as ih =>
    simp only [List.flatMap_cons] at h
    have key : (∃ a', p = encodeBulk a ++ a' ∧ as.flatMap encodeBulk = a' ++ s) ∨
               (∃ c', c' ≠ [] ∧ encodeBulk a = p ++ c') := by
      rcases List.append_eq_append_iff.mp h with ⟨a', hp, hq⟩ | ⟨c', hp, hq⟩
      · exact Or.inl ⟨a', hp, hq⟩
      · cases c' with
        | nil => exact Or.inl ⟨[], by simpa using hp.symm, by simpa using hq.symm⟩
        | cons x xs => exact Or.inr ⟨x :: xs, by simp, hp⟩
    rcases key with ⟨a', hp, hq⟩ | ⟨c', hc, hp⟩
    · subst hp
      obtain ⟨e, he, hE⟩ := ih (fun x hx => hall x (by simp [hx])) a' hq (off + (encodeBulk a).length)
      refine ⟨e, ?_, hE⟩
      simp only [List.length_cons, decodeElems]
      rw [decodeResp_bulk f d a a' (hall a (by simp))]
      simp only
      rw [he]
    · obtain ⟨e, he, hE⟩ := decodeResp_bulk_trunc f d a p c' (hall a (by simp)) hp hc off
      refine ⟨e, ?_, hE⟩
      simp only [List.length_cons, decodeElems]
      rw [he]

theorem decodeResp_cmd_trunc (f : Nat) (as : List Bytes) (hn : as.length < 2^63)
    (hall : ∀ a ∈ as, a.length < 2^63) (p s : Bytes) (h : encodeCmd as = p ++ s) (hs : s ≠ []) (off : Nat) :
    ∃ e, decodeResp (f + 2) 0 p off = .error e ∧ IsEof e := by
  cases p with
  | nil => exact ⟨.eof, by simp [decodeResp, decodeType], Or.inl rfl⟩
  | cons x p' =>
    simp only [encodeCmd, List.cons_append, List.cons.injEq] at h
    obtain ⟨rfl, h⟩ := h
    have hty : ∀ (X : Dec Resp), (decodeResp (f + 2) 0 (42 :: p') off = X) ↔
        ((match decodeInt p' (off + 1) with
          | .error e => .error e
          | .ok (n, o, r) =>
            if n < -1 then .error .bad
            else if n = -1 then .ok (.arr none, o, r)
            else
              match decodeElems (decodeResp (f + 1) (0 + 1)) n.toNat r o with
              | .error e => .error e
              | .ok (vs, o', r') => .ok (.arr (some vs), o', r')) = X) := by
      intro X
      rw [decodeResp, decodeType]
      simp only [show ((42 : UInt8) = 10) = False by decide, if_false,
        show ((42 : UInt8) = 43) = False by decide, show ((42 : UInt8) = 45) = False by decide,
        show ((42 : UInt8) = 58) = False by decide, show ((42 : UInt8) = 36) = False by decide, if_true]
      exact Iff.rfl
    have key : (∃ a', p' = natToDec as.length ++ crlf ++ a' ∧ as.flatMap encodeBulk = a' ++ s) ∨
               (∃ c', c' ≠ [] ∧ natToDec as.length ++ crlf = p' ++ c') := by
      rcases List.append_eq_append_iff.mp h with ⟨a', hp, hq⟩ | ⟨c', hp, hq⟩
      · exact Or.inl ⟨a', hp, hq⟩
      · cases c' with
        | nil => exact Or.inl ⟨[], by simpa using hp.symm, by simpa using hq.symm⟩
        | cons x xs => exact Or.inr ⟨x :: xs, by simp, hp⟩
    rcases key with ⟨a', hp, hq⟩ | ⟨c', hc, hp⟩
    · subst hp
      obtain ⟨e, he, hE⟩ := decodeElems_trunc f 1 as hall a' s hq hs (off + 1 + ((natToDec as.length).length + 2))
      refine ⟨e, ?_, hE⟩
      rw [hty]
      rw [decodeInt_dec _ hn]
      have hn1 : ¬ ((as.length : Int) < -1) := by omega
      have hn2 : ¬ ((as.length : Int) = -1) := by omega
      simp only [hn1, hn2, if_false, Int.toNat_natCast, Nat.zero_add]
      rw [he]
    · refine ⟨.eof, ?_, Or.inl rfl⟩
      rw [hty, decodeInt_trunc _ p' c' hp hc]

theorem decodeCmd_trunc (f : Nat) (c : List Bytes) (hwf : WF c) (p s : Bytes)
    (h : encodeCmd c = p ++ s) (hs : s ≠ []) (off : Nat) :
    ∃ e, decodeCmd (f + 2) p off = .error e ∧ IsEof e := by
  obtain ⟨_, hn, hall, _⟩ := hwf
  obtain ⟨e, he, hE⟩ := decodeResp_cmd_trunc f c hn hall p s h hs off
  exact ⟨e, by unfold decodeCmd; rw [he], hE⟩

theorem take_split {α} (l : List α) (k : Nat) (hk : k < l.length) :
    l = l.take k ++ l.drop k ∧ l.drop k ≠ [] := by
  refine ⟨(List.take_append_drop k l).symm, ?_⟩
  intro h
  have := congrArg List.length h
  simp at this; omega

theorem decodeOne_trunc (c : List Bytes) (hwf : WF c) (k : Nat) (hk : k < (encodeCmd c).length) :
    decodeOne ((encodeCmd c).take k) = .error .eof ∨ decodeOne ((encodeCmd c).take k) = .error .ueof := by
  obtain ⟨h1, h2⟩ := take_split (encodeCmd c) k hk
  unfold decodeOne
  cases hp : (encodeCmd c).take k with
  | nil => left; simp [decodeCmd, decodeResp, decodeType]
  | cons x xs =>
    rw [hp] at h1
    obtain ⟨e, he, hE⟩ := decodeCmd_trunc xs.length c hwf (x :: xs) _ h1 h2 0
    have : (x :: xs).length + 1 = xs.length + 2 := by simp
    rw [this, he]
    rcases hE with rfl | rfl
    · left; rfl
    · right; rfl

theorem decodeAllFrom_trunc (start pre : Nat) (s : List (List Bytes)) (c : List Bytes) (k : Nat)
    (hs : ∀ c ∈ s, WF c) (hc : WF c) (hk : k < (encodeCmd c).length) :
    decodeAllFrom start pre (s.flatMap encodeCmd ++ (encodeCmd c).take k) = (expected (start + pre) s, .eof) ∨
    decodeAllFrom start pre (s.flatMap encodeCmd ++ (encodeCmd c).take k) = (expected (start + pre) s, .ueof) := by
  obtain ⟨h1, h2⟩ := take_split (encodeCmd c) k hk
  generalize hp : (encodeCmd c).take k = p at h1
  unfold decodeAllFrom
  generalize hL : (s.flatMap encodeCmd ++ p).length = L
  by_cases hz : L = 0
  · -- empty input
    subst hz
    have hnil : s.flatMap encodeCmd ++ p = [] := List.eq_nil_of_length_eq_zero hL
    have hs0 : s = [] := by
      cases s with
      | nil => rfl
      | cons c0 cs =>
        have := flatMap_encodeCmd_length_ge (c0 :: cs)
        rw [List.length_append] at hL
        simp only [List.length_cons] at this; omega
    subst hs0
    left
    rw [hnil]
    simp [decodeAllAux, decodeCmd, decodeResp, decodeType, expected, boundaries]
  · have hlen := flatMap_encodeCmd_length_ge s
    have hsl : s.length ≤ L := by rw [← hL, List.length_append]; omega
    rw [decodeAllAux_stream (L + 1) start s p (L + 1) pre (by omega) (by omega) hs]
    obtain ⟨f, hf⟩ : ∃ f, L + 1 = f + 2 := ⟨L - 1, by omega⟩
    obtain ⟨e, he, hE⟩ := decodeCmd_trunc f c hc p _ h1 h2 (pre + (s.flatMap encodeCmd).length)
    obtain ⟨m, hm⟩ : ∃ m, L + 1 - s.length = m + 1 := ⟨L - s.length, by omega⟩
    rw [hm, hf]
    simp only [decodeAllAux, he, List.append_nil]
    rcases hE with rfl | rfl
    · left; rfl
    · right; rfl

/-! ### offsets with a preset decoder counter; bounds -/

theorem decodeAllFrom_stream (start pre : Nat) (s : List (List Bytes)) (hwf : ∀ c ∈ s, WF c) :
    decodeAllFrom start pre (s.flatMap encodeCmd) = (expected (start + pre) s, .eof) := by
  have hc : WF [[65]] := ⟨by decide, by decide, by intro a ha; simp at ha; subst ha; decide,
    by intro b hb; simp at hb; subst hb; decide⟩
  have h := decodeAllFrom_trunc start pre s [[65]] 0 hwf hc (by simp [encodeCmd])
  simp only [List.take_zero, List.append_nil] at h
  rcases h with h | h
  · exact h
  · -- the empty tail ends with eof, never ueof
    exfalso
    unfold decodeAllFrom at h
    generalize hL : (s.flatMap encodeCmd).length = L at h
    have hlen := flatMap_encodeCmd_length_ge s
    by_cases hz : L = 0
    · subst hz
      have hnil : s.flatMap encodeCmd = [] := List.eq_nil_of_length_eq_zero hL
      rw [hnil] at h
      simp [decodeAllAux, decodeCmd, decodeResp, decodeType] at h
    · have := decodeAllAux_stream (L + 1) start s [] (L + 1) pre (by omega) (by omega) hwf
      rw [List.append_nil] at this
      rw [this] at h
      obtain ⟨m, hm⟩ : ∃ m, L + 1 - s.length = m + 1 := ⟨L - s.length, by omega⟩
      obtain ⟨f, hf⟩ : ∃ f, L + 1 = f + 1 := ⟨L, rfl⟩
      rw [hm] at h
      simp [decodeAllAux, decodeCmd, decodeResp, decodeType] at h

theorem boundaries_le (start : Nat) (s : List (List Bytes)) :
    ∀ b ∈ boundaries start s, b ≤ start + (s.flatMap encodeCmd).length := by
  induction s generalizing start with
  | nil => simp [boundaries]
  | cons c cs ih =>
    intro b hb
    simp only [boundaries, List.mem_cons] at hb
    simp only [List.flatMap_cons, List.length_append]
    rcases hb with rfl | hb
    · omega
    · have := ih _ b hb; omega

theorem expected_snd_le (start : Nat) (s : List (List Bytes)) :
    ∀ p ∈ expected start s, p.2 ≤ start + (s.flatMap encodeCmd).length := by
  intro p hp
  unfold expected at hp
  exact boundaries_le start s p.2 (List.of_mem_zip hp).2

/-! ### Go's int64 arithmetic under the no-overflow hypothesis -/

theorem int64_add_exact (x y : Int64) (hx : 0 ≤ x.toInt) (hy : 0 ≤ y.toInt)
    (h : x.toInt + y.toInt < 2^63) : (x + y).toInt = x.toInt + y.toInt := by
  rw [Int64.toInt_add]
  apply Int.bmod_eq_of_le <;> omega

theorem int64_ofNat_toInt (n : Nat) (h : n < 2^63) : (Int64.ofNat n).toInt = n := by
  exact Int64.toInt_ofNat_of_lt h

/-- `d.offset` as Go computes it: a wrapping int64 advanced by each read's length -/
def count64 (pre : Int64) (ks : List Nat) : Int64 := ks.foldl (fun c k => c + Int64.ofNat k) pre

theorem count64_exact (pre : Nat) (ks : List Nat) (h : pre + ks.sum < 2^63) :
    (count64 (Int64.ofNat pre) ks).toInt = (pre + ks.sum : Nat) := by
  induction ks generalizing pre with
  | nil => simp [count64, int64_ofNat_toInt pre (by simpa using h)]
  | cons k ks ih =>
    simp only [List.sum_cons] at h
    have hk : (Int64.ofNat pre + Int64.ofNat k) = Int64.ofNat (pre + k) := by
      apply Int64.toInt_inj.mp
      rw [int64_add_exact _ _ (by rw [int64_ofNat_toInt pre (by omega)]; omega)
            (by rw [int64_ofNat_toInt k (by omega)]; omega)
            (by rw [int64_ofNat_toInt pre (by omega), int64_ofNat_toInt k (by omega)]; omega),
          int64_ofNat_toInt pre (by omega), int64_ofNat_toInt k (by omega), int64_ofNat_toInt (pre + k) (by omega)]
      omega
    have := ih (pre + k) (by omega)
    simp only [count64, List.foldl_cons, List.sum_cons] at this ⊢
    rw [hk, this]
    congr 1; omega

theorem boundaries_ge (start : Nat) (s : List (List Bytes)) : ∀ b ∈ boundaries start s, start ≤ b := by
  induction s generalizing start with
  | nil => simp [boundaries]
  | cons c cs ih =>
    intro b hb
    simp only [boundaries, List.mem_cons] at hb
    rcases hb with rfl | hb
    · omega
    · have := ih _ b hb; omega

theorem expected_snd_ge (start : Nat) (s : List (List Bytes)) :
    ∀ p ∈ expected start s, start ≤ p.2 := by
  intro p hp
  unfold expected at hp
  exact boundaries_ge start s p.2 (List.of_mem_zip hp).2

end GunYu.Resp
