/-
  C17 — states WITHOUT a position: `ResetStartPoint` (the sanctioned deletion of the position: FULLRESYNC),
  what the writers do until `setCheckpoint` stores the position of the new history, and the re-seed.

  `Bare t c`: the hash maps the label, and under the key the reported ids hold nothing but (for the master id,
  in database 0) the placeholder entry with offset −1 that `UpdateCheckpoint` writes when it finds no run id —
  the `dbid < 0` branch of `updateReqs` (D27's branch) is what runs on these states.
    good_reset      Good  → Bare   (complete `DelCheckpoints` of cfg.RunId and the reported ids)
    bare_relabel    Bare  → Bare   (`SetRunId` on a target without a position, stopped anywhere)
    bare_gc         Bare  → Bare
    good_reseed     Bare  → Good   (`setCheckpoint` after the snapshot replay)
  Core only.
-/
import GunYu.Proofs.BookWrites
import GunYu.Proofs.BookGoodB

namespace GunYu.BookSys
open GunYu GunYu.Checkpoint

set_option linter.unusedSimpArgs false
set_option linter.unusedVariables false

/-! ### DelCheckpoints: which requests -/

theorem mem_delInsert {x y : DelRec} : ∀ {l : List DelRec}, y ∈ delInsert x l ↔ y = x ∨ y ∈ l := by
  intro l
  induction l with
  | nil => simp [delInsert]
  | cons z zs ih =>
    unfold delInsert
    split
    · simp
    · simp only [List.mem_cons, ih]
      constructor
      · rintro (h | h | h)
        · exact Or.inr (Or.inl h)
        · exact Or.inl h
        · exact Or.inr (Or.inr h)
      · rintro (h | h | h)
        · exact Or.inr (Or.inl h)
        · exact Or.inl h
        · exact Or.inr (Or.inr h)

theorem mem_delSort_aux {y : DelRec} : ∀ (l acc : List DelRec),
    y ∈ l.foldl (fun acc x => delInsert x acc) acc ↔ y ∈ l ∨ y ∈ acc := by
  intro l
  induction l with
  | nil => intro acc; simp
  | cons x xs ih =>
    intro acc
    simp only [List.foldl_cons, ih, mem_delInsert, List.mem_cons]
    constructor
    · rintro (h | h | h)
      · exact Or.inl (Or.inr h)
      · exact Or.inl (Or.inl h)
      · exact Or.inr h
    · rintro ((h | h) | h)
      · exact Or.inr (Or.inl h)
      · exact Or.inl h
      · exact Or.inr (Or.inr h)

theorem mem_delSort {y : DelRec} {l : List DelRec} : y ∈ delSort l ↔ y ∈ l := by
  unfold delSort; rw [mem_delSort_aux]; simp

theorem optAll_mem {α : Type} : ∀ {l : List (Option α)} {rs : List α}, optAll l = some rs →
    ∀ r, r ∈ rs ↔ some r ∈ l := by
  intro l
  induction l with
  | nil => intro rs h r; simp only [optAll, Option.some.injEq] at h; subst h; simp
  | cons x xs ih =>
    intro rs h r
    cases x with
    | none => simp [optAll] at h
    | some a =>
      simp only [optAll] at h
      cases hx : optAll xs with
      | none => simp [hx] at h
      | some rs' =>
        simp only [hx, Option.map_some, Option.some.injEq] at h
        subst h
        rw [List.mem_cons, List.mem_cons, ih hx r]
        constructor
        · rintro (h | h); exact Or.inl (by rw [h]); exact Or.inr h
        · rintro (h | h); exact Or.inl (Option.some.inj h); exact Or.inr h

theorem optAll_some {α : Type} : ∀ {l : List (Option α)}, (∀ x ∈ l, x ≠ none) → ∃ rs, optAll l = some rs := by
  intro l
  induction l with
  | nil => intro _; exact ⟨[], rfl⟩
  | cons x xs ih =>
    intro h
    cases x with
    | none => exact absurd rfl (h none (List.mem_cons_self ..))
    | some a =>
      obtain ⟨rs, hrs⟩ := ih (fun y hy => h y (List.mem_cons_of_mem _ hy))
      exact ⟨a :: rs, by simp [optAll, hrs]⟩

/-- the requests of a `DelCheckpoints` whose reads all succeed: one HDEL of the four fields per
    (database, label), and nothing else -/
theorem mem_delCheckpointsReqs {t : Checkpoint.Target} {name : Bytes} {ids : List Bytes} {order : List Nat}
    (hok : ∀ db ∈ order, ∀ rid ∈ ids, fetch [rid] (t.cps db name) ≠ none) (q : Req) :
    q ∈ delCheckpointsReqs t name ids order ↔
      ∃ db ∈ order, ∃ rid ∈ ids, q = Req.hdelCp db name (fourKeys rid) := by
  unfold delCheckpointsReqs delRecords
  obtain ⟨rs, hrs⟩ := optAll_some (l := (order.flatMap (fun db => ids.map (fun rid => (db, rid)))).map (fun p =>
      (fetch [p.2] (t.cps p.1 name)).map (fun c => ({ db := p.1, rid := p.2, offset := c.offset, mtime := c.mtime } : DelRec)))) (by
    intro x hx
    obtain ⟨p, hp, rfl⟩ := List.mem_map.mp hx
    obtain ⟨db, hdb, hp'⟩ := List.mem_flatMap.mp hp
    obtain ⟨rid, hrid, rfl⟩ := List.mem_map.mp hp'
    have := hok db hdb rid hrid
    cases hf : fetch [rid] (t.cps db name) with
    | none => exact absurd hf this
    | some c => simp [hf])
  rw [hrs]
  simp only [List.mem_map, mem_delSort]
  constructor
  · rintro ⟨r, hr, rfl⟩
    have := (optAll_mem hrs r).mp hr
    obtain ⟨p, hp, hpr⟩ := List.mem_map.mp this
    obtain ⟨db, hdb, hp'⟩ := List.mem_flatMap.mp hp
    obtain ⟨rid, hrid, rfl⟩ := List.mem_map.mp hp'
    cases hf : fetch [rid] (t.cps db name) with
    | none => simp [hf] at hpr
    | some c =>
      simp only [hf, Option.map_some, Option.some.injEq] at hpr
      subst hpr
      exact ⟨db, hdb, rid, hrid, rfl⟩
  · rintro ⟨db, hdb, rid, hrid, rfl⟩
    cases hf : fetch [rid] (t.cps db name) with
    | none => exact absurd hf (hok db hdb rid hrid)
    | some c =>
      refine ⟨{ db := db, rid := rid, offset := c.offset, mtime := c.mtime }, ?_, rfl⟩
      apply (optAll_mem hrs _).mpr
      apply List.mem_map.mpr
      exact ⟨(db, rid), List.mem_flatMap.mpr ⟨db, hdb, List.mem_map.mpr ⟨rid, hrid, rfl⟩⟩, by simp [hf]⟩

/-- what a list of HDELs leaves of a hash -/
theorem mem_applyAll_hdels (rs : List Req) : ∀ (t : Checkpoint.Target),
    (∀ q ∈ rs, ∃ db nm ks, q = Req.hdelCp db nm ks) → ∀ db nm e,
    (e ∈ (applyAll t rs).cps db nm ↔ e ∈ t.cps db nm ∧ ∀ ks, Req.hdelCp db nm ks ∈ rs → e.key ∉ ks) := by
  induction rs with
  | nil => intro t _ db nm e; simp [applyAll]
  | cons q rs ih =>
    intro t hq db nm e
    simp only [applyAll, List.foldl_cons]
    have := ih (applyReq t q) (fun q' hq' => hq q' (List.mem_cons_of_mem _ hq')) db nm e
    simp only [applyAll] at this
    rw [this]
    obtain ⟨db0, nm0, ks0, rfl⟩ := hq q (List.mem_cons_self ..)
    rw [applyReq_hdelCp_cps]
    by_cases hc : db = db0 ∧ nm = nm0
    · obtain ⟨rfl, rfl⟩ := hc
      simp only [and_self, if_true, Checkpoint.hdelMany, List.mem_filter, List.mem_cons]
      constructor
      · rintro ⟨⟨h1, h2⟩, h3⟩
        refine ⟨h1, ?_⟩
        intro ks hks
        rcases hks with hks | hks
        · injection hks with _ _ hks; subst hks
          intro hin
          have h2' : ¬ (e.key ∈ ks) := by simpa using h2
          exact h2' hin
        · exact h3 ks hks
      · rintro ⟨h1, h2⟩
        refine ⟨⟨h1, ?_⟩, fun ks hks => h2 ks (Or.inr hks)⟩
        have := h2 ks0 (Or.inl rfl)
        have hn : ¬ ks0.contains e.key = true := fun h => this (List.contains_iff_mem.mp h)
        simpa using hn
    · simp only [hc, if_false, List.mem_cons]
      constructor
      · rintro ⟨h1, h2⟩
        refine ⟨h1, ?_⟩
        intro ks hks
        rcases hks with hks | hks
        · injection hks with h1' h2' _; exact absurd ⟨h1', h2'⟩ hc
        · exact h2 ks hks
      · rintro ⟨h1, h2⟩
        exact ⟨h1, fun ks hks => h2 ks (Or.inr hks)⟩

theorem applyAll_hdels_hash (rs : List Req) : ∀ (t : Checkpoint.Target),
    (∀ q ∈ rs, ∃ db nm ks, q = Req.hdelCp db nm ks) → (applyAll t rs).hash = t.hash := by
  induction rs with
  | nil => intro t _; rfl
  | cons q rs ih =>
    intro t hq
    simp only [applyAll, List.foldl_cons]
    obtain ⟨db, nm, ks, rfl⟩ := hq q (List.mem_cons_self ..)
    exact ih (applyReq t (Req.hdelCp db nm ks)) (fun q' hq' => hq q' (List.mem_cons_of_mem _ hq'))

/-! ### states without a position -/

structure Bare (t : Checkpoint.Target) (c : Ctl) : Prop where
  ctl : CtlOK c
  pend : c.pend = none
  hashL : hlookup t.hash c.lab = some c.key
  hashM : c.lab ≠ c.mas → Unmapped t.hash c.mas
  str : StrA t c.names c.ids
  /-- no checkpoint field of the second id under the key -/
  nosec : ∀ db, ∀ e ∈ t.cps db c.key, e.rid = c.sec → e.kind = Kind.other
  /-- of the master id: at most the placeholder entry (offset −1, with its run id) in database 0 -/
  mas0 : ∀ db, ∀ e ∈ t.cps db c.key, e.rid = c.mas → e.kind ≠ Kind.other →
    db = 0 ∧ (e.kind = Kind.offset → Resp.parseInt64 e.val = some (-1))
  masrid : hasKey (c.mas, Kind.offset) (t.cps 0 c.key) → hasKey (c.mas, Kind.runid) (t.cps 0 c.key)

theorem mem_resetIds {runId : Bytes} {ids : List Bytes} {x : Bytes} :
    x ∈ resetIds runId ids ↔ x ∈ runId :: ids ∧ x ≠ [] ∧ x ≠ qmark := by
  unfold resetIds
  have : ∀ (l acc : List Bytes), x ∈ l.foldl (fun acc id => if id = [] ∨ id = qmark ∨ acc.contains id then acc else acc ++ [id]) acc ↔
      x ∈ acc ∨ (x ∈ l ∧ x ≠ [] ∧ x ≠ qmark) := by
    intro l
    induction l with
    | nil => intro acc; simp
    | cons y ys ih =>
      intro acc
      simp only [List.foldl_cons, ih, List.mem_cons]
      by_cases hy : y = [] ∨ y = qmark ∨ acc.contains y
      · rw [if_pos hy]
        constructor
        · rintro (h | ⟨h, h2⟩); exact Or.inl h; exact Or.inr ⟨Or.inr h, h2⟩
        · rintro (h | ⟨h | h, h2⟩)
          · exact Or.inl h
          · subst h
            rcases hy with hy | hy | hy
            · exact absurd hy h2.1
            · exact absurd hy h2.2
            · exact Or.inl (List.contains_iff_mem.mp hy)
          · exact Or.inr ⟨h, h2⟩
      · rw [if_neg hy]
        have hy' : y ≠ [] ∧ y ≠ qmark := ⟨fun h => hy (Or.inl h), fun h => hy (Or.inr (Or.inl h))⟩
        simp only [List.mem_append, List.mem_singleton]
        constructor
        · rintro ((h | h) | ⟨h, h2⟩)
          · exact Or.inl h
          · exact Or.inr ⟨Or.inl h, h ▸ hy'⟩
          · exact Or.inr ⟨Or.inr h, h2⟩
        · rintro (h | ⟨h | h, h2⟩)
          · exact Or.inl (Or.inl h)
          · exact Or.inl (Or.inr h)
          · exact Or.inr ⟨h, h2⟩
  rw [this]; simp

/-- **`ResetStartPoint`, complete, on a reachable state with a position**: no position, the state the
    writers then work on (`order` = `INFO keyspace`: every database holding the key) -/
theorem good_reset {t : Checkpoint.Target} {c : Ctl} {X : Int} {d : Nat} (G : Good t c X d) (hp : c.pend = none)
    (order : List Nat) (hord : ∀ db, t.cps db c.key ≠ [] → db ∈ order) :
    Bare (applyAll t (resetReqs t c.key c.lab [c.mas, c.sec] order)) c := by
  obtain ⟨C, F, hH, hC⟩ := G
  have hfetch : ∀ db ∈ order, ∀ rid ∈ resetIds c.lab [c.mas, c.sec], fetch [rid] (t.cps db c.key) ≠ none := by
    intro db _ rid _ hn
    obtain ⟨cc, hcc, _⟩ := fetch_spec [rid] (t.cps db c.key) (parses_of_ok F.str _ db _)
    rw [hn] at hcc; cases hcc
  have hmem := mem_delCheckpointsReqs (name := c.key) hfetch
  have hdel : ∀ q ∈ resetReqs t c.key c.lab [c.mas, c.sec] order, ∃ db nm ks, q = Req.hdelCp db nm ks := by
    intro q hq
    obtain ⟨db, _, rid, _, rfl⟩ := (hmem q).mp hq
    exact ⟨_, _, _, rfl⟩
  have hcps := mem_applyAll_hdels _ t hdel
  -- the fields of the three labels are gone
  have hgone : ∀ db e, e ∈ (applyAll t (resetReqs t c.key c.lab [c.mas, c.sec] order)).cps db c.key →
      (e.rid = c.mas ∨ e.rid = c.sec) → e.kind = Kind.other := by
    intro db e he hr
    obtain ⟨he0, hnot⟩ := (hcps db c.key e).mp he
    have hdb : db ∈ order := hord db (fun h => by rw [h] at he0; cases he0)
    have hrid : e.rid ∈ resetIds c.lab [c.mas, c.sec] := by
      rw [mem_resetIds]
      rcases hr with h | h
      · rw [h]; exact ⟨by simp, C.m0, C.mq⟩
      · rw [h]
        exact ⟨by simp, C.s0, C.sq⟩
    have := hnot (fourKeys e.rid) ((hmem _).mpr ⟨db, hdb, e.rid, hrid, rfl⟩)
    cases hk : e.kind with
    | other => rfl
    | runid => exact absurd (by simp [fourKeys, Entry.key, hk]) this
    | offset => exact absurd (by simp [fourKeys, Entry.key, hk]) this
    | version => exact absurd (by simp [fourKeys, Entry.key, hk]) this
    | mtime => exact absurd (by simp [fourKeys, Entry.key, hk]) this
  have hhash : (applyAll t (resetReqs t c.key c.lab [c.mas, c.sec] order)).hash = t.hash :=
    applyAll_hdels_hash _ t hdel
  refine ⟨C, hp, by rw [hhash]; exact F.hashL, fun h => by rw [hhash]; exact F.hashM h, ?_, ?_, ?_, ?_⟩
  · apply strA_applyAll _ F.str
    intro q hq
    obtain ⟨db, nm, ks, rfl⟩ := hdel q hq
    trivial
  · intro db e he hr; exact hgone db e he (Or.inr hr)
  · intro db e he hr hk; exact absurd (hgone db e he (Or.inl hr)) hk
  · rintro ⟨e, he, hk⟩
    have h1 : e.rid = c.mas := congrArg Prod.fst hk
    have h2 : e.kind = Kind.offset := congrArg Prod.snd hk
    have := hgone 0 e he (Or.inl h1)
    rw [h2] at this; cases this

/-! ### deletions and a crash on a state without a position -/

theorem bare_del {t : Checkpoint.Target} {c : Ctl} (B : Bare t c) (q : Req)
    (hq : (∃ db nm ks, q = Req.hdelCp db nm ks ∧ KsOK ks) ∨ (∃ rid, q = Req.hdelHash rid ∧ rid ≠ c.lab)) :
    Bare (applyReq t q) c := by
  rcases hq with ⟨db, nm, ks, rfl, hks⟩ | ⟨rid, rfl, hr⟩
  · refine ⟨B.ctl, B.pend, B.hashL, B.hashM, strA_applyReq B.str _ trivial, ?_, ?_, ?_⟩
    · intro db' e he
      rw [applyReq_hdelCp_cps] at he
      split at he
      · rename_i hc; obtain ⟨rfl, rfl⟩ := hc; exact B.nosec _ e (List.mem_filter.mp he).1
      · exact B.nosec db' e he
    · intro db' e he
      rw [applyReq_hdelCp_cps] at he
      split at he
      · rename_i hc; obtain ⟨rfl, rfl⟩ := hc; exact B.mas0 _ e (List.mem_filter.mp he).1
      · exact B.mas0 db' e he
    · rw [applyReq_hdelCp_cps]
      split
      · rename_i hc; obtain ⟨rfl, rfl⟩ := hc; exact hasrid_hdel hks B.masrid
      · exact B.masrid
  · refine ⟨B.ctl, B.pend, ?_, fun h => (B.hashM h).hashDel, strA_applyReq B.str _ trivial, B.nosec, B.mas0, B.masrid⟩
    show hlookup (hashDel t.hash rid) c.lab = _
    rw [hlookup_hashDel_ne _ _ _ (fun h => hr h.symm)]; exact B.hashL

theorem bare_dels {c : Ctl} (rs : List Req) : ∀ {t : Checkpoint.Target}, Bare t c →
    (∀ q ∈ rs, (∃ db nm ks, q = Req.hdelCp db nm ks ∧ KsOK ks) ∨ (∃ rid, q = Req.hdelHash rid ∧ rid ≠ c.lab)) →
    Bare (applyAll t rs) c := by
  induction rs with
  | nil => intro t B _; exact B
  | cons q rs ih =>
    intro t B hq
    simp only [applyAll, List.foldl_cons]
    exact ih (bare_del B q (hq q (List.mem_cons_self ..))) (fun q' hq' => hq q' (List.mem_cons_of_mem _ hq'))

/-- a gc pass on a state without a position -/
theorem bare_gc {t : Checkpoint.Target} {c : Ctl} (B : Bare t c) (live : List Bytes) (h1 : c.mas ∈ live)
    (h2 : c.sec ∈ live) (before : Int) (orders : List (List Nat)) (k : Nat) :
    Bare (applyAll t ((gcReqs t live before orders).take k)) c := by
  have hlive : c.lab ∈ live := by rcases B.ctl.lab with h | h <;> rw [h] <;> assumption
  apply bare_dels _ B
  intro q hq
  rcases gcLoop_shape live before t.hash orders t q (mem_take hq) with ⟨db, name, ρ, b, rfl, _⟩ | ⟨rid, rfl, hr⟩
  · exact Or.inl ⟨_, _, _, rfl, ksOK_staleKeys ρ b⟩
  · exact Or.inr ⟨rid, rfl, fun hc => hr (hc ▸ hlive)⟩

theorem bare_crash {t : Checkpoint.Target} {c : Ctl} (B : Bare t c) : Bare t { c with up := false } := by
  obtain ⟨C, hp, h1, h2, h3, h4, h5, h6⟩ := B
  exact ⟨⟨C.hne, C.m0, C.mq, C.sq, C.lab, C.l0, C.key0, C.keyIn, C.masIn, C.secIn, (fun h => by cases h), C.s0⟩,
    hp, h1, h2, h3, h4, h5, h6⟩

/-! ### `GetCheckpoint` / `UpdateCheckpoint` on a state without a position -/

theorem ridOf_none {ids : List Bytes} {fs : Cp} (h : ∀ e ∈ fs, ridSel ids e = false) : ridOf ids fs = qmark := by
  unfold ridOf
  have : ∀ (l : Cp) (r : Bytes), (∀ x ∈ l, ridSel ids x = false) → l.foldl (ridStep ids) r = r := by
    intro l
    induction l with
    | nil => intro r _; rfl
    | cons y l ih =>
      intro r hall
      simp only [List.foldl_cons]
      have : ridStep ids r y = r := by simp [ridStep, hall y (List.mem_cons_self ..)]
      rw [this]; exact ih r (fun x hx => hall x (List.mem_cons_of_mem _ hx))
  exact this fs qmark h

theorem getCheckpoint_bare (ver : Bytes) {t : Checkpoint.Target} {c : Ctl} (B : Bare t c) (order : List Nat) :
    ∃ cpKv dbid, getCheckpoint ver t c.key [c.mas, c.sec] order = some (cpKv, dbid) ∧ cpKv.offset = -1 ∧
      ((dbid < 0 ∧ cpKv.runId = qmark) ∨ (dbid = 0 ∧ cpKv.runId = c.mas)) := by
  have hfetch : ∀ db, ∃ tc, fetch [c.mas, c.sec] (t.cps db c.key) = some tc ∧ tc.offset = -1 ∧
      (tc.runId = qmark ∨ (tc.runId = c.mas ∧ db = 0)) := by
    intro db
    obtain ⟨tc, htc, hoff, hrid⟩ := fetch_spec [c.mas, c.sec] (t.cps db c.key) (parses_of_ok B.str _ db _)
    refine ⟨tc, htc, ?_, ?_⟩
    · rw [hoff]
      apply foldl_offStep_all_eq _ (-1) _ (-1) _ (Or.inr rfl)
      intro x hx hsx
      rw [offSel_iff, matchId_pair] at hsx
      rcases hsx.1 with h | h
      · exact (B.mas0 db x hx h (by rw [hsx.2]; decide)).2 hsx.2
      · have := B.nosec db x hx h; rw [hsx.2] at this; cases this
    · rw [hrid]
      have hcg : ridOf [c.mas, c.sec] (t.cps db c.key) = ridOf [c.mas] (t.cps db c.key) := by
        apply ridOf_congr
        intro e he
        rw [Bool.eq_iff_iff, ridSel_iff, ridSel_iff, matchId_pair, matchId_one]
        constructor
        · rintro ⟨h | h, hk⟩
          · exact ⟨h, hk⟩
          · have := B.nosec db e he h; rw [hk] at this; cases this
        · rintro ⟨h, hk⟩; exact ⟨Or.inl h, hk⟩
      rw [hcg]
      by_cases hdb : db = 0
      · have := foldl_ridStep_mem [c.mas] (t.cps db c.key) (fun e he hk => (B.str.ok db c.key e he).2 hk) qmark (Or.inl rfl)
        rcases this with h | h
        · exact Or.inl h
        · exact Or.inr ⟨(matchId_one _ _).mp h, hdb⟩
      · left
        apply ridOf_none
        intro e he
        rw [← Bool.not_eq_true, ridSel_iff, matchId_one]
        rintro ⟨h, hk⟩
        exact hdb (B.mas0 db e he h (by rw [hk]; decide)).1
  have hfold : ∀ (o : List Nat) (acc : Option (CpInfo × Int)),
      (∃ cpi rec, acc = some (cpi, rec) ∧ cpi.offset = -1 ∧ (cpi.runId = qmark ∨ (cpi.runId = c.mas ∧ rec = 0))) →
      ∃ cpi rec, o.foldl (bestStep [c.mas, c.sec] t c.key) acc = some (cpi, rec) ∧ cpi.offset = -1 ∧
        (cpi.runId = qmark ∨ (cpi.runId = c.mas ∧ rec = 0)) := by
    intro o
    induction o with
    | nil => intro acc h; exact h
    | cons db rest ih =>
      intro acc h
      simp only [List.foldl_cons]
      apply ih
      obtain ⟨cpi, rec, rfl, ho, hr⟩ := h
      obtain ⟨tc, htc, hto, htr⟩ := hfetch db
      unfold bestStep
      simp only [htc]
      split
      · refine ⟨tc, _, rfl, hto, ?_⟩
        rcases htr with h | ⟨h, hdb⟩
        · exact Or.inl h
        · exact Or.inr ⟨h, by rw [hdb]; rfl⟩
      · exact ⟨cpi, rec, rfl, ho, hr⟩
  obtain ⟨cpi, rec, hacc, ho, hr⟩ := hfold order (some ({ version := ver }, 0)) ⟨_, _, rfl, rfl, Or.inl rfl⟩
  unfold getCheckpoint
  rw [hacc]
  by_cases hq : cpi.runId = qmark
  · simp only [hq, if_true]
    exact ⟨cpi, -1, rfl, ho, Or.inl ⟨by decide, hq⟩⟩
  · simp only [hq, if_false]
    rcases hr with h | ⟨h, hrec⟩
    · exact absurd h hq
    · exact ⟨cpi, rec, rfl, ho, Or.inr ⟨hrec, h⟩⟩

/-- `SetRunId(master id)` on a state without a position: the placeholder entry of the master id in database
    0 and the hash entry — the `dbid < 0` branch (or the entry it wrote before, read back) -/
theorem bare_updateReqs (ver : Bytes) {t : Checkpoint.Target} {c : Ctl} (B : Bare t c) (hl : c.lab ≠ c.mas)
    (o1 o2 : List Nat) (now : Int) :
    ∃ cpKv : CpInfo, updateReqs ver t c.key [c.mas, c.sec] o1 o2 now =
      [Req.hsetCp 0 c.key (cpEntries { cpKv with runId := c.mas, offset := -1 } now), Req.hsetHash c.mas c.key] := by
  have hls : c.lab = c.sec := by rcases B.ctl.lab with h | h; exact absurd h hl; exact h
  have hh : getHash t.hash [c.mas, c.sec] = some (c.key, c.sec) :=
    getHash_of_second (B.hashM hl) (hls ▸ B.hashL)
  obtain ⟨cpKv, dbid, hgc, hoff, hcase⟩ := getCheckpoint_bare ver B o1
  refine ⟨cpKv, ?_⟩
  unfold updateReqs
  simp only [hh, B.ctl.key0, ne_eq, not_false_eq_true, if_true, hgc, B.ctl.hne, or_true]
  rcases hcase with ⟨hneg, hq⟩ | ⟨hz, hm⟩
  · simp [hneg, hq]
  · subst hz
    simp [hm, hoff]

theorem cpEntries_offset_val {c : CpInfo} {now : Int} {e : Entry} (he : e ∈ cpEntries c now)
    (hk : e.kind = Kind.offset) : e.val = intToDec c.offset := by
  unfold cpEntries at he
  simp only [List.mem_append, List.mem_singleton] at he
  rcases he with ((rfl | he) | he) | rfl
  · simp at hk
  · split at he
    · have : e = ⟨c.runId, .runid, c.runId⟩ := by simpa using he
      subst this; simp at hk
    · simp at he
  · split at he
    · have : e = ⟨c.runId, .version, c.version⟩ := by simpa using he
      subst this; simp at hk
    · simp at he
  · rfl

/-- **`SetRunId` on a state without a position, stopped after any number of its requests** -/
theorem bare_relabel (ver : Bytes) {t : Checkpoint.Target} {c : Ctl} (B : Bare t c) (hl : c.lab ≠ c.mas)
    (o1 o2 : List Nat) (now : Int) (hnow : -(2^63 : Int) ≤ now ∧ now < 2^63) (k : Nat) :
    Bare (applyAll t ((updateReqs ver t c.key [c.mas, c.sec] o1 o2 now).take k)) (relabelCtl c k) := by
  obtain ⟨cpKv, hreqs⟩ := bare_updateReqs ver B hl o1 o2 now
  rw [hreqs]
  have hes := cpEntries_ok (c := { cpKv with runId := c.mas, offset := -1 }) (now := now)
    (show -(2^63 : Int) ≤ (-1 : Int) ∧ (-1 : Int) < 2^63 by decide) hnow
  obtain ⟨C, hp, hL, hM, hstr, hns, hm0, hmr⟩ := B
  have B1 : Bare (applyReq t (Req.hsetCp 0 c.key (cpEntries { cpKv with runId := c.mas, offset := -1 } now))) c := by
    refine ⟨C, hp, hL, hM, ?_, ?_, ?_, ?_⟩
    · apply strA_applyReq hstr
      exact ⟨C.keyIn, fun e he => ⟨(hes e he).1, by rw [(hes e he).2]; exact C.masIn⟩⟩
    · intro db e he hr
      rw [applyReq_hsetCp_cps] at he
      split at he
      · rcases mem_hsetMany he with he' | he'
        · exact absurd ((hes e he').2.symm.trans hr) C.hne
        · exact hns 0 e he' hr
      · exact hns db e he hr
    · intro db e he hr hk
      rw [applyReq_hsetCp_cps] at he
      split at he
      · rename_i hc
        rcases mem_hsetMany he with he' | he'
        · refine ⟨hc.1, fun hko => ?_⟩
          rw [cpEntries_offset_val he' hko]
          exact Resp.parseInt64_intToDec (-1) (by decide) (by decide)
        · exact ⟨hc.1, (hm0 0 e he' hr hk).2⟩
      · exact hm0 db e he hr hk
    · intro _
      rw [applyReq_hsetCp_cps]; simp only [and_self, if_true]
      rw [hasKey_hsetMany]; left
      exact cpEntries_has_runid (c := { cpKv with runId := c.mas, offset := -1 }) C.m0
  match k with
  | 0 => simp only [List.take_zero, applyAll, List.foldl_nil, relabelCtl]; exact ⟨C, hp, hL, hM, hstr, hns, hm0, hmr⟩
  | 1 =>
    simp only [List.take_succ_cons, List.take_zero, applyAll, List.foldl_cons, List.foldl_nil, relabelCtl]
    exact B1
  | k + 2 =>
    have h2 : 2 ≤ k + 2 := by omega
    simp only [List.take_succ_cons, List.take_nil, applyAll, List.foldl_cons, List.foldl_nil, relabelCtl, if_pos h2]
    obtain ⟨_, _, _, _, hstr1, hns1, hm01, hmr1⟩ := B1
    refine ⟨⟨C.hne, C.m0, C.mq, C.sq, Or.inl rfl, C.m0, C.key0, C.keyIn, C.masIn, C.secIn, C.upk, C.s0⟩, hp,
      hlookup_hashSet_self _ _ _, fun h => absurd rfl h, strA_applyReq hstr1 _ ⟨C.masIn, C.keyIn⟩, hns1, hm01, hmr1⟩

/-- the start with the current key name on a state without a position has nothing to do -/
theorem bare_start_noop (ver : Bytes) {t : Checkpoint.Target} {c : Ctl} (B : Bare t c) (o1 o2 : List Nat) (now : Int) :
    updateReqs ver t c.key (startIds t.hash [c.mas, c.sec]) o1 o2 now = [] := by
  have hh : getHash t.hash [c.mas, c.sec] = some (c.key, c.lab) := by
    rcases B.ctl.lab with h | h
    · rw [h]; exact getHash_of_first (h ▸ B.hashL) B.ctl.key0
    · by_cases hm : c.lab = c.mas
      · rw [hm]; exact getHash_of_first (hm ▸ B.hashL) B.ctl.key0
      · rw [h]; exact getHash_of_second (B.hashM hm) (h ▸ B.hashL)
  rw [startIds_eq hh]
  by_cases hl : c.lab = c.sec
  · rw [if_pos ⟨hl, fun h' => B.ctl.hne h'.symm⟩]
    exact updateReqs_noop ver o1 o2 now (getHash_of_first (hl ▸ B.hashL) B.ctl.key0)
  · rw [if_neg (fun h' => hl h'.1)]
    have hlm : c.lab = c.mas := by rcases B.ctl.lab with h | h; exact h; exact absurd h hl
    exact updateReqs_noop ver o1 o2 now (hlm ▸ hh)

/-! ### the re-seed -/

/-- **`setCheckpoint(master id, X0)` after the snapshot replay on a state without a position** (the relabel to
    the master id is complete): `Good` again, position `X0` in database 0 -/
theorem good_reseed (ver : Bytes) {t : Checkpoint.Target} {c : Ctl} (B : Bare t c) (hl : c.lab = c.mas)
    (X0 now : Int) (hX0 : 0 ≤ X0 ∧ X0 < 2^63) (hnow : -(2^63 : Int) ≤ now ∧ now < 2^63) :
    Good (applyReq t (seedReq c.key c.mas ver X0 now)) c X0 0 := by
  obtain ⟨C, hp, hL, hM, hstr, hns, hm0, hmr⟩ := B
  unfold seedReq
  have hes := cpEntries_ok (c := { runId := c.mas, offset := X0, version := ver }) (now := now)
    (show -(2^63 : Int) ≤ X0 ∧ X0 < 2^63 from ⟨by omega, hX0.2⟩) hnow
  have hstr' : StrA (applyReq t (Req.hsetCp 0 c.key (cpEntries { runId := c.mas, offset := X0, version := ver } now)))
      c.names c.ids := by
    apply strA_applyReq hstr
    exact ⟨C.keyIn, fun e he => ⟨(hes e he).1, by rw [(hes e he).2]; exact C.masIn⟩⟩
  generalize hs : applyReq t (Req.hsetCp 0 c.key (cpEntries { runId := c.mas, offset := X0, version := ver } now)) = s at hstr'
  have hcps : ∀ db n, s.cps db n = if db = 0 ∧ n = c.key then
      hsetMany (t.cps 0 c.key) (cpEntries { runId := c.mas, offset := X0, version := ver } now) else t.cps db n := by
    intro db n; rw [← hs]; exact applyReq_hsetCp_cps t 0 c.key _ db n
  have hnosec : ∀ db, ∀ e ∈ s.cps db c.key, e.rid = c.sec → e.kind = Kind.other := by
    intro db e he hr
    rw [hcps] at he
    split at he
    · rcases mem_hsetMany he with he' | he'
      · exact absurd ((hes e he').2.symm.trans hr) C.hne
      · exact hns 0 e he' hr
    · exact hns db e he hr
  have hoffmem : (⟨c.mas, Kind.offset, intToDec X0⟩ : Entry) ∈ s.cps 0 c.key := by
    rw [hcps]; simp only [and_self, if_true]
    obtain ⟨pre, hpre⟩ := cpEntries_last { runId := c.mas, offset := X0, version := ver } now
    rw [hpre]; exact mem_hsetMany_last _ _ _
  have hridkey : hasKey (c.mas, Kind.runid) (s.cps 0 c.key) := by
    rw [hcps]; simp only [and_self, if_true]
    rw [hasKey_hsetMany]; left
    exact cpEntries_has_runid (c := { runId := c.mas, offset := X0, version := ver }) C.m0
  have hselq : ∀ db, ∀ x ∈ s.cps db c.key, ridSel [c.mas] x = true → x.val ≠ qmark := by
    intro db x hx hsx
    rw [ridSel_iff, matchId_one] at hsx
    rw [(hstr'.ok db c.key x hx).2 hsx.2, hsx.1]; exact C.mq
  have hcarr : Carrier c.mas s c.key 0 X0 :=
    ⟨offOf_one_of_mem (hstr'.nodup 0 c.key) hoffmem rfl (Resp.parseInt64_intToDec X0 (by omega) hX0.2),
     ridOf_ne_of_hasKey ((matchId_one _ _).mpr rfl) hridkey (hselq 0)⟩
  -- the pair reads what the master id alone reads: no field of the second id
  have hsel : ∀ db, ∀ e ∈ s.cps db c.key, matchId [c.mas, c.sec] e.rid = true → e.kind ≠ Kind.other → e.rid = c.mas := by
    intro db e he hm hk
    rcases (matchId_pair _ _ _).mp hm with h | h
    · exact h
    · exact absurd (hnosec db e he h) hk
  have hoffc : ∀ db, ∀ e ∈ s.cps db c.key, offSel [c.mas, c.sec] e = offSel [c.mas] e := by
    intro db e he
    rw [Bool.eq_iff_iff, offSel_iff, offSel_iff, matchId_one]
    constructor
    · rintro ⟨hm, hk⟩; exact ⟨hsel db e he hm (by rw [hk]; decide), hk⟩
    · rintro ⟨hm, hk⟩; exact ⟨(matchId_pair _ _ _).mpr (Or.inl hm), hk⟩
  have hridc : ∀ db, ∀ e ∈ s.cps db c.key, ridSel [c.mas, c.sec] e = ridSel [c.mas] e := by
    intro db e he
    rw [Bool.eq_iff_iff, ridSel_iff, ridSel_iff, matchId_one]
    constructor
    · rintro ⟨hm, hk⟩; exact ⟨hsel db e he hm (by rw [hk]; decide), hk⟩
    · rintro ⟨hm, hk⟩; exact ⟨(matchId_pair _ _ _).mpr (Or.inl hm), hk⟩
  refine ⟨C, ?_, ?_, hl ▸ hcarr⟩
  · refine ⟨by rw [← hs]; exact hL, fun h => absurd hl h, hstr', ?_, ?_, ?_, fun p hp' => by rw [hp] at hp'; cases hp'⟩
    · intro db
      unfold NoAfter
      apply List.pairwise_of_forall_mem_list
      intro a _ b hb hab
      have := hnosec db b hb (congrArg Prod.fst hab.2)
      have hk : b.kind = Kind.offset := congrArg Prod.snd hab.2
      rw [hk] at this; cases this
    · intro db x hx hsx
      rw [offSel_iff, matchId_one] at hsx
      have := hnosec db x hx hsx.1; rw [hsx.2] at this; cases this
    · intro db hk
      by_cases hdb : db = 0
      · subst hdb; exact hridkey
      · obtain ⟨e, he, hke⟩ := hk
        rw [hcps] at he
        simp only [hdb, false_and, if_false] at he
        have hk : e.kind = Kind.offset := congrArg Prod.snd hke
        exact absurd (hm0 db e he (congrArg Prod.fst hke) (by rw [hk]; decide)).1 hdb
  · refine ⟨hX0.1, fun db => parses_of_ok hstr' _ db _, ?_, ?_, ?_⟩
    · rw [offOf_congr (hoffc 0)]; exact hcarr.1
    · rw [ridOf_congr (hridc 0)]; exact hcarr.2
    · intro db hdb x hx hsx
      rw [hoffc db x hx, offSel_iff, matchId_one] at hsx
      rw [hcps] at hx
      simp only [hdb, false_and, if_false] at hx
      exact absurd (hm0 db x hx hsx.1 (by rw [hsx.2]; decide)).1 hdb

/-! ### `Bare` as a Bool over a dump (driver op c17bare) -/

def bareChecks (dbs : List Nat) (keys : List Bytes) (t : Checkpoint.Target) (c : Ctl) : List (String × Bool) :=
  [ ("ctl", decide (c.mas ≠ c.sec ∧ c.mas ≠ [] ∧ c.mas ≠ qmark ∧ c.sec ≠ qmark ∧ c.sec ≠ [] ∧ (c.lab = c.mas ∨ c.lab = c.sec) ∧
      c.lab ≠ [] ∧ c.key ≠ [] ∧ c.pend = none)),
    ("hashL", decide (hlookup t.hash c.lab = some c.key)),
    ("hashM", decide (c.lab = c.mas) || unmappedb t.hash c.mas),
    ("wf", dbs.all (fun db => keys.all (fun n => (t.cps db n).all entryOKb && decide ((t.cps db n).map Entry.key).Nodup))),
    ("nosec", dbs.all (fun db => (t.cps db c.key).all (fun e => !(decide (e.rid = c.sec)) || decide (e.kind = Kind.other)))),
    ("mas0", dbs.all (fun db => (t.cps db c.key).all (fun e => !(decide (e.rid = c.mas)) || decide (e.kind = Kind.other) ||
      (decide (db = 0) && (!(decide (e.kind = Kind.offset)) || decide (Resp.parseInt64 e.val = some (-1))))))),
    ("masrid", !(hasKeyb (c.mas, Kind.offset) (t.cps 0 c.key)) || hasKeyb (c.mas, Kind.runid) (t.cps 0 c.key)) ]

/-- the driver's answer "bare" means `Bare` (the dump being the whole state, with the ghost clauses) -/
theorem bare_of_checks {dbs : List Nat} {keys : List Bytes} {t : Checkpoint.Target} {c : Ctl}
    (h : ∀ p ∈ bareChecks dbs keys t c, p.2 = true)
    (hdbs : ∀ db, db ∉ dbs → ∀ n, t.cps db n = []) (hkeys : ∀ n, n ∉ keys → ∀ db, t.cps db n = [])
    (hkeyIn : c.key ∈ c.names) (hmasIn : c.mas ∈ c.ids) (hsecIn : c.sec ∈ c.ids)
    (hnames : ∀ n, n ∉ c.names → (∀ db, t.cps db n = []) ∧ ∀ p ∈ t.hash, p.2 ≠ n)
    (hids : ∀ ρ, ρ ∉ c.ids → (∀ db n, ∀ e ∈ t.cps db n, e.rid ≠ ρ) ∧ hlookup t.hash ρ = none) : Bare t c := by
  unfold bareChecks at h
  simp only [List.mem_cons, List.not_mem_nil, or_false, forall_eq_or_imp, forall_eq] at h
  obtain ⟨h1, h2, h3, h4, h5, h6, h7⟩ := h
  simp only [decide_eq_true_eq] at h1 h2
  obtain ⟨hne, hm0, hmq, hsq, hs0, hlab, hl0, hk0, hpend⟩ := h1
  have hempty : ∀ db n, (db ∉ dbs ∨ n ∉ keys) → t.cps db n = [] := by
    intro db n hc
    rcases hc with hc | hc
    · exact hdbs db hc n
    · exact hkeys n hc db
  have hwf : ∀ db n, (∀ e ∈ t.cps db n, EntryOK e) ∧ FieldsNodup (t.cps db n) := by
    intro db n
    by_cases hc : db ∈ dbs ∧ n ∈ keys
    · have := List.all_eq_true.mp (List.all_eq_true.mp h4 db hc.1) n hc.2
      simp only [Bool.and_eq_true, List.all_eq_true, decide_eq_true_eq] at this
      exact ⟨fun e he => (entryOKb_iff e).mp (this.1 e he), this.2⟩
    · rw [hempty db n (by by_cases h1 : db ∈ dbs; exact Or.inr (fun h2 => hc ⟨h1, h2⟩); exact Or.inl h1)]
      exact ⟨(fun e he => by cases he), List.nodup_nil⟩
  refine ⟨⟨hne, hm0, hmq, hsq, hlab, hl0, hk0, hkeyIn, hmasIn, hsecIn, fun _ => hpend, hs0⟩, hpend, h2, ?_,
    ⟨fun db n => (hwf db n).1, fun db n => (hwf db n).2, ⟨dbs, hdbs⟩, hnames, hids⟩, ?_, ?_, ?_⟩
  · intro hl
    simp only [Bool.or_eq_true, decide_eq_true_eq, unmappedb] at h3
    rcases h3 with h | h
    · exact absurd h hl
    · exact h
  · intro db e he hr
    by_cases hdb : db ∈ dbs
    · have := List.all_eq_true.mp (List.all_eq_true.mp h5 db hdb) e he
      simp only [Bool.or_eq_true, Bool.not_eq_true', decide_eq_false_iff_not, decide_eq_true_eq] at this
      exact this.resolve_left (fun h => h hr)
    · rw [hdbs db hdb] at he; cases he
  · intro db e he hr hk
    by_cases hdb : db ∈ dbs
    · have := List.all_eq_true.mp (List.all_eq_true.mp h6 db hdb) e he
      simp only [Bool.or_eq_true, Bool.not_eq_true', decide_eq_false_iff_not, decide_eq_true_eq, Bool.and_eq_true] at this
      rcases this with (h | h) | h
      · exact absurd hr h
      · exact absurd h hk
      · exact ⟨h.1, fun hko => h.2.resolve_left (fun h' => h' hko)⟩
    · rw [hdbs db hdb] at he; cases he
  · intro hk
    simp only [Bool.or_eq_true, Bool.not_eq_true'] at h7
    rcases h7 with h | h
    · rw [← hasKeyb_iff] at hk; rw [hk] at h; cases h
    · exact (hasKeyb_iff _ _).mp h

end GunYu.BookSys
