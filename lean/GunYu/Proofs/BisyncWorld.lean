/-
  Helper lemmas for C13: the two-site world. Invariant: every block a link or
  the expiry of a bookkeeping key left in a stream is quiet for the opposite
  link; every foreign block consists of forwardable commands; each link has
  committed exactly the foreign non-empty blocks it has consumed, in order.
-/
import GunYu.Proofs.BisyncBlocks

namespace GunYu.Bisync
open GunYu GunYu.BisyncUnit

/-! ### client commands and their effects -/

/-- an argument under one of the reserved prefixes (`redis-gunyu-bisync:`,
    `redis-gunyu-checkpoint`, `/redis-gunyu`) -/
def Res (a : Bytes) : Prop := isNamespaceKey a = true ∨ FilterReserved a

/-- a client command the world theorem ranges over: forwardable name, no
    argument under a reserved prefix -/
structure ClientOK (pc : PCfg) (c : Cmd) : Prop where
  safe : TxnSafe c
  notPing : lower c.name ≠ wPing
  notPublish : Filter.eqFold (lower c.name) wPublish = false
  notBlack : pc.filter.filterCmd (lower c.name) = false
  args : ∀ a ∈ c.args, ¬ Res a

theorem fgn_of_clientOK (pc : PCfg) (c : Cmd) (h : ClientOK pc c) : Fgn pc c where
  safe := h.safe
  notPing := h.notPing
  notPublish := h.notPublish
  notBlack := h.notBlack
  keys := by
    intro idx hidx i hi hr
    have hlt := (Filter.keyIndexes_inRange hidx).2 i hi
    apply h.args (c.args.getD i []) _ (Or.inr hr)
    rw [List.getD_eq_getElem?_getD, List.getElem?_eq_getElem hlt]
    exact List.getElem_mem hlt
  outside := by
    have hns : ∀ a ∈ c.args, isNamespaceKey a = false := by
      intro a ha
      cases hx : isNamespaceKey a with
      | false => rfl
      | true => exact absurd (Or.inl hx) (h.args a ha)
    unfold touchesNamespace norm
    cases hargs : c.args with
    | nil => simp
    | cons k rest =>
      rw [hargs] at hns
      simp only [List.isEmpty_cons, Bool.false_eq_true, ↓reduceIte, List.headD_cons]
      split
      · rw [List.any_eq_false]
        intro a ha
        rw [hns a ha]
        simp
      · exact hns k (by simp)

theorem res_head (a : Bytes) (h : Res a) : a.head? = some 114 ∨ a.head? = some 47 := by
  have pre : ∀ p : Bytes, ∀ b, p.head? = some b → p <+: a → a.head? = some b := by
    intro p b hp hpa
    obtain ⟨t, rfl⟩ := hpa
    cases p with
    | nil => cases hp
    | cons x xs => simpa using hp
  rcases h with h | h
  · unfold isNamespaceKey at h
    rw [Bool.or_eq_true] at h
    rcases h with h | h
    · left; exact pre nsPrefix 114 (by decide) (List.isPrefixOf_iff_prefix.mp h)
    · left; exact pre Gen.checkpointKey 114 (by decide) (List.isPrefixOf_iff_prefix.mp h)
  · rcases h with h | h
    · left; exact pre Gen.checkpointKey 114 (by decide) h
    · right; exact pre Gen.namespacePrefixKey 47 (by decide) h

theorem natToDec_not_res (n : Nat) : ¬ Res (natToDec n) := by
  intro h
  have hne := Decimal.natToDec_ne_nil n
  have hall := Decimal.natToDec_all_digit n
  cases hd : natToDec n with
  | nil => exact hne hd
  | cons x xs =>
    have hx : isDigit x = true := hall x (by rw [hd]; simp)
    rw [hd] at h
    rcases res_head _ h with e | e
    · simp only [List.head?_cons, Option.some.injEq] at e
      rw [e] at hx; revert hx; decide
    · simp only [List.head?_cons, Option.some.injEq] at e
      rw [e] at hx; revert hx; decide

theorem word_not_res (w : Bytes) (h : w.head? ≠ some 114 ∧ w.head? ≠ some 47) : ¬ Res w := by
  intro hr
  rcases res_head w hr with e | e
  · exact h.1 e
  · exact h.2 e

theorem dropGet_sub (opts : List Bytes) : ∀ a ∈ dropGet opts, a ∈ opts := by
  intro a ha
  exact (List.mem_filter.mp ha).1

/-- the effects of a client command are again such commands -/
theorem eff_clientOK (pc : PCfg) (hf : FOK pc.filter) (rcfg : RedisCfg) (c e : Cmd) (hc : ClientOK pc c)
    (h : EffShape rcfg c e) : ClientOK pc e := by
  have hPxat : ¬ Res wPxat := word_not_res _ (by decide)
  have hAbs : ¬ Res wAbsttl := word_not_res _ (by decide)
  cases h with
  | same => exact hc
  | del k hk =>
    have hargs : ∀ a ∈ (delCmd rcfg k).args, ¬ Res a := by
      intro a ha
      have : a = k := by simpa [delCmd] using ha
      rw [this]; exact hc.args k hk
    unfold delCmd at hargs ⊢
    cases rcfg.lazyUnlink
    · exact ⟨txnSafe_of_name _ wDel (by show lower wDel = wDel; decide) safe_del,
        by show lower wDel ≠ wPing; decide, by show Filter.eqFold (lower wDel) wPublish = false; decide,
        by show pc.filter.filterCmd (lower wDel) = false
           have : lower wDel = wDel := by decide
           rw [this]; exact hf.delCmd, hargs⟩
    · exact ⟨txnSafe_of_name _ wUnlink (by show lower wUnlink = wUnlink; decide) safe_unlink,
        by show lower wUnlink ≠ wPing; decide, by show Filter.eqFold (lower wUnlink) wPublish = false; decide,
        by show pc.filter.filterCmd (lower wUnlink) = false
           have : lower wUnlink = wUnlink := by decide
           rw [this]; exact hf.unlinkCmd, hargs⟩
  | setPxat k v opts t hargs =>
    refine ⟨txnSafe_of_name _ wSet (by show lower wSet = wSet; decide) safe_set,
      by show lower wSet ≠ wPing; decide, by show Filter.eqFold (lower wSet) wPublish = false; decide, ?_, ?_⟩
    · show pc.filter.filterCmd (lower wSet) = false
      have : lower wSet = wSet := by decide
      rw [this]; exact hf.setCmd
    · intro a ha
      simp only [List.mem_cons, List.not_mem_nil, or_false] at ha
      rcases ha with rfl | rfl | rfl | rfl
      · exact hc.args _ (by rw [hargs]; simp)
      · exact hc.args _ (by rw [hargs]; simp)
      · exact hPxat
      · exact natToDec_not_res t
  | setPlain k v opts hargs =>
    refine ⟨hc.safe, hc.notPing, hc.notPublish, hc.notBlack, ?_⟩
    intro a ha
    simp only [List.mem_cons] at ha
    rcases ha with rfl | rfl | ha
    · exact hc.args _ (by rw [hargs]; simp)
    · exact hc.args _ (by rw [hargs]; simp)
    · exact hc.args _ (by rw [hargs]; simp [dropGet_sub opts a ha])
  | pexpireat k t hk =>
    refine ⟨txnSafe_of_name _ wPexpireat (by show lower wPexpireat = wPexpireat; decide) safe_pexpireat,
      by show lower wPexpireat ≠ wPing; decide,
      by show Filter.eqFold (lower wPexpireat) wPublish = false; decide, ?_, ?_⟩
    · show pc.filter.filterCmd (lower wPexpireat) = false
      have : lower wPexpireat = [112,101,120,112,105,114,101,97,116] := by decide
      rw [this]; exact hf.pexpireatCmd
    · intro a ha
      simp only [List.mem_cons, List.not_mem_nil, or_false] at ha
      rcases ha with rfl | rfl
      · exact hc.args _ hk
      · exact natToDec_not_res t
  | restoreAbs k tt payload opts t hargs =>
    refine ⟨hc.safe, hc.notPing, hc.notPublish, hc.notBlack, ?_⟩
    intro a ha
    simp only [List.mem_cons, List.mem_append, List.not_mem_nil, or_false] at ha
    rcases ha with (rfl | rfl | rfl | ha) | rfl
    · exact hc.args _ (by rw [hargs]; simp)
    · exact natToDec_not_res t
    · exact hc.args _ (by rw [hargs]; simp)
    · exact hc.args _ (by rw [hargs]; simp [ha])
    · exact hAbs

theorem execCmds_clientOK (pc : PCfg) (hf : FOK pc.filter) (rcfg : RedisCfg) (now : Nat) (st : Store)
    (cs : List Cmd) (h : ∀ c ∈ cs, ClientOK pc c) : ∀ e ∈ (execCmds rcfg now st cs).2, ClientOK pc e := by
  intro e he
  obtain ⟨c, hc, hs⟩ := execCmds_shape rcfg now cs st e he
  exact eff_clientOK pc hf rcfg c e (h c hc) hs

/-- every command in a block made from `effects` is one of the effects -/
theorem toBlocks_body (rcfg : RedisCfg) (isTxn : Bool) (n : Nat) (eff : List Cmd) :
    ∀ b ∈ toBlocks rcfg isTxn n eff, ∀ c ∈ b.body, c ∈ eff := by
  intro b hb c hc
  unfold toBlocks at hb
  split at hb
  · split at hb
    · cases hb
    · simp only [List.mem_singleton] at hb
      rw [hb] at hc
      simpa [Block.body] using hc
    · simp only [List.mem_singleton] at hb
      rw [hb] at hc
      exact hc
  · split at hb
    · split at hb
      · cases hb
      · simp only [List.mem_singleton] at hb
        rw [hb] at hc
        exact hc
    · obtain ⟨c0, hc0, rfl⟩ := List.mem_map.mp hb
      have : c = c0 := by simpa [Block.body] using hc
      rw [this]; exact hc0

/-! ### world bookkeeping -/

theorem site_setSite_same (w : World) (s : SiteId) (x : SiteSt) : (w.setSite s x).site s = x := by
  cases s <;> rfl
theorem site_setSite_other (w : World) (s : SiteId) (x : SiteSt) : (w.setSite s x).site s.other = w.site s.other := by
  cases s <;> rfl
theorem link_setSite (w : World) (s t : SiteId) (x : SiteSt) : (w.setSite s x).link t = w.link t := by
  cases s <;> cases t <;> rfl
theorem commits_setSite (w : World) (s : SiteId) (x : SiteSt) : (w.setSite s x).commits = w.commits := by
  cases s <;> rfl
theorem site_setLink (w : World) (s t : SiteId) (l : LinkSt) : (w.setLink s l).site t = w.site t := by
  cases s <;> cases t <;> rfl
theorem link_setLink_same (w : World) (s : SiteId) (l : LinkSt) : (w.setLink s l).link s = l := by
  cases s <;> rfl
theorem link_setLink_other (w : World) (s : SiteId) (l : LinkSt) : (w.setLink s l).link s.other = w.link s.other := by
  cases s <;> rfl
theorem commits_setLink (w : World) (s : SiteId) (l : LinkSt) : (w.setLink s l).commits = w.commits := by
  cases s <;> rfl
theorem other_other (s : SiteId) : s.other.other = s := by cases s <;> rfl
theorem other_ne (s : SiteId) : s.other ≠ s := by cases s <;> decide
theorem eq_or_other (s t : SiteId) : t = s ∨ t = s.other := by cases s <;> cases t <;> simp [SiteId.other]
theorem eq_or_other' (s t : SiteId) : s = t ∨ s.other = t := by cases s <;> cases t <;> simp [SiteId.other]

/-! ### the invariant -/

def isForeign : Tag → Bool
  | .foreign _ => true
  | _ => false

/-- a block the opposite link passes over, whatever idle state it is in -/
def QuietB (pc : PCfg) (b : Block) : Prop :=
  ∀ pst, Idle pst → ∃ pst', parseBlock pc pst b = ([], pst', none) ∧ Idle pst' ∧ pst'.seq = pst.seq

/-- a block of forwardable foreign commands -/
def FgnB (pc : PCfg) (b : Block) : Prop := ∀ c ∈ b.body, Fgn pc c

def BlockOK (pc : PCfg) (tb : TBlock) : Prop :=
  if isForeign tb.tag then FgnB pc tb.block else QuietB pc tb.block

/-- does the opposite link owe this block a commit? -/
def due (tb : TBlock) : Bool := isForeign tb.tag && !tb.block.body.isEmpty

/-- the tags of the first `n` blocks that must have been committed -/
def dueTags (s : List TBlock) (n : Nat) : List Tag := ((s.take n).filter due).map (·.tag)

/-- the tags committed at site `dst`, in order -/
def commitsAt (w : World) (dst : SiteId) : List Tag := (w.commits.filter (fun p => p.2 == dst)).map (·.1)

structure WInv (cfg : WCfg) (w : World) : Prop where
  blocks : ∀ s, ∀ tb ∈ (w.site s).stream, BlockOK cfg.parser tb
  idle : ∀ s, Idle (w.link s).pst
  pos : ∀ s, (w.link s).pos ≤ (w.site s).stream.length
  once : ∀ s, commitsAt w s.other = dueTags (w.site s).stream (w.link s).pos
  halt : ∀ s e, (w.link s).halted = some e → ∃ be, e = .build be

theorem dueTags_append (s t : List TBlock) (n : Nat) (h : n ≤ s.length) : dueTags (s ++ t) n = dueTags s n := by
  unfold dueTags
  rw [List.take_append_of_le_length h]

theorem dueTags_succ (s : List TBlock) (n : Nat) (tb : TBlock) (h : s[n]? = some tb) :
    dueTags s (n + 1) = dueTags s n ++ (if due tb then [tb.tag] else []) := by
  unfold dueTags
  have hlt : n < s.length := by
    rcases Nat.lt_or_ge n s.length with h1 | h1
    · exact h1
    · rw [List.getElem?_eq_none h1] at h; cases h
  have hget : s[n] = tb := by
    rw [List.getElem?_eq_getElem hlt] at h
    injection h
  rw [List.take_succ_eq_append_getElem hlt, hget, List.filter_append, List.map_append]
  congr 1
  by_cases hd : due tb = true
  · simp [hd]
  · have : due tb = false := by
      cases hx : due tb with
      | true => exact absurd hx hd
      | false => rfl
    simp [this]

/-- appending blocks that are all in order to one site's stream keeps the invariant -/
theorem winv_append (cfg : WCfg) (w : World) (hinv : WInv cfg w) (s : SiteId) (x : SiteSt) (tbs : List TBlock)
    (hx : x.stream = (w.site s).stream ++ tbs) (hok : ∀ tb ∈ tbs, BlockOK cfg.parser tb) :
    WInv cfg (w.setSite s x) where
  blocks := by
    intro t tb htb
    rcases eq_or_other s t with rfl | rfl
    · rw [site_setSite_same, hx] at htb
      rcases List.mem_append.mp htb with h | h
      · exact hinv.blocks _ tb h
      · exact hok tb h
    · rw [site_setSite_other] at htb
      exact hinv.blocks _ tb htb
  idle := by intro t; rw [link_setSite]; exact hinv.idle t
  pos := by
    intro t
    rw [link_setSite]
    rcases eq_or_other s t with rfl | rfl
    · rw [site_setSite_same, hx, List.length_append]
      have := hinv.pos t
      omega
    · rw [site_setSite_other]; exact hinv.pos _
  once := by
    intro t
    rw [link_setSite]
    have hc : commitsAt (w.setSite s x) t.other = commitsAt w t.other := by
      unfold commitsAt; rw [commits_setSite]
    rw [hc]
    rcases eq_or_other s t with rfl | rfl
    · rw [site_setSite_same, hx, dueTags_append _ _ _ (hinv.pos t)]
      exact hinv.once t
    · rw [site_setSite_other]; exact hinv.once _
  halt := by intro t e h; rw [link_setSite] at h; exact hinv.halt t e h

theorem winv_nextId (cfg : WCfg) (w : World) (n : Nat) (h : WInv cfg w) : WInv cfg { w with nextId := n } :=
  ⟨fun s => by cases s; exact h.blocks .A; exact h.blocks .B,
   fun s => by cases s; exact h.idle .A; exact h.idle .B,
   fun s => by cases s; exact h.pos .A; exact h.pos .B,
   fun s => by cases s; exact h.once .A; exact h.once .B,
   fun s => by cases s; exact h.halt .A; exact h.halt .B⟩

theorem winv_now (cfg : WCfg) (w : World) (s : SiteId) (n : Nat) (h : WInv cfg w) :
    WInv cfg (w.setSite s { w.site s with now := n }) := by
  apply winv_append cfg w h s _ []
  · simp
  · intro tb htb; cases htb


/-! ### link updates -/

theorem winv_setLink (cfg : WCfg) (w : World) (hinv : WInv cfg w) (src : SiteId) (l' : LinkSt)
    (hidle : Idle l'.pst) (hpos : l'.pos ≤ (w.site src).stream.length)
    (honce : dueTags (w.site src).stream l'.pos = dueTags (w.site src).stream (w.link src).pos)
    (hhalt : ∀ e, l'.halted = some e → ∃ be, e = .build be) : WInv cfg (w.setLink src l') where
  blocks := by intro t tb htb; rw [site_setLink] at htb; exact hinv.blocks t tb htb
  idle := by
    intro t
    rcases eq_or_other src t with rfl | rfl
    · rw [link_setLink_same]; exact hidle
    · rw [link_setLink_other]; exact hinv.idle _
  pos := by
    intro t
    rw [site_setLink]
    rcases eq_or_other src t with rfl | rfl
    · rw [link_setLink_same]; exact hpos
    · rw [link_setLink_other]; exact hinv.pos _
  once := by
    intro t
    have hc : commitsAt (w.setLink src l') t.other = commitsAt w t.other := by
      unfold commitsAt; rw [commits_setLink]
    rw [hc, site_setLink]
    rcases eq_or_other src t with rfl | rfl
    · rw [link_setLink_same, honce]; exact hinv.once _
    · rw [link_setLink_other]; exact hinv.once _
  halt := by
    intro t e h
    rcases eq_or_other src t with rfl | rfl
    · rw [link_setLink_same] at h; exact hhalt e h
    · rw [link_setLink_other] at h; exact hinv.halt _ e h

theorem mem_of_getElem? {α : Type} (l : List α) (n : Nat) (x : α) (h : l[n]? = some x) : x ∈ l ∧ n < l.length := by
  rcases Nat.lt_or_ge n l.length with h1 | h1
  · rw [List.getElem?_eq_getElem h1] at h
    injection h with h
    exact ⟨h ▸ List.getElem_mem h1, h1⟩
  · rw [List.getElem?_eq_none h1] at h; cases h

/-- appending one commit record for `dst` -/
theorem commitsAt_append (w : World) (tag : Tag) (dst t : SiteId) :
    commitsAt { w with commits := w.commits ++ [(tag, dst)] } t =
      commitsAt w t ++ (if dst == t then [tag] else []) := by
  unfold commitsAt
  simp only [List.filter_append, List.map_append]
  congr 1
  by_cases h : (dst == t) = true
  · simp [h]
  · have : (dst == t) = false := by
      cases hx : (dst == t) with
      | true => exact absurd hx h
      | false => rfl
    simp [this]

theorem winv_commits (cfg : WCfg) (w : World) (tag : Tag) (dst : SiteId)
    (hb : ∀ s, ∀ tb ∈ (w.site s).stream, BlockOK cfg.parser tb) (hi : ∀ s, Idle (w.link s).pst)
    (hp : ∀ s, (w.link s).pos ≤ (w.site s).stream.length)
    (ho : ∀ s, commitsAt w s.other ++ (if dst == s.other then [tag] else []) =
      dueTags (w.site s).stream (w.link s).pos)
    (hh : ∀ s e, (w.link s).halted = some e → ∃ be, e = .build be) :
    WInv cfg { w with commits := w.commits ++ [(tag, dst)] } where
  blocks := by intro s; cases s; exact hb .A; exact hb .B
  idle := by intro s; cases s; exact hi .A; exact hi .B
  pos := by intro s; cases s; exact hp .A; exact hp .B
  once := by
    intro s
    rw [commitsAt_append]
    cases s
    · exact ho .A
    · exact ho .B
  halt := by intro s; cases s; exact hh .A; exact hh .B

/-! ### events the theorems range over -/

/-- the bookkeeping request propagates not at all, or as ONE stand-alone command
    of the bookkeeping vocabulary — itself (the keys it names carry no expiry:
    the tool sets none, clients stay out of the namespace), or, for the DEL of
    a marker alone, the deletion of that marker by its expiry -/
def BookClean (cfg : WCfg) (w : World) (src : SiteId) (bk : Bookkeeping) : Prop :=
  let st := w.site src.other
  (execCmds (cfg.redis src.other) st.now st.store [bk.toCmd]).2 = [] ∨
  ∃ bk' : Bookkeeping, bk'.Valid ∧ (execCmds (cfg.redis src.other) st.now st.store [bk.toCmd]).2 = [bk'.toCmd]

def EvOK (cfg : WCfg) (w : World) : Ev → Prop
  | .client _ _ cmds => ∀ c ∈ cmds, ClientOK cfg.parser c
  | .tick _ _ => True
  | .expire _ k => ¬ FilterReserved k
  | .link _ _ => True
  | .snapshot _ cmds _ => ∀ c ∈ cmds, TxnSafe c
  | .book src bk => bk.Valid ∧ BookClean cfg w src bk
  | .toolRaw _ _ _ => False
  | .restart _ _ _ => False      -- restarts are covered by the global theorem (`GInv`, Proofs/BisyncGlobal.lean)

def GoodRun (cfg : WCfg) : World → List Ev → Prop
  | _, [] => True
  | w, e :: es => EvOK cfg w e ∧ GoodRun cfg (stepWorld cfg w e) es

theorem tagIds_ok (pc : PCfg) (n : Nat) (bs : List Block) (h : ∀ b ∈ bs, FgnB pc b) :
    ∀ tb ∈ tagIds n bs, BlockOK pc tb := by
  induction bs generalizing n with
  | nil => intro tb htb; cases htb
  | cons b bs ih =>
    intro tb htb
    simp only [tagIds, List.mem_cons] at htb
    rcases htb with rfl | htb
    · unfold BlockOK
      simp only [isForeign, ↓reduceIte]
      exact h b (by simp)
    · exact ih (n + 1) (fun b' hb' => h b' (List.mem_cons_of_mem _ hb')) tb htb

theorem tagged_quiet_ok (pc : PCfg) (tag : Tag) (htag : isForeign tag = false) (bs : List Block)
    (h : ∀ b ∈ bs, QuietB pc b) : ∀ tb ∈ bs.map (fun b => (⟨tag, b⟩ : TBlock)), BlockOK pc tb := by
  intro tb htb
  obtain ⟨b, hb, rfl⟩ := List.mem_map.mp htb
  unfold BlockOK
  simp only [htag, Bool.false_eq_true, ↓reduceIte]
  exact h b hb

theorem norm_txnSafe (c : Cmd) (h : TxnSafe c) : TxnSafe (norm c) := by
  unfold TxnSafe norm at *
  have : lower (lower c.name) = lower c.name := Filter.lower_lower _
  simp only [this]
  exact h

theorem markerKey_ok (cp tag : Bytes) : isMarkerKey (Gen.markerKey cp tag) = true := markerKey_isMarker cp tag

/-- the commit transaction of any unit of safe commands is a `ToolTxn` -/
theorem commit_toolTxn (cp : Bytes) (k : CommitKind) (u : RUnit) (p : Payload) (hu : ∀ c ∈ u.cmds, TxnSafe c) :
    ToolTxn (Gen.markerKey cp u.slotTag) (commitCmds cp k u p) := by
  have hh : ∀ args, TxnSafe ⟨wHset, args⟩ := fun _ => txnSafe_of_name _ wHset (by show lower wHset = wHset; decide) safe_hset
  have hz : ∀ args, TxnSafe ⟨wZadd, args⟩ := fun _ => txnSafe_of_name _ wZadd (by show lower wZadd = wZadd; decide) safe_zadd
  constructor
  cases k with
  | rdb => exact ⟨p.markerValue, u.cmds, rfl, hu⟩
  | latest =>
    refine ⟨p.markerValue, u.cmds ++ [⟨wHset, recordKey cp u p .latest :: p.recordFields⟩], rfl, ?_⟩
    intro c hc
    rcases List.mem_append.mp hc with h | h
    · exact hu c h
    · rw [List.mem_singleton.mp h]; exact hh _
  | journal =>
    refine ⟨p.markerValue, u.cmds ++ [⟨wHset, recordKey cp u p .journal :: p.recordFields⟩,
      ⟨wZadd, [Gen.commitIndexKey cp u.slotTag, natToDec p.seq, recordKey cp u p .journal]⟩], rfl, ?_⟩
    intro c hc
    rcases List.mem_append.mp hc with h | h
    · exact hu c h
    · simp only [List.mem_cons, List.not_mem_nil, or_false] at h
      rcases h with rfl | rfl
      · exact hh _
      · exact hz _

/-- executing something whose blocks are all quiet keeps the invariant -/
theorem winv_execAt (cfg : WCfg) (w : World) (hinv : WInv cfg w) (s : SiteId) (isTxn : Bool)
    (cmds : List Cmd) (tag : Tag) (htag : isForeign tag = false)
    (hq : ∀ b ∈ toBlocks (cfg.redis s) isTxn cmds.length
      (execCmds (cfg.redis s) (w.site s).now (w.site s).store cmds).2, QuietB cfg.parser b) :
    WInv cfg (execAt cfg w s isTxn cmds tag) := by
  unfold execAt
  apply winv_append cfg w hinv s _ _ rfl
  exact tagged_quiet_ok cfg.parser tag htag _ hq

/-- executing a tool transaction at a site keeps the invariant -/
theorem winv_execTool (cfg : WCfg) (hf : FOK cfg.parser.filter) (w : World) (hinv : WInv cfg w) (s : SiteId)
    (txn : List Cmd) (mk : Bytes) (hk : isMarkerKey mk = true) (ht : ToolTxn mk txn) (tag : Tag)
    (htag : isForeign tag = false) : WInv cfg (execAt cfg w s true txn tag) := by
  unfold execAt
  apply winv_append cfg w hinv s _ _ rfl
  apply tagged_quiet_ok cfg.parser tag htag
  intro b hb pst hi
  exact tool_blocks_quiet cfg.parser hf (cfg.redis s) _ _ mk hk txn ht pst hi b hb


/-! ### every event keeps the invariant -/

theorem step_client (cfg : WCfg) (hf : FOK cfg.parser.filter) (w : World) (hinv : WInv cfg w)
    (s : SiteId) (isTxn : Bool) (cmds : List Cmd) (hok : ∀ c ∈ cmds, ClientOK cfg.parser c) :
    WInv cfg (stepWorld cfg w (.client s isTxn cmds)) := by
  unfold stepWorld
  simp only
  apply winv_nextId
  apply winv_append cfg w hinv s _ _ rfl
  apply tagIds_ok
  intro b hb c hc
  have := toBlocks_body _ _ _ _ b hb c hc
  exact fgn_of_clientOK _ _ (execCmds_clientOK cfg.parser hf _ _ _ cmds hok c this)

theorem clientOK_del (pc : PCfg) (hf : FOK pc.filter) (rcfg : RedisCfg) (k : Bytes) (hk : ¬ Res k) :
    ClientOK pc (delCmd rcfg k) := by
  have hc : ClientOK pc ⟨wDel, [k]⟩ :=
    ⟨txnSafe_of_name _ wDel (by show lower wDel = wDel; decide) safe_del, by show lower wDel ≠ wPing; decide,
     by show Filter.eqFold (lower wDel) wPublish = false; decide,
     by show pc.filter.filterCmd (lower wDel) = false
        have : lower wDel = wDel := by decide
        rw [this]; exact hf.delCmd,
     by intro a ha; have : a = k := by simpa using ha
        rw [this]; exact hk⟩
  exact eff_clientOK pc hf rcfg _ _ hc (.del k (by simp))

theorem ns_cases (k : Bytes) (h : isNamespaceKey k = true) : hasPrefix nsPrefix k = true ∨ Gen.checkpointKey <+: k := by
  unfold isNamespaceKey at h
  rw [Bool.or_eq_true] at h
  rcases h with h | h
  · exact Or.inl h
  · exact Or.inr (List.isPrefixOf_iff_prefix.mp h)

theorem step_expire (cfg : WCfg) (hf : FOK cfg.parser.filter) (w : World) (hinv : WInv cfg w)
    (s : SiteId) (k : Bytes) (hok : ¬ FilterReserved k) :
    WInv cfg (stepWorld cfg w (.expire s k)) := by
  unfold stepWorld
  simp only
  have heff := lazyExpire_eff (cfg.redis s) (w.site s).now (w.site s).store k
  by_cases hns : isNamespaceKey k = true
  · rw [if_pos hns]
    apply winv_append cfg w hinv s _ _ rfl
    apply tagged_quiet_ok cfg.parser .book rfl
    intro b hb pst hi
    unfold activeExpire at hb
    simp only at hb
    obtain ⟨c, hc, rfl⟩ := List.mem_map.mp hb
    rcases heff with h | h
    · rw [h] at hc; cases hc
    · rw [h] at hc
      rw [List.mem_singleton.mp hc]
      have hname : lower (delCmd (cfg.redis s) k).name = wDel ∨ lower (delCmd (cfg.redis s) k).name = wUnlink := by
        unfold delCmd
        cases (cfg.redis s).lazyUnlink
        · left; show lower wDel = wDel; decide
        · right; show lower wUnlink = wUnlink; decide
      refine del_quiet cfg.parser hf _ hname (by simp [delCmd]) ?_ pst hi
      intro k' hk'
      have : k' = k := by simpa [delCmd] using hk'
      rw [this]; exact ns_cases k hns
  · rw [if_neg hns]
    apply winv_nextId
    apply winv_append cfg w hinv s _ _ rfl
    apply tagIds_ok
    intro b hb c hc
    unfold activeExpire at hb
    simp only at hb
    obtain ⟨c0, hc0, rfl⟩ := List.mem_map.mp hb
    have hcc : c = c0 := by simpa [Block.body] using hc
    rcases heff with h | h
    · rw [h] at hc0; cases hc0
    · rw [h] at hc0
      rw [hcc, List.mem_singleton.mp hc0]
      apply fgn_of_clientOK
      apply clientOK_del cfg.parser hf
      intro hr
      rcases hr with hr | hr
      · exact hns hr
      · exact hok hr

theorem step_snapshot (cfg : WCfg) (hf : FOK cfg.parser.filter) (w : World) (hinv : WInv cfg w)
    (src : SiteId) (cmds : List Cmd) (arg : CommitArg) (hok : ∀ c ∈ cmds, TxnSafe c) :
    WInv cfg (stepWorld cfg w (.snapshot src cmds arg)) := by
  unfold stepWorld
  simp only
  cases hb : buildUnit standaloneMode cfg.parser.resolver cmds with
  | error e => exact hinv
  | ok u =>
    simp only
    have hu : u.cmds = cmds := buildUnit_cmds _ _ _ u hb
    exact winv_execTool cfg hf w hinv _ _ _ (markerKey_ok _ _)
      (commit_toolTxn _ .rdb u _ (by rw [hu]; exact hok)) .snapshot rfl

theorem step_book (cfg : WCfg) (hf : FOK cfg.parser.filter) (w : World) (hinv : WInv cfg w)
    (src : SiteId) (bk : Bookkeeping) (hv : bk.Valid) (hc : BookClean cfg w src bk) :
    WInv cfg (stepWorld cfg w (.book src bk)) := by
  unfold stepWorld
  apply winv_execAt cfg w hinv _ _ _ _ rfl
  intro b hb pst hi
  unfold BookClean at hc
  simp only at hc
  obtain ⟨bk', hv', hsingle⟩ : ∃ bk' : Bookkeeping, bk'.Valid ∧ b = .single bk'.toCmd := by
    rcases hc with h | ⟨bk', hv', h⟩
    · rw [h] at hb
      unfold toBlocks at hb
      split at hb <;> simp at hb
    · refine ⟨bk', hv', ?_⟩
      rw [h] at hb
      unfold toBlocks at hb
      split at hb <;> simpa using hb
  rw [hsingle]
  exact bookkeeping_cmd_quiet cfg.parser hf bk' hv' pst hi

/-- what the link record looks like after an emission -/
def linkAfter (l : LinkSt) (pst' : PState) (tag : Tag) (e : Emit) : LinkSt :=
  { l with pos := l.pos + 1, pst := pst', emitted := l.emitted ++ [(tag, e)], cpos := l.pos + 1 }

theorem execAt_setLink (cfg : WCfg) (w : World) (src s : SiteId) (l : LinkSt) (isTxn : Bool) (cmds : List Cmd)
    (tag : Tag) : execAt cfg (w.setLink src l) s isTxn cmds tag = (execAt cfg w s isTxn cmds tag).setLink src l := by
  cases src <;> cases s <;> rfl

theorem commits_execAt (cfg : WCfg) (w : World) (s : SiteId) (isTxn : Bool) (cmds : List Cmd) (tag : Tag) :
    (execAt cfg w s isTxn cmds tag).commits = w.commits := by
  unfold execAt; rw [commits_setSite]

theorem site_execAt_other (cfg : WCfg) (w : World) (s : SiteId) (isTxn : Bool) (cmds : List Cmd) (tag : Tag) :
    (execAt cfg w s.other isTxn cmds tag).site s = w.site s := by
  unfold execAt
  have := site_setSite_other w s.other
  rw [other_other] at this
  exact this _

theorem link_execAt (cfg : WCfg) (w : World) (s t : SiteId) (isTxn : Bool) (cmds : List Cmd) (tag : Tag) :
    (execAt cfg w s isTxn cmds tag).link t = w.link t := by
  unfold execAt; rw [link_setSite]

/-- the emitting link step: the unit of a due block is committed at the other
    site, the position advances, the commit is recorded -/
theorem winv_link_emit (cfg : WCfg) (hf : FOK cfg.parser.filter) (w : World) (hinv : WInv cfg w)
    (src : SiteId) (arg : CommitArg) (tb : TBlock) (hget : (w.site src).stream[(w.link src).pos]? = some tb)
    (hdue : due tb = true) (pst' : PState) (e : Emit) (hi' : Idle pst') (hsafe : ∀ c ∈ e.unit.cmds, TxnSafe c) :
    WInv cfg
      { (execAt cfg (w.setLink src (linkAfter (w.link src) pst' tb.tag e)) src.other true
          (commitCmds (w.link src).cp arg.kind e.unit ⟨arg.markerValue, arg.recordFields, e.seq⟩)
          (.tool (tagId tb.tag))) with
        commits := (execAt cfg (w.setLink src (linkAfter (w.link src) pst' tb.tag e)) src.other true
          (commitCmds (w.link src).cp arg.kind e.unit ⟨arg.markerValue, arg.recordFields, e.seq⟩)
          (.tool (tagId tb.tag))).commits ++ [(tb.tag, src.other)] } := by
  obtain ⟨_, hlt⟩ := mem_of_getElem? _ _ _ hget
  rw [execAt_setLink]
  have hx := winv_execTool cfg hf w hinv src.other
    (commitCmds (w.link src).cp arg.kind e.unit ⟨arg.markerValue, arg.recordFields, e.seq⟩)
    _ (markerKey_ok _ _) (commit_toolTxn _ arg.kind e.unit _ hsafe) (.tool (tagId tb.tag)) rfl
  generalize hX : execAt cfg w src.other true
    (commitCmds (w.link src).cp arg.kind e.unit ⟨arg.markerValue, arg.recordFields, e.seq⟩)
    (.tool (tagId tb.tag)) = X at hx ⊢
  have hXsite : X.site src = w.site src := by rw [← hX]; exact site_execAt_other cfg w src _ _ _
  have hXlink : ∀ t, X.link t = w.link t := by intro t; rw [← hX]; exact link_execAt cfg w _ t _ _ _
  have hXcommits : X.commits = w.commits := by rw [← hX]; exact commits_execAt cfg w _ _ _ _
  have hgoal : ({ (X.setLink src (linkAfter (w.link src) pst' tb.tag e)) with
      commits := (X.setLink src (linkAfter (w.link src) pst' tb.tag e)).commits ++ [(tb.tag, src.other)] } : World) =
      { (X.setLink src (linkAfter (w.link src) pst' tb.tag e)) with
        commits := (X.setLink src (linkAfter (w.link src) pst' tb.tag e)).commits ++ [(tb.tag, src.other)] } := rfl
  apply winv_commits cfg (X.setLink src (linkAfter (w.link src) pst' tb.tag e)) tb.tag src.other
  · intro s tb' htb'
    rw [site_setLink] at htb'
    exact hx.blocks s tb' htb'
  · intro s
    rcases eq_or_other' src s with rfl | rfl
    · rw [link_setLink_same]; exact hi'
    · rw [link_setLink_other]; exact hx.idle _
  · intro s
    rw [site_setLink]
    rcases eq_or_other' src s with rfl | rfl
    · rw [link_setLink_same, hXsite]
      show (w.link src).pos + 1 ≤ _
      omega
    · rw [link_setLink_other]; exact hx.pos _
  · intro s
    have hc : ∀ t, commitsAt (X.setLink src (linkAfter (w.link src) pst' tb.tag e)) t = commitsAt X t := by
      intro t; unfold commitsAt; rw [commits_setLink]
    rw [hc, site_setLink]
    rcases eq_or_other' src s with rfl | rfl
    · rw [link_setLink_same, hXsite]
      have : (src.other == src.other) = true := by simp
      rw [this]
      simp only [↓reduceIte]
      show _ = dueTags _ ((w.link src).pos + 1)
      rw [dueTags_succ _ _ tb hget, hdue]
      simp only [↓reduceIte]
      have hc2 : commitsAt X src.other = commitsAt w src.other := by unfold commitsAt; rw [hXcommits]
      rw [hc2, hinv.once src]
    · rw [link_setLink_other, other_other]
      have : (src.other == src) = false := by cases src <;> rfl
      rw [this]
      simp only [Bool.false_eq_true, ↓reduceIte, List.append_nil]
      have := hx.once src.other
      rw [other_other] at this
      exact this
  · intro s e' he'
    rcases eq_or_other' src s with rfl | rfl
    · rw [link_setLink_same] at he'
      exact hinv.halt _ e' he'
    · rw [link_setLink_other] at he'
      exact hx.halt _ e' he'

theorem quiet_multi_nil (pc : PCfg) : QuietB pc (.multi []) := by
  intro pst hi
  exact (parseBlock_multi_safe pc [] pst hi (by intro c hc; cases hc)).1 (Or.inr rfl)

theorem step_link (cfg : WCfg) (hf : FOK cfg.parser.filter) (w : World) (hinv : WInv cfg w)
    (src : SiteId) (arg : CommitArg) : WInv cfg (stepWorld cfg w (.link src arg)) := by
  unfold stepWorld
  simp only
  by_cases hh : (w.link src).halted.isSome = true
  · rw [if_pos hh]; exact hinv
  rw [if_neg hh]
  cases hget : (w.site src).stream[(w.link src).pos]? with
  | none => exact hinv
  | some tb =>
    simp only
    obtain ⟨hmem, hlt⟩ := mem_of_getElem? _ _ _ hget
    have hbok := hinv.blocks src tb hmem
    have hidle := hinv.idle src
    have hskip : ∀ pst', Idle pst' → due tb = false →
        WInv cfg (w.setLink src { (w.link src) with pos := (w.link src).pos + 1, pst := pst' }) := by
      intro pst' hi' hd
      apply winv_setLink cfg w hinv src _ hi' (by show (w.link src).pos + 1 ≤ _; omega)
      · show dueTags _ ((w.link src).pos + 1) = _
        rw [dueTags_succ _ _ tb hget, hd]
        simp
      · exact hinv.halt src
    unfold BlockOK at hbok
    by_cases hfor : isForeign tb.tag = true
    · rw [if_pos hfor] at hbok
      by_cases hemp : tb.block.body = []
      · -- an empty MULTI/EXEC of a client: nothing to emit
        have hq : QuietB cfg.parser tb.block := by
          cases hb : tb.block with
          | single c => rw [hb] at hemp; simp [Block.body] at hemp
          | multi cs =>
            rw [hb] at hemp
            have : cs = [] := hemp
            rw [this]; exact quiet_multi_nil _
        obtain ⟨pst', hp, hi', _⟩ := hq _ hidle
        rw [hp]
        simp only
        apply hskip pst' hi'
        unfold due
        rw [hemp]; simp
      · rcases foreign_block cfg.parser hf tb.block hbok hemp _ hidle with
          ⟨pst', e, hp, hi', _, _, hcmds, _⟩ | ⟨pst', e, hp, _⟩
        · rw [hp]
          simp only
          -- the unit is committed at the other site
          have hdue : due tb = true := by
            unfold due
            rw [hfor]
            cases hb : tb.block.body with
            | nil => exact absurd hb hemp
            | cons _ _ => rfl
          have hsafe : ∀ c ∈ e.unit.cmds, TxnSafe c := by
            rw [hcmds]
            intro c hc
            obtain ⟨c0, hc0, rfl⟩ := List.mem_map.mp hc
            exact norm_txnSafe c0 (hbok c0 hc0).safe
          exact winv_link_emit cfg hf w hinv src arg tb hget hdue pst' e hi' hsafe
        · rw [hp]
          simp only
          apply winv_setLink cfg w hinv src { (w.link src) with halted := some (.build e) } hidle (hinv.pos src) rfl
          intro e' he'
          simp only at he'
          injection he' with he'
          exact ⟨e, he'.symm⟩
    · have hfor' : isForeign tb.tag = false := by
        cases hx : isForeign tb.tag with
        | true => exact absurd hx hfor
        | false => rfl
      rw [if_neg hfor] at hbok
      obtain ⟨pst', hp, hi', _⟩ := hbok _ hidle
      rw [hp]
      simp only
      apply hskip pst' hi'
      unfold due
      rw [hfor']; rfl


theorem step_preserves (cfg : WCfg) (hf : FOK cfg.parser.filter) (w : World) (hinv : WInv cfg w) (e : Ev)
    (hok : EvOK cfg w e) : WInv cfg (stepWorld cfg w e) := by
  cases e with
  | client s isTxn cmds => exact step_client cfg hf w hinv s isTxn cmds hok
  | tick s dt =>
    unfold stepWorld
    exact winv_now cfg w s _ hinv
  | expire s k => exact step_expire cfg hf w hinv s k hok
  | link src arg => exact step_link cfg hf w hinv src arg
  | snapshot src cmds arg => exact step_snapshot cfg hf w hinv src cmds arg hok
  | book src bk => exact step_book cfg hf w hinv src bk hok.1 hok.2
  | toolRaw _ _ _ => exact hok.elim
  | restart _ _ _ => exact hok.elim

theorem run_preserves (cfg : WCfg) (hf : FOK cfg.parser.filter) (evs : List Ev) (w : World) (hinv : WInv cfg w)
    (hgood : GoodRun cfg w evs) : WInv cfg (runWorld cfg w evs) := by
  induction evs generalizing w with
  | nil => exact hinv
  | cons e es ih =>
    exact ih _ (step_preserves cfg hf w hinv e hgood.1) hgood.2

/-- the initial world: empty stores and streams, links at position 0 -/
def World.init (cpAB cpBA : Bytes) : World := { ab := { cp := cpAB }, ba := { cp := cpBA } }

theorem winv_init (cfg : WCfg) (cpAB cpBA : Bytes) : WInv cfg (World.init cpAB cpBA) where
  blocks := by intro s tb h; cases s <;> cases h
  idle := by intro s; cases s <;> exact ⟨rfl, rfl⟩
  pos := by intro s; cases s <;> exact Nat.le_refl _
  once := by intro s; cases s <;> rfl
  halt := by intro s e h; cases s <;> cases h

/-! ### quiescence -/

/-- nothing a link still has to read is owed a commit -/
def NoPending (w : World) : Prop :=
  ∀ s, ∀ tb ∈ (w.site s).stream.drop (w.link s).pos, due tb = false

def Ev.isLink : Ev → Prop
  | .link _ _ => True
  | _ => False

theorem setLink_self (w : World) (s : SiteId) : w.setLink s (w.link s) = w := by
  cases s <;> rfl

/-- a link step over a block that is not owed a commit only moves the link -/
theorem link_step_nodue (cfg : WCfg) (w : World) (hinv : WInv cfg w) (src : SiteId)
    (arg : CommitArg) (hnd : ∀ tb, (w.site src).stream[(w.link src).pos]? = some tb → due tb = false) :
    ∃ l', stepWorld cfg w (.link src arg) = w.setLink src l' ∧ l'.emitted = (w.link src).emitted ∧
      (w.link src).pos ≤ l'.pos := by
  unfold stepWorld
  simp only
  by_cases hh : (w.link src).halted.isSome = true
  · rw [if_pos hh]; exact ⟨w.link src, (setLink_self w src).symm, rfl, Nat.le_refl _⟩
  rw [if_neg hh]
  cases hget : (w.site src).stream[(w.link src).pos]? with
  | none => exact ⟨w.link src, (setLink_self w src).symm, rfl, Nat.le_refl _⟩
  | some tb =>
    simp only
    obtain ⟨hmem, _⟩ := mem_of_getElem? _ _ _ hget
    have hbok := hinv.blocks src tb hmem
    have hd := hnd tb hget
    have hq : QuietB cfg.parser tb.block := by
      unfold BlockOK at hbok
      by_cases hfor : isForeign tb.tag = true
      · unfold due at hd
        rw [hfor] at hd
        simp only [Bool.true_and, Bool.not_eq_eq_eq_not, Bool.not_false, List.isEmpty_iff] at hd
        cases hb : tb.block with
        | single c => rw [hb] at hd; simp [Block.body] at hd
        | multi cs =>
          rw [hb] at hd
          have : cs = [] := hd
          rw [this]; exact quiet_multi_nil _
      · rw [if_neg hfor] at hbok; exact hbok
    obtain ⟨pst', hp, _, _⟩ := hq _ (hinv.idle src)
    rw [hp]
    exact ⟨_, rfl, rfl, Nat.le_succ _⟩

theorem quiesce (cfg : WCfg) (hf : FOK cfg.parser.filter) (evs : List Ev) (w : World) (hinv : WInv cfg w)
    (hnp : NoPending w) (hl : ∀ e ∈ evs, e.isLink) :
    (runWorld cfg w evs).a.stream = w.a.stream ∧ (runWorld cfg w evs).b.stream = w.b.stream ∧
    (runWorld cfg w evs).commits = w.commits ∧
    (∀ s, ((runWorld cfg w evs).link s).emitted = (w.link s).emitted) := by
  induction evs generalizing w with
  | nil => exact ⟨rfl, rfl, rfl, fun _ => rfl⟩
  | cons e es ih =>
    have he := hl e (by simp)
    cases e with
    | link src arg =>
      have hnd : ∀ tb, (w.site src).stream[(w.link src).pos]? = some tb → due tb = false := by
        intro tb hget
        apply hnp src tb
        obtain ⟨_, hlt⟩ := mem_of_getElem? _ _ _ hget
        rw [List.mem_iff_getElem?]
        refine ⟨0, ?_⟩
        rw [List.getElem?_drop]
        simpa using hget
      obtain ⟨l', hstep, hem, hpos⟩ := link_step_nodue cfg w hinv src arg hnd
      have hinv' : WInv cfg (stepWorld cfg w (.link src arg)) := step_link cfg hf w hinv src arg
      have hnp' : NoPending (stepWorld cfg w (.link src arg)) := by
        rw [hstep]
        intro s tb htb
        rw [site_setLink] at htb
        rcases eq_or_other' src s with rfl | rfl
        · rw [link_setLink_same] at htb
          apply hnp src tb
          have : l'.pos = (w.link src).pos + (l'.pos - (w.link src).pos) := by omega
          rw [this, ← List.drop_drop] at htb
          exact List.mem_of_mem_drop htb
        · rw [link_setLink_other] at htb
          exact hnp _ tb htb
      obtain ⟨h1, h2, h3, h4⟩ := ih _ hinv' hnp' (fun e' he' => hl e' (List.mem_cons_of_mem _ he'))
      have hrun : runWorld cfg w (Ev.link src arg :: es) = runWorld cfg (stepWorld cfg w (.link src arg)) es := rfl
      rw [hrun]
      refine ⟨?_, ?_, ?_, ?_⟩
      · rw [h1, hstep]; exact congrArg SiteSt.stream (site_setLink w src .A l')
      · rw [h2, hstep]; exact congrArg SiteSt.stream (site_setLink w src .B l')
      · rw [h3, hstep]; exact commits_setLink _ _ _
      · intro s
        rw [h4, hstep]
        rcases eq_or_other' src s with rfl | rfl
        · rw [link_setLink_same]; exact hem
        · rw [link_setLink_other]
    | client _ _ _ => exact absurd he (by simp [Ev.isLink])
    | tick _ _ => exact absurd he (by simp [Ev.isLink])
    | expire _ _ => exact absurd he (by simp [Ev.isLink])
    | snapshot _ _ _ => exact absurd he (by simp [Ev.isLink])
    | book _ _ => exact absurd he (by simp [Ev.isLink])
    | toolRaw _ _ _ => exact absurd he (by simp [Ev.isLink])
    | restart _ _ _ => exact absurd he (by simp [Ev.isLink])

/-- only client blocks are ever committed -/
theorem dueTags_foreign (s : List TBlock) (n : Nat) : ∀ t ∈ dueTags s n, isForeign t = true := by
  intro t ht
  unfold dueTags at ht
  obtain ⟨tb, htb, rfl⟩ := List.mem_map.mp ht
  have := (List.mem_filter.mp htb).2
  unfold due at this
  simp only [Bool.and_eq_true] at this
  exact this.1

end GunYu.Bisync
