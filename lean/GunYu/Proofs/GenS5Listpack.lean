/-
  The REGENERATED `lpEncodeBacklen` and `Listpack.Next` of pkg/redis/types/listpack.go
  (lean/GunYu/Gen/FnListpack.lean, generator `gofn_listpack`) against the hand model of
  Model/Rdb/Listpack.lean (`lpSkip`, `lpNext` on `rem = data[p:]`).
  Side conditions: `len(data) < 2^31` and `p ≤ len(data)` (then no uint32 cursor arithmetic of a
  successful call wraps; the model works on lists and has no cursor width).
-/
import GunYu.Model.Rdb.Listpack
import GunYu.Gen.FnListpack

namespace GunYu.Proofs.GenS5
open GunYu GunYu.Gen GunYu.Rdb

/-! ### lpEncodeBacklen -/

theorem gen_lpEncodeBacklen_eq (len : BitVec 32) :
    Fn.lpEncodeBacklen len = some (BitVec.ofNat 32 (lpSkip len.toNat)) := by
  unfold Fn.lpEncodeBacklen lpSkip
  by_cases h1 : len ≤ 127#32
  · have : len.toNat ≤ 127 := by bv_omega
    simp only [h1, this, ↓reduceIte, pure]
    congr 1 <;> bv_omega
  · have n1 : ¬ len.toNat ≤ 127 := by bv_omega
    by_cases h2 : len < 16383#32
    · have : len.toNat < 16383 := by bv_omega
      simp only [h1, n1, h2, this, ↓reduceIte, pure]
      congr 1 <;> bv_omega
    · have n2 : ¬ len.toNat < 16383 := by bv_omega
      by_cases h3 : len < 2097151#32
      · have : len.toNat < 2097151 := by bv_omega
        simp only [h1, n1, h2, n2, h3, this, ↓reduceIte, pure]
        congr 1 <;> bv_omega
      · have n3 : ¬ len.toNat < 2097151 := by bv_omega
        by_cases h4 : len < 268435455#32
        · have : len.toNat < 268435455 := by bv_omega
          simp only [h1, n1, h2, n2, h3, n3, h4, this, ↓reduceIte, pure]
          congr 1 <;> bv_omega
        · have n4 : ¬ len.toNat < 268435455 := by bv_omega
          simp only [h1, n1, h2, n2, h3, n3, h4, n4, ↓reduceIte, pure]
          congr 1 <;> bv_omega

theorem lpSkip_pos (n : Nat) : n < lpSkip n := by
  unfold lpSkip; split <;> (try split) <;> (try split) <;> (try split) <;> omega

theorem lpSkip_le (n : Nat) : lpSkip n ≤ n + 5 := by
  unfold lpSkip; split <;> (try split) <;> (try split) <;> (try split) <;> omega

/-! ### helpers for Listpack.Next -/

theorem idx_off (data : Bytes) (p : BitVec 32) (k : Nat) (hlen : data.length < 2147483648)
    (hp : p.toNat ≤ data.length) (hk : k < 2147483648) :
    GoSem.index data (GoSem.bvToI (p + BitVec.ofNat 32 k)) = (data.drop p.toNat)[k]? := by
  unfold GoSem.index GoSem.bvToI
  have : (p + BitVec.ofNat 32 k).toNat = p.toNat + k := by
    rw [BitVec.toNat_add, BitVec.toNat_ofNat]; omega
  rw [this, List.getElem?_drop]
  have h0 : (0 : Int) ≤ ((p.toNat + k : Nat) : Int) := by omega
  simp only [h0, ↓reduceIte, Int.toNat_natCast]

theorem idx_0 (data : Bytes) (p : BitVec 32) :
    GoSem.index data (GoSem.bvToI p) = (data.drop p.toNat)[0]? := by
  unfold GoSem.index GoSem.bvToI
  simp [List.getElem?_drop]

theorem u8_cases (P : UInt8 → Prop) (h : ∀ n : Fin 256, P (UInt8.ofNat n.val)) (b : UInt8) : P b := by
  have := h ⟨b.toNat, b.toNat_lt⟩
  simpa using this

theorem lp_masks (b : UInt8) :
    ((b &&& 128 = 0) ↔ b.toNat / 128 = 0) ∧ ((b &&& 192 = 128) ↔ b.toNat / 64 = 2) ∧
    ((b &&& 224 = 192) ↔ b.toNat / 32 = 6) ∧ ((b &&& 240 = 224) ↔ b.toNat / 16 = 14) ∧
    ((b &&& 255 = 240) ↔ b.toNat = 240) ∧ ((b &&& 255 = 241) ↔ b.toNat = 241) ∧
    ((b &&& 255 = 242) ↔ b.toNat = 242) ∧ ((b &&& 255 = 243) ↔ b.toNat = 243) ∧
    ((b &&& 255 = 244) ↔ b.toNat = 244) ∧
    (b &&& 127).toNat = b.toNat % 128 ∧ (b &&& 63).toNat = b.toNat % 64 ∧
    (b &&& 31).toNat = b.toNat % 32 ∧ (b &&& 15).toNat = b.toNat % 16 := by
  revert b
  apply u8_cases
  decide +kernel

end GunYu.Proofs.GenS5
