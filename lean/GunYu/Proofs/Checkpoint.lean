/-
  Helper lemmas for C17 (Props/C17.lean) about Model/Checkpoint.lean. Core only.

  Part 1: what `fetchCheckpoint` reads (last matching field wins), under
          HSET / HDEL of fields.
  Part 2: `GetCheckpoint` when one database strictly dominates.
  Part 3: the position predicate `Holds` and its preservation by single requests.
-/
import GunYu.Model.Checkpoint
import GunYu.Proofs.Resp

namespace GunYu.Checkpoint
open GunYu

/-! ## Part 1 — fetch -/

set_option linter.unusedSimpArgs false
set_option linter.unusedVariables false

def offSel (ids : List Bytes) (e : Entry) : Bool := matchId ids e.rid && decide (e.kind = .offset)
def ridSel (ids : List Bytes) (e : Entry) : Bool := matchId ids e.rid && decide (e.kind = .runid)

def offStep (ids : List Bytes) (o : Int) (e : Entry) : Int :=
  if offSel ids e then (Resp.parseInt64 e.val).getD o else o

def ridStep (ids : List Bytes) (r : Bytes) (e : Entry) : Bytes :=
  if ridSel ids e then e.val else r

/-- the offset `fetchCheckpoint` reports (when it does not fail) -/
def offOf (ids : List Bytes) (fs : Cp) : Int := fs.foldl (offStep ids) (-1)

/-- the run id `fetchCheckpoint` reports -/
def ridOf (ids : List Bytes) (fs : Cp) : Bytes := fs.foldl (ridStep ids) qmark

/-- every numeric field of the ids is a decimal int64 -/
def Parses (ids : List Bytes) (fs : Cp) : Prop :=
  ∀ e ∈ fs, matchId ids e.rid = true → (e.kind = .offset ∨ e.kind = .mtime) →
    (Resp.parseInt64 e.val).isSome = true

theorem Parses.tail {ids : List Bytes} {e : Entry} {fs : Cp} (h : Parses ids (e :: fs)) :
    Parses ids fs := fun x hx => h x (List.mem_cons_of_mem _ hx)

theorem fetch_foldl (ids : List Bytes) (fs : Cp) :
    ∀ (c : CpInfo), Parses ids fs →
    ∃ c', fs.foldl (fetchStep ids) (some c) = some c' ∧
      c'.offset = fs.foldl (offStep ids) c.offset ∧ c'.runId = fs.foldl (ridStep ids) c.runId := by
  induction fs with
  | nil => intro c _; exact ⟨c, rfl, rfl, rfl⟩
  | cons e fs ih =>
    intro c hp
    have hpe := hp e (List.mem_cons_self ..)
    simp only [List.foldl_cons]
    by_cases hm : matchId ids e.rid = true
    · cases hk : e.kind with
      | offset =>
        have := hpe hm (Or.inl hk)
        obtain ⟨v, hv⟩ := Option.isSome_iff_exists.mp this
        obtain ⟨c', h1, h2, h3⟩ := ih { c with offset := v } hp.tail
        refine ⟨c', ?_, ?_, ?_⟩
        · simp only [fetchStep, hm, hk, hv, if_true, Option.map_some]; exact h1
        · simp [offStep, offSel, hm, hk, hv]; exact h2
        · simp [ridStep, ridSel, hm, hk]; exact h3
      | mtime =>
        have := hpe hm (Or.inr hk)
        obtain ⟨v, hv⟩ := Option.isSome_iff_exists.mp this
        obtain ⟨c', h1, h2, h3⟩ := ih { c with mtime := v } hp.tail
        refine ⟨c', ?_, ?_, ?_⟩
        · simp only [fetchStep, hm, hk, hv, if_true, Option.map_some]; exact h1
        · simp [offStep, offSel, hm, hk]; exact h2
        · simp [ridStep, ridSel, hm, hk]; exact h3
      | runid =>
        obtain ⟨c', h1, h2, h3⟩ := ih { c with runId := e.val } hp.tail
        refine ⟨c', ?_, ?_, ?_⟩
        · simp only [fetchStep, hm, hk, if_true]; exact h1
        · simp [offStep, offSel, hm, hk]; exact h2
        · simp [ridStep, ridSel, hm, hk]; exact h3
      | version =>
        obtain ⟨c', h1, h2, h3⟩ := ih { c with version := e.val } hp.tail
        refine ⟨c', ?_, ?_, ?_⟩
        · simp only [fetchStep, hm, hk, if_true]; exact h1
        · simp [offStep, offSel, hm, hk]; exact h2
        · simp [ridStep, ridSel, hm, hk]; exact h3
      | other =>
        obtain ⟨c', h1, h2, h3⟩ := ih c hp.tail
        refine ⟨c', ?_, ?_, ?_⟩
        · simp only [fetchStep, hm, hk, if_true]; exact h1
        · simp [offStep, offSel, hm, hk]; exact h2
        · simp [ridStep, ridSel, hm, hk]; exact h3
    · obtain ⟨c', h1, h2, h3⟩ := ih c hp.tail
      refine ⟨c', ?_, ?_, ?_⟩
      · simp only [fetchStep, hm]; simpa using h1
      · simp [offStep, offSel, hm]; exact h2
      · simp [ridStep, ridSel, hm]; exact h3

theorem fetch_spec (ids : List Bytes) (fs : Cp) (hp : Parses ids fs) :
    ∃ c, fetch ids fs = some c ∧ c.offset = offOf ids fs ∧ c.runId = ridOf ids fs :=
  fetch_foldl ids fs {} hp

/-! ### folds that only look at selected entries -/

theorem foldl_sel_filter {α : Type} (g : α → Entry → α) (sel sel' p : Entry → Bool) (fs : Cp) :
    ∀ (a : α), (∀ e ∈ fs, (p e = true → sel e = sel' e) ∧ (p e = false → sel' e = false)) →
    (fs.filter p).foldl (fun a e => if sel e then g a e else a) a
      = fs.foldl (fun a e => if sel' e then g a e else a) a := by
  induction fs with
  | nil => intros; rfl
  | cons x fs ih =>
    intro a h
    have hx := h x (List.mem_cons_self ..)
    have ht : ∀ e ∈ fs, (p e = true → sel e = sel' e) ∧ (p e = false → sel' e = false) :=
      fun e he => h e (List.mem_cons_of_mem _ he)
    by_cases hp : p x = true
    · simp only [List.filter_cons, hp, if_true, List.foldl_cons, hx.1 hp]
      exact ih _ ht
    · have hp' : p x = false := by simpa using hp
      simp only [List.filter_cons, hp', List.foldl_cons, hx.2 hp']
      simpa using ih a ht

theorem offOf_filter (ids ids' : List Bytes) (p : Entry → Bool) (fs : Cp)
    (h : ∀ e ∈ fs, (p e = true → offSel ids e = offSel ids' e) ∧ (p e = false → offSel ids' e = false)) :
    offOf ids (fs.filter p) = offOf ids' fs :=
  foldl_sel_filter (fun o e => (Resp.parseInt64 e.val).getD o) (offSel ids) (offSel ids') p fs (-1) h

theorem ridOf_filter (ids ids' : List Bytes) (p : Entry → Bool) (fs : Cp)
    (h : ∀ e ∈ fs, (p e = true → ridSel ids e = ridSel ids' e) ∧ (p e = false → ridSel ids' e = false)) :
    ridOf ids (fs.filter p) = ridOf ids' fs :=
  foldl_sel_filter (fun _ e => e.val) (ridSel ids) (ridSel ids') p fs qmark h

theorem Parses.filter {ids : List Bytes} {fs : Cp} (h : Parses ids fs) (p : Entry → Bool) :
    Parses ids (fs.filter p) := fun e he => h e (List.mem_filter.mp he).1

/-- all selected entries carry the same value -/
theorem foldl_offStep_all_eq (ids : List Bytes) (X : Int) (fs : Cp) :
    ∀ (o : Int), (∀ x ∈ fs, offSel ids x = true → Resp.parseInt64 x.val = some X) →
    ((∃ x ∈ fs, offSel ids x = true) ∨ o = X) → fs.foldl (offStep ids) o = X := by
  induction fs with
  | nil => intro o _ h; rcases h with ⟨x, hx, _⟩ | h; exact absurd hx (List.not_mem_nil); exact h
  | cons y fs ih =>
    intro o hall hex
    simp only [List.foldl_cons]
    by_cases hy : offSel ids y = true
    · have := hall y (List.mem_cons_self ..) hy
      apply ih _ (fun x hx => hall x (List.mem_cons_of_mem _ hx))
      right; simp [offStep, hy, this]
    · apply ih _ (fun x hx => hall x (List.mem_cons_of_mem _ hx))
      have hy' : offSel ids y = false := by simpa using hy
      rcases hex with ⟨x, hx, hsx⟩ | h
      · rcases List.mem_cons.mp hx with rfl | hx'
        · rw [hy'] at hsx; exact absurd hsx (by decide)
        · left; exact ⟨x, hx', hsx⟩
      · right; simp [offStep, hy', h]

theorem foldl_offStep_lt (ids : List Bytes) (X : Int) (fs : Cp) :
    ∀ (o : Int), (∀ x ∈ fs, offSel ids x = true → ∀ v, Resp.parseInt64 x.val = some v → v < X) →
    o < X → fs.foldl (offStep ids) o < X := by
  induction fs with
  | nil => intro o _ h; exact h
  | cons y fs ih =>
    intro o hall ho
    simp only [List.foldl_cons]
    apply ih _ (fun x hx => hall x (List.mem_cons_of_mem _ hx))
    unfold offStep
    split
    · rename_i hy
      cases hv : Resp.parseInt64 y.val with
      | none => simpa using ho
      | some v => simpa using hall y (List.mem_cons_self ..) hy v hv
    · exact ho

theorem foldl_ridStep_ne (ids : List Bytes) (fs : Cp) :
    ∀ (r : Bytes), (∀ x ∈ fs, ridSel ids x = true → x.val ≠ qmark) →
    ((∃ x ∈ fs, ridSel ids x = true) ∨ r ≠ qmark) → fs.foldl (ridStep ids) r ≠ qmark := by
  induction fs with
  | nil => intro r _ h; rcases h with ⟨x, hx, _⟩ | h; exact absurd hx (List.not_mem_nil); exact h
  | cons y fs ih =>
    intro r hall hex
    simp only [List.foldl_cons]
    by_cases hy : ridSel ids y = true
    · apply ih _ (fun x hx => hall x (List.mem_cons_of_mem _ hx))
      right; simp only [ridStep, hy, if_true]; exact hall y (List.mem_cons_self ..) hy
    · apply ih _ (fun x hx => hall x (List.mem_cons_of_mem _ hx))
      have hy' : ridSel ids y = false := by simpa using hy
      rcases hex with ⟨x, hx, hsx⟩ | h
      · rcases List.mem_cons.mp hx with rfl | hx'
        · rw [hy'] at hsx; exact absurd hsx (by decide)
        · left; exact ⟨x, hx', hsx⟩
      · right; simp only [ridStep, hy']; simpa using h

/-! ### HSET -/

def rep (e : Entry) (x : Entry) : Entry := if x.key = e.key then e else x

theorem hsetOne_cases (fs : Cp) (e : Entry) :
    (hsetOne fs e = fs.map (rep e) ∧ ∃ x ∈ fs, x.key = e.key) ∨
    (hsetOne fs e = fs ++ [e] ∧ ∀ x ∈ fs, x.key ≠ e.key) := by
  unfold hsetOne
  by_cases h : fs.any (fun x => decide (x.key = e.key)) = true
  · left
    simp only [h, if_true]
    refine ⟨rfl, ?_⟩
    obtain ⟨x, hx, hk⟩ := List.any_eq_true.mp h
    exact ⟨x, hx, by simpa using hk⟩
  · right
    simp only [h]
    refine ⟨by simp, ?_⟩
    intro x hx hk
    apply h
    exact List.any_eq_true.mpr ⟨x, hx, by simpa using hk⟩

theorem mem_hsetOne {fs : Cp} {e x : Entry} (h : x ∈ hsetOne fs e) : x = e ∨ x ∈ fs := by
  rcases hsetOne_cases fs e with ⟨heq, _⟩ | ⟨heq, _⟩
  · rw [heq] at h
    obtain ⟨y, hy, rfl⟩ := List.mem_map.mp h
    unfold rep; split
    · left; rfl
    · right; exact hy
  · rw [heq] at h
    rcases List.mem_append.mp h with h | h
    · right; exact h
    · left; simpa using h

theorem mem_hsetOne_self (fs : Cp) (e : Entry) : e ∈ hsetOne fs e := by
  rcases hsetOne_cases fs e with ⟨heq, x, hx, hk⟩ | ⟨heq, _⟩
  · rw [heq]; exact List.mem_map.mpr ⟨x, hx, by simp [rep, hk]⟩
  · rw [heq]; simp

theorem mem_hsetOne_of_ne {fs : Cp} {e x : Entry} (hx : x ∈ fs) (hk : x.key ≠ e.key) :
    x ∈ hsetOne fs e := by
  rcases hsetOne_cases fs e with ⟨heq, _⟩ | ⟨heq, _⟩
  · rw [heq]; exact List.mem_map.mpr ⟨x, hx, by simp [rep, hk]⟩
  · rw [heq]; exact List.mem_append_left _ hx

/-- after HSET of `e` every field with its name holds `e` -/
theorem hsetOne_key {fs : Cp} {e x : Entry} (h : x ∈ hsetOne fs e) (hk : x.key = e.key) : x = e := by
  rcases hsetOne_cases fs e with ⟨heq, _⟩ | ⟨heq, hno⟩
  · rw [heq] at h
    obtain ⟨y, hy, rfl⟩ := List.mem_map.mp h
    unfold rep at hk ⊢
    split
    · rfl
    · rename_i hne; simp only [hne, if_false] at hk
  · rw [heq] at h
    rcases List.mem_append.mp h with h | h
    · exact absurd hk (hno x h)
    · simpa using h

theorem mem_hsetMany {es : List Entry} : ∀ {fs : Cp} {x : Entry}, x ∈ hsetMany fs es → x ∈ es ∨ x ∈ fs := by
  induction es with
  | nil => intro fs x h; right; exact h
  | cons e es ih =>
    intro fs x h
    simp only [hsetMany, List.foldl_cons] at h
    rcases ih (fs := hsetOne fs e) h with h | h
    · left; exact List.mem_cons_of_mem _ h
    · rcases mem_hsetOne h with rfl | h
      · left; exact List.mem_cons_self ..
      · right; exact h

theorem foldl_map_rep_irrelevant {α : Type} (f : α → Entry → α) (e : Entry) (fs : Cp)
    (h : ∀ a x, x.key = e.key → f a e = f a x) :
    ∀ a, (fs.map (rep e)).foldl f a = fs.foldl f a := by
  induction fs with
  | nil => intro a; rfl
  | cons y fs ih =>
    intro a
    simp only [List.map_cons, List.foldl_cons]
    have : f a (rep e y) = f a y := by
      unfold rep; split
      · rename_i hk; exact h a y hk
      · rfl
    rw [this]; exact ih _

theorem offSel_key {ids : List Bytes} {x e : Entry} (h : x.key = e.key) : offSel ids x = offSel ids e := by
  have h1 : x.rid = e.rid := congrArg Prod.fst h
  have h2 : x.kind = e.kind := congrArg Prod.snd h
  simp [offSel, h1, h2]

theorem ridSel_key {ids : List Bytes} {x e : Entry} (h : x.key = e.key) : ridSel ids x = ridSel ids e := by
  have h1 : x.rid = e.rid := congrArg Prod.fst h
  have h2 : x.kind = e.kind := congrArg Prod.snd h
  simp [ridSel, h1, h2]

/-- HSET of a field that is not an `_offset` field of the ids does not change the offset read -/
theorem foldl_offStep_hsetOne_irrelevant (ids : List Bytes) (fs : Cp) (e : Entry)
    (he : offSel ids e = false) (o : Int) :
    (hsetOne fs e).foldl (offStep ids) o = fs.foldl (offStep ids) o := by
  rcases hsetOne_cases fs e with ⟨heq, _⟩ | ⟨heq, _⟩
  · rw [heq]
    apply foldl_map_rep_irrelevant
    intro a x hk
    have := offSel_key (ids := ids) hk
    simp [offStep, he, this ▸ he]
  · rw [heq, List.foldl_append]; simp [offStep, he]

/-- HSET of an `_offset` field of the ids with value X when X was already read -/
theorem foldl_offStep_map_rep (ids : List Bytes) (e : Entry) (X : Int)
    (he : offSel ids e = true) (hv : Resp.parseInt64 e.val = some X) (fs : Cp) :
    ∀ (o o' : Int), Parses ids fs → (o = X → o' = X) → fs.foldl (offStep ids) o = X →
      (fs.map (rep e)).foldl (offStep ids) o' = X := by
  induction fs with
  | nil => intro o o' _ h h0; exact h h0
  | cons y fs ih =>
    intro o o' hp h h0
    simp only [List.map_cons, List.foldl_cons] at h0 ⊢
    apply ih _ _ hp.tail _ h0
    unfold rep
    split
    · intro _; simp [offStep, he, hv]
    · by_cases hy : offSel ids y = true
      · have hm : matchId ids y.rid = true := by
          simp only [offSel, Bool.and_eq_true] at hy; exact hy.1
        have hk : y.kind = .offset := by
          simp only [offSel, Bool.and_eq_true, decide_eq_true_eq] at hy; exact hy.2
        obtain ⟨v, hv'⟩ := Option.isSome_iff_exists.mp (hp y (List.mem_cons_self ..) hm (Or.inl hk))
        intro h1; simpa [offStep, hy, hv'] using h1
      · have hy' : offSel ids y = false := by simpa using hy
        simpa [offStep, hy'] using h

theorem offOf_hsetOne_set (ids : List Bytes) (fs : Cp) (e : Entry) (X : Int)
    (he : offSel ids e = true) (hv : Resp.parseInt64 e.val = some X) (hp : Parses ids fs)
    (h : offOf ids fs = X) : offOf ids (hsetOne fs e) = X := by
  rcases hsetOne_cases fs e with ⟨heq, _⟩ | ⟨heq, _⟩
  · rw [heq]; exact foldl_offStep_map_rep ids e X he hv fs (-1) (-1) hp id h
  · rw [heq]; unfold offOf; rw [List.foldl_append]; simp [offStep, he, hv]

/-! ## Part 2 — GetCheckpoint when one database strictly dominates -/

/-- every `_offset` field of the ids is smaller than X -/
def OffBelow (ids : List Bytes) (fs : Cp) (X : Int) : Prop :=
  ∀ x ∈ fs, offSel ids x = true → ∀ v, Resp.parseInt64 x.val = some v → v < X

/-- the position `(X, d)` is held under key `n`: database `d` reads offset `X ≥ 0` with a run
    id, every `_offset` field of the ids in any other database is smaller, all numeric fields
    of the ids parse. -/
structure Holds (ids : List Bytes) (t : Target) (n : Bytes) (d : Nat) (X : Int) : Prop where
  nonneg : 0 ≤ X
  parses : ∀ db, Parses ids (t.cps db n)
  off : offOf ids (t.cps d n) = X
  rid : ridOf ids (t.cps d n) ≠ qmark
  dom : ∀ db, db ≠ d → OffBelow ids (t.cps db n) X

theorem offOf_lt_of_below {ids : List Bytes} {fs : Cp} {X : Int} (h : OffBelow ids fs X) (hX : 0 ≤ X) :
    offOf ids fs < X :=
  foldl_offStep_lt ids X fs (-1) h (by omega)

private def BInv (F : CpInfo → Prop) (d : Nat) (X : Int) (seen : Bool) (acc : Option (CpInfo × Int)) : Prop :=
  ∃ cpi rec, acc = some (cpi, rec) ∧
    (if seen then cpi.offset = X ∧ cpi.runId ≠ qmark ∧ rec = (d : Int) ∧ F cpi else cpi.offset < X)

private theorem bestStep_inv {ids : List Bytes} {t : Target} {n : Bytes} {d : Nat} {X : Int}
    (h : Holds ids t n d X) (seen : Bool) (acc : Option (CpInfo × Int)) (db : Nat)
    (hi : BInv (fun c => fetch ids (t.cps d n) = some c) d X seen acc) :
    BInv (fun c => fetch ids (t.cps d n) = some c) d X (seen || decide (db = d)) (bestStep ids t n acc db) := by
  obtain ⟨cpi, rec, rfl, hc⟩ := hi
  obtain ⟨tc, htc, hoff, hrid⟩ := fetch_spec ids (t.cps db n) (h.parses db)
  unfold bestStep
  simp only [htc]
  by_cases hdb : db = d
  · subst hdb
    have ho : tc.offset = X := by rw [hoff, h.off]
    have hr : tc.runId ≠ qmark := by rw [hrid]; exact h.rid
    simp only [decide_true, Bool.or_true]
    split
    · exact ⟨tc, _, rfl, by simp [ho, hr, htc]⟩
    · rename_i hcond
      cases seen with
      | true => exact ⟨cpi, rec, rfl, by simpa using hc⟩
      | false =>
        exfalso; apply hcond; left
        have : cpi.offset < X := by simpa using hc
        omega
  · have hlt : tc.offset < X := by rw [hoff]; exact offOf_lt_of_below (h.dom db hdb) h.nonneg
    simp only [hdb, decide_false, Bool.or_false]
    cases seen with
    | true =>
      have hc' : cpi.offset = X ∧ cpi.runId ≠ qmark ∧ rec = (d : Int) ∧ fetch ids (t.cps d n) = some cpi := by simpa using hc
      have : ¬ (tc.offset > cpi.offset ∨ (tc.offset = cpi.offset ∧ tc.mtime > cpi.mtime)) := by
        rw [hc'.1]; omega
      simp only [this, if_false]
      exact ⟨cpi, rec, rfl, by simpa using hc'⟩
    | false =>
      have hc' : cpi.offset < X := by simpa using hc
      split
      · exact ⟨tc, _, rfl, by simpa using hlt⟩
      · exact ⟨cpi, rec, rfl, by simpa using hc'⟩

private theorem bestFold_inv {ids : List Bytes} {t : Target} {n : Bytes} {d : Nat} {X : Int}
    (h : Holds ids t n d X) (order : List Nat) :
    ∀ (seen : Bool) (acc : Option (CpInfo × Int)), BInv (fun c => fetch ids (t.cps d n) = some c) d X seen acc →
      BInv (fun c => fetch ids (t.cps d n) = some c) d X (seen || decide (d ∈ order)) (order.foldl (bestStep ids t n) acc) := by
  induction order with
  | nil => intro seen acc hi; simpa using hi
  | cons db rest ih =>
    intro seen acc hi
    simp only [List.foldl_cons]
    have := ih _ _ (bestStep_inv h seen acc db hi)
    have he : (seen || decide (db = d) || decide (d ∈ rest)) = (seen || decide (d ∈ db :: rest)) := by
      have h1 : decide (d ∈ db :: rest) = (decide (db = d) || decide (d ∈ rest)) := by
        rw [Bool.eq_iff_iff]
        simp only [decide_eq_true_eq, Bool.or_eq_true, List.mem_cons]
        constructor
        · rintro (h | h); exact Or.inl h.symm; exact Or.inr h
        · rintro (h | h); exact Or.inl h.symm; exact Or.inr h
      rw [h1, Bool.or_assoc]
    rw [he] at this; exact this

theorem getCheckpoint_of_holds (ver : Bytes) {ids : List Bytes} {t : Target} {n : Bytes} {d : Nat}
    {X : Int} (h : Holds ids t n d X) (order : List Nat) (hd : d ∈ order) :
    ∃ c, getCheckpoint ver t n ids order = some (c, (d : Int)) ∧ c.offset = X ∧ c.runId ≠ qmark ∧
      fetch ids (t.cps d n) = some c := by
  have hinit : BInv (fun c => fetch ids (t.cps d n) = some c) d X false (some (({ version := ver } : CpInfo), (0 : Int))) :=
    ⟨_, _, rfl, by simp; have := h.nonneg; omega⟩
  obtain ⟨cpi, rec, hacc, hc⟩ := bestFold_inv h order false _ hinit
  simp only [hd, decide_true, Bool.or_true, if_true] at hc
  unfold getCheckpoint
  rw [hacc]
  simp only [hc.2.1, if_false]
  exact ⟨cpi, by rw [hc.2.2.1], hc.1, hc.2.1, hc.2.2.2⟩

theorem startPoint_of_holds (ver : Bytes) {ids : List Bytes} {t : Target} {n r : Bytes} {d : Nat}
    {X : Int} (hn : getHash t.hash ids = some (n, r)) (hn0 : n ≠ [])
    (h : Holds ids t n d X) (order : List Nat) (hd : d ∈ order) :
    startPoint ver ids order t = some (some (X, d)) := by
  obtain ⟨c, hc, hX, _, _⟩ := getCheckpoint_of_holds ver h order hd
  unfold startPoint
  simp only [hn, hn0, if_false, hc]
  have : ¬ ((d : Int) < 0) := by omega
  simp [this, hX]

end GunYu.Checkpoint
