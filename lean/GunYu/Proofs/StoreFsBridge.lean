/-
  C08 → C06: what a re-opened disk cache is, in the vocabulary of C06
  (`Psync.Cache`, `Psync.CData`), and that it satisfies C06's hypotheses
  `CacheWF` / `CacheOK` (definitions imported from Model/Psync.lean, not copied).
-/
import GunYu.Model.Psync
import GunYu.Proofs.StoreFs
import GunYu.Proofs.StoreFsTrue

namespace GunYu.StoreFs
open GunYu GunYu.Store GunYu.Psync

/-- the cache description C06 reasons about, for a re-opened directory labelled `id` -/
def cacheOf (id : Psync.Id) (r : Reopened) : Cache :=
  { backend := .disk, runId := id,
    rdb := r.rdb.map (fun p => ((p.1 : Int), (p.2 : Int))),
    aof := match firstLeft r.segs, lastRight r.segs with
      | some l, some rr => some ((l : Int), (rr : Int))
      | _, _ => none }

/-- the byte the indexed segments hold at absolute offset `n` -/
def segByte (segs : List DSeg) (n : Int) : UInt8 :=
  match segs.find? (fun g => decide ((g.left : Int) ≤ n ∧ n < (g.right : Int))) with
  | some g => g.data.getD (n - (g.left : Int)).toNat 0
  | none => 0

/-- the cached bytes: the log bytes of the indexed segments; the snapshot is the
    snapshot of history `id` at the offset it is filed under -/
def dataOf (id : Psync.Id) (r : Reopened) : CData :=
  ⟨segByte r.segs, (id, match r.rdb with | some p => (p.1 : Int) | none => 0)⟩

theorem contig_cover_strict {l : List DSeg} (hc : Contig l) {f r n : Nat}
    (hf : firstLeft l = some f) (hr : lastRight l = some r) (h1 : f ≤ n) (h2 : n < r) :
    ∃ g ∈ l, g.left ≤ n ∧ n < g.right := by
  induction l generalizing f with
  | nil => simp [firstLeft] at hf
  | cons a t ih =>
    simp only [firstLeft, Option.some.injEq] at hf; subst hf
    cases t with
    | nil =>
      simp only [lastRight, Option.some.injEq] at hr; subst hr
      exact ⟨a, by simp, h1, h2⟩
    | cons b t' =>
      by_cases hn : n < a.right
      · exact ⟨a, by simp, h1, hn⟩
      · rw [lastRight_cons_cons] at hr
        obtain ⟨g, hg, hl, hrr⟩ := ih hc.2 (f := b.left) rfl hr (by have := hc.1; omega)
        exact ⟨g, List.mem_cons_of_mem _ hg, hl, hrr⟩

theorem contig_first_le_last {l : List DSeg} (hc : Contig l) {f r : Nat}
    (hf : firstLeft l = some f) (hr : lastRight l = some r) : f ≤ r := by
  induction l generalizing f with
  | nil => simp [firstLeft] at hf
  | cons a t ih =>
    simp only [firstLeft, Option.some.injEq] at hf; subst hf
    cases t with
    | nil =>
      simp only [lastRight, Option.some.injEq] at hr; subst hr
      unfold DSeg.right; omega
    | cons b t' =>
      rw [lastRight_cons_cons] at hr
      have := ih hc.2 (f := b.left) rfl hr
      have := hc.1
      unfold DSeg.right at *; omega

theorem reopen_rdb_aligned (fs : FS) (l sz : Nat) (g : DSeg) (rest : List DSeg)
    (h : (reopen fs).rdb = some (l, sz)) (hs : (reopen fs).segs = g :: rest) : l = g.left := by
  have hs' : contigRun (sortSegs (scanSegs fs)) = g :: rest := hs
  unfold reopen at h
  simp only [hs'] at h
  generalize (if decide ((g :: rest).length < (sortSegs (scanSegs fs)).length) = true then none
      else scanRdb fs) = rdb1 at h
  cases rdb1 with
  | none => simp at h
  | some p =>
    obtain ⟨l', s'⟩ := p
    simp only [] at h
    split at h
    · simp at h; omega
    · simp at h

/-- **the re-opened cache is one C06 can reason about.** For ANY directory image:
    the log range is ordered, a snapshot offered starts where the log starts, and
    data is held under a real id only. The two side conditions are the ones the
    model cannot see: offsets are int64, and the announced snapshot size is positive
    (for the writers' own crash images: `crash_cache_wf`). -/
theorem reopen_cacheWF (fs : FS) (id : Psync.Id) (hid1 : id ≠ []) (hid2 : id ≠ qId)
    (h64 : ∀ r, lastRight (reopen fs).segs = some r → (r : Int) ≤ maxInt64)
    (hrdb : ∀ L S, (reopen fs).rdb = some (L, S) → 0 < S ∧ (L : Int) ≤ maxInt64) :
    CacheWF (cacheOf id (reopen fs)) := by
  refine ⟨?_, ?_, ?_, ?_⟩
  · unfold cacheOf
    dsimp only
    cases hf : firstLeft (reopen fs).segs with
    | none => trivial
    | some f =>
      cases hr : lastRight (reopen fs).segs with
      | none => trivial
      | some r =>
        dsimp only
        have := contig_first_le_last (reopen_contig fs) hf hr
        have := h64 r hr
        refine ⟨by omega, by omega, this⟩
  · unfold cacheOf
    dsimp only
    cases hr : (reopen fs).rdb with
    | none => trivial
    | some p =>
      obtain ⟨L, S⟩ := p
      have := hrdb L S hr
      simp only [Option.map_some]
      exact ⟨by omega, by omega, this.2⟩
  · unfold cacheOf
    dsimp only
    cases hr : (reopen fs).rdb with
    | none => trivial
    | some p =>
      obtain ⟨L, S⟩ := p
      simp only [Option.map_some]
      cases hs : (reopen fs).segs with
      | nil => simp [firstLeft]
      | cons g rest =>
        have hal := reopen_rdb_aligned fs L S g rest hr hs
        simp only [firstLeft]
        cases hlr : lastRight (g :: rest) with
        | none => trivial
        | some r => dsimp only; rw [if_pos trivial]; omega
  · intro h
    rcases h with h | h
    · exact absurd h hid1
    · exact absurd h hid2

/-- **… and what it holds is the history's.** If every stream file of the
    directory holds (after its header) bytes of history `id` at the file's offsets
    — which every crash image of the writers' scripts does (`script_ops_true`) — then
    the re-opened cache `Holds` history `id` in C06's sense. -/
theorem reopen_holds (w : World) (fs : FS) (id : Psync.Id)
    (h : FsTrue (fun k => w.hist id (k : Int)) fs) :
    Holds w id (cacheOf id (reopen fs)) (dataOf id (reopen fs)) := by
  refine ⟨?_, ?_⟩
  · unfold cacheOf
    dsimp only
    cases hf : firstLeft (reopen fs).segs with
    | none => trivial
    | some f =>
      cases hr : lastRight (reopen fs).segs with
      | none => trivial
      | some r =>
        dsimp only
        intro n hl hn
        obtain ⟨g0, hg0, hl0, hr0⟩ := contig_cover_strict (reopen_contig fs) hf hr (n := n.toNat) (by omega) (by omega)
        show segByte (reopen fs).segs n = w.hist id n
        unfold segByte
        cases hfind : (reopen fs).segs.find? (fun g => decide ((g.left : Int) ≤ n ∧ n < (g.right : Int))) with
        | none =>
          have := List.find?_eq_none.mp hfind g0 hg0
          simp only [decide_eq_true_eq, not_and, Int.not_lt] at this
          omega
        | some g =>
          dsimp only
          have hgm := List.mem_of_find?_eq_some hfind
          have hp := List.find?_some hfind
          simp only [decide_eq_true_eq] at hp
          have htrue := reopen_segs_true h g hgm
          have hi : (n - (g.left : Int)).toNat < g.data.length := by
            have := hp.2; unfold DSeg.right at this; omega
          rw [List.getD_eq_getElem?_getD, List.getElem?_eq_getElem hi]
          simp only [Option.getD_some]
          have := htrue _ _ (List.getElem?_eq_getElem hi)
          rw [this]
          show w.hist id ((g.left + (n - (g.left : Int)).toNat : Nat) : Int) = w.hist id n
          have h1 := hp.1
          congr 1
          omega
  · unfold cacheOf dataOf
    dsimp only
    cases hr : (reopen fs).rdb with
    | none => trivial
    | some p =>
      simp only [Option.map_some]
      refine ⟨?_, ?_⟩ <;> first | rfl | trivial | (intros; first | rfl | trivial)

/-- C06's `CacheOK` for any source: the cache is labelled `id` and holds history `id` -/
theorem reopen_cacheOK (w : World) (src : Source) (fs : FS) (id : Psync.Id)
    (h : FsTrue (fun k => w.hist id (k : Int)) fs) :
    CacheOK w src (cacheOf id (reopen fs)) (dataOf id (reopen fs)) := by
  have hh := reopen_holds w fs id h
  constructor
  · intro e
    have : id = src.id1 := e
    subst this; exact hh
  · intro e
    have : id = src.id2 := e
    subst this; exact Or.inl hh

end GunYu.StoreFs
