/-
  C04 — the extended frame grammar (Model/RdbFrameX.lean): every reader is
  sequential; the stateful item reader `itemS` is a good item reader in every
  state; the lemmas of the opcode loop for a STATEFUL reader (`bodyS`).
-/
import GunYu.Proofs.RdbFrame
import GunYu.Model.RdbFrameX

namespace GunYu.RdbFrameX
open GunYu GunYu.RdbFrame

/-! ### combinators -/

theorem ite_seq {α} {c : Prop} [Decidable c] {a b : Rd α} (ha : Seq a) (hb : Seq b) :
    Seq (if c then a else b) := by
  split <;> assumption

theorem measured_seq {α} {r : Rd α} (hr : Seq r) : Seq (measured r) := by
  intro xs p rest h
  unfold measured at h
  cases h1 : r xs with
  | err => rw [h1] at h; cases h
  | unsup => rw [h1] at h; cases h
  | ok a mid =>
    rw [h1] at h
    simp only [R.ok.injEq] at h
    obtain ⟨rfl, rfl⟩ := h
    obtain ⟨c, hc, hall, htr⟩ := hr xs a mid h1
    refine ⟨c, hc, ?_, ?_⟩
    · intro ys
      simp only [measured, hall ys]
      rw [hc]
      simp [List.length_append]
    · intro k hk
      simp only [measured, htr k hk]

theorem measured_consumes {α} {r : Rd α} (hr : Consumes r) : Consumes (measured r) := by
  intro xs p rest h
  unfold measured at h
  cases h1 : r xs with
  | err => rw [h1] at h; cases h
  | unsup => rw [h1] at h; cases h
  | ok a mid =>
    rw [h1] at h
    simp only [R.ok.injEq] at h
    obtain ⟨_, rfl⟩ := h
    exact hr xs a mid h1

/-- what `measured` reports is the number of bytes consumed -/
theorem measured_count {α} {r : Rd α} {xs : Bytes} {a : α} {k : Nat} {rest : Bytes}
    (h : measured r xs = .ok (a, k) rest) : r xs = .ok a rest ∧ k = xs.length - rest.length := by
  unfold measured at h
  cases h1 : r xs with
  | err => rw [h1] at h; cases h
  | unsup => rw [h1] at h; cases h
  | ok b mid =>
    rw [h1] at h
    simp only [R.ok.injEq, Prod.mk.injEq] at h
    obtain ⟨⟨rfl, rfl⟩, rfl⟩ := h
    exact ⟨rfl, rfl⟩

/-! ### `iter`: a loop with an exit -/

theorem iter_seq {α} {stepR : Rd (Option α)} (hs : Seq stepR) : ∀ f, Seq (iter stepR f)
  | 0 => fail_seq
  | f+1 => by
    unfold iter
    apply andThen_seq hs
    intro x
    cases x with
    | some a => exact ret_seq a
    | none => exact iter_seq hs f

/-- a successful loop stays successful with more fuel -/
theorem iter_mono {α} {stepR : Rd (Option α)} : ∀ (f f' : Nat) (xs : Bytes) (a : α) (rest : Bytes),
    f ≤ f' → iter stepR f xs = .ok a rest → iter stepR f' xs = .ok a rest
  | 0, _, _, _, _, _, h => by simp [iter, fail] at h
  | f+1, 0, _, _, _, hle, _ => by omega
  | f+1, f'+1, xs, a, rest, hle, h => by
    unfold iter andThen at h ⊢
    cases h1 : stepR xs with
    | err => rw [h1] at h; cases h
    | unsup => rw [h1] at h; cases h
    | ok x mid =>
      rw [h1] at h
      simp only at h ⊢
      cases x with
      | some b => exact h
      | none => exact iter_mono f f' mid a rest (by omega) h

/-- with a step that consumes, more fuel than input bytes is as good as any amount -/
theorem iter_fuel {α} {stepR : Rd (Option α)} (hc : Consumes stepR) : ∀ (f f' : Nat) (xs : Bytes),
    xs.length < f → xs.length < f' → iter stepR f xs = iter stepR f' xs
  | 0, _, _, h, _ => by omega
  | _+1, 0, _, _, h => by omega
  | f+1, f'+1, xs, h1, h2 => by
    unfold iter andThen
    cases hs : stepR xs with
    | err => rfl
    | unsup => rfl
    | ok x mid =>
      simp only
      cases x with
      | some b => rfl
      | none =>
        have := hc xs none mid hs
        exact iter_fuel hc f f' mid (by omega) (by omega)

/-- a loop whose fuel is the input length + 1 -/
theorem iterLen_seq {α} {stepR : Rd (Option α)} (hs : Seq stepR) (hc : Consumes stepR) :
    Seq (fun xs => iter stepR (xs.length + 1) xs) := by
  intro xs a rest h
  obtain ⟨c, hx, hall, htr⟩ := iter_seq hs (xs.length + 1) xs a rest h
  refine ⟨c, hx, ?_, ?_⟩
  · intro ys
    show iter stepR ((c ++ ys).length + 1) (c ++ ys) = .ok a ys
    by_cases hle : xs.length + 1 ≤ (c ++ ys).length + 1
    · exact iter_mono _ _ _ _ _ hle (hall ys)
    · rw [iter_fuel hc ((c ++ ys).length + 1) (xs.length + 1) (c ++ ys) (by omega) (by omega)]
      exact hall ys
  · intro k hk
    show iter stepR ((c.take k).length + 1) (c.take k) = .err
    have hl : (c.take k).length ≤ k := by rw [List.length_take]; omega
    have hcx : c.length ≤ xs.length := by rw [hx]; simp
    rw [iter_fuel hc ((c.take k).length + 1) (xs.length + 1) (c.take k) (by omega) (by omega)]
    exact htr k hk

/-! ### the readers -/

theorem encLen_consumes : Consumes encLen := by
  unfold encLen
  apply andThen_consumes u8_consumes
  intro u
  dsimp only
  repeat' split
  all_goals first
    | exact ret_seq _
    | exact fail_seq
    | exact andThen_seq u8_seq (fun _ => ret_seq _)
    | exact andThen_seq (takeN_seq _) (fun _ => ret_seq _)

theorem len_consumes : Consumes len := by
  unfold len
  apply andThen_consumes encLen_consumes
  intro p; split
  · exact fail_seq
  · exact ret_seq _

theorem len32_consumes : Consumes len32 := andThen_consumes len_consumes (fun _ => ret_seq _)

theorem bytesN_seq (n : Nat) : Seq (bytesN n) := by
  unfold bytesN; exact ite_seq (skipBytes_seq n) fail_seq

theorem strL_cont_seq (p : Nat × Bool) : Seq (
    if !p.2 then andThen (bytesN p.1) (fun _ => ret (some p.1))
    else if p.1 = 0 then andThen (skipBytes 1) (fun _ => ret none)
    else if p.1 = 1 then andThen (skipBytes 2) (fun _ => ret none)
    else if p.1 = 2 then andThen (skipBytes 4) (fun _ => ret none)
    else if p.1 = 3 then
      andThen len32 (fun inlen => andThen len32 (fun outlen => andThen (takeN inlen) (fun bs =>
        if RdbLzf.decompressOk bs outlen then ret (some outlen) else fail)))
    else (fail : Rd (Option Nat))) := by
  refine ite_seq (andThen_seq (bytesN_seq _) (fun _ => ret_seq _)) ?_
  refine ite_seq (andThen_seq (skipBytes_seq _) (fun _ => ret_seq _)) ?_
  refine ite_seq (andThen_seq (skipBytes_seq _) (fun _ => ret_seq _)) ?_
  refine ite_seq (andThen_seq (skipBytes_seq _) (fun _ => ret_seq _)) ?_
  refine ite_seq ?_ fail_seq
  refine andThen_seq len32_seq (fun inlen => andThen_seq len32_seq (fun outlen => andThen_seq (takeN_seq _) (fun bs => ?_)))
  split
  · exact ret_seq _
  · exact fail_seq

theorem strL_seq : Seq strL := by
  unfold strL
  exact andThen_seq encLen_seq strL_cont_seq

theorem strL_consumes : Consumes strL := by
  unfold strL
  exact andThen_consumes encLen_consumes strL_cont_seq

theorem strX_seq : Seq strX := andThen_seq strL_seq (fun _ => ret_seq _)
theorem strX_consumes : Consumes strX := andThen_consumes strL_consumes (fun _ => ret_seq _)

theorem floatX_seq (cfg : Cfg) : Seq (floatX cfg) := by
  unfold floatX
  apply andThen_seq u8_seq
  intro u
  refine ite_seq (ret_seq _) (andThen_seq (takeN_seq _) (fun bs => ?_))
  cases cfg.floatOk bs
  · exact ret_seq _
  · exact fail_seq
  · exact outside_seq

theorem modStep_cont_seq (op : Nat) : Seq (
    if op = 0 then ret (some ())
    else if op = 1 ∨ op = 2 then andThen len32 (fun _ => ret none)
    else if op = 5 then andThen strX (fun _ => ret none)
    else if op = 3 then andThen (skipBytes 4) (fun _ => ret none)
    else if op = 4 then andThen (skipBytes 8) (fun _ => ret none)
    else (ret none : Rd (Option Unit))) := by
  refine ite_seq (ret_seq _) ?_
  refine ite_seq (andThen_seq len32_seq (fun _ => ret_seq _)) ?_
  refine ite_seq (andThen_seq strX_seq (fun _ => ret_seq _)) ?_
  refine ite_seq (andThen_seq (skipBytes_seq _) (fun _ => ret_seq _)) ?_
  exact ite_seq (andThen_seq (skipBytes_seq _) (fun _ => ret_seq _)) (ret_seq _)

theorem modStep_seq : Seq modStep := by
  unfold modStep; exact andThen_seq len32_seq modStep_cont_seq

theorem modStep_consumes : Consumes modStep := by
  unfold modStep; exact andThen_consumes len32_consumes modStep_cont_seq

theorem moduleVals_seq : Seq moduleVals := iterLen_seq modStep_seq modStep_consumes

/-- `rdbLoadCheckModuleValue` never runs out of the fuel it is given: more fuel changes nothing -/
theorem moduleVals_fuel (xs : Bytes) (f : Nat) (h : xs.length < f) : iter modStep f xs = moduleVals xs :=
  iter_fuel modStep_consumes f (xs.length + 1) xs h (by omega)

theorem lens_seq (k : Nat) : Seq (lens k) := repeatN_seq (andThen_seq len_seq (fun _ => ret_seq _)) k

theorem streamNode_seq : Seq streamNode := by
  unfold streamNode
  exact andThen_seq strL_seq (fun l => ite_seq strX_seq fail_seq)

theorem streamConsumer_seq (t : Nat) : Seq (streamConsumer t) := by
  unfold streamConsumer
  refine andThen_seq strX_seq (fun _ => andThen_seq (skipBytes_seq _) (fun _ => andThen_seq ?_ (fun _ =>
    andThen_seq len_seq (fun np => repeatN_seq (skipBytes_seq _) _))))
  exact ite_seq (skipBytes_seq _) (ret_seq _)

theorem streamGroup_seq (t : Nat) : Seq (streamGroup t) := by
  unfold streamGroup
  refine andThen_seq strX_seq (fun _ => andThen_seq (lens_seq _) (fun _ => andThen_seq ?_ (fun _ =>
    andThen_seq len_seq (fun np => andThen_seq (repeatN_seq ?_ _) (fun _ =>
      andThen_seq len32_seq (fun nc => repeatN_seq (streamConsumer_seq t) _))))))
  · exact ite_seq (lens_seq _) (ret_seq _)
  · exact andThen_seq (skipBytes_seq _) (fun _ => andThen_seq (skipBytes_seq _) (fun _ => lens_seq _))

theorem streamIDMP_seq : Seq streamIDMP := by
  unfold streamIDMP
  refine andThen_seq (lens_seq _) (fun _ => andThen_seq len_seq (fun npr => andThen_seq (repeatN_seq ?_ _) (fun _ => lens_seq _)))
  exact andThen_seq strX_seq (fun _ => andThen_seq len_seq (fun ne =>
    repeatN_seq (andThen_seq strX_seq (fun _ => lens_seq _)) _))

theorem streamX_seq (t : Nat) : Seq (streamX t) := by
  unfold streamX
  refine andThen_seq len_seq (fun nlp => andThen_seq (repeatN_seq streamNode_seq _) (fun _ =>
    andThen_seq (lens_seq _) (fun _ => andThen_seq ?_ (fun _ => andThen_seq len_seq (fun ng =>
      andThen_seq (repeatN_seq (streamGroup_seq t) _) (fun _ => ?_))))))
  · exact ite_seq (lens_seq _) (ret_seq _)
  · exact ite_seq streamIDMP_seq (ret_seq _)

theorem valueBodyX_seq (cfg : Cfg) (t : Nat) : Seq (valueBodyX cfg t) := by
  unfold valueBodyX
  refine ite_seq strX_seq ?_
  refine ite_seq (andThen_seq len32_seq (fun n => repeatN_seq strX_seq n)) ?_
  refine ite_seq (andThen_seq len32_seq (fun n => repeatN_seq (andThen_seq len_seq (fun _ => strX_seq)) n)) ?_
  refine ite_seq (andThen_seq len32_seq (fun n => repeatN_seq (andThen_seq strX_seq (fun _ => floatX_seq cfg)) n)) ?_
  refine ite_seq (andThen_seq len32_seq (fun n => repeatN_seq (andThen_seq strX_seq (fun _ => skipBytes_seq 8)) n)) ?_
  refine ite_seq fail_seq ?_
  refine ite_seq (andThen_seq len_seq (fun _ => moduleVals_seq)) ?_
  exact ite_seq (streamX_seq t) fail_seq

theorem itemOfX_seq (cfg : Cfg) (t : Nat) : Seq (itemOfX cfg t) := by
  unfold itemOfX
  refine ite_seq (ret_seq _) ?_
  refine ite_seq (andThen_seq len_seq (fun _ => ret_seq _)) ?_
  refine ite_seq (andThen_seq len_seq (fun _ => andThen_seq len_seq (fun _ => ret_seq _))) ?_
  refine ite_seq (andThen_seq (takeN_seq 8) (fun _ => ret_seq _)) ?_
  refine ite_seq (andThen_seq (takeN_seq 4) (fun _ => ret_seq _)) ?_
  refine ite_seq (andThen_seq (takeN_seq 1) (fun _ => ret_seq _)) ?_
  refine ite_seq (andThen_seq len_seq (fun _ => andThen_seq len_seq (fun _ => andThen_seq len_seq (fun _ => ret_seq _)))) ?_
  refine ite_seq (andThen_seq strX_seq (fun _ => andThen_seq strX_seq (fun _ => ret_seq _))) ?_
  refine ite_seq (andThen_seq strX_seq (fun _ => ret_seq _)) ?_
  refine ite_seq (andThen_seq len_seq (fun _ => andThen_seq moduleVals_seq (fun _ => ite_seq fail_seq (ret_seq _)))) ?_
  exact ite_seq (andThen_seq strX_seq (fun _ => andThen_seq (valueBodyX_seq cfg t) (fun _ => ret_seq _))) fail_seq

theorem hashChunk_seq (cfg : Cfg) : ∀ (n used : Nat), Seq (hashChunk cfg n used)
  | 0, _ => ret_seq _
  | n+1, used => by
    unfold hashChunk
    refine andThen_seq (measured_seq (andThen_seq strX_seq (fun _ => strX_seq))) (fun p => ite_seq ?_ (hashChunk_seq cfg n _))
    cases n with
    | zero => exact ret_seq _
    | succ m => exact ret_seq _

theorem hashChunk_consumes (cfg : Cfg) (n used : Nat) : Consumes (hashChunk cfg (n + 1) used) := by
  unfold hashChunk
  refine andThen_consumes (measured_consumes (andThen_consumes strX_consumes (fun _ => strX_seq))) (fun p => ite_seq ?_ (hashChunk_seq cfg n _))
  cases n with
  | zero => exact ret_seq _
  | succ m => exact ret_seq _

theorem itemS_seq (cfg : Cfg) : ∀ s, Seq (itemS cfg s)
  | none => by
    unfold itemS
    refine andThen_seq u8_seq (fun op => ite_seq ?_ (andThen_seq (itemOfX_seq cfg _) (fun _ => ret_seq _)))
    exact andThen_seq strX_seq (fun _ => andThen_seq (measured_seq len32_seq) (fun p => hashChunk_seq cfg _ _))
  | some m => hashChunk_seq cfg (m + 1) 0

theorem itemS_consumes (cfg : Cfg) : ∀ s, Consumes (itemS cfg s)
  | none => by
    unfold itemS
    refine andThen_consumes u8_consumes (fun op => ite_seq ?_ (andThen_seq (itemOfX_seq cfg _) (fun _ => ret_seq _)))
    exact andThen_seq strX_seq (fun _ => andThen_seq (measured_seq len32_seq) (fun p => hashChunk_seq cfg _ _))
  | some m => hashChunk_consumes cfg m 0

/-! ### the EOF opcode is the single byte 0xFF -/

/-- readers that never answer the EOF marker -/
def NeverEofS {σ} (r : Rd (Item × σ)) : Prop := ∀ xs s rest, r xs ≠ .ok (Item.eofOp, s) rest

theorem neverEofS_andThen {α σ} {r : Rd α} {k : α → Rd (Item × σ)} (hk : ∀ a, NeverEofS (k a)) :
    NeverEofS (andThen r k) := by
  intro xs s rest h
  unfold andThen at h
  cases h1 : r xs with
  | err => rw [h1] at h; cases h
  | unsup => rw [h1] at h; cases h
  | ok a mid => rw [h1] at h; exact hk a mid s rest h

theorem neverEofS_ite {σ} {c : Prop} [Decidable c] {a b : Rd (Item × σ)} (ha : NeverEofS a) (hb : NeverEofS b) :
    NeverEofS (if c then a else b) := by
  split <;> assumption

theorem neverEofS_ret_entry {σ} (s : σ) : NeverEofS (ret (Item.entry, s)) := by
  intro xs s' rest h; simp [ret] at h

theorem hashChunk_neverEof (cfg : Cfg) : ∀ (n used : Nat), NeverEofS (hashChunk cfg n used)
  | 0, _ => neverEofS_ret_entry _
  | n+1, used => by
    unfold hashChunk
    refine neverEofS_andThen (fun p => neverEofS_ite ?_ (hashChunk_neverEof cfg n _))
    cases n with
    | zero => exact neverEofS_ret_entry _
    | succ m => exact neverEofS_ret_entry _

theorem neverEof_ite {c : Prop} [Decidable c] {a b : Rd Item} (ha : NeverEof a) (hb : NeverEof b) :
    NeverEof (if c then a else b) := by
  split <;> assumption

theorem itemOfX_neverEof (cfg : Cfg) (t : Nat) (ht : t ≠ 0xFF) : NeverEof (itemOfX cfg t) := by
  unfold itemOfX
  rw [if_neg ht]
  refine neverEof_ite (neverEof_andThen (fun _ => neverEof_ret_other)) ?_
  refine neverEof_ite (neverEof_andThen (fun _ => neverEof_andThen (fun _ => neverEof_ret_other))) ?_
  refine neverEof_ite (neverEof_andThen (fun _ => neverEof_ret_other)) ?_
  refine neverEof_ite (neverEof_andThen (fun _ => neverEof_ret_other)) ?_
  refine neverEof_ite (neverEof_andThen (fun _ => neverEof_ret_other)) ?_
  refine neverEof_ite (neverEof_andThen (fun _ => neverEof_andThen (fun _ => neverEof_andThen (fun _ => neverEof_ret_other)))) ?_
  refine neverEof_ite (neverEof_andThen (fun _ => neverEof_andThen (fun _ => neverEof_ret_entry))) ?_
  refine neverEof_ite (neverEof_andThen (fun _ => neverEof_ret_entry)) ?_
  refine neverEof_ite (neverEof_andThen (fun _ => neverEof_andThen (fun _ => neverEof_ite neverEof_fail neverEof_ret_other))) ?_
  exact neverEof_ite (neverEof_andThen (fun _ => neverEof_andThen (fun _ => neverEof_ret_entry))) neverEof_fail

theorem itemS_eofOp (cfg : Cfg) : ∀ (s : HSt) (xs : Bytes) (s' : HSt) (rest : Bytes),
    itemS cfg s xs = .ok (Item.eofOp, s') rest → xs = 0xFF :: rest
  | some m, xs, s', rest, h => absurd h (hashChunk_neverEof cfg (m + 1) 0 xs s' rest)
  | none, xs, s', rest, h => by
    unfold itemS andThen at h
    cases xs with
    | nil => simp [u8] at h
    | cons b t =>
      simp only [u8] at h
      by_cases h4 : b.toNat = 4
      · rw [if_pos h4] at h
        exact absurd h (neverEofS_andThen (fun _ => neverEofS_andThen (fun p => hashChunk_neverEof cfg _ _)) t s' rest)
      · rw [if_neg h4] at h
        by_cases hb : b.toNat = 0xFF
        · have hb' : b = 0xFF := by apply UInt8.toNat_inj.mp; simpa using hb
          simp only [itemOfX, hb, if_true, ret, R.ok.injEq, Prod.mk.injEq, true_and] at h
          rw [hb', h.2]
        · exfalso
          cases h1 : itemOfX cfg b.toNat t with
          | err => rw [h1] at h; cases h
          | unsup => rw [h1] at h; cases h
          | ok a mid =>
            rw [h1] at h
            simp only [ret, R.ok.injEq, Prod.mk.injEq] at h
            obtain ⟨⟨rfl, _⟩, rfl⟩ := h
            exact itemOfX_neverEof cfg b.toNat hb t mid h1

/-! ### the opcode loop over a stateful reader -/

structure GoodItemS {σ} (it : σ → Rd (Item × σ)) : Prop where
  seq : ∀ s, Seq (it s)
  consumes : ∀ s, Consumes (it s)
  eof : ∀ s xs s' rest, it s xs = .ok (Item.eofOp, s') rest → xs = 0xFF :: rest

theorem itemS_good (cfg : Cfg) : GoodItemS (itemS cfg) :=
  ⟨itemS_seq cfg, itemS_consumes cfg, itemS_eofOp cfg⟩

theorem bodyS_fuel {σ} (it : σ → Rd (Item × σ)) (g : GoodItemS it) :
    ∀ (fuel : Nat) (all xs : Bytes) (s : σ) (cnt : Nat), xs.length < fuel → bodyS it fuel all xs s cnt ≠ .fuelOut
  | 0, _, _, _, _, h => by omega
  | fuel+1, all, xs, s, cnt, h => by
    unfold bodyS
    split
    · exact footer_ne_fuelOut _ _ _
    · next s' rest hi => exact bodyS_fuel it g fuel all rest s' _ (by have := g.consumes s xs _ rest hi; omega)
    · next s' rest hi => exact bodyS_fuel it g fuel all rest s' _ (by have := g.consumes s xs _ rest hi; omega)
    · simp
    · simp

theorem bodyS_done {σ} (it : σ → Rd (Item × σ)) (g : GoodItemS it) :
    ∀ (fuel : Nat) (all pre xs : Bytes) (s : σ) (cnt n : Nat),
      all = pre ++ xs → bodyS it fuel all xs s cnt = .done n → EndsWithFooter all
  | 0, _, _, _, _, _, _, _, h => by simp [bodyS] at h
  | fuel+1, all, pre, xs, s, cnt, n, hall, h => by
    unfold bodyS at h
    split at h
    · next s' rest hi =>
      have := g.eof _ _ _ _ hi
      exact (footer_done (pre := pre) (by rw [hall, this]) h).1
    · next s' rest hi =>
      obtain ⟨c, hc, _, _⟩ := g.seq s xs _ rest hi
      exact bodyS_done it g fuel all (pre ++ c) rest s' _ n (by rw [hall, hc, List.append_assoc]) h
    · next s' rest hi =>
      obtain ⟨c, hc, _, _⟩ := g.seq s xs _ rest hi
      exact bodyS_done it g fuel all (pre ++ c) rest s' _ n (by rw [hall, hc, List.append_assoc]) h
    · cases h
    · cases h

/-- an accepted body, cut anywhere, is rejected -/
theorem bodyS_trunc {σ} (it : σ → Rd (Item × σ)) (g : GoodItemS it) :
    ∀ (fuel : Nat) (all xs : Bytes) (s : σ) (cnt n : Nat),
      bodyS it fuel all xs s cnt = .done n →
      ∀ (k : Nat), k < xs.length → ∀ (fuel' : Nat) (all' : Bytes) (cnt' : Nat), k < fuel' →
        ∃ m, bodyS it fuel' all' (xs.take k) s cnt' = .err m
  | 0, _, _, _, _, _, h => by simp [bodyS] at h
  | fuel+1, all, xs, s, cnt, n, h => by
    intro k hk fuel' all' cnt' hf
    cases fuel' with
    | zero => omega
    | succ fuel' =>
    unfold bodyS at h
    cases hi : it s xs with
    | err => rw [hi] at h; cases h
    | unsup => rw [hi] at h; cases h
    | ok p rest =>
      obtain ⟨itm, s'⟩ := p
      obtain ⟨c, hc, hallc, htr⟩ := g.seq s xs (itm, s') rest hi
      have hcpos : 0 < c.length := by
        have := g.consumes s xs (itm, s') rest hi
        rw [hc, List.length_append] at this; omega
      by_cases hlt : k < c.length
      · have : xs.take k = c.take k := by rw [hc]; exact List.take_append_of_le_length (by omega)
        refine ⟨cnt', ?_⟩
        unfold bodyS
        rw [this, htr k hlt]
      · have hge : c.length ≤ k := by omega
        have hx : xs.take k = c ++ rest.take (k - c.length) := by
          rw [hc, List.take_append, List.take_of_length_le hge]
        have hk' : k - c.length < rest.length := by
          rw [hc, List.length_append] at hk; omega
        have hi' : it s (xs.take k) = .ok (itm, s') (rest.take (k - c.length)) := by rw [hx]; exact hallc _
        rw [hi] at h
        cases itm with
        | eofOp =>
          simp only at h
          have hrest8 : rest.length = 8 := footer_done_len h
          refine ⟨cnt', ?_⟩
          unfold bodyS
          rw [hi']
          exact footer_short all' _ cnt' (by rw [List.length_take]; omega)
        | entry =>
          simp only at h
          obtain ⟨m, hm⟩ := bodyS_trunc it g fuel all rest s' _ n h (k - c.length) hk' fuel' all' (cnt' + 1) (by omega)
          exact ⟨m, by unfold bodyS; rw [hi']; exact hm⟩
        | other =>
          simp only at h
          obtain ⟨m, hm⟩ := bodyS_trunc it g fuel all rest s' _ n h (k - c.length) hk' fuel' all' cnt' (by omega)
          exact ⟨m, by unfold bodyS; rw [hi']; exact hm⟩

/-- an item reader that never answers "outside the model" -/
def TotalS {σ} (it : σ → Rd (Item × σ)) : Prop := ∀ s xs, it s xs ≠ .unsup

theorem bodyS_total {σ} (it : σ → Rd (Item × σ)) (ht : TotalS it) :
    ∀ (fuel : Nat) (all xs : Bytes) (s : σ) (cnt : Nat), bodyS it fuel all xs s cnt ≠ .unsup
  | 0, _, _, _, _ => by simp [bodyS]
  | fuel+1, all, xs, s, cnt => by
    unfold bodyS
    split
    · unfold footer; split
      · split
        · simp
        · split <;> simp
      · simp
    · exact bodyS_total it ht fuel _ _ _ _
    · exact bodyS_total it ht fuel _ _ _ _
    · simp
    · next h => exact absurd h (ht s xs)

end GunYu.RdbFrameX
