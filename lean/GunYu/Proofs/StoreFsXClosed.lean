/-
  C08 — what the FILE of a closed segment is, in every state a script with faults reaches:
  exactly `closedHeader g.data ++ g.data` (the header `closeAof` writes, then the data),
  for every indexed closed segment except those whose header rewrite failed at some point
  of the script (`t`, the taint) and those the life began with (`u`: a re-opened directory
  may hold segments whose headers a crash left torn).
-/
import GunYu.Proofs.StoreFsXSafe

namespace GunYu.StoreFsX
open GunYu GunYu.Store GunYu.StoreFs

def CInv (u t : List Nat) (s : XDisk) : Prop :=
  ∀ g ∈ s.d.segs, g.left ∉ u → g.left ∉ t →
    s.fs.get (aofName g.left) = some (closedHeader g.data ++ g.data)

/-- the segments whose header rewrite failed at some point of the script, accumulated -/
def taintRun (t : List Nat) (s : XDisk) : List XOp → List Nat
  | [] => t
  | x :: rest => taintRun (t ++ (xstep s x).1.zombies) (xstep s x).1 rest

theorem cinv_of {u t t' : List Nat} {s : XDisk} {d' : Disk} {fs' : FS} {z' : List Nat} (h : CInv u t s)
    (hsub : ∀ l, l ∈ t → l ∈ t')
    (hA : ∀ g ∈ d'.segs, g.left ∉ t' →
      (g ∈ s.d.segs ∧ fs'.get (aofName g.left) = s.fs.get (aofName g.left)) ∨
      fs'.get (aofName g.left) = some (closedHeader g.data ++ g.data)) :
    CInv u t' ⟨d', fs', z'⟩ := by
  intro g hg hu ht'
  rcases hA g hg ht' with ⟨h1, h2⟩ | h3
  · show fs'.get _ = _
    rw [h2]; exact h g h1 hu (fun hm => ht' (hsub _ hm))
  · exact h3

theorem live_left_ne {d : Disk} (hd : DInv d) {g : DSeg} (hl : d.live = some g) : ∀ x ∈ d.segs, x.left < g.left := by
  intro x hx
  have hall0 : d.all = d.segs ++ [g] := by simp [Disk.all, hl]
  exact lefts_lt_of_split (pre := d.segs) (rest := [g]) (hall0 ▸ hd.contig)
    (hall0 ▸ all_initNonempty hd.nonempty) hx (List.mem_singleton.mpr rfl)

/-- closing the live segment: the older files are untouched, the closed one is header + data -/
theorem closeLive_closed {d : Disk} {fs : FS} (hd : DInv d) (hf : FilesOk d fs) :
    ∀ x ∈ d.closeLive.segs,
      (x ∈ d.segs ∧ (fs.applyAll (closeLiveOps d)).get (aofName x.left) = fs.get (aofName x.left)) ∨
      (fs.applyAll (closeLiveOps d)).get (aofName x.left) = some (closedHeader x.data ++ x.data) := by
  intro x hx
  unfold Disk.closeLive at hx
  unfold closeLiveOps
  cases hl : d.live with
  | none => rw [hl] at hx; exact Or.inl ⟨hx, rfl⟩
  | some g =>
    rw [hl] at hx
    simp only [] at hx ⊢
    have hgm : g ∈ d.all := by simp [Disk.all, hl]
    by_cases he : g.data.isEmpty = true
    · simp only [he, if_true] at hx ⊢
      have := live_left_ne hd hl x hx
      refine Or.inl ⟨hx, ?_⟩
      show (fs.apply (.remove (aofName g.left))).get _ = _
      exact get_apply_other _ _ _ (by simp only [FsOp.names, List.mem_singleton]; intro e; have := aofName_inj e; omega)
    · simp only [he] at hx ⊢
      simp only [Bool.false_eq_true, if_false] at hx ⊢
      rcases List.mem_append.mp hx with h | h
      · have := live_left_ne hd hl x h
        refine Or.inl ⟨h, ?_⟩
        show (fs.apply (.pwriteHdr (aofName g.left) _)).get _ = _
        exact get_apply_other _ _ _ (by simp only [FsOp.names, List.mem_singleton]; intro e; have := aofName_inj e; omega)
      · simp at h; subst h
        obtain ⟨hdr0, hh0, hget0⟩ := hf x hgm
        right
        show (fs.apply (.pwriteHdr (aofName x.left) (closedHeader x.data))).get _ = _
        rw [get_apply_pwrite_eq _ hget0, closedHeader_length]
        congr 2
        rw [List.drop_append_of_le_length (by omega), List.drop_of_length_le (by omega)]; rfl

theorem closeLive_segs_lefts {d : Disk} (hd : DInv d) : ∀ x ∈ d.closeLive.segs, x ∈ d.all := by
  intro x hx
  apply closeLive_all_subset
  simp [Disk.all, closeLive_live, hx]

/-- steps that leave the closed segments and their files alone -/
theorem segs_same (d : Disk) (o : DOp)
    (h : (∃ c, o = .rdbAppend c) ∨ o = .rdbClose ∨ (∃ a b c, o = .openReader a b c) ∨ (∃ a b, o = .read a b) ∨
      (∃ a, o = .advAcquire a) ∨ (∃ a, o = .advRelease a) ∨ (∃ a, o = .closeReader a)) :
    (d.step o).1.segs = d.segs ∧ ∀ op ∈ fsOps d o, ∀ l, aofName l ∉ op.names := by
  rcases h with ⟨c, rfl⟩ | rfl | ⟨a, b, c, rfl⟩ | ⟨a, b, rfl⟩ | ⟨a, rfl⟩ | ⟨a, rfl⟩ | ⟨a, rfl⟩
  · constructor
    · simp only [Disk.step]; repeat' split
      all_goals rfl
    · intro op hop l
      simp only [fsOps] at hop
      repeat' split at hop
      all_goals simp at hop
      all_goals (try (rcases hop with rfl | rfl)) <;> (try subst hop) <;> simp [FsOp.names, aofName, rdbTmpName, rdbName]
  · constructor
    · simp only [Disk.step]; repeat' split
      all_goals rfl
    · intro op hop l
      simp only [fsOps] at hop
      repeat' split at hop
      all_goals simp at hop
      all_goals subst hop; simp [FsOp.names, aofName, rdbTmpName]
  · exact ⟨by simp only [Disk.step, Disk.open]; repeat' split
              all_goals rfl, by intro op hop; simp [fsOps] at hop⟩
  · exact ⟨by simp only [Disk.step, Disk.read]; repeat' split
              all_goals rfl, by intro op hop; simp [fsOps] at hop⟩
  · exact ⟨by simp only [Disk.step, Disk.advAcquire]; repeat' split
              all_goals rfl, by intro op hop; simp [fsOps] at hop⟩
  · exact ⟨by simp only [Disk.step, Disk.advRelease]; repeat' split
              all_goals rfl, by intro op hop; simp [fsOps] at hop⟩
  · exact ⟨by simp only [Disk.step, Disk.closeReader]; repeat' split
              all_goals rfl, by intro op hop; simp [fsOps] at hop⟩

theorem truncateGap_segs (rdb : Option DRdb) (segs : List DSeg) : (truncateGap rdb segs).2 = contigRun segs := by
  unfold truncateGap
  simp only []
  repeat' split
  all_goals rfl

/-- the id operations: the closed segments afterwards are among those before; no file is touched -/
theorem id_ops_segs (d : Disk) (o : DOp) (hok : d.okOp o) (h : (∃ id, o = .setRunId id) ∨ o = .delRunId) :
    ∀ g ∈ (d.step o).1.segs, g ∈ d.segs := by
  rcases h with ⟨id, rfl⟩ | rfl
  · intro g hg
    simp only [Disk.step] at hg
    split at hg
    · simp [Disk.reset] at hg
    · split at hg
      · exact hg
      · rename_i hne hid
        obtain ⟨hl, _⟩ := hok hne hid
        -- the re-scan keeps a sub-list of what was indexed
        have hg' : g ∈ (d.closeAllForSwitch.rescan).segs := hg
        unfold Disk.rescan at hg'
        simp only [truncateGap_segs] at hg'
        have h1 := mem_sortSegs.mp (mem_contigRun hg')
        have h2 := (List.mem_filter.mp h1).1
        unfold Disk.closeAllForSwitch at h2
        have h3 := closeLive_all_subset _ g h2
        have hf := dropWritingRdb_fields ({ d with readers := closeAllReaders d.readers } : Disk)
        have hsegs := hf.2.2.2.1
        have hlive := hf.2.2.2.2.1
        unfold Disk.all at h3
        rw [hsegs, hlive] at h3
        have hl' : ({ d with readers := closeAllReaders d.readers } : Disk).live = none := hl
        rw [hl'] at h3
        simpa using h3
  · intro g hg
    simp only [Disk.step] at hg
    split at hg
    · exact hg
    · simp [Disk.reset] at hg

theorem mem_t_append {t z : List Nat} : ∀ l, l ∈ t → l ∈ t ++ z := fun _ h => List.mem_append.mpr (Or.inl h)

theorem cinv_xbase {src : Nat → UInt8} {u t : List Nat} (s : XDisk) (o : DOp) (hinv : XInv src s) (hok : s.d.okOp o)
    (h : CInv u t s) : CInv u (t ++ (xbase s o).1.zombies) (xbase s o).1 := by
  show CInv u _ ⟨baseDisk s o, s.fs.applyAll (baseOps s o), zKeep (baseZombies s o) (baseDisk s o)⟩
  apply cinv_of h mem_t_append
  intro g hg _
  cases o with
  | newRdbWriter off size => simp [baseDisk, Disk.step, Disk.reset] at hg
  | gc =>
    simp only [baseDisk] at hg
    simp only [baseOps]
    obtain ⟨pre, segs', rdb', he, hp, _, _, _⟩ := gcZ_cases s.d s.zombies
    have hgall : g ∈ (gcZ s.d s.zombies).all := by simp [Disk.all, hg]
    have hgs : g ∈ s.d.segs := by
      rw [he] at hg; simp only [] at hg; rw [hp]; simp [hg]
    refine Or.inl ⟨hgs, ?_⟩
    apply get_applyAll_other
    intro op hop
    rcases gcOpsZ_mem hop with ⟨l, sz, rfl⟩ | ⟨x, hx, rfl⟩
    · simp [FsOp.names, aofName, rdbName]
    · simp only [FsOp.names, List.mem_singleton]
      exact gc_removed_ne hinv.dinv _ hx hgall
  | aofClose =>
    simp only [baseDisk, Disk.step] at hg
    simp only [baseOps, fsOps]
    exact closeLive_closed hinv.dinv hinv.files g hg
  | newAofWriter off =>
    have hg' : g ∈ s.d.closeLive.segs := by simpa [baseDisk, Disk.step] using hg
    simp only [baseOps, fsOps]
    -- the new file's name is no indexed segment's name
    have h1 := hinv.dinv.closeLive
    have hall1 : s.d.closeLive.all = s.d.closeLive.segs := by simp [Disk.all, closeLive_live]
    have hfresh : g.left ≠ off := by
      intro e
      simp only [Disk.okOp] at hok
      cases hlr : lastRight s.d.closeLive.segs with
      | none => rw [lastRight_eq_none.mp hlr] at hg'; cases hg'
      | some r =>
        rw [hlr] at hok
        have hle := contig_right_le_last (hall1 ▸ h1.contig) hg' hlr
        have hne := h1.nonempty g hg'
        have : 0 < g.data.length := List.length_pos_iff.mpr hne
        simp only [DSeg.right] at hle
        simp at hok
        omega
    rw [applyAll_append]
    have hextra : ((s.fs.applyAll (closeLiveOps s.d)).applyAll
        [FsOp.create (aofName off), FsOp.append (aofName off) fixHeader]).get (aofName g.left) =
        (s.fs.applyAll (closeLiveOps s.d)).get (aofName g.left) := by
      simp only [FS.applyAll, List.foldl_cons, List.foldl_nil]
      rw [get_apply_other _ _ _ (by simp only [FsOp.names, List.mem_singleton]; exact fun e => hfresh (aofName_inj e)),
          get_apply_other _ _ _ (by simp only [FsOp.names, List.mem_singleton]; exact fun e => hfresh (aofName_inj e))]
    rw [hextra]
    exact closeLive_closed hinv.dinv hinv.files g hg'
  | aofAppend chunk =>
    have hcne : chunk ≠ [] := hok
    cases hl : s.d.live with
    | none =>
      have e1 : (s.d.step (.aofAppend chunk)).1 = s.d := by simp [Disk.step, Disk.appendLive, hl]
      have e2 : fsOps s.d (.aofAppend chunk) = [] := by simp only [fsOps, hl]
      simp only [baseDisk, e1] at hg
      simp only [baseOps, e2]
      exact Or.inl ⟨hg, rfl⟩
    | some lv =>
      have hlt := live_left_ne hinv.dinv hl
      have hlvm : lv ∈ s.d.all := by simp [Disk.all, hl]
      obtain ⟨hdr0, hh0, hget0⟩ := hinv.files lv hlvm
      by_cases hrot : 16 + (lv.data ++ chunk).length > s.d.logSize
      · have e1 : (s.d.step (.aofAppend chunk)).1.segs = s.d.segs ++ [{ lv with data := lv.data ++ chunk }] := by
          simp only [Disk.step, Disk.appendLive, hl]
          rw [if_pos hrot]
          rfl
        have e2 : fsOps s.d (.aofAppend chunk) = [FsOp.append (aofName lv.left) chunk,
            FsOp.pwriteHdr (aofName lv.left) (closedHeader (lv.data ++ chunk)),
            FsOp.create (aofName (lv.left + (lv.data ++ chunk).length)),
            FsOp.append (aofName (lv.left + (lv.data ++ chunk).length)) fixHeader] := by
          simp only [fsOps, hl]
          rw [if_pos hrot]; rfl
        simp only [baseDisk, e1] at hg
        simp only [baseOps, e2]
        have hclen : 0 < chunk.length := List.length_pos_iff.mpr hcne
        rcases List.mem_append.mp hg with hm | hm
        · have := hlt g hm
          refine Or.inl ⟨hm, ?_⟩
          have n1 : aofName g.left ≠ aofName lv.left := by intro e; have := aofName_inj e; omega
          have n2 : aofName g.left ≠ aofName (lv.left + (lv.data ++ chunk).length) := by
            intro e; have := aofName_inj e; omega
          simp only [FS.applyAll, List.foldl_cons, List.foldl_nil]
          rw [get_apply_other _ _ _ (by simp only [FsOp.names, List.mem_singleton]; exact n2),
              get_apply_other _ _ _ (by simp only [FsOp.names, List.mem_singleton]; exact n2),
              get_apply_other _ _ _ (by simp only [FsOp.names, List.mem_singleton]; exact n1),
              get_apply_other _ _ _ (by simp only [FsOp.names, List.mem_singleton]; exact n1)]
        · simp at hm; subst hm
          right
          simp only [FS.applyAll, List.foldl_cons, List.foldl_nil]
          have hnewne : aofName lv.left ≠ aofName (lv.left + (lv.data ++ chunk).length) := by
            intro e; have := aofName_inj e; simp only [List.length_append] at this; omega
          rw [get_apply_other _ _ _ (by simp only [FsOp.names, List.mem_singleton]; exact hnewne),
              get_apply_other _ _ _ (by simp only [FsOp.names, List.mem_singleton]; exact hnewne)]
          have hget1 : (s.fs.apply (.append (aofName lv.left) chunk)).get (aofName lv.left) = some (hdr0 ++ (lv.data ++ chunk)) := by
            rw [get_apply_append_eq _ hget0, List.append_assoc]
          rw [get_apply_pwrite_eq _ hget1, closedHeader_length]
          congr 2
          rw [List.drop_append_of_le_length (by omega), List.drop_of_length_le (by omega)]; rfl
      · have e1 : (s.d.step (.aofAppend chunk)).1.segs = s.d.segs := by
          simp only [Disk.step, Disk.appendLive, hl]
          rw [if_neg hrot]
          rfl
        have e2 : fsOps s.d (.aofAppend chunk) = [FsOp.append (aofName lv.left) chunk] := by
          simp only [fsOps, hl]
          rw [if_neg hrot]; rfl
        simp only [baseDisk, e1] at hg
        simp only [baseOps, e2]
        have := hlt g hg
        refine Or.inl ⟨hg, ?_⟩
        simp only [FS.applyAll, List.foldl_cons, List.foldl_nil]
        exact get_apply_other _ _ _ (by
          simp only [FsOp.names, List.mem_singleton]; intro e; have := aofName_inj e; omega)
  | setRunId id =>
    exact Or.inl ⟨id_ops_segs s.d _ hok (Or.inl ⟨id, rfl⟩) g hg, rfl⟩
  | delRunId =>
    exact Or.inl ⟨id_ops_segs s.d _ hok (Or.inr rfl) g hg, rfl⟩
  | rdbAppend c =>
    obtain ⟨e1, e2⟩ := segs_same s.d (.rdbAppend c) (Or.inl ⟨c, rfl⟩)
    simp only [baseDisk, e1] at hg
    exact Or.inl ⟨hg, get_applyAll_other _ _ _ (fun op hop => e2 op hop g.left)⟩
  | rdbClose =>
    obtain ⟨e1, e2⟩ := segs_same s.d .rdbClose (Or.inr (Or.inl rfl))
    simp only [baseDisk, e1] at hg
    exact Or.inl ⟨hg, get_applyAll_other _ _ _ (fun op hop => e2 op hop g.left)⟩
  | openReader a b c =>
    obtain ⟨e1, e2⟩ := segs_same s.d (.openReader a b c) (Or.inr (Or.inr (Or.inl ⟨a, b, c, rfl⟩)))
    simp only [baseDisk, e1] at hg
    exact Or.inl ⟨hg, get_applyAll_other _ _ _ (fun op hop => e2 op hop g.left)⟩
  | read a b =>
    obtain ⟨e1, e2⟩ := segs_same s.d (.read a b) (Or.inr (Or.inr (Or.inr (Or.inl ⟨a, b, rfl⟩))))
    simp only [baseDisk, e1] at hg
    exact Or.inl ⟨hg, get_applyAll_other _ _ _ (fun op hop => e2 op hop g.left)⟩
  | advAcquire a =>
    obtain ⟨e1, e2⟩ := segs_same s.d (.advAcquire a) (Or.inr (Or.inr (Or.inr (Or.inr (Or.inl ⟨a, rfl⟩)))))
    simp only [baseDisk, e1] at hg
    exact Or.inl ⟨hg, get_applyAll_other _ _ _ (fun op hop => e2 op hop g.left)⟩
  | advRelease a =>
    obtain ⟨e1, e2⟩ := segs_same s.d (.advRelease a) (Or.inr (Or.inr (Or.inr (Or.inr (Or.inr (Or.inl ⟨a, rfl⟩))))))
    simp only [baseDisk, e1] at hg
    exact Or.inl ⟨hg, get_applyAll_other _ _ _ (fun op hop => e2 op hop g.left)⟩
  | closeReader a =>
    obtain ⟨e1, e2⟩ := segs_same s.d (.closeReader a) (Or.inr (Or.inr (Or.inr (Or.inr (Or.inr (Or.inr ⟨a, rfl⟩))))))
    simp only [baseDisk, e1] at hg
    exact Or.inl ⟨hg, get_applyAll_other _ _ _ (fun op hop => e2 op hop g.left)⟩

theorem all_of_live_none {d : Disk} (h : d.live = none) : d.all = d.segs := by simp [Disk.all, h]

theorem cinv_xstep {src : Nat → UInt8} {u t : List Nat} (s : XDisk) (x : XOp) (hinv : XInv src s) (hok : okX s x)
    (hsrc : ChunkOkX src s x) (h : CInv u t s) : CInv u (t ++ (xstep s x).1.zombies) (xstep s x).1 := by
  have hclose := cinv_xbase (u := u) (t := t) s .aofClose hinv trivial h
  have happ : ∀ chunk, chunk ≠ [] → CInv u (t ++ (xbase s (.aofAppend chunk)).1.zombies) (xbase s (.aofAppend chunk)).1 :=
    fun chunk hc => cinv_xbase s (.aofAppend chunk) hinv hc h
  -- the state after a rotation that failed: the older segments' files are untouched
  have hrot : ∀ (g : DSeg) (chunk : Bytes) (ops : List FsOp) (z' : List Nat), s.d.live = some g →
      16 + (g.data ++ chunk).length > s.d.logSize → OnAof g.left ops →
      ((s.fs.applyAll ops).get (aofName g.left) = some (closedHeader (g.data ++ chunk) ++ (g.data ++ chunk)) ∨ g.left ∈ z') →
      CInv u (t ++ z') ⟨(s.d.step (.aofAppend chunk)).1.closeLive, s.fs.applyAll ops, z'⟩ := by
    intro g chunk ops z' hl hcross hon hfile
    apply cinv_of h mem_t_append
    intro x hx hnt
    have hxa : x ∈ (s.d.step (.aofAppend chunk)).1.closeLive.all := by
      rw [all_of_live_none (closeLive_live _)]; exact hx
    rw [(rot_fail_all s.d g chunk hl hcross).1] at hxa
    rcases List.mem_append.mp hxa with hm | hm
    · have := live_left_ne hinv.dinv hl x hm
      exact Or.inl ⟨hm, hon.other _ (by omega)⟩
    · simp at hm; subst hm
      rcases hfile with hf | hz
      · exact Or.inr hf
      · exact absurd (List.mem_append.mpr (Or.inr hz)) hnt
  cases x with
  | op o => exact cinv_xbase s o hinv hok h
  | aofCloseHdrFail k =>
    simp only [xstep]
    cases hl : s.d.live with
    | none => exact hclose
    | some g =>
      simp only []
      split
      · exact hclose
      · rename_i hne
        apply cinv_of h mem_t_append
        intro x hx hnt
        have hsegs : s.d.closeLive.segs = s.d.segs ++ [g] := by
          unfold Disk.closeLive; rw [hl]; simp only []; rw [if_neg hne]
        rw [hsegs] at hx
        rcases List.mem_append.mp hx with hm | hm
        · have := live_left_ne hinv.dinv hl x hm
          exact Or.inl ⟨hm, (onAof_hdrs (hdrTornOps_all _ _ _)).other _ (by omega)⟩
        · simp at hm; subst hm
          exact absurd (List.mem_append.mpr (Or.inr (by simp))) hnt
  | aofAppendHdrFail chunk k =>
    simp only [xstep]
    cases hl : s.d.live with
    | none => exact happ chunk hok.1
    | some g =>
      simp only []
      split
      · rename_i hcross
        exact hrot g chunk _ _ hl hcross (onAof_append_hdrs _ _ (hdrTornOps_all _ _ _)) (Or.inr (by simp))
      · exact happ chunk hok.1
  | aofAppendOpenFail chunk =>
    simp only [xstep]
    cases hl : s.d.live with
    | none => exact happ chunk hok
    | some g =>
      simp only []
      split
      · rename_i hcross
        apply hrot g chunk _ _ hl hcross (onAof_append_hdrs _ _ (single_hdr_all _ _))
        left
        have hgm : g ∈ s.d.all := by simp [Disk.all, hl]
        obtain ⟨hdr0, hh0, hget0⟩ := hinv.files g hgm
        simp only [FS.applyAll, List.cons_append, List.nil_append, List.foldl_cons, List.foldl_nil]
        have hget1 : (s.fs.apply (.append (aofName g.left) chunk)).get (aofName g.left) = some (hdr0 ++ (g.data ++ chunk)) := by
          rw [get_apply_append_eq _ hget0, List.append_assoc]
        rw [get_apply_pwrite_eq _ hget1, closedHeader_length]
        congr 2
        rw [List.drop_append_of_le_length (by omega), List.drop_of_length_le (by omega)]; rfl
      · exact happ chunk hok
  | aofAppendShort chunk k =>
    have hcne : chunk ≠ [] := by
      intro e; rw [e] at hok; simp [okX] at hok
    simp only [xstep]
    cases hl : s.d.live with
    | none => exact happ chunk hcne
    | some g =>
      simp only []
      obtain ⟨hinv1, _⟩ := short_step s hinv g chunk k hl hok hsrc
      refine cinv_xbase _ .aofClose hinv1 trivial ?_
      apply cinv_of h (fun _ hm => hm)
      intro x hx _
      have hx' : x ∈ s.d.segs := hx
      have := live_left_ne hinv.dinv hl x hx'
      refine Or.inl ⟨hx', ?_⟩
      simp only [FS.applyAll, List.foldl_cons, List.foldl_nil]
      exact get_apply_other _ _ _ (by simp only [FsOp.names, List.mem_singleton]; intro e; have := aofName_inj e; omega)
  | aofCloseRmFail =>
    simp only [xstep]
    cases hl : s.d.live with
    | none => exact hclose
    | some g =>
      simp only []
      split
      · rename_i he
        apply cinv_of h mem_t_append
        intro x hx _
        have hsegs : s.d.closeLive.segs = s.d.segs := by
          unfold Disk.closeLive; rw [hl]; simp only []; rw [if_pos he]
        rw [hsegs] at hx
        exact Or.inl ⟨hx, rfl⟩
      · exact hclose
  | rdbCloseRmFail =>
    have hb := cinv_xbase (u := u) (t := t) s .rdbClose hinv trivial h
    simp only [xstep]
    cases hr : s.d.rdb with
    | none => exact hb
    | some r =>
      simp only []
      split
      · apply cinv_of h mem_t_append
        intro x hx _
        rw [(segs_same s.d .rdbClose (Or.inr (Or.inl rfl))).1] at hx
        exact Or.inl ⟨hx, rfl⟩
      · exact hb
  | rdbCommitFail chunk ren rmOk =>
    have hb := cinv_xbase (u := u) (t := t) s (.rdbAppend chunk) hinv hok h
    simp only [xstep]
    cases hr : s.d.rdb with
    | none => exact hb
    | some r =>
      simp only []
      split
      · apply cinv_of h mem_t_append
        intro x hx _
        rw [(segs_same s.d .rdbClose (Or.inr (Or.inl rfl))).1] at hx
        refine Or.inl ⟨hx, ?_⟩
        apply get_applyAll_other
        intro o ho
        rw [commitFail_okOps_names r chunk ren rmOk o ho]
        simp [aofName, rdbTmpName]
      · exact hb
  | gcRmFail stuck all =>
    simp only [xstep]
    apply cinv_of h mem_t_append
    intro x hx _
    obtain ⟨pre, segs', rdb', he, hp, _, _, _⟩ := gcZ_cases s.d s.zombies
    have hxall : x ∈ (gcZ s.d s.zombies).all := by simp only [Disk.all, List.mem_append]; exact Or.inl hx
    rw [he] at hx; simp only [] at hx
    refine Or.inl ⟨by rw [hp]; simp [hx], ?_⟩
    apply get_applyAll_other
    intro o ho
    rcases gcOpsZ_mem (mem_okOps_map ho) with ⟨l, sz, rfl⟩ | ⟨y, hy, rfl⟩
    · simp [FsOp.names, aofName, rdbName]
    · simp only [FsOp.names, List.mem_singleton]
      exact gc_removed_ne hinv.dinv _ hy hxall

/-- **after every script with faults** the invariant holds for the accumulated taint -/
theorem cinv_run {src : Nat → UInt8} {u : List Nat} : ∀ (xs : List XOp) (s : XDisk) (t : List Nat), wfX s xs →
    SrcOkX src s xs → XInv src s → CInv u t s → CInv u (taintRun t s xs) (xfinal s xs) := by
  intro xs
  induction xs with
  | nil => intro s t _ _ _ h; exact h
  | cons x rest ih =>
    intro s t hwf hsrc hinv h
    exact ih _ _ hwf.2 hsrc.2
      (xstep_ok (src := src) (P := fun _ _ _ => True) s x hinv hwf.1 hsrc.1 (fun _ _ _ _ _ _ => trivial)).inv
      (cinv_xstep s x hinv hwf.1 hsrc.1 h)

theorem cinv_init (u t : List Nat) (l m : Nat) : CInv u t (XDisk.init l m) := by
  intro g hg; simp [XDisk.init, Disk.init] at hg

/-- a script without fault steps taints nothing -/
theorem plain_zombies (s : XDisk) (o : DOp) (h : s.zombies = []) : (xbase s o).1.zombies = [] := by
  show zKeep (baseZombies s o) (baseDisk s o) = []
  have : baseZombies s o = [] := by
    cases o <;> simp [baseZombies, h]
  rw [this]; rfl

theorem taintRun_plain : ∀ (ops : List DOp) (s : XDisk), s.zombies = [] → taintRun [] s (ops.map XOp.op) = [] := by
  intro ops
  induction ops with
  | nil => intro s _; rfl
  | cons o rest ih =>
    intro s h
    have hz := plain_zombies s o h
    simp only [List.map_cons, taintRun, xstep]
    rw [hz, List.append_nil]
    exact ih _ hz

end GunYu.StoreFsX
