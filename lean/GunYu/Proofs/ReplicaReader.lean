/-
  Helper lemmas for Props/C16Reader.lean: what ONE reader of the C05 cache model delivers
  over a whole run of the leader's input.

  Disk backend (`GunYu.Store.Disk`), from C05's invariant `DInv` (Proofs/StoreDisk.lean):
  * `reader_step`   : how one step changes one reader (identity, ghost `start`, kind are
                      kept; a closed reader stays closed; a step that closes a reader does
                      not change what it delivered)
  * `runId_step`    : a step that changes the channel's label leaves no reader open
  * `RInv`, `RInv.run` : the run invariant, generic in the predicate `Q` on outputs

  Memory backend (`GunYu.Store.Mem`), from C05's `MemInv` / `SnapInv`:
  * `segOf`, `IsSrc`          : bytes of a source
  * `step_readers`            : the leader's input (writers, id operations) leaves the readers alone
  * `mem_reader_step`         : how one step changes one reader: what its copy loop wrote to the
                                pipe (the rest of the segment it holds), what its consumer took
  * `MemServes`, `MemServes.step` : the pipe protocol of one stream reader, one step
  * `KeepFrame`, `HeldSeg`, `Held`, `Held.step` : the heap facts C05's invariant lacks — a
                                segment a copy loop still holds after a reset took it out of the
                                index keeps its bytes and is found by `Mem.lookup`
-/
import GunYu.Model.Store
import GunYu.Proofs.StoreDisk
import GunYu.Proofs.StoreMem
import GunYu.Proofs.StoreMemInv
import GunYu.Proofs.StoreMemSnap

namespace GunYu.Store
open GunYu

/-! ### runs -/

theorem Disk.run_append (s : Disk) (a b : List DOp) : s.run (a ++ b) = (s.run a).run b := by
  induction a generalizing s with
  | nil => rfl
  | cons op rest ih => exact ih _

theorem Disk.wf_append (s : Disk) (a b : List DOp) : s.wf (a ++ b) ↔ s.wf a ∧ (s.run a).wf b := by
  induction a generalizing s with
  | nil => simp [Disk.wf, Disk.run]
  | cons op rest ih =>
    show (s.okOp op ∧ (s.step op).1.wf (rest ++ b)) ↔ (s.okOp op ∧ (s.step op).1.wf rest) ∧ _
    rw [ih]
    exact ⟨fun ⟨h1, h2, h3⟩ => ⟨⟨h1, h2⟩, h3⟩, fun ⟨⟨h1, h2⟩, h3⟩ => ⟨h1, h2, h3⟩⟩

/-! ### how one step changes one reader -/

/-- `r'` is what a step made of reader `r`: same identity, same ghost `start`, same kind;
    it is open only if `r` was; and if it is closed it has delivered exactly what `r` had
    (closing never delivers) -/
def Follows (r r' : DReader) : Prop :=
  r'.id = r.id ∧ r'.start = r.start ∧ r'.isAof = r.isAof ∧
  (r'.isOpen = true → r.isOpen = true) ∧ (r'.isOpen = false → r'.out = r.out)

theorem Follows.refl (r : DReader) : Follows r r := ⟨rfl, rfl, rfl, id, fun _ => rfl⟩

/-- `r'` is `r`, or `r` closed -/
def SameOrClosed (r r' : DReader) : Prop := r' = r ∨ r' = r.close

theorem SameOrClosed.follows {r r' : DReader} (h : SameOrClosed r r') : Follows r r' := by
  rcases h with h | h <;> subst h
  · exact Follows.refl _
  · exact ⟨rfl, rfl, rfl, fun h => absurd h (by simp [DReader.close]), fun _ => rfl⟩

theorem SameOrClosed.trans {a b c : DReader} (h1 : SameOrClosed a b) (h2 : SameOrClosed b c) :
    SameOrClosed a c := by
  rcases h1 with h1 | h1 <;> rcases h2 with h2 | h2 <;> subst h1 <;> subst h2
  · exact Or.inl rfl
  · exact Or.inr rfl
  · exact Or.inr rfl
  · exact Or.inr rfl

theorem map_sameOrClosed {rs : List DReader} {f : DReader → DReader}
    (hf : ∀ x, f x = x ∨ f x = x.close) {r : DReader} (hr : r ∈ rs) :
    ∃ r' ∈ rs.map f, SameOrClosed r r' :=
  ⟨f r, List.mem_map_of_mem hr, hf r⟩

theorem closeLive_sameOrClosed (s : Disk) {r : DReader} (hr : r ∈ s.readers) :
    ∃ r' ∈ s.closeLive.readers, SameOrClosed r r' := by
  unfold Disk.closeLive
  split
  · exact ⟨r, hr, Or.inl rfl⟩
  · rename_i g _
    split
    · exact map_sameOrClosed (f := fun x => if x.holds g.left then x.close else x)
        (fun x => by by_cases hx : x.holds g.left = true <;> simp [hx]) hr
    · exact ⟨r, hr, Or.inl rfl⟩

theorem closeAllForSwitch_sameOrClosed (s : Disk) {r : DReader} (hr : r ∈ s.readers) :
    ∃ r' ∈ s.closeAllForSwitch.readers, SameOrClosed r r' := by
  obtain ⟨r1, hr1, h1⟩ := map_sameOrClosed (f := DReader.close) (fun x => Or.inr rfl) hr
  have hs0 : r1 ∈ (({ s with readers := closeAllReaders s.readers } : Disk).dropWritingRdb).readers := by
    rw [(dropWritingRdb_fields _).2.2.1]; exact hr1
  obtain ⟨r2, hr2, h2⟩ := closeLive_sameOrClosed _ hs0
  exact ⟨r2, hr2, h1.trans h2⟩

/-- **one step, one reader.** Every reader is still there after any operation, with the
    same identity, ghost start offset and kind; no operation re-opens it; and an operation
    after which it is closed did not change what it had delivered. -/
theorem reader_step {s : Disk} (h : DInv s) (op : DOp) {r : DReader} (hr : r ∈ s.readers) :
    ∃ r' ∈ (s.step op).1.readers, Follows r r' := by
  have same : ∀ s' : Disk, s'.readers = s.readers → ∃ r' ∈ s'.readers, Follows r r' :=
    fun s' e => ⟨r, e ▸ hr, Follows.refl r⟩
  have viaSet : ∀ (r0 r1 : DReader), r0 ∈ s.readers → r1.id = r0.id → Follows r0 r1 →
      ∃ r' ∈ setReader s.readers r1, Follows r r' := by
    intro r0 r1 h0 hid hf
    by_cases e : r.id = r0.id
    · have : r = r0 := eq_of_mem_of_id h.ids hr h0 e
      subst this
      exact ⟨r1, mem_setReader_same hr hid, hf⟩
    · exact ⟨r, mem_setReader_other hr (by rw [hid]; exact e), Follows.refl r⟩
  cases op with
  | setRunId id =>
    simp only [Disk.step]
    split
    · obtain ⟨r', hr', h'⟩ := map_sameOrClosed (f := DReader.close) (fun x => Or.inr rfl) hr
      exact ⟨r', hr', h'.follows⟩
    · split
      · exact same _ rfl
      · obtain ⟨r2, hr2, h2⟩ := closeAllForSwitch_sameOrClosed s hr
        refine ⟨r2, ?_, h2.follows⟩
        show r2 ∈ s.closeAllForSwitch.rescan.readers
        rw [(rescan_hist _).2.2]; exact hr2
  | delRunId =>
    simp only [Disk.step]
    split
    · exact same _ rfl
    · obtain ⟨r', hr', h'⟩ := map_sameOrClosed (f := DReader.close) (fun x => Or.inr rfl) hr
      exact ⟨r', hr', h'.follows⟩
  | newRdbWriter off size =>
    obtain ⟨r', hr', h'⟩ := map_sameOrClosed (f := DReader.close) (fun x => Or.inr rfl) hr
    exact ⟨r', hr', h'.follows⟩
  | rdbAppend chunk =>
    apply same; simp only [Disk.step]; repeat' split
    all_goals rfl
  | rdbClose =>
    simp only [Disk.step]
    split
    · split
      · obtain ⟨r', hr', h'⟩ := map_sameOrClosed (f := fun x => if x.isAof then x else x.close)
          (fun x => by by_cases hx : x.isAof = true <;> simp [hx]) hr
        exact ⟨r', hr', h'.follows⟩
      · exact same _ rfl
    · exact same _ rfl
  | newAofWriter off =>
    simp only [Disk.step]
    obtain ⟨r1, hr1, h1⟩ := closeLive_sameOrClosed s hr
    obtain ⟨r2, hr2, h2⟩ := map_sameOrClosed (f := fun x => if x.isAof then x.close else x)
      (fun x => by by_cases hx : x.isAof = true <;> simp [hx]) hr1
    exact ⟨r2, hr2, (h1.trans h2).follows⟩
  | aofAppend chunk =>
    apply same
    simp only [Disk.step]
    have := appendLive_readers s chunk
    cases hp : s.appendLive chunk with
    | mk s' ok =>
      rw [hp] at this
      cases ok
      · simp
      · simpa using this
  | aofClose =>
    obtain ⟨r1, hr1, h1⟩ := closeLive_sameOrClosed s hr
    exact ⟨r1, hr1, h1.follows⟩
  | gc =>
    apply same; simp only [Disk.step, Disk.gc]; repeat' split
    all_goals rfl
  | openReader rid off crcOk =>
    simp only [Disk.step, Disk.open]
    repeat' split
    all_goals first
      | exact same _ rfl
      | exact ⟨r, by simp; left; exact hr, Follows.refl r⟩
  | read rid n =>
    simp only [Disk.step, Disk.read]
    cases hf : findReader s.readers rid with
    | none => exact same _ rfl
    | some r0 =>
      obtain ⟨h0, _⟩ := findReader_some hf
      simp only []
      by_cases ho : r0.isOpen = true
      · simp only [ho, Bool.not_true, Bool.false_eq_true, if_false]
        repeat' split
        all_goals first
          | exact same _ rfl
          | exact viaSet r0 _ h0 rfl ⟨rfl, rfl, rfl, fun _ => ho, fun hcl => by simp at hcl⟩
      · have : r0.isOpen = false := by simpa using ho
        simp only [this, Bool.not_false, if_true]
        exact same _ rfl
  | advAcquire rid =>
    simp only [Disk.step, Disk.advAcquire]
    cases hf : findReader s.readers rid with
    | none => exact same _ rfl
    | some r0 =>
      obtain ⟨h0, _⟩ := findReader_some hf
      simp only []
      split
      · exact viaSet r0 _ h0 rfl ⟨rfl, rfl, rfl, id, fun _ => rfl⟩
      · exact same _ rfl
  | advRelease rid =>
    simp only [Disk.step, Disk.advRelease]
    cases hf : findReader s.readers rid with
    | none => exact same _ rfl
    | some r0 =>
      obtain ⟨h0, _⟩ := findReader_some hf
      simp only []
      split
      · exact viaSet r0 _ h0 rfl ⟨rfl, rfl, rfl, id, fun _ => rfl⟩
      · exact same _ rfl
  | closeReader rid =>
    simp only [Disk.step, Disk.closeReader]
    cases hf : findReader s.readers rid with
    | none => exact same _ rfl
    | some r0 =>
      obtain ⟨h0, _⟩ := findReader_some hf
      simp only []
      exact viaSet r0 r0.close h0 rfl (SameOrClosed.follows (Or.inr rfl))

/-! ### the label -/

theorem closeLive_runId (s : Disk) : s.closeLive.runId = s.runId := by
  unfold Disk.closeLive
  split
  · rfl
  · split <;> rfl

theorem appendLive_runId (s : Disk) (chunk : Bytes) : (s.appendLive chunk).1.runId = s.runId := by
  unfold Disk.appendLive
  split
  · rfl
  · simp only []; split <;> rfl

/-- **a relabelled channel has no open reader.** If any reader is open after a step, the
    step did not change the channel's label: the label changes only by a first `setRunId`
    (which resets: every reader closed), a replication-id SWITCH (everything open on the old
    index is closed) or an id delete (reset). No hypothesis on the state. -/
theorem runId_step (s : Disk) (op : DOp) :
    ∀ r' ∈ (s.step op).1.readers, r'.isOpen = true → (s.step op).1.runId = s.runId := by
  have hreset : ∀ r ∈ s.reset.readers, r.isOpen = false := by
    intro r hr
    simp only [Disk.reset, closeAllReaders] at hr
    obtain ⟨y, _, rfl⟩ := List.mem_map.mp hr
    rfl
  intro r' hr' ho
  cases op with
  | setRunId id =>
    simp only [Disk.step] at hr' ⊢
    split
    · rename_i he
      simp only [he, if_true] at hr'
      rw [hreset r' hr'] at ho; cases ho
    · rename_i hne
      split
      · rfl
      · rename_i hid
        simp only [hne, hid, if_false] at hr'
        have hr2 : r' ∈ s.closeAllForSwitch.rescan.readers := hr'
        rw [(rescan_hist _).2.2] at hr2
        unfold Disk.closeAllForSwitch at hr2
        have : r'.isOpen = false := by
          refine closeLive_readers_closed _ ?_ r' hr2
          intro x hx
          rw [(dropWritingRdb_fields _).2.2.1] at hx
          have hx' : x ∈ closeAllReaders s.readers := hx
          simp only [closeAllReaders] at hx'
          obtain ⟨y, _, rfl⟩ := List.mem_map.mp hx'
          rfl
        rw [this] at ho; cases ho
  | delRunId =>
    simp only [Disk.step] at hr' ⊢
    split
    · rfl
    · rename_i hne
      simp only [hne, if_false] at hr'
      rw [hreset r' hr'] at ho; cases ho
  | newRdbWriter off size => rfl
  | rdbAppend chunk =>
    simp only [Disk.step]; repeat' split
    all_goals rfl
  | rdbClose =>
    simp only [Disk.step]; repeat' split
    all_goals rfl
  | newAofWriter off => exact closeLive_runId s
  | aofAppend chunk =>
    simp only [Disk.step]
    have := appendLive_runId s chunk
    cases hp : s.appendLive chunk with
    | mk s' ok =>
      rw [hp] at this
      cases ok
      · rfl
      · simpa using this
  | aofClose => exact closeLive_runId s
  | gc =>
    simp only [Disk.step, Disk.gc]; repeat' split
    all_goals rfl
  | openReader rid off crcOk =>
    simp only [Disk.step, Disk.open]; repeat' split
    all_goals rfl
  | read rid n =>
    simp only [Disk.step, Disk.read]; repeat' split
    all_goals rfl
  | advAcquire rid =>
    simp only [Disk.step, Disk.advAcquire]; repeat' split
    all_goals rfl
  | advRelease rid =>
    simp only [Disk.step, Disk.advRelease]; repeat' split
    all_goals rfl
  | closeReader rid =>
    simp only [Disk.step, Disk.closeReader]; repeat' split
    all_goals rfl

/-! ### the run invariant of one reader -/

/-- a property of every state of a run (the state before each operation, and the last one) -/
def AlongRun (P : Disk → Prop) : Disk → List DOp → Prop
  | s, [] => P s
  | s, op :: rest => P s ∧ AlongRun P (s.step op).1 rest

/-- in state `t`, if the channel is labelled `x`, every slice of the held history that
    starts at `off` satisfies `Q` -/
def SliceOk (Q : Bytes → Prop) (x : String) (off : Nat) (t : Disk) : Prop :=
  t.runId = x → t.hbase ≤ off → ∀ m, (off - t.hbase) + m ≤ t.hist.length →
    Q ((t.hist.drop (off - t.hbase)).take m)

/-- the invariant: reader `rid` exists, what it delivered satisfies `Q`, and while it is
    open the channel is labelled `x` and it is a stream reader opened at `off` -/
def RInv (Q : Bytes → Prop) (x : String) (rid off : Nat) (s : Disk) : Prop :=
  ∃ r ∈ s.readers, r.id = rid ∧ Q r.out ∧
    (r.isOpen = true → s.runId = x ∧ r.isAof = true ∧ r.start = off)

theorem RInv.step {Q : Bytes → Prop} {x : String} {rid off : Nat} {s : Disk} (hinv : DInv s)
    (op : DOp) (hok : s.okOp op) (h : RInv Q x rid off s) (hq : SliceOk Q x off (s.step op).1) :
    RInv Q x rid off (s.step op).1 := by
  obtain ⟨r, hr, hid, hQ, hopen⟩ := h
  obtain ⟨r', hr', hid', hstart, haof, ho, hout⟩ := reader_step hinv op hr
  have hinv' := hinv.step op hok
  refine ⟨r', hr', hid'.trans hid, ?_, ?_⟩
  · cases hoo : r'.isOpen with
    | false => rw [hout hoo]; exact hQ
    | true =>
      obtain ⟨hx, ha, hs⟩ := hopen (ho hoo)
      have hrun := runId_step s op r' hr' hoo
      obtain ⟨⟨g, hg, _, _, hpr⟩, _, hb, hp, hout'⟩ := (hinv'.readersOk r' hr' hoo).1 (haof.trans ha)
      have hge := (hinv'.embed g hg).2.1
      have hso : r'.start = off := hstart.trans hs
      rw [hout', hso]
      rw [hso] at hb hp
      exact hq (hrun.trans hx) hb _ (by omega)
  · intro hoo
    obtain ⟨hx, ha, hs⟩ := hopen (ho hoo)
    exact ⟨(runId_step s op r' hr' hoo).trans hx, haof.trans ha, hstart.trans hs⟩

/-- **the run invariant.** Over ANY continuation respecting C05's protocol, from a state
    satisfying C05's invariant. -/
theorem RInv.run {Q : Bytes → Prop} {x : String} {rid off : Nat} {s : Disk} (hinv : DInv s)
    (ops : List DOp) (hwf : s.wf ops) (h : RInv Q x rid off s)
    (hq : AlongRun (SliceOk Q x off) s ops) : RInv Q x rid off (s.run ops) := by
  induction ops generalizing s with
  | nil => exact h
  | cons op rest ih =>
    have hq' : AlongRun (SliceOk Q x off) (s.step op).1 rest := hq.2
    have hhead : SliceOk Q x off (s.step op).1 := by
      cases rest with
      | nil => exact hq'
      | cons _ _ => exact hq'.1
    exact ih (hinv.step op hwf.1) hwf.2 (h.step hinv op hwf.1 hhead) hq'

/-- opening a stream reader establishes the invariant -/
theorem RInv.open {Q : Bytes → Prop} {s : Disk} {rid off : Nat} {crc : Bool}
    (hopen : (s.open rid off crc).2 = Out.aof off) (hq : Q []) :
    RInv Q s.runId rid off (s.open rid off crc).1 := by
  unfold Disk.open at hopen ⊢
  by_cases h1 : (findReader s.readers rid).isSome = true
  · simp [h1] at hopen
  · by_cases h2 : (!s.inRange off) = true
    · simp [h1, h2] at hopen
    · simp only [h1, h2] at hopen ⊢
      cases hidx : indexAof s.all off with
      | some g =>
        dsimp only
        exact ⟨_, List.mem_append_right _ (List.mem_singleton.mpr rfl), rfl, hq, fun _ => ⟨rfl, rfl, rfl⟩⟩
      | none =>
        rw [hidx] at hopen
        dsimp only at hopen
        repeat' split at hopen
        all_goals cases hopen

/-- the reader with a given id is unique -/
theorem RInv.elim {Q : Bytes → Prop} {x : String} {rid off : Nat} {s : Disk} (hinv : DInv s)
    (h : RInv Q x rid off s) :
    ∀ r ∈ s.readers, r.id = rid → Q r.out ∧ (r.isOpen = true → s.runId = x) := by
  obtain ⟨r0, hr0, hid0, hQ, hopen⟩ := h
  intro r hr hid
  have : r = r0 := eq_of_mem_of_id hinv.ids hr hr0 (hid.trans hid0.symm)
  subst this
  exact ⟨hQ, fun ho => (hopen ho).1⟩

/-! ## Memory backend -/

/-! ### bytes of a source -/

/-- bytes `[b, b+n)` of a source (`GunYu.Props.C16.srcSeg` is the same term) -/
def segOf (src : Nat → UInt8) (b n : Nat) : Bytes := (List.range n).map (fun i => src (b + i))

@[simp] theorem segOf_length (src : Nat → UInt8) (b n : Nat) : (segOf src b n).length = n := by
  simp [segOf]

theorem segOf_append (src : Nat → UInt8) (b n m : Nat) :
    segOf src b (n + m) = segOf src b n ++ segOf src (b + n) m := by
  simp only [segOf, List.range_add, List.map_append, List.map_map]
  congr 1
  apply List.map_congr_left
  intro i _
  simp [Nat.add_assoc]

theorem segOf_take (src : Nat → UInt8) (b n k : Nat) (hk : k ≤ n) :
    (segOf src b n).take k = segOf src b k := by
  obtain ⟨m, rfl⟩ : ∃ m, n = k + m := ⟨n - k, by omega⟩
  rw [segOf_append, List.take_left' (by simp)]

theorem segOf_drop (src : Nat → UInt8) (b n k : Nat) (hk : k ≤ n) :
    (segOf src b n).drop k = segOf src (b + k) (n - k) := by
  obtain ⟨m, rfl⟩ : ∃ m, n = k + m := ⟨n - k, by omega⟩
  rw [segOf_append, List.drop_left' (by simp)]
  congr 1
  omega

theorem segOf_slice (src : Nat → UInt8) (b n k m : Nat) (h : k + m ≤ n) :
    ((segOf src b n).drop k).take m = segOf src (b + k) m := by
  rw [segOf_drop _ _ _ _ (by omega), segOf_take _ _ _ _ (by omega)]

theorem segOf_prefix (src : Nat → UInt8) (b n : Nat) (p : Bytes) (hp : p <+: segOf src b n) :
    p = segOf src b p.length := by
  have hl : p.length ≤ n := by simpa using hp.length_le
  have := List.prefix_iff_eq_take.mp hp
  rw [this, segOf_take _ _ _ _ hl]
  simp

/-- `l` is the source's bytes from offset `b` on -/
def IsSrc (src : Nat → UInt8) (b : Nat) (l : Bytes) : Prop := l = segOf src b l.length

theorem IsSrc.nil (src : Nat → UInt8) (b : Nat) : IsSrc src b [] := rfl

theorem IsSrc.append {src : Nat → UInt8} {b : Nat} {l m : Bytes} (hl : IsSrc src b l)
    (hm : IsSrc src (b + l.length) m) : IsSrc src b (l ++ m) := by
  unfold IsSrc at *
  rw [List.length_append, segOf_append, ← hl, ← hm]

theorem IsSrc.drop {src : Nat → UInt8} {b : Nat} {l : Bytes} (hl : IsSrc src b l) (k : Nat) :
    IsSrc src (b + k) (l.drop k) := by
  by_cases hk : k ≤ l.length
  · unfold IsSrc at *
    rw [List.length_drop]
    conv => lhs; rw [hl]
    exact segOf_drop _ _ _ _ hk
  · rw [List.drop_of_length_le (by omega)]
    exact IsSrc.nil _ _

theorem IsSrc.prefix {src : Nat → UInt8} {b : Nat} {l p : Bytes} (hl : IsSrc src b l) (hp : p <+: l) :
    IsSrc src b p := by
  unfold IsSrc at *
  rw [hl] at hp
  exact segOf_prefix _ _ _ _ hp

/-! ### writers leave the readers alone -/

theorem gc_readers (s : Mem) (need : Nat) : (s.gc need).readers = s.readers := by
  unfold Mem.gc
  split
  · rfl
  · obtain ⟨_, _, h, _⟩ := gcLoop_prefix need (s.segs.length + (match s.rdb with | some r => r.segs.length | none => 0) + 1) s
    exact h

theorem ensure_readers (s : Mem) (need : Nat) : (s.ensure need).1.readers = s.readers := by
  unfold Mem.ensure
  split
  · rfl
  · exact gc_readers s need

theorem aofRotate_readers (s : Mem) (cur : Nat) (seg : MSeg) (rotate : Bool) :
    (aofRotate s cur seg rotate).1.readers = s.readers := by
  unfold aofRotate; cases rotate <;> rfl

theorem appendAofLoop_readers (fuel : Nat) : ∀ (s : Mem) (buf : Bytes) (done : Nat),
    (Mem.appendAofLoop fuel s buf done).1.readers = s.readers := by
  induction fuel with
  | zero => intro s buf done; rfl
  | succ fuel ih =>
    intro s buf done
    rw [appendAofLoop_succ]
    split
    · rfl
    · cases haw : s.aofW with
      | none => rfl
      | some cur =>
        dsimp only
        cases hf : mFind s.segs cur with
        | none => rfl
        | some seg =>
          dsimp only
          split
          · dsimp only; rw [ensure_readers, aofRotate_readers]
          · rw [ih]
            show ((aofRotate s cur seg _).1.ensure _).1.readers = _
            rw [ensure_readers, aofRotate_readers]

theorem rdbRotate_readers (s : Mem) (r : MRdb) (seg : MSeg) (rotate : Bool) :
    (rdbRotate s r seg rotate).1.readers = s.readers := by
  unfold rdbRotate; cases rotate <;> rfl

theorem appendRdbLoop_readers (fuel : Nat) : ∀ (s : Mem) (buf : Bytes) (done : Nat),
    (Mem.appendRdbLoop fuel s buf done).1.readers = s.readers := by
  induction fuel with
  | zero => intro s buf done; rfl
  | succ fuel ih =>
    intro s buf done
    rw [appendRdbLoop_succ]
    split
    · rfl
    · cases hr : s.rdb with
      | none => rfl
      | some r =>
        dsimp only
        split
        · rfl
        · cases hf : mFind r.segs r.cur with
          | none => rfl
          | some seg =>
            dsimp only
            split
            · dsimp only; rw [ensure_readers, rdbRotate_readers]
            · split
              · dsimp only; rw [ensure_readers, rdbRotate_readers]
              · rw [ih]
                show ((rdbRotate s r seg _).1.ensure _).1.readers = _
                rw [ensure_readers, rdbRotate_readers]

theorem finishRdb_readers (s : Mem) (failed : Bool) : (s.finishRdb failed).readers = s.readers := by
  unfold Mem.finishRdb
  split
  · rfl
  · split
    · rfl
    · dsimp only
      split <;> rfl

theorem finishAof_readers (s : Mem) (cur : Nat) (isCurrent : Bool) :
    (s.finishAof cur isCurrent).readers = s.readers := by
  unfold Mem.finishAof
  dsimp only
  rw [gc_readers]
  repeat' split
  all_goals rfl

theorem retry_readers (s : Mem) : s.retry.1.readers = s.readers := by
  unfold Mem.retry
  cases hpa : s.pendA with
  | some buf =>
    dsimp only
    cases haw : s.aofW with
    | none => rfl
    | some cur =>
      dsimp only
      have h1 := appendAofLoop_readers (buf.length + 1) s buf 0
      split <;> exact h1
  | none =>
    dsimp only
    cases hpr : s.pendR with
    | none => rfl
    | some buf =>
      dsimp only
      cases hr : s.rdb with
      | none => rfl
      | some r =>
        dsimp only
        have h1 := appendRdbLoop_readers (buf.length + 1) s buf 0
        split
        · rfl
        · split
          · exact h1
          · split
            · split
              · rw [finishRdb_readers]; exact h1
              · exact h1
            · exact h1

/-- the operations of the leader's input (writers, id operations) -/
def MOp.isReaderOp : MOp → Bool
  | .openReader _ _ | .startReader _ | .copyStep _ | .consume _ _ | .closeReader _ => true
  | _ => false

theorem step_readers (s : Mem) (op : MOp) (hop : op.isReaderOp = false) : (s.step op).1.readers = s.readers := by
  cases op with
  | setRunId id => rfl
  | delRunId id => simp only [Mem.step]; split <;> rfl
  | newRdbWriter off size => rfl
  | rdbAppend chunk =>
    simp only [Mem.step]
    have h1 := appendRdbLoop_readers (chunk.length + 1) s chunk 0
    split
    · rfl
    · split
      · exact h1
      · split
        · split
          · rw [finishRdb_readers]; exact h1
          · exact h1
        · exact h1
  | rdbClose => exact finishRdb_readers s false
  | rdbFail => exact finishRdb_readers s true
  | newAofWriter off =>
    simp only [Mem.step]
    split
    · split
      · rfl
      · split
        · rw [finishAof_readers]
        · rfl
    · split
      · rw [finishAof_readers]
      · rfl
  | aofAppend chunk =>
    simp only [Mem.step]
    have h1 := appendAofLoop_readers (chunk.length + 1) s chunk 0
    split
    · rfl
    · split
      · rfl
      · split
        · exact h1
        · exact h1
  | aofClose =>
    simp only [Mem.step]
    split
    · exact finishAof_readers s _ true
    · rfl
  | retryAppend => exact retry_readers s
  | openReader rid off => simp [MOp.isReaderOp] at hop
  | startReader rid => simp [MOp.isReaderOp] at hop
  | copyStep rid => simp [MOp.isReaderOp] at hop
  | consume rid n => simp [MOp.isReaderOp] at hop
  | closeReader rid => simp [MOp.isReaderOp] at hop

/-! ### how one step changes one reader (memory) -/

theorem mFindReader_id {rs : List MReader} {rid : Nat} {r : MReader} (h : mFindReader rs rid = some r) :
    r.id = rid := by
  have := List.find?_some h
  simpa using this

theorem mFindReader_setReader_ne (rs : List MReader) (r1 : MReader) (rid : Nat) (h : r1.id ≠ rid) :
    mFindReader (mSetReader rs r1) rid = mFindReader rs rid := by
  unfold mFindReader mSetReader
  induction rs with
  | nil => rfl
  | cons a t ih =>
    simp only [List.map_cons, List.find?_cons]
    by_cases ha : a.id = r1.id
    · have h1 : (a.id == r1.id) = true := by simpa using ha
      have h2 : (r1.id == rid) = false := by simpa using h
      have h3 : (a.id == rid) = false := by rw [ha]; exact h2
      simp only [h1, if_true, h2, h3]
      exact ih
    · have h1 : (a.id == r1.id) = false := by simpa using ha
      simp only [h1, Bool.false_eq_true, if_false]
      cases (a.id == rid)
      · exact ih
      · rfl

theorem mFindReader_setReader_eq (rs : List MReader) (r0 r1 : MReader) (rid : Nat) (hid : r1.id = rid)
    (h : mFindReader rs rid = some r0) : mFindReader (mSetReader rs r1) rid = some r1 := by
  unfold mFindReader mSetReader at *
  induction rs with
  | nil => simp at h
  | cons a t ih =>
    simp only [List.map_cons, List.find?_cons] at h ⊢
    by_cases ha : a.id = rid
    · have h1 : (a.id == r1.id) = true := by simp [ha, hid]
      have h2 : (r1.id == rid) = true := by simpa using hid
      simp only [h1, if_true, h2]
    · have h1 : (a.id == r1.id) = false := by rw [hid]; simpa using ha
      have h3 : (a.id == rid) = false := by simpa using ha
      simp only [h1, Bool.false_eq_true, if_false, h3] at h ⊢
      exact ih h

theorem mFindReader_append_some (rs : List MReader) (x : MReader) (rid : Nat) {r : MReader}
    (h : mFindReader rs rid = some r) : mFindReader (rs ++ [x]) rid = some r := by
  unfold mFindReader at *
  rw [List.find?_append, h]; rfl

/-- what is in the reader's pipe: in the consumer's `bufio.Reader`, then in the pipe itself -/
def pipe (r : MReader) : Bytes := r.bbuf ++ r.buf

/-- the bytes an operation's reply hands to the caller -/
def delivered : Out → Bytes
  | .data d => d
  | _ => []

/-- the bytes the consumer of reader `rid` takes out of the pipe by operation `op` (reply `o`) -/
def taken (rid : Nat) (op : MOp) (o : Out) : Bytes :=
  match op with
  | .consume rid' _ => if rid' = rid then delivered o else []
  | _ => []

/-- `r'` is what one operation made of reader `r`: `bs` are the bytes its copy loop wrote to
    the pipe in this step (the rest of the segment it holds, from its position on), `t` the
    bytes its consumer took out of the pipe -/
structure ReaderStep (s : Mem) (r r' : MReader) (t bs : Bytes) : Prop where
  isAof : r'.isAof = r.isAof
  out : r'.out = r.out ++ bs
  pos : r'.pos = r.pos + bs.length
  pipe : t ++ pipe r' = pipe r ++ bs
  src : bs ≠ [] → r.released = false ∧ ∃ g, s.lookup r.seg = some g ∧ g.left ≤ r.pos ∧
    bs = g.data.drop (r.pos - g.left)
  rel : r'.released = false → r.released = false
  seg : r.isAof = true → r'.seg = r.seg ∨ ∃ nx ∈ s.segs, nx.sid = r'.seg

theorem ReaderStep.refl (s : Mem) (r : MReader) : ReaderStep s r r [] [] :=
  ⟨rfl, by simp, by simp, by simp, fun h => absurd rfl h, id, fun _ => Or.inl rfl⟩

/-- flags only -/
theorem ReaderStep.flags (s : Mem) (r r' : MReader) (ha : r'.isAof = r.isAof) (ho : r'.out = r.out)
    (hp : r'.pos = r.pos) (hb : r'.bbuf = r.bbuf) (hbu : r'.buf = r.buf) (hs : r'.seg = r.seg)
    (hrel : r'.released = false → r.released = false) : ReaderStep s r r' [] [] :=
  ⟨ha, by simp [ho], by simp [hp], by simp [GunYu.Store.pipe, hb, hbu], fun h => absurd rfl h, hrel, fun _ => Or.inl hs⟩

theorem mNextOf_mem {l : List MSeg} {sid : Nat} {nx : MSeg} (h : mNextOf l sid = some nx) : nx ∈ l := by
  obtain ⟨pre, g0, post, e, _⟩ := mNextOf_some h
  rw [e]; simp

theorem copyStep_reader (s : Mem) (rid' rid : Nat) {r : MReader} (hr : mFindReader s.readers rid = some r) :
    ∃ r' bs, mFindReader (s.copyStep rid').1.readers rid = some r' ∧ ReaderStep s r r' [] bs := by
  unfold Mem.copyStep
  cases hf : mFindReader s.readers rid' with
  | none => exact ⟨r, [], hr, ReaderStep.refl s r⟩
  | some r0 =>
    have hid0 := mFindReader_id hf
    -- replacing `r0` by `r1`
    have viaSet : ∀ (r1 : MReader), r1.id = r0.id → (∃ bs, ReaderStep s r0 r1 [] bs) →
        ∃ r' bs, mFindReader (mSetReader s.readers r1) rid = some r' ∧ ReaderStep s r r' [] bs := by
      intro r1 hid1 hstep
      by_cases e : rid' = rid
      · subst e
        rw [hr] at hf; cases hf
        obtain ⟨bs, hbs⟩ := hstep
        exact ⟨r1, bs, mFindReader_setReader_eq _ _ _ _ (hid1.trans hid0) hr, hbs⟩
      · exact ⟨r, [], by rw [mFindReader_setReader_ne _ _ _ (by rw [hid1, hid0]; exact e)]; exact hr,
          ReaderStep.refl s r⟩
    have fin : ∀ st, ∃ r' bs, mFindReader (mSetReader s.readers { r0 with st := st, released := true }) rid = some r' ∧
        ReaderStep s r r' [] bs :=
      fun st => viaSet _ rfl ⟨[], ReaderStep.flags s r0 _ rfl rfl rfl rfl rfl rfl (fun h => by simp at h)⟩
    dsimp only
    split
    · exact ⟨r, [], hr, ReaderStep.refl s r⟩
    · rename_i hrs
      simp only [Bool.or_eq_true, Bool.not_eq_true', not_or, Bool.not_eq_true, Bool.not_eq_false] at hrs
      split
      · exact fin _
      · cases hlk : s.lookup r0.seg with
        | none => exact fin _
        | some g =>
          dsimp only
          split
          case isFalse hraf =>
            have hra : r0.isAof = false := by simpa using hraf
            split
            · exact fin _
            · split
              · exact fin _
              · rename_i hpl
                split
                · rename_i hne
                  refine viaSet _ rfl ⟨g.data.drop (r0.pos - g.left), rfl, rfl, rfl, ?_, ?_, id, fun _ => Or.inl rfl⟩
                  · simp [GunYu.Store.pipe]
                  · intro _
                    exact ⟨hrs.1, g, hlk, by omega, rfl⟩
                · split
                  · split
                    · exact fin _
                    · refine viaSet _ rfl ⟨[], rfl, by simp, by simp, by simp [GunYu.Store.pipe],
                        fun h => absurd rfl h, id, fun h => by rw [hra] at h; cases h⟩
                  · exact ⟨r, [], hr, ReaderStep.refl s r⟩
          case isTrue hra =>
            split
            · exact fin _
            · rename_i hpl
              split
              · refine viaSet _ rfl ⟨g.data.drop (r0.pos - g.left), rfl, rfl, rfl, ?_, ?_, id, fun _ => Or.inl rfl⟩
                · simp [GunYu.Store.pipe]
                · intro _
                  exact ⟨hrs.1, g, hlk, by omega, rfl⟩
              · split
                · split
                  · exact fin _
                  · rename_i nx hnx
                    refine viaSet _ rfl ⟨[], rfl, by simp, by simp, by simp [GunYu.Store.pipe],
                      fun h => absurd rfl h, id, fun _ => Or.inr ⟨nx, mNextOf_mem hnx, rfl⟩⟩
                · exact ⟨r, [], hr, ReaderStep.refl s r⟩

theorem step_copyStep (s : Mem) (rid : Nat) : s.step (.copyStep rid) = ((s.copyStep rid).1, Out.ok) := rfl

/-- **one step, one reader (memory).** The reader `rid` (the first with that id) is still
    there after any operation; its copy loop wrote `bs` (possibly nothing) to the pipe, taken
    from the segment it holds at its position; its consumer took `taken …` out of the pipe. -/
theorem mem_reader_step (s : Mem) (op : MOp) (rid : Nat) {r : MReader} (hr : mFindReader s.readers rid = some r) :
    ∃ r' bs, mFindReader (s.step op).1.readers rid = some r' ∧
      ReaderStep s r r' (taken rid op (s.step op).2) bs := by
  have writer : op.isReaderOp = false → taken rid op (s.step op).2 = [] →
      ∃ r' bs, mFindReader (s.step op).1.readers rid = some r' ∧
        ReaderStep s r r' (taken rid op (s.step op).2) bs := by
    intro hop ht
    rw [ht]
    exact ⟨r, [], by rw [step_readers s op hop]; exact hr, ReaderStep.refl s r⟩
  -- replacing `r0` (the reader `rid'`) by `r1`
  have viaSet : ∀ (rid' : Nat) (r0 r1 : MReader) (t : Bytes), mFindReader s.readers rid' = some r0 → r1.id = r0.id →
      (rid' = rid → ReaderStep s r0 r1 t []) → (rid' ≠ rid → t = []) →
      ∃ r' bs, mFindReader (mSetReader s.readers r1) rid = some r' ∧ ReaderStep s r r' t bs := by
    intro rid' r0 r1 t hf hid1 hstep ht
    have hid0 := mFindReader_id hf
    by_cases e : rid' = rid
    · subst e
      rw [hr] at hf; cases hf
      exact ⟨r1, [], mFindReader_setReader_eq _ _ _ _ (hid1.trans hid0) hr, hstep rfl⟩
    · rw [ht e]
      exact ⟨r, [], by rw [mFindReader_setReader_ne _ _ _ (by rw [hid1, hid0]; exact e)]; exact hr,
        ReaderStep.refl s r⟩
  cases op with
  | setRunId id => exact writer rfl rfl
  | delRunId id => exact writer rfl rfl
  | newRdbWriter off size => exact writer rfl rfl
  | rdbAppend chunk => exact writer rfl rfl
  | rdbClose => exact writer rfl rfl
  | rdbFail => exact writer rfl rfl
  | newAofWriter off => exact writer rfl rfl
  | aofAppend chunk => exact writer rfl rfl
  | aofClose => exact writer rfl rfl
  | retryAppend => exact writer rfl rfl
  | openReader rid' off =>
    show ∃ r' bs, mFindReader (s.open rid' off).1.readers rid = some r' ∧ ReaderStep s r r' [] bs
    unfold Mem.open
    repeat' split
    all_goals first
      | exact ⟨r, [], hr, ReaderStep.refl s r⟩
      | exact ⟨r, [], mFindReader_append_some _ _ _ hr, ReaderStep.refl s r⟩
  | startReader rid' =>
    show ∃ r' bs, mFindReader (s.step (.startReader rid')).1.readers rid = some r' ∧ ReaderStep s r r' [] bs
    simp only [Mem.step]
    cases hf : mFindReader s.readers rid' with
    | none => exact ⟨r, [], hr, ReaderStep.refl s r⟩
    | some r0 =>
      dsimp only
      split
      · exact ⟨r, [], hr, ReaderStep.refl s r⟩
      · exact viaSet rid' r0 _ [] hf rfl (fun _ => ReaderStep.flags s r0 _ rfl rfl rfl rfl rfl rfl id) (fun _ => rfl)
  | copyStep rid' =>
    rw [step_copyStep]
    exact copyStep_reader s rid' rid hr
  | closeReader rid' =>
    show ∃ r' bs, mFindReader (s.closeReader rid').1.readers rid = some r' ∧ ReaderStep s r r' [] bs
    unfold Mem.closeReader
    cases hf : mFindReader s.readers rid' with
    | none => exact ⟨r, [], hr, ReaderStep.refl s r⟩
    | some r0 =>
      dsimp only
      split
      · exact viaSet rid' r0 _ [] hf rfl (fun _ => ReaderStep.flags s r0 _ rfl rfl rfl rfl rfl rfl id) (fun _ => rfl)
      · exact viaSet rid' r0 _ [] hf rfl
          (fun _ => ReaderStep.flags s r0 _ rfl rfl rfl rfl rfl rfl (fun h => by simp at h)) (fun _ => rfl)
  | consume rid' n =>
    show ∃ r' bs, mFindReader (s.consume rid' n).1.readers rid = some r' ∧
      ReaderStep s r r' (if rid' = rid then delivered (s.consume rid' n).2 else []) bs
    have hne : ∀ o : Out, rid' ≠ rid → (if rid' = rid then delivered o else []) = [] :=
      fun o h => by simp [h]
    unfold Mem.consume
    cases hf : mFindReader s.readers rid' with
    | none =>
      dsimp only
      have : (if rid' = rid then delivered Out.err else []) = [] := by split <;> rfl
      rw [this]
      exact ⟨r, [], hr, ReaderStep.refl s r⟩
    | some r0 =>
      dsimp only
      split
      · -- bytes waiting in the bufio buffer
        refine viaSet rid' r0 _ _ hf rfl (fun e => ?_) (hne _)
        simp only [e, if_true, delivered]
        exact ⟨rfl, by simp, by simp, by simp [GunYu.Store.pipe, ← List.append_assoc],
          fun h => absurd rfl h, id, fun _ => Or.inl rfl⟩
      · rename_i hbb
        have hbb' : r0.bbuf = [] := by simpa using hbb
        split
        · -- one pipe read refills the bufio buffer
          refine viaSet rid' r0 _ _ hf rfl (fun e => ?_) (hne _)
          simp only [e, if_true, delivered]
          exact ⟨rfl, by simp, by simp, by simp [GunYu.Store.pipe, hbb'], fun h => absurd rfl h, id,
            fun _ => Or.inl rfl⟩
        · split
          · split
            · have : (if rid' = rid then delivered Out.err else []) = [] := by split <;> rfl
              rw [this]
              exact ⟨r, [], hr, ReaderStep.refl s r⟩
            · have : (if rid' = rid then delivered Out.eof else []) = [] := by split <;> rfl
              rw [this]
              exact ⟨r, [], hr, ReaderStep.refl s r⟩
          · have : (if rid' = rid then delivered Out.none else []) = [] := by split <;> rfl
            rw [this]
            exact ⟨r, [], hr, ReaderStep.refl s r⟩

/-! ### the reader serves the source (memory), one step -/

/-- an indexed segment holds the source's bytes when the held history does -/
theorem indexed_isSrc {src : Nat → UInt8} {s : Mem} (hi : MemInv s)
    (hlab : s.hist = segOf src s.hbase s.hist.length) {g : MSeg} (hg : g ∈ s.segs) : IsSrc src g.left g.data := by
  have hst := hi.stream
  unfold StreamInv at hst
  obtain ⟨lo, hi', hd⟩ := hst.segOk g hg
  unfold IsSrc
  conv => lhs; rw [hd, hlab]
  unfold MSeg.right at hi'
  rw [segOf_slice _ _ _ _ _ (by omega)]
  congr 1
  omega

/-- a segment reader `rid` still holds although it is no longer indexed (a reset moved it
    out of the index) holds the source's bytes -/
def StaleOk (src : Nat → UInt8) (rid : Nat) (s : Mem) : Prop :=
  ∀ r, mFindReader s.readers rid = some r → r.isAof = true → r.released = false → mFind s.segs r.seg = none →
    ∀ g, s.lookup r.seg = some g → IsSrc src g.left g.data

/-- reader `rid` is a stream reader opened at `off`; everything its copy loop wrote to the
    pipe is the source's bytes from `off` on; `c` (what its consumer took so far) and what is
    still in the pipe make up what was written -/
def MemServes (src : Nat → UInt8) (rid off : Nat) (s : Mem) (c : Bytes) : Prop :=
  ∃ r, mFindReader s.readers rid = some r ∧ r.isAof = true ∧ IsSrc src off r.out ∧
    r.pos = off + r.out.length ∧ c ++ pipe r = r.out

theorem MemServes.step {src : Nat → UInt8} {rid off : Nat} {s : Mem} {c : Bytes} (hi : MemInv s)
    (hlab : s.hist = segOf src s.hbase s.hist.length) (hst : StaleOk src rid s)
    (h : MemServes src rid off s c) (op : MOp) :
    MemServes src rid off (s.step op).1 (c ++ taken rid op (s.step op).2) := by
  obtain ⟨r, hr, ha, hout, hpos, hc⟩ := h
  obtain ⟨r', bs, hr', st⟩ := mem_reader_step s op rid hr
  refine ⟨r', hr', st.isAof.trans ha, ?_, ?_, ?_⟩
  · rw [st.out]
    by_cases hbs : bs = []
    · rw [hbs, List.append_nil]; exact hout
    · obtain ⟨hrel, g, hlk, hle, hbs'⟩ := st.src hbs
      have hg : IsSrc src g.left g.data := by
        cases hm : mFind s.segs r.seg with
        | some g0 =>
          have : s.lookup r.seg = some g0 := by unfold Mem.lookup; rw [hm]
          rw [this] at hlk; cases hlk
          exact indexed_isSrc hi hlab (mFind_some hm).1
        | none => exact hst r hr ha hrel hm g hlk
      apply IsSrc.append hout
      rw [hbs', ← hpos]
      have := hg.drop (r.pos - g.left)
      rwa [show g.left + (r.pos - g.left) = r.pos by omega] at this
  · rw [st.pos, st.out, hpos, List.length_append]; omega
  · rw [List.append_assoc, st.pipe, ← List.append_assoc, hc, st.out]

/-- opening a stream reader: nothing written, nothing taken -/
theorem MemServes.open {src : Nat → UInt8} {s : Mem} {rid off : Nat}
    (hopen : (s.open rid off).2 = Out.aof off) : MemServes src rid off (s.open rid off).1 [] := by
  unfold Mem.open at hopen ⊢
  by_cases h1 : (mFindReader s.readers rid).isSome = true
  · simp [h1] at hopen
  · by_cases h2 : (!s.inRange (off : Int)) = true
    · simp [h1, h2] at hopen
    · simp only [h1, h2, Bool.false_eq_true, ↓reduceIte] at hopen ⊢
      have hnone : mFindReader s.readers rid = none := by simpa using h1
      cases hidx : s.indexAof off with
      | some g =>
        dsimp only
        refine ⟨{ id := rid, isAof := true, seg := g.sid, pos := off, size := 0, st := .running, started := false,
                  released := false, closedByUser := false, buf := [], bbuf := [], start := off, out := [] },
          ?_, rfl, IsSrc.nil _ _, rfl, rfl⟩
        unfold mFindReader at hnone ⊢
        rw [List.find?_append, hnone]
        simp
      | none =>
        rw [hidx] at hopen
        dsimp only at hopen
        repeat' split at hopen
        all_goals cases hopen

/-! ### segments a reader holds outside the index (the heap)

    C05's invariant does not speak of `heap`. What is needed here: a segment referenced by a
    copy loop is never collected; a reset (or the trimming of an empty segment) moves it to
    the FRONT of the heap with its bytes; nothing else with its identity is ever put in front
    of it; fresh segments get fresh identities. -/

theorem mFind_append (a b : List MSeg) (sid : Nat) : mFind (a ++ b) sid = (mFind a sid).or (mFind b sid) := by
  unfold mFind; exact List.find?_append

theorem mFind_cons_ne {g : MSeg} {sid : Nat} (l : List MSeg) (h : g.sid ≠ sid) : mFind (g :: l) sid = mFind l sid := by
  unfold mFind
  have : (g.sid == sid) = false := by simpa using h
  simp [this]

theorem mFind_cons_eq {g : MSeg} {sid : Nat} (l : List MSeg) (h : g.sid = sid) : mFind (g :: l) sid = some g := by
  unfold mFind
  simp [h]

theorem mFind_none_iff {l : List MSeg} {sid : Nat} : mFind l sid = none ↔ ∀ g ∈ l, g.sid ≠ sid := by
  unfold mFind
  rw [List.find?_eq_none]
  constructor
  · intro h g hg; simpa using h g hg
  · intro h g hg; simpa using h g hg

theorem mFind_map (f : MSeg → MSeg) (hf : ∀ g, (f g).sid = g.sid) (l : List MSeg) (sid : Nat) :
    mFind (l.map f) sid = (mFind l sid).map f := by
  induction l with
  | nil => rfl
  | cons a t ih =>
    by_cases h : a.sid = sid
    · rw [List.map_cons, mFind_cons_eq _ ((hf a).trans h), mFind_cons_eq _ h]; rfl
    · rw [List.map_cons, mFind_cons_ne _ (by rw [hf a]; exact h), mFind_cons_ne _ h, ih]

theorem mFind_mUpdate (l : List MSeg) (c : Nat) (f : MSeg → MSeg) (hf : ∀ g, (f g).sid = g.sid) (sid : Nat) :
    mFind (mUpdate l c f) sid = (mFind l sid).map (fun g => if g.sid == c then f g else g) := by
  unfold mUpdate
  exact mFind_map _ (fun g => by split <;> simp [hf]) l sid

theorem mFind_filter_ne (l : List MSeg) (c sid : Nat) (h : sid ≠ c) :
    mFind (l.filter (fun x => x.sid != c)) sid = mFind l sid := by
  induction l with
  | nil => rfl
  | cons a t ih =>
    simp only [List.filter_cons]
    by_cases ha : a.sid = c
    · have : (a.sid != c) = false := by simp [ha]
      simp only [this, Bool.false_eq_true, if_false]
      rw [ih, mFind_cons_ne _ (by rw [ha]; exact fun e => h e.symm)]
    · have : (a.sid != c) = true := by simpa using ha
      simp only [this, if_true]
      by_cases hs : a.sid = sid
      · rw [mFind_cons_eq _ hs, mFind_cons_eq _ hs]
      · rw [mFind_cons_ne _ hs, mFind_cons_ne _ hs, ih]

/-- no snapshot segment has the identity `sid` -/
def NoRdbSid (sid : Nat) (s : Mem) : Prop := ∀ rd, s.rdb = some rd → ∀ g ∈ rd.segs, g.sid ≠ sid

/-- a copy loop that has not returned holds the segment `sid` -/
def Referenced (sid : Nat) (s : Mem) : Prop := ∃ r ∈ s.readers, r.released = false ∧ r.seg = sid

theorem Referenced.mRefs_ne {sid : Nat} {s : Mem} (h : Referenced sid s) : mRefs s.readers sid ≠ 0 := by
  obtain ⟨r, hr, hrel, hs⟩ := h
  unfold mRefs
  have : 0 < (s.readers.filter (fun r => !r.released && r.seg == sid)).length :=
    List.length_filter_pos_iff.mpr ⟨r, hr, by simp [hrel, hs]⟩
  omega

/-- what an operation that does not move the segment `sid` out of the index leaves alone:
    identities stay fresh, no snapshot segment gets the identity, an indexed `sid` stays
    indexed, and for a non-indexed `sid` the first heap entry is the same -/
structure KeepFrame (sid : Nat) (s s' : Mem) : Prop where
  next : s.nextSid ≤ s'.nextSid
  readers : s'.readers = s.readers
  rdb : NoRdbSid sid s → NoRdbSid sid s'
  idx : mFind s.segs sid ≠ none → mFind s'.segs sid ≠ none
  stale : NoRdbSid sid s → mFind s.segs sid = none →
    mFind s'.segs sid = none ∧ mFind s'.heap sid = mFind s.heap sid

theorem KeepFrame.refl (sid : Nat) (s : Mem) : KeepFrame sid s s :=
  ⟨Nat.le_refl _, rfl, id, id, fun _ h => ⟨h, rfl⟩⟩

theorem KeepFrame.trans {sid : Nat} {a b c : Mem} (h1 : KeepFrame sid a b) (h2 : KeepFrame sid b c) :
    KeepFrame sid a c :=
  ⟨Nat.le_trans h1.next h2.next, h2.readers.trans h1.readers, fun h => h2.rdb (h1.rdb h),
   fun h => h2.idx (h1.idx h),
   fun hn h => by
     obtain ⟨x1, x2⟩ := h1.stale hn h
     obtain ⟨y1, y2⟩ := h2.stale (h1.rdb hn) x1
     exact ⟨y1, y2.trans x2⟩⟩

/-- the preconditions travel along a frame -/
theorem KeepFrame.pre {sid : Nat} {s s' : Mem} (h : KeepFrame sid s s') (hlt : sid < s.nextSid)
    (href : Referenced sid s) : sid < s'.nextSid ∧ Referenced sid s' := by
  refine ⟨Nat.lt_of_lt_of_le hlt h.next, ?_⟩
  obtain ⟨r, hr, h1, h2⟩ := href
  exact ⟨r, by rw [h.readers]; exact hr, h1, h2⟩

theorem gcAof_keep {s s' : Mem} (h : s.gcAof = some s') {sid : Nat} (href : Referenced sid s) :
    KeepFrame sid s s' := by
  unfold Mem.gcAof at h
  split at h
  · rename_i first rest hs
    split at h
    · rename_i hc
      simp only [Bool.and_eq_true, beq_iff_eq, bne_iff_ne, ne_eq] at hc
      simp at h; subst h
      have hne : first.sid ≠ sid := by
        intro e
        have := href.mRefs_ne
        rw [← e] at this
        exact this hc.1.2
      refine ⟨Nat.le_refl _, rfl, id, ?_, ?_⟩
      · intro hi; rw [hs, mFind_cons_ne _ hne] at hi; exact hi
      · intro _ hn
        rw [hs, mFind_cons_ne _ hne] at hn
        exact ⟨hn, mFind_cons_ne _ hne⟩
    · simp at h
  · simp at h

theorem gcRdb_keep {s s' : Mem} (h : s.gcRdb = some s') {sid : Nat} (href : Referenced sid s) :
    KeepFrame sid s s' := by
  unfold Mem.gcRdb at h
  split at h
  · rename_i r hr
    split at h
    · rename_i first rest hrs
      split at h
      · rename_i hc
        simp only [Bool.and_eq_true, beq_iff_eq] at hc
        simp at h; subst h
        have hne : first.sid ≠ sid := by
          intro e
          have := href.mRefs_ne
          rw [← e] at this
          exact this hc.2
        refine ⟨Nat.le_refl _, rfl, ?_, id, fun _ hn => ⟨hn, mFind_cons_ne _ hne⟩⟩
        intro hn rd hrd g hg
        dsimp only at hrd
        split at hrd
        · cases hrd
        · cases hrd
          exact hn r hr g (by rw [hrs]; exact List.mem_cons_of_mem _ hg)
      · simp at h
    · simp at h
  · simp at h

theorem gcOnce_keep {s s' : Mem} (h : s.gcOnce = some s') {sid : Nat} (href : Referenced sid s) :
    KeepFrame sid s s' := by
  unfold Mem.gcOnce at h
  split at h
  · rename_i s1 h1
    simp at h; subst h
    exact gcAof_keep h1 href
  · exact gcRdb_keep h href

theorem gcLoop_keep (need fuel : Nat) : ∀ (s : Mem) {sid : Nat}, sid < s.nextSid → Referenced sid s →
    KeepFrame sid s (Mem.gcLoop need fuel s) := by
  induction fuel with
  | zero => intro s sid _ _; exact KeepFrame.refl _ _
  | succ fuel ih =>
    intro s sid hlt href
    simp only [Mem.gcLoop]
    split
    · cases hg : s.gcOnce with
      | none => exact KeepFrame.refl _ _
      | some s' =>
        dsimp only
        have k1 := gcOnce_keep hg href
        obtain ⟨p1, p2⟩ := k1.pre hlt href
        exact k1.trans (ih s' p1 p2)
    · exact KeepFrame.refl _ _

theorem gc_keep (s : Mem) (need : Nat) {sid : Nat} (hlt : sid < s.nextSid) (href : Referenced sid s) :
    KeepFrame sid s (s.gc need) := by
  unfold Mem.gc
  split
  · exact KeepFrame.refl _ _
  · exact gcLoop_keep need _ s hlt href

theorem ensure_keep (s : Mem) (need : Nat) {sid : Nat} (hlt : sid < s.nextSid) (href : Referenced sid s) :
    KeepFrame sid s (s.ensure need).1 := by
  unfold Mem.ensure
  split
  · exact KeepFrame.refl _ _
  · exact gc_keep s need hlt href

theorem mUpdate_sid_ne {l : List MSeg} {c : Nat} {f : MSeg → MSeg} (hf : ∀ g, (f g).sid = g.sid) {sid : Nat}
    (h : ∀ g ∈ l, g.sid ≠ sid) : ∀ g ∈ mUpdate l c f, g.sid ≠ sid := by
  intro g hg
  obtain ⟨a, ha, rfl⟩ := mem_mUpdate.mp hg
  split
  · rw [hf]; exact h a ha
  · exact h a ha

theorem mFind_mUpdate_none {l : List MSeg} {c : Nat} {f : MSeg → MSeg} (hf : ∀ g, (f g).sid = g.sid) {sid : Nat} :
    mFind (mUpdate l c f) sid = none ↔ mFind l sid = none := by
  rw [mFind_mUpdate l c f hf sid]
  cases mFind l sid <;> simp

/-! #### the stream writer keeps the frame -/

theorem aofRotate_keep (s : Mem) (cur : Nat) (seg : MSeg) (rotate : Bool) {sid : Nat} (hlt : sid < s.nextSid) :
    KeepFrame sid s (aofRotate s cur seg rotate).1 := by
  unfold aofRotate
  cases rotate with
  | false => exact KeepFrame.refl _ _
  | true =>
    simp only [if_true]
    have hnew : ∀ g ∈ [({ sid := s.nextSid, left := seg.right, data := [], closed := false, next := none } : MSeg)],
        g.sid ≠ sid := by
      intro g hg; simp only [List.mem_singleton] at hg; subst hg; dsimp only; omega
    refine ⟨Nat.le_succ _, rfl, id, ?_, ?_⟩
    · intro hi
      dsimp only
      rw [mFind_append]
      intro hn
      have : mFind (mUpdate s.segs cur fun g => { g with closed := true }) sid = none := by
        cases hx : mFind (mUpdate s.segs cur fun g => { g with closed := true }) sid with
        | none => rfl
        | some y => rw [hx] at hn; simp at hn
      exact hi ((mFind_mUpdate_none (by intro _; rfl)).mp this)
    · intro _ hn
      dsimp only
      refine ⟨?_, rfl⟩
      rw [mFind_append, (mFind_mUpdate_none (by intro _; rfl)).mpr hn, mFind_none_iff.mpr hnew]
      rfl

theorem aofPut_keep (s2 : Mem) (cur1 : Nat) (piece : Bytes) (sid : Nat) : KeepFrame sid s2 (aofPut s2 cur1 piece) := by
  unfold aofPut
  refine ⟨Nat.le_refl _, rfl, id, ?_, ?_⟩
  · intro hi hn
    exact hi ((mFind_mUpdate_none (by intro _; rfl)).mp hn)
  · intro _ hn
    exact ⟨(mFind_mUpdate_none (by intro _; rfl)).mpr hn, rfl⟩

theorem appendAofLoop_keep (fuel : Nat) {sid : Nat} : ∀ (s : Mem) (buf : Bytes) (done : Nat),
    sid < s.nextSid → Referenced sid s → KeepFrame sid s (Mem.appendAofLoop fuel s buf done).1 := by
  induction fuel with
  | zero => intro s buf done _ _; exact KeepFrame.refl _ _
  | succ fuel ih =>
    intro s buf done hlt href
    rw [appendAofLoop_succ]
    split
    · exact KeepFrame.refl _ _
    · cases haw : s.aofW with
      | none => exact KeepFrame.refl _ _
      | some cur =>
        dsimp only
        cases hf : mFind s.segs cur with
        | none => exact KeepFrame.refl _ _
        | some seg =>
          dsimp only
          have k1 := aofRotate_keep s cur seg (pieceSpace s.logSize seg.data.length buf.length).2 hlt
          obtain ⟨p1, p2⟩ := k1.pre hlt href
          have k2 := ensure_keep (aofRotate s cur seg (pieceSpace s.logSize seg.data.length buf.length).2).1
            (pieceSpace s.logSize seg.data.length buf.length).1 p1 p2
          obtain ⟨q1, q2⟩ := k2.pre p1 p2
          split
          · exact k1.trans k2
          · have k3 := aofPut_keep ((aofRotate s cur seg (pieceSpace s.logSize seg.data.length buf.length).2).1.ensure
                (pieceSpace s.logSize seg.data.length buf.length).1).1
              (aofRotate s cur seg (pieceSpace s.logSize seg.data.length buf.length).2).2
              (buf.take (pieceSpace s.logSize seg.data.length buf.length).1) sid
            obtain ⟨t1, t2⟩ := k3.pre q1 q2
            exact ((k1.trans k2).trans k3).trans (ih _ _ _ t1 t2)

/-! #### the snapshot writer keeps the frame -/

theorem rdbRotate_keep (s : Mem) (r : MRdb) (seg : MSeg) (rotate : Bool) (hr : s.rdb = some r) {sid : Nat}
    (hlt : sid < s.nextSid) : KeepFrame sid s (rdbRotate s r seg rotate).1 := by
  unfold rdbRotate
  cases rotate with
  | false => exact KeepFrame.refl _ _
  | true =>
    simp only [if_true]
    refine ⟨Nat.le_succ _, rfl, ?_, id, fun _ hn => ⟨hn, rfl⟩⟩
    intro hn rd hrd g hg
    dsimp only at hrd
    cases hrd
    unfold rdbRotated at hg
    dsimp only at hg
    rcases List.mem_append.mp hg with h | h
    · exact mUpdate_sid_ne (by intro _; rfl) (hn r hr) g h
    · simp only [List.mem_singleton] at h; subst h; dsimp only; omega

theorem rdbPut_keep (s2 : Mem) (r2 : MRdb) (cur1 : Nat) (piece : Bytes) (hr : s2.rdb = some r2) (sid : Nat) :
    KeepFrame sid s2 (rdbPut s2 r2 cur1 piece) := by
  unfold rdbPut
  refine ⟨Nat.le_refl _, rfl, ?_, id, fun _ hn => ⟨hn, rfl⟩⟩
  intro hn rd hrd g hg
  dsimp only at hrd
  cases hrd
  exact mUpdate_sid_ne (by intro _; rfl) (hn r2 hr) g hg

theorem appendRdbLoop_keep (fuel : Nat) {sid : Nat} : ∀ (s : Mem) (buf : Bytes) (done : Nat),
    sid < s.nextSid → Referenced sid s → KeepFrame sid s (Mem.appendRdbLoop fuel s buf done).1 := by
  induction fuel with
  | zero => intro s buf done _ _; exact KeepFrame.refl _ _
  | succ fuel ih =>
    intro s buf done hlt href
    rw [appendRdbLoop_succ]
    split
    · exact KeepFrame.refl _ _
    · cases hr : s.rdb with
      | none => exact KeepFrame.refl _ _
      | some r =>
        dsimp only
        split
        · exact KeepFrame.refl _ _
        · cases hf : mFind r.segs r.cur with
          | none => exact KeepFrame.refl _ _
          | some seg =>
            dsimp only
            have k1 := rdbRotate_keep s r seg (pieceSpace s.logSize seg.data.length buf.length).2 hr hlt
            obtain ⟨p1, p2⟩ := k1.pre hlt href
            have k2 := ensure_keep (rdbRotate s r seg (pieceSpace s.logSize seg.data.length buf.length).2).1
              (pieceSpace s.logSize seg.data.length buf.length).1 p1 p2
            obtain ⟨q1, q2⟩ := k2.pre p1 p2
            split
            · exact k1.trans k2
            · split
              · exact k1.trans k2
              · rename_i r2 hr2
                have k3 := rdbPut_keep _ r2 (rdbRotate s r seg (pieceSpace s.logSize seg.data.length buf.length).2).2.cur
                  (buf.take (pieceSpace s.logSize seg.data.length buf.length).1) hr2 sid
                obtain ⟨t1, t2⟩ := k3.pre q1 q2
                exact ((k1.trans k2).trans k3).trans (ih _ _ _ t1 t2)

theorem finishRdb_keep (s : Mem) (failed : Bool) (sid : Nat) : KeepFrame sid s (s.finishRdb failed) := by
  unfold Mem.finishRdb
  cases hr : s.rdb with
  | none => exact KeepFrame.refl _ _
  | some r =>
    dsimp only
    split
    · exact KeepFrame.refl _ _
    · split
      · refine ⟨Nat.le_refl _, rfl, ?_, id, ?_⟩
        · intro _ rd hrd; cases hrd
        · intro hn hs
          refine ⟨hs, ?_⟩
          dsimp only
          rw [mFind_append, (mFind_mUpdate_none (by intro _; rfl)).mpr (mFind_none_iff.mpr (hn r hr))]
          rfl
      · refine ⟨Nat.le_refl _, rfl, ?_, id, fun _ hs => ⟨hs, rfl⟩⟩
        intro hn rd hrd g hg
        dsimp only at hrd
        cases hrd
        exact mUpdate_sid_ne (by intro _; rfl) (hn r hr) g hg

theorem withPend_keep (s : Mem) (a r : Option Bytes) (sid : Nat) : KeepFrame sid s { s with pendA := a, pendR := r } :=
  ⟨Nat.le_refl _, rfl, id, id, fun _ h => ⟨h, rfl⟩⟩

theorem retry_keep (s : Mem) {sid : Nat} (hlt : sid < s.nextSid) (href : Referenced sid s) :
    KeepFrame sid s s.retry.1 := by
  unfold Mem.retry
  cases hpa : s.pendA with
  | some buf =>
    dsimp only
    cases haw : s.aofW with
    | none => dsimp only; exact ⟨Nat.le_refl _, rfl, id, id, fun _ h => ⟨h, rfl⟩⟩
    | some cur =>
      dsimp only
      have h1 := appendAofLoop_keep (buf.length + 1) s buf 0 hlt href
      split
      · exact h1.trans ⟨Nat.le_refl _, rfl, id, id, fun _ h => ⟨h, rfl⟩⟩
      · exact h1.trans ⟨Nat.le_refl _, rfl, id, id, fun _ h => ⟨h, rfl⟩⟩
  | none =>
    dsimp only
    cases hpr : s.pendR with
    | none => exact KeepFrame.refl _ _
    | some buf =>
      dsimp only
      cases hr : s.rdb with
      | none =>
        dsimp only
        exact ⟨Nat.le_refl _, rfl, fun _ rd hrd => (by cases hrd), id, fun _ h => ⟨h, rfl⟩⟩
      | some r =>
        dsimp only
        have h1 := appendRdbLoop_keep (buf.length + 1) s buf 0 hlt href
        split
        · exact ⟨Nat.le_refl _, rfl, fun hn rd hrd g hg => (by cases hrd; exact hn r hr g hg), id,
            fun _ h => ⟨h, rfl⟩⟩
        · split
          · exact h1.trans ⟨Nat.le_refl _, rfl, id, id, fun _ h => ⟨h, rfl⟩⟩
          · have h2 : KeepFrame sid s { (Mem.appendRdbLoop (buf.length + 1) s buf 0).1 with pendR := none } :=
              h1.trans ⟨Nat.le_refl _, rfl, id, id, fun _ h => ⟨h, rfl⟩⟩
            split
            · split
              · exact h2.trans (finishRdb_keep _ false sid)
              · exact h2
            · exact h2

/-! #### what is known of the segment a reader holds -/

/-- the segment holds the source's bytes at its offsets -/
def Good (src : Nat → UInt8) (g : MSeg) : Prop := IsSrc src g.left g.data

/-- the indexed segment `sid` (if any) is good -/
def IdxGood (src : Nat → UInt8) (sid : Nat) (s : Mem) : Prop := ∀ g, mFind s.segs sid = some g → Good src g

/-- the identity `sid` is not a snapshot segment's, and if it is not indexed, the heap entry
    `Mem.lookup` finds for it is good -/
structure HeldSeg (src : Nat → UInt8) (sid : Nat) (s : Mem) : Prop where
  noRdb : NoRdbSid sid s
  heap : mFind s.segs sid = none → ∀ g, mFind s.heap sid = some g → Good src g

theorem HeldSeg.keep {src : Nat → UInt8} {sid : Nat} {s s' : Mem} (h : HeldSeg src sid s)
    (k : KeepFrame sid s s') : HeldSeg src sid s' :=
  ⟨k.rdb h.noRdb, fun hn g hg => by
    by_cases hs : mFind s.segs sid = none
    · obtain ⟨_, e⟩ := k.stale h.noRdb hs
      rw [e] at hg
      exact h.heap hs g hg
    · exact absurd hn (k.idx hs)⟩

theorem mCloseAll_eq_map (l : List MSeg) : mCloseAll l = l.map (fun g => { g with closed := true }) := rfl

theorem HeldSeg.reset {src : Nat → UInt8} {sid : Nat} {s : Mem} (h : HeldSeg src sid s)
    (hidx : IdxGood src sid s) : HeldSeg src sid s.reset := by
  refine ⟨fun rd hrd => (by cases hrd), fun _ g hg => ?_⟩
  have hg' : mFind (mCloseAll (s.segs ++ (match s.rdb with | some r => r.segs | none => [])) ++ s.heap) sid = some g := hg
  rw [mFind_append, mCloseAll_eq_map, mFind_map (fun g => ({ g with closed := true } : MSeg)) (fun _ => rfl),
    mFind_append] at hg'
  have hrd : mFind (match s.rdb with | some r => r.segs | none => []) sid = none := by
    cases hr : s.rdb with
    | none => rfl
    | some r => exact mFind_none_iff.mpr (h.noRdb r hr)
  rw [hrd] at hg'
  cases hm : mFind s.segs sid with
  | some g0 =>
    rw [hm] at hg'
    simp at hg'
    subst hg'
    exact hidx g0 hm
  | none =>
    rw [hm] at hg'
    simp at hg'
    exact h.heap hm g hg'

theorem HeldSeg.finishAof {src : Nat → UInt8} {sid : Nat} {s : Mem} (h : HeldSeg src sid s)
    (hlt : sid < s.nextSid) (href : Referenced sid s) (cur : Nat) (isCurrent : Bool) :
    HeldSeg src sid (s.finishAof cur isCurrent) := by
  unfold Mem.finishAof
  dsimp only
  -- after closing the segment
  have hheap : ∀ g', mFind (mUpdate s.heap cur (fun g => ({ g with closed := true } : MSeg))) sid = some g' →
      ∃ g, mFind s.heap sid = some g ∧ g'.left = g.left ∧ g'.data = g.data := by
    intro g' hg'
    rw [mFind_mUpdate _ _ (fun g => ({ g with closed := true } : MSeg)) (fun _ => rfl)] at hg'
    cases hm : mFind s.heap sid with
    | none => rw [hm] at hg'; simp at hg'
    | some g =>
      rw [hm] at hg'
      simp only [Option.map_some, Option.some.injEq] at hg'
      subst hg'
      refine ⟨g, rfl, ?_, ?_⟩ <;> split <;> rfl
  have base : HeldSeg src sid (finishAofClosed s cur (if isCurrent then none else s.aofW)) := by
    unfold finishAofClosed
    refine ⟨h.noRdb, fun hn g' hg' => ?_⟩
    obtain ⟨g, hg, e1, e2⟩ := hheap g' hg'
    have := h.heap ((mFind_mUpdate_none (by intro _; rfl)).mp hn) g hg
    unfold Good at *
    rw [e1, e2]; exact this
  have hgc : ∀ s2 : Mem, s2.nextSid = s.nextSid → s2.readers = s.readers → HeldSeg src sid s2 →
      HeldSeg src sid (s2.gc 0) := by
    intro s2 e1 e2 h2
    obtain ⟨r, hr, x1, x2⟩ := href
    exact h2.keep (gc_keep s2 0 (by rw [e1]; exact hlt) ⟨r, by rw [e2]; exact hr, x1, x2⟩)
  cases hf : mFind (mUpdate s.segs cur (fun g => { g with closed := true })) cur with
  | none => exact hgc _ rfl rfl base
  | some g =>
    dsimp only
    split
    · rename_i hemp
      refine hgc _ rfl rfl ?_
      have hgs : g.sid = cur := (mFind_some hf).2
      have hgd : g.data = [] := by simpa using hemp
      by_cases hsc : sid = cur
      · -- the reader's own (empty) segment is trimmed: it goes to the front of the heap
        refine ⟨h.noRdb, fun _ g' hg' => ?_⟩
        have hg'' : mFind (g :: mUpdate s.heap cur (fun g => ({ g with closed := true } : MSeg))) sid = some g' := hg'
        rw [mFind_cons_eq _ (hgs.trans hsc.symm)] at hg''
        cases hg''
        unfold Good
        rw [hgd]; exact IsSrc.nil _ _
      · refine ⟨h.noRdb, fun hn g' hg' => ?_⟩
        have hn' : mFind ((mUpdate s.segs cur (fun g => ({ g with closed := true } : MSeg))).filter
            (fun x => x.sid != cur)) sid = none := hn
        rw [mFind_filter_ne _ _ _ hsc] at hn'
        have hg'' : mFind (g :: mUpdate s.heap cur (fun g => ({ g with closed := true } : MSeg))) sid = some g' := hg'
        rw [mFind_cons_ne _ (by rw [hgs]; exact fun e => hsc e.symm)] at hg''
        exact base.heap hn' g' hg''
    · exact hgc _ rfl rfl base

theorem mLastRight_none {l : List MSeg} (h : mLastRight l = none) : l = [] := by
  induction l with
  | nil => rfl
  | cons a t ih =>
    cases t with
    | nil => simp [mLastRight] at h
    | cons b u =>
      have : mLastRight (a :: b :: u) = mLastRight (b :: u) := rfl
      rw [this] at h
      exact absurd (ih h) (by simp)

/-- a state that differs only in fields the frame does not mention -/
theorem HeldSeg.congr {src : Nat → UInt8} {sid : Nat} {s s' : Mem} (h : HeldSeg src sid s)
    (e1 : s'.rdb = s.rdb) (e2 : s'.segs = s.segs) (e3 : s'.heap = s.heap) : HeldSeg src sid s' :=
  ⟨fun rd hrd => h.noRdb rd (e1 ▸ hrd), fun hn g hg => h.heap (e2 ▸ hn) g (e3 ▸ hg)⟩

/-- a fresh segment is pushed on the index -/
theorem HeldSeg.push {src : Nat → UInt8} {sid : Nat} {s s' : Mem} (h : HeldSeg src sid s) (seg : MSeg)
    (hne : seg.sid ≠ sid) (e1 : s'.rdb = s.rdb) (e2 : s'.segs = s.segs ++ [seg]) (e3 : s'.heap = s.heap) :
    HeldSeg src sid s' := by
  refine ⟨fun rd hrd => h.noRdb rd (e1 ▸ hrd), fun hn g hg => ?_⟩
  rw [e2, mFind_append, mFind_cons_ne _ hne] at hn
  have : mFind s.segs sid = none := by
    cases hm : mFind s.segs sid with
    | none => rfl
    | some y => rw [hm] at hn; simp [mFind] at hn
  exact h.heap this g (e3 ▸ hg)

/-- **the leader's input keeps what the reader holds.** Every writer / id operation: the
    segment `sid`, held by a copy loop that has not returned, keeps being what `HeldSeg` says. -/
theorem HeldSeg.step_writer {src : Nat → UInt8} {sid : Nat} {s : Mem} (h : HeldSeg src sid s)
    (hidx : IdxGood src sid s) (hlt : sid < s.nextSid) (href : Referenced sid s) (op : MOp)
    (hop : op.isReaderOp = false) : HeldSeg src sid (s.step op).1 := by
  cases op with
  | setRunId id => exact h.congr rfl rfl rfl
  | delRunId id =>
    simp only [Mem.step]
    split
    · exact h
    · exact (h.reset hidx).congr rfl rfl rfl
  | newRdbWriter off size =>
    have hr := h.reset hidx
    refine ⟨fun rd hrd g hg => ?_, hr.heap⟩
    simp only [Mem.step] at hrd
    cases hrd
    simp only [List.mem_singleton] at hg
    subst hg
    show s.reset.nextSid ≠ sid
    have : s.reset.nextSid = s.nextSid := rfl
    omega
  | rdbAppend chunk =>
    simp only [Mem.step]
    have k1 := appendRdbLoop_keep (chunk.length + 1) s chunk 0 hlt href
    split
    · exact h
    · split
      · exact (h.keep k1).congr rfl rfl rfl
      · split
        · split
          · exact (h.keep k1).keep (finishRdb_keep _ false sid)
          · exact h.keep k1
        · exact h.keep k1
  | rdbClose => exact h.keep (finishRdb_keep s false sid)
  | rdbFail => exact h.keep (finishRdb_keep s true sid)
  | newAofWriter off =>
    simp only [Mem.step]
    have hfresh : s.nextSid ≠ sid := by omega
    cases hlr : mLastRight s.segs with
    | some r =>
      dsimp only
      split
      · exact h
      · obtain ⟨r0, hr0, x1, x2⟩ := href
        split
        · refine HeldSeg.finishAof ?_ ?_ ?_ _ false
          · exact h.push _ hfresh rfl rfl rfl
          · exact Nat.lt_succ_of_lt hlt
          · exact ⟨r0, hr0, x1, x2⟩
        · exact h.push _ hfresh rfl rfl rfl
    | none =>
      dsimp only
      have hnil := mLastRight_none hlr
      obtain ⟨r0, hr0, x1, x2⟩ := href
      have e2 : [({ sid := s.nextSid, left := off, data := [], closed := false, next := none } : MSeg)] =
          s.segs ++ [{ sid := s.nextSid, left := off, data := [], closed := false, next := none }] := by
        rw [hnil]; rfl
      split
      · refine HeldSeg.finishAof ?_ ?_ ?_ _ false
        · exact h.push _ hfresh rfl e2 rfl
        · exact Nat.lt_succ_of_lt hlt
        · exact ⟨r0, hr0, x1, x2⟩
      · exact h.push _ hfresh rfl e2 rfl
  | aofAppend chunk =>
    simp only [Mem.step]
    have k1 := appendAofLoop_keep (chunk.length + 1) s chunk 0 hlt href
    split
    · exact h
    · split
      · exact h
      · split
        · exact (h.keep k1).congr rfl rfl rfl
        · exact h.keep k1
  | aofClose =>
    simp only [Mem.step]
    split
    · exact h.finishAof hlt href _ true
    · exact h
  | retryAppend => exact h.keep (retry_keep s hlt href)
  | openReader rid off => simp [MOp.isReaderOp] at hop
  | startReader rid => simp [MOp.isReaderOp] at hop
  | copyStep rid => simp [MOp.isReaderOp] at hop
  | consume rid n => simp [MOp.isReaderOp] at hop
  | closeReader rid => simp [MOp.isReaderOp] at hop

/-- reader operations leave the index, the snapshot and the heap alone -/
theorem step_index_readerOp (s : Mem) (op : MOp) (hop : op.isReaderOp = true) :
    (s.step op).1.rdb = s.rdb ∧ (s.step op).1.segs = s.segs ∧ (s.step op).1.heap = s.heap := by
  cases op with
  | openReader rid off =>
    show (s.open rid off).1.rdb = _ ∧ (s.open rid off).1.segs = _ ∧ (s.open rid off).1.heap = _
    unfold Mem.open
    repeat' split
    all_goals exact ⟨rfl, rfl, rfl⟩
  | startReader rid =>
    simp only [Mem.step]
    repeat' split
    all_goals exact ⟨rfl, rfl, rfl⟩
  | copyStep rid =>
    rw [step_copyStep]
    show (s.copyStep rid).1.rdb = _ ∧ (s.copyStep rid).1.segs = _ ∧ (s.copyStep rid).1.heap = _
    unfold Mem.copyStep
    dsimp only
    repeat' split
    all_goals exact ⟨rfl, rfl, rfl⟩
  | consume rid n =>
    show (s.consume rid n).1.rdb = _ ∧ (s.consume rid n).1.segs = _ ∧ (s.consume rid n).1.heap = _
    unfold Mem.consume
    repeat' split
    all_goals exact ⟨rfl, rfl, rfl⟩
  | closeReader rid =>
    show (s.closeReader rid).1.rdb = _ ∧ (s.closeReader rid).1.segs = _ ∧ (s.closeReader rid).1.heap = _
    unfold Mem.closeReader
    repeat' split
    all_goals exact ⟨rfl, rfl, rfl⟩
  | setRunId id => simp [MOp.isReaderOp] at hop
  | delRunId id => simp [MOp.isReaderOp] at hop
  | newRdbWriter off size => simp [MOp.isReaderOp] at hop
  | rdbAppend chunk => simp [MOp.isReaderOp] at hop
  | rdbClose => simp [MOp.isReaderOp] at hop
  | rdbFail => simp [MOp.isReaderOp] at hop
  | newAofWriter off => simp [MOp.isReaderOp] at hop
  | aofAppend chunk => simp [MOp.isReaderOp] at hop
  | aofClose => simp [MOp.isReaderOp] at hop
  | retryAppend => simp [MOp.isReaderOp] at hop

/-- what is known of the segment the stream reader `rid` holds while its copy loop runs -/
def Held (src : Nat → UInt8) (rid : Nat) (s : Mem) : Prop :=
  ∀ r, mFindReader s.readers rid = some r → r.isAof = true → r.released = false → HeldSeg src r.seg s

/-- **`Held` is kept by every operation** from a state satisfying C05's invariants whose held
    history is the source's. -/
theorem Held.step {src : Nat → UInt8} {rid : Nat} {s : Mem} (hfull : FullInv s)
    (hlab : s.hist = segOf src s.hbase s.hist.length) {r : MReader} (hr : mFindReader s.readers rid = some r)
    (h : Held src rid s) (op : MOp) : Held src rid (s.step op).1 := by
  intro r' hr' ha' hrel'
  obtain ⟨r'', bs, hr'', st⟩ := mem_reader_step s op rid hr
  rw [hr'] at hr''; cases hr''
  have ha : r.isAof = true := st.isAof ▸ ha'
  have hrel : r.released = false := st.rel hrel'
  have hs := h r hr ha hrel
  by_cases hop : op.isReaderOp = true
  · obtain ⟨e1, e2, e3⟩ := step_index_readerOp s op hop
    rcases st.seg ha with hseg | ⟨nx, hnx, hseg⟩
    · rw [hseg]; exact hs.congr e1 e2 e3
    · rw [← hseg]
      refine ⟨fun rd hrd g hg => ?_, fun hn => ?_⟩
      · rw [e1] at hrd
        exact fun e => hfull.2.disj rd hrd nx hnx g hg e.symm
      · rw [e2] at hn
        exact absurd rfl (mFind_none_iff.mp hn nx hnx)
  · have hop' : op.isReaderOp = false := by simpa using hop
    have : r' = r := by
      rw [step_readers s op hop', hr] at hr'; cases hr'; rfl
    subst this
    have hst := hfull.1.stream
    unfold StreamInv at hst
    have hm := mFindReader_mem hr
    refine hs.step_writer ?_ (hst.readers _ hm ha).1 ⟨_, hm, hrel, rfl⟩ op hop'
    intro g hg
    exact indexed_isSrc hfull.1 hlab (mFind_some hg).1

/-- `Held` gives what the one-step lemma `MemServes.step` asks of non-indexed segments -/
theorem Held.staleOk {src : Nat → UInt8} {rid : Nat} {s : Mem} (h : Held src rid s) : StaleOk src rid s := by
  intro r hr ha hrel hm g hlk
  have hs := h r hr ha hrel
  unfold Mem.lookup at hlk
  rw [hm] at hlk
  dsimp only at hlk
  cases hrd : s.rdb with
  | none =>
    rw [hrd] at hlk
    exact hs.heap hm g hlk
  | some rd =>
    rw [hrd] at hlk
    dsimp only at hlk
    rw [mFind_none_iff.mpr (hs.noRdb rd hrd)] at hlk
    exact hs.heap hm g hlk

/-- a freshly opened stream reader holds an indexed segment -/
theorem Held.open {src : Nat → UInt8} {s : Mem} (hfull : FullInv s) {rid off : Nat}
    (hopen : (s.open rid off).2 = Out.aof off) : Held src rid (s.open rid off).1 := by
  have hst := hfull.1.stream
  unfold StreamInv at hst
  unfold Mem.open at hopen ⊢
  by_cases h1 : (mFindReader s.readers rid).isSome = true
  · simp [h1] at hopen
  · by_cases h2 : (!s.inRange (off : Int)) = true
    · simp [h1, h2] at hopen
    · simp only [h1, h2, Bool.false_eq_true, ↓reduceIte] at hopen ⊢
      have hnone : mFindReader s.readers rid = none := by simpa using h1
      cases hidx : s.indexAof off with
      | some g =>
        dsimp only
        obtain ⟨hg, _, _⟩ := mem_indexAof_some hst.contig hidx
        intro r hr _ _
        have : r = { id := rid, isAof := true, seg := g.sid, pos := off, size := 0, st := .running, started := false,
                     released := false, closedByUser := false, buf := [], bbuf := [], start := off, out := [] } := by
          unfold mFindReader at hnone hr
          dsimp only at hr
          rw [List.find?_append, hnone] at hr
          simpa using hr.symm
        subst this
        refine ⟨fun rd hrd x hx => ?_, fun hn => ?_⟩
        · exact fun e => hfull.2.disj rd hrd g hg x hx e.symm
        · exact absurd rfl (mFind_none_iff.mp hn g hg)
      | none =>
        rw [hidx] at hopen
        dsimp only at hopen
        repeat' split at hopen
        all_goals cases hopen

end GunYu.Store
