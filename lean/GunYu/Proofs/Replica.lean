/-
  Helper definitions and lemmas for C16 (Props/C16.lean): histories, faithfulness of
  cache contents, well-formedness of a follower store, and the step lemmas for the
  run-id operations, the leader's replies and the follower's receive loops.
-/
import GunYu.Model.Replica

namespace GunYu.Replica

/-! ### histories -/

/-- what the source has emitted: the stream byte of run id `id` at offset `o`, and the
    snapshot of `id` taken at offset `o`. No relation between two ids is assumed. -/
structure Hist (β : Type) where
  byte : Id → Nat → β
  snap : Id → Nat → List β

/-- the stream bytes `[b, b+n)` of history `id` -/
def hseg (h : Hist β) (id : Id) (b n : Nat) : List β :=
  (List.range n).map (fun i => h.byte id (b + i))

@[simp] theorem hseg_length (h : Hist β) (id : Id) (b n : Nat) : (hseg h id b n).length = n := by
  simp [hseg]

theorem hseg_zero (h : Hist β) (id : Id) (b : Nat) : hseg h id b 0 = [] := by simp [hseg]

theorem hseg_append (h : Hist β) (id : Id) (b n m : Nat) :
    hseg h id b (n + m) = hseg h id b n ++ hseg h id (b + n) m := by
  simp only [hseg, List.range_add, List.map_append, List.map_map]
  congr 1
  apply List.map_congr_left
  intro i _
  simp [Nat.add_assoc]

theorem hseg_take (h : Hist β) (id : Id) (b n k : Nat) (hk : k ≤ n) :
    (hseg h id b n).take k = hseg h id b k := by
  obtain ⟨m, rfl⟩ : ∃ m, n = k + m := ⟨n - k, by omega⟩
  rw [hseg_append, List.take_left' (by simp)]

theorem hseg_drop (h : Hist β) (id : Id) (b n k : Nat) (hk : k ≤ n) :
    (hseg h id b n).drop k = hseg h id (b + k) (n - k) := by
  obtain ⟨m, rfl⟩ : ∃ m, n = k + m := ⟨n - k, by omega⟩
  rw [hseg_append, List.drop_left' (by simp)]
  congr 1
  omega

theorem hseg_prefix (h : Hist β) (id : Id) (b n : Nat) (p : List β) (hp : p <+: hseg h id b n) :
    p = hseg h id b p.length := by
  have hl : p.length ≤ n := by simpa using hp.length_le
  have := List.prefix_iff_eq_take.mp hp
  rw [this, hseg_take _ _ _ _ _ hl]
  simp


/-! ### faithfulness -/

/-- the contents `d` kept under run id `id` are a copy of history `id`: every stream
    byte at its offset, the snapshot at its offset -/
def Data.Faithful (h : Hist β) (id : Id) (d : Data β) : Prop :=
  d.bytes = hseg h id d.base d.bytes.length ∧ ∀ s, d.snap = some s → s = h.snap id d.base

/-- everything stored under `id` (in any directory named `id`) is faithful to `id` -/
def FaithfulAt (h : Hist β) (ds : Dirs β) (id : Id) : Prop :=
  ∀ d, (id, some d) ∈ ds → d.Faithful h id

/-- the leader's cache, and what its input appends during the session, are copies of the
    history of the leader's run id -/
def Leader.Faithful (h : Hist β) (L : Leader β) : Prop :=
  ∀ d, L.data = some d → d.Faithful h L.cur ∧ L.tail = hseg h L.cur d.right L.tail.length

/-- reachable shapes of a follower store. Disk: the storer's current id, when set, names an
    existing directory. Memory: at most the current id has data, none without an id. -/
def WF : Backend → Store β → Prop
  | .disk, F => (F.cur = "" ∨ F.has F.cur = true) ∧ F.cur ≠ "?"
  | .mem, F => (∀ p ∈ F.dirs, p.1 = F.cur) ∧ (F.cur = "" → F.dirs = []) ∧ F.cur ≠ "?"

/-! ### directory lists -/

theorem getD_mem {ds : Dirs β} {id : Id} {v : Option (Data β)} (hg : getD ds id = some v) :
    (id, v) ∈ ds := by
  induction ds with
  | nil => simp [getD] at hg
  | cons p r ih =>
    obtain ⟨k, w⟩ := p
    simp only [getD] at hg
    split at hg
    · next hk => cases hg; subst hk; simp
    · exact List.mem_cons_of_mem _ (ih hg)

theorem getD_none {ds : Dirs β} {id : Id} : getD ds id = none ↔ ∀ p ∈ ds, p.1 ≠ id := by
  induction ds with
  | nil => simp [getD]
  | cons p r ih =>
    obtain ⟨k, w⟩ := p
    simp only [getD]
    split
    · next hk => subst hk; simp
    · next hk => simp [ih, hk]

theorem getD_isSome {ds : Dirs β} {id : Id} : (getD ds id).isSome = true ↔ ∃ p ∈ ds, p.1 = id := by
  cases hg : getD ds id with
  | none =>
    have := getD_none.mp hg
    simp only [Option.isSome_none, Bool.false_eq_true, false_iff]
    rintro ⟨p, hp, hpk⟩
    exact this p hp hpk
  | some v => simpa using ⟨v, getD_mem hg⟩

theorem mem_dropKey {ds : Dirs β} {id : Id} {p : Id × Option (Data β)} :
    p ∈ dropKey ds id ↔ p ∈ ds ∧ p.1 ≠ id := by
  simp [dropKey]

theorem getD_dropKey_self (ds : Dirs β) (id : Id) : getD (dropKey ds id) id = none := by
  rw [getD_none]; intro p hp; exact (mem_dropKey.mp hp).2

theorem getD_dropKey_ne (ds : Dirs β) {id z : Id} (hz : z ≠ id) :
    getD (dropKey ds id) z = getD ds z := by
  induction ds with
  | nil => rfl
  | cons p r ih =>
    obtain ⟨k, w⟩ := p
    by_cases hk : k = id
    · subst hk
      have : dropKey ((k, w) :: r) k = dropKey r k := by simp [dropKey]
      rw [this, ih]
      simp [getD, Ne.symm hz]
    · have : dropKey ((k, w) :: r) id = (k, w) :: dropKey r id := by simp [dropKey, hk]
      rw [this]
      simp only [getD, ih]

theorem curData_mem {F : Store β} {d : Data β} (hd : F.curData = some d) :
    (F.cur, some d) ∈ F.dirs := by
  unfold Store.curData Store.get at hd
  split at hd
  · next hg => cases hd; exact getD_mem hg
  · cases hd


/-! ### `Sub`: nothing non-empty appears that was not there -/

/-- every non-empty directory of `a` is a directory of `b` (same id, same contents) -/
def Sub (a b : Dirs β) : Prop := ∀ id d, (id, some d) ∈ a → (id, some d) ∈ b

theorem Sub.refl (a : Dirs β) : Sub a a := fun _ _ h => h
theorem Sub.trans {a b c : Dirs β} (h1 : Sub a b) (h2 : Sub b c) : Sub a c :=
  fun id d h => h2 id d (h1 id d h)
theorem Sub.nil (b : Dirs β) : Sub [] b := fun _ _ h => by cases h

theorem FaithfulAt.of_sub {h : Hist β} {a b : Dirs β} {id : Id} (hs : Sub a b)
    (hf : FaithfulAt h b id) : FaithfulAt h a id := fun d hd => hf d (hs id d hd)

theorem sub_dropKey (ds : Dirs β) (id : Id) : Sub (dropKey ds id) ds :=
  fun _ _ h => (mem_dropKey.mp h).1

theorem sub_append_none (ds : Dirs β) (id : Id) : Sub (ds ++ [(id, none)]) ds := by
  intro k d h
  simp only [List.mem_append, List.mem_singleton, Prod.mk.injEq] at h
  rcases h with h | ⟨_, h⟩
  · exact h
  · cases h

/-! ### evaluation of the run-id operations -/

theorem special_false {x : Id} (h1 : x ≠ "") (h2 : x ≠ "?") : special x = false := by
  simp [special, h1, h2]

theorem store_eta (F : Store β) : ({ F with cur := F.cur } : Store β) = F := by cases F; rfl

theorem has_iff_get {F : Store β} {id : Id} : F.has id = true ↔ (getD F.dirs id).isSome = true := by
  simp [Store.has, Store.get]

theorem has_false_iff {F : Store β} {id : Id} : F.has id = false ↔ getD F.dirs id = none := by
  simp [Store.has, Store.get]

/-- disk `newRunId` of an existing directory just switches to it -/
theorem newRunIdDisk_has {F : Store β} {x : Id} (hx : special x = false) (hh : F.has x = true) :
    newRunIdDisk F x = { F with cur := x } := by
  simp [newRunIdDisk, hx, hh]

theorem newRunIdDisk_new {F : Store β} {x : Id} (hx : special x = false) (hh : F.has x = false) :
    newRunIdDisk F x = { cur := x, dirs := F.dirs ++ [(x, none)] } := by
  simp [newRunIdDisk, hx, hh]

/-- disk `SetRunId(x)` when the directory of `x` exists: no rename, the storer switches -/
theorem setRunId_disk_has {F : Store β} {x : Id} (hx : special x = false) (hh : F.has x = true) :
    setRunId .disk F x = { F with cur := x } := by
  simp only [setRunId, hx, Bool.false_eq_true, if_false]
  split
  · exact newRunIdDisk_has hx hh
  · simp [hh, newRunIdDisk_has hx hh]

/-- disk `SetRunId(x)` when the storer has no current id -/
theorem setRunId_disk_nocur {F : Store β} {x : Id} (hc : F.cur = "") :
    setRunId .disk F x = newRunIdDisk F x := by
  by_cases hs : special x = true
  · simp [setRunId, newRunIdDisk, hs]
  · simp [setRunId, hc, hs]

theorem delRunId_disk_has {F : Store β} {x : Id} (hx : special x = false) (hh : F.has x = true) :
    delRunId .disk F x = { cur := "", dirs := dropKey F.dirs x } := by
  simp [delRunId, hx, hh]

theorem delRunId_mem_cur (F : Store β) : delRunId .mem F F.cur = { cur := "", dirs := [] } := by
  simp [delRunId]

theorem has_dropKey_self (ds : Dirs β) (c x : Id) :
    (Store.has ⟨c, dropKey ds x⟩ x) = false := by
  simp [Store.has, Store.get, getD_dropKey_self]

theorem has_append_self (ds : Dirs β) (c x : Id) (v : Option (Data β)) :
    (Store.has ⟨c, ds ++ [(x, v)]⟩ x) = true := by
  rw [has_iff_get, getD_isSome]
  exact ⟨(x, v), by simp, rfl⟩

/-! ### the follower's position after `preSync` -/

/-- the follower has adopted run id `x`: it is the current id, (disk) its directory
    exists, (memory) nothing is held under another id -/
def At (bk : Backend) (F : Store β) (x : Id) : Prop :=
  F.cur = x ∧ (bk = .disk → F.has x = true) ∧ (bk = .mem → ∀ p ∈ F.dirs, p.1 = x)

theorem At.mk_disk {F : Store β} {x : Id} (hc : F.cur = x) (hh : F.has x = true) : At .disk F x :=
  ⟨hc, fun _ => hh, fun h => Backend.noConfusion h⟩

theorem At.mk_mem {F : Store β} {x : Id} (hc : F.cur = x) (hk : ∀ p ∈ F.dirs, p.1 = x) :
    At .mem F x :=
  ⟨hc, fun h => Backend.noConfusion h, fun _ => hk⟩

theorem At.wf {bk : Backend} {F : Store β} {x : Id} (hx1 : x ≠ "") (hx2 : x ≠ "?")
    (h : At bk F x) : WF bk F := by
  obtain ⟨hc, hd, hm⟩ := h
  cases bk with
  | disk => exact ⟨Or.inr (by rw [hc]; exact hd rfl), by rw [hc]; exact hx2⟩
  | mem =>
    refine ⟨fun p hp => by rw [hc]; exact hm rfl p hp, fun h0 => absurd (hc ▸ h0) hx1, by rw [hc]; exact hx2⟩

/-- "delete then adopt" of the current id `x` leaves an empty cache for `x` and touches
    nothing else -/
theorem reset_at (bk : Backend) (F : Store β) (x : Id) (hx1 : x ≠ "") (hx2 : x ≠ "?")
    (h : At bk F x) :
    At bk (setRunId bk (delRunId bk F x) x) x ∧
      Sub (setRunId bk (delRunId bk F x) x).dirs F.dirs ∧
      (setRunId bk (delRunId bk F x) x).curData = none := by
  obtain ⟨hc, hd, hm⟩ := h
  have hsp := special_false hx1 hx2
  cases bk with
  | disk =>
    have hh := hd rfl
    rw [delRunId_disk_has hsp hh, setRunId_disk_nocur rfl,
      newRunIdDisk_new hsp (has_dropKey_self _ _ _)]
    refine ⟨⟨rfl, fun _ => has_append_self _ _ _ _, fun h => by cases h⟩, ?_, ?_⟩
    · exact Sub.trans (sub_append_none _ _) (sub_dropKey _ _)
    · have hg : getD (dropKey F.dirs x ++ [(x, none)]) x = some none := by
        have : ∀ (l : Dirs β), getD l x = none → getD (l ++ [(x, none)]) x = some none := by
          intro l
          induction l with
          | nil => intro _; simp [getD]
          | cons p r ih =>
            obtain ⟨k, w⟩ := p
            simp only [getD, List.cons_append]
            split
            · intro h; cases h
            · exact ih
        exact this _ (getD_dropKey_self _ _)
      simp [Store.curData, Store.get, hg]
  | mem =>
    subst hc
    rw [delRunId_mem_cur]
    simp only [setRunId, List.map_nil]
    refine ⟨⟨rfl, ?_, ?_⟩, Sub.nil _, by simp [Store.curData, Store.get, getD]⟩
    · intro h; cases h
    · intro _ p hp; cases hp

/-- `StartPoint([x])` of a follower that has adopted `x` changes nothing -/
theorem startPoint_at (bk : Backend) (F : Store β) (x : Id) (hx1 : x ≠ "") (hx2 : x ≠ "?")
    (h : At bk F x) : (startPoint bk F x).1 = F := by
  obtain ⟨hc, hd, _⟩ := h
  have hsp := special_false hx1 hx2
  cases bk with
  | disk =>
    have hh := hd rfl
    simp only [startPoint, hsp, Bool.false_eq_true, if_false]
    cases hg : F.get x with
    | none => simp [Store.has, hg] at hh
    | some v =>
      simp only
      have : setRunId .disk F x = F := by rw [setRunId_disk_has hsp hh, ← hc]
      split <;> exact this
  | mem =>
    simp only [startPoint]
    split <;> rfl

theorem setCur_at (bk : Backend) (F : Store β) (x : Id) (v : Option (Data β)) (h : At bk F x) :
    At bk (F.setCur v) x := by
  obtain ⟨hc, _, hm⟩ := h
  refine ⟨hc, fun _ => ?_, fun hb p hp => ?_⟩
  · rw [has_iff_get, getD_isSome]
    exact ⟨(F.cur, v), by simp [Store.setCur], hc⟩
  · simp only [Store.setCur, List.mem_cons] at hp
    rcases hp with rfl | hp
    · exact hc
    · exact hm hb p (mem_dropKey.mp hp).1

theorem setCur_faithful {h : Hist β} (F : Store β) (v : Option (Data β)) (id : Id)
    (hv : id = F.cur → ∀ d, v = some d → d.Faithful h id) (hf : FaithfulAt h F.dirs id) :
    FaithfulAt h (F.setCur v).dirs id := by
  intro d hd
  simp only [Store.setCur, List.mem_cons, Prod.mk.injEq] at hd
  rcases hd with ⟨hk, hv'⟩ | hd
  · exact hv hk d hv'.symm
  · exact hf d (mem_dropKey.mp hd).1

theorem setCur_curData (F : Store β) (v : Option (Data β)) : (F.setCur v).curData = v := by
  simp only [Store.curData, Store.get, Store.setCur, getD, if_true]
  cases v <;> rfl


/-! ### chunks, `CONTINUE` messages, receive loops -/

theorem chop_flatten (ch : List Nat) (xs : List β) : (chop ch xs).1.flatten = xs := by
  induction ch generalizing xs with
  | nil => cases xs <;> simp [chop]
  | cons c cs ih =>
    cases xs with
    | nil => simp [chop]
    | cons a as =>
      simp only [chop]
      split
      · exact ih _
      · simp only [List.flatten_cons, ih, List.take_append_drop]

/-- all received payload bytes of a message list -/
def pay (ms : List (Msg β)) : List β := (ms.map payload).flatten

theorem pay_cons (m : Msg β) (ms : List (Msg β)) : pay (m :: ms) = payload m ++ pay ms := by
  simp [pay]

theorem pay_conts (o : Int) (cs : List (List β)) : pay (conts o cs) = cs.flatten := by
  induction cs generalizing o with
  | nil => simp [conts, pay]
  | cons c cs ih =>
    simp only [conts, pay_cons, ih, List.flatten_cons]
    simp [payload]

theorem pay_append (a b : List (Msg β)) : pay (a ++ b) = pay a ++ pay b := by
  simp [pay]

/-- what may follow the chunks of a transfer: nothing, the `FAULT` of a stopped leader, or the
    `ERROR` of a leader whose channel was relabelled under the open reader -/
def Tail (tl : List (Msg β)) : Prop := tl = [] ∨ tl = [ctl .fault] ∨ tl = [ctl .error]

theorem pay_tail {tl : List (Msg β)} (h : Tail tl) : pay tl = [] := by
  rcases h with rfl | rfl | rfl <;> simp [pay, payload, ctl]

theorem pay_conts_tail (o : Int) (cs : List (List β)) {tl : List (Msg β)} (h : Tail tl) :
    pay (conts o cs ++ tl) = cs.flatten := by
  rw [pay_append, pay_conts, pay_tail h, List.append_nil]

/-- what a writer gets onto its file is a prefix (`take`) of what it was handed -/
theorem Loss.written_take (l : Loss) (p : List β) (a : Nat) :
    ∃ n, (l.written (p.take a)).1 = p.take n := by
  unfold Loss.written
  cases l.wfault with
  | none => exact ⟨a, rfl⟩
  | some K => exact ⟨min K a, by simp [List.take_take]⟩

theorem Loss.written_none {l : Loss} (h : l.wfault = none) (p : List β) : l.written p = (p, false) := by
  simp [Loss.written, h]

@[simp] theorem Loss.written_zero (p : List β) : (0 : Loss).written p = (p, false) := rfl

theorem aofLoop_prefix (fin : Fin) (n : Nat) (ms : List (Msg β)) :
    (aofLoop fin n ms).2.1 <+: pay ms := by
  induction ms generalizing n with
  | nil => cases n <;> simp [aofLoop]
  | cons m ms ih =>
    cases n with
    | zero => simp [aofLoop]
    | succ n =>
      simp only [aofLoop]
      split
      · simp
      · simp only [pay_cons]
        exact (List.prefix_append_right_inj _).mpr (ih n)

theorem rdbLoop_prefix (fin : Fin) (n r : Nat) (ms : List (Msg β)) :
    (rdbLoop fin n r ms).2.1 <+: pay ms := by
  induction ms generalizing n r with
  | nil => cases n <;> cases r <;> simp [rdbLoop]
  | cons m ms ih =>
    cases r with
    | zero => simp [rdbLoop]
    | succ r =>
      cases n with
      | zero => simp [rdbLoop]
      | succ n =>
        simp only [rdbLoop]
        split
        · simp
        · simp only [pay_cons]
          exact (List.prefix_append_right_inj _).mpr (ih n _)

theorem rdbLoop_complete (fin : Fin) (n r : Nat) (ms : List (Msg β))
    (hc : (rdbLoop fin n r ms).2.2 = none) : r ≤ (rdbLoop fin n r ms).2.1.length := by
  induction ms generalizing n r with
  | nil => cases n <;> cases r <;> simp_all [rdbLoop]
  | cons m ms ih =>
    cases r with
    | zero => simp
    | succ r =>
      cases n with
      | zero => simp [rdbLoop] at hc
      | succ n =>
        simp only [rdbLoop] at hc ⊢
        split at hc
        · simp at hc
        · next hr =>
          simp only [List.length_append]
          have := ih n (r + 1 - (payload m).length) hc
          omega

/-- a complete snapshot transfer yields exactly the snapshot when what the leader sends is
    (a prefix of) the snapshot -/
theorem rdbLoop_complete_eq (fin : Fin) (n : Nat) (ms : List (Msg β)) (sn : List β)
    (hp : pay ms <+: sn) (hc : (rdbLoop fin n sn.length ms).2.2 = none) :
    (rdbLoop fin n sn.length ms).2.1 = sn := by
  have h1 := (rdbLoop_prefix fin n sn.length ms).trans hp
  have hl := rdbLoop_complete fin n _ _ hc
  exact h1.eq_of_length_le hl

/-! ### the leader's replies -/

/-- what `ServiceReplica`/`Handle` can answer to the request `(rid, _)` when the cache
    its reader is opened on is a faithful copy of history; `c` is the id it announces -/
inductive Shape (h : Hist β) (c : Id) (rid : Id) : List (Msg β) → Prop
  | silent : Shape h c rid []
  | ctl (k : Code) (hc : k = .failure ∨ k = .clear ∨ k = .error) : Shape h c rid [ctl k]
  | clearThen (ms : List (Msg β)) : Shape h c rid (ctl .clear :: ms)
  | hello (o : Int) (hr : rid = "" ∨ rid = "?") : Shape h c rid [⟨.info, c, false, o, 0, []⟩]
  | handover (o : Int) : Shape h c rid [⟨.handover, c, false, o, 0, []⟩]
  | aof (off : Int) (cs : List (List β)) (tl : List (Msg β)) (k : Nat) (h0 : 0 ≤ off)
      (hb : cs.flatten = hseg h rid off.toNat k) (htl : Tail tl) :
      Shape h c rid (⟨.info, "", true, off, -1, []⟩ :: (conts off cs ++ tl))
  | rdb (off : Int) (base : Nat) (s : List β) (cs : List (List β)) (tl : List (Msg β))
      (hs : s = h.snap rid base) (hb : cs.flatten <+: s) (htl : Tail tl) :
      Shape h c rid (⟨.info, "", false, base, s.length, []⟩ :: (conts off cs ++ tl))

theorem tail_if (e : HaltEnd) : Tail (e.msgs : List (Msg β)) := by
  cases e
  · exact Or.inl rfl
  · exact Or.inr (Or.inl rfl)
  · exact Or.inr (Or.inr rfl)

theorem flatten_take_prefix (cs : List (List β)) (k : Nat) : (cs.take k).flatten <+: cs.flatten := by
  conv => rhs; rw [← List.take_append_drop k cs]
  rw [List.flatten_append]
  exact List.prefix_append _ _

theorem sendData_shape (h : Hist β) (c : Id) (L : Leader β) (hL : L.Faithful h) (rid : Id)
    (off : Int) (ch : List Nat) : Shape h c rid (L.sendData rid off ch).msgs := by
  unfold Leader.sendData
  split
  · exact .ctl _ (Or.inr (Or.inl rfl))
  · next d hd =>
    obtain ⟨hf, htl⟩ := hL d hd
    split
    · next hin =>
      split
      · exact .ctl _ (Or.inr (Or.inr rfl))
      · next hne =>
        have hid : L.cur = rid := by simpa using hne
        simp only [Leader.inAof, Bool.and_eq_true, decide_eq_true_eq] at hin
        obtain ⟨⟨_, hlo⟩, hhi⟩ := hin
        simp only [Data.right] at hhi htl
        have hall : (chop ch (d.bytes.drop (off - (d.base : Int)).toNat ++ L.tail)).1.flatten =
            hseg h rid off.toNat (d.bytes.length - (off - (d.base : Int)).toNat + L.tail.length) := by
          rw [chop_flatten, hseg_append, ← hid]
          congr 1
          · rw [hf.1, hseg_drop _ _ _ _ _ (by simp; omega)]
            simp only [hseg_length]
            congr 1
            omega
          · rw [htl]
            simp only [hseg_length]
            congr 1
            omega
        split
        · have := Shape.aof (h := h) (c := c) (rid := rid) off _ [] _ (by omega) hall (Or.inl rfl)
          simpa using this
        · next k e _ =>
          have hpre := flatten_take_prefix (chop ch (d.bytes.drop (off - (d.base : Int)).toNat ++ L.tail)).1 k
          rw [hall] at hpre
          exact .aof off _ _ _ (by omega) (hseg_prefix h rid _ _ _ hpre) (tail_if e)
    · split
      · exact .ctl _ (Or.inr (Or.inl rfl))
      · next s hs =>
        split
        · split
          · exact .ctl _ (Or.inr (Or.inr rfl))
          · next hne =>
            have hid : L.cur = rid := by simpa using hne
            have hsn : s = h.snap rid d.base := by rw [← hid]; exact hf.2 s hs
            split
            · have := Shape.rdb (h := h) (c := c) (rid := rid) off d.base s (chop ch s).1 [] hsn
                (by rw [chop_flatten]; exact List.prefix_refl _) (Or.inl rfl)
              simpa using this
            · next k e _ =>
              have hpre := flatten_take_prefix (chop ch s).1 k
              rw [chop_flatten] at hpre
              exact .rdb off d.base s _ _ hsn hpre (tail_if e)
        · exact .ctl _ (Or.inr (Or.inl rfl))

theorem handle_shape (h : Hist β) (v : View β) (hL : v.l4.Faithful h) (rid : Id) (roff : Int)
    (ch : List Nat) : Shape h v.l2b.cur rid (v.handle rid roff ch).msgs := by
  unfold View.handle
  split
  · exact .ctl _ (Or.inl rfl)
  · split
    · exact .silent
    · split
      · exact .ctl _ (Or.inl rfl)
      · rename_i i0 tl _
        simp only
        by_cases h1 : i0 ≠ v.l1b.cur
        · rw [if_pos h1]; exact .clearThen _
        · rw [if_neg h1]
          simp only [List.nil_append]
          by_cases h2 : (rid = "" || rid = "?") = true
          · rw [if_pos h2]; exact .hello _ (by simpa using h2)
          · rw [if_neg h2]
            by_cases h3 : v.l2.inputIds.head? ≠ some rid
            · rw [if_pos h3]; exact .ctl _ (Or.inr (Or.inr rfl))
            · rw [if_neg h3]
              by_cases h4 : roff - latest v.l2b.data > 0
              · rw [if_pos h4]; exact .handover _
              · rw [if_neg h4]; exact sendData_shape h _ v.l4 hL rid _ _

/-! ### the follower's steps -/

theorem aofWrite_ok {h : Hist β} (bk : Backend) (F : Store β) (x : Id) (left : Nat) (p : List β)
    (id : Id) (hat : At bk F x) (hp : p = hseg h x left p.length) (hf : FaithfulAt h F.dirs id)
    (F2 : Store β) (hw : aofWrite F left p = some F2) : At bk F2 x ∧ FaithfulAt h F2.dirs id := by
  have hc : F.cur = x := hat.1
  unfold aofWrite at hw
  split at hw
  · -- nothing stored yet
    cases p with
    | nil => simp only [Option.some.injEq] at hw; subst hw; exact ⟨hat, hf⟩
    | cons a as =>
      simp only [Option.some.injEq] at hw
      subst hw
      refine ⟨setCur_at _ _ _ _ hat, setCur_faithful _ _ _ ?_ hf⟩
      intro hid d hd
      cases hd
      rw [hid, hc]
      exact ⟨hp, fun s hs => by cases hs⟩
  · next d hd =>
    split at hw
    · next hr =>
      simp only [Option.some.injEq] at hw
      subst hw
      refine ⟨setCur_at _ _ _ _ hat, setCur_faithful _ _ _ ?_ hf⟩
      intro hid d' hd'
      cases hd'
      have hdf := hf d (by rw [hid]; exact curData_mem hd)
      rw [hid, hc] at hdf ⊢
      refine ⟨?_, hdf.2⟩
      simp only [List.length_append]
      rw [hseg_append, ← hdf.1]
      congr 1
      simp only [Data.right] at hr
      rw [hr]
      exact hp
    · cases hw

theorem newRunIdDisk_at (F : Store β) (x : Id) (hx1 : x ≠ "") (hx2 : x ≠ "?") :
    At .disk (newRunIdDisk F x) x ∧ Sub (newRunIdDisk F x).dirs F.dirs := by
  have hsp := special_false hx1 hx2
  cases hh : F.has x with
  | true =>
    rw [newRunIdDisk_has hsp hh]
    refine ⟨⟨rfl, fun _ => hh, ?_⟩, Sub.refl _⟩
    intro h; cases h
  | false =>
    rw [newRunIdDisk_new hsp hh]
    refine ⟨⟨rfl, fun _ => has_append_self _ _ _ _, ?_⟩, sub_append_none _ _⟩
    intro h; cases h

/-- `SetRunId(x)` of a follower that has already adopted `x` changes nothing -/
theorem setRunId_at (bk : Backend) (F : Store β) (x : Id) (hx1 : x ≠ "") (hx2 : x ≠ "?")
    (h : At bk F x) : setRunId bk F x = F := by
  obtain ⟨hc, hd, hm⟩ := h
  cases bk with
  | disk => rw [setRunId_disk_has (special_false hx1 hx2) (hd rfl), ← hc]
  | mem =>
    simp only [setRunId]
    have : F.dirs.map (fun p => (x, p.2)) = F.dirs := by
      conv => rhs; rw [← List.map_id F.dirs]
      apply List.map_congr_left
      intro p hp
      have := hm rfl p hp
      simp [← this]
    rw [this, ← hc]

theorem adopt_ok (bk : Backend) (F : Store β) (x : Id) (hx1 : x ≠ "") (hx2 : x ≠ "?")
    (hwf : WF bk F) : At bk (adopt bk F x) x ∧ Sub (adopt bk F x).dirs F.dirs := by
  unfold adopt
  cases bk with
  | disk =>
    obtain ⟨hcur, hq⟩ := hwf
    by_cases hc : F.cur = ""
    · have : (F.cur ≠ "" && F.cur ≠ x) = false := by simp [hc]
      rw [this]
      simp only [Bool.false_eq_true, if_false]
      rw [setRunId_disk_nocur hc]
      exact newRunIdDisk_at F x hx1 hx2
    · have hhc : F.has F.cur = true := hcur.resolve_left hc
      by_cases hcx : F.cur = x
      · have : (F.cur ≠ "" && F.cur ≠ x) = false := by simp [hcx]
        rw [this]
        simp only [Bool.false_eq_true, if_false]
        have hat : At .disk F x := At.mk_disk hcx (hcx ▸ hhc)
        rw [setRunId_at .disk F x hx1 hx2 hat]
        exact ⟨hat, Sub.refl _⟩
      · have : (F.cur ≠ "" && F.cur ≠ x) = true := by simp [hc, hcx]
        rw [this]
        simp only [if_true]
        rw [delRunId_disk_has (special_false hc hq) hhc, setRunId_disk_nocur rfl]
        have := newRunIdDisk_at (⟨"", dropKey F.dirs F.cur⟩ : Store β) x hx1 hx2
        exact ⟨this.1, Sub.trans this.2 (sub_dropKey _ _)⟩
  | mem =>
    obtain ⟨hkeys, hnil, hq⟩ := hwf
    by_cases hcx : F.cur = x
    · have : (F.cur ≠ "" && F.cur ≠ x) = false := by simp [hcx]
      rw [this]
      simp only [Bool.false_eq_true, if_false]
      have hat : At .mem F x := At.mk_mem hcx (fun p hp => by rw [← hcx]; exact hkeys p hp)
      rw [setRunId_at .mem F x hx1 hx2 hat]
      exact ⟨hat, Sub.refl _⟩
    · have hempty : (if (F.cur ≠ "" && F.cur ≠ x) = true then delRunId .mem F F.cur else F).dirs = [] := by
        by_cases hc : F.cur = ""
        · have : (F.cur ≠ "" && F.cur ≠ x) = false := by simp [hc]
          rw [this]
          simpa using hnil hc
        · have : (F.cur ≠ "" && F.cur ≠ x) = true := by simp [hc, hcx]
          rw [this]
          simp only [if_true]
          rw [delRunId_mem_cur]
      simp only [setRunId, hempty, List.map_nil]
      refine ⟨⟨rfl, ?_, ?_⟩, Sub.nil _⟩
      · intro h; cases h
      · intro _ p hp; cases hp

/-- `StartPoint([x])` keeps every directory; when it answers with `x` itself the follower
    has adopted `x` -/
theorem startPoint_ok (bk : Backend) (F : Store β) (x : Id) (hx1 : x ≠ "") (hx2 : x ≠ "?")
    (hwf : WF bk F) :
    WF bk (startPoint bk F x).1 ∧ (startPoint bk F x).1.dirs = F.dirs ∧
      ((startPoint bk F x).2.1 = x → At bk (startPoint bk F x).1 x) := by
  have hsp := special_false hx1 hx2
  cases bk with
  | disk =>
    simp only [startPoint, hsp, Bool.false_eq_true, if_false]
    cases hg : F.get x with
    | none =>
      have hnx : F.has x = false := by simp [Store.has, hg]
      refine ⟨hwf, rfl, ?_⟩
      simp only
      intro he
      obtain ⟨hcur, _⟩ := hwf
      by_cases hc : F.cur = ""
      · simp [hc] at he; exact absurd he.symm hx2
      · simp only [hc, if_false] at he
        have hhc : F.has F.cur = true := hcur.resolve_left hc
        rw [he, hnx] at hhc; cases hhc
    | some v =>
      have hhx : F.has x = true := by simp [Store.has, hg]
      have hset : setRunId .disk F x = { F with cur := x } := setRunId_disk_has hsp hhx
      have hat : At .disk ({ F with cur := x } : Store β) x := by
        refine ⟨rfl, fun _ => hhx, ?_⟩
        intro h; cases h
      simp only [hset]
      split <;> exact ⟨hat.wf hx1 hx2, rfl, fun _ => hat⟩
  | mem =>
    simp only [startPoint]
    split
    · next hc =>
      have hxc : x = F.cur := by simpa [hsp] using hc
      refine ⟨hwf, rfl, fun _ => ⟨hxc.symm, ?_, ?_⟩⟩
      · intro h; cases h
      · intro _ p hp; rw [hxc]; exact hwf.1 p hp
    · refine ⟨hwf, rfl, ?_⟩
      intro he
      exact absurd he.symm hx2

theorem preSync_ok (bk : Backend) (F : Store β) (x : Id) (loff : Int) (hx1 : x ≠ "")
    (hx2 : x ≠ "?") (hwf : WF bk F) :
    At bk (preSync bk F x loff).1 x ∧ (preSync bk F x loff).2.1 = x ∧
      Sub (preSync bk F x loff).1.dirs F.dirs := by
  unfold preSync
  have hs := startPoint_ok bk F x hx1 hx2 hwf
  generalize startPoint bk F x = r at hs ⊢
  obtain ⟨F1, sp⟩ := r
  obtain ⟨hwf1, hd1, hat1⟩ := hs
  simp only at hwf1 hd1 hat1 ⊢
  split
  · have := adopt_ok bk F1 x hx1 hx2 hwf1
    exact ⟨this.1, rfl, hd1 ▸ this.2⟩
  · next hcond =>
    have hspx : sp.1 = x := by
      simp only [Bool.or_eq_true, decide_eq_true_eq, not_or, ne_eq, Decidable.not_not] at hcond
      exact hcond.2
    have hat := hat1 hspx
    split
    · split
      · have := reset_at bk F1 x hx1 hx2 hat
        rw [hspx]
        exact ⟨this.1, rfl, hd1 ▸ this.2.1⟩
      · rw [setRunId_at bk F1 x hx1 hx2 hat]
        exact ⟨hat, hspx, hd1 ▸ Sub.refl _⟩
    · exact ⟨hat, hspx, hd1 ▸ Sub.refl _⟩


/-- with data under the adopted id, `StartPoint([x])` answers with `x` -/
theorem startPoint_at_id (bk : Backend) (F : Store β) (x : Id) (hx1 : x ≠ "") (hx2 : x ≠ "?")
    (h : At bk F x) (d : Data β) (hd : F.curData = some d) : (startPoint bk F x).2.1 = x := by
  obtain ⟨hc, _, _⟩ := h
  have hsp := special_false hx1 hx2
  cases bk with
  | disk =>
    simp only [startPoint, hsp, Bool.false_eq_true, if_false]
    have hg : F.get x = some (some d) := by
      unfold Store.curData at hd
      rw [hc] at hd
      split at hd
      · next hg => cases hd; exact hg
      · cases hd
    rw [hg]
    simp only
    have : ¬ latest (some d) < 0 := by simp only [latest]; omega
    rw [if_neg this]
  | mem =>
    simp only [startPoint, hsp, hc, Bool.not_false, Bool.true_and, decide_true, if_true]

@[simp] theorem Out.pre_store (ms : List (Msg β)) (o : Out β) : (Out.pre ms o).store = o.store := rfl

theorem aofRecv_ok {h : Hist β} (bk : Backend) (F1 : Store β) (x : Id) (ms : List (Msg β))
    (fin : Fin) (budget : Nat) (lost : Loss) (id : Id) (hx1 : x ≠ "") (hx2 : x ≠ "?") (hat : At bk F1 x)
    (off : Int) (cs : List (List β)) (tl : List (Msg β)) (k : Nat) (hms : ms = conts off cs ++ tl)
    (htl : Tail tl) (hb : cs.flatten = hseg h x off.toNat k) (hf : FaithfulAt h F1.dirs id) :
    WF bk (aofRecv F1 off.toNat ms fin budget lost).store ∧
      FaithfulAt h (aofRecv F1 off.toNat ms fin budget lost).store.dirs id := by
  unfold aofRecv
  -- the bytes written are a prefix of the leader's bytes from `off`
  have hp : ∀ n : Nat, (aofLoop fin budget ms).2.1.take n =
      hseg h x off.toNat ((aofLoop fin budget ms).2.1.take n).length := by
    intro n
    apply hseg_prefix h x off.toNat k
    have := aofLoop_prefix fin budget ms
    rw [hms, pay_conts_tail _ _ htl, hb] at this
    rw [hms]
    exact (List.take_prefix _ _).trans this
  simp only
  split
  · exact ⟨hat.wf hx1 hx2, hf⟩
  · next F2 hw =>
    obtain ⟨n, hn⟩ := lost.written_take (aofLoop fin budget ms).2.1 ((aofLoop fin budget ms).2.1.length - lost.pipe)
    rw [hn] at hw
    have := aofWrite_ok bk F1 x off.toNat _ id hat (hp n) hf F2 hw
    exact ⟨this.1.wf hx1 hx2, this.2⟩

theorem aofSync_ok {h : Hist β} (bk : Backend) (F : Store β) (x : Id) (ms : List (Msg β))
    (fin : Fin) (budget : Nat) (lost : Loss) (id : Id) (hx1 : x ≠ "") (hx2 : x ≠ "?") (hat : At bk F x)
    (off : Int) (cs : List (List β)) (tl : List (Msg β)) (k : Nat) (hms : ms = conts off cs ++ tl)
    (htl : Tail tl) (hb : cs.flatten = hseg h x off.toNat k) (hf : FaithfulAt h F.dirs id) :
    WF bk (aofSync bk F x ⟨.info, "", true, off, -1, []⟩ ms fin budget lost).store ∧
      FaithfulAt h (aofSync bk F x ⟨.info, "", true, off, -1, []⟩ ms fin budget lost).store.dirs id := by
  simp only [aofSync]
  rw [startPoint_at bk F x hx1 hx2 hat]
  split
  · have := reset_at bk F x hx1 hx2 hat
    exact aofRecv_ok bk _ x ms fin budget lost id hx1 hx2 this.1 off cs tl k hms htl hb (hf.of_sub this.2.1)
  · exact aofRecv_ok bk _ x ms fin budget lost id hx1 hx2 hat off cs tl k hms htl hb hf

theorem syncLoop_ok {h : Hist β} (bk : Backend) (V : Nat → View β) (lost : Loss) (x : Id) (id : Id)
    (hx1 : x ≠ "") (hx2 : x ≠ "?") (hL : ∀ n, (V n).l4.Faithful h) :
    ∀ (fuel n budget : Nat) (ch : List Nat) (F : Store β) (fsp : Id × Int), At bk F x → fsp.1 = x →
      FaithfulAt h F.dirs id →
      WF bk (syncLoopV bk V lost x fuel n budget ch F fsp).store ∧
        FaithfulAt h (syncLoopV bk V lost x fuel n budget ch F fsp).store.dirs id := by
  intro fuel
  induction fuel with
  | zero => intro n budget ch F fsp hat _ hf; exact ⟨hat.wf hx1 hx2, hf⟩
  | succ fuel ih =>
    intro n budget ch F fsp hat hfx hf
    have hwf := hat.wf hx1 hx2
    unfold syncLoopV
    have hs := handle_shape h (V n) (hL n) fsp.1 fsp.2 ch
    generalize (V n).handle fsp.1 fsp.2 ch = rp at hs ⊢
    obtain ⟨msgs, fin, rest⟩ := rp
    simp only at hs ⊢
    cases budget with
    | zero => exact ⟨hwf, hf⟩
    | succ b =>
      cases hs with
      | silent => exact ⟨hwf, hf⟩
      | ctl c hc =>
        rcases hc with rfl | rfl | rfl
        · exact ⟨hwf, hf⟩
        · -- CLEAR: the run id is deleted
          simp only [ctl, respErr, Out.pre_store, if_true]
          rw [hfx]
          cases bk with
          | disk =>
            rw [delRunId_disk_has (special_false hx1 hx2) (hat.2.1 rfl)]
            refine ⟨⟨Or.inl rfl, ?_⟩, hf.of_sub (sub_dropKey _ _)⟩
            simp
          | mem =>
            rw [← hat.1, delRunId_mem_cur]
            refine ⟨⟨?_, fun _ => rfl, ?_⟩, hf.of_sub (Sub.nil _)⟩
            · intro p hp; cases hp
            · simp
        · exact ⟨hwf, hf⟩
      | clearThen ms' =>
        simp only [ctl, respErr, Out.pre_store, if_true]
        rw [hfx]
        cases bk with
        | disk =>
          rw [delRunId_disk_has (special_false hx1 hx2) (hat.2.1 rfl)]
          refine ⟨⟨Or.inl rfl, ?_⟩, hf.of_sub (sub_dropKey _ _)⟩
          simp
        | mem =>
          rw [← hat.1, delRunId_mem_cur]
          refine ⟨⟨?_, fun _ => rfl, ?_⟩, hf.of_sub (Sub.nil _)⟩
          · intro p hp; cases hp
          · simp
      | hello o hr =>
        rw [hfx] at hr
        rcases hr with hr | hr
        · exact absurd hr hx1
        · exact absurd hr hx2
      | handover o => exact ⟨hwf, hf⟩
      | aof off cs tl k h0 hb htl =>
        simp only [respErr, Out.pre_store, reduceCtorEq, if_false, if_true]
        rw [hfx] at hb ⊢
        exact aofSync_ok bk F x _ fin b lost id hx1 hx2 hat off cs tl k rfl htl hb hf
      | rdb off base s cs tl hs hb htl =>
        simp only [respErr, Out.pre_store, reduceCtorEq, if_false, Bool.false_eq_true]
        rw [hfx] at hs ⊢
        have hr := reset_at bk F x hx1 hx2 hat
        generalize setRunId bk (delRunId bk F x) x = F1 at hr ⊢
        obtain ⟨hat1, hsub1, _⟩ := hr
        have hf1 : FaithfulAt h F1.dirs id := hf.of_sub hsub1
        simp only [Int.toNat_natCast]
        have hnone : WF bk (F1.setCur none) ∧ FaithfulAt h (F1.setCur none).dirs id := by
          have hat2 := setCur_at bk F1 x none hat1
          refine ⟨hat2.wf hx1 hx2, setCur_faithful _ _ _ ?_ hf1⟩
          intro _ d hd; cases hd
        split
        · -- interrupted: no snapshot is kept
          exact hnone
        · next hcomp =>
          split
          · -- received, but a write failed: no snapshot is kept
            exact hnone
          simp only [Out.pre_store]
          have hall := rdbLoop_complete_eq fin b (conts off cs ++ tl) s
            (by rw [pay_conts_tail _ _ htl]; exact hb) hcomp
          rw [hall, List.take_length]
          have hat2 := setCur_at bk F1 x (some ⟨base, [], some s⟩) hat1
          have hf2 : FaithfulAt h (F1.setCur (some ⟨base, [], some s⟩)).dirs id := by
            apply setCur_faithful _ _ _ _ hf1
            intro hid' d hd
            cases hd
            rw [hid', hat1.1]
            refine ⟨by simp [hseg], ?_⟩
            intro s' hs'
            simp only [Option.some.injEq] at hs'
            rw [← hs', hs]
          have hcd := setCur_curData F1 (some ⟨base, [], some s⟩)
          generalize F1.setCur (some ⟨base, [], some s⟩) = F2 at hat2 hf2 hcd ⊢
          have hid2 := startPoint_at_id bk F2 x hx1 hx2 hat2 _ hcd
          have hst := startPoint_at bk F2 x hx1 hx2 hat2
          rw [hst]
          exact ih _ _ _ F2 _ hat2 hid2 hf2

theorem session_ok {h : Hist β} (bk : Backend) (V : Nat → View β) (F : Store β) (ch : List Nat)
    (cut : Nat) (lost : Loss) (fuel : Nat) (id : Id) (hL : ∀ n, (V n).l4.Faithful h) (hq : (V 0).l2b.cur ≠ "?")
    (hwf : WF bk F) (hf : FaithfulAt h F.dirs id) :
    WF bk (sessionV bk V F ch cut lost fuel).store ∧
      FaithfulAt h (sessionV bk V F ch cut lost fuel).store.dirs id := by
  unfold sessionV
  have hs := handle_shape h (V 0) (hL 0) "" 0 ch
  generalize (V 0).handle "" 0 ch = rp at hs ⊢
  obtain ⟨msgs, fin, rest⟩ := rp
  simp only at hs ⊢
  cases cut with
  | zero => exact ⟨hwf, hf⟩
  | succ b =>
    cases hs with
    | silent => exact ⟨hwf, hf⟩
    | ctl c hc =>
      rcases hc with rfl | rfl | rfl <;> exact ⟨hwf, hf⟩
    | clearThen ms' => exact ⟨hwf, hf⟩
    | hello o _ =>
      simp only [respErr, Out.pre_store]
      by_cases hc : (V 0).l2b.cur = ""
      · rw [if_pos hc]; exact ⟨hwf, hf⟩
      · rw [if_neg hc]
        have hp := preSync_ok bk F (V 0).l2b.cur o hc hq hwf
        exact syncLoop_ok bk V lost (V 0).l2b.cur id hc hq hL fuel 1 b rest _ _ hp.1 hp.2.1 (hf.of_sub hp.2.2)
    | handover o => exact ⟨hwf, hf⟩
    | aof off cs tl k h0 hb htl => exact ⟨hwf, hf⟩
    | rdb off base s cs tl hs hb htl => exact ⟨hwf, hf⟩

/-! ### contiguity: the follower never opens a writer away from the end of its data -/

theorem respErr_ne_discont {c : Code} {k : Cls} (h : respErr c = some k) : k ≠ .discont := by
  cases c <;> simp [respErr] at h <;> subst h <;> decide

theorem finCls_ne_discont (f : Fin) : finCls f ≠ .discont := by cases f <;> simp [finCls]

theorem aofLoop_cls (fin : Fin) (n : Nat) (ms : List (Msg β)) : (aofLoop fin n ms).2.2 ≠ .discont := by
  induction ms generalizing n with
  | nil => cases n <;> simp [aofLoop, finCls_ne_discont]
  | cons m ms ih =>
    cases n with
    | zero => simp [aofLoop]
    | succ n =>
      simp only [aofLoop]
      split
      · next c hc => exact respErr_ne_discont hc
      · exact ih n

theorem rdbLoop_cls (fin : Fin) (n r : Nat) (ms : List (Msg β)) (c : Cls)
    (hc : (rdbLoop fin n r ms).2.2 = some c) : c ≠ .discont := by
  induction ms generalizing n r with
  | nil =>
    cases r <;> cases n <;> simp [rdbLoop] at hc <;> subst hc
    · decide
    · exact finCls_ne_discont _
  | cons m ms ih =>
    cases r with
    | zero => simp [rdbLoop] at hc
    | succ r =>
      cases n with
      | zero => simp [rdbLoop] at hc; subst hc; decide
      | succ n =>
        simp only [rdbLoop] at hc
        split at hc
        · next k hk => simp at hc; subst hc; exact respErr_ne_discont hk
        · exact ih n _ hc

theorem sendData_aof_off (L : Leader β) (rid : Id) (off : Int) (ch : List Nat) (m : Msg β)
    (ms : List (Msg β)) (hm : (L.sendData rid off ch).msgs = m :: ms) (ha : m.aof = true) :
    m.offset = off := by
  unfold Leader.sendData at hm
  split at hm
  · simp only [List.cons.injEq] at hm; rw [← hm.1] at ha; simp [ctl] at ha
  · split at hm
    · split at hm
      · simp only [List.cons.injEq] at hm; rw [← hm.1] at ha; simp [ctl] at ha
      · split at hm <;> (simp only [List.cons.injEq] at hm; rw [← hm.1])
    · split at hm
      · simp only [List.cons.injEq] at hm; rw [← hm.1] at ha; simp [ctl] at ha
      · split at hm
        · split at hm
          · simp only [List.cons.injEq] at hm; rw [← hm.1] at ha; simp [ctl] at ha
          · split at hm <;> (simp only [List.cons.injEq] at hm; rw [← hm.1] at ha; simp at ha)
        · simp only [List.cons.injEq] at hm; rw [← hm.1] at ha; simp [ctl] at ha

/-- a stream announcement never starts before the requested offset -/
theorem handle_aof_ge (v : View β) (rid : Id) (roff : Int) (ch : List Nat) (m : Msg β)
    (ms : List (Msg β)) (hm : (v.handle rid roff ch).msgs = m :: ms) (ha : m.aof = true) :
    roff ≤ m.offset := by
  unfold View.handle at hm
  split at hm
  · simp only [List.cons.injEq] at hm; rw [← hm.1] at ha; simp [ctl] at ha
  · split at hm
    · cases hm
    · split at hm
      · simp only [List.cons.injEq] at hm; rw [← hm.1] at ha; simp [ctl] at ha
      · rename_i i0 tl _
        simp only at hm
        by_cases h1 : i0 ≠ v.l1b.cur
        · rw [if_pos h1] at hm
          simp only [List.cons_append, List.nil_append, List.cons.injEq] at hm
          rw [← hm.1] at ha; simp [ctl] at ha
        · rw [if_neg h1] at hm
          simp only [List.nil_append] at hm
          by_cases h2 : (rid = "" || rid = "?") = true
          · rw [if_pos h2] at hm
            simp only [List.cons.injEq] at hm; rw [← hm.1] at ha; simp at ha
          · rw [if_neg h2] at hm
            by_cases h3 : v.l2.inputIds.head? ≠ some rid
            · rw [if_pos h3] at hm
              simp only [List.cons.injEq] at hm; rw [← hm.1] at ha; simp [ctl] at ha
            · rw [if_neg h3] at hm
              by_cases h4 : roff - latest v.l2b.data > 0
              · rw [if_pos h4] at hm
                simp only [List.cons.injEq] at hm; rw [← hm.1] at ha; simp at ha
              · rw [if_neg h4] at hm
                rw [sendData_aof_off v.l4 rid _ ch m ms hm ha]
                split <;> omega

/-- the follower asks for the end of what it holds -/
def Pos (F : Store β) (fsp : Id × Int) : Prop := ∀ d, F.curData = some d → fsp.2 = (d.right : Int)

/-- `StartPoint([x])` of a follower that has adopted `x` reports the end of its data -/
theorem startPoint_at_off (bk : Backend) (F : Store β) (x : Id) (hx1 : x ≠ "") (hx2 : x ≠ "?")
    (h : At bk F x) (d : Data β) (hd : F.curData = some d) :
    (startPoint bk F x).2 = (x, (d.right : Int)) := by
  obtain ⟨hc, _, _⟩ := h
  have hsp := special_false hx1 hx2
  cases bk with
  | disk =>
    simp only [startPoint, hsp, Bool.false_eq_true, if_false]
    have hg : F.get x = some (some d) := by
      unfold Store.curData at hd
      rw [hc] at hd
      split at hd
      · next hg => cases hd; exact hg
      · cases hd
    rw [hg]
    simp only
    have : ¬ latest (some d) < 0 := by simp only [latest]; omega
    rw [if_neg this]
    rfl
  | mem =>
    simp only [startPoint, hsp, hc, Bool.not_false, Bool.true_and, decide_true, if_true, hd, latest]

theorem aofSync_nodiscont (bk : Backend) (F : Store β) (x : Id) (m : Msg β) (ms : List (Msg β))
    (fin : Fin) (budget : Nat) (lost : Loss) (hx1 : x ≠ "") (hx2 : x ≠ "?") (hat : At bk F x)
    (hpos : ∀ d, F.curData = some d → (d.right : Int) ≤ m.offset) :
    (aofSync bk F x m ms fin budget lost).cls ≠ .discont := by
  simp only [aofSync]
  rw [startPoint_at bk F x hx1 hx2 hat]
  have hrecv : ∀ (F1 : Store β), (∀ d, F1.curData = some d → (d.right : Int) = m.offset) →
      (aofRecv F1 m.offset.toNat ms fin budget lost).cls ≠ .discont := by
    intro F1 h1
    unfold aofRecv
    simp only
    split
    · next hw =>
      exfalso
      unfold aofWrite at hw
      split at hw
      · cases hw
      · next d hd =>
        have := h1 d hd
        rw [if_pos (by omega)] at hw
        cases hw
    · split
      · simp
      · exact aofLoop_cls _ _ _
  cases hcd : F.curData with
  | none =>
    split
    · apply hrecv
      intro d hd
      rw [(reset_at bk F x hx1 hx2 hat).2.2] at hd; cases hd
    · apply hrecv
      intro d hd; rw [hcd] at hd; cases hd
  | some d =>
    have hle := hpos d hcd
    rw [startPoint_at_off bk F x hx1 hx2 hat d hcd]
    by_cases hgt : m.offset > (d.right : Int)
    · have : (decide (m.offset > (d.right : Int)) && decide (x ≠ "?")) = true := by simp [hgt, hx2]
      simp only [this, if_true]
      apply hrecv
      intro d' hd'
      rw [(reset_at bk F x hx1 hx2 hat).2.2] at hd'; cases hd'
    · have : (decide (m.offset > (d.right : Int)) && decide (x ≠ "?")) = false := by simp [hgt]
      simp only [this, Bool.false_eq_true, if_false]
      apply hrecv
      intro d' hd'
      rw [hcd] at hd'; cases hd'
      omega

theorem syncLoop_nodiscont (bk : Backend) (V : Nat → View β) (lost : Loss) (x : Id)
    (hx1 : x ≠ "") (hx2 : x ≠ "?") :
    ∀ (fuel n budget : Nat) (ch : List Nat) (F : Store β) (fsp : Id × Int), At bk F x → fsp.1 = x →
      Pos F fsp → (syncLoopV bk V lost x fuel n budget ch F fsp).cls ≠ .discont := by
  intro fuel
  induction fuel with
  | zero => intro n budget ch F fsp _ _ _; simp [syncLoopV]
  | succ fuel ih =>
    intro n budget ch F fsp hat hfx hpos
    unfold syncLoopV
    have hge := handle_aof_ge (V n) fsp.1 fsp.2 ch
    generalize (V n).handle fsp.1 fsp.2 ch = rp at hge ⊢
    obtain ⟨msgs, fin, rest⟩ := rp
    simp only at hge ⊢
    cases budget with
    | zero => simp
    | succ b =>
      cases msgs with
      | nil => exact finCls_ne_discont _
      | cons m ms =>
        simp only [Out.pre]
        split
        · next c hc => exact respErr_ne_discont hc
        · split
          · simp
          · split
            · next ha =>
              rw [hfx]
              apply aofSync_nodiscont bk F x m ms fin b lost hx1 hx2 hat
              intro d hd
              have := hge m ms rfl ha
              rw [hpos d hd] at this
              exact this
            · rw [hfx]
              have hr := reset_at bk F x hx1 hx2 hat
              generalize setRunId bk (delRunId bk F x) x = F1 at hr ⊢
              split
              · next c hc =>
                simp only
                split
                · simp
                · exact rdbLoop_cls _ _ _ _ c hc
              · split
                · simp
                have hat2 := setCur_at bk F1 x (some ⟨m.offset.toNat, [], some ((rdbLoop fin b m.size.toNat ms).2.1.take m.size.toNat)⟩) hr.1
                have hcd := setCur_curData F1 (some ⟨m.offset.toNat, [], some ((rdbLoop fin b m.size.toNat ms).2.1.take m.size.toNat)⟩)
                generalize F1.setCur (some ⟨m.offset.toNat, [], some ((rdbLoop fin b m.size.toNat ms).2.1.take m.size.toNat)⟩) = F2 at hat2 hcd ⊢
                have hoff := startPoint_at_off bk F2 x hx1 hx2 hat2 _ hcd
                have hst := startPoint_at bk F2 x hx1 hx2 hat2
                simp only
                rw [hst]
                apply ih _ _ _ F2 _ hat2 (by rw [hoff])
                intro d hd
                rw [hcd] at hd; cases hd
                rw [hoff]


theorem getD_append_none (l : Dirs β) (x : Id) (h : getD l x = none) :
    getD (l ++ [(x, none)]) x = some none := by
  induction l with
  | nil => simp [getD]
  | cons p r ih =>
    obtain ⟨k, w⟩ := p
    simp only [getD, List.cons_append] at h ⊢
    split at h
    · cases h
    · next hk => rw [if_neg hk]; exact ih h

theorem curData_none_of_get {F : Store β} (h : F.get F.cur = none ∨ F.get F.cur = some none) :
    F.curData = none := by
  unfold Store.curData
  rcases h with h | h <;> rw [h]

theorem newRunIdDisk_curData (F : Store β) (x : Id) (hx1 : x ≠ "") (hx2 : x ≠ "?")
    (h : getD F.dirs x = none ∨ getD F.dirs x = some none) : (newRunIdDisk F x).curData = none := by
  have hsp := special_false hx1 hx2
  rcases h with h | h
  · rw [newRunIdDisk_new hsp (has_false_iff.mpr h)]
    exact curData_none_of_get (Or.inr (getD_append_none _ _ h))
  · have hh : F.has x = true := by simp [Store.has, Store.get, h]
    rw [newRunIdDisk_has hsp hh]
    exact curData_none_of_get (Or.inr h)

theorem adopt_curData (bk : Backend) (F : Store β) (x : Id) (hx1 : x ≠ "") (hx2 : x ≠ "?")
    (hwf : WF bk F) (hcur : F.cur = x → F.curData = none)
    (hdisk : bk = .disk → getD F.dirs x = none ∨ getD F.dirs x = some none) :
    (adopt bk F x).curData = none := by
  unfold adopt
  cases bk with
  | disk =>
    have hg := hdisk rfl
    obtain ⟨hc0, hq⟩ := hwf
    by_cases hc : F.cur = ""
    · have : (F.cur ≠ "" && F.cur ≠ x) = false := by simp [hc]
      rw [this]
      simp only [Bool.false_eq_true, if_false]
      rw [setRunId_disk_nocur hc]
      exact newRunIdDisk_curData F x hx1 hx2 hg
    · have hhc : F.has F.cur = true := hc0.resolve_left hc
      by_cases hcx : F.cur = x
      · have : (F.cur ≠ "" && F.cur ≠ x) = false := by simp [hcx]
        rw [this]
        simp only [Bool.false_eq_true, if_false]
        rw [setRunId_at .disk F x hx1 hx2 (At.mk_disk hcx (hcx ▸ hhc))]
        exact hcur hcx
      · have : (F.cur ≠ "" && F.cur ≠ x) = true := by simp [hc, hcx]
        rw [this]
        simp only [if_true]
        rw [delRunId_disk_has (special_false hc hq) hhc, setRunId_disk_nocur rfl]
        apply newRunIdDisk_curData _ x hx1 hx2
        simp only
        rw [getD_dropKey_ne _ (Ne.symm hcx)]
        exact hg
  | mem =>
    obtain ⟨hkeys, hnil, hq⟩ := hwf
    by_cases hcx : F.cur = x
    · have : (F.cur ≠ "" && F.cur ≠ x) = false := by simp [hcx]
      rw [this]
      simp only [Bool.false_eq_true, if_false]
      rw [setRunId_at .mem F x hx1 hx2 (At.mk_mem hcx (fun p hp => by rw [← hcx]; exact hkeys p hp))]
      exact hcur hcx
    · have hempty : (if (F.cur ≠ "" && F.cur ≠ x) = true then delRunId .mem F F.cur else F).dirs = [] := by
        by_cases hc : F.cur = ""
        · have : (F.cur ≠ "" && F.cur ≠ x) = false := by simp [hc]
          rw [this]
          simpa using hnil hc
        · have : (F.cur ≠ "" && F.cur ≠ x) = true := by simp [hc, hcx]
          rw [this]
          simp only [if_true]
          rw [delRunId_mem_cur]
      simp only [setRunId, hempty, List.map_nil]
      simp [Store.curData, Store.get, getD]

/-- what `StartPoint([x])` answers: either not `x` and then nothing is held for `x`, or
    `x` with the end of the data held for it -/
theorem startPoint_pos (bk : Backend) (F : Store β) (x : Id) (hx1 : x ≠ "") (hx2 : x ≠ "?")
    (hwf : WF bk F) :
    ((startPoint bk F x).2.1 ≠ x →
        ((startPoint bk F x).1.cur = x → (startPoint bk F x).1.curData = none) ∧
        (bk = .disk → getD (startPoint bk F x).1.dirs x = none ∨
            getD (startPoint bk F x).1.dirs x = some none)) ∧
      ((startPoint bk F x).2.1 = x → Pos (startPoint bk F x).1 (startPoint bk F x).2) := by
  have hsp := special_false hx1 hx2
  cases bk with
  | disk =>
    simp only [startPoint, hsp, Bool.false_eq_true, if_false]
    cases hg : F.get x with
    | none =>
      have hnx : F.has x = false := by simp [Store.has, hg]
      obtain ⟨hcur, _⟩ := hwf
      have hcx : F.cur ≠ x := by
        intro e
        rcases hcur with h0 | hh
        · exact hx1 (e ▸ h0)
        · rw [e, hnx] at hh; cases hh
      simp only
      refine ⟨fun _ => ⟨fun e => absurd e hcx, fun _ => Or.inl hg⟩, ?_⟩
      intro he
      by_cases hc : F.cur = ""
      · simp [hc] at he; exact absurd he.symm hx2
      · simp only [hc, if_false] at he; exact absurd he hcx
    | some v =>
      have hhx : F.has x = true := by simp [Store.has, hg]
      have hset : setRunId .disk F x = { F with cur := x } := setRunId_disk_has hsp hhx
      simp only [hset]
      cases v with
      | none =>
        simp only [latest]
        refine ⟨fun _ => ⟨fun _ => curData_none_of_get (Or.inr hg), fun _ => Or.inr hg⟩, ?_⟩
        intro he
        simp at he
        exact absurd he.symm hx2
      | some d =>
        have : ¬ latest (some d) < 0 := by simp only [latest]; omega
        rw [if_neg this]
        refine ⟨fun hne => absurd rfl hne, fun _ => ?_⟩
        intro d' hd'
        have : ({ F with cur := x } : Store β).curData = some d := by
          simp only [Store.curData, Store.get]
          have : getD F.dirs x = some (some d) := hg
          rw [this]
        rw [this] at hd'
        cases hd'
        rfl
  | mem =>
    simp only [startPoint]
    split
    · next hc =>
      have hxc : x = F.cur := by simpa [hsp] using hc
      refine ⟨fun hne => absurd hxc.symm hne, fun _ => ?_⟩
      intro d hd
      simp only [hd, latest]
    · next hc =>
      have hxc : ¬ x = F.cur := by simpa [hsp] using hc
      refine ⟨fun _ => ⟨fun e => absurd e.symm hxc, fun h => by cases h⟩, ?_⟩
      intro he
      exact absurd he.symm hx2

theorem preSync_pos (bk : Backend) (F : Store β) (x : Id) (loff : Int) (hx1 : x ≠ "")
    (hx2 : x ≠ "?") (hwf : WF bk F) : Pos (preSync bk F x loff).1 (preSync bk F x loff).2 := by
  unfold preSync
  have hs := startPoint_ok bk F x hx1 hx2 hwf
  have hp := startPoint_pos bk F x hx1 hx2 hwf
  generalize startPoint bk F x = r at hs hp ⊢
  obtain ⟨F1, sp⟩ := r
  obtain ⟨hwf1, hd1, hat1⟩ := hs
  simp only at hwf1 hd1 hat1 hp ⊢
  split
  · next hcond =>
    have hne : sp.1 ≠ x := by
      intro e
      simp only [Bool.or_eq_true, decide_eq_true_eq, e] at hcond
      rcases hcond with (h | h) | h
      · exact hx2 h
      · exact hx1 h
      · exact h rfl
    have := hp.1 hne
    intro d hd
    rw [adopt_curData bk F1 x hx1 hx2 hwf1 this.1 this.2] at hd
    cases hd
  · next hcond =>
    have hspx : sp.1 = x := by
      simp only [Bool.or_eq_true, decide_eq_true_eq, not_or, ne_eq, Decidable.not_not] at hcond
      exact hcond.2
    have hat := hat1 hspx
    have hpos := hp.2 hspx
    split
    · split
      · rw [hspx]
        intro d hd
        rw [(reset_at bk F1 x hx1 hx2 hat).2.2] at hd
        cases hd
      · rw [setRunId_at bk F1 x hx1 hx2 hat]
        exact hpos
    · exact hpos

/-- the handshake answer carries the leader's channel id (or none) -/
theorem handle_hello_id (v : View β) (roff : Int) (ch : List Nat) (m : Msg β) (ms : List (Msg β))
    (hms : (v.handle "" roff ch).msgs = m :: ms) : m.runId = v.l2b.cur ∨ m.runId = "" := by
  unfold View.handle at hms
  split at hms
  · simp only [List.cons.injEq] at hms; rw [← hms.1]; exact Or.inr rfl
  · split at hms
    · cases hms
    · split at hms
      · simp only [List.cons.injEq] at hms; rw [← hms.1]; exact Or.inr rfl
      · rename_i i0 tl _
        simp only [decide_true, Bool.true_or, if_true] at hms
        by_cases h1 : i0 ≠ v.l1b.cur
        · rw [if_pos h1] at hms
          simp only [List.cons_append, List.nil_append, List.cons.injEq] at hms
          rw [← hms.1]; exact Or.inr rfl
        · rw [if_neg h1] at hms
          simp only [List.nil_append, List.cons.injEq] at hms
          rw [← hms.1]; exact Or.inl rfl

theorem session_nodiscont (bk : Backend) (V : Nat → View β) (F : Store β) (ch : List Nat)
    (cut : Nat) (lost : Loss) (fuel : Nat) (hq : (V 0).l2b.cur ≠ "?") (hwf : WF bk F) :
    (sessionV bk V F ch cut lost fuel).cls ≠ .discont := by
  unfold sessionV
  have hh := handle_hello_id (V 0) 0 ch
  generalize (V 0).handle "" 0 ch = rp at hh ⊢
  obtain ⟨msgs, fin, rest⟩ := rp
  simp only at hh ⊢
  cases cut with
  | zero => simp
  | succ b =>
    cases msgs with
    | nil => exact finCls_ne_discont _
    | cons m ms =>
      simp only [Out.pre]
      split
      · next c hc => exact respErr_ne_discont hc
      · split
        · simp
        · next hne =>
          have hx : m.runId = (V 0).l2b.cur := (hh m ms rfl).resolve_right hne
          have hx2 : m.runId ≠ "?" := hx ▸ hq
          have hp := preSync_ok bk F m.runId m.offset hne hx2 hwf
          exact syncLoop_nodiscont bk V lost m.runId hne hx2 fuel 1 b _ _ _ hp.1 hp.2.1
            (preSync_pos bk F m.runId m.offset hne hx2 hwf)


/-! ### directories other than the adopted one are never created or changed -/

/-- every directory of `a` is `x`'s or was a directory of `b` (same contents) -/
def KSub (x : Id) (a b : Dirs β) : Prop := ∀ p ∈ a, p.1 = x ∨ p ∈ b

theorem KSub.refl (x : Id) (a : Dirs β) : KSub x a a := fun _ hp => Or.inr hp
theorem KSub.trans {x : Id} {a b c : Dirs β} (h1 : KSub x a b) (h2 : KSub x b c) : KSub x a c := by
  intro p hp
  rcases h1 p hp with h | h
  · exact Or.inl h
  · exact h2 p h

theorem ksub_dropKey (x y : Id) (ds : Dirs β) : KSub x (dropKey ds y) ds :=
  fun _ hp => Or.inr (mem_dropKey.mp hp).1

theorem ksub_setCur (F : Store β) (v : Option (Data β)) : KSub F.cur (F.setCur v).dirs F.dirs := by
  intro p hp
  simp only [Store.setCur, List.mem_cons] at hp
  rcases hp with rfl | hp
  · exact Or.inl rfl
  · exact Or.inr (mem_dropKey.mp hp).1

theorem ksub_reset (bk : Backend) (F : Store β) (x : Id) (hx1 : x ≠ "") (hx2 : x ≠ "?")
    (h : At bk F x) : KSub x (setRunId bk (delRunId bk F x) x).dirs F.dirs := by
  obtain ⟨hc, hd, _⟩ := h
  have hsp := special_false hx1 hx2
  cases bk with
  | disk =>
    rw [delRunId_disk_has hsp (hd rfl), setRunId_disk_nocur rfl,
      newRunIdDisk_new hsp (has_dropKey_self _ _ _)]
    intro p hp
    simp only [List.mem_append, List.mem_singleton] at hp
    rcases hp with hp | rfl
    · exact Or.inr (mem_dropKey.mp hp).1
    · exact Or.inl rfl
  | mem =>
    subst hc
    rw [delRunId_mem_cur]
    intro p hp
    simp [setRunId] at hp

theorem ksub_delRunId (bk : Backend) (F : Store β) (x y : Id) : KSub x (delRunId bk F y).dirs F.dirs := by
  cases bk with
  | disk =>
    simp only [delRunId]
    split
    · exact KSub.refl _ _
    · split
      · exact ksub_dropKey _ _ _
      · exact KSub.refl _ _
  | mem =>
    simp only [delRunId]
    split
    · exact KSub.refl _ _
    · intro p hp; cases hp

theorem ksub_aofRecv (F1 : Store β) (left : Nat) (ms : List (Msg β)) (fin : Fin) (budget : Nat) (lost : Loss) :
    KSub F1.cur (aofRecv F1 left ms fin budget lost).store.dirs F1.dirs := by
  unfold aofRecv
  simp only
  split
  · exact KSub.refl _ _
  · next F2 hw =>
    unfold aofWrite at hw
    split at hw
    · split at hw
      · cases hw; exact KSub.refl _ _
      · cases hw; exact ksub_setCur _ _
    · split at hw
      · cases hw; exact ksub_setCur _ _
      · cases hw

theorem ksub_aofSync (bk : Backend) (F : Store β) (x : Id) (m : Msg β) (ms : List (Msg β))
    (fin : Fin) (budget : Nat) (lost : Loss) (hx1 : x ≠ "") (hx2 : x ≠ "?") (hat : At bk F x) :
    KSub x (aofSync bk F x m ms fin budget lost).store.dirs F.dirs := by
  simp only [aofSync]
  rw [startPoint_at bk F x hx1 hx2 hat]
  split
  · have hr := reset_at bk F x hx1 hx2 hat
    have := ksub_aofRecv (setRunId bk (delRunId bk F x) x) m.offset.toNat ms fin budget lost
    rw [hr.1.1] at this
    exact this.trans (ksub_reset bk F x hx1 hx2 hat)
  · have := ksub_aofRecv F m.offset.toNat ms fin budget lost
    rw [hat.1] at this
    exact this

theorem syncLoop_ksub (bk : Backend) (V : Nat → View β) (lost : Loss) (x : Id)
    (hx1 : x ≠ "") (hx2 : x ≠ "?") :
    ∀ (fuel n budget : Nat) (ch : List Nat) (F : Store β) (fsp : Id × Int), At bk F x → fsp.1 = x →
      KSub x (syncLoopV bk V lost x fuel n budget ch F fsp).store.dirs F.dirs := by
  intro fuel
  induction fuel with
  | zero => intro n budget ch F fsp _ _; exact KSub.refl _ _
  | succ fuel ih =>
    intro n budget ch F fsp hat hfx
    unfold syncLoopV
    generalize (V n).handle fsp.1 fsp.2 ch = rp
    obtain ⟨msgs, fin, rest⟩ := rp
    simp only
    cases budget with
    | zero => exact KSub.refl _ _
    | succ b =>
      cases msgs with
      | nil => exact KSub.refl _ _
      | cons m ms =>
        simp only [Out.pre_store]
        split
        · exact KSub.refl _ _
        · split
          · exact ksub_delRunId _ _ _ _
          · split
            · rw [hfx]; exact ksub_aofSync bk F x m ms fin b lost hx1 hx2 hat
            · rw [hfx]
              have hr := reset_at bk F x hx1 hx2 hat
              have hk := ksub_reset bk F x hx1 hx2 hat
              generalize setRunId bk (delRunId bk F x) x = F1 at hr hk ⊢
              have hnone : KSub x (F1.setCur none).dirs F.dirs := by
                have := ksub_setCur F1 none
                rw [hr.1.1] at this
                exact this.trans hk
              split
              · exact hnone
              · split
                · exact hnone
                simp only [Out.pre_store]
                have hat2 := setCur_at bk F1 x (some ⟨m.offset.toNat, [], some ((rdbLoop fin b m.size.toNat ms).2.1.take m.size.toNat)⟩) hr.1
                have hcd := setCur_curData F1 (some ⟨m.offset.toNat, [], some ((rdbLoop fin b m.size.toNat ms).2.1.take m.size.toNat)⟩)
                have hk2 := ksub_setCur F1 (some ⟨m.offset.toNat, [], some ((rdbLoop fin b m.size.toNat ms).2.1.take m.size.toNat)⟩)
                rw [hr.1.1] at hk2
                generalize F1.setCur (some ⟨m.offset.toNat, [], some ((rdbLoop fin b m.size.toNat ms).2.1.take m.size.toNat)⟩) = F2 at hat2 hcd hk2 ⊢
                have hid2 := startPoint_at_id bk F2 x hx1 hx2 hat2 _ hcd
                rw [startPoint_at bk F2 x hx1 hx2 hat2]
                exact (ih _ _ _ F2 _ hat2 hid2).trans (hk2.trans hk)


theorem ksub_adopt (bk : Backend) (F : Store β) (x : Id) (hx1 : x ≠ "") (hx2 : x ≠ "?")
    (hwf : WF bk F) : KSub x (adopt bk F x).dirs F.dirs := by
  have hnew : ∀ G : Store β, KSub x (newRunIdDisk G x).dirs G.dirs := by
    intro G
    have hsp := special_false hx1 hx2
    cases hh : G.has x with
    | true => rw [newRunIdDisk_has hsp hh]; exact KSub.refl _ _
    | false =>
      rw [newRunIdDisk_new hsp hh]
      intro p hp
      simp only [List.mem_append, List.mem_singleton] at hp
      rcases hp with hp | rfl
      · exact Or.inr hp
      · exact Or.inl rfl
  unfold adopt
  cases bk with
  | disk =>
    obtain ⟨hcur, hq⟩ := hwf
    by_cases hc : F.cur = ""
    · have : (F.cur ≠ "" && F.cur ≠ x) = false := by simp [hc]
      rw [this]
      simp only [Bool.false_eq_true, if_false]
      rw [setRunId_disk_nocur hc]
      exact hnew F
    · have hhc : F.has F.cur = true := hcur.resolve_left hc
      by_cases hcx : F.cur = x
      · have : (F.cur ≠ "" && F.cur ≠ x) = false := by simp [hcx]
        rw [this]
        simp only [Bool.false_eq_true, if_false]
        rw [setRunId_at .disk F x hx1 hx2 (At.mk_disk hcx (hcx ▸ hhc))]
        exact KSub.refl _ _
      · have : (F.cur ≠ "" && F.cur ≠ x) = true := by simp [hc, hcx]
        rw [this]
        simp only [if_true]
        rw [delRunId_disk_has (special_false hc hq) hhc, setRunId_disk_nocur rfl]
        exact (hnew ⟨"", dropKey F.dirs F.cur⟩).trans (ksub_dropKey _ _ _)
  | mem =>
    intro p hp
    simp only [setRunId, List.mem_map] at hp
    obtain ⟨q, _, rfl⟩ := hp
    exact Or.inl rfl

theorem preSync_ksub (bk : Backend) (F : Store β) (x : Id) (loff : Int) (hx1 : x ≠ "")
    (hx2 : x ≠ "?") (hwf : WF bk F) : KSub x (preSync bk F x loff).1.dirs F.dirs := by
  unfold preSync
  have hs := startPoint_ok bk F x hx1 hx2 hwf
  generalize startPoint bk F x = r at hs ⊢
  obtain ⟨F1, sp⟩ := r
  obtain ⟨hwf1, hd1, hat1⟩ := hs
  simp only at hwf1 hd1 hat1 ⊢
  split
  · exact hd1 ▸ ksub_adopt bk F1 x hx1 hx2 hwf1
  · next hcond =>
    have hspx : sp.1 = x := by
      simp only [Bool.or_eq_true, decide_eq_true_eq, not_or, ne_eq, Decidable.not_not] at hcond
      exact hcond.2
    have hat := hat1 hspx
    split
    · split
      · rw [hspx]; exact hd1 ▸ ksub_reset bk F1 x hx1 hx2 hat
      · rw [setRunId_at bk F1 x hx1 hx2 hat]; exact hd1 ▸ KSub.refl _ _
    · exact hd1 ▸ KSub.refl _ _

/-- a session never creates or changes a directory other than the one of the id the
    leader announced in its handshake -/
theorem session_ksub (bk : Backend) (V : Nat → View β) (F : Store β) (ch : List Nat)
    (cut : Nat) (lost : Loss) (fuel : Nat) (hq : (V 0).l2b.cur ≠ "?") (hwf : WF bk F) :
    KSub (V 0).l2b.cur (sessionV bk V F ch cut lost fuel).store.dirs F.dirs := by
  unfold sessionV
  have hh := handle_hello_id (V 0) 0 ch
  generalize (V 0).handle "" 0 ch = rp at hh ⊢
  obtain ⟨msgs, fin, rest⟩ := rp
  simp only at hh ⊢
  cases cut with
  | zero => exact KSub.refl _ _
  | succ b =>
    cases msgs with
    | nil => exact KSub.refl _ _
    | cons m ms =>
      simp only [Out.pre_store]
      split
      · exact KSub.refl _ _
      · split
        · exact KSub.refl _ _
        · next hne =>
          have hx : m.runId = (V 0).l2b.cur := (hh m ms rfl).resolve_right hne
          have hx2 : m.runId ≠ "?" := hx ▸ hq
          have hp := preSync_ok bk F m.runId m.offset hne hx2 hwf
          have h1 := syncLoop_ksub bk V lost m.runId hne hx2 fuel 1 b rest _ _ hp.1 hp.2.1
          rw [← hx]
          exact h1.trans (preSync_ksub bk F m.runId m.offset hne hx2 hwf)

/-! ### a follower that holds data under the leader's id -/

theorem startPoint_sameid (bk : Backend) (F : Store β) (x : Id) (e : Data β) (hx1 : x ≠ "")
    (hx2 : x ≠ "?") (hF : F.get x = some (some e)) (hm : bk = .mem → F.cur = x) :
    startPoint bk F x = (⟨x, F.dirs⟩, (x, (e.right : Int))) := by
  have hsp := special_false hx1 hx2
  have hhx : F.has x = true := by simp [Store.has, hF]
  cases bk with
  | disk =>
    simp only [startPoint, hsp, Bool.false_eq_true, if_false, hF]
    have : ¬ latest (some e) < 0 := by simp only [latest]; omega
    rw [if_neg this, setRunId_disk_has hsp hhx]
    rfl
  | mem =>
    have hcx := hm rfl
    have hcd : F.curData = some e := by simp [Store.curData, hcx, hF]
    simp only [startPoint, hsp, hcx, Bool.not_false, Bool.true_and, decide_true, if_true, hcd, latest]
    rw [← hcx]

theorem at_sameid (bk : Backend) (F : Store β) (x : Id) (e : Data β) (hwf : WF bk F)
    (hF : F.get x = some (some e)) (hm : bk = .mem → F.cur = x) : At bk (⟨x, F.dirs⟩ : Store β) x := by
  have hhx : F.has x = true := by simp [Store.has, hF]
  cases bk with
  | disk => exact At.mk_disk rfl hhx
  | mem =>
    refine At.mk_mem rfl ?_
    intro p hp
    have := hwf.1 p hp
    rw [hm rfl] at this
    exact this

theorem curData_sameid (F : Store β) (x : Id) (e : Data β) (hF : F.get x = some (some e)) :
    (⟨x, F.dirs⟩ : Store β).curData = some e := by
  simp only [Store.curData, Store.get]
  have : getD F.dirs x = some (some e) := hF
  rw [this]

/-- `preSync` of a follower that holds `e` under the leader's id: it keeps its own end,
    unless the leader is more than `tenMB` ahead — then it deletes its copy -/
theorem preSync_sameid (bk : Backend) (F : Store β) (x : Id) (e : Data β) (loff : Int)
    (hx1 : x ≠ "") (hx2 : x ≠ "?") (hwf : WF bk F) (hF : F.get x = some (some e))
    (hm : bk = .mem → F.cur = x) :
    preSync bk F x loff =
      if loff - (e.right : Int) > tenMB then
        (setRunId bk (delRunId bk ⟨x, F.dirs⟩ x) x, (x, loff))
      else (⟨x, F.dirs⟩, (x, (e.right : Int))) := by
  have hat := at_sameid bk F x e hwf hF hm
  unfold preSync
  simp only [startPoint_sameid bk F x e hx1 hx2 hF hm, hx1, hx2, decide_false, Bool.false_or,
    ne_eq, not_true_eq_false, Bool.false_eq_true, if_false]
  by_cases hg : loff - (e.right : Int) > tenMB
  · have h0 : loff - (e.right : Int) > 0 := by
      have : (0 : Int) ≤ tenMB := by simp [tenMB, Gen.replicaGapClear]
      omega
    rw [if_pos h0, if_pos hg, if_pos hg]
  · by_cases h0 : loff - (e.right : Int) > 0
    · simp only [if_pos h0, if_neg hg, setRunId_at bk _ x hx1 hx2 hat]
    · simp only [if_neg h0, if_neg hg]


/-! ### a leader that serves run id `x` and does not change -/

structure Serves (L : Leader β) (x : Id) : Prop where
  gate : L.serving = true
  started : L.started = true
  ids : ∃ tl, L.inputIds = x :: tl
  cur : L.cur = x

theorem hello_static {L : Leader β} {x : Id} (hs : Serves L x) (ch : List Nat) :
    (View.const L).handle "" 0 ch = ⟨[⟨.info, x, false, latest L.data, 0, []⟩], .eof, ch⟩ := by
  obtain ⟨tl, hi⟩ := hs.ids
  simp [View.handle, View.const, hs.gate, hs.started, hi, hs.cur]

theorem meta_static {L : Leader β} {x : Id} (hs : Serves L x) (hx1 : x ≠ "") (hx2 : x ≠ "?")
    (roff : Int) (ch : List Nat) (hle : ¬ roff - latest L.data > 0) :
    (View.const L).handle x roff ch =
      L.sendData x (if L.valid x roff then roff else latest L.data) ch := by
  obtain ⟨tl, hi⟩ := hs.ids
  have : ((x = "") || (x = "?")) = false := by simp [hx1, hx2]
  have hle' : ¬ latest L.data < roff := by omega
  simp [View.handle, View.const, hs.gate, hs.started, hi, hs.cur, this, hle']
  rfl

theorem handover_static {L : Leader β} {x : Id} (hs : Serves L x) (hx1 : x ≠ "") (hx2 : x ≠ "?")
    (roff : Int) (ch : List Nat) (hgt : roff - latest L.data > 0) :
    (View.const L).handle x roff ch = ⟨[⟨.handover, x, false, latest L.data, 0, []⟩], .err .role, ch⟩ := by
  obtain ⟨tl, hi⟩ := hs.ids
  have : ((x = "") || (x = "?")) = false := by simp [hx1, hx2]
  have hgt' : latest L.data < roff := by omega
  simp [View.handle, View.const, hs.gate, hs.started, hi, hs.cur, this, hgt']

theorem session_static {L : Leader β} {x : Id} (hs : Serves L x) (hx1 : x ≠ "") (bk : Backend)
    (F : Store β) (ch : List Nat) (c : Nat) (lost : Loss) (fuel : Nat) :
    session bk L F ch (c + 1) lost fuel =
      Out.pre [⟨.info, x, false, latest L.data, 0, []⟩]
        (syncLoopV bk (fun _ => View.const L) lost x fuel 1 c ch
          (preSync bk F x (latest L.data)).1 (preSync bk F x (latest L.data)).2) := by
  simp only [session, sessionV, hello_static hs, respErr, hx1, if_false]

/-- the stream reader opened at the leader's newest offset: the announcement -/
theorem sendData_newest {L : Leader β} {x : Id} (hc : L.cur = x) (d : Data β) (hd : L.data = some d)
    (hseg : L.hasSegs d = true) (ch : List Nat) :
    ∃ ms fin rest, L.sendData x (d.right : Int) ch = ⟨⟨.info, "", true, d.right, -1, []⟩ :: ms, fin, rest⟩ := by
  have hin : L.inAof d (d.right : Int) = true := by
    simp only [Leader.inAof, hseg, Bool.true_and, Bool.and_eq_true, Data.right]
    constructor <;> (apply decide_eq_true; omega)
  simp only [Leader.sendData, hd, hin, if_true, hc, ne_eq, not_true_eq_false, if_false]
  split
  · exact ⟨_, _, _, rfl⟩
  · exact ⟨_, _, _, rfl⟩

/-- whatever the receive half stores on an empty cache starts at the announced offset -/
theorem aofRecv_fresh (F1 : Store β) (left : Nat) (ms : List (Msg β)) (fin : Fin) (budget : Nat) (lost : Loss)
    (he : F1.curData = none) (e' : Data β)
    (h : (aofRecv F1 left ms fin budget lost).store.curData = some e') :
    e'.base = left ∧ e'.snap = none := by
  unfold aofRecv at h
  simp only at h
  generalize (lost.written ((aofLoop fin budget ms).2.1.take ((aofLoop fin budget ms).2.1.length - lost.pipe))).1 = p at h
  unfold aofWrite at h
  rw [he] at h
  simp only at h
  cases p with
  | nil => simp only at h; rw [he] at h; cases h
  | cons a as =>
    simp only at h
    rw [setCur_curData] at h
    cases h
    exact ⟨rfl, rfl⟩

/-- `aofSync` when the leader's stream starts beyond everything the follower holds (or the
    follower holds nothing): what it stores starts at the announced offset -/
theorem aofSync_fresh (bk : Backend) (F : Store β) (x : Id) (m : Msg β) (ms : List (Msg β))
    (fin : Fin) (budget : Nat) (lost : Loss) (hx1 : x ≠ "") (hx2 : x ≠ "?") (hat : At bk F x)
    (hbeyond : ∀ e, F.curData = some e → (e.right : Int) < m.offset) (e' : Data β)
    (h : (aofSync bk F x m ms fin budget lost).store.curData = some e') :
    e'.base = m.offset.toNat ∧ e'.snap = none := by
  simp only [aofSync] at h
  rw [startPoint_at bk F x hx1 hx2 hat] at h
  cases hcd : F.curData with
  | none =>
    split at h
    · exact aofRecv_fresh _ _ _ _ _ _ (reset_at bk F x hx1 hx2 hat).2.2 e' h
    · exact aofRecv_fresh _ _ _ _ _ _ hcd e' h
  | some e =>
    have hlt := hbeyond e hcd
    rw [startPoint_at_off bk F x hx1 hx2 hat e hcd] at h
    have : (decide (m.offset > (e.right : Int)) && decide (x ≠ "?")) = true := by simp [hlt, hx2]
    simp only [this, if_true] at h
    exact aofRecv_fresh _ _ _ _ _ _ (reset_at bk F x hx1 hx2 hat).2.2 e' h


/-- a follower that holds nothing for `x` asks an empty leader (offset -1) at -1 -/
theorem preSync_nodata_off (bk : Backend) (F : Store β) (x : Id) (hx1 : x ≠ "") (hx2 : x ≠ "?")
    (hwf : WF bk F) (hnot : ∀ e, F.get x = some (some e) → False) :
    (preSync bk F x (-1)).2.2 = -1 := by
  have hsp := special_false hx1 hx2
  -- StartPoint answers with another id, or with (x, -1)
  have hst : (startPoint bk F x).2.1 ≠ x ∨ (startPoint bk F x).2 = (x, -1) := by
    cases bk with
    | disk =>
      simp only [startPoint, hsp, Bool.false_eq_true, if_false]
      cases hg : F.get x with
      | none =>
        left
        have hnx : F.has x = false := by simp [Store.has, hg]
        simp only
        by_cases hc : F.cur = ""
        · simp [hc]; exact fun h => hx2 h.symm
        · simp only [hc, if_false]
          intro e
          have := hwf.1.resolve_left hc
          rw [e, hnx] at this; cases this
      | some v =>
        cases v with
        | some e => exact absurd hg (fun h => hnot e h)
        | none => left; simp [latest]; exact fun h => hx2 h.symm
    | mem =>
      simp only [startPoint]
      split
      · next hc =>
        right
        have hxc : x = F.cur := by simpa [hsp] using hc
        have hcd : F.curData = none := by
          unfold Store.curData
          split
          · next d hd => exact absurd (hxc ▸ hd) (fun h => hnot d h)
          · rfl
        simp only [hcd, latest, ← hxc]
      · left; simp; exact fun h => hx2 h.symm
  unfold preSync
  generalize startPoint bk F x = r at hst
  obtain ⟨F1, sp⟩ := r
  simp only at hst ⊢
  rcases hst with hne | heq
  · have : (sp.1 = "?" || sp.1 = "" || sp.1 ≠ x) = true := by simp [hne]
    rw [if_pos this]
  · rw [heq]
    simp only [hx1, hx2, decide_false, Bool.false_or, ne_eq, not_true_eq_false, Bool.false_eq_true,
      if_false]
    have : ¬ ((-1 : Int) - (-1) > 0) := by omega
    rw [if_neg this]


/-! ### progress: an uninterrupted session brings the follower to the leader's end -/

theorem chop_nonempty (ch : List Nat) (xs : List β) : ∀ c ∈ (chop ch xs).1, c ≠ [] := by
  induction ch generalizing xs with
  | nil => cases xs <;> simp [chop]
  | cons k ks ih =>
    cases xs with
    | nil => simp [chop]
    | cons a as =>
      simp only [chop]
      split
      · exact ih _
      · next hk =>
        intro c hc
        simp only [List.mem_cons] at hc
        rcases hc with rfl | hc
        · cases k with
          | zero => exact absurd rfl hk
          | succ k => simp
        · exact ih _ c hc

theorem chop_length_le (ch : List Nat) (xs : List β) : (chop ch xs).1.length ≤ xs.length := by
  have h1 := chop_nonempty ch xs
  have h2 := chop_flatten ch xs
  generalize (chop ch xs).1 = cs at h1 h2
  rw [← h2]
  clear h2
  induction cs with
  | nil => simp
  | cons c cs ih =>
    have hc : c ≠ [] := h1 c (List.mem_cons_self ..)
    have := ih (fun c' hc' => h1 c' (List.mem_cons_of_mem _ hc'))
    have hl : 0 < c.length := List.length_pos_iff.mpr hc
    simp only [List.length_cons, List.flatten_cons, List.length_append]
    omega

theorem payload_cont (o : Int) (c : List β) :
    payload (⟨.cont, "", false, o, c.length, c⟩ : Msg β) = c := by simp [payload]

theorem aofLoop_conts_all (n : Nat) (o : Int) (cs : List (List β)) (hn : cs.length ≤ n) :
    (aofLoop .blocks n (conts o cs)).2.1 = cs.flatten ∧ (aofLoop .blocks n (conts o cs)).2.2 = .cut := by
  induction cs generalizing n o with
  | nil => cases n <;> simp [conts, aofLoop, finCls]
  | cons c cs ih =>
    cases n with
    | zero => simp at hn
    | succ n =>
      have := ih n (o + c.length) (by simpa using hn)
      simp only [conts, aofLoop, respErr, payload_cont, List.flatten_cons, this]
      exact ⟨trivial, trivial⟩

theorem rdbLoop_conts_all (fin : Fin) (n : Nat) (o : Int) (cs : List (List β)) (hn : cs.length ≤ n)
    (hne : ∀ c ∈ cs, c ≠ []) :
    rdbLoop fin n cs.flatten.length (conts o cs) = (conts o cs, cs.flatten, none) := by
  induction cs generalizing n o with
  | nil => simp [conts, rdbLoop]
  | cons c cs ih =>
    cases n with
    | zero => simp at hn
    | succ n =>
      have hc : 0 < c.length := List.length_pos_iff.mpr (hne c (List.mem_cons_self ..))
      obtain ⟨r, hr⟩ : ∃ r, (c :: cs).flatten.length = r + 1 := by
        simp only [List.flatten_cons, List.length_append]
        exact ⟨c.length + cs.flatten.length - 1, by omega⟩
      have hrem : r + 1 - c.length = cs.flatten.length := by
        simp only [List.flatten_cons, List.length_append] at hr; omega
      rw [hr]
      simp only [conts, rdbLoop, respErr, payload_cont, hrem]
      rw [ih n (o + c.length) (by simpa using hn) (fun c' hc' => hne c' (List.mem_cons_of_mem _ hc'))]
      simp

theorem conts_length (o : Int) (cs : List (List β)) : (conts o cs).length = cs.length := by
  induction cs generalizing o with
  | nil => rfl
  | cons c cs ih => simp [conts, ih]

/-- the receive half with everything delivered and nothing lost -/
theorem aofRecv_all (F1 : Store β) (off : Nat) (o : Int) (cs : List (List β)) (b : Nat)
    (hb : cs.length ≤ b)
    (h1 : ∀ e, F1.curData = some e → e.right = off) :
    (aofRecv F1 off (conts o cs) .blocks b 0).stage = .aof ∧
    (aofRecv F1 off (conts o cs) .blocks b 0).cls = .cut ∧
    (∀ e', (aofRecv F1 off (conts o cs) .blocks b 0).store.curData = some e' →
        e'.right = off + cs.flatten.length) ∧
    ((aofRecv F1 off (conts o cs) .blocks b 0).store.curData = none → cs.flatten = []) := by
  have ha := aofLoop_conts_all b o cs hb
  unfold aofRecv
  simp only [ha.1, ha.2, Loss.zero_pipe, Loss.written_zero, Nat.sub_zero, List.take_length,
    Bool.false_eq_true, if_false]
  unfold aofWrite
  cases hcd : F1.curData with
  | none =>
    simp only
    cases hp : cs.flatten with
    | nil => simp [hcd]
    | cons a as =>
      simp only [setCur_curData]
      refine ⟨trivial, trivial, ?_, ?_⟩
      · intro e' he'; cases he'; simp [Data.right]
      · intro h; cases h
  | some e =>
    have := h1 e hcd
    simp only [this, if_true, setCur_curData]
    refine ⟨trivial, trivial, ?_, ?_⟩
    · intro e' he'; cases he'
      simp only [Data.right, List.length_append] at this ⊢
      omega
    · intro h; cases h

/-- `aofSync` with everything delivered: the follower ends at `off + |bytes sent|` -/
theorem aofSync_all (bk : Backend) (G : Store β) (x : Id) (off : Int) (cs : List (List β)) (b : Nat)
    (hx1 : x ≠ "") (hx2 : x ≠ "?") (hat : At bk G x) (h0 : 0 ≤ off) (hb : cs.length ≤ b)
    (hle : ∀ e, G.curData = some e → (e.right : Int) ≤ off) :
    let o := aofSync bk G x ⟨.info, "", true, off, -1, []⟩ (conts off cs) .blocks b 0
    o.stage = .aof ∧ o.cls = .cut ∧
      (∀ e', o.store.curData = some e' → (e'.right : Int) = off + cs.flatten.length) ∧
      (o.store.curData = none → cs.flatten = []) := by
  simp only [aofSync]
  rw [startPoint_at bk G x hx1 hx2 hat]
  have hfin : ∀ F1 : Store β, (∀ e, F1.curData = some e → e.right = off.toNat) →
      (aofRecv F1 off.toNat (conts off cs) .blocks b 0).stage = .aof ∧
      (aofRecv F1 off.toNat (conts off cs) .blocks b 0).cls = .cut ∧
      (∀ e', (aofRecv F1 off.toNat (conts off cs) .blocks b 0).store.curData = some e' →
        (e'.right : Int) = off + cs.flatten.length) ∧
      ((aofRecv F1 off.toNat (conts off cs) .blocks b 0).store.curData = none → cs.flatten = []) := by
    intro F1 h1
    have := aofRecv_all F1 off.toNat off cs b hb h1
    refine ⟨this.1, this.2.1, ?_, this.2.2.2⟩
    intro e' he'
    have := this.2.2.1 e' he'
    omega
  cases hcd : G.curData with
  | none =>
    split
    · apply hfin; intro e he; rw [(reset_at bk G x hx1 hx2 hat).2.2] at he; cases he
    · apply hfin; intro e he; rw [hcd] at he; cases he
  | some e =>
    have hl := hle e hcd
    rw [startPoint_at_off bk G x hx1 hx2 hat e hcd]
    by_cases hgt : off > (e.right : Int)
    · have : (decide (off > (e.right : Int)) && decide (x ≠ "?")) = true := by simp [hgt, hx2]
      simp only [this, if_true]
      apply hfin; intro e1 he1; rw [(reset_at bk G x hx1 hx2 hat).2.2] at he1; cases he1
    · have : (decide (off > (e.right : Int)) && decide (x ≠ "?")) = false := by simp [hgt]
      simp only [this, Bool.false_eq_true, if_false]
      apply hfin; intro e1 he1; rw [hcd] at he1; cases he1; omega


@[simp] theorem Out.pre_stage (ms : List (Msg β)) (o : Out β) : (Out.pre ms o).stage = o.stage := rfl
@[simp] theorem Out.pre_cls (ms : List (Msg β)) (o : Out β) : (Out.pre ms o).cls = o.cls := rfl

/-- the session ended in the stream transfer with nothing left to fetch: the follower is
    at the leader's end (including what arrived meanwhile) -/
def Reached (L : Leader β) (d : Data β) (o : Out β) : Prop :=
  o.stage = .aof ∧ o.cls = .cut ∧
    (∀ e', o.store.curData = some e' → (e'.right : Int) = (d.right : Int) + L.tail.length) ∧
    (o.store.curData = none → L.tail = [])

theorem sendData_aof_eval {L : Leader β} {x : Id} (hc : L.cur = x) (hh : L.halt = none) (d : Data β)
    (hd : L.data = some d) (off : Int) (hin : L.inAof d off = true) (ch : List Nat) :
    L.sendData x off ch =
      ⟨⟨.info, "", true, off, -1, []⟩ ::
          conts off (chop ch (d.bytes.drop (off - (d.base : Int)).toNat ++ L.tail)).1, .blocks,
        (chop ch (d.bytes.drop (off - (d.base : Int)).toNat ++ L.tail)).2⟩ := by
  simp only [Leader.sendData, hd, hin, if_true, hc, ne_eq, not_true_eq_false, if_false, hh]

theorem sendData_rdb_eval {L : Leader β} {x : Id} (hc : L.cur = x) (hh : L.halt = none) (d : Data β)
    (hd : L.data = some d) (off : Int) (hin : L.inAof d off = false) (sn : List β) (hsn : d.snap = some sn)
    (hle : off ≤ (d.base : Int)) (ch : List Nat) :
    L.sendData x off ch =
      ⟨⟨.info, "", false, d.base, sn.length, []⟩ :: conts off (chop ch sn).1, .eof, (chop ch sn).2⟩ := by
  simp only [Leader.sendData, hd, hin, Bool.false_eq_true, if_false, hsn, hle, if_true, hc, ne_eq,
    not_true_eq_false, hh]

/-- one `metaSync` round answered with the stream -/
theorem syncLoop_reach_aof (bk : Backend) (L : Leader β) (x : Id) (d : Data β) (hs : Serves L x)
    (hh : L.halt = none) (hx1 : x ≠ "") (hx2 : x ≠ "?") (hd : L.data = some d)
    (fuel n b : Nat) (ch : List Nat) (G : Store β) (roff : Int) (hat : At bk G x)
    (hle : roff ≤ (d.right : Int))
    (hpos : ∀ e, G.curData = some e → (e.right : Int) = roff)
    (hin : L.inAof d (if L.valid x roff then roff else latest L.data) = true)
    (hb : d.bytes.length + L.tail.length ≤ b) :
    Reached L d (syncLoopV bk (fun _ => View.const L) 0 x (fuel + 1) n (b + 1) ch G (x, roff)) := by
  have hlat : latest L.data = (d.right : Int) := by rw [hd]; rfl
  have hnh : ¬ roff - latest L.data > 0 := by rw [hlat]; omega
  generalize hoff : (if L.valid x roff then roff else latest L.data) = off at hin
  have hge : roff ≤ off := by rw [← hoff]; split <;> omega
  have hbounds : (d.base : Int) ≤ off ∧ off ≤ (d.base : Int) + (d.bytes.length : Int) := by
    have hin2 := hin
    simp [Leader.inAof, Data.right] at hin2
    obtain ⟨⟨_, h1⟩, h2⟩ := hin2
    have h2 := of_decide_eq_true h2
    constructor <;> omega
  obtain ⟨hlo, hhi⟩ := hbounds
  unfold syncLoopV
  simp only
  rw [meta_static hs hx1 hx2 roff ch hnh, hoff, sendData_aof_eval hs.cur hh d hd off hin ch]
  simp only [respErr, reduceCtorEq, if_false, if_true, Out.pre_stage, Out.pre_cls, Out.pre_store, Reached]
  have hk : (off - (d.base : Int)).toNat ≤ d.bytes.length := by omega
  have hlen := chop_length_le ch (d.bytes.drop (off - (d.base : Int)).toNat ++ L.tail)
  have hfl := chop_flatten ch (d.bytes.drop (off - (d.base : Int)).toNat ++ L.tail)
  generalize (chop ch (d.bytes.drop (off - (d.base : Int)).toNat ++ L.tail)).1 = cs at hlen hfl
  simp only [List.length_append, List.length_drop] at hlen
  have hall := aofSync_all bk G x off cs b hx1 hx2 hat (by omega) (by omega)
    (by intro e he; rw [hpos e he]; exact hge)
  simp only at hall
  refine ⟨hall.1, hall.2.1, ?_, ?_⟩
  · intro e' he'
    rw [hall.2.2.1 e' he', hfl]
    simp only [List.length_append, List.length_drop, Data.right]
    omega
  · intro hn
    have := hall.2.2.2 hn
    rw [hfl] at this
    exact (List.append_eq_nil_iff.mp this).2

/-- a `metaSync` round answered with the snapshot, then one answered with the stream -/
theorem syncLoop_reach (bk : Backend) (L : Leader β) (x : Id) (d : Data β) (hs : Serves L x)
    (hh : L.halt = none) (hx1 : x ≠ "") (hx2 : x ≠ "?") (hd : L.data = some d) (hw : L.hasSegs d = true)
    (fuel n b : Nat) (ch : List Nat) (G : Store β) (roff : Int) (hat : At bk G x)
    (hle : roff ≤ (d.right : Int))
    (hpos : ∀ e, G.curData = some e → (e.right : Int) = roff)
    (hb : (d.snap.getD []).length + 1 + d.bytes.length + L.tail.length ≤ b) :
    Reached L d (syncLoopV bk (fun _ => View.const L) 0 x (fuel + 2) n (b + 1) ch G (x, roff)) := by
  have hlat : latest L.data = (d.right : Int) := by rw [hd]; rfl
  have hnh : ¬ roff - latest L.data > 0 := by rw [hlat]; omega
  by_cases hin : L.inAof d (if L.valid x roff then roff else latest L.data) = true
  · exact syncLoop_reach_aof bk L x d hs hh hx1 hx2 hd (fuel + 1) n b ch G roff hat hle hpos hin (by omega)
  · -- not covered by a segment: the offset is valid through the snapshot
    have hnewest : L.inAof d (d.right : Int) = true := by
      simp only [Leader.inAof, hw, Bool.true_and, Bool.and_eq_true, Data.right]
      constructor <;> (apply decide_eq_true; omega)
    have hv : L.valid x roff = true := by
      cases hv : L.valid x roff with
      | true => rfl
      | false => rw [hv, hlat] at hin; exact absurd hnewest (by simpa using hin)
    rw [hv] at hin
    simp only [if_true] at hin
    have hrdb : inRdb d roff = true := by
      simp only [Leader.valid, hs.cur, decide_true, Bool.true_and, hd] at hv
      cases h1 : L.inAof d roff with
      | true => exact absurd h1 hin
      | false => rw [h1] at hv; simpa using hv
    simp only [inRdb, Bool.and_eq_true, decide_eq_true_eq] at hrdb
    obtain ⟨hsn, hrb⟩ := hrdb
    obtain ⟨sn, hsnap⟩ := Option.isSome_iff_exists.mp hsn
    have hin0 : L.inAof d roff = false := by simpa using hin
    unfold syncLoopV
    simp only
    rw [meta_static hs hx1 hx2 roff ch hnh, hv]
    simp only [if_true]
    rw [sendData_rdb_eval hs.cur hh d hd roff hin0 sn hsnap hrb ch]
    simp only [respErr, reduceCtorEq, if_false, Bool.false_eq_true, Int.toNat_natCast]
    have hlen := chop_length_le ch sn
    have hfl := chop_flatten ch sn
    have hne := chop_nonempty ch sn
    generalize hrest : (chop ch sn).2 = rest
    generalize (chop ch sn).1 = cs at hlen hfl hne
    have hsl : sn.length = cs.flatten.length := by rw [hfl]
    have hb1 : cs.length ≤ b := by
      rw [hsnap] at hb; simp only [Option.getD_some] at hb; omega
    rw [hsl, rdbLoop_conts_all .eof b roff cs hb1 hne]
    simp only [List.take_length, conts_length, Loss.written_zero, Bool.false_eq_true, if_false]
    have hr := reset_at bk G x hx1 hx2 hat
    generalize setRunId bk (delRunId bk G x) x = F1 at hr
    have hat2 := setCur_at bk F1 x (some ⟨d.base, [], some cs.flatten⟩) hr.1
    have hcd := setCur_curData F1 (some ⟨d.base, [], some cs.flatten⟩)
    generalize F1.setCur (some ⟨d.base, [], some cs.flatten⟩) = F2 at hat2 hcd
    rw [startPoint_at bk F2 x hx1 hx2 hat2, startPoint_at_off bk F2 x hx1 hx2 hat2 _ hcd]
    simp only [Data.right, List.length_nil, Nat.add_zero]
    have hinb0 : L.inAof d (d.base : Int) = true := by
      simp only [Leader.inAof, hw, Bool.true_and, Bool.and_eq_true, Data.right]
      constructor <;> (apply decide_eq_true; omega)
    have hvb : L.valid x (d.base : Int) = true := by
      simp only [Leader.valid, hs.cur, decide_true, Bool.true_and, hd, hinb0, Bool.true_or]
    have hinb : L.inAof d (if L.valid x (d.base : Int) then (d.base : Int) else latest L.data) = true := by
      rw [hvb]
      simp only [if_true]
      exact hinb0
    obtain ⟨b', hb'⟩ : ∃ b', b - cs.length = b' + 1 := by
      rw [hsnap] at hb; simp only [Option.getD_some] at hb
      exact ⟨b - cs.length - 1, by omega⟩
    rw [hb']
    have := syncLoop_reach_aof bk L x d hs hh hx1 hx2 hd fuel (n + 1) b' rest F2 (d.base : Int) hat2
      (by simp only [Data.right]; omega) (by intro e he; rw [hcd] at he; cases he; simp [Data.right]) hinb
      (by rw [hsnap] at hb; simp only [Option.getD_some] at hb; omega)
    simpa [Reached] using this


/-- a follower that is not ahead of `R` asks at `R` or below -/
theorem preSync_off_le (bk : Backend) (F : Store β) (x : Id) (R : Int) (hx1 : x ≠ "") (hx2 : x ≠ "?")
    (hwf : WF bk F) (hR : -1 ≤ R) (hna : ∀ e, F.get x = some (some e) → (e.right : Int) ≤ R) :
    (preSync bk F x R).2.2 ≤ R := by
  have hsp := special_false hx1 hx2
  have hst : (startPoint bk F x).2.1 ≠ x ∨ (startPoint bk F x).2.2 ≤ R := by
    cases bk with
    | disk =>
      simp only [startPoint, hsp, Bool.false_eq_true, if_false]
      cases hg : F.get x with
      | none =>
        left
        have hnx : F.has x = false := by simp [Store.has, hg]
        simp only
        by_cases hc : F.cur = ""
        · simp [hc]; exact fun h => hx2 h.symm
        · simp only [hc, if_false]
          intro e
          have := hwf.1.resolve_left hc
          rw [e, hnx] at this; cases this
      | some v =>
        cases v with
        | some e =>
          right
          have : ¬ latest (some e) < 0 := by simp only [latest]; omega
          simp only [this, if_false, latest]
          exact hna e hg
        | none => left; simp [latest]; exact fun h => hx2 h.symm
    | mem =>
      simp only [startPoint]
      split
      · next hc =>
        right
        have hxc : x = F.cur := by simpa [hsp] using hc
        simp only
        cases hcd : F.curData with
        | none => simpa [latest] using hR
        | some e =>
          simp only [latest]
          apply hna e
          unfold Store.curData at hcd
          split at hcd
          · next d hd => cases hcd; rw [hxc]; exact hd
          · cases hcd
      · left; simp; exact fun h => hx2 h.symm
  unfold preSync
  generalize startPoint bk F x = r at hst
  obtain ⟨F1, sp⟩ := r
  simp only at hst ⊢
  split
  · exact Int.le_refl _
  · next hcond =>
    have hspx : sp.1 = x := by
      simp only [Bool.or_eq_true, decide_eq_true_eq, not_or, ne_eq, Decidable.not_not] at hcond
      exact hcond.2
    have ho : sp.2 ≤ R := hst.resolve_left (fun h => h hspx)
    split
    · split
      · exact Int.le_refl _
      · exact ho
    · exact ho


/-! ### hand-over on the leader's side -/

theorem conts_code (o : Int) (cs : List (List β)) : ∀ m ∈ conts o cs, m.code = .cont := by
  induction cs generalizing o with
  | nil => intro m hm; cases hm
  | cons c cs ih =>
    intro m hm
    simp only [conts, List.mem_cons] at hm
    rcases hm with rfl | hm
    · rfl
    · exact ih _ m hm

theorem sendData_no_handover (L : Leader β) (rid : Id) (off : Int) (ch : List Nat) :
    ∀ m ∈ (L.sendData rid off ch).msgs, m.code ≠ .handover := by
  have hc : ∀ (o : Int) (cs : List (List β)) (e : HaltEnd) (m : Msg β),
      m ∈ conts o cs ++ (e.msgs : List (Msg β)) → m.code ≠ .handover := by
    intro o cs e m hm
    simp only [List.mem_append] at hm
    rcases hm with hm | hm
    · rw [conts_code o cs m hm]; decide
    · cases e <;> simp [HaltEnd.msgs, ctl] at hm <;> (subst hm; simp)
  intro m hm
  unfold Leader.sendData at hm
  split at hm
  · simp [ctl] at hm; subst hm; simp
  · split at hm
    · split at hm
      · simp [ctl] at hm; subst hm; simp
      · split at hm
        · simp only [List.mem_cons] at hm
          rcases hm with rfl | hm
          · simp
          · rw [conts_code _ _ m hm]; decide
        · simp only [List.mem_cons] at hm
          rcases hm with rfl | hm
          · simp
          · exact hc _ _ _ m hm
    · split at hm
      · simp [ctl] at hm; subst hm; simp
      · split at hm
        · split at hm
          · simp [ctl] at hm; subst hm; simp
          · split at hm
            · simp only [List.mem_cons] at hm
              rcases hm with rfl | hm
              · simp
              · rw [conts_code _ _ m hm]; decide
            · simp only [List.mem_cons] at hm
              rcases hm with rfl | hm
              · simp
              · exact hc _ _ _ m hm
        · simp [ctl] at hm; subst hm; simp

/-- whenever the leader answers `HANDOVER`, `ServiceReplica` returns a role error, on which
    `SyncerCmd.Sync` stops this input's syncer (so that the lease is resigned) -/
theorem handover_stops_leader (v : View β) (rid : Id) (roff : Int) (ch : List Nat)
    (h : ∃ m ∈ (v.handle rid roff ch).msgs, m.code = .handover) :
    syncReact (v.handle rid roff ch).fin = .stopSyncer := by
  obtain ⟨m, hm, hcode⟩ := h
  unfold View.handle at hm ⊢
  split
  · rename_i h1; rw [if_pos h1] at hm; simp [ctl] at hm; subst hm; simp at hcode
  · rename_i h1
    rw [if_neg h1] at hm
    split
    · rename_i h2; rw [if_pos h2] at hm; cases hm
    · rename_i h2
      rw [if_neg h2] at hm
      split
      · rename_i hi; rw [hi] at hm; simp [ctl] at hm; subst hm; simp at hcode
      · rename_i i0 tl hi
        rw [hi] at hm
        simp only at hm ⊢
        have hpre : ∀ m' ∈ (if i0 ≠ v.l1b.cur then [ctl .clear] else ([] : List (Msg β))), m'.code ≠ .handover := by
          intro m' hm'
          split at hm'
          · simp [ctl] at hm'; subst hm'; simp
          · cases hm'
        simp only [List.mem_append] at hm
        rcases hm with hm | hm
        · exact absurd hcode (hpre m hm)
        · by_cases h3 : (rid = "" || rid = "?") = true
          · rw [if_pos h3] at hm; simp at hm; subst hm; simp at hcode
          · rw [if_neg h3] at hm ⊢
            by_cases h4 : v.l2.inputIds.head? ≠ some rid
            · rw [if_pos h4] at hm; simp [ctl] at hm; subst hm; simp at hcode
            · rw [if_neg h4] at hm ⊢
              by_cases h5 : roff - latest v.l2b.data > 0
              · rw [if_pos h5]; rfl
              · rw [if_neg h5] at hm
                exact absurd hcode (sendData_no_handover _ _ _ _ m hm)

end GunYu.Replica
