/-
  C04 — the output buffer of `lzfDecompress` (Model/RdbLzf.lean): it follows the
  bytes really produced, one step ahead, whatever the declared length says.
-/
import GunYu.Model.RdbLzf
import GunYu.Model.RdbAlloc

namespace GunYu.RdbLzf
open GunYu

theorem room_ge (step blen need outlen : Nat) : blen ≤ room step blen need outlen := by
  unfold room; split
  · exact Nat.le_refl _
  · omega

theorem room_le_outlen (step blen need outlen : Nat) (h : blen ≤ outlen) : room step blen need outlen ≤ outlen := by
  unfold room; split
  · exact h
  · omega

theorem room_le_ahead (step blen need outlen : Nat) : room step blen need outlen ≤ max blen (need + step) := by
  unfold room; split <;> omega

/-- a run that is allowed (`need ≤ outlen`) fits after `lzfRoom` -/
theorem room_fits (step blen need outlen : Nat) (h : need ≤ outlen) : need ≤ room step blen need outlen := by
  unfold room; split <;> omega

theorem hasLen_iff (l : Bytes) (n : Nat) : hasLen l n = true ↔ n ≤ l.length := by
  cases n with
  | zero => simp [hasLen]
  | succ k =>
    cases h : l.drop k with
    | nil =>
      have : l.length ≤ k := List.drop_eq_nil_iff.mp h
      simp only [hasLen, h]
      constructor
      · intro h2; cases h2
      · intro h2; omega
    | cons x t =>
      have : (l.drop k).length = l.length - k := List.length_drop
      rw [h] at this
      simp only [List.length_cons] at this
      simp only [hasLen, h]
      constructor
      · intro _; omega
      · intro _; trivial

theorem mem_grew {blen blen' : Nat} {tr : List (Nat × Nat)} {p : Nat × Nat} (h : p ∈ grew blen blen' tr) :
    p ∈ tr ∨ (p = (blen, blen') ∧ blen' ≠ blen) := by
  unfold grew at h
  split at h
  · exact Or.inl h
  · rename_i hne
    rcases List.mem_cons.mp h with h | h
    · exact Or.inr ⟨h, hne⟩
    · exact Or.inl h

/-- the invariant of the loop -/
structure WInv (step outlen o blen : Nat) (tr : List (Nat × Nat)) : Prop where
  ob : o ≤ blen
  bo : blen ≤ outlen
  bs : blen ≤ o + 264 + step
  tr : ∀ p ∈ tr, p.1 < p.2 ∧ p.2 ≤ blen

/-- one run of `run ≤ 264` bytes that goes through -/
theorem WInv.next {step outlen o blen : Nat} {tr : List (Nat × Nat)} (inv : WInv step outlen o blen tr)
    (runLen : Nat) (hr : runLen ≤ 264) (hfit : o + runLen ≤ room step blen (o + runLen) outlen) :
    WInv step outlen (o + runLen) (room step blen (o + runLen) outlen)
      (grew blen (room step blen (o + runLen) outlen) tr) := by
  have hge := room_ge step blen (o + runLen) outlen
  have hle := room_le_ahead step blen (o + runLen) outlen
  refine ⟨hfit, room_le_outlen _ _ _ _ inv.bo, ?_, ?_⟩
  · have := inv.bs; omega
  · intro p hp
    rcases mem_grew hp with hp | ⟨rfl, hne⟩
    · have := inv.tr p hp; exact ⟨this.1, by omega⟩
    · exact ⟨by simp only; omega, Nat.le_refl _⟩

/-- a run that fails after `lzfRoom` was called -/
theorem WInv.failed {step outlen o blen : Nat} {tr : List (Nat × Nat)} (inv : WInv step outlen o blen tr)
    (runLen : Nat) (hr : runLen ≤ 264) :
    WInv step outlen o (room step blen (o + runLen) outlen) (grew blen (room step blen (o + runLen) outlen) tr) := by
  have hge := room_ge step blen (o + runLen) outlen
  have hle := room_le_ahead step blen (o + runLen) outlen
  refine ⟨by have := inv.ob; omega, room_le_outlen _ _ _ _ inv.bo, ?_, ?_⟩
  · have := inv.bs; omega
  · intro p hp
    rcases mem_grew hp with hp | ⟨rfl, hne⟩
    · have := inv.tr p hp; exact ⟨this.1, by omega⟩
    · exact ⟨by simp only; omega, Nat.le_refl _⟩

theorem walk_inv (step outlen : Nat) : ∀ (fuel : Nat) (inp : Bytes) (o blen : Nat) (tr : List (Nat × Nat)),
    WInv step outlen o blen tr →
      WInv step outlen (walk step outlen fuel inp o blen tr).o (walk step outlen fuel inp o blen tr).blen
        (walk step outlen fuel inp o blen tr).grows ∧
      o ≤ (walk step outlen fuel inp o blen tr).o ∧
      (walk step outlen fuel inp o blen tr).o ≤ o + 264 * inp.length ∧
      ((walk step outlen fuel inp o blen tr).ok = true → (walk step outlen fuel inp o blen tr).o = outlen)
  | 0, inp, o, blen, tr, inv => by
    simp only [walk]
    refine ⟨inv, Nat.le_refl _, by omega, ?_⟩
    intro h; simp only [Bool.and_eq_true, decide_eq_true_eq] at h; exact h.2
  | fuel+1, [], o, blen, tr, inv => by
    simp only [walk]
    refine ⟨inv, Nat.le_refl _, by omega, ?_⟩
    intro h; simpa using h
  | fuel+1, ctrl :: r, o, blen, tr, inv => by
    have hc : ctrl.toNat < 256 := ctrl.toNat_lt
    unfold walk
    simp only
    split
    · -- literal run
      rename_i hlit
      split
      · rename_i hok
        have hnext := inv.next (ctrl.toNat + 1) (by omega) (by have := hok.2; omega)
        have hadd : o + (ctrl.toNat + 1) = o + ctrl.toNat + 1 := by omega
        rw [hadd] at hnext
        obtain ⟨h1, h2, h3, h4⟩ := walk_inv step outlen fuel (r.drop (ctrl.toNat + 1)) _ _ _ hnext
        refine ⟨h1, by omega, ?_, h4⟩
        have hl : (r.drop (ctrl.toNat + 1)).length = r.length - (ctrl.toNat + 1) := List.length_drop
        simp only [List.length_cons]
        have := (hasLen_iff _ _).mp hok.1
        omega
      · have hf := inv.failed (ctrl.toNat + 1) (by omega)
        have hadd : o + (ctrl.toNat + 1) = o + ctrl.toNat + 1 := by omega
        rw [hadd] at hf
        exact ⟨hf, Nat.le_refl _, by simp only; omega, fun h => by cases h⟩
    · -- back reference
      split
      · exact ⟨inv, Nat.le_refl _, by simp only; omega, fun h => by cases h⟩
      · rename_i len r1 hlen
        have hlen264 : len + 2 ≤ 264 ∧ r1.length ≤ r.length := by
          split at hlen
          · cases r with
            | nil => cases hlen
            | cons x r' =>
              simp only [Option.some.injEq, Prod.mk.injEq] at hlen
              obtain ⟨rfl, rfl⟩ := hlen
              have := x.toNat_lt
              simp only [List.length_cons]
              omega
          · simp only [Option.some.injEq, Prod.mk.injEq] at hlen
            obtain ⟨rfl, rfl⟩ := hlen
            omega
        split
        · exact ⟨inv, Nat.le_refl _, by simp only; omega, fun h => by cases h⟩
        · rename_i lo r2
          split
          · rename_i hok
            have hnext := inv.next (len + 2) hlen264.1 (by have := hok.2; omega)
            have hadd : o + (len + 2) = o + len + 2 := by omega
            rw [hadd] at hnext
            obtain ⟨h1, h2, h3, h4⟩ := walk_inv step outlen fuel r2 _ _ _ hnext
            refine ⟨h1, by omega, ?_, h4⟩
            have := hlen264.2
            simp only [List.length_cons] at this ⊢
            omega
          · have hf := inv.failed (len + 2) hlen264.1
            have hadd : o + (len + 2) = o + len + 2 := by omega
            rw [hadd] at hf
            exact ⟨hf, Nat.le_refl _, by simp only; omega, fun h => by cases h⟩

theorem init_inv (step outlen : Nat) : WInv step outlen 0 (min outlen step) [] :=
  ⟨Nat.zero_le _, Nat.min_le_left _ _, by have := Nat.min_le_right outlen step; omega, fun p hp => by cases hp⟩

/-- **the LZF output buffer follows the bytes really produced** (D33): when
    `lzfDecompress` stops — success or any error — `len(out)` is at most the bytes
    produced plus one run (≤ 264) plus one step, the bytes produced are at most
    264 per compressed byte: NO bound mentions the declared length `outlen`, which
    only caps the buffer from above. Every growth step ends below the same bound. -/
theorem run_buffer_bounded (step : Nat) (inp : Bytes) (outlen : Nat) :
    (run step inp outlen).blen ≤ (run step inp outlen).o + 264 + step ∧
    (run step inp outlen).o ≤ 264 * inp.length ∧
    (run step inp outlen).blen ≤ outlen ∧
    (∀ p ∈ (run step inp outlen).grows, p.1 < p.2 ∧ p.2 ≤ (run step inp outlen).o + 264 + step) := by
  unfold run
  split
  · simp
  · obtain ⟨inv, _, ho, _⟩ := walk_inv step outlen inp.length inp 0 (min outlen step) [] (init_inv step outlen)
    refine ⟨inv.bs, by omega, inv.bo, ?_⟩
    intro p hp
    have := inv.tr p hp
    have := inv.bs
    omega

/-- in bytes of the input alone -/
theorem run_buffer_linear (step : Nat) (inp : Bytes) (outlen : Nat) :
    (run step inp outlen).blen ≤ 264 * inp.length + 264 + step := by
  have := run_buffer_bounded step inp outlen
  omega

/-- success: exactly the declared number of bytes was produced and the buffer has exactly that length -/
theorem run_ok (step : Nat) (inp : Bytes) (outlen : Nat) (h : (run step inp outlen).ok = true) :
    (run step inp outlen).o = outlen ∧ (run step inp outlen).blen = outlen ∧ outlen ≤ 264 * inp.length := by
  unfold run at h ⊢
  split
  · rename_i hg; rw [if_pos hg] at h; cases h
  · rename_i hg
    rw [if_neg hg] at h
    obtain ⟨inv, _, _, hok⟩ := walk_inv step outlen inp.length inp 0 (min outlen step) [] (init_inv step outlen)
    have ho := hok h
    have := inv.ob
    have := inv.bo
    exact ⟨ho, by omega, by omega⟩

/-! ### requests of the allocator -/

theorem reqs_le (g : Nat → Nat → Nat) (hg : RdbAlloc.GrowOK g) (B : Nat) :
    ∀ (tr : List (Nat × Nat)) (cap mx sum : Nat), (∀ p ∈ tr, p.2 ≤ B) → cap ≤ 2 * B → mx ≤ 2 * B →
      (reqs g tr cap mx sum).1 ≤ 2 * B ∧ (reqs g tr cap mx sum).2.1 ≤ 2 * B
  | [], cap, mx, sum, _, h1, h2 => by simp only [reqs]; exact ⟨h1, h2⟩
  | (l, n) :: rest, cap, mx, sum, h, h1, h2 => by
    simp only [reqs]
    have hn : n ≤ B := h (l, n) (List.mem_cons_self)
    have hre : (if n ≤ cap then 0 else g cap n) ≤ 2 * B := by
      split
      · omega
      · have := hg.le cap n; omega
    have hcap : (if n ≤ cap then cap else g cap n) ≤ 2 * B := by
      split
      · exact h1
      · have := hg.le cap n; omega
    exact reqs_le g hg B rest _ _ _ (fun p hp => h p (List.mem_cons_of_mem _ hp)) hcap (by omega)

/-- **what `lzfDecompress` asks of the allocator**: with any `append` growth that
    at most doubles, no single request — the first `make`, a temporary chunk, a
    re-allocation — exceeds twice (bytes produced + one run + one step) -/
theorem requests_bounded (g : Nat → Nat → Nat) (hg : RdbAlloc.GrowOK g) (step : Nat) (inp : Bytes) (outlen : Nat) :
    (requests g step inp outlen).1 ≤ 2 * ((run step inp outlen).o + 264 + step) ∧
    (requests g step inp outlen).1 ≤ 2 * (264 * inp.length + 264 + step) := by
  have hb := run_buffer_bounded step inp outlen
  have h0 : (if outlen > inp.length * 264 then 0 else min outlen step) ≤ (run step inp outlen).o + 264 + step := by
    split
    · omega
    · have := Nat.min_le_right outlen step; omega
  have := (reqs_le g hg ((run step inp outlen).o + 264 + step) (run step inp outlen).grows.reverse
    (if outlen > inp.length * 264 then 0 else min outlen step)
    (if outlen > inp.length * 264 then 0 else min outlen step)
    (if outlen > inp.length * 264 then 0 else min outlen step)
    (fun p hp => (hb.2.2.2 p (List.mem_reverse.mp hp)).2) (by omega) (by omega)).2
  unfold requests
  simp only
  constructor
  · exact this
  · omega

end GunYu.RdbLzf
