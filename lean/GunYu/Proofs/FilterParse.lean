/-
  Helper lemmas for C10: the parser loop (Model/Sender.lean `parseStep`) in a
  bypassed database; key positions of projected DEL / UNLINK / MSET.
-/
import GunYu.Model.FilterParse
import GunYu.Proofs.FilterCmdKey

namespace GunYu.Filter
open GunYu GunYu.Sender

/-! ### one step in a bypassed database -/

/-- in bypass, a command other than SELECT either leaves the state untouched and
    emits nothing, or it is a transaction bracket (a MULTI while no forwarded
    transaction is open, an EXEC while one is): emitted with the offset of the
    last command handed over; the state stays in bypass with the same
    `lastSent`. -/
theorem parseStep_bypass (c : PCfg) (s : PState) (r : Raw) (hb : s.bypass = true)
    (hr : r.cmd ≠ bSelect) :
    parseStep c s r = (s, .skip) ∨
    (∃ a, (r.cmd = bMulti ∨ r.cmd = bExec) ∧
      parseStep c s r =
        (sent s r.cmd s.lastSent,
         .emit { cmd := r.cmd, args := a, offset := s.lastSent, db := s.currentDB })) := by
  unfold parseStep
  by_cases hp : r.cmd = bPing
  · simp only [hp, if_true]
    cases c.filterCmdKey bPing r.args <;> simp [hb]
  · simp only [hp, if_false, hr]
    by_cases hfc : c.filterCmd r.cmd = true
    · simp [hfc]
    · simp only [hfc, Bool.false_eq_true, if_false]
      by_cases hsen : r.cmd = bPublish ∧ Option.map lower r.args.head? = some bSentinelHello
      · simp [hsen]
      · simp only [hsen, if_false]
        by_cases hct : passBracket s r.cmd = true
        · have hbr : r.cmd = bMulti ∨ r.cmd = bExec := by
            unfold passBracket at hct
            simp only [Bool.and_eq_true, Bool.or_eq_true, decide_eq_true_eq] at hct
            rcases hct.2 with h | h
            · exact Or.inl h.1
            · exact Or.inr h.1
          simp only [hb, hct, true_and, Bool.true_eq_false, if_false, if_true]
          cases hk : c.filterCmdKey r.cmd r.args with
          | none => left; rfl
          | some a => right; exact ⟨a, hbr, rfl⟩
        · have : passBracket s r.cmd = false := by simpa using hct
          simp [hb, this]

theorem sent_bypass (s : PState) (cmd : Bytes) (off : Int) : (sent s cmd off).bypass = s.bypass := rfl
theorem sent_lastSent (s : PState) (cmd : Bytes) (off : Int) : (sent s cmd off).lastSent = off := rfl

/-- everything a bypassed parser emits before the next SELECT is a transaction
    bracket carrying the offset of the last command handed over before the
    region (which does not move inside it) -/
theorem parseAll_bypass (c : PCfg) (s : PState) (l : List Raw)
    (hb : s.bypass = true) (hl : ∀ p ∈ l, p.cmd ≠ bSelect) :
    ∀ i ∈ parseAll c s l, (i.cmd = bMulti ∨ i.cmd = bExec) ∧ i.offset = s.lastSent := by
  induction l generalizing s with
  | nil => simp [parseAll]
  | cons r rest ih =>
    have hr := hl r List.mem_cons_self
    have hrest : ∀ p ∈ rest, p.cmd ≠ bSelect := fun p hp => hl p (List.mem_cons_of_mem _ hp)
    rcases parseStep_bypass c s r hb hr with h | ⟨a, hbr, h⟩
    · rw [parseAll, h]
      exact ih s hb hrest
    · rw [parseAll, h]
      intro i hi
      rcases List.mem_cons.mp hi with hi | hi
      · subst hi; exact ⟨hbr, rfl⟩
      · have := ih (sent s r.cmd s.lastSent) (by rw [sent_bypass]; exact hb) hrest i hi
        rw [sent_lastSent] at this
        exact this

/-- SELECT of a listed database: nothing is emitted, only the bypass flag is set -/
theorem parseStep_select_listed (c : PCfg) (s : PState) (a : Bytes) (n : Int) (off : Int)
    (ha : Sender.atoi? a = some n) (hdb : c.filterDb n = true) :
    parseStep c s { cmd := bSelect, args := [a], off := off } = ({ s with bypass := true }, .skip) := by
  unfold parseStep
  have h1 : bSelect ≠ bPing := by decide
  simp [h1, ha, hdb]

/-- a command other than SELECT never changes the bypass flag -/
theorem parseStep_keeps_bypass (c : PCfg) (s : PState) (r : Raw) (hr : r.cmd ≠ bSelect) :
    (parseStep c s r).1.bypass = s.bypass := by
  unfold parseStep
  by_cases hp : r.cmd = bPing
  · simp only [hp, if_true]
    cases c.filterCmdKey bPing r.args with
    | none => rfl
    | some a => cases hb : s.bypass <;> simp [hb, sent]
  · simp only [hp, if_false, hr]
    by_cases hfc : c.filterCmd r.cmd = true
    · simp [hfc]
    · simp only [hfc, Bool.false_eq_true, if_false]
      by_cases hsen : r.cmd = bPublish ∧ Option.map lower r.args.head? = some bSentinelHello
      · simp [hsen]
      · simp only [hsen, if_false]
        by_cases hsk : s.bypass = true ∧ passBracket s r.cmd = false
        · simp [hsk]
        · simp only [hsk, if_false]
          cases c.filterCmdKey r.cmd r.args <;> simp [sent]

theorem stateAfter_keeps_bypass (c : PCfg) (s : PState) (l : List Raw) (hl : ∀ p ∈ l, p.cmd ≠ bSelect) :
    (stateAfter c s l).bypass = s.bypass := by
  induction l generalizing s with
  | nil => rfl
  | cons r rest ih =>
    have hr := hl r List.mem_cons_self
    have := ih (parseStep c s r).1 (fun p hp => hl p (List.mem_cons_of_mem _ hp))
    unfold stateAfter at this ⊢
    rw [List.foldl_cons, this, parseStep_keeps_bypass c s r hr]

/-- SELECT of an unlisted database clears the bypass flag -/
theorem parseStep_select_unlisted (c : PCfg) (s : PState) (a : Bytes) (n : Int) (off : Int)
    (ha : Sender.atoi? a = some n) (hdb : c.filterDb n = false) :
    (parseStep c s { cmd := bSelect, args := [a], off := off }).1.bypass = false := by
  unfold parseStep
  have h1 : bSelect ≠ bPing := by decide
  simp only [h1, if_false, if_true, ha, hdb]
  cases c.filterCmdKey bSelect [a] with
  | none => simp
  | some x =>
    simp only [Bool.false_eq_true, if_false]
    by_cases hn : n ≥ 0
    · simp only [hn, if_true]
      cases hch : (selectDB c s.currentDB n).2 <;> simp [hch]
    · simp [hn, sent]

/-! ### key positions of a projected DEL / UNLINK / MSET -/

theorem tableIndexes_all (last : Int) (hl : last = 0 ∨ last = -1) (n : Nat) (hn : 0 < n) :
    tableIndexes 1 last 1 n = some (List.range n) := by
  unfold tableIndexes
  have hlk : (if last > 0 then last - 1 else if last = 0 then (n : Int) - 1 else (n : Int) + last) = (n : Int) - 1 := by
    rcases hl with h | h <;> subst h <;> simp <;> omega
  rw [hlk]
  have h1 : ¬ ((n : Int) - 1 < 0 ∨ (n : Int) - 1 ≥ n ∨ (1 : Int) ≤ 0 ∨ (1 : Int) ≤ 0) := by omega
  have h2 : ¬ ((1 : Int) - 1 > (n : Int) - 1) := by omega
  simp only [h1, h2, if_false]
  have hc : (((n : Int) - 1 - (1 - 1)) / 1).toNat + 1 = n := by
    rw [Int.ediv_one]; omega
  rw [hc]
  congr 1
  have : ∀ j : Nat, ((1 : Int) - 1 + (j : Int) * 1).toNat = j := by intro j; omega
  simp

theorem tableIndexes_pairs (m : Nat) (hm : 0 < m) :
    tableIndexes 1 (-1) 2 (2 * m) = some ((List.range m).map (fun j => 2 * j)) := by
  unfold tableIndexes
  have hlk : (if (-1 : Int) > 0 then (-1 : Int) - 1 else if (-1 : Int) = 0 then ((2 * m : Nat) : Int) - 1
      else ((2 * m : Nat) : Int) + -1) = 2 * (m : Int) - 1 := by
    simp; omega
  rw [hlk]
  have h1 : ¬ (2 * (m : Int) - 1 < 0 ∨ 2 * (m : Int) - 1 ≥ ((2 * m : Nat) : Int) ∨ (1 : Int) ≤ 0 ∨ (2 : Int) ≤ 0) := by
    omega
  have h2 : ¬ ((1 : Int) - 1 > 2 * (m : Int) - 1) := by omega
  simp only [h1, h2, if_false]
  have hc : ((2 * (m : Int) - 1 - (1 - 1)) / 2).toNat + 1 = m := by omega
  rw [hc]
  congr 1
  apply List.map_congr_left
  intro j _
  omega

theorem lookup_del : Gen.commandKeyExtractors.lookup wDel = none ∧
    Gen.commandKeyPositions.lookup wDel = some (1, 0, 1) := by decide +kernel
theorem lookup_unlink : Gen.commandKeyExtractors.lookup wUnlink = none ∧
    Gen.commandKeyPositions.lookup wUnlink = some (1, -1, 1) := by decide +kernel
theorem lookup_mset : Gen.commandKeyExtractors.lookup wMset = none ∧
    Gen.commandKeyPositions.lookup wMset = some (1, -1, 2) := by decide +kernel

/-- DEL / UNLINK over any non-empty argument list: every argument is a key -/
theorem keyIndexes_del (cmd : Bytes) (h : lower cmd = wDel ∨ lower cmd = wUnlink) (out : List Bytes)
    (hne : out ≠ []) : keyIndexes cmd out = some (List.range out.length) := by
  have hlen : 0 < out.length := List.length_pos_iff.mpr hne
  have hemp : out.isEmpty = false := by simpa using hne
  unfold keyIndexes
  rcases h with h | h
  · simp only [h, hemp, Bool.false_eq_true, if_false, lookup_del.1, lookup_del.2]
    exact tableIndexes_all 0 (Or.inl rfl) _ hlen
  · simp only [h, hemp, Bool.false_eq_true, if_false, lookup_unlink.1, lookup_unlink.2]
    exact tableIndexes_all (-1) (Or.inr rfl) _ hlen

theorem length_flatMap_pairs {α : Type} (l : List α) (g h : α → Bytes) :
    (l.flatMap (fun i => [g i, h i])).length = 2 * l.length := by
  induction l with
  | nil => rfl
  | cons x rest ih => simp only [List.flatMap_cons, List.length_append, ih, List.length_cons, List.length_nil]; omega

theorem getD_flatMap_pairs {α : Type} (l : List α) (g h : α → Bytes) (j : Nat) (hj : j < l.length) :
    (l.flatMap (fun i => [g i, h i])).getD (2 * j) [] = g (l[j]) := by
  induction l generalizing j with
  | nil => simp at hj
  | cons x rest ih =>
    cases j with
    | zero => simp
    | succ k =>
      have hk : k < rest.length := by simpa using hj
      have : 2 * (k + 1) = 2 * k + 1 + 1 := by omega
      simp only [List.flatMap_cons, this, List.getD_eq_getElem?_getD, List.cons_append, List.nil_append,
        List.getElem?_cons_succ, List.getElem_cons_succ]
      have := ih k hk
      simpa [List.getD_eq_getElem?_getD] using this

/-- MSET over accepted key/value pairs: the keys sit at the even positions -/
theorem keyIndexes_mset (cmd : Bytes) (h : lower cmd = wMset) {α : Type} (l : List α) (g v : α → Bytes)
    (hne : l ≠ []) :
    keyIndexes cmd (l.flatMap (fun i => [g i, v i])) = some ((List.range l.length).map (fun j => 2 * j)) := by
  have hlen : 0 < l.length := List.length_pos_iff.mpr hne
  have hl2 := length_flatMap_pairs l g v
  have hemp : (l.flatMap (fun i => [g i, v i])).isEmpty = false := by
    cases hc : l.flatMap (fun i => [g i, v i]) with
    | nil => rw [hc] at hl2; simp at hl2; omega
    | cons _ _ => rfl
  unfold keyIndexes
  simp only [h, hemp, Bool.false_eq_true, if_false, lookup_mset.1, lookup_mset.2, hl2]
  exact tableIndexes_pairs _ hlen

end GunYu.Filter
