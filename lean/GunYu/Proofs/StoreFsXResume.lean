/-
  C08 — life after the restart: the index a new process builds from ANY truthful
  directory (whatever a crash, a failed removal, an interrupted RemoveAll left)
  satisfies the invariants the writers' steps keep, so the writers go on from it and
  every crash image of the next life is truthful again (`resume_*`).
-/
import GunYu.Model.StoreRoot
import GunYu.Proofs.StoreFsXSafe
import GunYu.Proofs.StoreFsBridge

namespace GunYu.StoreFsX
open GunYu GunYu.Store GunYu.StoreFs

/-- a directory has no two entries of the same name -/
def NodupNames (fs : FS) : Prop := (fs.map (·.1)).Nodup

/-- every committed snapshot file holds as many bytes as its name announces, more than none -/
def SnapOk (fs : FS) : Prop := RdbOkP (fun _ S c => 0 < S ∧ c.length = S) fs

/-! ### names -/

theorem get_of_mem_nodup {fs : FS} (h : NodupNames fs) {e : FName × Bytes} (he : e ∈ fs) : fs.get e.1 = some e.2 := by
  induction fs with
  | nil => cases he
  | cons a t ih =>
    unfold NodupNames at h
    simp only [List.map_cons, List.nodup_cons] at h
    unfold FS.get
    rcases List.mem_cons.mp he with h1 | h1
    · subst h1
      simp [List.find?]
    · have hne : (a.1 == e.1) = false := by
        simp only [beq_eq_false_iff_ne, ne_eq]
        intro e'
        exact h.1 (e' ▸ List.mem_map.mpr ⟨e, h1, rfl⟩)
      simp only [List.find?, hne]
      exact ih h.2 h1

theorem nodup_del {fs : FS} (h : NodupNames fs) (n : FName) : NodupNames (fs.del n) := by
  unfold NodupNames FS.del at *
  exact (List.Sublist.map _ List.filter_sublist).nodup h

theorem mem_names_set {fs : FS} {n : FName} {c : Bytes} {m : FName} (hm : m ∈ (fs.set n c).map (·.1)) :
    m = n ∨ m ∈ fs.map (·.1) := by
  obtain ⟨e, he, rfl⟩ := List.mem_map.mp hm
  rcases mem_set he with rfl | h'
  · left; rfl
  · right; exact List.mem_map.mpr ⟨e, h', rfl⟩

theorem nodup_set {fs : FS} (h : NodupNames fs) (n : FName) (c : Bytes) : NodupNames (fs.set n c) := by
  unfold FS.set
  split
  · -- replaced in place: the names do not change
    have : (fs.map (fun e => if e.1 == n then (n, c) else e)).map (·.1) = fs.map (·.1) := by
      rw [List.map_map]
      apply List.map_congr_left
      intro e _
      simp only [Function.comp]
      split
      · rename_i he; simp at he; exact he.symm
      · rfl
    unfold NodupNames
    rw [this]; exact h
  · rename_i hno
    unfold NodupNames
    rw [List.map_append, List.nodup_append]
    refine ⟨h, by simp, ?_⟩
    intro a ha b hb
    simp at hb; subst hb
    intro e; subst e
    apply hno
    rw [get_isSome_iff]
    obtain ⟨e, he, rfl⟩ := List.mem_map.mp ha
    exact ⟨e, he, rfl⟩

theorem nodup_apply {fs : FS} (h : NodupNames fs) (op : FsOp) : NodupNames (fs.apply op) := by
  cases op with
  | create n => exact nodup_set h n []
  | remove n => exact nodup_del h n
  | append n bs =>
    simp only [FS.apply]
    cases fs.get n with
    | none => exact h
    | some c => exact nodup_set h n _
  | pwriteHdr n hd =>
    simp only [FS.apply]
    cases fs.get n with
    | none => exact h
    | some c => exact nodup_set h n _
  | rename a b =>
    simp only [FS.apply]
    cases fs.get a with
    | none => exact h
    | some c => exact nodup_set (nodup_del h a) b c

theorem nodup_applyAll (ops : List FsOp) : ∀ fs : FS, NodupNames fs → NodupNames (fs.applyAll ops) := by
  induction ops with
  | nil => intro fs h; exact h
  | cons o rest ih => intro fs h; exact ih _ (nodup_apply h o)

/-! ### the segments found by the scan -/

theorem scanSegs_mem {fs : FS} {g : DSeg} (hg : g ∈ scanSegs fs) :
    ∃ e ∈ fs, e.1 = aofName g.left ∧ headerSize < e.2.length ∧ g.data = e.2.drop headerSize := by
  unfold scanSegs at hg
  obtain ⟨e, he, hsome⟩ := List.mem_filterMap.mp hg
  cases hp : parseAofName e.1 with
  | none => simp [hp] at hsome
  | some l =>
    simp only [hp] at hsome
    split at hsome
    · rename_i hlen
      simp at hsome; subst hsome
      refine ⟨e, he, ?_, hlen, rfl⟩
      cases hn : e.1 <;> simp [hn, parseAofName] at hp
      subst hp; rfl
    · simp at hsome

/-- the segment a directory entry gives in the scan -/
def segOf (e : FName × Bytes) : Option DSeg :=
  match parseAofName e.1 with
  | some l => if e.2.length > headerSize then some { left := l, data := e.2.drop headerSize } else none
  | none => none

theorem scanSegs_eq (fs : FS) : scanSegs fs = fs.filterMap segOf := rfl

theorem segOf_name {e : FName × Bytes} {g : DSeg} (h : segOf e = some g) : e.1 = aofName g.left := by
  unfold segOf at h
  cases hp : parseAofName e.1 with
  | none => simp [hp] at h
  | some l =>
    simp only [hp] at h
    split at h
    · simp at h; subst h
      cases hn : e.1 <;> simp [hn, parseAofName] at hp
      subst hp; rfl
    · cases h

theorem scanSegs_lefts_nodup {fs : FS} (h : NodupNames fs) : ((scanSegs fs).map (·.left)).Nodup := by
  induction fs with
  | nil => simp [scanSegs]
  | cons e t ih =>
    unfold NodupNames at h
    simp only [List.map_cons, List.nodup_cons] at h
    rw [scanSegs_eq, List.filterMap_cons]
    cases hg : segOf e with
    | none => simp only []; rw [← scanSegs_eq]; exact ih h.2
    | some g =>
      simp only [List.map_cons, List.nodup_cons]
      rw [← scanSegs_eq]
      refine ⟨?_, ih h.2⟩
      intro hm
      obtain ⟨g', hg', hl'⟩ := List.mem_map.mp hm
      obtain ⟨e', he', hn', _, _⟩ := scanSegs_mem hg'
      apply h.1
      rw [segOf_name hg]
      have hl'' : g'.left = g.left := hl'
      rw [← hl'', ← hn']
      exact List.mem_map.mpr ⟨e', he', rfl⟩

theorem insertSeg_perm (g : DSeg) (l : List DSeg) : (insertSeg g l).Perm (g :: l) := by
  induction l with
  | nil => exact List.Perm.refl _
  | cons a t ih =>
    simp only [insertSeg]
    split
    · exact List.Perm.refl _
    · exact (List.Perm.cons a ih).trans (List.Perm.swap g a t)

theorem sortSegs_perm (l : List DSeg) : (sortSegs l).Perm l := by
  induction l with
  | nil => exact List.Perm.refl _
  | cons a t ih =>
    show (insertSeg a (sortSegs t)).Perm (a :: t)
    exact (insertSeg_perm a _).trans (List.Perm.cons a ih)

theorem reopen_segs_nonempty (fs : FS) : ∀ g ∈ (reopen fs).segs, g.data ≠ [] := by
  intro g hg
  rw [reopen_segs] at hg
  obtain ⟨e, _, _, hlen, hd⟩ := scanSegs_mem (mem_sortSegs.mp (mem_contigRun hg))
  intro hnil
  have := congrArg List.length (hd.symm.trans hnil)
  simp at this; omega

/-- the file of an indexed segment is still there after `initDataSet`'s removals: a
    16-byte header followed by the segment's data -/
theorem reopen_fileOf {fs : FS} (hn : NodupNames fs) {g : DSeg} (hg : g ∈ (reopen fs).segs) :
    FileOf (reopenFs fs) g := by
  rw [reopen_segs] at hg
  obtain ⟨cut, hcut⟩ := contigRun_suffix (sortSegs (scanSegs fs))
  obtain ⟨e, he, hname, hlen, hd⟩ := scanSegs_mem (mem_sortSegs.mp (mem_contigRun hg))
  have hget : fs.get (aofName g.left) = some e.2 := by rw [← hname]; exact get_of_mem_nodup hn he
  -- the lefts of cut and run are disjoint
  have hnd : ((cut ++ contigRun (sortSegs (scanSegs fs))).map (·.left)).Nodup := by
    rw [← hcut]
    exact ((sortSegs_perm _).map _).nodup_iff.mpr (scanSegs_lefts_nodup hn)
  rw [List.map_append, List.nodup_append] at hnd
  have hdisj : ∀ x ∈ cut, x.left ≠ g.left :=
    fun x hx => hnd.2.2 _ (List.mem_map.mpr ⟨x, hx, rfl⟩) _ (List.mem_map.mpr ⟨g, hg, rfl⟩)
  refine ⟨e.2.take headerSize, by simp [List.length_take]; omega, ?_⟩
  unfold reopenFs reopenOps
  rw [get_applyAll_other]
  · rw [hget, hd, List.take_append_drop]
  · intro op hop
    obtain ⟨n, hnm, rfl⟩ := List.mem_map.mp hop
    simp only [FsOp.names, List.mem_singleton]
    unfold reopen at hnm
    simp only [] at hnm
    rcases List.mem_append.mp hnm with h1 | h1
    · split at h1
      · simp at h1; subst h1; simp [aofName, rdbName]
      · cases h1
    · obtain ⟨x, hx, rfl⟩ := List.mem_map.mp h1
      intro e'
      have hlen' : (sortSegs (scanSegs fs)).length - (contigRun (sortSegs (scanSegs fs))).length = cut.length := by
        have := congrArg List.length hcut
        rw [List.length_append] at this
        omega
      rw [hlen'] at hx
      have hx' : x ∈ cut := by
        have : (sortSegs (scanSegs fs)).take cut.length = cut := by
          conv => lhs; rw [hcut]
          exact List.take_left' rfl
        rw [this] at hx; exact hx
      exact hdisj x hx' (aofName_inj e').symm

/-! ### contiguous segments and the bytes they hold -/

theorem contig_embed : ∀ (l : List DSeg) (f : Nat), Contig l → firstLeft l = some f →
    ∀ g ∈ l, f ≤ g.left ∧ g.right ≤ f + (l.flatMap (·.data)).length ∧
      g.data = ((l.flatMap (·.data)).drop (g.left - f)).take g.data.length := by
  intro l
  induction l with
  | nil => intro f _ _ g hg; cases hg
  | cons a t ih =>
    intro f hc hf g hg
    simp [firstLeft] at hf; subst hf
    simp only [List.flatMap_cons, List.length_append]
    rcases List.mem_cons.mp hg with h | h
    · subst h
      refine ⟨Nat.le_refl _, by simp [DSeg.right], ?_⟩
      simp
    · cases t with
      | nil => cases h
      | cons b u =>
        have hab : a.right = b.left := hc.1
        obtain ⟨h1, h2, h3⟩ := ih b.left hc.tail rfl g h
        simp only [DSeg.right] at hab h2 ⊢
        refine ⟨by omega, by omega, ?_⟩
        rw [List.drop_append]
        have hz : List.drop (g.left - a.left) a.data = [] := List.drop_of_length_le (by omega)
        rw [hz, List.nil_append]
        have : g.left - a.left - a.data.length = g.left - b.left := by omega
        rw [this]
        exact h3

theorem contig_lastRight : ∀ (l : List DSeg) (f r : Nat), Contig l → firstLeft l = some f → lastRight l = some r →
    r = f + (l.flatMap (·.data)).length := by
  intro l
  induction l with
  | nil => intro f r _ hf; simp [firstLeft] at hf
  | cons a t ih =>
    intro f r hc hf hr
    simp [firstLeft] at hf; subst hf
    cases t with
    | nil => simp [lastRight] at hr; subst hr; simp [DSeg.right]
    | cons b u =>
      rw [lastRight_cons_cons] at hr
      have := ih b.left r hc.tail rfl hr
      have hab : a.right = b.left := hc.1
      simp only [List.flatMap_cons, List.length_append] at this ⊢
      simp only [DSeg.right] at hab
      omega

theorem flat_true (src : Nat → UInt8) : ∀ (l : List DSeg) (f : Nat), Contig l → firstLeft l = some f →
    (∀ g ∈ l, SegTrue src g) → ∀ i b, (l.flatMap (·.data))[i]? = some b → b = src (f + i) := by
  intro l
  induction l with
  | nil => intro f _ hf; simp [firstLeft] at hf
  | cons a t ih =>
    intro f hc hf ht i b hb
    simp [firstLeft] at hf; subst hf
    simp only [List.flatMap_cons] at hb
    by_cases hi : i < a.data.length
    · rw [List.getElem?_append_left hi] at hb
      exact ht a (by simp) i b hb
    · rw [List.getElem?_append_right (by omega)] at hb
      cases t with
      | nil => simp at hb
      | cons b' u =>
        have hab : a.right = b'.left := hc.1
        have := ih b'.left hc.tail rfl (fun g hg => ht g (List.mem_cons_of_mem _ hg)) _ b hb
        rw [this]; congr 1
        simp only [DSeg.right] at hab
        omega

/-! ### the invariants of the re-built index -/

theorem reopened_rdb {fs : FS} (hs : SnapOk fs) {l s : Nat} (h : (reopen fs).rdb = some (l, s)) :
    ∃ c, fs.get (rdbName l s) = some c ∧ 0 < s ∧ c.length = s := by
  obtain ⟨e, he, hp⟩ := scanRdb_some (reopen_rdb_some h)
  have hn := parseRdbName_some hp
  obtain ⟨c', hget, hmem'⟩ := get_some_of_mem (n := rdbName l s) (c := e.2) (by rw [← hn]; exact he)
  obtain ⟨h1, h2⟩ := hs _ hmem' l s rfl
  exact ⟨c', hget, h1, h2⟩

theorem dinv_reopened (fs : FS) (hs : SnapOk fs) (logSize maxSize : Nat) (runId : String) :
    DInv (reopenDisk fs logSize maxSize runId) := by
  have hc := reopen_contig fs
  have hall : (reopenDisk fs logSize maxSize runId).all = (reopen fs).segs := by simp [reopenDisk, Disk.all]
  have hsegs : (reopenDisk fs logSize maxSize runId).segs = (reopen fs).segs := rfl
  have hhist : (reopenDisk fs logSize maxSize runId).hist = (reopen fs).segs.flatMap (·.data) := rfl
  have hbase : (reopenDisk fs logSize maxSize runId).hbase = (firstLeft (reopen fs).segs).getD 0 := rfl
  have hrdbE : (reopenDisk fs logSize maxSize runId).rdb = (match (reopen fs).rdb with
      | some (l, s) => some { left := l, size := s, data := (fs.get (rdbName l s)).getD [], writing := false, final := true }
      | none => none) := rfl
  refine ⟨?_, ?_, ?_, ?_, ?_, ?_, ?_, ?_⟩
  · rw [hall]; exact hc
  · rw [hsegs]; exact reopen_segs_nonempty fs
  · intro g hg
    rw [hall] at hg
    rw [hhist, hbase]
    cases hf : firstLeft (reopen fs).segs with
    | none =>
      cases hseg : (reopen fs).segs with
      | nil => rw [hseg] at hg; cases hg
      | cons a t => rw [hseg] at hf; simp [firstLeft] at hf
    | some f => exact contig_embed _ f hc hf g hg
  · intro r hr
    rw [hall] at hr
    rw [hhist, hbase]
    cases hf : firstLeft (reopen fs).segs with
    | none =>
      cases hseg : (reopen fs).segs with
      | nil => rw [hseg] at hr; simp [lastRight] at hr
      | cons a t => rw [hseg] at hf; simp [firstLeft] at hf
    | some f => exact contig_lastRight _ f r hc hf hr
  · intro r l hr hfl
    rw [hall] at hfl
    rw [hrdbE] at hr
    cases hrd : (reopen fs).rdb with
    | none => rw [hrd] at hr; cases hr
    | some p =>
      obtain ⟨l', s'⟩ := p
      rw [hrd] at hr
      simp at hr; subst hr
      cases hseg : (reopen fs).segs with
      | nil => rw [hseg] at hfl; simp [firstLeft] at hfl
      | cons a t =>
        rw [hseg] at hfl; simp [firstLeft] at hfl; subst hfl
        exact reopen_rdb_aligned fs l' s' a t hrd hseg
  · intro r hr
    rw [hrdbE] at hr
    cases hrd : (reopen fs).rdb with
    | none => rw [hrd] at hr; cases hr
    | some p =>
      obtain ⟨l', s'⟩ := p
      rw [hrd] at hr
      simp at hr; subst hr
      obtain ⟨c, hget, hpos, hlen⟩ := reopened_rdb hs hrd
      simp [hget, hpos, hlen]
  · show ((reopenDisk fs logSize maxSize runId).readers.map (·.id)).Nodup
    simp [reopenDisk]
  · intro r hr
    have : (reopenDisk fs logSize maxSize runId).readers = [] := rfl
    rw [this] at hr; cases hr

theorem xinv_reopened {src : Nat → UInt8} (fs : FS) (ht : FsTrue src fs) (hn : NodupNames fs) (hs : SnapOk fs)
    (logSize maxSize : Nat) (runId : String) : XInv src (XDisk.reopened fs logSize maxSize runId) := by
  have hc := reopen_contig fs
  have hall : (reopenDisk fs logSize maxSize runId).all = (reopen fs).segs := by simp [reopenDisk, Disk.all]
  have hhist : (reopenDisk fs logSize maxSize runId).hist = (reopen fs).segs.flatMap (·.data) := rfl
  have hbase : (reopenDisk fs logSize maxSize runId).hbase = (firstLeft (reopen fs).segs).getD 0 := rfl
  refine ⟨dinv_reopened fs hs logSize maxSize runId, ?_, ?_, ?_⟩
  · -- the history ghost is what the segments hold
    intro i b hb
    have hb' : ((reopen fs).segs.flatMap (·.data))[i]? = some b := hb
    show b = src ((reopenDisk fs logSize maxSize runId).hbase + i)
    rw [hbase]
    cases hf : firstLeft (reopen fs).segs with
    | none =>
      cases hseg : (reopen fs).segs with
      | nil => rw [hseg] at hb'; simp at hb'
      | cons a t => rw [hseg] at hf; simp [firstLeft] at hf
    | some f => exact flat_true src _ f hc hf (reopen_segs_true ht) i b hb'
  · intro g hg
    have hg' : g ∈ (reopenDisk fs logSize maxSize runId).all := hg
    rw [hall] at hg'
    exact reopen_fileOf hn hg'
  · intro r hr hw
    have hr' : (reopenDisk fs logSize maxSize runId).rdb = some r := hr
    simp only [reopenDisk] at hr'
    cases hrd : (reopen fs).rdb with
    | none => rw [hrd] at hr'; cases hr'
    | some p =>
      obtain ⟨l', s'⟩ := p
      rw [hrd] at hr'
      simp at hr'; subst hr'
      cases hw

theorem ginv_reopened (fs : FS) (hs : SnapOk fs) (logSize maxSize : Nat) (runId : String) :
    GInv (reopenDisk fs logSize maxSize runId) (reopenGhost fs runId) := by
  refine ⟨rfl, ?_, ?_⟩
  · intro r hr
    simp only [reopenDisk] at hr
    cases hrd : (reopen fs).rdb with
    | none => rw [hrd] at hr; cases hr
    | some p =>
      obtain ⟨l', s'⟩ := p
      rw [hrd] at hr
      simp at hr; subst hr
      obtain ⟨c, hget, hpos, _⟩ := reopened_rdb hs hrd
      simp [reopenGhost, hrd, hpos]
  · intro hnone x hx
    simp only [reopenDisk] at hnone
    cases hrd : (reopen fs).rdb with
    | none => simp [reopenGhost, hrd] at hx
    | some p => rw [hrd] at hnone; obtain ⟨l', s'⟩ := p; simp at hnone

/-! ### the next life -/

theorem reopenFs_true {src : Nat → UInt8} {fs : FS} (h : FsTrue src fs) : FsTrue src (reopenFs fs) := by
  unfold reopenFs reopenOps
  apply FsTrue_applyAllX _ _ h
  exact Pos.ofAll (fun o ho fs' => by obtain ⟨n, _, rfl⟩ := List.mem_map.mp ho; trivial)

theorem reopenFs_rdbOkP {P : Nat → Nat → Bytes → Prop} {fs : FS} (h : RdbOkP P fs) : RdbOkP P (reopenFs fs) := by
  unfold reopenFs reopenOps
  apply RdbOkP_applyAll _ _ h
  exact Pos.ofAll (fun o ho fs' => by obtain ⟨n, _, rfl⟩ := List.mem_map.mp ho; trivial)

/-- **a new process on ANY truthful directory, any script with faults, death at any
    instant: the directory is truthful again** -/
theorem resume_true {src : Nat → UInt8} (fs : FS) (ht : FsTrue src fs) (hn : NodupNames fs) (hs : SnapOk fs)
    (l m : Nat) (id : String) (xs : List XOp) (hwf : wfX (XDisk.reopened fs l m id) xs)
    (hsrc : SrcOkX src (XDisk.reopened fs l m id) xs) (n k : Nat) :
    FsTrue src (crashImageX (reopenFs fs) (xScriptOps (XDisk.reopened fs l m id) xs) n k) := by
  have := (xrun_ok (src := src) (P := fun _ _ _ => True) (reopenGhost fs id) xs (fun _ _ _ _ => trivial) xs [] _ rfl
    hwf hsrc (xinv_reopened fs ht hn hs l m id) (ginv_reopened fs hs l m id)).1
  exact crashImageX_true (reopenFs_true ht) _ this n k

/-- … and every committed snapshot file is one the directory already held, or holds
    exactly the bytes a snapshot writer of this life received (`P0`: what is known of
    the files the directory held before) -/
theorem resume_received {P0 : Nat → Nat → Bytes → Prop} (fs : FS) (hs : SnapOk fs) (h0 : RdbOkP P0 fs)
    (l m : Nat) (id : String) (xs : List XOp) (hwf : wfX (XDisk.reopened fs l m id) xs) (n k : Nat) :
    RdbOkP (fun L S c => P0 L S c ∨ RecvFrom (reopenGhost fs id) (xs.map recvOp) L S c)
      (crashImageX (reopenFs fs) (xScriptOps (XDisk.reopened fs l m id) xs) n k) := by
  have hx := xrun_safe (P := fun L S c => P0 L S c ∨ RecvFrom (reopenGhost fs id) (xs.map recvOp) L S c)
    (reopenGhost fs id) xs (fun _ _ _ h => Or.inr h) xs [] (XDisk.reopened fs l m id) rfl hwf
    (by intro r hr hw
        simp only [XDisk.reopened, reopenDisk] at hr
        cases hrd : (reopen fs).rdb with
        | none => rw [hrd] at hr; cases hr
        | some p => obtain ⟨l', s'⟩ := p; rw [hrd] at hr; simp at hr; subst hr; cases hw)
    (ginv_reopened fs hs l m id)
  apply crashImageX_rdbOkP _ _ hx n k
  apply reopenFs_rdbOkP
  intro e he L S hp
  exact Or.inl (h0 e he L S hp)

/-- the next image is again a directory a new process can start from -/
theorem resume_closed {src : Nat → UInt8} (fs : FS) (ht : FsTrue src fs) (hn : NodupNames fs) (hs : SnapOk fs)
    (l m : Nat) (id : String) (xs : List XOp) (hwf : wfX (XDisk.reopened fs l m id) xs)
    (hsrc : SrcOkX src (XDisk.reopened fs l m id) xs) (n k : Nat) :
    let img := crashImageX (reopenFs fs) (xScriptOps (XDisk.reopened fs l m id) xs) n k
    FsTrue src img ∧ NodupNames img ∧ SnapOk img := by
  refine ⟨resume_true fs ht hn hs l m id xs hwf hsrc n k, ?_, ?_⟩
  · exact nodup_applyAll _ _ (nodup_applyAll _ _ hn)
  · have := resume_received (P0 := fun _ S c => 0 < S ∧ c.length = S) fs hs hs l m id xs hwf n k
    intro e he L S hp
    rcases this e he L S hp with h | h
    · exact h
    · exact ⟨h.1, h.2.1⟩

end GunYu.StoreFsX
