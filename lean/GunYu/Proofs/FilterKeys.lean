/-
  Helper lemmas for C10: case folding on bytes, key positions are in range.
-/
import GunYu.Model.Filter

namespace GunYu.Filter
open GunYu

/-! ### ASCII case folding -/

theorem all_fin256 (P : UInt8 → Prop) (h : ∀ i : Fin 256, P (UInt8.ofNat i.val)) (b : UInt8) : P b := by
  have := h ⟨b.toNat, b.toNat_lt⟩
  simpa using this

theorem lowerByte_upperByte (b : UInt8) : lowerByte (upperByte b) = lowerByte b := by
  apply all_fin256 (fun b => lowerByte (upperByte b) = lowerByte b)
  decide +kernel

theorem lowerByte_lowerByte (b : UInt8) : lowerByte (lowerByte b) = lowerByte b := by
  apply all_fin256 (fun b => lowerByte (lowerByte b) = lowerByte b)
  decide +kernel

theorem lower_upper (bs : Bytes) : lower (upper bs) = lower bs := by
  simp [lower, upper, List.map_map, Function.comp_def, lowerByte_upperByte]

theorem lower_lower (bs : Bytes) : lower (lower bs) = lower bs := by
  simp [lower, List.map_map, Function.comp_def, lowerByte_lowerByte]

/-! ### every resolved key position is an argument position -/

theorem numkeysStepIdx_lt {a b c : Int} {fixed : List Int} {args : List Bytes} {idx : List Nat}
    (h : numkeysStepIdx a b c fixed args = some idx) : ∀ i ∈ idx, i < args.length := by
  unfold numkeysStepIdx at h
  simp only at h
  split at h
  · cases h
  · split at h
    · cases h
    · split at h
      · cases h
      · split at h
        · cases h
        · split at h
          · cases h
          · rename_i h1 h2 h3 h4 h5
            injection h with h
            subst h
            intro i hi
            rcases List.mem_append.mp hi with hi | hi
            · obtain ⟨x, hx, rfl⟩ := List.mem_map.mp hi
              have : ¬ (x < 0 ∨ x ≥ (args.length : Int)) := by
                intro hc
                apply h5
                exact List.any_eq_true.mpr ⟨x, hx, by simpa using hc⟩
              omega
            · obtain ⟨j, hj, rfl⟩ := List.mem_map.mp hi
              have hj' := List.mem_range.mp hj
              generalize parseCommandInt _ = nk at *
              have hjle : (j : Int) ≤ nk - 1 := by omega
              have hc : (0 : Int) ≤ c := by omega
              have hmul : (j : Int) * c ≤ (nk - 1) * c := Int.mul_le_mul_of_nonneg_right hjle hc
              have hjc : (0 : Int) ≤ (j : Int) * c := Int.mul_nonneg (by omega) hc
              omega

theorem fixedKeysIdx_lt {indexes : List Int} {args : List Bytes} {idx : List Nat}
    (h : fixedKeysIdx indexes args = some idx) : ∀ i ∈ idx, i < args.length := by
  unfold fixedKeysIdx at h
  simp only at h
  split at h
  · cases h
  · rename_i h5
    injection h with h
    subst h
    intro i hi
    obtain ⟨x, hx, rfl⟩ := List.mem_map.mp hi
    have : ¬ (x < 0 ∨ x ≥ (args.length : Int)) := by
      intro hc
      apply h5
      exact List.any_eq_true.mpr ⟨x, hx, by simpa using hc⟩
    omega

theorem xgroupIdx_lt {args : List Bytes} {idx : List Nat}
    (h : xgroupIdx args = some idx) : ∀ i ∈ idx, i < args.length := by
  unfold xgroupIdx at h
  split at h
  · simp only at h
    split at h
    · injection h with h; subst h
      intro i hi
      simp at hi
      subst hi
      simp
    · cases h
  · cases h

theorem findFold_lt {w : Bytes} {l : List Bytes} {m : Nat} (h : findFold w l = some m) : m < l.length := by
  induction l generalizing m with
  | nil => simp [findFold] at h
  | cons a rest ih =>
    unfold findFold at h
    split at h
    · injection h with h; subst h; simp
    · cases hf : findFold w rest with
      | none => simp [hf] at h
      | some k =>
        simp [hf] at h
        subst h
        have := ih hf
        simp; omega

theorem streamsIdx_lt {args : List Bytes} {idx : List Nat}
    (h : streamsIdx args = some idx) : ∀ i ∈ idx, i < args.length := by
  unfold streamsIdx at h
  split at h
  · cases h
  · rename_i marker hm
    split at h
    · cases h
    · simp only at h
      split at h
      · cases h
      · injection h with h; subst h
        intro i hi
        obtain ⟨j, hj, rfl⟩ := List.mem_map.mp hi
        have hj' := List.mem_range.mp hj
        have := findFold_lt hm
        omega

theorem sortLoop_lt (N : Nat) (skip i : Nat) (rem : List Bytes) (dst : Option Nat) (d : Nat)
    (h : sortLoop skip i rem dst = some (some d))
    (hk : ∀ k, dst = some k → k < N) (hN : i + rem.length = N) : d < N := by
  induction rem generalizing skip i dst with
  | nil =>
    simp only [sortLoop] at h
    injection h with h
    exact hk d h
  | cons a rest ih =>
    cases skip with
    | succ s =>
      simp only [sortLoop] at h
      exact ih s (i + 1) dst h hk (by simp at hN ⊢; omega)
    | zero =>
      simp only [sortLoop] at h
      split at h
      · exact ih 2 (i + 1) dst h hk (by simp at hN ⊢; omega)
      · split at h
        · cases rest with
          | nil => simp at h
          | cons x rest' =>
            simp only at h
            split at h
            · cases h
            · refine ih 1 (i + 1) (some (i + 1)) h ?_ (by simp at hN ⊢; omega)
              intro k hk'
              injection hk' with hk'
              subst hk'
              simp at hN; omega
        · split at h
          · cases rest with
            | nil => simp at h
            | cons x rest' =>
              simp only at h
              split at h
              · cases h
              · exact ih 1 (i + 1) dst h hk (by simp at hN ⊢; omega)
          · split at h
            · cases rest with
              | nil => simp at h
              | cons x rest' =>
                simp only at h
                split at h
                · cases h
                · exact ih 1 (i + 1) dst h hk (by simp at hN ⊢; omega)
            · exact ih 0 (i + 1) dst h hk (by simp at hN ⊢; omega)

theorem sortIdx_lt {args : List Bytes} {idx : List Nat}
    (h : sortIdx args = some idx) : ∀ i ∈ idx, i < args.length := by
  unfold sortIdx at h
  split at h
  · cases h
  · rename_i a rest
    split at h
    · rename_i d hl
      injection h with h; subst h
      have := sortLoop_lt (rest.length + 1) 0 1 rest none d hl (by intro k hk; cases hk) (by omega)
      intro i hi
      simp at hi
      rcases hi with hi | hi <;> subst hi <;> simp <;> omega
    · cases h

theorem geoLoop_lt (N : Nat) (skip i : Nat) (l : List Bytes) (dst : Option Nat) (k : Nat)
    (h : geoLoop skip i l dst = some k)
    (hk : ∀ j, dst = some j → j < N) (hN : i + l.length = N) : k < N := by
  induction l generalizing skip i dst with
  | nil =>
    simp only [geoLoop] at h
    exact hk k h
  | cons a rest ih =>
    cases skip with
    | succ s =>
      simp only [geoLoop] at h
      exact ih s (i + 1) dst h hk (by simp at hN ⊢; omega)
    | zero =>
      simp only [geoLoop] at h
      split at h
      · rename_i hc
        refine ih 1 (i + 1) (some (i + 1)) h ?_ (by simp at hN ⊢; omega)
        intro j hj
        injection hj with hj
        subst hj
        cases rest with
        | nil => simp at hc
        | cons x r => simp at hN; omega
      · exact ih 0 (i + 1) dst h hk (by simp at hN ⊢; omega)

theorem geoIdx_lt {args : List Bytes} {idx : List Nat}
    (h : geoIdx args = some idx) : ∀ i ∈ idx, i < args.length := by
  unfold geoIdx at h
  split at h
  · cases h
  · rename_i a rest
    split at h
    · rename_i k hk
      injection h with h; subst h
      by_cases hlen : 4 ≤ (a :: rest).length
      · have := geoLoop_lt (a :: rest).length 0 4 ((a :: rest).drop 4) none k hk (by intro j hj; cases hj)
          (by simp only [List.length_drop]; omega)
        intro i hi
        simp at hi
        rcases hi with hi | hi
        · subst hi; simp
        · subst hi; exact this
      · have hd : (a :: rest).drop 4 = [] := List.drop_eq_nil_of_le (by omega)
        rw [hd] at hk
        simp [geoLoop] at hk
    · cases h

theorem runExtractor_lt {ex : Gen.KeyExtractor} {args : List Bytes} {idx : List Nat}
    (h : runExtractor ex args = some idx) : ∀ i ∈ idx, i < args.length := by
  cases ex with
  | numkeysStep a b c fixed => exact numkeysStepIdx_lt h
  | fixedKeys ix => exact fixedKeysIdx_lt h
  | geoRadiusStore => exact geoIdx_lt h
  | xgroup => exact xgroupIdx_lt h
  | streams => exact streamsIdx_lt h
  | sort => exact sortIdx_lt h

theorem tableIndexes_lt {first last step : Int} {n : Nat} {idx : List Nat}
    (h : tableIndexes first last step n = some idx) : idx ≠ [] ∧ ∀ i ∈ idx, i < n := by
  unfold tableIndexes at h
  generalize (if last > 0 then last - 1 else if last = 0 then (n : Int) - 1 else (n : Int) + last) = lastkey at h
  simp only at h
  split at h
  · cases h
  · rename_i h1
    split at h
    · cases h
    · rename_i h2
      injection h with h; subst h
      constructor
      · simp
      · intro i hi
        obtain ⟨j, hj, rfl⟩ := List.mem_map.mp hi
        have hj' := List.mem_range.mp hj
        have hstep : (0 : Int) < step := by omega
        have hq : (0 : Int) ≤ (lastkey - (first - 1)) / step := Int.ediv_nonneg (by omega) (by omega)
        have hjle : (j : Int) ≤ (lastkey - (first - 1)) / step := by omega
        have hmul : (j : Int) * step ≤ (lastkey - (first - 1)) / step * step :=
          Int.mul_le_mul_of_nonneg_right hjle (by omega)
        have hdm : (lastkey - (first - 1)) / step * step ≤ lastkey - (first - 1) :=
          Int.ediv_mul_le _ (by omega)
        have hjc : (0 : Int) ≤ (j : Int) * step := Int.mul_nonneg (by omega) (by omega)
        omega

theorem keyIndexes_inRange {cmd : Bytes} {args : List Bytes} {idx : List Nat}
    (h : keyIndexes cmd args = some idx) : idx ≠ [] ∧ ∀ i ∈ idx, i < args.length := by
  unfold keyIndexes at h
  simp only at h
  split at h
  · cases h
  · split at h
    · rename_i ex _
      split at h
      · rename_i idx' hex
        split at h
        · cases h
        · rename_i hne
          injection h with h; subst h
          exact ⟨by simpa using hne, runExtractor_lt hex⟩
      · cases h
    · split at h
      · cases h
      · exact tableIndexes_lt h

end GunYu.Filter
