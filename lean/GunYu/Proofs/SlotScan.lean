/-
  Helper lemmas for C11: both Go scanners select the HASH_SLOT hash-tag bytes.
-/
import GunYu.Model.Slot

namespace GunYu.Slot

theorem ktsInner_spec (c : Bytes) (acc : Bytes) :
    ktsInner c acc = (splitFirst rbrace c).map (fun p => acc.reverse ++ p.1) := by
  induction c generalizing acc with
  | nil => simp [ktsInner, splitFirst]
  | cons b rest ih =>
    rw [ktsInner, splitFirst]
    by_cases hb : b == rbrace
    · simp [hb]
    · simp only [hb, Bool.false_eq_true, ↓reduceIte]
      rw [ih]
      cases splitFirst rbrace rest with
      | none => rfl
      | some p => obtain ⟨x, y⟩ := p; simp

theorem ktsOuter_spec (k : Bytes) :
    ktsOuter k =
      match splitFirst lbrace k with
      | none => []
      | some (_, afterL) =>
        match splitFirst rbrace afterL with
        | none => []
        | some (inner, _) => inner := by
  induction k with
  | nil => simp [ktsOuter, splitFirst]
  | cons b rest ih =>
    rw [ktsOuter, splitFirst]
    by_cases hb : b == lbrace
    · simp only [hb, ↓reduceIte]
      rw [ktsInner_spec]
      cases splitFirst rbrace rest with
      | none => rfl
      | some p => obtain ⟨x, y⟩ := p; simp
    · simp only [hb, Bool.false_eq_true, ↓reduceIte]
      rw [ih]
      cases splitFirst lbrace rest with
      | none => rfl
      | some p => obtain ⟨x, y⟩ := p; rfl

/-- the bytes KeyToSlot hashes -/
def ktsHashed (k : Bytes) : Bytes :=
  if (ktsOuter k).length > 0 then ktsOuter k else k

theorem ktsHashed_eq_spec (k : Bytes) : ktsHashed k = hashTagSpec k := by
  unfold ktsHashed hashTagSpec
  rw [ktsOuter_spec]
  cases splitFirst lbrace k with
  | none => simp
  | some p =>
    obtain ⟨x, afterL⟩ := p
    simp only
    cases splitFirst rbrace afterL with
    | none => simp
    | some q =>
      obtain ⟨inner, y⟩ := q
      cases inner with
      | nil => simp
      | cons a as => simp

/-! cluster.go `hash` -/

theorem scanFor_spec (c : UInt8) (k : Bytes) :
    match splitFirst c k with
    | none => scanFor c k = k.length
    | some (x, y) => scanFor c k = x.length ∧ k = x ++ c :: y := by
  induction k with
  | nil => simp [splitFirst, scanFor]
  | cons b rest ih =>
    rw [splitFirst, scanFor]
    by_cases hb : b == c
    · have : b = c := by simpa using hb
      simp [this]
    · simp only [hb, Bool.false_eq_true, ↓reduceIte]
      cases h : splitFirst c rest with
      | none => simp [h] at ih; simp [ih]
      | some p =>
        obtain ⟨x, y⟩ := p
        simp [h] at ih
        simp [ih.1]
        exact ih.2

/-- the bytes cluster `hash` hashes -/
def clusterHashed (k : Bytes) : Bytes :=
  let s := scanFor lbrace k
  if s = k.length then k
  else
    let tail := k.drop (s + 1)
    let e := s + 1 + scanFor rbrace tail
    if e = k.length ∨ e = s + 1 then k
    else (k.drop (s + 1)).take (e - (s + 1))

theorem clusterHashed_eq_spec (k : Bytes) : clusterHashed k = hashTagSpec k := by
  unfold clusterHashed hashTagSpec
  have h1 := scanFor_spec lbrace k
  cases hs : splitFirst lbrace k with
  | none => simp [hs] at h1; simp [h1]
  | some p =>
    obtain ⟨x, afterL⟩ := p
    simp [hs] at h1
    obtain ⟨hx, hk⟩ := h1
    have hlen : k.length = x.length + 1 + afterL.length := by
      rw [hk]; simp; omega
    have hdrop : k.drop (x.length + 1) = afterL := by
      rw [hk]; simp
    have hne : ¬ x.length = k.length := by omega
    simp only [hx, hne, ↓reduceIte, hdrop]
    have h2 := scanFor_spec rbrace afterL
    cases hs2 : splitFirst rbrace afterL with
    | none =>
      simp [hs2] at h2
      have : x.length + 1 + afterL.length = k.length := by omega
      simp [h2, this]
    | some q =>
      obtain ⟨inner, y⟩ := q
      simp [hs2] at h2
      obtain ⟨hi, ha⟩ := h2
      have hal : afterL.length = inner.length + 1 + y.length := by
        rw [ha]; simp; omega
      have hA : ¬ (x.length + 1 + inner.length = k.length) := by omega
      cases inner with
      | nil => simp [hi]
      | cons a as =>
        have hB : ¬ (x.length + 1 + (a :: as).length = x.length + 1) := by simp
        simp only [hi, hA, hB, or_self, ↓reduceIte, List.isEmpty_cons, Bool.false_eq_true]
        rw [ha]
        simp

end GunYu.Slot

namespace GunYu.Slot

theorem splitFirst_none (c : UInt8) (k : Bytes) (h : c ∉ k) : splitFirst c k = none := by
  induction k with
  | nil => rfl
  | cons b rest ih =>
    have hb : b ≠ c := fun e => h (by simp [e])
    have hr : c ∉ rest := fun e => h (List.mem_cons_of_mem _ e)
    simp [splitFirst, hb, ih hr]

theorem splitFirst_at (c : UInt8) (pre post : Bytes) (h : c ∉ pre) :
    splitFirst c (pre ++ c :: post) = some (pre, post) := by
  induction pre with
  | nil => simp [splitFirst]
  | cons b rest ih =>
    have hb : b ≠ c := fun e => h (by simp [e])
    have hr : c ∉ rest := fun e => h (List.mem_cons_of_mem _ e)
    simp [splitFirst, hb, ih hr]

end GunYu.Slot
