/-
  C16 — where a leader's channel run id comes from (hypothesis `hq` of Props/C16.lean:
  "the leader's channel run id is never the literal `?`").

  * `getRunIds`     : pkg/redis/util.go `GetRunIds` — `INFO replication` split at "\r\n",
                      the text after `master_replid:` / `master_replid2:` (last such line wins),
                      taken verbatim
  * `parsePsync`    : pkg/redis/psync.go `SendPSync` after `receivePSyncReply` — the reply split
                      at " ", `continue [id]` / `fullresync id offset`, anything else an error
  * `chanIdOf`      : syncer/input.go `syncMeta` "correct run id": the id handed to
                      `channel.SetRunId` is the reply's id on a full resynchronisation, the
                      INFO's `master_replid` otherwise
  * `ChanOp`, `chanStep` : what the leader's own input does to its channel's run id
                      (`StartPoint(inputIds)` → `VerifyRunId`, `DelRunId(RunId())`, `SetRunId`),
                      on the `Store` of Model/Replica.lean
  Text is `List Char` (the driver converts); core Lean only.
-/
import GunYu.Model.Replica

namespace GunYu.Replica
open GunYu

abbrev Txt := List Char

/-- `strings.CutPrefix` -/
def cutPrefix : Txt → Txt → Option Txt
  | [], l => some l
  | _ :: _, [] => none
  | p :: ps, c :: cs => if p = c then cutPrefix ps cs else none

/-- `strings.Split(s, "\r\n")` (`acc` = the current piece, reversed) -/
def splitCRLF : Txt → Txt → List Txt
  | acc, [] => [acc.reverse]
  | acc, '\r' :: '\n' :: rest => acc.reverse :: splitCRLF [] rest
  | acc, c :: rest => splitCRLF (c :: acc) rest

/-- `strings.Split(s, " ")` -/
def splitSp : Txt → Txt → List Txt
  | acc, [] => [acc.reverse]
  | acc, ' ' :: rest => acc.reverse :: splitSp [] rest
  | acc, c :: rest => splitSp (c :: acc) rest

def kReplid : Txt := "master_replid:".toList
def kReplid2 : Txt := "master_replid2:".toList

/-- `af, ok := strings.CutPrefix(line, key); if ok { id = af }` -/
def pick (key line id : Txt) : Txt :=
  match cutPrefix key line with
  | some af => af
  | none => id

/-- the loop of `GetRunIds` over the lines -/
def runIdsOfLines : List Txt → Txt × Txt → Txt × Txt
  | [], acc => acc
  | l :: rest, (id1, id2) => runIdsOfLines rest (pick kReplid l id1, pick kReplid2 l id2)

/-- pkg/redis/util.go `GetRunIds` on the text of `INFO replication` -/
def getRunIds (info : Txt) : Txt × Txt := runIdsOfLines (splitCRLF [] info) ([], [])

def lowerAscii (s : Txt) : Txt :=
  s.map (fun c => if 'A' ≤ c ∧ c ≤ 'Z' then Char.ofNat (c.toNat + 32) else c)

def digitsVal : Txt → Nat → Option Nat
  | [], n => some n
  | c :: cs, n => if '0' ≤ c ∧ c ≤ '9' then digitsVal cs (n * 10 + (c.toNat - 48)) else none

/-- `strconv.ParseInt(s, 10, 64)` -/
def parseInt64 (s : Txt) : Option Int :=
  let (neg, ds) := match s with
    | '-' :: r => (true, r)
    | '+' :: r => (false, r)
    | r => (false, r)
  match ds with
  | [] => none
  | _ =>
    match digitsVal ds 0 with
    | none => none
    | some v =>
      if neg then (if v ≤ 9223372036854775808 then some (-(v : Int)) else none)
      else (if v ≤ 9223372036854775807 then some (v : Int) else none)

structure PsyncAns where
  id : Txt
  off : Int
  full : Bool
deriving DecidableEq, Repr

/-- pkg/redis/psync.go `SendPSync(runid, offset)` once the reply line has arrived: `asked`/`off`
    are the arguments (the offset goes on the wire incremented by one when it is not negative,
    and comes back decremented on `continue`) -/
def parsePsync (reply asked : Txt) (off : Int) : Option PsyncAns :=
  let wire := if off ≥ 0 then off + 1 else off
  match splitSp [] reply with
  | x0 :: rest =>
    if lowerAscii x0 = "continue".toList then
      let id := match rest with
        | x1 :: _ => if x1 ≠ [] then x1 else asked
        | [] => asked
      some ⟨id, wire - 1, false⟩
    else match rest with
      | x1 :: x2 :: _ =>
        if lowerAscii x0 = "fullresync".toList then
          match parseInt64 x2 with
          | some v => some ⟨x1, v, true⟩
          | none => none
        else none
      | _ => none
  | [] => none

/-- syncer/input.go `syncMeta`, "correct run id": what is handed to `channel.SetRunId` -/
def chanIdOf (id1 : Txt) (a : PsyncAns) : Txt := if a.full then a.id else id1

/-! ### the leader's channel under its own input -/

/-- pkg/store `VerifyRunId(ids)`: the first listed id (not ""/"?") whose directory exists
    becomes current; an empty one (`LatestOffset() == 0`) does not end the search -/
def verifyRunId : Store β → List Id → Store β
  | F, [] => F
  | F, id :: rest =>
    if special id then verifyRunId F rest
    else match F.get id with
      | none => verifyRunId F rest
      | some v =>
        let F' := setRunId .disk F id
        if latest v = 0 then verifyRunId F' rest else F'

/-- what syncer/input.go does to the run id of the leader's channel: `StartPoint(inputIds)`
    (disk: `VerifyRunId`; memory: a pure query), `DelRunId(channel.RunId())` (full
    resynchronisation, cleared cache, corrupted data), `SetRunId(id)` -/
inductive ChanOp
  | startPoint (ids : List Id)
  | delOwn
  | set (id : Id)

def chanStep (bk : Backend) (F : Store β) : ChanOp → Store β
  | .startPoint ids => match bk with
    | .disk => verifyRunId F ids
    | .mem => F
  | .delOwn => delRunId bk F F.cur
  | .set id => setRunId bk F id

end GunYu.Replica
