/-
  C08 — the disk cache's files, extended operation set (session 4).

  Adds to Model/StoreFs.lean (nothing there is changed):

  * `tornLastX`, `crashImageX` : process death tears the last write whatever it
                                 is — an append OR the 16-byte header rewrite of
                                 `closeAof` (`Seek(0)+Write(header)`)
  * `Att`                      : an ATTEMPTED file operation with its outcome (the
                                 syscall succeeded / failed) — what strace shows
  * `XOp`, `XDisk`, `xstep`    : the writers' steps WITH FAULTS
        - the header rewrite at close / at rotation writes `k < 16` bytes and fails
          (`closeAof`: `ret(err)`, the close observer is NOT called: the segment
          keeps its writer reference for ever — `zombies` — and the collector
          stops at it)
        - the open of the next segment at rotation fails (`openFile` → error, the
          writer ends; the closed segment is indexed, nothing new is)
        - `os.Remove` fails: the empty live segment at close, the temporary
          snapshot at an incomplete close, every removal of a collector pass
          (`gcLogs` drops the index entries whatever `RemoveAll` returns)
    After a failed removal the directory holds files the index does not know
    (orphans); `resetDataSet` removes what `filepath.Walk` FINDS, so the reset's
    removals are computed from the directory (`xResetOps`), not from the index.
-/
import GunYu.Model.StoreFs

namespace GunYu.StoreFsX
open GunYu GunYu.Store GunYu.StoreFs

/-! ### process death: the last write torn, header rewrites included -/

/-- the last operation torn after `k` bytes: an append, or a header rewrite
    (`pwriteHdr n (hdr.take k)` overwrites the first `k` bytes only) -/
def tornLastX (ops : List FsOp) (k : Nat) : List FsOp :=
  match ops.getLast? with
  | some (.append n bs) => ops.dropLast ++ [.append n (bs.take k)]
  | some (.pwriteHdr n hdr) => ops.dropLast ++ [.pwriteHdr n (hdr.take k)]
  | _ => ops

/-- the directory after the process died having issued `n` operations, the last
    one (append or header rewrite) having written only `k` of its bytes -/
def crashImageX (fs : FS) (ops : List FsOp) (n k : Nat) : FS :=
  fs.applyAll (tornLastX (ops.take n) k)

/-! ### attempted operations -/

structure Att where
  op : FsOp
  ok : Bool
deriving Repr, DecidableEq

def allOk (ops : List FsOp) : List Att := ops.map (fun o => ⟨o, true⟩)
def allFail (ops : List FsOp) : List Att := ops.map (fun o => ⟨o, false⟩)

/-- the operations that took effect -/
def okOps (l : List Att) : List FsOp := (l.filter (·.ok)).map (·.op)

/-! ### the collector with pinned segments -/

/-- `gcLogs`' removal loop: stops at the first segment that carries a reference —
    a reader's, or the writer reference of a segment whose close observer never
    ran (`z`) -/
def dropUnrefZ (z : List Nat) (rs : List DReader) : Nat → List DSeg → List DSeg
  | 0, l => l
  | _ + 1, [] => []
  | k + 1, g :: rest =>
    if readerRefs rs g.left > 0 || z.contains g.left then g :: rest else dropUnrefZ z rs k rest

def gcZ (s : Disk) (z : List Nat) : Disk :=
  if s.maxSize = 0 then s else
  let (k, size) := gcScanRev s.maxSize s.all.reverse 0
  match s.rdb with
  | none => { s with segs := dropUnrefZ z s.readers k s.segs }
  | some r =>
    if size + r.size > s.maxSize then
      if rdbRef s.readers r = 0 then { s with rdb := none, segs := dropUnrefZ z s.readers k s.segs }
      else s
    else { s with segs := dropUnrefZ z s.readers k s.segs }

/-- the removals of one collector pass: the snapshot first, then the segments, oldest first -/
def gcOpsZ (s : Disk) (z : List Nat) : List FsOp :=
  (match s.rdb, (gcZ s z).rdb with
   | some r, none => [.remove (rdbName r.left r.size)]
   | _, _ => []) ++
  (s.segs.take (s.segs.length - (gcZ s z).segs.length)).map (fun g => FsOp.remove (aofName g.left))

/-! ### reset: what the directory walk finds is removed -/

def rdbCloseOps (s : Disk) : List FsOp :=
  match s.rdb with
  | some r => if r.writing then [.remove (rdbTmpName r.left r.size)] else []
  | none => []

/-- `resetDataSet`: close the index (snapshot writer, then the stream writer),
    then `filepath.Walk` + `os.RemoveAll` on every entry of the directory, in
    lexical order — orphans included -/
def xResetOps (s : Disk) (fs : FS) : List FsOp :=
  let pre := rdbCloseOps s ++ closeLiveOps s
  pre ++ (sortNames ((fs.applyAll pre).map (·.1))).map FsOp.remove

/-! ### the steps -/

inductive XOp where
  | op (o : DOp)                                  -- a step without fault
  | aofCloseHdrFail (k : Nat)                     -- close: the header rewrite writes k bytes, then fails
  | aofAppendHdrFail (chunk : Bytes) (k : Nat)    -- rotation: data written, header rewrite fails after k bytes
  | aofAppendOpenFail (chunk : Bytes)             -- rotation: header written, the next segment cannot be opened
  | aofAppendShort (chunk : Bytes) (k : Nat)      -- short write: k bytes of the chunk reach the file, the writer ends
  | aofCloseRmFail                                -- close of an empty live segment: os.Remove fails
  | rdbCloseRmFail                                -- incomplete snapshot closed: os.Remove(tmp) fails
  | gcRmFail (stuck : List Nat) (all : Bool)      -- collector pass: RemoveAll fails for the segments `stuck` (all: for every file)
  -- session 5 — `RdbWriter.closeRdb`, the COMMIT of a completely received snapshot fails: the last chunk is
  -- written, then `Sync` or `Close` fails (`ren = false`: no rename is attempted) or `os.Rename(tmp, final)`
  -- fails (`ren = true`); the observer is told `Close(left, size, true)` (dropped like an incomplete
  -- snapshot), then `os.Remove(tmp)` succeeds (`rmOk`) or fails
  | rdbCommitFail (chunk : Bytes) (ren rmOk : Bool)
deriving Repr, DecidableEq

structure XDisk where
  d : Disk                 -- the index
  fs : FS                  -- the directory as it really is
  zombies : List Nat       -- segments whose writer reference was never dropped
deriving Repr

def XDisk.init (logSize maxSize : Nat) : XDisk := ⟨Disk.init logSize maxSize, [], []⟩

def zKeep (z : List Nat) (d : Disk) : List Nat := z.filter (fun l => d.segs.any (·.left == l))

def baseOps (s : XDisk) : DOp → List FsOp
  | .newRdbWriter off size => xResetOps s.d s.fs ++ [.create (rdbTmpName off size)]
  | .gc => gcOpsZ s.d s.zombies
  | o => fsOps s.d o

def baseDisk (s : XDisk) : DOp → Disk
  | .gc => gcZ s.d s.zombies
  | o => (s.d.step o).1

def baseZombies (s : XDisk) : DOp → List Nat
  | .newRdbWriter _ _ => []
  | .delRunId => []
  | .setRunId id => if id = s.d.runId then s.zombies else []
  | _ => s.zombies

/-- a step without fault -/
def xbase (s : XDisk) (o : DOp) : XDisk × List Att :=
  let ops := baseOps s o
  let d' := baseDisk s o
  (⟨d', s.fs.applyAll ops, zKeep (baseZombies s o) d'⟩, allOk ops)

/-- the successful part of a header rewrite that fails after `k` bytes -/
def hdrTornOps (n : FName) (hdr : Bytes) (k : Nat) : List FsOp :=
  if k = 0 then [] else [.pwriteHdr n (hdr.take k)]

/-- the removals of a collector pass that fail -/
def gcStuck (stuck : List Nat) (all : Bool) : FsOp → Bool
  | .remove (.aof l) => all || stuck.contains l
  | _ => all

/-- the attempted file operations of a snapshot commit that fails: the last chunk reaches the temporary
    file; a rename that is attempted fails; the temporary file is removed (or that fails too) -/
def commitFailAtts (r : DRdb) (chunk : Bytes) (ren rmOk : Bool) : List Att :=
  [⟨.append (rdbTmpName r.left r.size) chunk, true⟩] ++
  (if ren then [⟨.rename (rdbTmpName r.left r.size) (rdbName r.left r.size), false⟩] else []) ++
  [⟨.remove (rdbTmpName r.left r.size), rmOk⟩]

def xstep (s : XDisk) : XOp → XDisk × List Att
  | .op o => xbase s o
  | .aofCloseHdrFail k =>
    match s.d.live with
    | none => xbase s .aofClose
    | some g =>
      if g.data.isEmpty then xbase s .aofClose       -- no header is written for an empty segment
      else
        let n := aofName g.left
        let hdr := closedHeader g.data
        let ops := hdrTornOps n hdr k
        (⟨s.d.closeLive, s.fs.applyAll ops, g.left :: s.zombies⟩,
         allOk ops ++ [⟨.pwriteHdr n (hdr.drop k), false⟩])
  | .aofAppendHdrFail chunk k =>
    match s.d.live with
    | none => xbase s (.aofAppend chunk)
    | some g =>
      let data := g.data ++ chunk
      if 16 + data.length > s.d.logSize then
        let n := aofName g.left
        let ops := [FsOp.append n chunk] ++ hdrTornOps n (closedHeader data) k
        (⟨(s.d.step (.aofAppend chunk)).1.closeLive, s.fs.applyAll ops, g.left :: s.zombies⟩,
         allOk ops ++ [⟨.pwriteHdr n ((closedHeader data).drop k), false⟩])
      else xbase s (.aofAppend chunk)
  | .aofAppendOpenFail chunk =>
    match s.d.live with
    | none => xbase s (.aofAppend chunk)
    | some g =>
      let data := g.data ++ chunk
      if 16 + data.length > s.d.logSize then
        let n := aofName g.left
        let ops := [FsOp.append n chunk, FsOp.pwriteHdr n (closedHeader data)]
        (⟨(s.d.step (.aofAppend chunk)).1.closeLive, s.fs.applyAll ops, s.zombies⟩,
         allOk ops ++ [⟨.create (aofName (g.left + data.length)), false⟩])
      else xbase s (.aofAppend chunk)
  | .aofAppendShort chunk k =>
    -- `write`: `n, err := w.file.Write(buf)` with `0 < n < len(buf)`: the `n` bytes are accounted
    -- for, the error is returned WITHOUT a rotation (whatever the size), `ingest` ends and the
    -- writer is closed (header rewrite)
    match s.d.live with
    | none => xbase s (.aofAppend chunk)
    | some g =>
      let n := aofName g.left
      let part := chunk.take k
      let d1 : Disk := { s.d with live := some { g with data := g.data ++ part }, hist := s.d.hist ++ part }
      let s1 : XDisk := ⟨d1, s.fs.applyAll [FsOp.append n part], s.zombies⟩
      let r := xbase s1 .aofClose
      (r.1, allOk [FsOp.append n part] ++ [⟨.append n (chunk.drop k), false⟩] ++ r.2)
  | .aofCloseRmFail =>
    match s.d.live with
    | none => xbase s .aofClose
    | some g =>
      if g.data.isEmpty then
        (⟨s.d.closeLive, s.fs, s.zombies⟩, [⟨.remove (aofName g.left), false⟩])
      else xbase s .aofClose
  | .rdbCloseRmFail =>
    match s.d.rdb with
    | none => xbase s .rdbClose
    | some r =>
      if r.writing then
        (⟨(s.d.step .rdbClose).1, s.fs, s.zombies⟩, [⟨.remove (rdbTmpName r.left r.size), false⟩])
      else xbase s .rdbClose
  | .gcRmFail stuck all =>
    -- `gcLogs` drops the index entries whatever `os.RemoveAll` returns
    let d' := gcZ s.d s.zombies
    let atts := (gcOpsZ s.d s.zombies).map (fun o => (⟨o, !gcStuck stuck all o⟩ : Att))
    (⟨d', s.fs.applyAll (okOps atts), zKeep s.zombies d'⟩, atts)
  | .rdbCommitFail chunk ren rmOk =>
    -- `ingest` wrote the last chunk (`pumped == rdbSize`), `closeRdb`: Sync, Close, [Rename], then —
    -- one of them having failed — `Close(left, size, true)` to the index and `os.Remove(tmp)`
    match s.d.rdb with
    | none => xbase s (.rdbAppend chunk)
    | some r =>
      if r.writing && decide (r.data.length + chunk.length = r.size) then
        (⟨(s.d.step .rdbClose).1, s.fs.applyAll (okOps (commitFailAtts r chunk ren rmOk)), s.zombies⟩,
         commitFailAtts r chunk ren rmOk)
      else xbase s (.rdbAppend chunk)

/-- all attempted file operations of a script, with the state threaded through -/
def xrun (s : XDisk) : List XOp → List Att
  | [] => []
  | x :: rest => (xstep s x).2 ++ xrun (xstep s x).1 rest

def xfinal (s : XDisk) : List XOp → XDisk
  | [] => s
  | x :: rest => xfinal (xstep s x).1 rest

/-- the file operations of a script that took effect -/
def xScriptOps (s : XDisk) (xs : List XOp) : List FsOp := okOps (xrun s xs)

/-- the callers' protocol, extended: the injected header fault leaves at least
    one byte unwritten -/
def okX (s : XDisk) : XOp → Prop
  | .op o => s.d.okOp o
  | .aofCloseHdrFail k => k < 16
  | .aofAppendHdrFail chunk k => chunk ≠ [] ∧ k < 16
  | .aofAppendOpenFail chunk => chunk ≠ []
  | .aofAppendShort chunk k => 0 < k ∧ k < chunk.length
  | .rdbCommitFail chunk _ _ => s.d.okOp (.rdbAppend chunk)
  | _ => True

instance (s : XDisk) (x : XOp) : Decidable (okX s x) := by
  cases x <;> simp only [okX] <;> infer_instance

def wfX (s : XDisk) : List XOp → Prop
  | [] => True
  | x :: rest => okX s x ∧ wfX (xstep s x).1 rest

instance wfX.dec : (s : XDisk) → (xs : List XOp) → Decidable (wfX s xs)
  | _, [] => isTrue trivial
  | s, x :: rest =>
    have := wfX.dec (xstep s x).1 rest
    inferInstanceAs (Decidable (okX s x ∧ wfX (xstep s x).1 rest))

/-! ### executable checks of the theorems' hypotheses (the driver runs them on every script) -/

/-- the chunk is the source's bytes from offset `o` on -/
def chunkOkFrom (src : Nat → UInt8) : Nat → Bytes → Bool
  | _, [] => true
  | o, b :: t => b == src o && chunkOkFrom src (o + 1) t

/-- the stream chunk a step hands to the writer -/
def xopChunk : XOp → Option Bytes
  | .op (.aofAppend c) => some c
  | .aofAppendHdrFail c _ => some c
  | .aofAppendOpenFail c => some c
  | .aofAppendShort c _ => some c
  | _ => none

/-- `SrcOkX`, executable: every chunk appended is the source's bytes at the offset the
    history ghost has reached -/
def srcOkXB (src : Nat → UInt8) (s : XDisk) : List XOp → Bool
  | [] => true
  | x :: rest =>
    (match xopChunk x with
     | some c => chunkOkFrom src (s.d.hbase + s.d.hist.length) c
     | none => true) && srcOkXB src (xstep s x).1 rest

def wfXB (s : XDisk) (xs : List XOp) : Bool := decide (wfX s xs)

/-- what the step is for the snapshot writer's ghost -/
def recvOp : XOp → DOp
  | .op o => o
  | .rdbCloseRmFail => .rdbClose
  | .rdbCommitFail chunk _ _ => .rdbAppend chunk      -- the chunk WAS received (and written)
  | _ => .aofClose

/-- the ghost run from any ghost state (a restart begins with the snapshot the
    re-opened index holds) -/
def recvFrom (g0 : RecvG) (ops : List DOp) : RecvG := ops.foldl recvStep g0

end GunYu.StoreFsX
