/-
  C15 — the lease with election calls that TAKE TIME.

  Model/Lease.lean answers a call in the instant its script runs. Here a
  campaign / renewal is three separate events on the real-time axis (the
  store's clock; instance clocks enter through the bound `hold`, see below):

      send   the instance issues the call                      (instant `sent`)
      exec   the script runs at the store                      (any later instant, or never)
      answer the reply reaches the instance                    (any later instant, or never)

  with `giveUp` (the instance abandons the call: error, broken connection,
  timeout if the code has one), `stray` (a request nobody waits for any more
  runs at the store after all), `stop` (the instance stops leading: the ticker
  closed the syncer's wait, the lease watchdog fired, the context was
  cancelled, the process crashed) and `resign` (cmd/syncer.go runCluster
  resigns only after `sy.Stop(); syncerWait.WgWait()`: a resign of an instance
  that is still leading or still has a call in flight is not a behaviour of
  the code and is ignored by `tstep`).

  `acting` = the instance runs RunLeader: from the answer "leader" until `stop`.

  What bounds a call in the code (pkg/cluster/redis_election.go,
  pkg/redis/client/conn/redis_conn.go, cmd/syncer.go): NOTHING bounds the call
  itself — `redisElection.Campaign` ignores its context, `RedisConn.Do` sets no
  deadline (the harness measures this on the real client every run). Since
  /repo 8b531f9 the leader is bounded instead: `clusterTicker` runs the call
  beside a timer that closes the syncer's wait `leaseHold` after the SEND of
  the last call that was answered "leader". That is the schedule condition
  `TAllowed`: time does not pass beyond `okSent + hold id` while the instance
  acts. `hold id` is a real-time bound: the code's `leaseHold` (store ttl −
  renew period, on the instance's clock) + the drift of that clock against
  the store's over one lease + the time `sy.Stop()` needs.
  Core-only.
-/
import GunYu.Model.Lease

namespace GunYu.Lease
open GunYu

/-- a call in flight -/
structure Pend where
  sent : Nat              -- real time of the send
  res : Option Role       -- `some r`: the script has run at the store, answer `r` is on its way
  deriving DecidableEq, Repr

/-- what an instance (one id contending for one key) is doing -/
structure Inst where
  acting : Bool           -- RunLeader is running
  pend : Option Pend      -- the election client serialises the calls of an instance
  okSent : Nat            -- send instant of the last call that was answered "leader"
  deriving DecidableEq, Repr

def Inst.idle : Inst := { acting := false, pend := none, okSent := 0 }

structure TSys where
  base : Sys                       -- store, real time, and the ghost `told` (lease deadlines by script time)
  inst : Bytes → Bytes → Inst

def setInst (f : Bytes → Bytes → Inst) (key id : Bytes) (v : Inst) : Bytes → Bytes → Inst :=
  fun k i => if k = key ∧ i = id then v else f k i

inductive TEv where
  | tick (d : Nat)
  | send (key id : Bytes)
  | exec (key id : Bytes)
  | answer (key id : Bytes)
  | giveUp (key id : Bytes)
  | stray (key id : Bytes)
  | stop (key id : Bytes)
  | resign (key id : Bytes)
  deriving DecidableEq, Repr

def roleOf : Out → Role
  | .role r _ => r
  | _ => .candidate

/-- `cfg id` = ttl in seconds, `hold id` = how long (real ms) after the send of
    its last successful call instance `id` may go on leading -/
def tstep (cfg hold : Bytes → Nat) (s : TSys) : TEv → TSys
  | .tick d => { s with base := (step cfg s.base (.tick d)).1 }
  | .send key id =>
    match (s.inst key id).pend with
    | none => { s with inst := setInst s.inst key id { s.inst key id with pend := some ⟨s.base.now, none⟩ } }
    | some _ => s
  | .exec key id =>
    match (s.inst key id).pend with
    | some ⟨sent, none⟩ =>
      let r := step cfg s.base (.campaign key id)
      { base := r.1,
        inst := setInst s.inst key id { s.inst key id with pend := some ⟨sent, some (roleOf r.2)⟩ } }
    | _ => s
  | .answer key id =>
    match (s.inst key id).pend with
    | some ⟨sent, some r⟩ =>
      if r = .leader then
        if s.base.now ≤ sent + hold id then
          { s with inst := setInst s.inst key id { acting := true, pend := none, okSent := sent } }
        else  -- answered too late to lead on this lease (runCluster campaigns again / the watchdog has fired)
          { s with inst := setInst s.inst key id { s.inst key id with acting := false, pend := none } }
      else  -- follower / ErrNotLeader / error: the instance retries or stops when IT decides (`stop`)
        { s with inst := setInst s.inst key id { s.inst key id with pend := none } }
    | _ => s
  | .giveUp key id =>
    { s with inst := setInst s.inst key id { s.inst key id with pend := none } }
  | .stray key id =>
    { s with base := (step cfg s.base (.lostCampaign key id true)).1 }
  | .stop key id =>
    { s with inst := setInst s.inst key id { s.inst key id with acting := false, pend := none } }
  | .resign key id =>
    if (s.inst key id).acting = false ∧ (s.inst key id).pend = none then
      { s with base := (step cfg s.base (.resign key id)).1 }
    else s

def trun (cfg hold : Bytes → Nat) (s : TSys) : List TEv → TSys
  | [] => s
  | ev :: rest => trun cfg hold (tstep cfg hold s ev) rest

/-- The only condition on schedules: real time does not pass beyond
    `okSent + hold` of an instance that is still leading (what the lease timer
    of `clusterTicker` enforces, whatever the election calls do). Sends,
    script executions, answers, give-ups, stray executions, stops, crashes,
    resigns are unconstrained. -/
def TAllowed (hold : Bytes → Nat) (s : TSys) : TEv → Prop
  | .tick d => ∀ key id, (s.inst key id).acting = true → s.base.now + d ≤ (s.inst key id).okSent + hold id
  | _ => True

def trunOk (cfg hold : Bytes → Nat) (s : TSys) : List TEv → Prop
  | [] => True
  | ev :: rest => TAllowed hold s ev ∧ trunOk cfg hold (tstep cfg hold s ev) rest

/-- any store contents and clock; nobody leads, nothing in flight -/
def TSys.init (st : Store) (now : Nat) : TSys :=
  { base := Sys.init st now, inst := fun _ _ => Inst.idle }

end GunYu.Lease
