/-
  C17 — `RedisOutput.SetRunId` over the LIFE of one RedisOutput: calls with DIFFERENT ids in sequence (the source
  fails over again between two calls), every attempt with any fate.

  `Model/BookSys.lean` `attemptOnce` says an attempt fails exactly when fewer write requests were applied than it
  issues. The real attempt (syncer/output.go SetRunId, the closure given to `util.RetryLinearJitter`)

      cli, err := ro.NewRedisConn(ctx)                 -- (1) the dial fails
      err = checkpoint.UpdateCheckpoint(cli, …)        -- (2) a READ request fails (SELECT, HGET, INFO keyspace,
                                                       --     EXISTS, HGETALL), (3) `DelCheckpointHash`'s Flush fails
                                                       --     after its HDEL was executed
      ro.cfg.RunId = id

  also fails with ALL its write requests applied - in particular an attempt that has nothing to write (the hash is
  already repointed) fails on (1)/(2). `AttemptF.rfail` is that fate: the writes are applied as `Attempt.k` says and
  the attempt reports an error whatever `k` is. With it a whole call can fail AFTER the hash was repointed, the
  in-memory field `cfg.RunId` staying behind the label of the position - the state in which the next call, with
  ANOTHER id, passes a stale second id to `UpdateCheckpoint`.
-/
import GunYu.Model.BookSys

namespace GunYu.BookSys
open GunYu GunYu.Checkpoint

structure AttemptF where
  a     : Attempt
  /-- the attempt reports an error although every write request counted by `a.k` was applied: dial error,
      error reply to a read request, failed Flush -/
  rfail : Bool := false

/-- one attempt: the target after it, and whether it completed (returned nil) -/
def attemptOnceF (ver loc : Bytes) (s : RunIdSt) (id : Bytes) (af : AttemptF) : Target × Bool :=
  let r := attemptOnce ver loc s id af.a
  (r.1, r.2 && !af.rfail)

def retryLoopF (ver loc id : Bytes) : RunIdSt → List AttemptF → RunIdSt × Bool
  | s, [] => (s, false)
  | s, a :: rest =>
    let r := attemptOnceF ver loc s id a
    if r.2 then ({ t := r.1, runId := id }, true)
    else retryLoopF ver loc id { s with t := r.1 } rest

/-- `SetRunId(id)` with the fates `as` of its attempts -/
def setRunIdF (ver loc : Bytes) (s : RunIdSt) (id : Bytes) (as : List AttemptF) : RunIdSt × Bool :=
  if s.runId = id then (s, true) else retryLoopF ver loc id s (as.take 3)

/-- what happens to one RedisOutput: `SetRunId(current master id)` is called, or the source fails over
    (the master id becomes `N`, the previous master id is reported as the second id) -/
inductive SrStep
  | call (as : List AttemptF)
  | failover (N : Bytes)

/-- the RedisOutput (target + in-memory field) and the master id after the steps -/
def srRun (ver loc : Bytes) : RunIdSt → Bytes → List SrStep → RunIdSt × Bytes
  | s, m, [] => (s, m)
  | s, m, .call as :: r => srRun ver loc (setRunIdF ver loc s m as).1 m r
  | s, _, .failover N :: r => srRun ver loc s N r

/-- the second id reported after the steps (the master id before the last failover) -/
def srSec : Bytes → Bytes → List SrStep → Bytes
  | _, sec, [] => sec
  | m, sec, .call _ :: r => srSec m sec r
  | m, _, .failover N :: r => srSec N m r

/-! ### the REPAIRED state machine (/repo fix of finding C17-F1): `pendingRunId`

  ```
  func (ro *RedisOutput) SetRunId(ctx, id) error {
      if ro.cfg.RunId == id { return nil }
      if ro.cfg.CheckpointName == "" { ro.cfg.RunId = id; return nil }
      return util.RetryLinearJitter(ctx, func() error {
          cli, err := ro.NewRedisConn(ctx) …                                   -- `dial`
          if pending := ro.pendingRunId; pending != "" && pending != id {      -- `finStep`
              err = checkpoint.UpdateCheckpoint(cli, name, []string{pending, ro.cfg.RunId})
              if err != nil { return err }
              ro.cfg.RunId = pending
          }
          ro.pendingRunId = id
          err = checkpoint.UpdateCheckpoint(cli, name, []string{id, ro.cfg.RunId})
          if err != nil { return err }
          ro.cfg.RunId = id
          ro.pendingRunId = ""
          return nil
      }, 3, …)
  }
  ```
  `setRunIdF` / `srRun` above are the state machine BEFORE the repair (no `pendingRunId`); for calls that all carry
  one id the two agree (the finishing step never runs). -/

structure RunIdStP where
  t     : Target
  runId : Bytes
  /-- `pendingRunId`; [] = "" -/
  pend  : Bytes := []

structure AttemptP where
  /-- `NewRedisConn` failed: nothing happens -/
  dial : Bool := false
  /-- fate of the finishing `UpdateCheckpoint` (looked at only when one runs) -/
  fin  : AttemptF
  /-- fate of the `UpdateCheckpoint` for the id of the call -/
  a    : AttemptF

/-- the finishing step of an attempt; `false` = it returned an error -/
def finStep (ver loc : Bytes) (s : RunIdStP) (id : Bytes) (f : AttemptF) : RunIdStP × Bool :=
  if s.pend ≠ [] ∧ s.pend ≠ id then
    let r := attemptOnceF ver loc ⟨s.t, s.runId⟩ s.pend f
    if r.2 then ({ s with t := r.1, runId := s.pend }, true) else ({ s with t := r.1 }, false)
  else (s, true)

def attemptP (ver loc : Bytes) (s : RunIdStP) (id : Bytes) (ap : AttemptP) : RunIdStP × Bool :=
  if ap.dial then (s, false) else
  let f := finStep ver loc s id ap.fin
  if f.2 then
    let r := attemptOnceF ver loc ⟨f.1.t, f.1.runId⟩ id ap.a
    if r.2 then ({ t := r.1, runId := id, pend := [] }, true)
    else ({ t := r.1, runId := f.1.runId, pend := id }, false)
  else (f.1, false)

def retryLoopP (ver loc id : Bytes) : RunIdStP → List AttemptP → RunIdStP × Bool
  | s, [] => (s, false)
  | s, a :: rest =>
    let r := attemptP ver loc s id a
    if r.2 then (r.1, true) else retryLoopP ver loc id r.1 rest

/-- `if ro.cfg.CheckpointName == "" { ro.cfg.RunId = id; return nil }` (second /repo fix of session 5): an output without
    bookkeeping on the target (resumeFromBreakPoint off, not bidirectional) relabels nothing -/
def setRunIdP (ver loc : Bytes) (s : RunIdStP) (id : Bytes) (as : List AttemptP) : RunIdStP × Bool :=
  if s.runId = id then (s, true)
  else if loc = [] then ({ s with runId := id }, true)
  else retryLoopP ver loc id s (as.take 3)

inductive SrStepP
  | call (as : List AttemptP)
  | failover (N : Bytes)

def srRunP (ver loc : Bytes) : RunIdStP → Bytes → List SrStepP → RunIdStP × Bytes
  | s, m, [] => (s, m)
  | s, m, .call as :: r => srRunP ver loc (setRunIdP ver loc s m as).1 m r
  | s, _, .failover N :: r => srRunP ver loc s N r

def srSecP : Bytes → Bytes → List SrStepP → Bytes
  | _, sec, [] => sec
  | m, sec, .call _ :: r => srSecP m sec r
  | m, _, .failover N :: r => srSecP N m r

end GunYu.BookSys
