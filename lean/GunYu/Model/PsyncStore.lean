/-
  C06 ↔ C05: what the two cache backends of C05's model (Model/Store.lean,
  `Store.Disk`, `Store.Mem`) report through the channel's query API, as the cache
  description `Psync.Cache` that `syncMeta` works on. Nothing of C05's model is
  copied: the description is computed from its query functions' ingredients
  (`Disk.all`/`firstLeft`/`lastRight`/`rdb`, `Mem.runRev`/`rdbOffered`).
-/
import GunYu.Model.Psync
import GunYu.Model.Store

namespace GunYu.Psync
open GunYu GunYu.Store

/-- `StoreChannel` over `Storer`: `GetRdb` offers the indexed snapshot, the log
    range is `[first segment's left, last segment's right]` -/
def ofDisk (s : Disk) : Cache :=
  { backend := .disk,
    runId := str s.runId,
    rdb := match s.rdb with | some r => some ((r.left : Int), (r.size : Int)) | none => none,
    aof := match firstLeft s.all, lastRight s.all with
      | some l, some r => some ((l : Int), (r : Int))
      | _, _ => none }

/-- `MemoryChannel`: `GetRdb` offers the replayable snapshot, the log range is the
    newest contiguous run of indexed segments (`rangeLocked`) -/
def ofMem (s : Mem) : Cache :=
  { backend := .memory,
    runId := str s.runId,
    rdb := match s.rdbOffered with | some r => some ((r.left : Int), (r.size : Int)) | none => none,
    aof := match s.runRev.getLast?, s.runRev.head? with
      | some oldest, some newest => some ((oldest.left : Int), (newest.right : Int))
      | _, _ => none }

end GunYu.Psync
