/-
  C06 — model of one source (re)connection.

  Three layers, all total and computable (core Lean only):

  1. `Source` + `admitPsync`: Redis's `masterTryPartialResynchronization`
     (replication.c) — TRUSTED transcription of the external rule, not of the
     repository.  Offsets on the wire use Redis numbering (the offset asked for
     is the number of the next byte wanted, i.e. consumed + 1).
  2. `Cache` + query/maintenance API: what `syncer.Channel` exposes to
     `syncMeta` (syncer/channel.go `StoreChannel` over pkg/store/store.go +
     ds.go, and syncer/memory_channel.go).  The cache content is abstract:
     run id, optional snapshot `(left,size)`, optional contiguous log range
     `(l,r)`; the two backends differ only in the formulas transcribed below.
  3. `syncMeta` (syncer/input.go:191-328) with `sendPSync`
     (pkg/redis/psync.go:51-87), the writer/reader start of `syncData`,
     `readChannel`, and a byte-level semantics (`run`) of what the reader then
     delivers, over an abstract `World` of replication histories.

  Offsets: the tool's offset `X` = "X bytes of the stream consumed"; `hist id n`
  is the byte consumed when going from offset `n` to `n+1`.
-/
import GunYu.Basic.Bytes

namespace GunYu.Psync
open GunYu

abbrev Id := Bytes

/-- the run id "?" (no history known) -/
def qId : Id := [63]

structure SP where
  runId : Id
  offset : Int
deriving DecidableEq, Repr

/-- `StartPoint.Initialize` (syncer/input.go:33) -/
def SP.initial : SP := ⟨qId, -1⟩
/-- `StartPoint.IsInitial` (syncer/input.go:38) -/
def SP.isInitial (sp : SP) : Bool := sp.runId == qId

/-! ## 1. Source: Redis's admission rule (trusted) -/

structure Source where
  id1 : Id                -- server.replid
  id2 : Id                -- server.replid2
  switchOff : Int         -- server.second_replid_offset - 1 = bytes shared with id2's history
  backlog : Bool          -- server.repl_backlog != NULL
  backlogFirst : Int      -- server.repl_backlog->offset (number of the first byte kept)
  backlogLen : Int        -- server.repl_backlog->histlen
  masterOff : Int         -- server.master_repl_offset
  snapLen : Int           -- length of the RDB payload sent on a full resynchronisation
  capaId : Bool           -- replica announced capa psync2 ⇒ "+CONTINUE <replid>", else bare "+CONTINUE"
deriving DecidableEq, Repr

inductive Reply
  | cont (id : Id)               -- +CONTINUE <replid>   (capa psync2)
  | full (id : Id) (off : Int)   -- +FULLRESYNC <replid> <offset>
deriving DecidableEq, Repr

/-- replication.c `masterTryPartialResynchronization` + `syncCommand`:
    replid must be id1, or id2 with `psync_offset <= second_replid_offset`;
    the backlog must exist and contain `psync_offset`
    (`backlog_off <= psync_offset <= backlog_off + histlen`). Otherwise a full
    resynchronisation at `master_repl_offset` under `replid`. -/
def admitPsync (s : Source) (reqId : Id) (reqOff : Int) : Reply :=
  if reqId ≠ s.id1 ∧ (reqId ≠ s.id2 ∨ reqOff > s.switchOff + 1) then
    .full s.id1 s.masterOff
  else if s.backlog = false ∨ reqOff < s.backlogFirst ∨ reqOff > s.backlogFirst + s.backlogLen then
    .full s.id1 s.masterOff
  else
    .cont (if s.capaId then s.id1 else [])

/-! ## 2. Cache: the exported query API of the two channel backends -/

inductive Backend | disk | memory
deriving DecidableEq, Repr

structure Cache where
  backend : Backend
  runId : Id                    -- storer.runId / mc.runId ("" = none)
  rdb : Option (Int × Int)      -- (left, size) of a replayable snapshot
  aof : Option (Int × Int)      -- (l, r) of the contiguous log segments
deriving DecidableEq, Repr

def maxInt64 : Int := 9223372036854775807

/-- `dataSet.Right` (ds.go) = `latestOffsetLocked` (memory_channel.go:404) -/
def Cache.latest (c : Cache) : Int :=
  match c.aof, c.rdb with
  | some (_, r), _ => r
  | none, some (left, _) => left
  | none, none => -1

/-- `dataSet.getRange` (ds.go) / `rangeLocked` (memory_channel.go:414) -/
def Cache.range (c : Cache) : Int × Int :=
  match c.backend with
  | .disk =>
    match c.rdb, c.aof with
    | none, none => (-1, -1)
    | rdb, aof =>
      let ll0 := match rdb with | some (left, _) => left | none => maxInt64
      let rr0 := match rdb with | some (left, _) => left | none => 0
      let ll := match aof with | some (l, _) => if ll0 > l then l else ll0 | none => ll0
      let rr := match aof with | some (_, r) => if rr0 < r then r else rr0 | none => rr0
      (ll, rr)
  | .memory =>
    match c.aof, c.rdb with
    | some (l, r), _ => (l, r)
    | none, some (left, _) => (left, left)
    | none, none => (-1, -1)

/-- `dataSet.InRange` (ds.go) / `inRangeLocked` (memory_channel.go:429) -/
def Cache.inRange (c : Cache) (off : Int) : Bool :=
  match c.backend with
  | .disk =>
    let (ll, rr) := c.range
    if rr < 0 then false
    else if ll ≤ off ∧ rr ≥ off then true
    else if ll ≥ off ∧ c.rdb.isSome then true
    else false
  | .memory =>
    -- log coverage first; the snapshot serves offsets before it, and its own offset only
    -- while no log exists (once the log no longer starts there, that position is invalid)
    (match c.aof with | some (l, r) => decide (l ≤ off ∧ r ≥ off) | none => false) ||
    (match c.rdb with | some (left, _) => decide (off < left) || (decide (off = left) && c.aof.isNone) | none => false)

/-- `Channel.IsValidOffset` (channel.go:112, memory_channel.go:74) -/
def Cache.isValidOffset (c : Cache) (id : Id) (off : Int) : Bool :=
  if id = qId then !c.inRange (-1)
  else if id ≠ c.runId then false
  else c.inRange off

/-- `Channel.GetRdb` (channel.go:129, memory_channel.go:95) -/
def Cache.getRdb (c : Cache) (id : Id) : Int × Int :=
  if id ≠ c.runId then (-1, -1)
  else match c.rdb with
    | some (left, size) => (left, size)
    | none => (-1, -1)

/-- `Channel.GetOffsetRange` (channel.go:122, memory_channel.go:86) -/
def Cache.getOffsetRange (c : Cache) (id : Id) : Int × Int :=
  if id ≠ c.runId then (-1, -1) else c.range

def realId (id : Id) : Bool := id ≠ [] && id ≠ qId

/-- `Channel.StartPoint(ids)`.
    memory (memory_channel.go:54): the first real id equal to the cache's.
    disk (channel.go:87 over `Storer.VerifyRunId`): the first real id whose
    directory exists (single-directory model: the cache's own id) and whose
    newest offset is not 0; a miss leaves offset 0; `offset < 0` or no run id
    reads as "?". -/
def Cache.startPoint (c : Cache) (ids : List Id) : SP :=
  match c.backend with
  | .memory =>
    if ids.any (fun id => realId id && id == c.runId && c.runId != []) then ⟨c.runId, c.latest⟩
    else SP.initial
  | .disk =>
    let found := ids.any (fun id => realId id && id == c.runId && c.latest != 0)
    let off : Int := if found then c.latest else 0
    if off < 0 ∨ c.runId = [] then SP.initial else ⟨c.runId, off⟩

/-- `Channel.DelRunId(id)`.
    disk (store.go:137): "" and "?" are ignored, an id without directory is
    ignored, else the directory is removed and the run id cleared.
    memory (memory_channel.go:179): ignored only for a real id different from
    a non-empty current id; else all data dropped and the run id cleared. -/
def Cache.delRunId (c : Cache) (id : Id) : Cache :=
  match c.backend with
  | .disk =>
    if id = [] ∨ id = qId ∨ id ≠ c.runId then c
    else { c with runId := [], rdb := none, aof := none }
  | .memory =>
    if id ≠ [] ∧ id ≠ qId ∧ c.runId ≠ [] ∧ id ≠ c.runId then c
    else { c with runId := [], rdb := none, aof := none }

/-- `Channel.SetRunId(new)`.
    memory (memory_channel.go:172): relabels whatever is held.
    disk (store.go:122 `SetRunId`/`newRunId`/`changeReplId`): "" and "?" are
    ignored; without a current directory a fresh (empty) one is opened; with
    one, the directory is renamed (single-directory model). -/
def Cache.setRunId (c : Cache) (new : Id) : Cache :=
  match c.backend with
  | .memory => { c with runId := new }
  | .disk =>
    if new = [] ∨ new = qId then c
    else if c.runId = [] then { c with runId := new, rdb := none, aof := none }
    else { c with runId := new }

/-! ## 3. `SendPSync` and `syncMeta` -/

structure PsyncRes where
  reqId : Id          -- id sent
  wireOff : Int       -- offset sent on the wire
  reply : Reply
  runId : Id          -- returned run id
  off : Int           -- returned offset
  full : Bool
  rdbSize : Int
deriving DecidableEq, Repr

/-- pkg/redis/psync.go:51 `SendPSync` + input.go:604 `sendPsync`:
    a non-negative offset is sent +1; on CONTINUE the returned offset is the
    sent one −1 and the run id is the reply's if it carries one; on FULLRESYNC
    the reply's id and offset, then the `$len` header gives the size. -/
def wireOf (off : Int) : Int := if off ≥ 0 then off + 1 else off

def sendPSync (src : Source) (id : Id) (off : Int) : PsyncRes :=
  match admitPsync src id (wireOf off) with
  | .cont nid => ⟨id, wireOf off, .cont nid, if nid ≠ [] then nid else id, wireOf off - 1, false, 0⟩
  | .full fid o => ⟨id, wireOf off, .full fid o, fid, o, true, src.snapLen⟩

structure Meta where
  loc0 : SP               -- channel.StartPoint(inputIds)
  branch : Nat            -- which arm of the decision (1a,1b,2,3a,3b,4 ↦ 1..6)
  ps : PsyncRes
  clearLocal : Bool
  runId : Id              -- sOffset.RunId after "correct run id"
  deleted : Bool          -- DelRunId called
  locSp : SP              -- returned locSp  (writer start)
  outSp : SP              -- returned outSp  (reader start)
  rdbSize : Int
  cache : Cache           -- cache after DelRunId / SetRunId
deriving DecidableEq, Repr

structure Decision where
  branch : Nat            -- which arm (1a,1b,2,3a,3b,4 ↦ 1..6)
  ps : PsyncRes           -- result of pSync
  clearLocal : Bool
  loc : SP                -- locSp before the common tail
  outOff : Int            -- outSp.Offset before the common tail
deriving DecidableEq, Repr

/-- syncer/input.go:218-280: the decision table of `syncMeta`.
    `sp` is `output.StartPoint(inputIds)`. -/
def decision (src : Source) (sp : SP) (c : Cache) : Decision :=
  let ids := [src.id1, src.id2]
  let loc0 := c.startPoint ids
  if ids.contains sp.runId && ids.contains loc0.runId then
    if c.isValidOffset loc0.runId sp.offset then
      ⟨1, sendPSync src loc0.runId loc0.offset, false, loc0, sp.offset⟩
    else
      let ps := sendPSync src sp.runId sp.offset
      ⟨2, ps, true, if ps.full then loc0 else ⟨ps.runId, sp.offset⟩, sp.offset⟩
  else if ids.contains sp.runId then
    let ps := sendPSync src sp.runId sp.offset
    ⟨3, ps, true, if ps.full then loc0 else ⟨ps.runId, sp.offset⟩, sp.offset⟩
  else if ids.contains loc0.runId && sp.isInitial then
    if (c.getRdb loc0.runId).1 ≠ -1 ∧ (c.getRdb loc0.runId).2 ≠ -1 then
      let ps := sendPSync src loc0.runId loc0.offset
      if ps.full then ⟨4, ps, false, loc0, sp.offset⟩
      else ⟨4, { ps with rdbSize := (c.getRdb loc0.runId).2 }, false,
            ⟨loc0.runId, (c.getOffsetRange loc0.runId).2⟩, (c.getRdb loc0.runId).1 - (c.getRdb loc0.runId).2⟩
    else
      ⟨5, sendPSync src qId (-1), false, loc0, sp.offset⟩
  else
    ⟨6, sendPSync src qId (-1), false, loc0, sp.offset⟩

/-- syncer/input.go:191 `syncMeta`: decision, then "correct run id",
    `DelRunId` when full or clearLocal, `SetRunId` on channel and output, and the
    returned positions. -/
def syncMeta (src : Source) (sp : SP) (c : Cache) : Meta :=
  let dc := decision src sp c
  let rid := if dc.ps.full then dc.ps.runId else src.id1
  let del := dc.ps.full || dc.clearLocal
  let c1 := if del then c.delRunId c.runId else c
  let c2 := c1.setRunId rid
  let locOff := if dc.ps.full then dc.ps.off else dc.loc.offset
  let outOff := if dc.ps.full then dc.ps.off - dc.ps.rdbSize else dc.outOff
  { loc0 := c.startPoint [src.id1, src.id2], branch := dc.branch, ps := dc.ps, clearLocal := dc.clearLocal,
    runId := rid, deleted := del, locSp := ⟨rid, locOff⟩, outSp := ⟨rid, outOff⟩,
    rdbSize := dc.ps.rdbSize, cache := c2 }

/-! ## 4. Writer / reader start (`syncData`, `readChannel`) -/

inductive Writer
  | rdb (off size : Int)     -- NewRdbWriter(offset,size) then NewAofWritter(offset)
  | aof (off : Int)          -- NewAofWritter(offset)
  | err                      -- memory: "discontinuous aof writer offset"
deriving DecidableEq, Repr

inductive ReaderK
  | aof (off : Int)
  | rdb (left size : Int)
  | notExist
deriving DecidableEq, Repr

/-- cache right after the writer has been created (input.go:330 `syncData`):
    a full sync resets the data set to the announced snapshot
    (store.go `GetRdbWriter`, memory_channel.go `NewRdbWriter`); otherwise a log
    segment is opened at `off` (memory refuses a discontinuous one; on disk a
    discontinuous segment is not representable here and is reported the same
    way — `writer_contiguous` shows neither arises). -/
def openWriter (m : Meta) : Writer × Cache :=
  if m.ps.full then
    (.rdb m.locSp.offset m.rdbSize, { m.cache with rdb := some (m.locSp.offset, m.rdbSize), aof := none })
  else
    match m.cache.aof with
    | some (_, r) => if m.locSp.offset = r then (.aof m.locSp.offset, m.cache) else (.err, m.cache)
    | none => (.aof m.locSp.offset, { m.cache with aof := some (m.locSp.offset, m.locSp.offset) })

/-- `Channel.NewReader(outSp)` (store.go `GetReader`, memory_channel.go:104):
    in range, log first, else the snapshot when `off ≤ left`. -/
def openReader (c : Cache) (off : Int) : ReaderK :=
  if !c.inRange off then .notExist
  else match c.aof with
    | some (l, r) =>
      if l ≤ off ∧ r ≥ off then .aof off
      else match c.rdb with
        | some (left, size) => if off ≤ left then .rdb left size else .notExist
        | none => .notExist
    | none =>
      match c.rdb with
      | some (left, size) => if off ≤ left then .rdb left size else .notExist
      | none => .notExist

/-- cache after the writer has appended `n` stream bytes and was closed
    (an empty trailing segment is dropped: aof_writer.go `closeAof`,
    memory_channel.go `finishAof`). -/
def cacheAfter (m : Meta) (n : Int) : Cache :=
  let (w, c) := openWriter m
  match w with
  | .err => m.cache
  | .rdb off _ => { c with aof := if n > 0 then some (off, off + n) else none }
  | .aof off =>
    match m.cache.aof with
    | some (l, r) => { c with aof := some (l, r + n) }
    | none => { c with aof := if n > 0 then some (off, off + n) else none }

/-! ## 5. Byte-level semantics -/

structure World where
  hist : Id → Int → UInt8          -- replication histories
  snap : Id → Int → Nat → UInt8    -- bytes of the snapshot of history `id` at offset `O`

structure CData where
  aofByte : Int → UInt8            -- cached log byte at absolute offset
  rdbTok : Id × Int                -- which snapshot the cached RDB is: (history, offset)

def CData.empty : CData := ⟨fun _ => 0, ([], 0)⟩

inductive Delivery
  | stream (start : Int) (byte : Int → UInt8)         -- log bytes from `start` on
  | snapshot (tok : Id × Int) (left size : Int)       -- a whole snapshot
  | none                                              -- the run aborts

structure Result where
  mt : Meta
  writer : Writer
  reader : ReaderK
  delivery : Delivery
  data : CData        -- cache bytes after the run (log part grows with the stream)

/-- One connection: `syncMeta`, writer, reader, and what the reader delivers.
    After the reply the source streams its current history: on CONTINUE from
    the requested offset − 1, on FULLRESYNC the snapshot then from its offset. -/
def run (w : World) (src : Source) (sp : SP) (c : Cache) (d : CData) : Result :=
  let m := syncMeta src sp c
  let d1 := if m.deleted then CData.empty else d
  let (wr, c3) := openWriter m
  match wr with
  | .err => ⟨m, wr, .notExist, .none, d1⟩
  | .rdb off _ =>
    -- connection: snapshot (id1 at `off`), then hist id1 from `off`
    let d2 : CData := ⟨fun n => w.hist src.id1 n, (src.id1, off)⟩
    let rd := openReader c3 m.outSp.offset
    let del := match rd with
      | .aof o => Delivery.stream o d2.aofByte
      | .rdb left size => Delivery.snapshot d2.rdbTok left size
      | .notExist => Delivery.none
    ⟨m, wr, rd, del, d2⟩
  | .aof off =>
    -- connection: hist id1 from (wireOff − 1); the writer stores it from `off`
    let conn := m.ps.wireOff - 1
    let d2 : CData := ⟨fun n => if off ≤ n then w.hist src.id1 (conn + (n - off)) else d1.aofByte n, d1.rdbTok⟩
    let rd := openReader c3 m.outSp.offset
    let del := match rd with
      | .aof o => Delivery.stream o d2.aofByte
      | .rdb left size => Delivery.snapshot d2.rdbTok left size
      | .notExist => Delivery.none
    ⟨m, wr, rd, del, d2⟩

/-! ## 6. Well-formedness and consistency predicates used by the theorems -/

structure SourceWF (s : Source) : Prop where
  id1_ne : s.id1 ≠ []
  id1_nq : s.id1 ≠ qId
  id2_ne : s.id2 ≠ []
  id2_nq : s.id2 ≠ qId
  first_pos : 1 ≤ s.backlogFirst
  len_nonneg : 0 ≤ s.backlogLen
  tail : s.backlog = true → s.masterOff + 1 = s.backlogFirst + s.backlogLen
  master_nonneg : 0 ≤ s.masterOff
  snap_pos : 0 < s.snapLen

structure CacheWF (c : Cache) : Prop where
  aof_ok : match c.aof with
    | some (l, r) => 0 ≤ l ∧ l ≤ r ∧ r ≤ maxInt64      -- offsets are int64
    | none => True
  rdb_ok : match c.rdb with
    | some (left, size) => 0 ≤ left ∧ 0 < size ∧ left ≤ maxInt64
    | none => True
  contig : match c.rdb, c.aof with
    | some (left, _), some (l, _) => l = left          -- the log starts at the snapshot's offset
    | _, _ => True
  label : (c.runId = [] ∨ c.runId = qId) → c.rdb = none ∧ c.aof = none   -- data only under a real id

/-- what C05/C08 provide: the bytes held under `runId` are `hist runId`, and the
    snapshot held is a snapshot at `left` of a history agreeing with `runId`'s
    below `left`. -/
structure CacheOK (w : World) (c : Cache) (d : CData) : Prop where
  aof_hist : match c.aof with
    | some (l, r) => ∀ n, l ≤ n → n < r → d.aofByte n = w.hist c.runId n
    | none => True
  rdb_tok : match c.rdb with
    | some (left, _) => d.rdbTok.2 = left ∧ ∀ n, 0 ≤ n → n < left → w.hist d.rdbTok.1 n = w.hist c.runId n
    | none => True

/-- PSYNC2: the previous history agrees with the current one below the switch offset -/
def Agree (w : World) (s : Source) : Prop :=
  ∀ n, 0 ≤ n → n < s.switchOff → w.hist s.id2 n = w.hist s.id1 n

/-- a position stored under the previous id while the cache is already labelled
    with the current id lies in the shared prefix (see Props/C06.lean) -/
def StoredCompat (s : Source) (sp : SP) (c : Cache) : Prop :=
  sp.runId = s.id2 → sp.runId ≠ s.id1 → c.runId = s.id1 → sp.offset ≤ s.switchOff

/-! ## 7. The target's bookkeeping across connections

  `output.StartPoint` / `SetRunId` / `ResetStartPoint` and the position `Send`
  stores (syncer/output.go, pkg/redis/checkpoint), next to what the target's
  data really is. `resume` = EnableResumeFromBreakPoint (position kept on the
  target and re-keyed by `UpdateCheckpoint`) vs. the in-memory position, whose
  label `SetRunId` does not touch. -/

/-- what the target's data really is -/
inductive Truth
  | none                          -- nothing replayed yet
  | dirty                         -- a snapshot replay did not complete
  | at (id : Id) (upto : Int)     -- history `id` applied up to `upto`

structure Tgt where
  stored : SP          -- what `output.StartPoint` returns
  truth : Truth

/-- `syncMeta`'s calls on the output: on FULLRESYNC `ResetStartPoint` (the
    position is deleted; `SetRunId → UpdateCheckpoint` then leaves `(id,−1)` on
    the target, "?" in memory), otherwise `SetRunId` alone (re-keys the stored
    position to the new id on the target, leaves the in-memory label). -/
def Tgt.afterMeta (resume : Bool) (t : Tgt) (m : Meta) : Tgt :=
  if m.ps.full then
    { t with stored := if resume then ⟨m.runId, -1⟩ else SP.initial }
  else
    { t with stored := if resume then ⟨m.runId, t.stored.offset⟩ else t.stored }

/-- `sendOutput` + `Send`: a snapshot reader first drops the stored position
    (`ResetStartPoint`), a completed replay stores `(run id, left)`; a log reader
    stores the offset of the last command applied (`e`; nothing when `e ≤ start`),
    under the reader's run id on the target, under the old label in memory. -/
def Tgt.afterSend (resume : Bool) (s : Source) (t : Tgt) (r : Result) (done : Bool) (e : Int) : Tgt :=
  match r.delivery with
  | .stream start _ =>
    if e > start then ⟨⟨if resume then r.mt.runId else t.stored.runId, e⟩, .at s.id1 e⟩ else t
  | .snapshot _ left _ =>
    if done then ⟨⟨r.mt.runId, left⟩, .at s.id1 left⟩ else ⟨SP.initial, .dirty⟩
  | .none => t

/-- one connection seen from the target -/
def step (resume : Bool) (w : World) (s : Source) (t : Tgt) (c : Cache) (d : CData) (done : Bool) (e : Int) : Tgt :=
  (t.afterMeta resume (run w s t.stored c d).mt).afterSend resume s (run w s t.stored c d) done e

def AgreeBelow (w : World) (a b : Id) (x : Int) : Prop :=
  ∀ n, 0 ≤ n → n < x → w.hist a n = w.hist b n

/-- the cache holds nothing under the current id yet: it is labelled otherwise, or
    it is empty (e.g. `syncMeta` cleared and relabelled it and then failed) -/
def NotYetCurrent (s : Source) (c : Cache) : Prop :=
  c.runId ≠ s.id1 ∨ (c.rdb = none ∧ c.aof = none)

/-- the stored position tells the truth: if it could lead to a continuation (its
    id is one the source serves, its offset is not negative) then the target
    really holds some history up to exactly that offset, and that history agrees
    below it with the current one — or the position is still labelled with the
    previous id, agrees with *that* history, and the cache is not yet labelled
    with the current id, or empty (the source will check the offset against its
    switch offset when asked for it). -/
def Truthful (w : World) (s : Source) (t : Tgt) (c : Cache) : Prop :=
  (t.stored.runId = s.id1 ∨ t.stored.runId = s.id2) → 0 ≤ t.stored.offset →
    ∃ tid, t.truth = .at tid t.stored.offset ∧
      (AgreeBelow w tid s.id1 t.stored.offset ∨
        (t.stored.runId = s.id2 ∧ t.stored.runId ≠ s.id1 ∧
          AgreeBelow w tid s.id2 t.stored.offset ∧ NotYetCurrent s c))

/-! ## 8. Sequences of connections -/

/-- source, target bookkeeping + truth, cache description and cache bytes -/
structure Sys where
  s : Source
  t : Tgt
  c : Cache
  d : CData

/-- Everything reachable from an empty target and an empty cache by
    * `conn`    one connection, in either mode, however it ends (`done`, `e`), the
                cache storing any number `k` of further bytes;
    * `same`    the source changing anything but its ids (offsets, backlog window);
    * `change`  the source turning into another one (failover exposing the current
                id as previous one, or an unrelated history) whose current id is new;
    * `cache`   the cache being lost, trimmed, collected or replaced by another
                instance's: any well-formed consistent cache, except that a cache
                which held nothing under the current id yet may not be replaced
                by one that does (nobody but `syncMeta` produces data under it);
                in particular `syncMeta` failing after `DelRunId`/`SetRunId` (cache
                empty, already labelled with the current id) and before the
                output was told anything;
    * `forget`  the stored position being lost or replaced by one that cannot be
                continued (foreign id or negative offset): a restart in in-memory
                mode (`("",0)`), a deleted checkpoint, `ResetStartPoint`.
    A restart in resume mode keeps the stored position and its label
    (syncer.updateCheckpoint), i.e. is no transition at all. -/
inductive Reach (w : World) : Sys → Prop
  | init (s : Source) (be : Backend) : SourceWF s → Agree w s →
      Reach w ⟨s, ⟨SP.initial, .none⟩, ⟨be, [], none, none⟩, CData.empty⟩
  | conn (σ : Sys) (resume done : Bool) (e k : Int) : Reach w σ → 0 ≤ k → σ.s.masterOff + k ≤ maxInt64 →
      Reach w ⟨σ.s, step resume w σ.s σ.t σ.c σ.d done e,
               cacheAfter (run w σ.s σ.t.stored σ.c σ.d).mt k, (run w σ.s σ.t.stored σ.c σ.d).data⟩
  | same (σ : Sys) (s' : Source) : Reach w σ → SourceWF s' → Agree w s' →
      s'.id1 = σ.s.id1 → s'.id2 = σ.s.id2 → Reach w ⟨s', σ.t, σ.c, σ.d⟩
  | change (σ : Sys) (s' : Source) : Reach w σ → SourceWF s' → Agree w s' →
      s'.id1 ≠ σ.t.stored.runId → s'.id1 ≠ σ.c.runId →
      (s'.id2 = σ.t.stored.runId → σ.t.stored.runId = σ.s.id1) → Reach w ⟨s', σ.t, σ.c, σ.d⟩
  | cache (σ : Sys) (c' : Cache) (d' : CData) : Reach w σ → CacheWF c' → CacheOK w c' d' →
      (NotYetCurrent σ.s σ.c → NotYetCurrent σ.s c') → Reach w ⟨σ.s, σ.t, c', d'⟩
  | forget (σ : Sys) (sp' : SP) : Reach w σ →
      ((sp'.runId ≠ σ.s.id1 ∧ sp'.runId ≠ σ.s.id2) ∨ sp'.offset < 0) →
      Reach w ⟨σ.s, ⟨sp', σ.t.truth⟩, σ.c, σ.d⟩

end GunYu.Psync
