/-
  C06 — model of one source (re)connection.

  Three layers, all total and computable (core Lean only):

  1. `Source` + `admitPsync`: Redis's `masterTryPartialResynchronization`
     (replication.c) — TRUSTED transcription of the external rule, not of the
     repository.  Offsets on the wire use Redis numbering (the offset asked for
     is the number of the next byte wanted, i.e. consumed + 1).
  2. `Cache` + query/maintenance API: what `syncer.Channel` exposes to
     `syncMeta` (syncer/channel.go `StoreChannel` over pkg/store/store.go +
     ds.go, and syncer/memory_channel.go).  The cache content is abstract:
     run id, optional snapshot `(left,size)`, optional contiguous log range
     `(l,r)`; the two backends differ only in the formulas transcribed below.
  3. `syncMeta` (syncer/input.go:191-328) with `sendPSync`
     (pkg/redis/psync.go:51-87), the writer/reader start of `syncData`,
     `readChannel`, and a byte-level semantics (`run`) of what the reader then
     delivers, over an abstract `World` of replication histories.

  Offsets: the tool's offset `X` = "X bytes of the stream consumed"; `hist id n`
  is the byte consumed when going from offset `n` to `n+1`.
-/
import GunYu.Basic.Bytes

namespace GunYu.Psync
open GunYu

abbrev Id := Bytes

/-- the run id "?" (no history known) -/
def qId : Id := [63]

structure SP where
  runId : Id
  offset : Int
deriving DecidableEq, Repr

/-- `StartPoint.Initialize` (syncer/input.go:33) -/
def SP.initial : SP := ⟨qId, -1⟩
/-- `StartPoint.IsInitial` (syncer/input.go:38) -/
def SP.isInitial (sp : SP) : Bool := sp.runId == qId

/-! ## 1. Source: Redis's admission rule (trusted) -/

structure Source where
  id1 : Id                -- server.replid
  id2 : Id                -- server.replid2
  switchOff : Int         -- server.second_replid_offset - 1 = bytes shared with id2's history
  backlog : Bool          -- server.repl_backlog != NULL
  backlogFirst : Int      -- server.repl_backlog->offset (number of the first byte kept)
  backlogLen : Int        -- server.repl_backlog->histlen
  masterOff : Int         -- server.master_repl_offset
  snapLen : Int           -- length of the RDB payload sent on a full resynchronisation
  capaId : Bool           -- replica announced capa psync2 ⇒ "+CONTINUE <replid>", else bare "+CONTINUE"
deriving DecidableEq, Repr

inductive Reply
  | cont (id : Id)               -- +CONTINUE <replid>   (capa psync2)
  | full (id : Id) (off : Int)   -- +FULLRESYNC <replid> <offset>
deriving DecidableEq, Repr

/-- replication.c `masterTryPartialResynchronization` + `syncCommand`:
    replid must be id1, or id2 with `psync_offset <= second_replid_offset`;
    the backlog must exist and contain `psync_offset`
    (`backlog_off <= psync_offset <= backlog_off + histlen`). Otherwise a full
    resynchronisation at `master_repl_offset` under `replid`. -/
def admitPsync (s : Source) (reqId : Id) (reqOff : Int) : Reply :=
  if reqId ≠ s.id1 ∧ (reqId ≠ s.id2 ∨ reqOff > s.switchOff + 1) then
    .full s.id1 s.masterOff
  else if s.backlog = false ∨ reqOff < s.backlogFirst ∨ reqOff > s.backlogFirst + s.backlogLen then
    .full s.id1 s.masterOff
  else
    .cont (if s.capaId then s.id1 else [])

/-! ## 2. Cache: the exported query API of the two channel backends -/

inductive Backend | disk | memory
deriving DecidableEq, Repr

structure Cache where
  backend : Backend
  runId : Id                    -- storer.runId / mc.runId ("" = none)
  rdb : Option (Int × Int)      -- (left, size) of a replayable snapshot
  aof : Option (Int × Int)      -- (l, r) of the contiguous log segments
deriving DecidableEq, Repr

def maxInt64 : Int := 9223372036854775807

/-- `dataSet.Right` (ds.go) = `latestOffsetLocked` (memory_channel.go:404) -/
def Cache.latest (c : Cache) : Int :=
  match c.aof, c.rdb with
  | some (_, r), _ => r
  | none, some (left, _) => left
  | none, none => -1

/-- `dataSet.getRange` (ds.go) / `rangeLocked` (memory_channel.go:414) -/
def Cache.range (c : Cache) : Int × Int :=
  match c.backend with
  | .disk =>
    match c.rdb, c.aof with
    | none, none => (-1, -1)
    | rdb, aof =>
      let ll0 := match rdb with | some (left, _) => left | none => maxInt64
      let rr0 := match rdb with | some (left, _) => left | none => 0
      let ll := match aof with | some (l, _) => if ll0 > l then l else ll0 | none => ll0
      let rr := match aof with | some (_, r) => if rr0 < r then r else rr0 | none => rr0
      (ll, rr)
  | .memory =>
    match c.aof, c.rdb with
    | some (l, r), _ => (l, r)
    | none, some (left, _) => (left, left)
    | none, none => (-1, -1)

/-- `dataSet.InRange` (ds.go) / `inRangeLocked` (memory_channel.go:429) -/
def Cache.inRange (c : Cache) (off : Int) : Bool :=
  match c.backend with
  | .disk =>
    let (ll, rr) := c.range
    if rr < 0 then false
    else if ll ≤ off ∧ rr ≥ off then true
    else if ll ≥ off ∧ c.rdb.isSome then true
    else false
  | .memory =>
    -- log coverage first; the snapshot serves offsets before it, and its own offset only
    -- while no log exists (once the log no longer starts there, that position is invalid)
    (match c.aof with | some (l, r) => decide (l ≤ off ∧ r ≥ off) | none => false) ||
    (match c.rdb with | some (left, _) => decide (off < left) || (decide (off = left) && c.aof.isNone) | none => false)

/-- `Channel.IsValidOffset` (channel.go:112, memory_channel.go:74) -/
def Cache.isValidOffset (c : Cache) (id : Id) (off : Int) : Bool :=
  if id = qId then !c.inRange (-1)
  else if id ≠ c.runId then false
  else c.inRange off

/-- `Channel.GetRdb` (channel.go:129, memory_channel.go:95) -/
def Cache.getRdb (c : Cache) (id : Id) : Int × Int :=
  if id ≠ c.runId then (-1, -1)
  else match c.rdb with
    | some (left, size) => (left, size)
    | none => (-1, -1)

/-- `Channel.GetOffsetRange` (channel.go:122, memory_channel.go:86) -/
def Cache.getOffsetRange (c : Cache) (id : Id) : Int × Int :=
  if id ≠ c.runId then (-1, -1) else c.range

def realId (id : Id) : Bool := id ≠ [] && id ≠ qId

/-- `Channel.StartPoint(ids)`.
    memory (memory_channel.go:54): the first real id equal to the cache's.
    disk (channel.go:87 over `Storer.VerifyRunId`): the first real id whose
    directory exists (single-directory model: the cache's own id) and whose
    newest offset is not 0; a miss leaves offset 0; `offset < 0` or no run id
    reads as "?". -/
def Cache.startPoint (c : Cache) (ids : List Id) : SP :=
  match c.backend with
  | .memory =>
    if ids.any (fun id => realId id && id == c.runId && c.runId != []) then ⟨c.runId, c.latest⟩
    else SP.initial
  | .disk =>
    let found := ids.any (fun id => realId id && id == c.runId && c.latest != 0)
    let off : Int := if found then c.latest else 0
    if off < 0 ∨ c.runId = [] then SP.initial else ⟨c.runId, off⟩

/-- `Channel.DelRunId(id)`.
    disk (store.go:137): "" and "?" are ignored, an id without directory is
    ignored, else the directory is removed and the run id cleared.
    memory (memory_channel.go:179): ignored only for a real id different from
    a non-empty current id; else all data dropped and the run id cleared. -/
def Cache.delRunId (c : Cache) (id : Id) : Cache :=
  match c.backend with
  | .disk =>
    if id = [] ∨ id = qId ∨ id ≠ c.runId then c
    else { c with runId := [], rdb := none, aof := none }
  | .memory =>
    if id ≠ [] ∧ id ≠ qId ∧ c.runId ≠ [] ∧ id ≠ c.runId then c
    else { c with runId := [], rdb := none, aof := none }

/-- `Channel.SetRunId(new)`.
    memory (memory_channel.go:172): relabels whatever is held.
    disk (store.go:122 `SetRunId`/`newRunId`/`changeReplId`): "" and "?" are
    ignored; without a current directory a fresh (empty) one is opened; with
    one, the directory is renamed (single-directory model). -/
def Cache.setRunId (c : Cache) (new : Id) : Cache :=
  match c.backend with
  | .memory => { c with runId := new }
  | .disk =>
    if new = [] ∨ new = qId then c
    else if c.runId = [] then { c with runId := new, rdb := none, aof := none }
    else { c with runId := new }

/-! ## 3. `SendPSync` and `syncMeta` -/

structure PsyncRes where
  reqId : Id          -- id sent
  wireOff : Int       -- offset sent on the wire
  reply : Reply
  runId : Id          -- returned run id
  off : Int           -- returned offset
  full : Bool
  rdbSize : Int
deriving DecidableEq, Repr

/-- pkg/redis/psync.go:51 `SendPSync` + input.go:604 `sendPsync`:
    a non-negative offset is sent +1; on CONTINUE the returned offset is the
    sent one −1 and the run id is the reply's if it carries one; on FULLRESYNC
    the reply's id and offset, then the `$len` header gives the size. -/
def wireOf (off : Int) : Int := if off ≥ 0 then off + 1 else off

def sendPSync (src : Source) (id : Id) (off : Int) : PsyncRes :=
  match admitPsync src id (wireOf off) with
  | .cont nid => ⟨id, wireOf off, .cont nid, if nid ≠ [] then nid else id, wireOf off - 1, false, 0⟩
  | .full fid o => ⟨id, wireOf off, .full fid o, fid, o, true, src.snapLen⟩

structure Meta where
  loc0 : SP               -- channel.StartPoint(inputIds)
  branch : Nat            -- which arm of the decision (1a,1b,2,3a,3b,4 ↦ 1..6)
  ps : PsyncRes
  clearLocal : Bool
  runId : Id              -- sOffset.RunId after "correct run id"
  deleted : Bool          -- DelRunId called
  locSp : SP              -- returned locSp  (writer start)
  outSp : SP              -- returned outSp  (reader start)
  rdbSize : Int
  cache : Cache           -- cache after DelRunId / SetRunId
deriving DecidableEq, Repr

structure Decision where
  branch : Nat            -- which arm (1a,1b,2,3a,3b,4 ↦ 1..6)
  ps : PsyncRes           -- result of pSync
  clearLocal : Bool
  loc : SP                -- locSp before the common tail
  outOff : Int            -- outSp.Offset before the common tail
deriving DecidableEq, Repr

/-- syncer/input.go:218-280: the decision table of `syncMeta`.
    `sp` is `output.StartPoint(inputIds)`. -/
def decision (src : Source) (sp : SP) (c : Cache) : Decision :=
  let ids := [src.id1, src.id2]
  let loc0 := c.startPoint ids
  if ids.contains sp.runId && ids.contains loc0.runId then
    if c.isValidOffset loc0.runId sp.offset then
      ⟨1, sendPSync src loc0.runId loc0.offset, false, loc0, sp.offset⟩
    else
      let ps := sendPSync src sp.runId sp.offset
      ⟨2, ps, true, if ps.full then loc0 else ⟨ps.runId, sp.offset⟩, sp.offset⟩
  else if ids.contains sp.runId then
    let ps := sendPSync src sp.runId sp.offset
    ⟨3, ps, true, if ps.full then loc0 else ⟨ps.runId, sp.offset⟩, sp.offset⟩
  else if ids.contains loc0.runId && sp.isInitial then
    if (c.getRdb loc0.runId).1 ≠ -1 ∧ (c.getRdb loc0.runId).2 ≠ -1 then
      let ps := sendPSync src loc0.runId loc0.offset
      if ps.full then ⟨4, ps, false, loc0, sp.offset⟩
      else ⟨4, { ps with rdbSize := (c.getRdb loc0.runId).2 }, false,
            ⟨loc0.runId, (c.getOffsetRange loc0.runId).2⟩, (c.getRdb loc0.runId).1 - (c.getRdb loc0.runId).2⟩
    else
      ⟨5, sendPSync src qId (-1), false, loc0, sp.offset⟩
  else
    ⟨6, sendPSync src qId (-1), false, loc0, sp.offset⟩

/-- syncer/input.go:191 `syncMeta`: decision, then "correct run id",
    `DelRunId` when full or clearLocal, `SetRunId` on channel and output, and the
    returned positions. -/
def syncMeta (src : Source) (sp : SP) (c : Cache) : Meta :=
  let dc := decision src sp c
  let rid := if dc.ps.full then dc.ps.runId else src.id1
  let del := dc.ps.full || dc.clearLocal
  let c1 := if del then c.delRunId c.runId else c
  let c2 := c1.setRunId rid
  let locOff := if dc.ps.full then dc.ps.off else dc.loc.offset
  let outOff := if dc.ps.full then dc.ps.off - dc.ps.rdbSize else dc.outOff
  { loc0 := c.startPoint [src.id1, src.id2], branch := dc.branch, ps := dc.ps, clearLocal := dc.clearLocal,
    runId := rid, deleted := del, locSp := ⟨rid, locOff⟩, outSp := ⟨rid, outOff⟩,
    rdbSize := dc.ps.rdbSize, cache := c2 }

/-! ## 4. Writer / reader start (`syncData`, `readChannel`) -/

inductive Writer
  | rdb (off size : Int)     -- NewRdbWriter(offset,size) then NewAofWritter(offset)
  | aof (off : Int)          -- NewAofWritter(offset)
  | err                      -- memory: "discontinuous aof writer offset"
deriving DecidableEq, Repr

inductive ReaderK
  | aof (off : Int)
  | rdb (left size : Int)
  | notExist
deriving DecidableEq, Repr

/-- cache right after the writer has been created (input.go:330 `syncData`):
    a full sync resets the data set to the announced snapshot
    (store.go `GetRdbWriter`, memory_channel.go `NewRdbWriter`); otherwise a log
    segment is opened at `off` (memory refuses a discontinuous one; on disk a
    discontinuous segment is not representable here and is reported the same
    way — `writer_contiguous` shows neither arises). -/
def openWriter (m : Meta) : Writer × Cache :=
  if m.ps.full then
    (.rdb m.locSp.offset m.rdbSize, { m.cache with rdb := some (m.locSp.offset, m.rdbSize), aof := none })
  else
    match m.cache.aof with
    | some (_, r) => if m.locSp.offset = r then (.aof m.locSp.offset, m.cache) else (.err, m.cache)
    | none => (.aof m.locSp.offset, { m.cache with aof := some (m.locSp.offset, m.locSp.offset) })

/-- `Channel.NewReader(outSp)` (store.go `GetReader`, memory_channel.go:104):
    in range, log first, else the snapshot when `off ≤ left`. -/
def openReader (c : Cache) (off : Int) : ReaderK :=
  if !c.inRange off then .notExist
  else match c.aof with
    | some (l, r) =>
      if l ≤ off ∧ r ≥ off then .aof off
      else match c.rdb with
        | some (left, size) => if off ≤ left then .rdb left size else .notExist
        | none => .notExist
    | none =>
      match c.rdb with
      | some (left, size) => if off ≤ left then .rdb left size else .notExist
      | none => .notExist

/-- cache after the writer has appended `n` stream bytes and was closed
    (an empty trailing segment is dropped: aof_writer.go `closeAof`,
    memory_channel.go `finishAof`). -/
def cacheAfter (m : Meta) (n : Int) : Cache :=
  let (w, c) := openWriter m
  match w with
  | .err => m.cache
  | .rdb off _ => { c with aof := if n > 0 then some (off, off + n) else none }
  | .aof off =>
    match m.cache.aof with
    | some (l, r) => { c with aof := some (l, r + n) }
    | none => { c with aof := if n > 0 then some (off, off + n) else none }

/-! ## 5. Byte-level semantics -/

structure World where
  hist : Id → Int → UInt8          -- replication histories
  snap : Id → Int → Nat → UInt8    -- bytes of the snapshot of history `id` at offset `O`

structure CData where
  aofByte : Int → UInt8            -- cached log byte at absolute offset
  rdbTok : Id × Int                -- which snapshot the cached RDB is: (history, offset)

def CData.empty : CData := ⟨fun _ => 0, ([], 0)⟩

inductive Delivery
  | stream (start : Int) (byte : Int → UInt8)         -- log bytes from `start` on
  | snapshot (tok : Id × Int) (left size : Int)       -- a whole snapshot
  | none                                              -- the run aborts

structure Result where
  mt : Meta
  writer : Writer
  reader : ReaderK
  delivery : Delivery
  data : CData        -- cache bytes after the run (log part grows with the stream)

/-- One connection: `syncMeta`, writer, reader, and what the reader delivers.
    After the reply the source streams its current history: on CONTINUE from
    the requested offset − 1, on FULLRESYNC the snapshot then from its offset. -/
def run (w : World) (src : Source) (sp : SP) (c : Cache) (d : CData) : Result :=
  let m := syncMeta src sp c
  let d1 := if m.deleted then CData.empty else d
  let (wr, c3) := openWriter m
  match wr with
  | .err => ⟨m, wr, .notExist, .none, d1⟩
  | .rdb off _ =>
    -- connection: snapshot (id1 at `off`), then hist id1 from `off`
    let d2 : CData := ⟨fun n => w.hist src.id1 n, (src.id1, off)⟩
    let rd := openReader c3 m.outSp.offset
    let del := match rd with
      | .aof o => Delivery.stream o d2.aofByte
      | .rdb left size => Delivery.snapshot d2.rdbTok left size
      | .notExist => Delivery.none
    ⟨m, wr, rd, del, d2⟩
  | .aof off =>
    -- connection: hist id1 from (wireOff − 1); the writer stores it from `off`
    let conn := m.ps.wireOff - 1
    let d2 : CData := ⟨fun n => if off ≤ n then w.hist src.id1 (conn + (n - off)) else d1.aofByte n, d1.rdbTok⟩
    let rd := openReader c3 m.outSp.offset
    let del := match rd with
      | .aof o => Delivery.stream o d2.aofByte
      | .rdb left size => Delivery.snapshot d2.rdbTok left size
      | .notExist => Delivery.none
    ⟨m, wr, rd, del, d2⟩

/-! ## 6. Well-formedness and consistency predicates used by the theorems -/

structure SourceWF (s : Source) : Prop where
  id1_ne : s.id1 ≠ []
  id1_nq : s.id1 ≠ qId
  id2_ne : s.id2 ≠ []
  id2_nq : s.id2 ≠ qId
  first_pos : 1 ≤ s.backlogFirst
  len_nonneg : 0 ≤ s.backlogLen
  tail : s.backlog = true → s.masterOff + 1 = s.backlogFirst + s.backlogLen
  master_nonneg : 0 ≤ s.masterOff
  snap_pos : 0 < s.snapLen

structure CacheWF (c : Cache) : Prop where
  aof_ok : match c.aof with
    | some (l, r) => 0 ≤ l ∧ l ≤ r ∧ r ≤ maxInt64      -- offsets are int64
    | none => True
  rdb_ok : match c.rdb with
    | some (left, size) => 0 ≤ left ∧ 0 < size ∧ left ≤ maxInt64
    | none => True
  contig : match c.rdb, c.aof with
    -- disk: the log starts at the snapshot's offset (the collector removes the snapshot
    -- before any log segment; a gap image after a crash is truncated at load: C08).
    -- memory: the collector drops the oldest log segments and keeps the snapshot, so the
    -- log may start later; the snapshot's own offset is then no longer valid (a3509d3)
    | some (left, _), some (l, _) => if c.backend = .disk then l = left else left ≤ l
    | _, _ => True
  label : (c.runId = [] ∨ c.runId = qId) → c.rdb = none ∧ c.aof = none   -- data only under a real id

/-- the cached bytes are history `h`'s: the log bytes on the range held, and the
    snapshot held is a snapshot at `left` of a history agreeing with `h` below `left` -/
structure Holds (w : World) (h : Id) (c : Cache) (d : CData) : Prop where
  aof_hist : match c.aof with
    | some (l, r) => ∀ n, l ≤ n → n < r → d.aofByte n = w.hist h n
    | none => True
  rdb_tok : match c.rdb with
    | some (left, _) => d.rdbTok.2 = left ∧ ∀ n, 0 ≤ n → n < left → w.hist d.rdbTok.1 n = w.hist h n
    | none => True

/-- what the cache must satisfy for the source it is used against: under the
    current id it holds the current history; under the previous id it holds the
    previous history — or already the current one (a continuation granted by a
    source that had failed over between INFO and PSYNC leaves the label the INFO
    reported). A cache under any other label is never read (`syncMeta` clears it).
    (C05/C08: the bytes held are the bytes written; that the bytes written under a
    label are that history's is `cache_consistent_after` / `reach_inv` here.) -/
structure CacheOK (w : World) (s : Source) (c : Cache) (d : CData) : Prop where
  cur : c.runId = s.id1 → Holds w s.id1 c d
  prev : c.runId = s.id2 → Holds w s.id2 c d ∨ Holds w s.id1 c d

/-- PSYNC2: the previous history agrees with the current one below the switch offset -/
def Agree (w : World) (s : Source) : Prop :=
  ∀ n, 0 ≤ n → n < s.switchOff → w.hist s.id2 n = w.hist s.id1 n

/-- a position stored under the previous id while the cache is already labelled
    with the current id lies in the shared prefix (see Props/C06.lean) -/
def StoredCompat (s : Source) (sp : SP) (c : Cache) : Prop :=
  sp.runId = s.id2 → sp.runId ≠ s.id1 → c.runId = s.id1 → sp.offset ≤ s.switchOff

/-! ## 7. The target's bookkeeping across connections

  `output.StartPoint` / `SetRunId` / `ResetStartPoint` and the position `Send`
  stores (syncer/output.go, pkg/redis/checkpoint), next to what the target's
  data really is. `resume` = EnableResumeFromBreakPoint (position kept on the
  target and re-keyed by `UpdateCheckpoint`) vs. the in-memory position, whose
  label `SetRunId` does not touch. -/

/-- what the target's data really is -/
inductive Truth
  | none                          -- nothing replayed yet
  | dirty                         -- a snapshot replay did not complete
  | at (id : Id) (upto : Int)     -- history `id` applied up to `upto`

structure Tgt where
  stored : SP          -- what `output.StartPoint` returns
  truth : Truth

/-- `syncMeta`'s calls on the output: on FULLRESYNC `ResetStartPoint` (the
    position is deleted; `SetRunId → UpdateCheckpoint` then leaves `(id,−1)` on
    the target, "?" in memory), otherwise `SetRunId` alone (re-keys the stored
    position to the new id on the target, leaves the in-memory label). -/
def Tgt.afterMeta (resume : Bool) (t : Tgt) (m : Meta) : Tgt :=
  if m.ps.full then
    { t with stored := if resume then ⟨m.runId, -1⟩ else SP.initial }
  else
    { t with stored := if resume then ⟨m.runId, t.stored.offset⟩ else t.stored }

/-- `sendOutput` + `Send`: a snapshot reader first drops the stored position
    (`ResetStartPoint`), a completed replay stores `(run id, left)`; a log reader
    stores the offset of the last command applied (`e`; nothing when `e ≤ start`),
    under the reader's run id on the target, under the old label in memory. -/
def Tgt.afterSend (resume : Bool) (s : Source) (t : Tgt) (r : Result) (done : Bool) (e : Int) : Tgt :=
  match r.delivery with
  | .stream start _ =>
    if e > start then ⟨⟨if resume then r.mt.runId else t.stored.runId, e⟩, .at s.id1 e⟩ else t
  | .snapshot _ left _ =>
    if done then ⟨⟨r.mt.runId, left⟩, .at s.id1 left⟩ else ⟨SP.initial, .dirty⟩
  | .none => t

/-- one connection seen from the target -/
def step (resume : Bool) (w : World) (s : Source) (t : Tgt) (c : Cache) (d : CData) (done : Bool) (e : Int) : Tgt :=
  (t.afterMeta resume (run w s t.stored c d).mt).afterSend resume s (run w s t.stored c d) done e

def AgreeBelow (w : World) (a b : Id) (x : Int) : Prop :=
  ∀ n, 0 ≤ n → n < x → w.hist a n = w.hist b n

/-- the cache holds nothing under the current id yet: it is labelled otherwise, or
    it is empty (e.g. `syncMeta` cleared and relabelled it and then failed) -/
def NotYetCurrent (s : Source) (c : Cache) : Prop :=
  c.runId ≠ s.id1 ∨ (c.rdb = none ∧ c.aof = none)

/-- the stored position tells the truth: if it could lead to a continuation (its
    id is one the source serves, its offset is not negative) then the target
    really holds some history up to exactly that offset, and that history agrees
    below it with the current one — or the position is still labelled with the
    previous id, agrees with *that* history, and the cache is not yet labelled
    with the current id, or empty (the source will check the offset against its
    switch offset when asked for it). -/
def Truthful (w : World) (s : Source) (t : Tgt) (c : Cache) : Prop :=
  (t.stored.runId = s.id1 ∨ t.stored.runId = s.id2) → 0 ≤ t.stored.offset →
    ∃ tid, t.truth = .at tid t.stored.offset ∧
      (AgreeBelow w tid s.id1 t.stored.offset ∨
        (t.stored.runId = s.id2 ∧ t.stored.runId ≠ s.id1 ∧
          AgreeBelow w tid s.id2 t.stored.offset ∧ NotYetCurrent s c))

/-! ## 7b. The collector, seen from the cache description

  What one pass of the size-triggered collector (pkg/store ds.go `gcLogs`,
  syncer/memory_channel.go `gcLocked`) may do to what the cache reports: it never
  changes the label, removes the snapshot or not, and removes a prefix of the log
  (oldest segments: closed, unreferenced, never the writer's current one) — the
  newest offset stays. On disk the snapshot goes before any log segment; in memory
  the log segments go first and the snapshot stays offered (its own offset is then
  no longer valid). `GunYu.Proofs.PsyncStore` shows that C05's concrete collectors
  (`Store.Disk.gc`, `Store.Mem.gc`) are instances. -/

structure Collected (c c' : Cache) : Prop where
  backend : c'.backend = c.backend
  runId : c'.runId = c.runId
  rdb : c'.rdb = c.rdb ∨ c'.rdb = none
  aof : match c.aof with
    | none => c'.aof = none
    | some (l, r) => c'.aof = none ∨ ∃ l', c'.aof = some (l', r) ∧ l ≤ l' ∧ l' ≤ r
  diskOrder : c.backend = .disk → c'.aof ≠ c.aof → c'.rdb = none

/-! ## 8. Sequences of connections -/

/-- source, target bookkeeping + truth, cache description and cache bytes -/
structure Sys where
  s : Source
  t : Tgt
  c : Cache
  d : CData

/-- Everything reachable from an empty target and an empty cache by
    * `conn`    one connection, in either mode, however it ends (`done`, `e`), the
                cache storing any number `k` of further bytes;
    * `same`    the source changing anything but its ids (offsets, backlog window);
    * `change`  the source turning into another one (failover exposing the current
                id as previous one, or an unrelated history) whose current id is new;
    * `cache`   the cache being lost, trimmed, collected or replaced by another
                instance's: any well-formed consistent cache, except that a cache
                which held nothing under the current id yet may not be replaced
                by one that does (nobody but `syncMeta` produces data under it);
                in particular `syncMeta` failing after `DelRunId`/`SetRunId` (cache
                empty, already labelled with the current id) and before the
                output was told anything;
    * `forget`  the stored position being lost or replaced by one that cannot be
                continued (foreign id or negative offset): a restart in in-memory
                mode (`("",0)`), a deleted checkpoint, `ResetStartPoint`.
    A restart in resume mode keeps the stored position and its label
    (syncer.updateCheckpoint), i.e. is no transition at all. -/
inductive Reach (w : World) : Sys → Prop
  | init (s : Source) (be : Backend) : SourceWF s → Agree w s →
      Reach w ⟨s, ⟨SP.initial, .none⟩, ⟨be, [], none, none⟩, CData.empty⟩
  | conn (σ : Sys) (resume done : Bool) (e k : Int) : Reach w σ → 0 ≤ k → σ.s.masterOff + k ≤ maxInt64 →
      Reach w ⟨σ.s, step resume w σ.s σ.t σ.c σ.d done e,
               cacheAfter (run w σ.s σ.t.stored σ.c σ.d).mt k, (run w σ.s σ.t.stored σ.c σ.d).data⟩
  | same (σ : Sys) (s' : Source) : Reach w σ → SourceWF s' → Agree w s' →
      s'.id1 = σ.s.id1 → s'.id2 = σ.s.id2 → Reach w ⟨s', σ.t, σ.c, σ.d⟩
  | change (σ : Sys) (s' : Source) : Reach w σ → SourceWF s' → Agree w s' →
      s'.id1 ≠ σ.t.stored.runId → s'.id1 ≠ σ.c.runId →
      (s'.id2 = σ.t.stored.runId → σ.t.stored.runId = σ.s.id1) →
      (s'.id2 = σ.c.runId → σ.c.runId = σ.s.id1) → Reach w ⟨s', σ.t, σ.c, σ.d⟩
  | cache (σ : Sys) (c' : Cache) (d' : CData) : Reach w σ → CacheWF c' → CacheOK w σ.s c' d' →
      (NotYetCurrent σ.s σ.c → NotYetCurrent σ.s c') → Reach w ⟨σ.s, σ.t, c', d'⟩
  | forget (σ : Sys) (sp' : SP) : Reach w σ →
      ((sp'.runId ≠ σ.s.id1 ∧ sp'.runId ≠ σ.s.id2) ∨ sp'.offset < 0) →
      Reach w ⟨σ.s, ⟨sp', σ.t.truth⟩, σ.c, σ.d⟩

/-! ## 9. The retry loop (`RedisInput.Run`)

  `Run` repeats `run` until told to stop: every attempt dials, asks INFO, reads
  the output's start point, sends PSYNC, then `syncMeta`'s bookkeeping in this
  order — `channel.DelRunId` (FULLRESYNC or `clearLocal`), `channel.SetRunId`,
  `output.ResetStartPoint` (FULLRESYNC), `output.SetRunId` — then creates the
  writer, the reader, and `Send` delivers. Any of these calls can fail; what was
  done stays done. An attempt that ends with `ErrCorrupted` is followed by
  `channel.DelRunId(channel.RunId())` before the next one. -/

/-- how far an attempt got -/
inductive Stage
  | early                                   -- dial / INFO / output.StartPoint / PSYNC failed: nothing changed
  | cleared                                 -- channel.DelRunId done (if due), channel.SetRunId failed
  | relabelled                              -- channel.SetRunId done, the next call on the output failed
  | reset                                   -- output.ResetStartPoint done (if due), output.SetRunId failed
  | metaDone                                -- `syncMeta` complete, no writer yet
  | written (k : Int)                       -- the writer stored `k` stream bytes, nothing was delivered
  | delivered (done : Bool) (e k : Int)     -- the reader delivered (`done`, `e` as in `step`), `k` bytes stored

/-- `output.ResetStartPoint` alone -/
def Tgt.afterReset (t : Tgt) : Tgt := { t with stored := SP.initial }

/-- the state an attempt leaves, by how far it got -/
def attempt (resume : Bool) (w : World) (σ : Sys) : Stage → Sys
  | .early => σ
  | .cleared =>
    if (syncMeta σ.s σ.t.stored σ.c).deleted then ⟨σ.s, σ.t, σ.c.delRunId σ.c.runId, CData.empty⟩ else σ
  | .relabelled =>
    let m := syncMeta σ.s σ.t.stored σ.c
    ⟨σ.s, σ.t, m.cache, if m.deleted then CData.empty else σ.d⟩
  | .reset =>
    let m := syncMeta σ.s σ.t.stored σ.c
    ⟨σ.s, if m.ps.full then σ.t.afterReset else σ.t, m.cache, if m.deleted then CData.empty else σ.d⟩
  | .metaDone =>
    let m := syncMeta σ.s σ.t.stored σ.c
    ⟨σ.s, σ.t.afterMeta resume m, m.cache, if m.deleted then CData.empty else σ.d⟩
  | .written k =>
    let r := run w σ.s σ.t.stored σ.c σ.d
    ⟨σ.s, σ.t.afterMeta resume r.mt, cacheAfter r.mt k, r.data⟩
  | .delivered done e k =>
    let r := run w σ.s σ.t.stored σ.c σ.d
    ⟨σ.s, step resume w σ.s σ.t σ.c σ.d done e, cacheAfter r.mt k, r.data⟩

/-- `Run` after `ErrCorrupted`: `channel.DelRunId(channel.RunId())` -/
def Sys.corrupted (σ : Sys) : Sys := ⟨σ.s, σ.t, σ.c.delRunId σ.c.runId, CData.empty⟩

/-- the bytes stored by a stage stay within int64 -/
def Stage.fits (s : Source) : Stage → Prop
  | .written k => 0 ≤ k ∧ s.masterOff + k ≤ maxInt64
  | .delivered _ _ k => 0 ≤ k ∧ s.masterOff + k ≤ maxInt64
  | _ => True

/-! ### the source fails over between INFO and PSYNC

  INFO was answered by `sI` (ids `A = sI.id1`, `sI.id2`), PSYNC is answered by
  `sP`, whose previous id is `A` and whose current id `B` is new. The decision is
  taken with INFO's ids; a request under `A` is admitted by `sP` as its previous
  id (up to its switch offset), `+CONTINUE B` is "corrected" to `A` (input.go
  "correct run id"), and the bytes that follow are `B`'s. On FULLRESYNC the reply's
  id `B` is used. Seen from the attempt this is a source with INFO's ids whose
  backlog ends at `sP`'s switch offset and whose history under `A` is `B`'s
  (`mix`, `viewWorld`; `mix_admits` shows its answers are `sP`'s). -/

def mix (sI sP : Source) : Source :=
  let ok : Bool := sP.backlog && decide (sP.backlogFirst ≤ sP.switchOff + 1)
  let len : Int := if sP.backlogFirst + sP.backlogLen ≤ sP.switchOff + 1 then sP.backlogLen
                   else sP.switchOff + 1 - sP.backlogFirst
  { id1 := sI.id1, id2 := sI.id2, switchOff := -2, backlog := ok, backlogFirst := sP.backlogFirst,
    backlogLen := if ok then len else 0, masterOff := if ok then sP.backlogFirst + len - 1 else 0,
    snapLen := sP.snapLen, capaId := sP.capaId }

def viewWorld (w : World) (sI sP : Source) : World :=
  ⟨fun id n => if id = sI.id1 then w.hist sP.id1 n else w.hist id n, w.snap⟩

/-- an attempt whose PSYNC is answered FULLRESYNC by `s`, whatever made it so -/
def fullAttempt (resume : Bool) (w : World) (s : Source) (σ : Sys) : Stage → Sys
  | .early => ⟨s, σ.t, σ.c, σ.d⟩
  | .cleared => ⟨s, σ.t, σ.c.delRunId σ.c.runId, CData.empty⟩
  | .relabelled => ⟨s, σ.t, ⟨σ.c.backend, s.id1, none, none⟩, CData.empty⟩
  | .reset => ⟨s, σ.t.afterReset, ⟨σ.c.backend, s.id1, none, none⟩, CData.empty⟩
  | .metaDone =>
    ⟨s, ⟨if resume then ⟨s.id1, -1⟩ else SP.initial, σ.t.truth⟩, ⟨σ.c.backend, s.id1, none, none⟩, CData.empty⟩
  | .written k =>
    ⟨s, ⟨if resume then ⟨s.id1, -1⟩ else SP.initial, σ.t.truth⟩,
      ⟨σ.c.backend, s.id1, some (s.masterOff, s.snapLen), if k > 0 then some (s.masterOff, s.masterOff + k) else none⟩,
      ⟨fun n => w.hist s.id1 n, (s.id1, s.masterOff)⟩⟩
  | .delivered done _ k =>
    ⟨s, if done then ⟨⟨s.id1, s.masterOff⟩, .at s.id1 s.masterOff⟩ else ⟨SP.initial, .dirty⟩,
      ⟨σ.c.backend, s.id1, some (s.masterOff, s.snapLen), if k > 0 then some (s.masterOff, s.masterOff + k) else none⟩,
      ⟨fun n => w.hist s.id1 n, (s.id1, s.masterOff)⟩⟩

/-- an attempt that asked INFO of `σ.s` and PSYNC of `sP` -/
def staleAttempt (resume : Bool) (w : World) (σ : Sys) (sP : Source) (st : Stage) : Sys :=
  let sv := mix σ.s sP
  let wv := viewWorld w σ.s sP
  let r := run wv sv σ.t.stored σ.c σ.d
  if r.mt.ps.full then fullAttempt resume w sP σ st
  else match st with
    | .delivered done e k => ⟨sP, (σ.t.afterMeta resume r.mt).afterSend resume sP r done e, cacheAfter r.mt k, r.data⟩
    | st => { attempt resume wv ⟨sv, σ.t, σ.c, σ.d⟩ st with s := sP }

/-- Everything the loop can reach: attempts of either kind that get as far as any
    stage (optionally ending with `ErrCorrupted`); attempts answered FULLRESYNC by
    any source under a new id (`fullBy`: PSYNC answered by a source unrelated to, or
    more than one failover away from, the one that answered INFO); with, in
    between, the source changing (`same`, `change` as in `Reach`), one pass of the
    collector (`gc`), the cache being lost or replaced (`cache`), the stored
    position being lost (`forget`: a restart in in-memory mode, a deleted
    checkpoint; a restart in resume mode is no transition). -/
inductive Loop (w : World) : Sys → Prop
  | init (s : Source) (be : Backend) : SourceWF s → Agree w s →
      Loop w ⟨s, ⟨SP.initial, .none⟩, ⟨be, [], none, none⟩, CData.empty⟩
  | attempt (σ : Sys) (resume : Bool) (st : Stage) (corrupted : Bool) : Loop w σ → st.fits σ.s →
      Loop w (if corrupted then (attempt resume w σ st).corrupted else attempt resume w σ st)
  | stale (σ : Sys) (sP : Source) (resume : Bool) (st : Stage) (corrupted : Bool) : Loop w σ →
      SourceWF sP → Agree w sP → sP.id2 = σ.s.id1 → sP.id1 ≠ σ.s.id1 → sP.id1 ≠ σ.s.id2 →
      sP.id1 ≠ σ.t.stored.runId → sP.id1 ≠ σ.c.runId → st.fits sP →
      Loop w (if corrupted then (staleAttempt resume w σ sP st).corrupted else staleAttempt resume w σ sP st)
  | fullBy (σ : Sys) (s' : Source) (resume : Bool) (st : Stage) (corrupted : Bool) : Loop w σ →
      SourceWF s' → Agree w s' → s'.id1 ≠ σ.t.stored.runId → s'.id1 ≠ σ.c.runId →
      (s'.id2 = σ.t.stored.runId → σ.t.stored.runId = σ.s.id1) →
      (s'.id2 = σ.c.runId → σ.c.runId = σ.s.id1) → st.fits s' →
      Loop w (if corrupted then (fullAttempt resume w s' σ st).corrupted else fullAttempt resume w s' σ st)
  | same (σ : Sys) (s' : Source) : Loop w σ → SourceWF s' → Agree w s' →
      s'.id1 = σ.s.id1 → s'.id2 = σ.s.id2 → Loop w ⟨s', σ.t, σ.c, σ.d⟩
  | change (σ : Sys) (s' : Source) : Loop w σ → SourceWF s' → Agree w s' →
      s'.id1 ≠ σ.t.stored.runId → s'.id1 ≠ σ.c.runId →
      (s'.id2 = σ.t.stored.runId → σ.t.stored.runId = σ.s.id1) →
      (s'.id2 = σ.c.runId → σ.c.runId = σ.s.id1) → Loop w ⟨s', σ.t, σ.c, σ.d⟩
  | gc (σ : Sys) (c' : Cache) : Loop w σ → Collected σ.c c' → Loop w ⟨σ.s, σ.t, c', σ.d⟩
  | cache (σ : Sys) (c' : Cache) (d' : CData) : Loop w σ → CacheWF c' → CacheOK w σ.s c' d' →
      (NotYetCurrent σ.s σ.c → NotYetCurrent σ.s c') → Loop w ⟨σ.s, σ.t, c', d'⟩
  | forget (σ : Sys) (sp' : SP) : Loop w σ →
      ((sp'.runId ≠ σ.s.id1 ∧ sp'.runId ≠ σ.s.id2 ∧ sp'.runId ≠ qId) ∨ sp'.offset < 0) →
      Loop w ⟨σ.s, ⟨sp', σ.t.truth⟩, σ.c, σ.d⟩

/-- "?" is only ever stored with a negative offset (`StartPoint.Initialize`, an empty checkpoint) -/
def SpWF (sp : SP) : Prop := sp.runId = qId → sp.offset < 0

/-- what holds in every state the loop reaches: the hypotheses of the single-connection theorems -/
structure Inv (w : World) (σ : Sys) : Prop where
  src : SourceWF σ.s
  agree : Agree w σ.s
  cwf : CacheWF σ.c
  cok : CacheOK w σ.s σ.c σ.d
  tr : Truthful w σ.s σ.t σ.c
  sp : SpWF σ.t.stored

end GunYu.Psync
