/-
  C19, session 5 — MULTI-KEY commands (MSET / MSETNX / SMOVE / DEL / UNLINK k1 k2 …) at a cluster node.

  cluster.c getNodeByQuery walks ALL keys of the request:
    * keys of different slots                         → -CROSSSLOT                (executes nothing)
    * slot MIGRATING here, some keys gone, some not   → -TRYAGAIN                 (executes nothing)
    * slot MIGRATING here, every key gone             → -ASK <target>
    * slot IMPORTING here + ASKING, several keys, not all of them here yet → -TRYAGAIN
    * otherwise as for one key (served / -MOVED <owner>)
  `ClusterRoute.tanswer` is that walk for the keys of one slot (it was written for MULTI … EXEC, whose
  EXEC re-checks all queued keys); `answerM` puts the CROSSSLOT test in front. The cluster double
  (vfdoubles/cluster.go decideLocked) is the same rule; the driver recomputes EVERY answer to a multi-key
  command of a replayed trace with `answerM` (no free error answer for them).

  The cluster client routes a multi-key command by its FIRST key (all keys must map to one node, else
  Put refuses: Model/ClusterFlush.lean) and reads one reply: `answerM_refines_first` is why the run of
  ClusterRoute over the first key is still a run when the command has more keys.
-/
import GunYu.Model.ClusterRoute

namespace GunYu.ClusterMulti
open GunYu.ClusterRoute

section
variable (slotOf : Key → Slot)

/-- what node `n` answers to a command on `keys` -/
def answerM (sv : Srv) (n : Node) (keys : List Key) (asking : Bool) : Out :=
  match keys with
  | [] => .err
  | k :: ks =>
    if ks.all (fun x => slotOf x == slotOf k) = true then tanswer slotOf sv n (k :: ks) asking
    else .err                                            -- CROSSSLOT

/-- where key `k` lives -/
def holder (sv : Srv) (k : Key) : Node :=
  match sv.mig (slotOf k) with
  | some d => if sv.atDst k = true then d else sv.owner (slotOf k)
  | none => sv.owner (slotOf k)

end
end GunYu.ClusterMulti
