/-
  C04 — the snapshot fan-out of `RedisOutput.sendRdb` (syncer/output.go) as an
  event system:

      parser ──rdbPipe(cap0)──▶ distributor ──pipes[i](capW)──▶ worker i   (i < n)
                                      │                              │
                                      └──────────── errChan ◀────────┘
                                                    │
                                  collect n+1 results → (REPAIRED, D6: parent
                                  context cancelled ⇒ return its error) → setCheckpoint

  One event = one step of one goroutine; a *schedule* is any `List Ev` (an event
  whose guard does not hold is a no-op, so every interleaving, every cancellation
  instant and every fault position is some list). The same system describes
  plain replay (`rdbReplay`) and bidirectional replay (`rdbReplayBisync`): both
  workers take one entry at a time, return the error of a failed entry, return
  nil on a closed pipe and return **nil on ctx.Done()**.

  Abstractions (each coarser than the code, i.e. allowing at least its
  behaviours): the distributor's receive + blocking send is one step enabled
  when the worker pipe has room (an entry it holds while blocked is modelled as
  still being the head of rdbPipe); applying an entry is atomic; a failing
  worker drops the entry it was applying; worker i exists iff i < n. `consumed`/`term` are ghost fields
  (history of what the distributor took), they influence nothing.

  Core Lean only.
-/
import GunYu.Basic.Bytes

namespace GunYu.RdbFanout

inductive Term | done | err
  deriving DecidableEq, Repr

/-- what `rdb.ParseRdb` puts on its channel -/
inductive Item (α : Type) where
  | entry (a : α)
  | term (t : Term)            -- `Done: true` / `Err: …`
  deriving DecidableEq, Repr

/-- a goroutine's result on errChan: nil / non-nil -/
inductive Res | ok | err
  deriving DecidableEq, Repr

structure Cfg (α : Type) where
  n     : Nat                  -- ReplayRdbParallel
  cap0  : Nat                  -- config.RdbPipeSize
  capW  : Nat                  -- RdbPipeSize / parallel (≥ 1)
  route : α → Nat              -- fnv(key) (or the round-robin counter); worker = route % n

structure St (α : Type) where
  todo      : List (Item α)            -- what the parser still has to emit
  pipe0     : List (Item α) := []      -- rdbPipe
  closed0   : Bool := false            -- rdbPipe closed
  pipes     : Nat → List α := fun _ => []
  closedW   : Bool := false            -- worker pipes closed (distributor returned)
  dist      : Option Res := none       -- distributor's result
  wres      : Nat → Option Res := fun _ => none
  applied   : List α := []             -- entries applied to the target
  dropped   : List α := []             -- entries a failing worker had taken
  cancelled : Bool := false            -- parent context
  childCancelled : Bool := false       -- sendRdb's cancel() after a collected error
  gotD      : Bool := false            -- distributor's result collected
  gotW      : Nat → Bool := fun _ => false
  errs      : Bool := false            -- len(errs) > 0
  ret       : Option Res := none       -- sendRdb returned
  checkpoint : Bool := false           -- setCheckpoint wrote the snapshot's offset
  -- ghost
  consumed  : List α := []             -- entries the distributor has taken, in order
  term      : Option Term := none      -- terminal item the distributor has taken

inductive Ev
  | parse                      -- parser: next item into rdbPipe (if room); close after the last
  | dist                       -- distributor: handle the head of rdbPipe
  | distCancel                 -- distributor: `case <-ctx.Done(): return ctx.Err()`
  | work (i : Nat)             -- worker i: take the head of its pipe and apply it
  | workFail (i : Nat)         -- worker i: the target (or the connection) fails
  | workCancel (i : Nat)       -- worker i: `case <-ctx.Done(): return nil`
  | workClosed (i : Nat)       -- worker i: pipe closed and drained, `return nil`
  | cancel                     -- the parent context is cancelled (stop / restart / lost source)
  | collectD                   -- main: receive the distributor's result
  | collectW (i : Nat)         -- main: receive worker i's result
  | finish (cpOk : Bool)       -- main: all results in → error / ctx error / setCheckpoint (ok or failing)
  deriving Repr

def ctxDone {α} (s : St α) : Bool := s.cancelled || s.childCancelled

def upd {β} (f : Nat → β) (i : Nat) (v : β) : Nat → β := fun j => if j = i then v else f j

def allGot {α} (n : Nat) (s : St α) : Bool := (List.range n).all (fun i => s.gotW i)

def stepParse {α} (c : Cfg α) (s : St α) : St α :=
  match s.todo with
  | [] => if s.closed0 then s else { s with closed0 := true }
  | it :: rest =>
    if s.pipe0.length < c.cap0 then
      { s with todo := rest, pipe0 := s.pipe0 ++ [it] }
    else s

def stepDist {α} (c : Cfg α) (s : St α) : St α :=
  if s.dist.isSome then s else
  match s.pipe0 with
  | [] => if s.closed0 then { s with dist := some .ok, closedW := true } else s      -- `!ok`: channel closed
  | .term .err :: rest => { s with pipe0 := rest, dist := some .err, closedW := true, term := some .err }
  | .term .done :: rest => { s with pipe0 := rest, dist := some .ok, closedW := true, term := some .done }
  | .entry a :: rest =>
    if (s.pipes (c.route a % c.n)).length < c.capW then
      { s with pipe0 := rest, pipes := upd s.pipes (c.route a % c.n) (s.pipes (c.route a % c.n) ++ [a]),
               consumed := s.consumed ++ [a] }
    else s

def stepDistCancel {α} (s : St α) : St α :=
  if s.dist.isNone && ctxDone s then { s with dist := some .err, closedW := true } else s

def stepWork {α} (c : Cfg α) (s : St α) (i : Nat) : St α :=
  if !(decide (i < c.n)) || (s.wres i).isSome then s else
  match s.pipes i with
  | [] => s
  | a :: q => { s with pipes := upd s.pipes i q, applied := s.applied ++ [a] }

def stepWorkFail {α} (c : Cfg α) (s : St α) (i : Nat) : St α :=
  if !(decide (i < c.n)) || (s.wres i).isSome then s else
  match s.pipes i with
  | [] => { s with wres := upd s.wres i (some .err) }
  | a :: q => { s with pipes := upd s.pipes i q, dropped := s.dropped ++ [a], wres := upd s.wres i (some .err) }

def stepWorkCancel {α} (c : Cfg α) (s : St α) (i : Nat) : St α :=
  if decide (i < c.n) && (s.wres i).isNone && ctxDone s then { s with wres := upd s.wres i (some .ok) } else s

def stepWorkClosed {α} (c : Cfg α) (s : St α) (i : Nat) : St α :=
  if decide (i < c.n) && (s.wres i).isNone && (s.pipes i).isEmpty && s.closedW then
    { s with wres := upd s.wres i (some .ok) } else s

def stepCollectD {α} (s : St α) : St α :=
  if s.gotD then s else
  match s.dist with
  | none => s
  | some .ok => { s with gotD := true }
  | some .err => { s with gotD := true, errs := true, childCancelled := true }

def stepCollectW {α} (c : Cfg α) (s : St α) (i : Nat) : St α :=
  if !(decide (i < c.n)) || s.gotW i then s else
  match s.wres i with
  | none => s
  | some .ok => { s with gotW := upd s.gotW i true }
  | some .err => { s with gotW := upd s.gotW i true, errs := true, childCancelled := true }

def stepFinish {α} (c : Cfg α) (s : St α) (cpOk : Bool) : St α :=
  if s.ret.isSome || !s.gotD || !(allGot c.n s) then s
  else if s.errs then { s with ret := some .err }
  else if s.cancelled then { s with ret := some .err }          -- D6 repair: parent ctx error before setCheckpoint
  else if cpOk then { s with ret := some .ok, checkpoint := true }
  else { s with ret := some .err }

def step {α} (c : Cfg α) (s : St α) : Ev → St α
  | .parse => stepParse c s
  | .dist => stepDist c s
  | .distCancel => stepDistCancel s
  | .work i => stepWork c s i
  | .workFail i => stepWorkFail c s i
  | .workCancel i => stepWorkCancel c s i
  | .workClosed i => stepWorkClosed c s i
  | .cancel => { s with cancelled := true }
  | .collectD => stepCollectD s
  | .collectW i => stepCollectW c s i
  | .finish cpOk => stepFinish c s cpOk

def run {α} (c : Cfg α) (s : St α) (sched : List Ev) : St α := sched.foldl (step c) s

def init {α} (items : List (Item α)) : St α := { todo := items }

end GunYu.RdbFanout
