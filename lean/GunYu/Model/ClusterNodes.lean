/-
  C18 — COMMAND GETKEYS on a target whose nodes answer DIFFERENTLY (or with
  errors), and the cluster client's transaction flag.

  * `builderFb` transcribes the callback of `resolveBisyncCommandKeys`
    (syncer/bisync.go) run over the nodes in the order `IterateNodes` visits
    them (a Go map: ANY order): the first non-empty key list wins, an error is
    remembered and reported only if no node names keys, empty answers are
    passed over.
  * the cluster client asks ONE node per Put (`commandGetKeys`:
    `getRandomNode`): `txnPutAllN` pairs every command with the node its query
    hits.
  * `chooseNodeF` / `txnPutF` add `Cluster.transactionEnable` /
    `transactionNode` (cluster.go chooseNodeWithCmdAndKeys): set by a literal
    MULTI, cleared by EXEC, consulted in the `default:` branch only.

  Core Lean only.
-/
import GunYu.Model.BisyncUnit

namespace GunYu.BisyncUnit
open GunYu

/-- what node `n` answers to `COMMAND GETKEYS <cmd> <args…>` -/
abbrev NodeAns := Nat → Bytes → List Bytes → Fb

/-- the variables the callback of `resolveBisyncCommandKeys` closes over -/
structure IterSt where
  found : Bool := false
  resolved : List Bytes := []
  firstErr : Bool := false
  deriving DecidableEq, Repr

/-- one call of the callback `func(addr, reply, err)` -/
def iterStep (st : IterSt) (a : Fb) : IterSt :=
  if st.found then st
  else
    match a with
    | .err => { st with firstErr := true }                   -- reply error or undecodable reply
    | .none => st                                             -- `len(keysReply) == 0`
    | .keys ks => if ks.isEmpty then st else { st with resolved := ks, found := true }

/-- what `resolveBisyncCommandKeys` returns after the iteration -/
def iterResult (st : IterSt) : Fb :=
  if st.found then .keys st.resolved else if st.firstErr then .err else .none

/-- the builder's fall-back over nodes visited in the order `nodes` -/
def builderFb (ans : NodeAns) (nodes : List Nat) : Bytes → List Bytes → Fb := fun cmd args =>
  iterResult (nodes.foldl (fun st n => iterStep st (ans n cmd args)) {})

/-- the Put sequence of one transaction, every command paired with the node
    its COMMAND GETKEYS query hits (consulted only when the static tables do
    not resolve the command) -/
def txnPutAllN (owner : Nat → Option Nat) (ans : NodeAns) (anyNode : Option Nat) :
    Txn → List (Cmd × Nat) → Except PutErr Txn
  | t, [] => .ok t
  | t, (c, n) :: cs =>
    match txnPut ⟨owner, ans n⟩ anyNode t c with
    | .error e => .error e
    | .ok t' => txnPutAllN owner ans anyNode t' cs

/-- does Put consult COMMAND GETKEYS for this command? -/
def needsGetKeys (c : Cmd) : Bool :=
  !(specialRouted.contains (upperName c.name)) && !c.args.isEmpty && (commandKeys c.name c.args).isNone

/-- pair the commands with the nodes `getRandomNode` draws: one draw per command that needs it -/
def assignPicks : List Cmd → List Nat → List (Cmd × Nat)
  | [], _ => []
  | c :: cs, picks =>
    if needsGetKeys c then (c, picks.headD 0) :: assignPicks cs picks.tail
    else (c, picks.headD 0) :: assignPicks cs picks

def wireN (owner : Nat → Option Nat) (ans : NodeAns) (anyNode : Option Nat) (cmds : List (Cmd × Nat)) :
    Except PutErr (List Cmd) :=
  match txnPutAllN owner ans anyNode {} cmds with
  | .error e => .error e
  | .ok t => if t.cmds.isEmpty then .ok [] else .ok (⟨wMulti, []⟩ :: t.cmds ++ [⟨wExec, []⟩])

/-- end to end with diverging nodes: the builder iterates `nodes`, the client
    draws `picks`; `none` = the replay stops, nothing was sent -/
def replayUnitN (ans : NodeAns) (nodes picks : List Nat) (owner : Nat → Option Nat) (anyNode : Option Nat)
    (cp : Bytes) (k : CommitKind) (p : Payload) (cmds : List Cmd) : Option (List Cmd) :=
  match buildUnit clusterMode (resolverWith (builderFb ans nodes)) cmds with
  | .error _ => none
  | .ok u =>
    match wireN owner ans anyNode (assignPicks (commitCmds cp k u p) picks) with
    | .error _ => none
    | .ok w => some w

/-- the keys the client validated for `c` at its Put (none for a skipped command) -/
def putKeys (cv : ClusterView) (anyNode : Option Nat) (c : Cmd) : List Bytes :=
  match chooseNode cv anyNode c with
  | .ok (.route _ ks) => ks
  | _ => []

/-! ### the node that RECEIVES the block

  Redis Cluster's own check of a MULTI … EXEC block (cluster.c getNodeByQuery,
  run for every queued command and again for the whole transaction at EXEC) —
  a TRUSTED transcription like C11's HASH_SLOT: the node extracts the keys of
  each queued command with ITS OWN command table (here: the static tables
  where they resolve the command — trusted to be Redis's, as everywhere in
  C18 — and the node's own COMMAND GETKEYS answer otherwise); a command it
  does not know, keys on two slots, a slot other than the block's, or a slot it
  does not serve make it answer an error at queue time, EXEC then answers
  -EXECABORT and NOTHING of the block is applied. -/

/-- how node `n` sees a queued command -/
inductive NodeSees where
  | keys (ks : List Bytes)
  | keyless
  | unknown
  deriving DecidableEq, Repr

def nodeSees (ans : NodeAns) (n : Nat) (c : Cmd) : NodeSees :=
  match commandKeys c.name c.args with
  | some ks => .keys ks
  | none =>
    match ans n c.name c.args with
    | .keys ks => if ks.isEmpty then .keyless else .keys ks
    | .none => .keyless
    | .err => .unknown

/-- the keys node `n` extracts from a block -/
def nodeKeys (ans : NodeAns) (n : Nat) (body : List Cmd) : List Bytes :=
  body.flatMap (fun c => match nodeSees ans n c with | .keys ks => ks | _ => [])

/-- does node `n` execute the block? every command known, all keys on one slot, that slot served here -/
def nodeBlockOk (ans : NodeAns) (owner : Nat → Option Nat) (n : Nat) (body : List Cmd) : Bool :=
  body.all (fun c => nodeSees ans n c != .unknown) &&
  match nodeKeys ans n body with
  | [] => true
  | k :: ks => ks.all (fun k' => Slot.clusterHash k' == Slot.clusterHash k) && owner (Slot.clusterHash k) == some n

/-- what node `n` applies of a block: all of it or nothing -/
def nodeApplies (ans : NodeAns) (owner : Nat → Option Nat) (n : Nat) (body : List Cmd) : List Cmd :=
  if nodeBlockOk ans owner n body then body else []

/-! ### the cluster-level transaction flag -/

/-- `Cluster.transactionEnable`, `Cluster.transactionNode` -/
structure CFlag where
  enable : Bool := false
  node : Option Nat := none
  deriving DecidableEq, Repr

/-- is `u` (upper-cased name) handled by the `default:` branch of chooseNodeWithCmdAndKeys? -/
def defaultBranch (u : Bytes) : Bool := !(specialRouted.contains u)

/-- `chooseNodeWithCmdAndKeys(cmd, true, args...)` with the flag: MULTI sets it,
    EXEC clears it (and the pinned node), the `default:` branch pins / compares
    the node while it is set -/
def chooseNodeF (cv : ClusterView) (anyNode : Option Nat) (f : CFlag) (c : Cmd) : Except PutErr (Choice × CFlag) :=
  let u := upperName c.name
  if u == uMulti then .ok (.skip, { f with enable := true })
  else if u == uExec then .ok (.skip, { enable := false, node := none })
  else
    match chooseNode cv anyNode c with
    | .error e => .error e
    | .ok .skip => .ok (.skip, f)
    | .ok (.route n ks) =>
      if defaultBranch u && f.enable then
        match f.node with
        | none => .ok (.route n ks, { f with node := some n })
        | some m => if m != n then .error .cross else .ok (.route n ks, f)
      else .ok (.route n ks, f)

/-- the batcher's own checks on a routed command (the part of `txnBatcher.Put` behind chooseNode) -/
def txnPutRoute (t : Txn) (c : Cmd) (node : Nat) (keys : List Bytes) : Except PutErr Txn :=
  let tnode := t.node.getD node
  match keys with
  | [] => .error .other
  | k :: ks =>
    let slot := Slot.clusterHash k
    if ks.any (fun k' => Slot.clusterHash k' != slot) then .error .cross
    else
      match t.slot with
      | some s =>
        if s != slot then .error .cross
        else if node != tnode then .error .cross
        else .ok { node := some node, slot := some s, cmds := t.cmds ++ [c] }
      | none =>
        if node != tnode then .error .cross
        else .ok { node := some node, slot := some slot, cmds := t.cmds ++ [c] }

/-- `txnBatcher.Put` over `chooseNodeF`. The flag is CLUSTER state: what
    chooseNodeWithCmdAndKeys did to it stays done when the batcher's own check
    then refuses the command -/
def txnPutF (cv : ClusterView) (anyNode : Option Nat) (t : Txn) (f : CFlag) (c : Cmd) : Except PutErr Txn × CFlag :=
  match chooseNodeF cv anyNode f c with
  | .error e => (.error e, f)
  | .ok (.skip, f') => (.ok t, f')
  | .ok (.route node keys, f') => (txnPutRoute t c node keys, f')

def txnPutAllF (cv : ClusterView) (anyNode : Option Nat) : Txn → CFlag → List Cmd → Except PutErr Txn × CFlag
  | t, f, [] => (.ok t, f)
  | t, f, c :: cs =>
    match txnPutF cv anyNode t f c with
    | (.error e, f') => (.error e, f')
    | (.ok t', f') => txnPutAllF cv anyNode t' f' cs

end GunYu.BisyncUnit
