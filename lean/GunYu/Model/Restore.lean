/-
  C20 — snapshot entries replayed onto a target that may already hold the key.

  Transcription, at the level of *entries* (what `rdb.Loader.Next` hands to the
  replay code; bytes/encodings are C03's business), of

    pkg/rdbrestore/restore.go   RdbReplay.Replay        (`replay`)  — REPAIRED
        behaviour for D24 ("Bad data format" fallback keeps policy and expiry) and
        for D7: with policy `ignore` and an existing key the
        expansion path returns right after the probe and remembers the key so
        that the remaining chunks of the same value are skipped as well;
    syncer/bisync_rdb.go        buildBisyncRdbReplayUnit (`buildUnit`) with
        `bisyncRdbReplayState.skippedKey`, and execBisyncRdbUnit (`execUnit`);
    syncer/output.go rdbReplay / bisync_rdb.go rdbReplayBisync: the per-worker
        loop (SELECT when the entry's DB differs, stop at the first error)
        (`runPlain`, `runBisync`).

  plus a small target semantics (`applyReq`) for exactly the requests these
  functions issue (EXISTS, DEL, PEXPIRE, RESTORE [REPLACE], native data
  commands, SELECT, MULTI/EXEC, the bisync marker) — trusted base: Redis
  command semantics as transcribed here and as implemented by the target double.

  Core Lean only.
-/
import GunYu.Basic.Bytes

namespace GunYu.Restore
open GunYu

inductive Policy | replace | ignore | error
  deriving DecidableEq, Repr

/-- `rdb.RdbObject*` classes that `Replay` distinguishes -/
inductive OType | data | module | func | aux
  deriving DecidableEq, Repr

/-- one expanded command (`ObjectParser.ExecCmd` callback): lower-cased name and
    arguments; for data commands the first argument is the key -/
structure Cmd where
  name : Bytes
  args : List Bytes
  deriving DecidableEq, Repr

/-- a snapshot entry (`rdb.BinEntry`) as the replay code observes it -/
structure Entry where
  db         : Int            -- `e.DB` (−1: none, e.g. functions)
  key        : Bytes
  otype      : OType
  first      : Bool           -- `FirstBin()`
  splited    : Bool           -- `IsSplited()`
  canRestore : Bool           -- `CanRestore()`
  dumpSize   : Nat            -- `ValueDumpSize()`
  expireAt   : Nat            -- ms, 0 = none
  idle       : Nat
  freq       : Nat
  dump       : Bytes          -- `DumpValue()`
  cmds       : List Cmd       -- expansion of THIS chunk
  deriving DecidableEq, Repr

structure Cfg where
  enableRestore : Bool
  maxBulk       : Nat
  ver5          : Bool         -- target version ≥ 5 (IDLETIME / FREQ)
  now           : Nat          -- ms, `time.Now()` while replaying
  deriving Repr

/-- requests the replay code sends -/
inductive Req
  | exists  (k : Bytes)
  | del     (k : Bytes)
  | pexpire (k : Bytes) (ttl : Nat)
  | restore (k : Bytes) (ttl : Nat) (payload : Bytes) (opts : List Bytes) (replace : Bool)
  /-- the same RESTORE on the wire, answered `ERR Bad data format` by a target
      that cannot load the payload (older version): no effect -/
  | restoreBad (k : Bytes) (ttl : Nat) (payload : Bytes) (opts : List Bytes) (replace : Bool)
  | data    (c : Cmd)            -- native data command on key `c.args.head`
  | raw     (c : Cmd)            -- function / aux commands (no data key)
  | select  (db : Nat)
  | multi
  | exec
  | marker                       -- bisync marker `SET <markerkey> … PX …`
  deriving DecidableEq, Repr

/-- `errBad`: the target refused the payload inside the bidirectional unit's EXEC ("Bad data format") -/
inductive Outcome | ok | errExists | errModule | errBad
  deriving DecidableEq, Repr

/-- what `Replay` learns from the target about the entry's key: whether it
    exists when the entry is replayed (EXISTS reply / RESTORE → BUSYKEY) -/
structure View where
  keyExists : Bool
  /-- the target refuses this entry's payload with "Bad data format" (asked only
      after the BUSYKEY test, as Redis does) -/
  badData : Bool := false
  deriving Repr

/-- `ttlms` of `Replay` / `bisyncRdbTTLms` -/
def ttlMs (now expireAt : Nat) : Nat :=
  if expireAt = 0 then 0 else if now ≥ expireAt then 1 else expireAt - now

def sIDLETIME : Bytes := [73, 68, 76, 69, 84, 73, 77, 69]
def sFREQ : Bytes := [70, 82, 69, 81]

/-- IDLETIME / FREQ options of RESTORE -/
def restoreOpts (cfg : Cfg) (e : Entry) : List Bytes :=
  if cfg.ver5 then
    (if e.idle ≠ 0 then [sIDLETIME, natToDec e.idle] else []) ++
    (if e.freq ≠ 0 then [sFREQ, natToDec e.freq] else [])
  else []

/-- `restoreCmd` of `Replay` / `bisyncRdbUseRestore` -/
def useRestore (cfg : Cfg) (e : Entry) : Bool :=
  cfg.enableRestore && e.canRestore && !(decide (e.dumpSize > cfg.maxBulk)) && !e.splited

/-- native commands of one chunk followed by PEXPIRE when the entry carries an expiry
    (`restoreBigRdbEntry` + the `pexpire` of `Replay`) -/
def expand (cfg : Cfg) (e : Entry) : List Req :=
  e.cmds.map Req.data ++ (if e.expireAt ≠ 0 then [Req.pexpire e.key (ttlMs cfg.now e.expireAt)] else [])

/-- replay-local state: the split key being ignored (`RdbReplay.ignoredKey`,
    `bisyncRdbReplayState.skippedKey`) -/
abbrev RState := Option Bytes

/-- `RdbReplay.Replay` (repaired, D7) -/
def replay (pol : Policy) (cfg : Cfg) (st : RState) (v : View) (e : Entry) : List Req × Outcome × RState :=
  match e.otype with
  | .func | .aux => (e.cmds.map Req.raw, .ok, st)                       -- restoreOnce
  | _ =>
    if useRestore cfg e then
      let ttl := ttlMs cfg.now e.expireAt
      let r0 := Req.restore e.key ttl e.dump (restoreOpts cfg e) false
      if v.keyExists then                                                -- BUSYKEY
        match pol with
        | .replace =>
          if v.badData then
            -- REPAIRED (D24): "Bad data format" falls back to the expansion
            -- branch with its policy handling (probe, DEL) and its PEXPIRE
            if e.otype = .module then
              ([r0, Req.restoreBad e.key ttl e.dump (restoreOpts cfg e) true], .errModule, st)
            else
              (r0 :: Req.restoreBad e.key ttl e.dump (restoreOpts cfg e) true ::
                Req.exists e.key :: Req.del e.key :: expand cfg e, .ok, none)
          else ([r0, Req.restore e.key ttl e.dump (restoreOpts cfg e) true], .ok, st)
        | .ignore  => ([r0], .ok, st)
        | .error   => ([r0], .errExists, st)
      else if v.badData then
        if e.otype = .module then
          ([Req.restoreBad e.key ttl e.dump (restoreOpts cfg e) false], .errModule, st)
        else
          (Req.restoreBad e.key ttl e.dump (restoreOpts cfg e) false :: Req.exists e.key :: expand cfg e, .ok, none)
      else ([r0], .ok, st)
    else if e.otype = .module then ([], .errModule, st)
    else if e.first then
      if v.keyExists then
        match pol with
        | .replace => (Req.exists e.key :: Req.del e.key :: expand cfg e, .ok, none)
        | .ignore  => ([Req.exists e.key], .ok, some e.key)
        | .error   => ([Req.exists e.key], .errExists, none)
      else (Req.exists e.key :: expand cfg e, .ok, none)
    else if st = some e.key then ([], .ok, st)                           -- remaining chunks of an ignored key
    else (expand cfg e, .ok, st)

/-! ### bidirectional builder -/

inductive BOutcome | skip | unit | errExists | errModule | errBad
  deriving DecidableEq, Repr

/-- `captureBisyncRdbExpandedCommands` -/
def expandB (cfg : Cfg) (e : Entry) (hasKey : Bool) : List Req :=
  e.cmds.map (if hasKey then Req.data else Req.raw) ++
    (if e.expireAt ≠ 0 ∧ hasKey then [Req.pexpire e.key (ttlMs cfg.now e.expireAt)] else [])

/-- `execBisyncRdbUnit`: marker and business commands in one transaction -/
def execUnit (cmds : List Req) : List Req := Req.multi :: Req.marker :: cmds ++ [Req.exec]

/-- `buildBisyncRdbReplayUnit` on a standalone target (no hashtag rewriting),
    REPAIRED behaviour for D21 (an entry is keyed by its kind, not by the length of its key).
    Result: requests sent directly (the probe), the unit's commands, outcome,
    new state. -/
def buildUnit (pol : Policy) (cfg : Cfg) (st : RState) (v : View) (e : Entry) :
    List Req × List Req × BOutcome × RState :=
  let hasKey : Bool := !(e.otype = .func || e.otype = .aux)             -- bisyncRdbIsKeyedEntry ("" is a key)
  let st1 : RState := if hasKey && e.first then none else st
  if hasKey && !e.first && st = some e.key then ([], [], .skip, st)
  else
    let probe : Bool := hasKey && e.first && (pol = .ignore || pol = .error)
    let direct : List Req := if probe then [Req.exists e.key] else []
    if probe && v.keyExists then
      if pol = .ignore then (direct, [], .skip, if e.splited then some e.key else st1)
      else (direct, [], .errExists, st1)
    else
      if hasKey && useRestore cfg e && v.badData then
        -- the unit IS sent; the RESTORE's slot of the EXEC reply is "Bad data format": the
        -- transaction batcher reports it, the replay fails, nothing is merged
        (direct ++ execUnit [Req.restoreBad e.key (ttlMs cfg.now e.expireAt) e.dump (restoreOpts cfg e) (pol = .replace)],
          [], .errBad, st1)
      else if hasKey && useRestore cfg e then
        (direct, [Req.restore e.key (ttlMs cfg.now e.expireAt) e.dump (restoreOpts cfg e) (pol = .replace)], .unit, st1)
      else if hasKey && e.otype = .module then (direct, [], .errModule, st1)
      else
        let cmds := expandB cfg e hasKey
        let cmds := if hasKey && e.first && pol = .replace then Req.del e.key :: cmds else cmds
        if cmds = [] then (direct, [], .skip, st1) else (direct, cmds, .unit, st1)


/-! ### target semantics for these requests -/

inductive Val
  | old (tag : Nat)                 -- a pre-existing value (opaque)
  | restored (payload : Bytes)      -- created by RESTORE
  | native (log : List Cmd)         -- created by native commands, in this order
  | tainted                         -- an old/restored value later written by native commands
  deriving DecidableEq, Repr

structure Obj where
  val : Val
  exp : Nat                         -- absolute ms, 0 = no expiry
  deriving DecidableEq, Repr

abbrev KS := Nat → Bytes → Option Obj

structure Target where
  cur : Nat := 0
  now : Nat
  ks  : KS
  /-- keys whose RESTORE payload this target cannot load ("Bad data format") -/
  bad : Bytes → Bool := fun _ => false

def Target.get (t : Target) (k : Bytes) : Option Obj := t.ks t.cur k

def KS.set (ks : KS) (db : Nat) (k : Bytes) (o : Option Obj) : KS :=
  fun d k' => if d = db ∧ k' = k then o else ks d k'

def Target.put (t : Target) (k : Bytes) (o : Option Obj) : Target :=
  { t with ks := t.ks.set t.cur k o }

def sXGROUP : Bytes := [120, 103, 114, 111, 117, 112]

/-- the key a native command writes: its first argument, except `XGROUP <sub> key …` -/
def cmdKey (c : Cmd) : Bytes :=
  if c.name = sXGROUP then (c.args.drop 1).headD [] else c.args.headD []

/-- a native data command seen from its key's object: creates the key (no
    expiry) or appends to the value's command log; the expiry of an existing
    key is kept -/
def dataStep (o : Option Obj) (c : Cmd) : Option Obj :=
  match o with
  | none => some { val := .native [c], exp := 0 }
  | some x =>
    match x.val with
    | .native l => some { x with val := .native (l ++ [c]) }
    | _ => some { x with val := .tainted }

/-- the key whose object a request may change (EXISTS changes nothing) -/
def reqKey : Req → Option Bytes
  | .del k => some k
  | .pexpire k _ => some k
  | .restore k _ _ _ _ => some k
  | .data c => some (cmdKey c)
  | _ => none

/-- effect of a request on the object stored under ITS key (`o` = current
    object, `none` = key absent) -/
def objEffect (now : Nat) (o : Option Obj) : Req → Option Obj
  | .del _ => none
  | .pexpire _ ttl => o.map (fun x => { x with exp := now + ttl })
  | .restore _ ttl payload _ replace =>
    if o.isSome && !replace then o                                       -- BUSYKEY
    else some { val := .restored payload, exp := if ttl = 0 then 0 else now + ttl }
  | .data c => dataStep o c
  | _ => o

def applyReq (t : Target) (r : Req) : Target :=
  match r with
  | .select db => { t with cur := db }
  | _ =>
    match reqKey r with
    | some k => t.put k (objEffect t.now (t.get k) r)
    | none => t

def applyReqs (t : Target) (rs : List Req) : Target := rs.foldl applyReq t

def viewOf (t : Target) (e : Entry) : View :=
  { keyExists := (t.get e.key).isSome, badData := t.bad e.key }

/-! ### `replaceHashTag`

  With `replaceHashTag` the target key is the snapshot key without its first
  `{` and without the first `}` of what remains (`bytes.Replace(…, 1)` twice).
  Both replay paths then behave exactly as on an entry that carries the
  target key and whose native commands have the key argument rewritten
  (bidirectional: `bisyncRdbTargetKey` + `rewriteBisyncRdbCommandKeys`; plain,
  REPAIRED behaviour for D27: the expansion commands are rewritten too): the
  worker replays `retag e`. -/

def removeFirst (b : UInt8) : Bytes → Bytes
  | [] => []
  | x :: xs => if x = b then xs else x :: removeFirst b xs

def stripTag (k : Bytes) : Bytes := removeFirst 125 (removeFirst 123 k)

/-- rewrite the key argument of a native command (first argument; second for XGROUP) -/
def rewriteCmd (src tgt : Bytes) (c : Cmd) : Cmd :=
  if c.name = sXGROUP then
    match c.args with
    | sub :: k :: rest => if k = src then { c with args := sub :: tgt :: rest } else c
    | _ => c
  else
    match c.args with
    | k :: rest => if k = src then { c with args := tgt :: rest } else c
    | _ => c

def retag (replaceHashTag : Bool) (e : Entry) : Entry :=
  if replaceHashTag && (e.otype = .data || e.otype = .module) then
    { e with key := stripTag e.key, cmds := e.cmds.map (rewriteCmd e.key (stripTag e.key)) }
  else e

/-! ### a replay worker over a list of entries (one connection) -/

structure Run where
  reqs : List Req := []
  out  : Outcome := .ok
  st   : RState := none
  tgt  : Target

/-- replay the entries in order on one `RdbReplay` (plain path), stopping at
    the first error, the target answering each entry's probe from its state -/
def runPlain (pol : Policy) (cfg : Cfg) : RState → Target → List Entry → Run
  | st, t, [] => { st := st, tgt := t }
  | st, t, e :: rest =>
    let (rs, out, st') := replay pol cfg st (viewOf t e) e
    let t' := applyReqs t rs
    match out with
    | .ok =>
      let r := runPlain pol cfg st' t' rest
      { r with reqs := rs ++ r.reqs }
    | o => { reqs := rs, out := o, st := st', tgt := t' }

def bOut : BOutcome → Outcome
  | .skip => .ok | .unit => .ok | .errExists => .errExists | .errModule => .errModule | .errBad => .errBad

/-- the same loop for the bidirectional builder + executor -/
def runBisync (pol : Policy) (cfg : Cfg) : RState → Target → List Entry → Run
  | st, t, [] => { st := st, tgt := t }
  | st, t, e :: rest =>
    let (direct, cmds, out, st') := buildUnit pol cfg st (viewOf t e) e
    let rs := direct ++ (if out = .unit then execUnit cmds else [])
    let t' := applyReqs t rs
    match bOut out with
    | .ok =>
      let r := runBisync pol cfg st' t' rest
      { r with reqs := rs ++ r.reqs }
    | o => { reqs := rs, out := o, st := st', tgt := t' }

/-! ### the worker loops with DB selection (rdbReplay / rdbReplayBisync, `TargetDb = −1`, no map) -/

/-- `rdbReplay` / `rdbReplayBisync`: SELECT when the entry's DB (≠ −1) differs
    from the connection's, then replay; stop at the first error -/
def runWorker (bisync : Bool) (pol : Policy) (cfg : Cfg) : Nat → RState → Target → List Entry → List (List Req × Outcome)
  | _, _, _, [] => []
  | curDb, st, t, e :: rest =>
    let sel : List Req := if e.db ≥ 0 ∧ e.db.toNat ≠ curDb then [Req.select e.db.toNat] else []
    let curDb' := if e.db ≥ 0 then e.db.toNat else curDb
    let t1 := applyReqs t sel
    if bisync then
      let (direct, cmds, out, st') := buildUnit pol cfg st (viewOf t1 e) e
      let rs := direct ++ (if out = .unit then execUnit cmds else [])
      let t' := applyReqs t1 rs
      match bOut out with
      | .ok => (sel ++ rs, .ok) :: runWorker bisync pol cfg curDb' st' t' rest
      | o => [(sel ++ rs, o)]
    else
      let (rs, out, st') := replay pol cfg st (viewOf t1 e) e
      let t' := applyReqs t1 rs
      match out with
      | .ok => (sel ++ rs, .ok) :: runWorker bisync pol cfg curDb' st' t' rest
      | o => [(sel ++ rs, o)]

/-- final target of `runWorker` -/
def workerTarget (t : Target) (ls : List (List Req × Outcome)) : Target :=
  ls.foldl (fun t l => applyReqs t l.1) t

end GunYu.Restore
