/-
  C13 — bidirectional sync: what the opposite link recognises in a site's
  replication stream.

  * namespace predicates   : pkg/redis/checkpoint/bisync.go Is…Key,
                             syncer/bisync.go isBisyncNamespaceKey,
                             touchesBisyncNamespace, isBisyncMarkerCommand,
                             isBisyncMirroredTransaction
  * `step` / `parse`       : RedisOutput.parseAofReplayUnits (MULTI/EXEC
                             grouping, filters, mirrored-transaction test,
                             stand-alone control commands skipped, unit build)
  * `Bookkeeping`          : the stand-alone bookkeeping traffic the tool
                             writes (frontier HSET, journal DEL, index ZREM,
                             checkpoint hashes, namespace mode, cleanup)

  `isMirroredTxn` is the REPAIRED test: lazy-expiry deletions of the marker key
  that Redis propagates ahead of the marker SET inside the same MULTI/EXEC are
  skipped before the first command is examined (see Props/C13.lean
  `mirrored_recognised` and the counterexample for the first-command-only test).
  Core Lean only.
-/
import GunYu.Basic.Bytes
import GunYu.Model.Filter
import GunYu.Model.BisyncUnit
import GunYu.Gen.BisyncKeys
import GunYu.Gen.FilterConsts

namespace GunYu.Bisync
open GunYu GunYu.BisyncUnit

/-! ### byte-string predicates (Go `strings.HasPrefix`, `strings.Contains`) -/

def hasPrefix (p k : Bytes) : Bool := p.isPrefixOf k

/-- `strings.Contains(hay, needle)` -/
def containsSub (needle : Bytes) : Bytes → Bool
  | [] => needle.isEmpty
  | b :: t => needle.isPrefixOf (b :: t) || containsSub needle t

/-- `BisyncKeyPrefix + ":"` -/
def nsPrefix : Bytes := Gen.bisyncKeyPrefix ++ [58]

/-- checkpoint.IsBisyncMarkerKey -/
def isMarkerKey (k : Bytes) : Bool := hasPrefix nsPrefix k && containsSub Gen.markerInfix k
def isLatestKey (k : Bytes) : Bool := hasPrefix nsPrefix k && containsSub Gen.latestInfix k
def isCommitKey (k : Bytes) : Bool := hasPrefix nsPrefix k && containsSub Gen.commitInfix k
def isRdbRecordKey (k : Bytes) : Bool := hasPrefix nsPrefix k && containsSub Gen.rdbInfix k
def isCommitIndexKey (k : Bytes) : Bool := hasPrefix nsPrefix k && containsSub Gen.indexInfix k

/-- syncer.isBisyncNamespaceKey -/
def isNamespaceKey (k : Bytes) : Bool := hasPrefix nsPrefix k || hasPrefix Gen.checkpointKey k

def wDel : Bytes := [100,101,108]
def wUnlink : Bytes := [117,110,108,105,110,107]
def wPing : Bytes := [112,105,110,103]
def wSelect : Bytes := [115,101,108,101,99,116]
def wPublish : Bytes := [112,117,98,108,105,115,104]
def wSentinelHello : Bytes :=
  [95,95,115,101,110,116,105,110,101,108,95,95,58,104,101,108,108,111]

/-- syncer.touchesBisyncNamespace / isBisyncControlCommand -/
def touchesNamespace (c : Cmd) : Bool :=
  if c.args.isEmpty then false
  else
    let n := lower c.name
    if n == wDel || n == wUnlink then c.args.any isNamespaceKey
    else isNamespaceKey (c.args.headD [])

/-- syncer.isBisyncMarkerCommand -/
def isMarkerCommand (c : Cmd) : Bool :=
  lower c.name == wSet && c.args.length ≥ 2 && isMarkerKey (c.args.headD [])

/-- a lazy-expiry deletion of a marker key: `DEL marker` / `UNLINK marker` -/
def isMarkerExpiry (c : Cmd) : Bool :=
  let n := lower c.name
  (n == wDel || n == wUnlink) && c.args.length == 1 && isMarkerKey (c.args.headD [])

/-- syncer.isBisyncMirroredTransaction (repaired): the first command that is
    not a marker-expiry deletion writes a marker -/
def isMirroredTxn : List Cmd → Bool
  | [] => false
  | c :: cs => if isMarkerExpiry c then isMirroredTxn cs else isMarkerCommand c

/-- the first-command-only test (the code before the repair), kept for the
    counterexample in Props/C13.lean -/
def isMirroredTxnFirstOnly : List Cmd → Bool
  | [] => false
  | c :: _ => isMarkerCommand c

/-! ### parseAofReplayUnits -/

structure PCfg where
  filter : Filter.KeyFilter
  mode : SlotMode
  resolver : Resolver

/-- what the parser hands to the sender -/
structure Emit where
  seq : Nat
  startOff : Nat
  endOff : Nat
  sourceTxn : Bool
  unit : RUnit
  deriving DecidableEq, Repr

inductive PErr where
  | nestedMulti | execWithoutMulti | selectArgs | selectParse
  | build (e : BuildErr)
  | eofInTxn
  deriving DecidableEq, Repr

structure PState where
  bypass : Bool := false
  prevOff : Nat := 0
  seq : Nat := 1            -- nextUnitSeq
  inTxn : Bool := false
  txnStart : Nat := 0
  txn : List Cmd := []
  deriving DecidableEq, Repr

inductive StepOut where
  | none
  | emit (e : Emit)
  | err (e : PErr)
  deriving DecidableEq, Repr

/-- outcome of the filter prologue of one loop iteration -/
inductive Pre where
  | ret (r : PState × StepOut)            -- `continue` / `return err`
  | go (bypass : Bool) (selectDB : Int)   -- fall through with the updated flags

/-- the `if sCmd != "ping" { … }` prologue -/
def preFilter (cfg : PCfg) (st : PState) (name : Bytes) (argv : List Bytes) (endOff : Nat) : Pre :=
  let adv : PState := { st with prevOff := endOff }
  if name != wPing then
    if Filter.eqFold name wSelect then
      match argv with
      | [a] =>
        match Filter.atoi? a with
        | none => .ret (st, .err .selectParse)
        | some n =>
          let b := cfg.filter.filterDb n
          if b then .ret ({ adv with bypass := b }, .none) else .go b n
      | _ => .ret (st, .err .selectArgs)
    else if cfg.filter.filterCmd name then .ret (adv, .none)
    else if Filter.eqFold name wPublish && !argv.isEmpty && Filter.eqFold (argv.headD []) wSentinelHello then
      .ret (adv, .none)
    else if st.bypass then .ret (adv, .none)
    else .go st.bypass (-1)
  else .go st.bypass (-1)

/-- from `FilterCmdKey` on: a data command -/
def stepData (cfg : PCfg) (st : PState) (name : Bytes) (argv : List Bytes) (endOff : Nat) : PState × StepOut :=
  let adv : PState := { st with prevOff := endOff }
  match cfg.filter.filterCmdKey name argv with
  | none => (adv, .none)
  | some newArgv =>
    if st.bypass then (adv, .none)
    else
      let cmd : Cmd := ⟨name, newArgv⟩
      if st.inTxn then ({ st with txn := st.txn ++ [cmd], prevOff := endOff }, .none)
      else if touchesNamespace cmd then (adv, .none)
      else
        match buildUnit cfg.mode cfg.resolver [cmd] with
        | .error e => (st, .err (.build e))
        | .ok u =>
          ({ st with prevOff := endOff, seq := st.seq + 1 }, .emit ⟨st.seq, st.prevOff, endOff, false, u⟩)

/-- one iteration of the parser loop on a decoded command. `name` is the
    lower-cased command name (`client.ParseArgs`), `endOff` its end offset. -/
def step (cfg : PCfg) (st : PState) (name : Bytes) (argv : List Bytes) (endOff : Nat) : PState × StepOut :=
  if name == wMulti then
    if st.inTxn then (st, .err .nestedMulti)
    else ({ st with inTxn := true, txnStart := st.prevOff, txn := [], prevOff := endOff }, .none)
  else if name == wExec then
    if !st.inTxn then (st, .err .execWithoutMulti)
    else if isMirroredTxn st.txn then
      ({ st with inTxn := false, txn := [], prevOff := endOff }, .none)
    else if st.txn.isEmpty then
      ({ st with inTxn := false, prevOff := endOff }, .none)
    else
      match buildUnit cfg.mode cfg.resolver st.txn with
      | .error e => (st, .err (.build e))
      | .ok u =>
        ({ st with inTxn := false, txn := [], prevOff := endOff, seq := st.seq + 1 },
         .emit ⟨st.seq, st.txnStart, endOff, true, u⟩)
  else
    match preFilter cfg st name argv endOff with
    | .ret r => r
    | .go bypass sel =>
      let st1 : PState := { st with bypass := bypass }
      if sel ≥ 0 then ({ st1 with prevOff := endOff }, .none)      -- SELECT is consumed by the parser
      else if name == wPing then ({ st1 with prevOff := endOff }, .none)
      else stepData cfg st1 name argv endOff

/-- a decoded command of the stream with its end offset -/
structure Item where
  cmd : Cmd
  endOff : Nat
  deriving DecidableEq, Repr

/-- run the parser over a finite stream: the emitted units, the state, and the
    error that stopped it (`none` = reached the end of the input, which the
    code reports as io.EOF, or as "unexpected EOF" inside a transaction) -/
def parse (cfg : PCfg) : PState → List Item → List Emit → List Emit × PState × Option PErr
  | st, [], acc => (acc.reverse, st, if st.inTxn then some .eofInTxn else none)
  | st, it :: rest, acc =>
    match step cfg st (lower it.cmd.name) it.cmd.args it.endOff with
    | (_, .err e) => (acc.reverse, st, some e)
    | (st', .none) => parse cfg st' rest acc
    | (st', .emit e) => parse cfg st' rest (e :: acc)

/-! ### stream blocks (what one execution at a master propagates) -/

/-- a stand-alone command, or a `MULTI … EXEC` block -/
inductive Block where
  | single (c : Cmd)
  | multi (cs : List Cmd)
  deriving DecidableEq, Repr

def mMulti : Cmd := ⟨wMulti, []⟩
def mExec : Cmd := ⟨wExec, []⟩

def Block.cmds : Block → List Cmd
  | .single c => [c]
  | .multi cs => mMulti :: cs ++ [mExec]

/-- the business payload of a block -/
def Block.body : Block → List Cmd
  | .single c => [c]
  | .multi cs => cs

/-- bytes of the RESP encoding `*<n>\r\n$<len>\r\n<bytes>\r\n…` of a command -/
def respLen (c : Cmd) : Nat :=
  1 + (natToDec (c.args.length + 1)).length + 2 +
    ((c.name :: c.args).map (fun a => 1 + (natToDec a.length).length + 2 + a.length + 2)).sum

/-- the commands of a block as the parser meets them: end offsets are byte
    offsets of the encoded stream from `off` -/
def items (off : Nat) : List Cmd → List Item
  | [] => []
  | c :: cs => ⟨c, off + respLen c⟩ :: items (off + respLen c) cs

def parseBlock (cfg : PCfg) (st : PState) (b : Block) : List Emit × PState × Option PErr :=
  parse cfg st (items st.prevOff b.cmds) []

/-! ### bookkeeping traffic (stand-alone commands the tool writes) -/

def wHdel : Bytes := [104,100,101,108]
def wHsetnx : Bytes := [104,115,101,116,110,120]
def wZrem : Bytes := [122,114,101,109]
def checkpointHashKey : Bytes := Gen.checkpointKey ++ [45,104,97,115,104]    -- "redis-gunyu-checkpoint-hash"

/-- every stand-alone request of the tool's bookkeeping, as the code issues it
    (`cp` = checkpoint name, `tag` = slot tag, payloads are opaque) -/
inductive Bookkeeping where
  | frontierSave (cp : Bytes) (fields : List Bytes)       -- SaveBisyncFrontierSnapshot: HSET <cp>:frontier …
  | journalDel (cp tag : Bytes) (seq : Nat)               -- DeleteBisyncCommitKeys: DEL <commit record>
  | indexRem (cp tag : Bytes) (members : List Bytes)      -- ZREM <index> members…
  | markerExpiry (cp tag : Bytes) (unlink : Bool)         -- Redis expiring a marker: DEL / UNLINK <marker>
  | cpHashSet (runId cpName : Bytes) (nx : Bool)          -- HSET / HSETNX redis-gunyu-checkpoint-hash
  | cpHashDel (runId : Bytes)                             -- HDEL redis-gunyu-checkpoint-hash
  | rootSet (cp : Bytes) (fields : List Bytes)            -- HSET <cp> … (SetCheckpoint, UpdateCheckpoint, namespace mode)
  | rootHdel (cp : Bytes) (fields : List Bytes)           -- HDEL <cp> fields… (DelCheckpoint, DelStaleCheckpoint, UpdateCheckpoint)
  | latestSeed (cp tag : Bytes) (fields : List Bytes)     -- HSET <latest> … (namespace seed)
  | latestDel (cp tag : Bytes)                            -- DEL <latest> (namespace cleanup)
  | rootDel (cp : Bytes)                                  -- DEL <cp> / <cp>:frontier (cleanup)
  | frontierDel (cp : Bytes)                              -- DEL <cp>:frontier (a start that falls back to the root checkpoint drops the snapshot)
  | markerDel (cp tag : Bytes)                            -- DEL <marker>, ALONE in its DEL (cleanupBisyncNamespace of a retired namespace)
  | nsDel (cp : Bytes) (keys : List Bytes)                -- DEL <latest / index / journal keys …> of a retired namespace, several per DEL

def Bookkeeping.toCmd : Bookkeeping → Cmd
  | .frontierSave cp fields => ⟨wHset, Gen.frontierKey cp :: fields⟩
  | .journalDel cp tag seq => ⟨wDel, [Gen.commitRecordKey cp tag seq]⟩
  | .indexRem cp tag members => ⟨wZrem, Gen.commitIndexKey cp tag :: members⟩
  | .markerExpiry cp tag unlink => ⟨if unlink then wUnlink else wDel, [Gen.markerKey cp tag]⟩
  | .cpHashSet runId cpName nx => ⟨if nx then wHsetnx else wHset, [checkpointHashKey, runId, cpName]⟩
  | .cpHashDel runId => ⟨wHdel, [checkpointHashKey, runId]⟩
  | .rootSet cp fields => ⟨wHset, cp :: fields⟩
  | .rootHdel cp fields => ⟨wHdel, cp :: fields⟩
  | .latestSeed cp tag fields => ⟨wHset, Gen.latestKey cp tag :: fields⟩
  | .latestDel cp tag => ⟨wDel, [Gen.latestKey cp tag]⟩
  | .rootDel cp => ⟨wDel, [cp, Gen.frontierKey cp]⟩
  | .frontierDel cp => ⟨wDel, [Gen.frontierKey cp]⟩
  | .markerDel cp tag => ⟨wDel, [Gen.markerKey cp tag]⟩
  | .nsDel _ keys => ⟨wDel, keys⟩

/-- a control key of namespace `cp` that never carries an expiry: the latest
    record, the commit index or a journal record of some slot tag -/
def PlainNsKey (cp k : Bytes) : Prop :=
  ∃ tag, k = Gen.latestKey cp tag ∨ k = Gen.commitIndexKey cp tag ∨ ∃ seq, k = Gen.commitRecordKey cp tag seq

/-- the checkpoint names the tool generates: `redis-gunyu-checkpoint…`,
    brace-free (`NewBisyncCheckpointName`: prefix + ":" + hex) -/
def ValidCp (cp : Bytes) : Prop := Gen.checkpointKey <+: cp ∧ Slot.lbrace ∉ cp

end GunYu.Bisync
