/-
  C05, memory backend — the window inside `MemoryChannel.NewAofWritter`.

  The code replaces a stream writer in TWO lock sections: (1) the new segment is
  appended to the index and `mc.aofWriter` is set to the new writer; (2)
  `old.Close()` → `finishAof(old)`. Model/Store.lean takes both as ONE step
  (`.newAofWriter`). In between, a replaced writer that was blocked in
  `ensureCapacityLocked` and is woken by `spaceNotify` re-checks only CAPACITY — not
  `mc.aofWriter != writer` — and appends the piece it was waiting with to ITS segment,
  which is no longer the last one of the index; at the top of its loop it then sees
  that it was replaced and returns `io.EOF`.

  `MemW` = `Mem` + the replaced writer that has not been finished yet; `WOp` = every
  operation of the memory model (`base`), plus the three steps of the window:
  `install` (first section), `oldWake` (the stray append), `finishOld` (second section).
-/
import GunYu.Model.Store

namespace GunYu.Store
open GunYu

/-- a replaced stream writer between the two lock sections: its current segment and
    the piece (`buf[:space]`) it is blocked on in `ensureCapacityLocked`, if it is -/
structure OldW where
  sid : Nat
  piece : Option Bytes
deriving Repr, DecidableEq

structure MemW where
  s : Mem
  old : Option OldW
deriving Repr

def MemW.init (logSize maxSize : Nat) : MemW := { s := Mem.init logSize maxSize, old := none }

/-- first lock section of `NewAofWritter`: refuse a discontinuous offset, append the
    new segment, install the new writer (`none` = refused) -/
def Mem.installWriter (s : Mem) (off : Nat) : Option Mem :=
  match mLastRight s.segs with
  | some r =>
    if r != off then none else
    some { s with segs := s.segs ++ [{ sid := s.nextSid, left := off, data := [], closed := false, next := none }],
                  aofW := some s.nextSid, nextSid := s.nextSid + 1 }
  | none =>
    some { s with segs := [{ sid := s.nextSid, left := off, data := [], closed := false, next := none }],
                  aofW := some s.nextSid, nextSid := s.nextSid + 1, hbase := off, hist := [] }

/-- the piece a stream writer blocked on capacity is waiting to append -/
def Mem.blockedPiece (s : Mem) : Option Bytes :=
  match s.pendA, s.aofW with
  | some buf, some cur =>
    (match mFind s.segs cur with
     | some seg => some (buf.take (pieceSpace s.logSize seg.data.length buf.length).1)
     | none => none)
  | _, _ => none

inductive WOp where
  | base (o : MOp)
  | install (off : Nat)
  | oldWake
  | finishOld
deriving Repr, DecidableEq

def MemW.step (w : MemW) : WOp → MemW × Out
  | .base o => let (s', out) := w.s.step o; ({ w with s := s' }, out)
  | .install off =>
    -- `NewAofWritter` is called from one goroutine: the previous call's `old.Close()` has returned
    if w.old.isSome then (w, .none) else
    match w.s.installWriter off with
    | none => (w, .refused)
    | some s1 =>
      (match w.s.aofW with
       | some cur => ({ s := { s1 with pendA := none }, old := some ⟨cur, w.s.blockedPiece⟩ }, .ok)
       | none => ({ s := s1, old := none }, .ok))
  | .oldWake =>
    match w.old with
    | some ⟨o, some piece⟩ =>
      let (s2, fits) := w.s.ensure piece.length
      if !fits then ({ w with s := s2 }, .blocked 0)           -- still no room: it waits again
      else
        (match mFind s2.segs o with
         | some _ =>
           ({ s := { s2 with segs := mUpdate s2.segs o (fun g => { g with data := g.data ++ piece }),
                             total := s2.total + piece.length },
              old := some ⟨o, none⟩ }, .ok)
         | none => ({ s := s2, old := some ⟨o, none⟩ }, .errEof))  -- its segment was reset away: `append` returns 0
    | _ => (w, .none)
  | .finishOld =>
    match w.old with
    | some ⟨o, _⟩ => ({ s := { (w.s.finishAof o false) with pendA := w.s.pendA }, old := none }, .ok)
    | none => (w, .none)

def MemW.run (w : MemW) : List WOp → MemW
  | [] => w
  | op :: rest => ((w.step op).1).run rest

end GunYu.Store
