/-
  How the `sendCmdsBatch` loop TERMINATES (syncer/output.go, the `for { select {…} }`
  at the end of `sendCmdsBatch`).

  `Model/Sender.lean` models one iteration (`step`) and a run that stops after the
  `case <-replayWait.Done()` iteration (`Ev.done`, `run`). The Go loop, however,
  leaves in more ways. `replayWait` is closed by the parser goroutine (EOF, parse
  error) or by context cancellation at ANY moment, and the loop ends every
  iteration with

        if replayWait.IsClosed() { return nil }

  so a run ends in one of these ways:

  (1) `doneCase`   the `replayWait.Done()` case wins the select: in ticker
                   (non-transactional) mode it forces a final flush with
                   checkpoint, then the `IsClosed()` test returns.
  (2) `otherCase`  `replayWait` is closed already, but ANOTHER ready case wins the
                   select (an item still in `sendBuf`, a ticker that is due) -- Go's
                   select picks among the ready cases at random --, or
  (3)              `replayWait` gets closed WHILE an iteration (any case) runs:
                   that iteration runs as usual, then `IsClosed()` is true and the
                   loop returns WITHOUT the final flush. What is queued is not sent
                   in this run.
  (4) `atOnce`     the loop returns without a further iteration: the state is the
                   one after the iterations so far. (The degenerate reading of
                   (2)/(3) where the deciding iteration is counted among `evs`;
                   also `case item, ok := <-sendBuf; if !ok { return nil }` --
                   dead code today, nobody closes `sendBuf`.)

  (2) and (3) are the same for the model: the last iteration is that of an ordinary
  event `ev`, and no flush follows. The model is deliberately LARGER than the Go
  loop in one respect: an iteration that ends in `continue` (a keep-alive `ping`
  item; a `MULTI` in ticker mode) skips the `IsClosed()` test, so Go cannot leave
  right after it -- it goes round once more. `otherCase` allows such an `ev` too
  (the state is then simply the one in which Go performs its next iteration, and
  that iteration is again one of (1)-(4)). Every theorem of `Props/C01Exit.lean`
  holds for EVERY `Leave`, hence for the real ones.

  Returns with an error (`sendFunc` failed) are not modelled here: the target is
  healthy (as everywhere in `Model/Sender.lean`).
-/
import GunYu.Model.Sender

namespace GunYu.Sender
open GunYu

/-- which select case the Go loop handled last, once `replayWait` was closed (or
    got closed while it ran) -/
inductive Leave
  /-- `case <-replayWait.Done()`: final flush in ticker mode, then return -/
  | doneCase
  /-- any other case won the select / was running when `replayWait` got closed:
      its iteration, then `IsClosed()` → return, NO final flush -/
  | otherCase (ev : Ev)
  /-- return with the state after the iterations so far (no last event) -/
  | atOnce
  deriving DecidableEq, Repr

/-- the event of the last iteration, as a schedule suffix -/
def lastEv : Leave → List Ev
  | .doneCase => [.done]
  | .otherCase ev => [ev]
  | .atOnce => []

/-- `otherCase` is meant for the cases other than `replayWait.Done()`
    (`otherCase .done` behaves exactly like `doneCase`) -/
def Leave.proper : Leave → Prop
  | .otherCase ev => ev ≠ .done
  | _ => True

/-- the last iteration of the loop and the return: the `Done` case is `step … .done`
    (final flush with checkpoint when `!inTransaction && !transactionBatch`), any
    other case is its ordinary iteration; nothing is flushed on the way out -/
def leaveStep (c : SCfg) (s : SState) : Leave → SState × List Batch
  | .doneCase => step c s .done
  | .otherCase ev => step c s ev
  | .atOnce => (s, [])

/-- one complete execution of `sendCmdsBatch`: the iterations for `evs` (none of
    them the `Done` case: the loop would have returned), one after the other, and
    then the way it leaves. Result: the loop's variables at the `return` and the
    batches put on the wire, in order. -/
def runLeave (c : SCfg) : SState → List Ev → Leave → SState × List Batch
  | s, [], l => leaveStep c s l
  | s, ev :: rest, l =>
    let r := step c s ev
    let r' := runLeave c r.1 rest l
    (r'.1, r.2 ++ r'.2)

/-- what the run received, kept, and did not send: `cmdQueue` at the `return` -/
def unsent (r : SState × List Batch) : List Item := r.1.queue

end GunYu.Sender
