/-
  C04 — the frame (opcode) level of a snapshot as `rdb.ParseRdb` reads it:
  header, opcodes, where each value ends, EOF opcode, footer, and — REPAIRED
  behaviour for D19 — "after the footer the input must be exhausted".

  Transcribes, as far as the *consumption of bytes and the accept/reject
  decision* go,

    pkg/rdb/rdb.go      ParseRdb (Header, Next loop, Footer, Done)
    pkg/rdb/loader.go   Loader.Header, Loader.Next (opcode switch), Loader.Footer
    pkg/rdb/reader.go   readEncodedLength, ReadLength(64), ReadString
    pkg/rdb/rdb_object.go  <Type>Parser.ReadBuffer (how many bytes a value occupies)

  Values are NOT decoded here (that is C03, Model/Rdb/*): a value is skipped the
  way `ReadBuffer` walks over it. Constructs whose walk needs more than lengths
  and strings — LZF-compressed strings (the walk decompresses), text floats of
  the old zset encoding (strconv.ParseFloat), streams, modules, module-aux —
  make the result `unsup`: the model does not decide such an input (the harness
  classifies inputs with the same rule and only monitors them).
  Chunking (`maxBinEntryBuffer`) does not change which bytes are consumed nor the
  decision, only how many entries a hash is delivered in; inputs here are far
  below the 16 MiB threshold, so one value = one entry.

  Core Lean only.
-/
import GunYu.Basic.Bytes
import GunYu.Model.Rdb.Crc64

namespace GunYu.RdbFrame
open GunYu

/-- result of a sequential reader: value and remaining input, an error (short
    read or malformed — the Go code panics/returns an error), or "outside the
    modelled grammar" -/
inductive R (α : Type) where
  | ok (a : α) (rest : Bytes)
  | err
  | unsup
  deriving Repr

abbrev Rd (α : Type) := Bytes → R α

def u8 : Rd UInt8
  | [] => .err
  | b :: rest => .ok b rest

/-- `readFull` of exactly `n` bytes -/
def takeN (n : Nat) : Rd Bytes := fun xs =>
  if n ≤ xs.length then .ok (xs.take n) (xs.drop n) else .err

def beNat : Bytes → Nat
  | [] => 0
  | b :: rest => b.toNat * 256 ^ rest.length + beNat rest

/-- `readEncodedLength`: (length, encoded) -/
def encLen : Rd (Nat × Bool) := fun xs =>
  match u8 xs with
  | .ok u rest =>
    let t := u.toNat / 64
    if t = 0 then .ok (u.toNat % 64, false) rest
    else if t = 1 then
      match u8 rest with
      | .ok u2 rest2 => .ok ((u.toNat % 64) * 256 + u2.toNat, false) rest2
      | .err => .err
      | .unsup => .unsup
    else if t = 3 then .ok (u.toNat % 64, true) rest
    else if u = 0x80 then
      match takeN 4 rest with
      | .ok bs rest2 => .ok (beNat bs, false) rest2
      | .err => .err
      | .unsup => .unsup
    else if u = 0x81 then
      match takeN 8 rest with
      | .ok bs rest2 => .ok (beNat bs, false) rest2
      | .err => .err
      | .unsup => .unsup
    else .err                                          -- "unknown encoding type"
  | .err => .err
  | .unsup => .unsup

/-- `ReadLength` / `ReadLength64`: an encoded (string) marker is an error. The
    value is returned in full; callers that use `ReadLength` as a loop count see
    it truncated to 32 bits (`len32`). -/
def len : Rd Nat := fun xs =>
  match encLen xs with
  | .ok (n, enc) rest => if enc then .err else .ok n rest
  | .err => .err
  | .unsup => .unsup

def len32 : Rd Nat := fun xs =>
  match len xs with
  | .ok n rest => .ok (n % 4294967296) rest
  | .err => .err
  | .unsup => .unsup

/-- walk over one string (`ReadString`): raw bytes, int8/16/32; LZF is outside the model -/
def str : Rd Unit := fun xs =>
  match encLen xs with
  | .ok (n, enc) rest =>
    if !enc then
      match takeN n rest with
      | .ok _ r => .ok () r
      | .err => .err
      | .unsup => .unsup
    else if n = 0 then (match takeN 1 rest with | .ok _ r => .ok () r | .err => .err | .unsup => .unsup)
    else if n = 1 then (match takeN 2 rest with | .ok _ r => .ok () r | .err => .err | .unsup => .unsup)
    else if n = 2 then (match takeN 4 rest with | .ok _ r => .ok () r | .err => .err | .unsup => .unsup)
    else if n = 3 then .unsup                             -- rdbEncLZF
    else .err                                             -- "invalid encoded-string"
  | .err => .err
  | .unsup => .unsup

/-- run `r` then `k` -/
def andThen {α β} (r : Rd α) (k : α → Rd β) : Rd β := fun xs =>
  match r xs with
  | .ok a rest => k a rest
  | .err => .err
  | .unsup => .unsup

def skip {α} (r : Rd α) : Rd Unit := andThen r (fun _ rest => .ok () rest)

/-- `for i := 0; i < n; i++ { r }` -/
def repeatN : Nat → Rd Unit → Rd Unit
  | 0, _ => fun xs => .ok () xs
  | n+1, r => andThen r (fun _ => repeatN n r)

def skipBytes (n : Nat) : Rd Unit := skip (takeN n)

/-- how `<Type>Parser.ReadBuffer` walks over the value of RDB type `t` (after the key) -/
def valueBody (t : Nat) : Rd Unit :=
  if t = 0 ∨ t = 9 ∨ t = 10 ∨ t = 11 ∨ t = 12 ∨ t = 13 ∨ t = 16 ∨ t = 17 ∨ t = 20 then str
  else if t = 1 ∨ t = 2 ∨ t = 14 then andThen len32 (fun n => repeatN n str)
  else if t = 18 then andThen len32 (fun n => repeatN n (andThen (skip len) (fun _ => str)))
  else if t = 4 then andThen len32 (fun n => repeatN n (andThen str (fun _ => str)))
  else if t = 5 then andThen len32 (fun n => repeatN n (andThen str (fun _ => skipBytes 8)))
  else if t = 6 then fun _ => .err                          -- "does not support module type 1"
  else fun _ => .unsup                                      -- 3, 7, 15, 19, 21, 26

def knownType (t : Nat) : Bool :=
  t ≤ 7 || (9 ≤ t && t ≤ 21) || t = 26

inductive Item | entry | other | eofOp
  deriving DecidableEq, Repr

/-- one iteration of the `Loader.Next` opcode switch -/
def item : Rd Item := fun xs =>
  match u8 xs with
  | .ok op rest =>
    let t := op.toNat
    if t = 0xFF then .ok Item.eofOp rest
    else if t = 0xFE ∨ t = 0xF8 then andThen len (fun _ r => .ok Item.other r) rest                 -- SELECTDB, IDLE
    else if t = 0xFB then andThen len (fun _ => andThen len (fun _ r => .ok Item.other r)) rest       -- RESIZEDB
    else if t = 0xFC then andThen (takeN 8) (fun _ r => .ok Item.other r) rest                        -- EXPIRETIME_MS
    else if t = 0xFD then andThen (takeN 4) (fun _ r => .ok Item.other r) rest                        -- EXPIRETIME
    else if t = 0xF9 then andThen (takeN 1) (fun _ r => .ok Item.other r) rest                        -- FREQ
    else if t = 0xF4 then andThen len (fun _ => andThen len (fun _ => andThen len (fun _ r => .ok Item.other r))) rest  -- SLOTINFO
    else if t = 0xFA then andThen str (fun _ => andThen str (fun _ r => .ok Item.entry r)) rest      -- AUX key, value
    else if t = 0xF5 then andThen str (fun _ r => .ok Item.entry r) rest                             -- FUNCTION2
    else if t = 0xF7 then .unsup                                                                   -- MODULE_AUX
    else if knownType t then andThen str (fun _ => andThen (valueBody t) (fun _ r => .ok Item.entry r)) rest
    else .err                                                                                      -- "unknown type"
  | .err => .err
  | .unsup => .unsup

inductive Outcome
  | done (entries : Nat)        -- `Done` emitted after `entries` entries
  | err (entries : Nat)         -- an `Err` entry after `entries` entries
  | unsup
  | fuelOut                     -- never (theorem `parse_total`)
  deriving DecidableEq, Repr

/-- `Loader.Footer` followed by the exhaustion rule; `all` is the whole input,
    `rest` what follows the EOF opcode -/
def footer (all rest : Bytes) (cnt : Nat) : Outcome :=
  match takeN 8 rest with
  | .ok crcBytes rest' =>
    let crc2 := Rdb.ofLE crcBytes
    let crc1 := (Rdb.crc64Tab (all.take (all.length - rest.length))).toNat
    if crc2 ≠ 0 ∧ crc1 ≠ crc2 then .err cnt               -- "checksum validation error"
    else if rest' ≠ [] then .err cnt                       -- D19 repair: bytes after the footer
    else .done cnt
  | _ => .err cnt

def body : Nat → Bytes → Bytes → Nat → Outcome
  | 0, _, _, _ => .fuelOut
  | fuel+1, all, xs, cnt =>
    match item xs with
    | .ok Item.eofOp rest => footer all rest cnt
    | .ok Item.entry rest => body fuel all rest (cnt + 1)
    | .ok Item.other rest => body fuel all rest cnt
    | .err => .err cnt
    | .unsup => .unsup

def sREDIS : Bytes := [82, 69, 68, 73, 83]

/-- `strconv.ParseInt(s, 10, 64)` on the 4 version bytes: optional sign, digits -/
def versionOf (v : Bytes) : Option Int :=
  match v with
  | 43 :: ds => (decToNat? ds).map Int.ofNat
  | 45 :: ds => (decToNat? ds).map (fun n => - Int.ofNat n)
  | ds => (decToNat? ds).map Int.ofNat

/-- `Loader.Header` with `RdbVersion = maxVer` -/
def header (maxVer : Nat) : Rd Unit := fun xs =>
  match takeN 9 xs with
  | .ok h rest =>
    if h.take 5 ≠ sREDIS then .err
    else match versionOf (h.drop 5) with
      | some v => if v ≤ 0 ∨ v > maxVer then .err else .ok () rest
      | none => .err
  | _ => .err

/-- `ParseRdb` -/
def parse (maxVer : Nat) (f : Bytes) : Outcome :=
  match header maxVer f with
  | .ok _ rest => body (rest.length + 1) f rest 0
  | .err => .err 0
  | .unsup => .unsup

end GunYu.RdbFrame
