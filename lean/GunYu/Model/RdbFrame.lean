/-
  C04 — the frame (opcode) level of a snapshot as `rdb.ParseRdb` reads it:
  header, opcodes, where each value ends, EOF opcode, footer, and — REPAIRED
  behaviour for D19 — "after the footer the input must be exhausted".

  Transcribes, as far as the *consumption of bytes and the accept/reject
  decision* go,

    pkg/rdb/rdb.go      ParseRdb (Header, Next loop, Footer, Done)
    pkg/rdb/loader.go   Loader.Header, Loader.Next (opcode switch), Loader.Footer
    pkg/rdb/reader.go   readEncodedLength, ReadLength(64), ReadString
    pkg/rdb/rdb_object.go  <Type>Parser.ReadBuffer (how many bytes a value occupies)

  Values are NOT decoded here (that is C03, Model/Rdb/*): a value is skipped the
  way `ReadBuffer` walks over it. Constructs whose walk needs more than lengths
  and strings — LZF-compressed strings (the walk decompresses), text floats of
  the old zset encoding (strconv.ParseFloat), streams, modules, module-aux —
  make the result `unsup`: the model does not decide such an input (the harness
  classifies inputs with the same rule and only monitors them).
  Chunking (`maxBinEntryBuffer`) does not change which bytes are consumed nor the
  decision, only how many entries a hash is delivered in; inputs here are far
  below the 16 MiB threshold, so one value = one entry.

  (Session 4: Model/RdbFrameX.lean extends this grammar with everything that is
  `unsup` here — LZF strings, streams, modules, module-aux, text floats — and with
  the chunk continuation as state of the item reader; the definitions below are
  kept, the theorems without suffix speak about them.)

  Core Lean only.
-/
import GunYu.Basic.Bytes
import GunYu.Model.Rdb.Crc64

namespace GunYu.RdbFrame
open GunYu

/-- result of a sequential reader: value and remaining input, an error (short
    read or malformed — the Go code panics/returns an error), or "outside the
    modelled grammar" -/
inductive R (α : Type) where
  | ok (a : α) (rest : Bytes)
  | err
  | unsup
  deriving Repr

abbrev Rd (α : Type) := Bytes → R α

def u8 : Rd UInt8
  | [] => .err
  | b :: rest => .ok b rest

/-- `readFull` of exactly `n` bytes -/
def takeN (n : Nat) : Rd Bytes := fun xs =>
  if n ≤ xs.length then .ok (xs.take n) (xs.drop n) else .err

def beNat : Bytes → Nat
  | [] => 0
  | b :: rest => b.toNat * 256 ^ rest.length + beNat rest

/-- run `r` then `k` -/
def andThen {α β} (r : Rd α) (k : α → Rd β) : Rd β := fun xs =>
  match r xs with
  | .ok a rest => k a rest
  | .err => .err
  | .unsup => .unsup

def ret {α} (a : α) : Rd α := fun xs => .ok a xs
def fail {α} : Rd α := fun _ => .err
def outside {α} : Rd α := fun _ => .unsup

/-- `readEncodedLength`: (length, encoded) -/
def encLen : Rd (Nat × Bool) :=
  andThen u8 (fun u =>
    let t := u.toNat / 64
    if t = 0 then ret (u.toNat % 64, false)
    else if t = 1 then andThen u8 (fun u2 => ret ((u.toNat % 64) * 256 + u2.toNat, false))
    else if t = 3 then ret (u.toNat % 64, true)
    else if u = 0x80 then andThen (takeN 4) (fun bs => ret (beNat bs, false))
    else if u = 0x81 then andThen (takeN 8) (fun bs => ret (beNat bs, false))
    else fail)                                             -- "unknown encoding type"

/-- `ReadLength` / `ReadLength64`: an encoded (string) marker is an error. The
    value is returned in full; callers that use `ReadLength` as a loop count see
    it truncated to 32 bits (`len32`). -/
def len : Rd Nat :=
  andThen encLen (fun p => if p.2 then fail else ret p.1)

def len32 : Rd Nat :=
  andThen len (fun n => ret (n % 4294967296))

def skipBytes (n : Nat) : Rd Unit := andThen (takeN n) (fun _ => ret ())

/-- walk over one string (`ReadString`): raw bytes, int8/16/32; LZF is outside the model -/
def str : Rd Unit :=
  andThen encLen (fun p =>
    if !p.2 then skipBytes p.1
    else if p.1 = 0 then skipBytes 1
    else if p.1 = 1 then skipBytes 2
    else if p.1 = 2 then skipBytes 4
    else if p.1 = 3 then outside                           -- rdbEncLZF
    else fail)                                             -- "invalid encoded-string"

/-- `for i := 0; i < n; i++ { r }` -/
def repeatN : Nat → Rd Unit → Rd Unit
  | 0, _ => ret ()
  | n+1, r => andThen r (fun _ => repeatN n r)

/-- how `<Type>Parser.ReadBuffer` walks over the value of RDB type `t` (after the key) -/
def valueBody (t : Nat) : Rd Unit :=
  if t = 0 ∨ t = 9 ∨ t = 10 ∨ t = 11 ∨ t = 12 ∨ t = 13 ∨ t = 16 ∨ t = 17 ∨ t = 20 then str
  else if t = 1 ∨ t = 2 ∨ t = 14 then andThen len32 (fun n => repeatN n str)
  else if t = 18 then andThen len32 (fun n => repeatN n (andThen len (fun _ => str)))
  else if t = 4 then andThen len32 (fun n => repeatN n (andThen str (fun _ => str)))
  else if t = 5 then andThen len32 (fun n => repeatN n (andThen str (fun _ => skipBytes 8)))
  else if t = 6 then fail                                   -- "does not support module type 1"
  else outside                                              -- 3, 7, 15, 19, 21, 26

def knownType (t : Nat) : Bool :=
  t ≤ 7 || (9 ≤ t && t ≤ 21) || t = 26

inductive Item | entry | other | eofOp
  deriving DecidableEq, Repr

/-- the `Loader.Next` opcode switch for opcode / type byte `t` -/
def itemOf (t : Nat) : Rd Item :=
  if t = 0xFF then ret Item.eofOp
  else if t = 0xFE ∨ t = 0xF8 then andThen len (fun _ => ret Item.other)                         -- SELECTDB, IDLE
  else if t = 0xFB then andThen len (fun _ => andThen len (fun _ => ret Item.other))              -- RESIZEDB
  else if t = 0xFC then andThen (takeN 8) (fun _ => ret Item.other)                               -- EXPIRETIME_MS
  else if t = 0xFD then andThen (takeN 4) (fun _ => ret Item.other)                               -- EXPIRETIME
  else if t = 0xF9 then andThen (takeN 1) (fun _ => ret Item.other)                               -- FREQ
  else if t = 0xF4 then andThen len (fun _ => andThen len (fun _ => andThen len (fun _ => ret Item.other)))  -- SLOTINFO
  else if t = 0xFA then andThen str (fun _ => andThen str (fun _ => ret Item.entry))              -- AUX key, value
  else if t = 0xF5 then andThen str (fun _ => ret Item.entry)                                     -- FUNCTION2
  else if t = 0xF7 then outside                                                                     -- MODULE_AUX
  else if knownType t then andThen str (fun _ => andThen (valueBody t) (fun _ => ret Item.entry))
  else fail                                                                                         -- "unknown type"

/-- one iteration of `Loader.Next`: opcode byte, then its operands -/
def item : Rd Item := andThen u8 (fun op => itemOf op.toNat)

inductive Outcome
  | done (entries : Nat)        -- `Done` emitted after `entries` entries
  | err (entries : Nat)         -- an `Err` entry after `entries` entries
  | unsup
  | fuelOut                     -- never (theorem `parse_total`)
  deriving DecidableEq, Repr

/-- `Loader.Footer` followed by the exhaustion rule; `all` is the whole input,
    `rest` what follows the EOF opcode -/
def footer (all rest : Bytes) (cnt : Nat) : Outcome :=
  match takeN 8 rest with
  | .ok crcBytes rest' =>
    -- crc2 = the footer, crc1 = CRC64 of every byte read so far (header … EOF opcode)
    if Rdb.ofLE crcBytes ≠ 0 ∧ (Rdb.crc64Tab (all.take (all.length - rest.length))).toNat ≠ Rdb.ofLE crcBytes
    then .err cnt                                          -- "checksum validation error" (0 = checksum disabled)
    else if rest' ≠ [] then .err cnt                       -- D19 repair: bytes after the footer
    else .done cnt
  | _ => .err cnt

/-- the `ParseRdb` loop over ANY item reader (the theorems need of it only that
    it is sequential, consumes its opcode, and reports EOF for the byte 0xFF) -/
def bodyWith (item : Rd Item) : Nat → Bytes → Bytes → Nat → Outcome
  | 0, _, _, _ => .fuelOut
  | fuel+1, all, xs, cnt =>
    match item xs with
    | .ok Item.eofOp rest => footer all rest cnt
    | .ok Item.entry rest => bodyWith item fuel all rest (cnt + 1)
    | .ok Item.other rest => bodyWith item fuel all rest cnt
    | .err => .err cnt
    | .unsup => .unsup

def body : Nat → Bytes → Bytes → Nat → Outcome := bodyWith item

def sREDIS : Bytes := [82, 69, 68, 73, 83]

/-- `strconv.ParseInt(s, 10, 64)` on the 4 version bytes: optional sign, digits -/
def versionOf (v : Bytes) : Option Int :=
  match v with
  | 43 :: ds => (decToNat? ds).map Int.ofNat
  | 45 :: ds => (decToNat? ds).map (fun n => - Int.ofNat n)
  | ds => (decToNat? ds).map Int.ofNat

/-- `Loader.Header` with `RdbVersion = maxVer` -/
def header (maxVer : Nat) : Rd Unit :=
  andThen (takeN 9) (fun h =>
    if h.take 5 ≠ sREDIS then fail
    else match versionOf (h.drop 5) with
      | some v => if v ≤ 0 ∨ v > maxVer then fail else ret ()
      | none => fail)

/-- `ParseRdb` over any item reader -/
def parseWith (item : Rd Item) (maxVer : Nat) (f : Bytes) : Outcome :=
  match header maxVer f with
  | .ok _ rest => bodyWith item (rest.length + 1) f rest 0
  | .err => .err 0
  | .unsup => .unsup

/-- `ParseRdb` with the modelled opcode grammar -/
def parse (maxVer : Nat) (f : Bytes) : Outcome := parseWith item maxVer f

end GunYu.RdbFrame
