/-
  C13 — the two sites and the two links.

  * `propagate`  : TRUSTED TRANSCRIPTION of what a Redis master writes to its
                   replication stream for a command executed on a store
                   (DESIGN.md §4 item 2): relative expiries become absolute
                   (`SET … EX/PX` → `SET … PXAT`, `(P)EXPIRE(AT)` → `PEXPIREAT`,
                   `RESTORE ttl` → `RESTORE abs … ABSTTL`), commands that change
                   nothing are omitted, a key found logically expired on a write
                   lookup is deleted and `DEL`/`UNLINK key` is propagated AHEAD of
                   the command that touched it, an expiry in the past deletes.
                   `RedisCfg` ranges over the version/config-dependent choices.
  * `toBlocks`   : how the effects of one execution reach the stream
                   (Redis ≥ 7: wrapped in MULTI/EXEC iff more than one command;
                   before: as they happen, a client MULTI/EXEC kept).
  * `World`      : sites A and B (store, clock, stream of tagged blocks), links
                   A→B and B→A (parser over the source stream, commit at the
                   destination), events in any interleaving.
  Core Lean only.
-/
import GunYu.Model.Bisync

namespace GunYu.Bisync
open GunYu GunYu.BisyncUnit

/-! ### store -/

inductive Kind where
  | str | hash | set | zset | list | other
  deriving DecidableEq, Repr

structure Entry where
  kind : Kind
  members : List Bytes := []      -- hash fields / set members / zset members
  expireAt : Option Nat := none   -- absolute, ms
  deriving DecidableEq, Repr

abbrev Store := List (Bytes × Entry)

def Store.get (s : Store) (k : Bytes) : Option Entry := s.lookup k
def Store.del (s : Store) (k : Bytes) : Store := s.filter (fun p => p.1 != k)
def Store.put (s : Store) (k : Bytes) (e : Entry) : Store := (k, e) :: Store.del s k

/-- version / configuration dependent choices of the master -/
structure RedisCfg where
  lazyUnlink : Bool     -- lazyfree-lazy-expire: expired keys propagate as UNLINK
  atomicUnits : Bool    -- Redis ≥ 7 propagation (effects of one execution wrapped iff > 1)
  setPxat : Bool        -- SET … EX/PX/EXAT propagated as SET … PXAT <absolute ms>
  deriving DecidableEq, Repr

def wPexpireat : Bytes := [112,101,120,112,105,114,101,97,116]
def wPxat : Bytes := [80,88,65,84]
def wAbsttl : Bytes := [65,66,83,84,84,76]

def delCmd (cfg : RedisCfg) (k : Bytes) : Cmd := ⟨if cfg.lazyUnlink then wUnlink else wDel, [k]⟩

/-- `expireIfNeeded` on a write lookup -/
def lazyExpire (cfg : RedisCfg) (now : Nat) (st : Store) (k : Bytes) : Store × List Cmd :=
  match st.get k with
  | some e =>
    match e.expireAt with
    | some t => if t ≤ now then (Store.del st k, [delCmd cfg k]) else (st, [])
    | none => (st, [])
  | none => (st, [])

def lazyExpireAll (cfg : RedisCfg) (now : Nat) : Store → List Bytes → Store × List Cmd
  | st, [] => (st, [])
  | st, k :: ks =>
    let (st1, e1) := lazyExpire cfg now st k
    let (st2, e2) := lazyExpireAll cfg now st1 ks
    (st2, e1 ++ e2)

/-! ### SET options -/

structure SetOpts where
  nx : Bool := false
  xx : Bool := false
  get : Bool := false
  keepttl : Bool := false
  exp : Option Nat := none      -- absolute ms
  bad : Bool := false
  deriving DecidableEq, Repr

def uNX : Bytes := [78,88]
def uXX : Bytes := [88,88]
def uGET : Bytes := [71,69,84]
def uKEEPTTL : Bytes := [75,69,69,80,84,84,76]
def uEX : Bytes := [69,88]
def uPX : Bytes := [80,88]
def uEXAT : Bytes := [69,88,65,84]
def uPXAT : Bytes := [80,88,65,84]

def parseSetOpts (now : Nat) : List Bytes → SetOpts → SetOpts
  | [], o => o
  | a :: rest, o =>
    let u := Filter.upper a
    if u == uNX then parseSetOpts now rest { o with nx := true }
    else if u == uXX then parseSetOpts now rest { o with xx := true }
    else if u == uGET then parseSetOpts now rest { o with get := true }
    else if u == uKEEPTTL then parseSetOpts now rest { o with keepttl := true }
    else if u == uEX || u == uPX || u == uEXAT || u == uPXAT then
      match rest with
      | [] => { o with bad := true }
      | n :: rest' =>
        match decToNat? n with
        | none => { o with bad := true }
        | some v =>
          if v == 0 || o.exp.isSome then { o with bad := true }
          else
            let abs := if u == uEX then now + v * 1000 else if u == uPX then now + v
                       else if u == uEXAT then v * 1000 else v
            parseSetOpts now rest' { o with exp := some abs }
    else { o with bad := true }

/-- the option words that survive propagation of a SET without expiry
    (everything but GET) -/
def dropGet (opts : List Bytes) : List Bytes := opts.filter (fun a => Filter.upper a != uGET)

/-! ### propagate -/

def wPersist : Bytes := [112,101,114,115,105,115,116]
def wExpire : Bytes := [101,120,112,105,114,101]
def wPexpire : Bytes := [112,101,120,112,105,114,101]
def wExpireat : Bytes := [101,120,112,105,114,101,97,116]
def wHmset : Bytes := [104,109,115,101,116]
def wSadd : Bytes := [115,97,100,100]
def wSrem : Bytes := [115,114,101,109]
def wRestore : Bytes := [114,101,115,116,111,114,101]
def uREPLACE : Bytes := [82,69,80,76,65,67,69]
def uABSTTL : Bytes := [65,66,83,84,84,76]

/-- odd-position elements (field names of `HSET k f v f v …`) -/
def fieldNames : List Bytes → List Bytes
  | f :: _ :: rest => f :: fieldNames rest
  | _ => []

/-- even-position elements (members of `ZADD k score member score member …`) -/
def oddPos : List Bytes → List Bytes
  | _ :: m :: rest => m :: oddPos rest
  | _ => []

def addMembers (old new : List Bytes) : List Bytes := old ++ new.filter (fun m => !old.contains m)

/-- remove members from a collection key; no-op (nothing propagated) when the
    key is missing, of another kind, or holds none of them -/
def remMembers (st : Store) (kind : Kind) (c : Cmd) (k : Bytes) (ms : List Bytes) (pre : List Cmd) : Store × List Cmd :=
  match st.get k with
  | none => (st, pre)
  | some e =>
    if e.kind != kind then (st, pre)
    else if !ms.any (fun m => e.members.contains m) then (st, pre)
    else
      let left := e.members.filter (fun m => !ms.contains m)
      if left.isEmpty then (Store.del st k, pre ++ [c])
      else (Store.put st k { e with members := left }, pre ++ [c])

/-- add to / create a key of the given kind (WRONGTYPE ⇒ nothing happens) -/
def touchKind (st : Store) (kind : Kind) (k : Bytes) (ms : List Bytes) : Option Store :=
  match st.get k with
  | none => some (Store.put st k ⟨kind, ms.eraseDups, none⟩)
  | some e => if e.kind != kind then none else some (Store.put st k { e with members := addMembers e.members ms })

def propSet (cfg : RedisCfg) (now : Nat) (st : Store) (c : Cmd) : Store × List Cmd :=
  match c.args with
  | k :: v :: opts =>
    let o := parseSetOpts now opts {}
    if o.bad || (o.nx && o.xx) || (o.keepttl && o.exp.isSome) then (st, [])
    else
      let (st1, pre) := lazyExpire cfg now st k
      let old := st1.get k
      if (o.nx && old.isSome) || (o.xx && old.isNone) then (st1, pre)
      else
        match o.exp with
        | some abs =>
          (Store.put st1 k ⟨.str, [], some abs⟩,
           pre ++ [if cfg.setPxat then ⟨wSet, [k, v, wPxat, natToDec abs]⟩ else ⟨c.name, k :: v :: dropGet opts⟩])
        | none =>
          let keep := if o.keepttl then old.bind (·.expireAt) else none
          (Store.put st1 k ⟨.str, [], keep⟩, pre ++ [⟨c.name, k :: v :: dropGet opts⟩])
  | _ => (st, [])

def propDel (cfg : RedisCfg) (now : Nat) (st : Store) (c : Cmd) : Store × List Cmd :=
  let (st1, pre) := lazyExpireAll cfg now st c.args
  let hit := c.args.filter (fun k => (st1.get k).isSome)
  if hit.isEmpty then (st1, pre)
  else (hit.foldl Store.del st1, pre ++ [c])

/-- `n` is the lower-cased name: expire | pexpire | expireat | pexpireat -/
def propExpire (cfg : RedisCfg) (now : Nat) (st : Store) (n : Bytes) (c : Cmd) : Store × List Cmd :=
  match c.args with
  | [k, t] =>
    match decToNat? t with
    | none => (st, [])
    | some v =>
      let abs := if n == wExpire then now + v * 1000 else if n == wPexpire then now + v
                 else if n == wExpireat then v * 1000 else v
      let (st1, pre) := lazyExpire cfg now st k
      match st1.get k with
      | none => (st1, pre)
      | some e =>
        if abs ≤ now then (Store.del st1 k, pre ++ [delCmd cfg k])
        else (Store.put st1 k { e with expireAt := some abs }, pre ++ [⟨wPexpireat, [k, natToDec abs]⟩])
  | _ => (st, [c])      -- option forms (NX/XX/GT/LT): outside the transcription, passed through

def propPersist (cfg : RedisCfg) (now : Nat) (st : Store) (c : Cmd) : Store × List Cmd :=
  match c.args with
  | [k] =>
    let (st1, pre) := lazyExpire cfg now st k
    match st1.get k with
    | some e => if e.expireAt.isSome then (Store.put st1 k { e with expireAt := none }, pre ++ [c]) else (st1, pre)
    | none => (st1, pre)
  | _ => (st, [])

/-- HSET / HMSET / ZADD: create or extend a collection, always a change -/
def propAdd (cfg : RedisCfg) (now : Nat) (st : Store) (kind : Kind) (members : List Bytes → List Bytes)
    (c : Cmd) : Store × List Cmd :=
  match c.args with
  | k :: rest =>
    let (st1, pre) := lazyExpire cfg now st k
    match touchKind st1 kind k (members rest) with
    | none => (st1, pre)
    | some st2 => (st2, pre ++ [c])
  | _ => (st, [])

/-- HDEL / SREM / ZREM -/
def propRem (cfg : RedisCfg) (now : Nat) (st : Store) (kind : Kind) (c : Cmd) : Store × List Cmd :=
  match c.args with
  | k :: ms => let (st1, pre) := lazyExpire cfg now st k; remMembers st1 kind c k ms pre
  | _ => (st, [])

def propSadd (cfg : RedisCfg) (now : Nat) (st : Store) (c : Cmd) : Store × List Cmd :=
  match c.args with
  | k :: ms =>
    let (st1, pre) := lazyExpire cfg now st k
    let fresh := match st1.get k with
      | none => !ms.isEmpty
      | some e => ms.any (fun m => !e.members.contains m)
    match touchKind st1 .set k ms with
    | none => (st1, pre)
    | some st2 => if fresh then (st2, pre ++ [c]) else (st1, pre)
  | _ => (st, [])

def propRestore (cfg : RedisCfg) (now : Nat) (st : Store) (c : Cmd) : Store × List Cmd :=
  match c.args with
  | k :: t :: payload :: opts =>
    match decToNat? t with
    | none => (st, [])
    | some v =>
      let ups := opts.map Filter.upper
      let (st1, pre) := lazyExpire cfg now st k
      if (st1.get k).isSome && !ups.contains uREPLACE then (st1, pre)     -- BUSYKEY
      else
        let absttl := ups.contains uABSTTL
        let exp : Option Nat := if v == 0 then none else some (if absttl then v else now + v)
        let out : Cmd :=
          if v == 0 || absttl then c
          else ⟨c.name, k :: natToDec (now + v) :: payload :: opts ++ [wAbsttl]⟩
        (Store.put st1 k ⟨.other, [], exp⟩, pre ++ [out])
  | _ => (st, [])

/-- any other write: the keys the static tables name are looked up for writing
    (lazy expiry), the command counts as a change and passes verbatim -/
def propOther (cfg : RedisCfg) (now : Nat) (st : Store) (c : Cmd) : Store × List Cmd :=
  let keys := (commandKeys c.name c.args).getD []
  let (st1, pre) := lazyExpireAll cfg now st keys
  let st2 := match keys with
    | k :: _ => if (st1.get k).isSome then st1 else Store.put st1 k ⟨.other, [], none⟩
    | [] => st1
  (st2, pre ++ [c])

/-- what the master propagates for `c` executed at time `now` on `st` -/
def propagate (cfg : RedisCfg) (now : Nat) (st : Store) (c : Cmd) : Store × List Cmd :=
  let n := lower c.name
  if n == wSet then propSet cfg now st c
  else if n == wDel || n == wUnlink then propDel cfg now st c
  else if n == wExpire || n == wPexpire || n == wExpireat || n == wPexpireat then propExpire cfg now st n c
  else if n == wPersist then propPersist cfg now st c
  else if n == wHset || n == wHmset then propAdd cfg now st .hash fieldNames c
  else if n == wHdel then propRem cfg now st .hash c
  else if n == wSadd then propSadd cfg now st c
  else if n == wSrem then propRem cfg now st .set c
  else if n == wZadd then propAdd cfg now st .zset oddPos c
  else if n == wZrem then propRem cfg now st .zset c
  else if n == wRestore then propRestore cfg now st c
  else propOther cfg now st c

/-- the commands of one execution, in order -/
def execCmds (cfg : RedisCfg) (now : Nat) : Store → List Cmd → Store × List Cmd
  | st, [] => (st, [])
  | st, c :: cs =>
    let (st1, e1) := propagate cfg now st c
    let (st2, e2) := execCmds cfg now st1 cs
    (st2, e1 ++ e2)

/-- how the effects of one execution (a plain command, or a MULTI/EXEC of
    `n` write commands) appear in the stream -/
def toBlocks (cfg : RedisCfg) (isTxn : Bool) (n : Nat) (effects : List Cmd) : List Block :=
  if cfg.atomicUnits then
    match effects with
    | [] => []
    | [c] => [.single c]
    | cs => [.multi cs]
  else if isTxn then
    -- MULTI is propagated when the first write command is reached, EXEC closes it
    if n == 0 then [] else [.multi effects]
  else effects.map .single

/-- active expiry of `k` by the master's cycle -/
def activeExpire (cfg : RedisCfg) (now : Nat) (st : Store) (k : Bytes) : Store × List Block :=
  let (st1, e) := lazyExpire cfg now st k
  (st1, e.map .single)

/-! ### world: two sites, two links -/

inductive SiteId where
  | A | B
  deriving DecidableEq, Repr

def SiteId.other : SiteId → SiteId
  | .A => .B
  | .B => .A

/-- who caused a block (ghost information for the theorems) -/
inductive Tag where
  | foreign (id : Nat)        -- a client write or an expiry at this site
  | tool (fromId : Nat)       -- the opposite link committing the unit built from block `fromId`
  | snapshot                  -- the opposite link committing a snapshot (RDB) unit
  | book                      -- the opposite link's bookkeeping
  deriving DecidableEq, Repr

structure TBlock where
  tag : Tag
  block : Block
  deriving DecidableEq, Repr

structure SiteSt where
  store : Store := []
  now : Nat := 0
  stream : List TBlock := []

/-- the link that reads `src`'s stream and writes to the other site -/
structure LinkSt where
  cp : Bytes
  pos : Nat := 0                 -- blocks consumed
  pst : PState := {}
  halted : Option PErr := none
  emitted : List (Tag × Emit) := []    -- (tag of the source block, unit) in emission order
  cpos : Nat := 0                -- blocks consumed when the last unit was committed: what the commit
                                 -- records persist (end offset of the last committed unit), where a
                                 -- restarted syncer resumes

structure World where
  a : SiteSt := {}
  b : SiteSt := {}
  ab : LinkSt
  ba : LinkSt
  nextId : Nat := 0
  commits : List (Tag × SiteId) := []   -- (tag of the source block, site its unit was applied at), in order

def World.site (w : World) : SiteId → SiteSt
  | .A => w.a
  | .B => w.b

def World.setSite (w : World) (s : SiteId) (x : SiteSt) : World :=
  match s with
  | .A => { w with a := x }
  | .B => { w with b := x }

/-- the link whose source is `s` -/
def World.link (w : World) : SiteId → LinkSt
  | .A => w.ab
  | .B => w.ba

def World.setLink (w : World) (s : SiteId) (l : LinkSt) : World :=
  match s with
  | .A => { w with ab := l }
  | .B => { w with ba := l }

structure WCfg where
  redisA : RedisCfg
  redisB : RedisCfg
  parser : PCfg               -- both links run the same tool configuration

def WCfg.redis (c : WCfg) : SiteId → RedisCfg
  | .A => c.redisA
  | .B => c.redisB

/-- opaque payload of one commit: how it is committed, marker value, record fields -/
structure CommitArg where
  kind : CommitKind
  markerValue : Bytes
  recordFields : List Bytes

inductive Ev where
  | client (s : SiteId) (isTxn : Bool) (cmds : List Cmd)   -- a client command / MULTI…EXEC at `s`
  | tick (s : SiteId) (dt : Nat)                            -- time passes at `s`
  | expire (s : SiteId) (k : Bytes)                         -- the expiry cycle of `s` visits `k`
  | link (src : SiteId) (arg : CommitArg)                   -- the link from `src` handles its next block
  | snapshot (src : SiteId) (cmds : List Cmd) (arg : CommitArg)  -- … commits one snapshot unit
  | book (src : SiteId) (b : Bookkeeping)                   -- … writes one bookkeeping command
  | toolRaw (src : SiteId) (isTxn : Bool) (cmds : List Cmd) -- … writes something outside the vocabulary (never, in a good run)
  | restart (src : SiteId) (p : Nat) (seq : Nat)            -- the syncer of the link from `src` restarts / reconnects: it resumes at block `p`, numbering its next unit `seq`

/-- run `cmds` at site `s` as one execution and append what it propagates -/
def execAt (cfg : WCfg) (w : World) (s : SiteId) (isTxn : Bool) (cmds : List Cmd) (tag : Tag) : World :=
  let st := w.site s
  let (store', eff) := execCmds (cfg.redis s) st.now st.store cmds
  let blocks := toBlocks (cfg.redis s) isTxn cmds.length eff
  w.setSite s { st with store := store', stream := st.stream ++ blocks.map (fun b => ⟨tag, b⟩) }

/-- the id a tag carries (0 for snapshot / bookkeeping blocks) -/
def tagId : Tag → Nat
  | .foreign i => i
  | .tool i => i
  | _ => 0

/-- ids are assigned per appended foreign block -/
def tagIds (start : Nat) : List Block → List TBlock
  | [] => []
  | b :: bs => ⟨.foreign start, b⟩ :: tagIds (start + 1) bs

/-- encoded length of a block, and the byte offset of block `p` of a stream -/
def blockLen (b : Block) : Nat := (b.cmds.map respLen).sum
def streamOff (s : List TBlock) (p : Nat) : Nat := ((s.take p).map (fun tb => blockLen tb.block)).sum

def stepWorld (cfg : WCfg) (w : World) : Ev → World
  | .client s isTxn cmds =>
    let st := w.site s
    let (store', eff) := execCmds (cfg.redis s) st.now st.store cmds
    let blocks := toBlocks (cfg.redis s) isTxn cmds.length eff
    let w1 := w.setSite s { st with store := store', stream := st.stream ++ tagIds w.nextId blocks }
    { w1 with nextId := w.nextId + blocks.length }
  | .tick s dt =>
    let st := w.site s
    w.setSite s { st with now := st.now + dt }
  | .expire s k =>
    let st := w.site s
    let (store', blocks) := activeExpire (cfg.redis s) st.now st.store k
    if isNamespaceKey k then
      -- a bookkeeping key (a marker) expiring: not a write of this site's clients
      w.setSite s { st with store := store', stream := st.stream ++ blocks.map (fun b => ⟨.book, b⟩) }
    else
      let w1 := w.setSite s { st with store := store', stream := st.stream ++ tagIds w.nextId blocks }
      { w1 with nextId := w.nextId + blocks.length }
  | .link src arg =>
    let l := w.link src
    if l.halted.isSome then w
    else
      match (w.site src).stream[l.pos]? with
      | none => w
      | some tb =>
        match parseBlock cfg.parser l.pst tb.block with
        | (_, _, some e) => w.setLink src { l with halted := some e }
        | (ems, pst', none) =>
          let l' : LinkSt := { l with pos := l.pos + 1, pst := pst' }
          match ems with
          | [] => w.setLink src l'
          | em :: _ =>
            let l'' : LinkSt := { l' with emitted := l'.emitted ++ [(tb.tag, em)], cpos := l.pos + 1 }
            let w1 := w.setLink src l''
            let txn := commitCmds l.cp arg.kind em.unit ⟨arg.markerValue, arg.recordFields, em.seq⟩
            let w2 := execAt cfg w1 src.other true txn (.tool (tagId tb.tag))
            { w2 with commits := w2.commits ++ [(tb.tag, src.other)] }
  | .snapshot src cmds arg =>
    match buildUnit standaloneMode cfg.parser.resolver cmds with
    | .error _ => w
    | .ok u =>
      let l := w.link src
      let txn := commitCmds l.cp .rdb u ⟨arg.markerValue, arg.recordFields, 0⟩
      execAt cfg w src.other true txn .snapshot
  | .book src bk =>
    execAt cfg w src.other false [bk.toCmd] .book
  | .toolRaw src isTxn cmds =>
    execAt cfg w src.other isTxn cmds .book
  | .restart src p seq =>
    -- a restarted (or reconnected) syncer resumes at ANY block it had already reached — behind the
    -- last unit it committed (sync mode: the commit records say exactly that) or BEFORE it
    -- (pipeline / parallel mode resume at the contiguous frontier: units committed beyond it are
    -- read and committed again) — with a fresh parser, the unit numbering its start point gives,
    -- and its stop, if any, forgotten
    let l := w.link src
    if p ≤ l.pos then
      w.setLink src { l with pos := p, cpos := min l.cpos p,
                             pst := { seq := seq, prevOff := streamOff (w.site src).stream p }, halted := none }
    else w

def runWorld (cfg : WCfg) : World → List Ev → World
  | w, [] => w
  | w, e :: es => runWorld cfg (stepWorld cfg w e) es

end GunYu.Bisync
