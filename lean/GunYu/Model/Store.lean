/-
  C05 — the local cache (disk backend `pkg/store`, memory backend
  `syncer/memory_channel.go`).

  * `Log`                : the abstract specification (what a cache holds)
  * `Disk`, `DOp`, `Disk.step` : step-level model of `store.Storer` + `dataSet`
                            + `AofRotater` + `AofRotateReader` + `RdbWriter/Reader`
  * `Mem`, `MOp`, `Mem.step`   : step-level model of `MemoryChannel`

  Granularity: one op = one mutex-protected step of the Go code. A reader's
  move to the next segment is two ops (`advAcquire`: open the next file and
  take a reference on it; `advRelease`: close the old file and drop its
  reference) so that the collector can run in between. Reference counts are
  derived from the reader list (the Go code keeps them in `rwRef`; the
  correspondence harness compares the derived count with `Ref()` after every op).

  Ghost fields (`hbase`, `hist`, `start`, `out`) record what was written/read;
  no non-ghost field is computed from them.

  Modelled behaviour is that of the repaired code for the confirmed defects
  D14, D15, D17, D20–D24 (see /verif/known_findings.d/C05.json).
-/
import GunYu.Basic.Bytes

namespace GunYu.Store
open GunYu

/-! ## Abstract specification -/

structure Snapshot where
  left : Nat
  size : Nat
  bytes : Bytes
deriving Repr, DecidableEq

/-- What a cache holds for one replication id: the stream bytes
    `[base, base + bytes.length)` and possibly a complete snapshot. -/
structure Log where
  id : String
  base : Nat
  bytes : Bytes
  snapshot : Option Snapshot
deriving Repr, DecidableEq

def Log.right (l : Log) : Nat := l.base + l.bytes.length

/-- the stream bytes from offset `off` on -/
def Log.from (l : Log) (off : Nat) : Bytes := l.bytes.drop (off - l.base)

/-! ## Disk backend -/

/-- `dataSetAof` + its file `<left>.aof` (16-byte header, then `data`). -/
structure DSeg where
  left : Nat
  data : Bytes
deriving Repr, DecidableEq

def DSeg.right (g : DSeg) : Nat := g.left + g.data.length

/-- `dataSetRdb` + its file `<left>_<size>.rdb(.tmp)` -/
structure DRdb where
  left : Nat
  size : Nat
  data : Bytes      -- bytes written to the file so far
  writing : Bool    -- writer attached
  final : Bool      -- renamed to `.rdb` (pumped == size at close)
deriving Repr, DecidableEq

/-- `store.Reader` over an `AofRotateReader` (`isAof`) or an `RdbReader`. -/
structure DReader where
  id : Nat
  isAof : Bool
  cur : Nat            -- aof: `left` of the segment whose file is open
  prev : Option Nat    -- aof: old segment still referenced during a rotation step
  pos : Nat            -- aof: `r.right` (next logical offset); rdb: bytes delivered
  isOpen : Bool        -- not yet Close()d
  start : Nat          -- ghost: offset it was opened at
  out : Bytes          -- ghost: everything it delivered
deriving Repr, DecidableEq

/-- `Storer` + `dataSet`. `segs` are the closed segments (header filled,
    index `size` = length), `live` is the segment the stream writer is
    appending to (index `size == -1`, one writer reference); in the Go slice
    `aofSegs` the live segment is always the last element. -/
structure Disk where
  logSize : Nat
  maxSize : Nat
  runId : String              -- "" = none
  rdb : Option DRdb
  segs : List DSeg
  live : Option DSeg
  readers : List DReader
  hbase : Nat                 -- ghost: offset of `hist[0]`
  hist : Bytes                -- ghost: stream bytes appended since the history began
deriving Repr

def Disk.init (logSize maxSize : Nat) : Disk :=
  { logSize, maxSize, runId := "", rdb := none, segs := [], live := none, readers := [],
    hbase := 0, hist := [] }

/-- `dataSet.aofSegs` -/
def Disk.all (s : Disk) : List DSeg := s.segs ++ s.live.toList

inductive DOp where
  | setRunId (id : String)
  | delRunId
  | newRdbWriter (off size : Nat)
  | rdbAppend (chunk : Bytes)
  | rdbClose
  | newAofWriter (off : Nat)
  | aofAppend (chunk : Bytes)
  | aofClose
  | gc
  | openReader (rid off : Nat) (crcOk : Bool)
  | read (rid n : Nat)
  | advAcquire (rid : Nat)
  | advRelease (rid : Nat)
  | closeReader (rid : Nat)
deriving Repr, DecidableEq

inductive Out where
  | ok
  | done                      -- snapshot completely written and committed
  | errEof                    -- writer already closed
  | notExist
  | corrupt
  | aof (left : Nat)
  | rdb (left size : Nat)
  | data (bs : Bytes)
  | eof                       -- nothing (more) to deliver now / ever
  | err                       -- reader failed / is closed
  | blocked (n : Nat)         -- memory: append waits for capacity after `n` bytes
  | refused                   -- memory: discontinuous writer
  | none
deriving Repr, DecidableEq

/-! ### index queries (`dataSet`) -/

def firstLeft : List DSeg → Option Nat
  | [] => none
  | g :: _ => some g.left

def lastRight : List DSeg → Option Nat
  | [] => none
  | [g] => some g.right
  | _ :: rest => lastRight rest

/-- `dataSet.getRange` -/
def Disk.range (s : Disk) : Int × Int :=
  match s.rdb, firstLeft s.all, lastRight s.all with
  | some r, some ll, some rr => (min r.left ll, max r.left rr)
  | none, some ll, some rr => (ll, rr)
  | some r, _, _ => (r.left, r.left)
  | none, _, _ => (-1, -1)

/-- `dataSet.InRange` -/
def Disk.inRange (s : Disk) (off : Nat) : Bool :=
  let (ll, rr) := s.range
  if rr < 0 then false
  else if ll ≤ off ∧ (off : Int) ≤ rr then true
  else if (off : Int) ≤ ll ∧ s.rdb.isSome then true
  else false

/-- `dataSet.IndexAof`: newest segment with `left ≤ off ≤ right` -/
def indexAof (segs : List DSeg) (off : Nat) : Option DSeg :=
  segs.reverse.find? (fun g => g.left ≤ off && off ≤ g.right)

/-- `dataSet.Right` / `Storer.LatestOffset` -/
def Disk.latest (s : Disk) : Int :=
  match lastRight s.all, s.rdb with
  | some r, _ => r
  | none, some r => r.left
  | none, none => -1

/-- `Storer.GetRdb` -/
def Disk.getRdb (s : Disk) : Int × Int :=
  match s.rdb with
  | some r => (r.left, r.size)
  | none => (-1, -1)

/-! ### reference counts (derived) -/

def DReader.holds (r : DReader) (left : Nat) : Bool :=
  r.isOpen && r.isAof && (r.cur == left || r.prev == some left)

/-- reader references on the segment starting at `left` -/
def readerRefs (rs : List DReader) (left : Nat) : Nat :=
  (rs.filter (fun r => r.isOpen && r.isAof && r.cur == left)).length +
  (rs.filter (fun r => r.isOpen && r.isAof && r.prev == some left)).length

def rdbReaderRefs (rs : List DReader) : Nat :=
  (rs.filter (fun r => r.isOpen && !r.isAof)).length

def rdbRef (rs : List DReader) (r : DRdb) : Nat :=
  rdbReaderRefs rs + (if r.writing then 1 else 0)

/-! ### readers closed by index operations -/

def DReader.close (r : DReader) : DReader := { r with isOpen := false, prev := none }

/-- readers tailing a trimmed (empty, live) segment are closed with it -/
def closeReadersOn (left : Nat) (rs : List DReader) : List DReader :=
  rs.map (fun r => if r.holds left then r.close else r)

def closeAofReaders (rs : List DReader) : List DReader :=
  rs.map (fun r => if r.isAof then r.close else r)

def closeRdbReaders (rs : List DReader) : List DReader :=
  rs.map (fun r => if r.isAof then r else r.close)

def closeAllReaders (rs : List DReader) : List DReader := rs.map DReader.close

/-! ### writer steps -/

/-- `AofRotater.closeAof` + the storer's close observer on the live segment:
    an empty segment is trimmed (file removed, its readers closed), a non-empty
    one gets its header and `size` and stays in the index. -/
def Disk.closeLive (s : Disk) : Disk :=
  match s.live with
  | none => s
  | some g =>
    if g.data.isEmpty then { s with live := none, readers := closeReadersOn g.left s.readers }
    else { s with segs := s.segs ++ [g], live := none }

/-- `AofRotater.write`: append to the live segment; rotate when
    `16 + len > logSize` -/
def Disk.appendLive (s : Disk) (chunk : Bytes) : Disk × Bool :=
  match s.live with
  | none => (s, false)
  | some g =>
    let g' : DSeg := { g with data := g.data ++ chunk }
    if 16 + g'.data.length > s.logSize then
      ({ s with segs := s.segs ++ [g'], live := some { left := g'.right, data := [] },
                hist := s.hist ++ chunk }, true)
    else ({ s with live := some g', hist := s.hist ++ chunk }, true)

/-! ### collector (`dataSet.gcLogs`) -/

/-- newest → oldest: how many of the oldest segments are candidates
    (`aofLast + 1`) and the size accumulated when the scan stopped -/
def gcScanRev (max : Nat) : List DSeg → Nat → Nat × Nat
  | [], size => (0, size)
  | g :: older, size =>
    let size' := size + g.data.length
    if size' > max then (older.length + 1, size') else gcScanRev max older size'

/-- remove up to `k` oldest segments, stopping at the first referenced one
    (the live segment, last in `aofSegs`, always carries the writer's reference,
    so the loop never goes past the closed segments) -/
def dropUnref (rs : List DReader) : Nat → List DSeg → List DSeg
  | 0, l => l
  | _ + 1, [] => []
  | k + 1, g :: rest => if readerRefs rs g.left > 0 then g :: rest else dropUnref rs k rest

def Disk.gc (s : Disk) : Disk :=
  if s.maxSize = 0 then s else
  let (k, size) := gcScanRev s.maxSize s.all.reverse 0
  match s.rdb with
  | none => { s with segs := dropUnref s.readers k s.segs }
  | some r =>
    if size + r.size > s.maxSize then
      if rdbRef s.readers r = 0 then { s with rdb := none, segs := dropUnref s.readers k s.segs }
      else s
    else { s with segs := dropUnref s.readers k s.segs }

/-! ### re-scan of the directory (`initDataSet` + `TruncateGap`) -/

/-- the newest contiguous run (oldest → newest): a segment is kept iff every
    newer one is kept and the next one starts where it ends (`TruncateGap`'s
    loop `segs[i].Left() != segs[i-1].Right()`, scanning from the newest) -/
def contigRun : List DSeg → List DSeg
  | [] => []
  | [g] => [g]
  | g :: h :: rest =>
    let run := contigRun (h :: rest)
    if run.length = (h :: rest).length ∧ g.right = h.left then g :: run else run

/-- `TruncateGap` (repaired, D15): older segments behind a gap are dropped
    together with the snapshot; a snapshot that does not start where the first
    kept segment starts is dropped too. -/
def truncateGap (rdb : Option DRdb) (segs : List DSeg) : Option DRdb × List DSeg :=
  let run := contigRun segs
  let rdb1 := if run.length < segs.length then none else rdb
  match rdb1, run with
  | some r, f :: _ => if r.left = f.left then (some r, run) else (none, run)
  | r, _ => (r, run)

def insertSeg (g : DSeg) : List DSeg → List DSeg
  | [] => [g]
  | h :: rest => if g.left ≤ h.left then g :: h :: rest else h :: insertSeg g rest

def sortSegs (l : List DSeg) : List DSeg := l.foldr insertSeg []

/-- what `SetRunId` rebuilds from the files of the current index: every
    non-empty segment file as a closed segment, the snapshot if it was committed -/
def Disk.rescan (s : Disk) : Disk :=
  let segs := sortSegs (s.all.filter (fun g => !g.data.isEmpty))
  let rdb := match s.rdb with
    | some r => if r.final then some { r with writing := false } else none
    | none => none
  let (rdb', segs') := truncateGap rdb segs
  { s with rdb := rdb', segs := segs', live := none }

/-! ### reset (`resetDataSet`) -/

def Disk.reset (s : Disk) : Disk :=
  { s with rdb := none, segs := [], live := none, readers := closeAllReaders s.readers,
           hbase := 0, hist := [] }

/-- a replication-id switch closes what is open on the old index: every reader
    is closed, a snapshot being written is dropped (temporary file removed), the
    live segment gets its header (or is trimmed when empty) -/
def Disk.dropWritingRdb (s : Disk) : Disk :=
  match s.rdb with
  | some r => if r.writing then { s with rdb := none } else s
  | none => s

def Disk.closeAllForSwitch (s : Disk) : Disk :=
  ({ s with readers := closeAllReaders s.readers } : Disk).dropWritingRdb.closeLive

/-! ### readers -/

def findReader (rs : List DReader) (rid : Nat) : Option DReader := rs.find? (·.id == rid)

def setReader (rs : List DReader) (r : DReader) : List DReader :=
  rs.map (fun x => if x.id == r.id then r else x)

def findSeg (segs : List DSeg) (left : Nat) : Option DSeg := segs.find? (·.left == left)

/-- `GetReader`. The RDB CRC64 footer check is a parameter (`crcOk`): the
    caller states whether `checkHeader` accepts the snapshot file (C08 models
    the check itself). -/
def Disk.open (s : Disk) (rid off : Nat) (crcOk : Bool) : Disk × Out :=
  if (findReader s.readers rid).isSome then (s, .err) else     -- reader ids are fresh
  if !s.inRange off then (s, .notExist) else
  match indexAof s.all off with
  | some g =>
    let r : DReader := { id := rid, isAof := true, cur := g.left, prev := none, pos := off,
                         isOpen := true, start := off, out := [] }
    ({ s with readers := s.readers ++ [r] }, .aof off)
  | none =>
    match s.rdb with
    | some rd =>
      if off ≤ rd.left then
        if rd.final && !crcOk then (s, .corrupt) else
        let r : DReader := { id := rid, isAof := false, cur := 0, prev := none, pos := 0,
                             isOpen := true, start := 0, out := [] }
        ({ s with readers := s.readers ++ [r] }, .rdb rd.left rd.size)
      else (s, .notExist)
    | none => (s, .notExist)

/-- one `file.Read(buf)` of at most `n` bytes from the current file -/
def Disk.read (s : Disk) (rid n : Nat) : Disk × Out :=
  match findReader s.readers rid with
  | none => (s, .err)
  | some r =>
    if !r.isOpen then (s, .err) else
    if r.isAof then
      match findSeg s.all r.cur with
      | none => (s, .err)
      | some g =>
        let bs := (g.data.drop (r.pos - g.left)).take n
        if bs.isEmpty then (s, .eof) else
        let r' := { r with pos := r.pos + bs.length, out := r.out ++ bs }
        ({ s with readers := setReader s.readers r' }, .data bs)
    else
      match s.rdb with
      | none => (s, .err)
      | some rd =>
        let bs := (rd.data.drop r.pos).take n
        if bs.isEmpty then (s, .eof) else
        let r' := { r with pos := r.pos + bs.length, out := r.out ++ bs }
        ({ s with readers := setReader s.readers r' }, .data bs)

/-- the reader is at the end of its file and the next file exists -/
def Disk.canAdvance (s : Disk) (r : DReader) : Bool :=
  r.isOpen && r.isAof && r.prev.isNone &&
  (match findSeg s.all r.cur with
   | some g => r.pos == g.right
   | none => false) &&
  (findSeg s.all r.pos).isSome

/-- `tryReadNextFile` (repaired order, D17): open `<right>.aof` and take the
    reference on it first … -/
def Disk.advAcquire (s : Disk) (rid : Nat) : Disk × Out :=
  match findReader s.readers rid with
  | none => (s, .err)
  | some r =>
    if s.canAdvance r then
      ({ s with readers := setReader s.readers { r with prev := some r.cur, cur := r.pos } }, .ok)
    else (s, .none)

/-- … then close the old file and drop its reference. -/
def Disk.advRelease (s : Disk) (rid : Nat) : Disk × Out :=
  match findReader s.readers rid with
  | none => (s, .err)
  | some r =>
    if r.isOpen && r.prev.isSome then
      ({ s with readers := setReader s.readers { r with prev := none } }, .ok)
    else (s, .none)

def Disk.closeReader (s : Disk) (rid : Nat) : Disk × Out :=
  match findReader s.readers rid with
  | none => (s, .err)
  | some r => ({ s with readers := setReader s.readers r.close }, .ok)

/-! ### the step function -/

def Disk.step (s : Disk) : DOp → Disk × Out
  | .setRunId id =>
    -- SetRunId / VerifyRunId → newRunId (repaired, D27):
    -- * no id before: a fresh id starts with an empty directory;
    -- * the same id again (every source reconnect: StartPoint → VerifyRunId):
    --   the live index is kept — nothing is re-scanned, nothing is orphaned;
    -- * another id (replication-id switch, directory renamed): everything open
    --   on the old index is closed, then the index is rebuilt from the files.
    if s.runId = "" then ({ s.reset with runId := id }, .ok)
    else if id = s.runId then (s, .ok)
    else ({ s.closeAllForSwitch.rescan with runId := id }, .ok)
  | .delRunId =>
    if s.runId = "" then (s, .ok) else ({ s.reset with runId := "" }, .ok)
  | .newRdbWriter off size =>
    let s' := s.reset
    ({ s' with rdb := some { left := off, size := size, data := [], writing := true, final := false } }, .ok)
  | .rdbAppend chunk =>
    match s.rdb with
    | some r =>
      if r.writing then
        let r' := { r with data := r.data ++ chunk }
        if r'.data.length = r'.size then
          ({ s with rdb := some { r' with writing := false, final := true } }, .done)
        else ({ s with rdb := some r' }, .ok)
      else (s, .none)
    | none => (s, .none)
  | .rdbClose =>
    match s.rdb with
    | some r =>
      if r.writing then
        -- closed before `size` bytes arrived: temporary file removed, snapshot
        -- dropped from the index, its readers closed (repaired, D14 disk side)
        ({ s with rdb := none, readers := closeRdbReaders s.readers }, .ok)
      else (s, .ok)
    | none => (s, .ok)
  | .newAofWriter off =>
    -- GetAofWritter: CloseAofWriter (old writer and every stream reader), then
    -- a new live segment at `off`
    let s1 := s.closeLive
    let cont := match lastRight s1.segs with
      | some r => r == off
      | none => false
    ({ s1 with live := some { left := off, data := [] },
               readers := closeAofReaders s1.readers,
               hbase := if cont then s.hbase else off,
               hist := if cont then s.hist else [] }, .ok)
  | .aofAppend chunk =>
    let (s', ok) := s.appendLive chunk
    if ok then (s', .ok) else (s, .errEof)
  | .aofClose => (s.closeLive, .ok)
  | .gc => (s.gc, .ok)
  | .openReader rid off crcOk => s.open rid off crcOk
  | .read rid n => s.read rid n
  | .advAcquire rid => s.advAcquire rid
  | .advRelease rid => s.advRelease rid
  | .closeReader rid => s.closeReader rid

def Disk.run (s : Disk) : List DOp → Disk
  | [] => s
  | op :: rest => ((s.step op).1).run rest

/-- The callers' protocol (what syncer/input.go and syncer/replica.go
    guarantee): a stream writer continues where the held stream ends (or, with
    nothing held, where the snapshot ends); snapshot chunks never exceed the
    announced size; the replication id is switched only between two runs of the
    input (no writer open; readers may be). -/
def Disk.okOp (s : Disk) : DOp → Prop
  | .newAofWriter off =>
    match lastRight s.closeLive.segs, s.rdb with
    | some r, _ => off = r
    | none, some rd => off = rd.left
    | none, none => True
  | .newRdbWriter _ size => 0 < size
  | .rdbAppend chunk =>
    chunk ≠ [] ∧
    match s.rdb with
    | some r => r.writing = true → r.data.length + chunk.length ≤ r.size
    | none => True
  | .aofAppend chunk => chunk ≠ []
  | .setRunId id =>
    -- an id SWITCH happens between two runs of the input: its writers are closed
    -- (readers may be open; the same id again is always allowed)
    s.runId ≠ "" → id ≠ s.runId → s.live = none ∧
      match s.rdb with
      | some r => r.writing = false
      | none => True
  | _ => True

instance (s : Disk) (op : DOp) : Decidable (s.okOp op) := by
  cases op <;> simp only [Disk.okOp] <;> try infer_instance
  all_goals (repeat' split) <;> infer_instance

def Disk.wf (s : Disk) : List DOp → Prop
  | [] => True
  | op :: rest => s.okOp op ∧ (s.step op).1.wf rest

instance Disk.decWf : (s : Disk) → (ops : List DOp) → Decidable (s.wf ops)
  | _, [] => isTrue trivial
  | s, op :: rest =>
    have := Disk.decWf (s.step op).1 rest
    inferInstanceAs (Decidable (s.okOp op ∧ (s.step op).1.wf rest))

/-- the abstraction: what the disk cache holds -/
def Disk.abs (s : Disk) : Log :=
  { id := s.runId,
    base := match firstLeft s.all, s.rdb with
      | some l, _ => l
      | none, some r => r.left
      | none, none => 0,
    bytes := s.all.flatMap (·.data),
    snapshot := match s.rdb with
      | some r => if r.final then some { left := r.left, size := r.size, bytes := r.data } else none
      | none => none }

/-! ## Memory backend (`syncer/memory_channel.go`) -/

/-- `memorySegment`: identity `sid` (the Go pointer), `left`, the blob's bytes,
    whether the blob is closed, and the `next` pointer set at snapshot rotation. -/
structure MSeg where
  sid : Nat
  left : Nat
  data : Bytes
  closed : Bool
  next : Option Nat
deriving Repr, DecidableEq

def MSeg.right (g : MSeg) : Nat := g.left + g.data.length

/-- `memoryRdb` (segment lefts are relative to the snapshot's first byte) -/
structure MRdb where
  left : Nat
  size : Nat
  written : Nat
  replayable : Bool
  segs : List MSeg
  writing : Bool        -- `mc.rdbWriter` is this snapshot's writer
  cur : Nat             -- sid of the writer's current segment
deriving Repr, DecidableEq

inductive RSt where
  | running | ended | failed
deriving Repr, DecidableEq

/-- `MemoryReader` + its copy goroutine -/
structure MReader where
  id : Nat
  isAof : Bool
  seg : Nat             -- sid of the segment it holds a reference on
  pos : Nat             -- aof: `readOffset`; snapshot: `readBytes`
  size : Nat            -- snapshot size (snapshot readers)
  st : RSt
  started : Bool        -- `Start` was called (the copy goroutine exists)
  released : Bool       -- the copy loop returned (or an unstarted reader was closed): reference dropped
  closedByUser : Bool
  buf : Bytes           -- written to the pipe, not yet fetched by the consumer's bufio.Reader
  bbuf : Bytes          -- in the consumer's bufio.Reader, not yet consumed
  start : Nat           -- ghost
  out : Bytes           -- ghost: everything written to the pipe
deriving Repr, DecidableEq

structure Mem where
  logSize : Nat
  maxSize : Nat
  runId : String
  rdb : Option MRdb
  segs : List MSeg
  aofW : Option Nat          -- sid of the stream writer's current segment
  total : Nat
  readers : List MReader
  heap : List MSeg           -- segments no longer indexed (closed, immutable) that readers may still hold
  nextSid : Nat
  pendA : Option Bytes       -- stream writer blocked in `ensureCapacityLocked`: bytes still to append
  pendR : Option Bytes       -- snapshot writer blocked likewise
  hbase : Nat                -- ghost
  hist : Bytes               -- ghost
deriving Repr

def Mem.init (logSize maxSize : Nat) : Mem :=
  { logSize, maxSize, runId := "", rdb := none, segs := [], aofW := none, total := 0,
    readers := [], heap := [], nextSid := 0, pendA := none, pendR := none, hbase := 0, hist := [] }

inductive MOp where
  | setRunId (id : String)
  | delRunId (id : String)
  | newRdbWriter (off size : Nat)
  | rdbAppend (chunk : Bytes)
  | rdbClose
  | rdbFail                      -- the source's connection fails: `finishRdb(writer, err ≠ nil)`
  | newAofWriter (off : Nat)
  | aofAppend (chunk : Bytes)
  | aofClose
  | openReader (rid off : Nat)
  | startReader (rid : Nat)     -- `Start`: the copy goroutine begins
  | copyStep (rid : Nat)        -- one iteration of the reader's copy loop
  | consume (rid n : Nat)       -- the consumer reads up to `n` bytes from the pipe
  | closeReader (rid : Nat)
  | retryAppend                 -- a writer blocked on capacity is woken (`spaceNotify`) and tries again
deriving Repr, DecidableEq

/-! ### index queries -/

def mLastRight : List MSeg → Option Nat
  | [] => none
  | [g] => some g.right
  | _ :: rest => mLastRight rest

/-- the newest contiguous run, oldest → newest (`continuousAofStartIndexLocked`
    scans from the newest segment while `segs[i].right() == left`) -/
def mContigRun : List MSeg → List MSeg
  | [] => []
  | [g] => [g]
  | g :: h :: rest =>
    let run := mContigRun (h :: rest)
    if run.length = (h :: rest).length ∧ g.right = h.left then g :: run else run

/-- the contiguous run, newest first -/
def Mem.runRev (s : Mem) : List MSeg := (mContigRun s.segs).reverse

/-- `indexContinuousAofLocked` -/
def Mem.indexAof (s : Mem) (off : Nat) : Option MSeg :=
  s.runRev.find? (fun g => g.left ≤ off && off ≤ g.right)

def Mem.rdbOffered (s : Mem) : Option MRdb :=
  match s.rdb with
  | some r => if r.replayable then some r else none
  | none => none

/-- `inRangeLocked` (a3509d3: log coverage first; a replayable snapshot makes the
    offsets before it valid, and its own offset only while no log segment is held —
    once the collector dropped the log that starts there, the position a completed
    replay stores must be asked from the source) -/
def Mem.inRange (s : Mem) (off : Int) : Bool :=
  (if off < 0 then false else (s.indexAof off.toNat).isSome) ||
  (match s.rdbOffered with
   | some r => off ≤ r.left && (off < r.left || s.segs.isEmpty)
   | none => false)

/-- `rangeLocked` -/
def Mem.range (s : Mem) : Int × Int :=
  match s.rdb, s.segs with
  | none, [] => (-1, -1)
  | _, _ =>
    match s.runRev.getLast?, s.runRev.head? with
    | some oldest, some newest => (oldest.left, newest.right)
    | _, _ =>
      match s.rdbOffered with
      | some r => (r.left, r.left)
      | none => (-1, -1)

/-- `latestOffsetLocked` -/
def Mem.latest (s : Mem) : Int :=
  match mLastRight s.segs, s.rdb with
  | some r, _ => r
  | none, some r => r.left
  | none, none => -1

/-- `GetRdb` (for the current run id) -/
def Mem.getRdb (s : Mem) : Int × Int :=
  match s.rdbOffered with
  | some r => (r.left, r.size)
  | none => (-1, -1)

/-- `MemoryChannel.IsValidOffset` -/
def Mem.isValidOffset (s : Mem) (runId : String) (off : Int) : Bool :=
  if runId == "?" then !s.inRange (-1)
  else if runId != s.runId then false
  else s.inRange off

/-- `MemoryChannel.StartPoint` -/
def Mem.startPoint (s : Mem) (ids : List String) : String × Int :=
  if ids.isEmpty then (s.runId, s.latest)
  else if ids.any (fun id => id != "" && id != "?" && id == s.runId && s.runId != "") then (s.runId, s.latest)
  else ("?", -1)

/-- `GetOffsetRange(runId)` / `GetRdb(runId)` -/
def Mem.rangeFor (s : Mem) (runId : String) : Int × Int := if runId != s.runId then (-1, -1) else s.range
def Mem.rdbFor (s : Mem) (runId : String) : Int × Int := if runId != s.runId then (-1, -1) else s.getRdb

/-! ### reference counts (derived) -/

def mRefs (rs : List MReader) (sid : Nat) : Nat :=
  (rs.filter (fun r => !r.released && r.seg == sid)).length

/-! ### collector (`gcLocked`) -/

/-- `gcLocked`, first alternative: drop the oldest stream segment if it is
    closed, unreferenced and not the writer's current one -/
def Mem.gcAof (s : Mem) : Option Mem :=
  match s.segs with
  | first :: rest =>
    if first.closed && mRefs s.readers first.sid == 0 && s.aofW != some first.sid then
      some { s with segs := rest, total := s.total - first.data.length, heap := first :: s.heap }
    else none
  | [] => none

/-- second alternative: drop the snapshot's oldest segment if it is closed and
    unreferenced; the snapshot is then no longer replayable -/
def Mem.gcRdb (s : Mem) : Option Mem :=
  match s.rdb with
  | some r =>
    match r.segs with
    | first :: rest =>
      if first.closed && mRefs s.readers first.sid == 0 then
        let r' := { r with segs := rest, replayable := false }
        some { s with rdb := (if rest.isEmpty then none else some r'),
                      total := s.total - first.data.length, heap := first :: s.heap }
      else none
    | [] => none
  | none => none

/-- one removal attempt; `none` when nothing can be removed -/
def Mem.gcOnce (s : Mem) : Option Mem :=
  match s.gcAof with
  | some s' => some s'
  | none => s.gcRdb

def Mem.gcLoop (need : Nat) : Nat → Mem → Mem
  | 0, s => s
  | fuel + 1, s =>
    if s.total + need > s.maxSize then
      match s.gcOnce with
      | some s' => Mem.gcLoop need fuel s'
      | none => s
    else s

/-- `gcLocked(need)` (at most one removal per indexed segment) -/
def Mem.gc (s : Mem) (need : Nat) : Mem :=
  if s.maxSize = 0 then s else
  Mem.gcLoop need (s.segs.length + (match s.rdb with | some r => r.segs.length | none => 0) + 1) s

/-- `ensureCapacityLocked`: `some` state when the bytes fit (after collecting),
    `none` when the writer has to wait -/
def Mem.ensure (s : Mem) (need : Nat) : Mem × Bool :=
  if s.maxSize = 0 ∨ s.total + need ≤ s.maxSize then (s, true)
  else
    let s' := s.gc need
    (s', decide (s'.total + need ≤ s'.maxSize))

/-! ### segments -/

def mUpdate (segs : List MSeg) (sid : Nat) (f : MSeg → MSeg) : List MSeg :=
  segs.map (fun g => if g.sid == sid then f g else g)

def mFind (segs : List MSeg) (sid : Nat) : Option MSeg := segs.find? (·.sid == sid)

def mCloseAll (segs : List MSeg) : List MSeg := segs.map (fun g => { g with closed := true })

/-- a segment a reader holds: indexed stream segment, snapshot segment or heap -/
def Mem.lookup (s : Mem) (sid : Nat) : Option MSeg :=
  match mFind s.segs sid with
  | some g => some g
  | none =>
    match (match s.rdb with | some r => mFind r.segs sid | none => none) with
    | some g => some g
    | none => mFind s.heap sid

/-- space for the next piece and whether the current segment is rotated first
    (`appendAof` / `appendRdb`: the `logSize` block) -/
def pieceSpace (logSize : Nat) (segLen bufLen : Nat) : Nat × Bool :=
  if logSize = 0 then (bufLen, false)
  else if segLen ≥ logSize ∧ segLen > 0 then (min bufLen logSize, true)
  else (min bufLen (logSize - segLen), false)

/-! ### stream writer -/

/-- the `for len(buf) > 0` loop of `appendAof`; returns bytes appended and
    whether the writer got blocked -/
def Mem.appendAofLoop : Nat → Mem → Bytes → Nat → Mem × Nat × Bool
  | 0, s, _, done => (s, done, false)
  | fuel + 1, s, buf, done =>
    if buf.isEmpty then (s, done, false) else
    match s.aofW with
    | none => (s, done, false)
    | some cur =>
      match mFind s.segs cur with
      | none => (s, done, false)
      | some seg =>
        let (space, rotate) := pieceSpace s.logSize seg.data.length buf.length
        let (s1, cur1) :=
          if rotate then
            let nxt : MSeg := { sid := s.nextSid, left := seg.right, data := [], closed := false, next := none }
            ({ s with segs := (mUpdate s.segs cur (fun g => { g with closed := true })) ++ [nxt],
                      aofW := some nxt.sid, nextSid := s.nextSid + 1 }, nxt.sid)
          else (s, cur)
        let (s2, fits) := s1.ensure space
        if !fits then (s2, done, true) else
        let piece := buf.take space
        let s3 := { s2 with segs := mUpdate s2.segs cur1 (fun g => { g with data := g.data ++ piece }),
                            total := s2.total + piece.length,
                            hist := s2.hist ++ piece }
        Mem.appendAofLoop fuel s3 (buf.drop space) (done + piece.length)

/-- `finishAof` for the writer whose current segment is `cur`;
    `isCurrent` = `mc.aofWriter == writer` -/
def Mem.finishAof (s : Mem) (cur : Nat) (isCurrent : Bool) : Mem :=
  let segs1 := mUpdate s.segs cur (fun g => { g with closed := true })
  let heap1 := mUpdate s.heap cur (fun g => { g with closed := true })
  -- a writer blocked in `ensureCapacityLocked` when it is finished gets `io.EOF` (its
  -- `done` channel): the rest of its chunk is dropped, it is never appended later
  let s1 := { s with segs := segs1, heap := heap1, aofW := if isCurrent then none else s.aofW, pendA := none }
  let s2 := match mFind s1.segs cur with
    | some g => if g.data.isEmpty then
        { s1 with segs := s1.segs.filter (fun x => x.sid != cur), heap := g :: s1.heap } else s1
    | none => s1
  s2.gc 0

/-! ### snapshot writer -/

def Mem.appendRdbLoop : Nat → Mem → Bytes → Nat → Mem × Nat × Bool
  | 0, s, _, done => (s, done, false)
  | fuel + 1, s, buf, done =>
    if buf.isEmpty then (s, done, false) else
    match s.rdb with
    | none => (s, done, false)
    | some r =>
      if !r.writing then (s, done, false) else
      match mFind r.segs r.cur with
      | none => (s, done, false)
      | some seg =>
        let (space, rotate) := pieceSpace s.logSize seg.data.length buf.length
        let (s1, r1) :=
          if rotate then
            let nxt : MSeg := { sid := s.nextSid, left := seg.right, data := [], closed := false, next := none }
            let r' := { r with segs := (mUpdate r.segs r.cur (fun g => { g with closed := true, next := some nxt.sid })) ++ [nxt],
                               cur := nxt.sid }
            ({ s with rdb := some r', nextSid := s.nextSid + 1 }, r')
          else (s, r)
        let (s2, fits) := s1.ensure space
        if !fits then (s2, done, true) else
        -- `ensure` may have collected snapshot segments: re-read the snapshot
        match s2.rdb with
        | none => (s2, done, true)
        | some r2 =>
          let piece := buf.take space
          let r3 := { r2 with segs := mUpdate r2.segs r1.cur (fun g => { g with data := g.data ++ piece }),
                              written := r2.written + piece.length }
          let s3 := { s2 with rdb := some r3, total := s2.total + piece.length }
          Mem.appendRdbLoop fuel s3 (buf.drop space) (done + piece.length)

def mBuffered (segs : List MSeg) : Nat := (segs.map (·.data.length)).sum

/-- `finishRdb(writer, err)`; `failed` = `err != nil` (repaired, D14: an
    incomplete snapshot is dropped whatever the error) -/
def Mem.finishRdb (s : Mem) (failed : Bool) : Mem :=
  match s.rdb with
  | none => s
  | some r =>
    if !r.writing then s else
    let r1 := { r with segs := mUpdate r.segs r.cur (fun g => { g with closed := true }), writing := false }
    -- the writer is gone: a chunk it was blocked on is dropped (`io.EOF`)
    if failed || r1.written < r1.size then
      { s with rdb := none, total := s.total - mBuffered r1.segs, heap := r1.segs ++ s.heap, pendR := none }
    else { s with rdb := some r1, pendR := none }

/-! ### reset (`resetDataLocked`) -/

def Mem.reset (s : Mem) : Mem :=
  let rdbSegs := match s.rdb with | some r => r.segs | none => []
  { s with rdb := none, segs := [], aofW := none, total := 0, pendA := none, pendR := none,
           heap := mCloseAll (s.segs ++ rdbSegs) ++ s.heap, hbase := 0, hist := [] }

/-! ### readers -/

def mFindReader (rs : List MReader) (rid : Nat) : Option MReader := rs.find? (·.id == rid)

def mSetReader (rs : List MReader) (r : MReader) : List MReader :=
  rs.map (fun x => if x.id == r.id then r else x)

/-- `NewReader` (the copy goroutine starts with `copyStep`s) -/
def Mem.open (s : Mem) (rid off : Nat) : Mem × Out :=
  if (mFindReader s.readers rid).isSome then (s, .err) else    -- reader ids are fresh
  if !s.inRange off then (s, .notExist) else
  match s.indexAof off with
  | some g =>
    let r : MReader := { id := rid, isAof := true, seg := g.sid, pos := off, size := 0, st := .running, started := false,
                         released := false, closedByUser := false, buf := [], bbuf := [], start := off, out := [] }
    ({ s with readers := s.readers ++ [r] }, .aof off)
  | none =>
    match s.rdbOffered with
    | some rd =>
      if off ≤ rd.left then
        match rd.segs with
        | first :: _ =>
          let r : MReader := { id := rid, isAof := false, seg := first.sid, pos := 0, size := rd.size, st := .running, started := false,
                               released := false, closedByUser := false, buf := [], bbuf := [], start := 0, out := [] }
          ({ s with readers := s.readers ++ [r] }, .rdb rd.left rd.size)
        | [] => (s, .notExist)
      else (s, .notExist)
    | none => (s, .notExist)

/-- `nextAofSegment(current)`: the indexed segment after `current`, looked up
    by identity (repaired, D25: the lookup used to go by `left`, which a new
    history after a reset can reuse) -/
def mNextOf : List MSeg → Nat → Option MSeg
  | [], _ => none
  | [_], _ => none
  | g :: h :: rest, sid => if g.sid == sid then some h else mNextOf (h :: rest) sid

/-- One iteration of `copyAofFrom` / `copyRdbFrom`. Returns `false` when the
    goroutine is blocked (waiting for data) or has returned. -/
def Mem.copyStep (s : Mem) (rid : Nat) : Mem × Bool :=
  match mFindReader s.readers rid with
  | none => (s, false)
  | some r =>
    if r.released || !r.started then (s, false) else
    let finish (st : RSt) : Mem × Bool :=
      ({ s with readers := mSetReader s.readers { r with st := st, released := true } }, true)
    if r.closedByUser then finish .ended else
    match s.lookup r.seg with
    | none => finish .failed
    | some g =>
      if r.isAof then
        if r.pos < g.left then finish .failed        -- "negative read offset"
        else
        let bs := g.data.drop (r.pos - g.left)
        if !bs.isEmpty then
          let r' := { r with pos := r.pos + bs.length, buf := r.buf ++ bs, out := r.out ++ bs }
          ({ s with readers := mSetReader s.readers r' }, true)
        else if g.closed then
          match mNextOf s.segs g.sid with
          | none => finish .ended
          | some nx => ({ s with readers := mSetReader s.readers { r with seg := nx.sid } }, true)
        else (s, false)
      else
        if r.pos ≥ r.size then finish .ended else
        if r.pos < g.left then finish .failed else
        let bs := g.data.drop (r.pos - g.left)
        if !bs.isEmpty then
          let r' := { r with pos := r.pos + bs.length, buf := r.buf ++ bs, out := r.out ++ bs }
          ({ s with readers := mSetReader s.readers r' }, true)
        else if g.closed then
          match g.next with
          | none => finish .failed                   -- io.ErrUnexpectedEOF
          | some nx => ({ s with readers := mSetReader s.readers { r with seg := nx } }, true)
        else (s, false)

/-- the consumer's `bufio.Reader.Read(p)` with `len(p) = n`: bytes already in
    the bufio buffer are returned first; an empty buffer is refilled with one
    pipe read (everything the pipe holds, test sizes stay below its 1 MiB). -/
def Mem.consume (s : Mem) (rid n : Nat) : Mem × Out :=
  match mFindReader s.readers rid with
  | none => (s, .err)
  | some r =>
    if !r.bbuf.isEmpty then
      ({ s with readers := mSetReader s.readers { r with bbuf := r.bbuf.drop n } }, .data (r.bbuf.take n))
    else if !r.buf.isEmpty then
      ({ s with readers := mSetReader s.readers { r with bbuf := r.buf.drop n, buf := [] } }, .data (r.buf.take n))
    else if r.released then
      match r.st with
      | .failed => (s, .err)
      | _ => (s, .eof)
    else (s, .none)      -- would block

def Mem.closeReader (s : Mem) (rid : Nat) : Mem × Out :=
  match mFindReader s.readers rid with
  | none => (s, .err)
  | some r =>
    -- `Close` before `Start` runs the cleanup (release) itself
    if r.started then ({ s with readers := mSetReader s.readers { r with closedByUser := true } }, .ok)
    else ({ s with readers := mSetReader s.readers { r with closedByUser := true, released := true, st := .ended } }, .ok)

/-- A blocked writer is woken and tries again (its capacity loop, then the rest
    of its append loop). Returns whether anything changed. -/
def Mem.retry (s : Mem) : Mem × Bool :=
  match s.pendA with
  | some buf =>
    (match s.aofW with
     | none => ({ s with pendA := none }, true)     -- writer gone: the append fails
     | some _ =>
       let (s1, n, blocked) := Mem.appendAofLoop (buf.length + 1) s buf 0
       if blocked then ({ s1 with pendA := some (buf.drop n) }, decide (n > 0) || decide (s1.total ≠ s.total))
       else ({ s1 with pendA := none }, true))
  | none =>
    match s.pendR with
    | some buf =>
      (match s.rdb with
       | none => ({ s with pendR := none }, true)
       | some r =>
         if !r.writing then ({ s with pendR := none }, true) else
         let (s1, n, blocked) := Mem.appendRdbLoop (buf.length + 1) s buf 0
         if blocked then ({ s1 with pendR := some (buf.drop n) }, decide (n > 0) || decide (s1.total ≠ s.total))
         else
           let s2 := { s1 with pendR := none }
           (match s2.rdb with
            | some r2 => if r2.writing && r2.written ≥ r2.size then (s2.finishRdb false, true) else (s2, true)
            | none => (s2, true)))
    | none => (s, false)

/-! ### the step function -/

def Mem.step (s : Mem) : MOp → Mem × Out
  | .setRunId id => ({ s with runId := id }, .ok)
  | .delRunId id =>
    if id != "" && id != "?" && s.runId != "" && id != s.runId then (s, .ok)
    else ({ s.reset with runId := "" }, .ok)
  | .newRdbWriter off size =>
    let s1 := s.reset
    let first : MSeg := { sid := s1.nextSid, left := 0, data := [], closed := false, next := none }
    ({ s1 with rdb := some { left := off, size := size, written := 0, replayable := true,
                             segs := [first], writing := true, cur := first.sid },
               nextSid := s1.nextSid + 1 }, .ok)
  | .rdbAppend chunk =>
    -- the writer's goroutine is blocked inside the previous append: no further append can be issued
    if s.pendR.isSome then (s, .none) else
    let (s1, n, blocked) := Mem.appendRdbLoop (chunk.length + 1) s chunk 0
    if blocked then ({ s1 with pendR := some (chunk.drop n) }, .blocked n) else
    match s1.rdb with
    | some r =>
      if r.writing && r.written ≥ r.size then (s1.finishRdb false, .done) else (s1, .ok)
    | none => (s1, .ok)
  | .rdbClose => (s.finishRdb false, .ok)
  | .rdbFail => (s.finishRdb true, .ok)
  | .newAofWriter off =>
    match mLastRight s.segs with
    | some r =>
      if r != off then (s, .refused) else
      let seg : MSeg := { sid := s.nextSid, left := off, data := [], closed := false, next := none }
      let s1 := { s with segs := s.segs ++ [seg], aofW := some seg.sid, nextSid := s.nextSid + 1 }
      -- old.Close() → finishAof(old) after the new writer is installed
      let s2 := match s.aofW with
        | some old => s1.finishAof old false
        | none => s1
      (s2, .ok)
    | none =>
      let seg : MSeg := { sid := s.nextSid, left := off, data := [], closed := false, next := none }
      let s1 := { s with segs := [seg], aofW := some seg.sid, nextSid := s.nextSid + 1, hbase := off, hist := [] }
      let s2 := match s.aofW with
        | some old => s1.finishAof old false
        | none => s1
      (s2, .ok)
  | .aofAppend chunk =>
    match s.aofW with
    | none => (s, .errEof)
    | some _ =>
      -- the writer's goroutine is blocked inside the previous append: no further append can be issued
      if s.pendA.isSome then (s, .none) else
      let (s1, n, blocked) := Mem.appendAofLoop (chunk.length + 1) s chunk 0
      if blocked then ({ s1 with pendA := some (chunk.drop n) }, .blocked n) else (s1, .ok)
  | .aofClose =>
    match s.aofW with
    | some cur => (s.finishAof cur true, .ok)
    | none => (s, .ok)
  | .openReader rid off => s.open rid off
  | .startReader rid =>
    match mFindReader s.readers rid with
    | some r =>
      if r.closedByUser then (s, .ok)
      else ({ s with readers := mSetReader s.readers { r with started := true } }, .ok)
    | none => (s, .err)
  | .copyStep rid => let (s', _) := s.copyStep rid; (s', .ok)
  | .consume rid n => s.consume rid n
  | .closeReader rid => s.closeReader rid
  | .retryAppend => (s.retry.1, .ok)

def Mem.run (s : Mem) : List MOp → Mem
  | [] => s
  | op :: rest => ((s.step op).1).run rest

/-- every copy goroutine runs until it is blocked or has returned -/
def Mem.settleReader : Nat → Mem → Nat → Mem
  | 0, s, _ => s
  | fuel + 1, s, rid =>
    let (s', progress) := s.copyStep rid
    if progress then Mem.settleReader fuel s' rid else s'

def Mem.settleReaders (s : Mem) : Mem :=
  s.readers.foldl (fun acc r => Mem.settleReader (2 * (acc.segs.length + acc.heap.length +
      (match acc.rdb with | some rd => rd.segs.length | none => 0) + 4)) acc r.id) s

/-- all goroutines run until each is blocked or has returned: copy loops
    drain, a blocked writer retries, and again while that made progress -/
def Mem.settleLoop : Nat → Mem → Mem
  | 0, s => s
  | fuel + 1, s =>
    let s1 := s.settleReaders
    let (s2, progress) := s1.retry
    if progress then Mem.settleLoop fuel s2 else s2

def Mem.settle (s : Mem) : Mem :=
  Mem.settleLoop ((match s.pendA with | some b => b.length | none => 0) +
                  (match s.pendR with | some b => b.length | none => 0) + 2) s

/-- the abstraction: what the memory cache holds (the contiguous run) -/
def Mem.abs (s : Mem) : Log :=
  { id := s.runId,
    base := match s.runRev.getLast? with
      | some g => g.left
      | none => match s.rdb with
        | some r => r.left
        | none => 0,
    bytes := s.runRev.reverse.flatMap (·.data),
    snapshot := match s.rdbOffered with
      | some r => if r.written = r.size then some { left := r.left, size := r.size, bytes := r.segs.flatMap (·.data) } else none
      | none => none }

end GunYu.Store
