/-
  C19 — composition over sender segments (blocking modes).

  A run of the replication sender against a cluster target is a list of SEGMENTS: one
  connection life / one invocation of the send loop. A segment starts by reading the resume
  position stored on the target, sends batches from there, and ends cleanly, on a receiver
  error in the middle of a batch, because the run is closed, or because leadership is handed
  over. The next segment (same or another process) starts again from the stored position.

  Commands are identified by their index in the specification stream (`0 … n-1`; a position
  `p` = "the first `p` commands"). `grp i` is the slot-group / connection the command travels
  on: the parts of one batch that go to different nodes execute concurrently, so the target's
  global execution order is an interleaving; per group the per-segment theorems of
  Props/C19.lean give source order (`per_key_order_partial`: strictly increasing, nothing
  twice inside a segment attempt) and completeness of an acknowledged batch
  (`redirect_never_loses`, `unexecuted_blocks_ok`). Those facts are the admissibility
  conditions of a batch here. Model/ClusterExec.lean is the operational model below this
  automaton: Proofs/ClusterExec.lean proves that its runs are runs of this automaton, i.e. that
  the conditions hold (and `Disciplined` / `PrefixRun` with them).

  BLOCKING modes only (Batch.Exec / transactional batch): a batch is sent when the previous
  one has been answered, and the position is stored only after the data commands of the batch
  went through — this is the DISCIPLINE the blocking theorems rest on (`Disciplined`: a cut
  batch stores nothing), not something the cluster client gives for free: it does not send
  MULTI/EXEC, a "transactional" batch is a plain pipeline on one node. output.go sendFuncOnce
  establishes it for every blocking mode on a cluster target by sending the position in a
  batch of its own, only after the data batch went through: plain mode since 4140441,
  transactional mode since 5c65a57 (before that the position rode behind the data in the same
  pipeline and was applied even when a data command was answered MOVED or an error — C19out
  scenario txn-block-resume). The pipelined modes do not satisfy this (C19-F1,
  C19-F2): a `cut … true` event stores a position for a batch that is not acknowledged; the
  counter-witness is in Props/C19.lean.
-/
namespace GunYu.ClusterSegments

abbrev Idx := Nat

/-- the specification indices `p … q-1` -/
def rng (p q : Nat) : List Nat := List.range' p (q - p)

/-- what the target has executed, keeping for every command its LAST execution only
    (a replayed command overwrites its earlier execution): the effective stream -/
def keepLast : List Nat → List Nat
  | [] => []
  | x :: xs => if x ∈ xs then keepLast xs else x :: keepLast xs

structure Tgt where
  log : List Nat := []      -- executions on the target, in the target's global order
  stored : Nat := 0         -- resume position stored on the target
  acked : Nat := 0          -- highest position a completed (acknowledged) batch reached
  cur : Nat := 0            -- the sender's send position in the current segment
  deriving DecidableEq, Repr

/-- what one batch attempt `[cur, q)` did on the target -/
inductive Outcome where
  /-- every command executed (`app` = an interleaving of the range, per group in order);
      the batch is acknowledged; the position `q` is stored iff `store` -/
  | ok (app : List Nat) (store : Bool)
  /-- the attempt failed or was cut (error answer, redirect not followed, connection lost,
      run closed, hand-over): only `app` executed, nothing is acknowledged. `store = true`: the
      position `q` was stored all the same — what the BLOCKING discipline forbids
      (`Disciplined`) and what the pipelined modes do (C19-F2); transactional mode on a cluster
      did it until 5c65a57 -/
  | cut (app : List Nat) (store : Bool)
  deriving Repr

inductive EndReason where
  | clean | receiverError | closed | handOver
  deriving DecidableEq, Repr

inductive Ev where
  | start                           -- a segment starts: the send position := the stored position
  | batch (q : Nat) (o : Outcome)
  deriving Repr

section
variable (n : Nat) (grp : Nat → Nat)

/-- admissible executions of a batch attempt `[p, q)`: within the range, nothing twice -/
def AppOK (p q : Nat) (app : List Nat) : Prop :=
  app.Nodup ∧ ∀ i ∈ app, p ≤ i ∧ i < q

/-- an acknowledged batch: every group's part executed completely and in source order -/
def Complete (p q : Nat) (app : List Nat) : Prop :=
  ∀ i ∈ rng p q, app.filter (fun j => grp j == grp i) = (rng p q).filter (fun j => grp j == grp i)

/-- a cut batch under the fault model "redirect of a slot / loss of a connection": every group
    executed a PREFIX of its part (used only for `executed_downward_closed`) -/
def PrefixCut (p q : Nat) (app : List Nat) : Prop :=
  ∀ i ∈ rng p q, (app.filter (fun j => grp j == grp i)) <+: ((rng p q).filter (fun j => grp j == grp i))

instance (p q : Nat) (app : List Nat) : Decidable (AppOK p q app) := by unfold AppOK; infer_instance
instance (p q : Nat) (app : List Nat) : Decidable (Complete grp p q app) := by unfold Complete; infer_instance

def step (s : Tgt) : Ev → Option Tgt
  | .start => some { s with cur := s.stored }
  | .batch q (.ok app store) =>
    -- `q = cur`: nothing to send, a position-only flush (checkpoint ticker, final flush) or keep-alive
    if s.cur ≤ q ∧ q ≤ n ∧ AppOK s.cur q app ∧ Complete grp s.cur q app then
      some { log := s.log ++ app, cur := q, acked := max s.acked q,
             stored := if store then q else s.stored }
    else none
  | .batch q (.cut app store) =>
    if s.cur ≤ q ∧ q ≤ n ∧ AppOK s.cur q app then
      some { s with log := s.log ++ app, stored := if store then q else s.stored }
    else none

def run (s : Tgt) : List Ev → Option Tgt
  | [] => some s
  | e :: es =>
    match step n grp s e with
    | some s' => run s' es
    | none => none

/-- a segment: the batches it sent (each with what happened) and how it ended -/
structure Segment where
  batches : List (Nat × Outcome)
  ending : EndReason
  deriving Repr

def Segment.events (sg : Segment) : List Ev := .start :: sg.batches.map (fun b => .batch b.1 b.2)

def isOk : Outcome → Bool
  | .ok _ _ => true
  | .cut _ _ => false

/-- the blocking discipline: a batch that was not acknowledged stores no position -/
def cutStoresNothing : Ev → Prop
  | .batch _ (.cut _ st) => st = false
  | _ => True

def Disciplined (evs : List Ev) : Prop := ∀ e ∈ evs, cutStoresNothing e

/-- the end reason agrees with the batches: a clean segment has no cut batch; a segment that
    ended on a receiver error has one -/
def Segment.wellFormed (sg : Segment) : Prop :=
  (sg.ending = .clean → ∀ b ∈ sg.batches, isOk b.2 = true) ∧
  (sg.ending = .receiverError → ∃ b ∈ sg.batches, isOk b.2 = false)

instance (sg : Segment) : Decidable sg.wellFormed := by unfold Segment.wellFormed; infer_instance

def runSegments (s : Tgt) (sgs : List Segment) : Option Tgt := run n grp s (sgs.flatMap Segment.events)

end

end GunYu.ClusterSegments
