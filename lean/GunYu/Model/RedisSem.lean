/-
  C03 — the replay ORACLE: what the commands the tool issues do to a Redis
  keyspace (specification, transcribed from the Redis command reference:
  SET, RPUSH, SADD, ZADD, HSET, XADD, XSETID, XGROUP CREATE, XCLAIM … JUSTID
  FORCE, DEL, PEXPIRE, RESTORE). Values keep what the property names: element
  order of lists, scores of sorted sets (as the token the source stores — the
  8 bytes of a double or the string of a ziplist/listpack element, both sides
  apply the same `strtod`), field values of hashes, entries and ids of streams,
  and the time to live.
-/
import GunYu.Model.Rdb.Basic

namespace GunYu.RedisSem
open GunYu GunYu.Rdb

/-- one stream entry -/
structure XEntry where
  id : Bytes              -- "ms-seq"
  fields : List Bytes     -- f1 v1 f2 v2 …
  deriving Repr, DecidableEq, Inhabited

structure XNack where
  id : Bytes
  consumer : Bytes
  time : Bytes
  count : Bytes
  deriving Repr, DecidableEq, Inhabited

structure XGroup where
  name : Bytes
  lastId : Bytes
  entriesRead : Option Bytes
  pel : List XNack
  deriving Repr, DecidableEq, Inhabited

structure XStream where
  entries : List XEntry := []
  lastId : Bytes := b!"0-0"
  entriesAdded : Option Bytes := none
  maxDeleted : Option Bytes := none
  groups : List XGroup := []
  deriving Repr, DecidableEq, Inhabited

inductive Val where
  | str (s : Bytes)
  | list (l : List Bytes)
  /-- members in insertion order, no duplicates -/
  | set (l : List Bytes)
  /-- member ↦ score token, insertion order -/
  | zset (l : List (Bytes × Arg))
  | hash (l : List (Bytes × Bytes))
  | stream (s : XStream)
  /-- an opaque value created by RESTORE from this payload -/
  | restored (payload : Bytes)
  deriving Repr, DecidableEq, Inhabited

/-- key ↦ (value, ttl in ms; 0 = none) -/
abbrev Keyspace := List (Bytes × Val × Nat)

def get (ks : Keyspace) (k : Bytes) : Option (Val × Nat) := (ks.find? (fun e => e.1 == k)).map (·.2)

def put (ks : Keyspace) (k : Bytes) (v : Val) (ttl : Nat) : Keyspace :=
  if ks.any (fun e => e.1 == k) then ks.map (fun e => if e.1 == k then (k, v, ttl) else e)
  else ks ++ [(k, v, ttl)]

def del (ks : Keyspace) (k : Bytes) : Keyspace := ks.filter (fun e => !(e.1 == k))

/-- upsert in an association list, keeping the position of an existing key -/
def upsert {β} (l : List (Bytes × β)) (k : Bytes) (v : β) : List (Bytes × β) :=
  if l.any (fun e => e.1 == k) then l.map (fun e => if e.1 == k then (k, v) else e) else l ++ [(k, v)]

def argBytes : Arg → Option Bytes
  | .b bs => some bs
  | .f _ => none

/-- compare "ms-seq" ids numerically -/
def splitId (id : Bytes) : Option (Nat × Nat) :=
  match id.span (· ≠ 45) with
  | (a, _ :: b) => match decToNat? a, decToNat? b with
    | some x, some y => some (x, y)
    | _, _ => none
  | _ => none

def idLt (a b : Bytes) : Bool :=
  match splitId a, splitId b with
  | some (a1, a2), some (b1, b2) => a1 < b1 || (a1 == b1 && a2 < b2)
  | _, _ => false

def doRpush (ks : Keyspace) (k e : Bytes) : Option Keyspace :=
  match get ks k with
  | none => some (put ks k (.list [e]) 0)
  | some (.list l, t) => some (put ks k (.list (l ++ [e])) t)
  | _ => none

def doSadd (ks : Keyspace) (k m : Bytes) : Option Keyspace :=
  match get ks k with
  | none => some (put ks k (.set [m]) 0)
  | some (.set l, t) => some (put ks k (.set (if l.contains m then l else l ++ [m])) t)
  | _ => none

def doZadd (ks : Keyspace) (k : Bytes) (score : Arg) (m : Bytes) : Option Keyspace :=
  match get ks k with
  | none => some (put ks k (.zset [(m, score)]) 0)
  | some (.zset l, t) => some (put ks k (.zset (upsert l m score)) t)
  | _ => none

def doHset (ks : Keyspace) (k f v : Bytes) : Option Keyspace :=
  match get ks k with
  | none => some (put ks k (.hash [(f, v)]) 0)
  | some (.hash l, t) => some (put ks k (.hash (upsert l f v)) t)
  | _ => none

def doPexpire (ks : Keyspace) (k t : Bytes) : Option Keyspace :=
  match decToNat? t, get ks k with
  | some ttl, some (v, _) => some (put ks k v ttl)
  | some _, none => some ks
  | none, _ => none

def doRestore (ks : Keyspace) (k t payload : Bytes) (opts : List Arg) : Option Keyspace :=
  match decToNat? t with
  | none => none
  | some ttl =>
    let replace := opts.any (fun a => a == .b b!"REPLACE")
    if (get ks k).isSome && !replace then none       -- BUSYKEY
    else some (put (del ks k) k (.restored payload) ttl)

/-- XADD key [MAXLEN 0] id field value … -/
def doXadd (ks : Keyspace) (k : Bytes) (maxlen0 : Bool) (id : Bytes) (fv : List Arg) : Option Keyspace :=
  match fv.mapM argBytes with
  | none => none
  | some fvb =>
    if fvb.isEmpty || fvb.length % 2 ≠ 0 then none else
    match get ks k with
    | none =>
      if idLt b!"0-0" id then
        some (put ks k (.stream { entries := if maxlen0 then [] else [⟨id, fvb⟩], lastId := id }) 0)
      else none
    | some (.stream s, t) =>
      if idLt s.lastId id then
        some (put ks k (.stream { s with entries := if maxlen0 then [] else s.entries ++ [⟨id, fvb⟩],
                                          lastId := id }) t)
      else none
    | _ => none

def doXsetid (ks : Keyspace) (k : Bytes) (rest : List Arg) : Option Keyspace :=
  match rest, get ks k with
  | [.b id], some (.stream s, t) => some (put ks k (.stream { s with lastId := id }) t)
  | [.b id, .b ea, .b n, .b md, .b mid], some (.stream s, t) =>
    if ea = b!"ENTRIESADDED" ∧ md = b!"MAXDELETEDID" then
      some (put ks k (.stream { s with lastId := id, entriesAdded := some n, maxDeleted := some mid }) t)
    else none
  | _, _ => none

/-- one command; `none` = the server replies with an error -/
def applyCmd (ks : Keyspace) (c : Cmd) : Option Keyspace :=
  let name := lower c.name
  match c.args with
  | [] => none
  | karg :: rest =>
    match argBytes karg with
    | none => none
    | some k =>
      if name = b!"set" then
        match rest with
        | [.b v] => some (put ks k (.str v) 0)
        | _ => none
      else if name = b!"del" then some (del ks k)
      else if name = b!"exists" then some ks          -- a read: the keyspace is unchanged
      else if name = b!"pexpire" then
        match rest with
        | [.b t] => doPexpire ks k t
        | _ => none
      else if name = b!"rpush" then
        match rest with
        | [.b e] => doRpush ks k e
        | _ => none
      else if name = b!"sadd" then
        match rest with
        | [.b m] => doSadd ks k m
        | _ => none
      else if name = b!"zadd" then
        match rest with
        | [score, .b m] => doZadd ks k score m
        | _ => none
      else if name = b!"hset" then
        match rest with
        | [.b f, .b v] => doHset ks k f v
        | _ => none
      else if name = b!"restore" then
        match rest with
        | .b t :: .b payload :: opts => doRestore ks k t payload opts
        | _ => none
      else if name = b!"xadd" then
        match rest with
        | .b m :: .b z :: .b id :: fv =>
          if m = b!"MAXLEN" ∧ z = b!"0" then doXadd ks k true id fv
          else doXadd ks k false m (.b z :: .b id :: fv)
        | .b id :: fv => doXadd ks k false id fv
        | _ => none
      else if name = b!"xsetid" then doXsetid ks k rest
      else none

/-- XGROUP CREATE key group id [ENTRIESREAD n] and XCLAIM … JUSTID FORCE carry
    the key in the second / first position -/
def applyXCmd (ks : Keyspace) (c : Cmd) : Option Keyspace :=
  let name := lower c.name
  if name = b!"xgroup" then
    match c.args with
    | .b cr :: .b k :: .b g :: .b id :: opt =>
      if cr ≠ b!"CREATE" then none else
      match get ks k with
      | some (.stream s, t) =>
        if s.groups.any (fun x => x.name == g) then none else
        let er := match opt with
          | [.b e, .b n] => if e = b!"ENTRIESREAD" then some n else none
          | _ => none
        some (put ks k (.stream { s with groups := s.groups ++ [⟨g, id, er, []⟩] }) t)
      | _ => none
    | _ => none
  else if name = b!"xclaim" then
    match c.args with
    | [.b k, .b g, .b cons, .b _, .b id, .b _, .b time, .b _, .b count, .b _, .b _] =>
      match get ks k with
      | some (.stream s, t) =>
        if s.groups.any (fun x => x.name == g) then
          some (put ks k (.stream { s with groups := s.groups.map (fun x =>
            if x.name == g then { x with pel := (x.pel.filter (fun n => !(n.id == id))) ++ [⟨id, cons, time, count⟩] } else x) }) t)
        else none
      | _ => none
    | _ => none
  else applyCmd ks c

def applyCmds : Keyspace → List Cmd → Option Keyspace
  | ks, [] => some ks
  | ks, c :: cs =>
    match applyXCmd ks c with
    | none => none
    | some ks' => applyCmds ks' cs

/-! ## the target as a whole: numbered databases and a connection's current one -/

/-- the target server as one connection sees it: the database the connection has
    selected and the keyspace of every database -/
structure TState where
  cur : Int := 0
  dbs : Int → Keyspace := fun _ => []

instance : Inhabited TState := ⟨{}⟩

def TState.setDb (t : TState) (d : Int) (ks : Keyspace) : TState :=
  { t with dbs := fun x => if x = d then ks else t.dbs x }

/-- one request on the connection: `SELECT n` (decimal index, not negative) switches
    the database; `SCRIPT LOAD` and `FUNCTION RESTORE` touch no keyspace; every
    other command acts on the selected database. `none` = an error reply. -/
def applyReq (t : TState) (c : Cmd) : Option TState :=
  let name := lower c.name
  if name = b!"select" then
    match c.args with
    | [.b n] =>
      match decToNat? n with
      | some d => some { t with cur := Int.ofNat d }
      | none => none
    | _ => none
  else if name = b!"script" ∨ name = b!"function" then some t
  else (applyXCmd (t.dbs t.cur) c).map (fun ks => t.setDb t.cur ks)

def applyReqs : TState → List Cmd → Option TState
  | t, [] => some t
  | t, c :: cs =>
    match applyReq t c with
    | none => none
    | some t' => applyReqs t' cs

/-! ## several connections (one per replay worker) -/

/-- the target with several client connections: every connection has selected its own
    database, the keyspaces are shared -/
structure MState where
  cur : Nat → Int := fun _ => 0
  dbs : Int → Keyspace := fun _ => []

instance : Inhabited MState := ⟨{}⟩

/-- the target as connection `j` sees it -/
def MState.conn (m : MState) (j : Nat) : TState := { cur := m.cur j, dbs := m.dbs }

/-- … and after connection `j` has left it as `t` -/
def MState.put (m : MState) (j : Nat) (t : TState) : MState :=
  { cur := fun i => if i = j then t.cur else m.cur i, dbs := t.dbs }

/-- one request of connection `p.1` (requests are atomic on the server) -/
def applyTagged (m : MState) (p : Nat × Cmd) : Option MState :=
  (applyReq (m.conn p.1) p.2).map (m.put p.1)

/-- a schedule: the requests of all connections in the order the server executes them -/
def applySched : MState → List (Nat × Cmd) → Option MState
  | m, [] => some m
  | m, p :: ps =>
    match applyTagged m p with
    | none => none
    | some m' => applySched m' ps

end GunYu.RedisSem
