/-
  C03 — the replay ORACLE: what the commands the tool issues do to a Redis
  keyspace (specification, transcribed from the Redis command reference:
  SET, RPUSH, SADD, ZADD, HSET, XADD, XSETID, XGROUP CREATE, XCLAIM … JUSTID
  FORCE, DEL, PEXPIRE, RESTORE). Values keep what the property names: element
  order of lists, scores of sorted sets (as the token the source stores — the
  8 bytes of a double or the string of a ziplist/listpack element, both sides
  apply the same `strtod`), field values of hashes, entries and ids of streams,
  and the time to live.
-/
import GunYu.Model.Rdb.Basic

namespace GunYu.RedisSem
open GunYu GunYu.Rdb

/-- one stream entry -/
structure XEntry where
  id : Bytes              -- "ms-seq"
  fields : List Bytes     -- f1 v1 f2 v2 …
  deriving Repr, DecidableEq, Inhabited

structure XNack where
  id : Bytes
  consumer : Bytes
  time : Bytes
  count : Bytes
  deriving Repr, DecidableEq, Inhabited

structure XGroup where
  name : Bytes
  lastId : Bytes
  entriesRead : Option Bytes
  pel : List XNack
  /-- the group's consumers by name, in creation order (XGROUP CREATECONSUMER, or the first
      XCLAIM that really claims an entry for the name) -/
  consumers : List Bytes := []
  deriving Repr, DecidableEq, Inhabited

structure XStream where
  entries : List XEntry := []
  lastId : Bytes := b!"0-0"
  entriesAdded : Option Bytes := none
  maxDeleted : Option Bytes := none
  groups : List XGroup := []
  deriving Repr, DecidableEq, Inhabited

inductive Val where
  | str (s : Bytes)
  | list (l : List Bytes)
  /-- members in insertion order, no duplicates -/
  | set (l : List Bytes)
  /-- member ↦ score token, insertion order -/
  | zset (l : List (Bytes × Arg))
  | hash (l : List (Bytes × Bytes))
  | stream (s : XStream)
  /-- an opaque value created by RESTORE from this payload -/
  | restored (payload : Bytes)
  deriving Repr, DecidableEq, Inhabited

/-- key ↦ (value, ttl in ms; 0 = none) -/
abbrev Keyspace := List (Bytes × Val × Nat)

def get (ks : Keyspace) (k : Bytes) : Option (Val × Nat) := (ks.find? (fun e => e.1 == k)).map (·.2)

def put (ks : Keyspace) (k : Bytes) (v : Val) (ttl : Nat) : Keyspace :=
  if ks.any (fun e => e.1 == k) then ks.map (fun e => if e.1 == k then (k, v, ttl) else e)
  else ks ++ [(k, v, ttl)]

def del (ks : Keyspace) (k : Bytes) : Keyspace := ks.filter (fun e => !(e.1 == k))

/-- upsert in an association list, keeping the position of an existing key -/
def upsert {β} (l : List (Bytes × β)) (k : Bytes) (v : β) : List (Bytes × β) :=
  if l.any (fun e => e.1 == k) then l.map (fun e => if e.1 == k then (k, v) else e) else l ++ [(k, v)]

def argBytes : Arg → Option Bytes
  | .b bs => some bs
  | .f _ => none

/-- compare "ms-seq" ids numerically -/
def splitId (id : Bytes) : Option (Nat × Nat) :=
  match id.span (· ≠ 45) with
  | (a, _ :: b) => match decToNat? a, decToNat? b with
    | some x, some y => some (x, y)
    | _, _ => none
  | _ => none

def idLt (a b : Bytes) : Bool :=
  match splitId a, splitId b with
  | some (a1, a2), some (b1, b2) => a1 < b1 || (a1 == b1 && a2 < b2)
  | _, _ => false

def doRpush (ks : Keyspace) (k e : Bytes) : Option Keyspace :=
  match get ks k with
  | none => some (put ks k (.list [e]) 0)
  | some (.list l, t) => some (put ks k (.list (l ++ [e])) t)
  | _ => none

def doSadd (ks : Keyspace) (k m : Bytes) : Option Keyspace :=
  match get ks k with
  | none => some (put ks k (.set [m]) 0)
  | some (.set l, t) => some (put ks k (.set (if l.contains m then l else l ++ [m])) t)
  | _ => none

def doZadd (ks : Keyspace) (k : Bytes) (score : Arg) (m : Bytes) : Option Keyspace :=
  match get ks k with
  | none => some (put ks k (.zset [(m, score)]) 0)
  | some (.zset l, t) => some (put ks k (.zset (upsert l m score)) t)
  | _ => none

def doHset (ks : Keyspace) (k f v : Bytes) : Option Keyspace :=
  match get ks k with
  | none => some (put ks k (.hash [(f, v)]) 0)
  | some (.hash l, t) => some (put ks k (.hash (upsert l f v)) t)
  | _ => none

def doPexpire (ks : Keyspace) (k t : Bytes) : Option Keyspace :=
  match decToNat? t, get ks k with
  | some ttl, some (v, _) => some (put ks k v ttl)
  | some _, none => some ks
  | none, _ => none

def doRestore (ks : Keyspace) (k t payload : Bytes) (opts : List Arg) : Option Keyspace :=
  match decToNat? t with
  | none => none
  | some ttl =>
    let replace := opts.any (fun a => a == .b b!"REPLACE")
    if (get ks k).isSome && !replace then none       -- BUSYKEY
    else some (put (del ks k) k (.restored payload) ttl)

/-- XADD key [MAXLEN 0] id field value … -/
def doXadd (ks : Keyspace) (k : Bytes) (maxlen0 : Bool) (id : Bytes) (fv : List Arg) : Option Keyspace :=
  match fv.mapM argBytes with
  | none => none
  | some fvb =>
    if fvb.isEmpty || fvb.length % 2 ≠ 0 then none else
    match get ks k with
    | none =>
      if idLt b!"0-0" id then
        some (put ks k (.stream { entries := if maxlen0 then [] else [⟨id, fvb⟩], lastId := id }) 0)
      else none
    | some (.stream s, t) =>
      if idLt s.lastId id then
        some (put ks k (.stream { s with entries := if maxlen0 then [] else s.entries ++ [⟨id, fvb⟩],
                                          lastId := id }) t)
      else none
    | _ => none

/-- a stream id argument in the strict form `ms-seq`, both parts unsigned 64-bit
    (t_stream.c streamParseStrictIDOrReply) -/
def validId (id : Bytes) : Bool :=
  match splitId id with
  | some (a, b) => decide (a < 2 ^ 64) && decide (b < 2 ^ 64)
  | none => false

/-- a non-negative `long long` argument (getLongLongFromObjectOrReply + range check):
    decimal, at most 2^63-1 -/
def int63? (b : Bytes) : Option Nat :=
  match decToNat? b with
  | some v => if v < 2 ^ 63 then some v else none
  | none => none

/-- the ENTRIESREAD argument of XGROUP CREATE: a `long long` that is not negative, or -1 =
    unknown (t_stream.c xgroupCommand: "value for ENTRIESREAD must be positive or -1") -/
def validEntriesRead (n : Bytes) : Bool := n == b!"-1" || (int63? n).isSome

def isZeroId (id : Bytes) : Bool := splitId id == some (0, 0)

/-- `XSETID key id [ENTRIESADDED n MAXDELETEDID id]` with the checks of t_stream.c
    xsetidCommand (7.0): strict ids; `ENTRIESADDED` a non-negative long long; the id not below
    MAXDELETEDID ("smaller than the provided max_deleted_entry_id"); on a stream that HAS
    entries the id not below the top entry ("smaller than the target stream top item") and
    ENTRIESADDED not below the length ("smaller than the target stream length"). A 0-0
    MAXDELETEDID leaves the field as it is (0-0 on a stream that never had one). -/
def doXsetid (ks : Keyspace) (k : Bytes) (rest : List Arg) : Option Keyspace :=
  match get ks k with
  | some (.stream s, t) =>
    let topOk (id : Bytes) : Bool :=
      match s.entries.getLast? with
      | some e => !idLt id e.id
      | none => true
    match rest with
    | [.b id] =>
      if validId id && topOk id then some (put ks k (.stream { s with lastId := id }) t) else none
    | [.b id, .b ea, .b n, .b md, .b mid] =>
      if lower ea = b!"entriesadded" ∧ lower md = b!"maxdeletedid" then
        match int63? n with
        | none => none
        | some v =>
          if validId id && validId mid && !idLt id mid && topOk id &&
              (s.entries.isEmpty || decide (s.entries.length ≤ v)) then
            let md' : Bytes := if isZeroId mid then s.maxDeleted.getD mid else mid
            some (put ks k (.stream { s with lastId := id, entriesAdded := some n, maxDeleted := some md' }) t)
          else none
      else none
    | _ => none
  | _ => none

/-- one command; `none` = the server replies with an error -/
def applyCmd (ks : Keyspace) (c : Cmd) : Option Keyspace :=
  let name := lower c.name
  match c.args with
  | [] => none
  | karg :: rest =>
    match argBytes karg with
    | none => none
    | some k =>
      if name = b!"set" then
        match rest with
        | [.b v] => some (put ks k (.str v) 0)
        | _ => none
      else if name = b!"del" then some (del ks k)
      else if name = b!"exists" then some ks          -- a read: the keyspace is unchanged
      else if name = b!"pexpire" then
        match rest with
        | [.b t] => doPexpire ks k t
        | _ => none
      else if name = b!"rpush" then
        match rest with
        | [.b e] => doRpush ks k e
        | _ => none
      else if name = b!"sadd" then
        match rest with
        | [.b m] => doSadd ks k m
        | _ => none
      else if name = b!"zadd" then
        match rest with
        | [score, .b m] => doZadd ks k score m
        | _ => none
      else if name = b!"hset" then
        match rest with
        | [.b f, .b v] => doHset ks k f v
        | _ => none
      else if name = b!"restore" then
        match rest with
        | .b t :: .b payload :: opts => doRestore ks k t payload opts
        | _ => none
      else if name = b!"xadd" then
        match rest with
        | .b m :: .b z :: .b id :: fv =>
          if m = b!"MAXLEN" ∧ z = b!"0" then doXadd ks k true id fv
          else doXadd ks k false m (.b z :: .b id :: fv)
        | .b id :: fv => doXadd ks k false id fv
        | _ => none
      else if name = b!"xsetid" then doXsetid ks k rest
      else none

/-- the stream commands that carry the key in the second / first position, as t_stream.c
    defines them (`none` = an error reply, or a form outside this oracle):

    * `XGROUP CREATE key group id [ENTRIESREAD n]` — strict id; BUSYGROUP for an existing name;
      ENTRIESREAD a long long ≥ -1.
    * `XGROUP CREATECONSUMER key group consumer` (6.2) — NOGROUP for an unknown group; adds the
      consumer unless it exists.
    * `XCLAIM key group consumer 0 id TIME ms RETRYCOUNT n JUSTID FORCE [LASTID id]` — the one-id
      form with min-idle-time 0 (other forms: outside the oracle); the option words are inspected;
      TIME / RETRYCOUNT non-negative long longs. xclaimCommand: "Item must exist for us to
      transfer it to another consumer" and, for FORCE, a pending entry is created only "if at
      least the entry exists in the Stream": for an id that is NOT an entry of the stream NO
      pending entry is created (all versions 5-8), and an existing pending entry of that id is
      dropped (7.0+; 5/6 leave it). Otherwise the pending entry of that id is (re)created with
      the given owner, delivery time and count (JUSTID: the count is not incremented), and the
      consumer is created if the group does not know it. LASTID raises the group's
      last-delivered id. A TIME above the server's clock is stored as that clock — the oracle has
      no clock: it stores the argument, exact for delivery times that are not in the target's
      future (an assumption of the theorems, see checks/p/C03.py). -/
def applyXCmd (ks : Keyspace) (c : Cmd) : Option Keyspace :=
  let name := lower c.name
  if name = b!"xgroup" then
    match c.args with
    | [.b cc, .b k, .b g, .b cons] =>
      if lower cc = b!"createconsumer" then
        match get ks k with
        | some (.stream s, t) =>
          if s.groups.any (fun x => x.name == g) then
            some (put ks k (.stream { s with groups := s.groups.map (fun x =>
              if x.name == g then
                { x with consumers := if x.consumers.contains cons then x.consumers else x.consumers ++ [cons] }
              else x) }) t)
          else none
        | _ => none
      else if lower cc = b!"create" then
        match get ks k with
        | some (.stream s, t) =>
          if s.groups.any (fun x => x.name == g) || !validId cons then none else
          some (put ks k (.stream { s with groups := s.groups ++ [⟨g, cons, none, [], []⟩] }) t)
        | _ => none
      else none
    | [.b cr, .b k, .b g, .b id, .b e, .b n] =>
      if lower cr ≠ b!"create" ∨ lower e ≠ b!"entriesread" then none else
      match get ks k with
      | some (.stream s, t) =>
        if s.groups.any (fun x => x.name == g) || !validId id || !validEntriesRead n then none else
        some (put ks k (.stream { s with groups := s.groups ++ [⟨g, id, some n, [], []⟩] }) t)
      | _ => none
    | _ => none
  else if name = b!"xclaim" then
    match c.args with
    | .b k :: .b g :: .b cons :: .b mi :: .b id :: .b tw :: .b time :: .b rw :: .b count :: .b jw :: .b fw :: opt =>
      if lower tw ≠ b!"time" ∨ lower rw ≠ b!"retrycount" ∨ lower jw ≠ b!"justid" ∨ lower fw ≠ b!"force" ∨
          mi ≠ b!"0" ∨ !validId id ∨ (int63? time).isNone ∨ (int63? count).isNone then none else
      let lastid : Option (Option Bytes) :=
        match opt with
        | [] => some none
        | [.b lw, .b lid] => if lower lw = b!"lastid" ∧ validId lid then some (some lid) else none
        | _ => none
      match lastid, get ks k with
      | some lid, some (.stream s, t) =>
        if s.groups.any (fun x => x.name == g) then
          let live := s.entries.any (fun e => e.id == id)
          some (put ks k (.stream { s with groups := s.groups.map (fun x =>
            if x.name == g then
              let x1 : XGroup := match lid with
                | some l => if idLt x.lastId l then { x with lastId := l } else x
                | none => x
              if live then
                { x1 with pel := (x1.pel.filter (fun n => !(n.id == id))) ++ [⟨id, cons, time, count⟩],
                          consumers := if x1.consumers.contains cons then x1.consumers else x1.consumers ++ [cons] }
              else { x1 with pel := x1.pel.filter (fun n => !(n.id == id)) }
            else x) }) t)
        else none
      | _, _ => none
    | _ => none
  else applyCmd ks c

def applyCmds : Keyspace → List Cmd → Option Keyspace
  | ks, [] => some ks
  | ks, c :: cs =>
    match applyXCmd ks c with
    | none => none
    | some ks' => applyCmds ks' cs

/-! ## the target as a whole: numbered databases and a connection's current one -/

/-- the target server as one connection sees it: the database the connection has
    selected and the keyspace of every database -/
structure TState where
  cur : Int := 0
  dbs : Int → Keyspace := fun _ => []

instance : Inhabited TState := ⟨{}⟩

def TState.setDb (t : TState) (d : Int) (ks : Keyspace) : TState :=
  { t with dbs := fun x => if x = d then ks else t.dbs x }

/-- one request on the connection: `SELECT n` (decimal index, not negative) switches
    the database; `SCRIPT LOAD` and `FUNCTION RESTORE` touch no keyspace; every
    other command acts on the selected database. `none` = an error reply. -/
def applyReq (t : TState) (c : Cmd) : Option TState :=
  let name := lower c.name
  if name = b!"select" then
    match c.args with
    | [.b n] =>
      match decToNat? n with
      | some d => some { t with cur := Int.ofNat d }
      | none => none
    | _ => none
  else if name = b!"script" ∨ name = b!"function" then some t
  else (applyXCmd (t.dbs t.cur) c).map (fun ks => t.setDb t.cur ks)

def applyReqs : TState → List Cmd → Option TState
  | t, [] => some t
  | t, c :: cs =>
    match applyReq t c with
    | none => none
    | some t' => applyReqs t' cs

/-! ## several connections (one per replay worker) -/

/-- the target with several client connections: every connection has selected its own
    database, the keyspaces are shared -/
structure MState where
  cur : Nat → Int := fun _ => 0
  dbs : Int → Keyspace := fun _ => []

instance : Inhabited MState := ⟨{}⟩

/-- the target as connection `j` sees it -/
def MState.conn (m : MState) (j : Nat) : TState := { cur := m.cur j, dbs := m.dbs }

/-- … and after connection `j` has left it as `t` -/
def MState.put (m : MState) (j : Nat) (t : TState) : MState :=
  { cur := fun i => if i = j then t.cur else m.cur i, dbs := t.dbs }

/-- one request of connection `p.1` (requests are atomic on the server) -/
def applyTagged (m : MState) (p : Nat × Cmd) : Option MState :=
  (applyReq (m.conn p.1) p.2).map (m.put p.1)

/-- a schedule: the requests of all connections in the order the server executes them -/
def applySched : MState → List (Nat × Cmd) → Option MState
  | m, [] => some m
  | m, p :: ps =>
    match applyTagged m p with
    | none => none
    | some m' => applySched m' ps

end GunYu.RedisSem
