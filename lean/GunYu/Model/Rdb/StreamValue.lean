/-
  C03 — what a stream description DENOTES (specification side, new in session 4):
  the logical stream value in terms of the replay oracle (`RedisSem.XStream`:
  entries with ids, last id, entries-added / max-deleted-id counters, consumer
  groups with last-delivered id, entries-read and the pending-entries list with
  owner, delivery time and delivery count), the commands one expects the tool to
  expand it into, and what Redis guarantees of a stream beyond the byte-level
  well-formedness of `StreamE.wf` (`StreamE.sound`).

  Nothing here is used by the decoder / expansion model: `stream_roundtrip`
  (Props/C03.lean) proves that the model's expansion of the serialization IS
  `StreamE.cmds` and that the oracle turns it into `StreamE.xval`.
-/
import GunYu.Model.Rdb.Dataset

namespace GunYu.Rdb
open GunYu GunYu.RedisSem

/-! ## the logical value -/

/-- the live entries, in stream order: id and field/value list -/
def StreamE.entriesX (s : StreamE) : List XEntry :=
  s.nodes.flatMap (fun n => n.live.map (fun p => (⟨p.1, p.2⟩ : XEntry)))

/-- delivery time and delivery count the group's PEL records for a pending id
    (rax semantics: a later record of the same id replaces an earlier one; an id
    the group does not know has none) -/
def SGroupE.nack (g : SGroupE) (ms seq : Nat) : Nat × Nat :=
  match g.pel.reverse.find? (fun n => n.ms == ms && n.seq == seq) with
  | some n => (n.time, n.count)
  | none => (0, 0)

/-- the (ms, seq) of an entry when master + delta does not wrap (`SEntryE.idWf`) -/
def SEntryE.idN (e : SEntryE) (mMs mSeq : Nat) : Nat × Nat :=
  (((mMs : Int) + e.msDelta.int?.getD 0).toNat, ((mSeq : Int) + e.seqDelta.int?.getD 0).toNat)

/-- ids of the live entries, in order -/
def StreamE.liveIds (s : StreamE) : List (Nat × Nat) :=
  s.nodes.flatMap (fun n => (n.entries.filter (fun e => !e.deleted)).map (fun e => e.idN n.masterMs n.masterSeq))

/-- is the id an entry of the stream (not deleted, not trimmed away)? -/
def StreamE.isLive (s : StreamE) (p : Nat × Nat) : Bool := s.liveIds.contains p

/-- the pending entries of a group THAT COMMANDS CAN RECREATE, consumer by consumer: id, owner,
    delivery time (ms), delivery count — those whose entry is still in the stream. A pending id
    whose entry was deleted (XDEL) or trimmed (MAXLEN) is ordinary production data, kept by the
    RESTORE path, but `XCLAIM … FORCE` creates a pending entry only for an id that IS an entry of
    the stream (t_stream.c xclaimCommand): on the expansion path such pending ids are LOST — as
    they are in Redis' own AOF rewrite, which emits the same XCLAIMs. -/
def SGroupE.pelX (s : StreamE) (g : SGroupE) : List XNack :=
  g.consumers.flatMap (fun c => (c.pel.filter s.isLive).map (fun p =>
    (⟨fmtId p.1 p.2, c.name.val, natToDec (g.nack p.1 p.2).1, natToDec (g.nack p.1 p.2).2⟩ : XNack)))

/-- a consumer that owns a pending entry whose item is still in the stream (XCLAIM creates a
    consumer when it really claims an entry) -/
def SGroupE.keepsConsumer (s : StreamE) (c : SConsumerE) : Bool := c.pel.any s.isLive

/-- what the tool recreated BEFORE the repair of C03-F1 (session 5), and still all that commands
    can carry to a target older than 6.2: the owners of live pending entries. Kept for the
    comparison with `consumersIdeal`. -/
def SGroupE.consumersX (s : StreamE) (g : SGroupE) : List Bytes :=
  (g.consumers.filter (SGroupE.keepsConsumer s)).map (fun c => c.name.val)

/-- **the consumers the tool's replay recreates on target `x`** (since the repair of C03-F1): the
    owners of live pending entries, and those with an EMPTY PEL when the target knows XGROUP
    CREATECONSUMER (6.2+). NOT recreated: a consumer with an empty PEL on an older target (no command
    exists; the RESTORE path keeps it), and a consumer all of whose pending ids point at deleted /
    trimmed entries (no command recreates it — Redis' own AOF rewrite loses it the same way).
    Seen-time / active-time are set by the target. -/
def SGroupE.consumersIdeal (x : XCfg) (s : StreamE) (g : SGroupE) : List Bytes :=
  (g.consumers.filter (fun c => (x.hasCreateConsumer && c.pel.isEmpty) || c.pel.any s.isLive)).map (fun c => c.name.val)

/-- the stream's entries-added counter as the target will hold it: a version-1
    stream (Redis 5/6) has none, Redis ≥ 7 loads it as the stream's length
    (rdb.c: `s->entries_added = s->length`) -/
def StreamE.added (s : StreamE) : Nat := if s.ver ≥ 2 then s.entriesAdded else s.length

def StreamE.maxDel (s : StreamE) : Nat × Nat := if s.ver ≥ 2 then (s.maxDelMs, s.maxDelSeq) else (0, 0)

/-- a group's entries-read counter: stored from version 2 on (a 64-bit two's
    complement value, `-1` = unknown); for a version-1 stream (Redis 5/6, no counter) the
    ESTIMATE the tool sends to a target ≥ 7: `streamEstimateDistanceFromFirstEverEntry`
    of t_stream.c evaluated with entries-added = length, max-deleted id 0-0 and first id
    0-0 (a server loading the same file takes the first entry's id instead: for a group
    whose last-delivered id is 0-0 it computes 0 where this estimate gives 1) -/
def SGroupE.read (s : StreamE) (g : SGroupE) : Int :=
  toSigned 64 (if s.ver ≥ 2 then g.entriesRead
    else estimateEntriesRead s.length s.length g.lastMs g.lastSeq s.lastMs s.lastSeq)

/-- a consumer group as a target of major version `x.tgtMajor` can hold it
    (entries-read exists from Redis 7 on) -/
def SGroupE.xgroup (x : XCfg) (s : StreamE) (g : SGroupE) : XGroup :=
  { name := g.name.val, lastId := fmtId g.lastMs g.lastSeq,
    entriesRead := if x.tgtMajor ≥ 7 then some (intToDec (g.read s)) else none,
    pel := g.pelX s, consumers := g.consumersIdeal x s }

/-- **the logical value of a stream description** on a target of major version
    `x.tgtMajor` (the counters entries-added / max-deleted-id exist from Redis 7 on) -/
def StreamE.xval (x : XCfg) (s : StreamE) : XStream :=
  { entries := s.entriesX,
    lastId := fmtId s.lastMs s.lastSeq,
    entriesAdded := if x.tgtMajor ≥ 7 then some (natToDec s.added) else none,
    maxDeleted := if x.tgtMajor ≥ 7 then some (fmtId s.maxDel.1 s.maxDel.2) else none,
    groups := s.groups.map (SGroupE.xgroup x s) }

/-! ## the expected expansion -/

def SGroupE.cmds (x : XCfg) (s : StreamE) (k : Bytes) (g : SGroupE) : List Cmd :=
  cmdB b!"XGROUP" ([b!"CREATE", k, g.name.val, fmtId g.lastMs g.lastSeq] ++
      (if x.tgtMajor ≥ 7 then [b!"ENTRIESREAD", intToDec (g.read s)] else [])) ::
    g.consumers.flatMap (fun c =>
      (if x.hasCreateConsumer = true ∧ c.pel.length = 0 then
         [cmdB b!"XGROUP" [b!"CREATECONSUMER", k, g.name.val, c.name.val]] else []) ++
      c.pel.map (fun p =>
        cmdB b!"XCLAIM" [k, g.name.val, c.name.val, b!"0", fmtId p.1 p.2, b!"TIME", natToDec (g.nack p.1 p.2).1,
          b!"RETRYCOUNT", natToDec (g.nack p.1 p.2).2, b!"JUSTID", b!"FORCE"]))

/-- one XADD per live entry, the `MAXLEN 0` trick for an empty stream, XSETID
    (with the counters for a target ≥ 7), then per group XGROUP CREATE and per consumer one
    XCLAIM per entry of its PEL (also for pending ids whose entry is gone: the target ignores
    those; XGROUP CREATECONSUMER for a consumer with an empty PEL when the target is 6.2+ —
    session 5, repair of C03-F1 — nothing for it on an older target) -/
def StreamE.cmds (x : XCfg) (s : StreamE) (k : Bytes) : List Cmd :=
  s.nodes.flatMap (fun n => n.live.map (fun p => cmdB b!"XADD" (k :: p.1 :: p.2))) ++
  (if s.length = 0 then [cmdB b!"XADD" [k, b!"MAXLEN", b!"0", b!"0-1", b!"x", b!"y"]] else []) ++
  [cmdB b!"XSETID" ([k, fmtId s.lastMs s.lastSeq] ++
    (if x.tgtMajor ≥ 7 then
      [b!"ENTRIESADDED", natToDec s.added, b!"MAXDELETEDID", fmtId s.maxDel.1 s.maxDel.2] else []))] ++
  s.groups.flatMap (SGroupE.cmds x s k)

/-! ## what Redis guarantees of a stream -/

/-- the numbers of the IDMP state (version 4) fit their 64-bit length fields -/
def SIdmpE.sizes (i : SIdmpE) : Prop :=
  i.duration < 2 ^ 64 ∧ i.maxEntries < 2 ^ 64 ∧ i.producers.length < 2 ^ 64 ∧ i.added < 2 ^ 64 ∧ i.dups < 2 ^ 64 ∧
  ∀ p ∈ i.producers, p.2.length < 2 ^ 64

def idLtN (a b : Nat × Nat) : Bool := a.1 < b.1 || (a.1 == b.1 && a.2 < b.2)

def increasingN : List (Nat × Nat) → Bool
  | a :: b :: r => idLtN a b && increasingN (b :: r)
  | _ => true

/-- the counters of a stream a Redis server holds (t_stream.c; they are also what XSETID /
    XGROUP CREATE / XCLAIM of the target insist on):
    * no entry lies above the last id; the max-deleted id does not lie above the last id;
    * entries-added is a `long long` (< 2^63) and not below the length;
    * a group's entries-read is a `long long` ≥ -1 (-1 = unknown), delivery times are `long long`s;
    * consumer names are distinct within a group. -/
def StreamE.counters (s : StreamE) : Prop :=
  (∀ i ∈ s.liveIds, idLtN (s.lastMs, s.lastSeq) i = false) ∧
  idLtN (s.lastMs, s.lastSeq) s.maxDel = false ∧
  s.added < 2 ^ 63 ∧ s.length ≤ s.added ∧
  (∀ g ∈ s.groups, -1 ≤ g.read s ∧ (∀ n ∈ g.pel, n.time < 2 ^ 63) ∧
    (g.consumers.map (fun c => c.name.val)).Nodup)

/-- Invariants of a stream held by a Redis server, beyond `StreamE.wf`:
    * entry ids are master id + delta without 64-bit wrap-around, the live ids lie above
      0-0 and increase strictly (t_stream.c streamAppendItem);
    * `length` counts the live entries;
    * every entry has at least one field (XADD refuses none);
    * group names are distinct; within a group a pending id belongs to ONE consumer
      (the consumers' PELs partition the group's PEL);
    * the element counts fit the 64-bit length fields they are saved in (`StreamE.wf`
      bounds the numbers, not the lists). -/
def StreamE.sound (s : StreamE) : Prop :=
  s.nodes.length < 2 ^ 64 ∧ s.groups.length < 2 ^ 64 ∧
  (∀ g ∈ s.groups, g.pel.length < 2 ^ 64 ∧ ∀ c ∈ g.consumers, c.pel.length < 2 ^ 64) ∧
  (∀ n ∈ s.nodes, ∀ e ∈ n.entries, e.idWf n.masterMs n.masterSeq) ∧
  increasingN ((0, 0) :: s.liveIds) = true ∧
  s.length = s.entriesX.length ∧
  (∀ n ∈ s.nodes, ∀ e ∈ n.entries, e.deleted = false →
      (e.same = true → n.masterFields ≠ []) ∧ (e.same = false → e.items ≠ [])) ∧
  (s.groups.map (fun g => g.name.val)).Nodup ∧
  (∀ g ∈ s.groups, (g.consumers.flatMap (fun c => c.pel)).Nodup) ∧
  s.idmp.sizes ∧
  s.counters

/-- `idWf` as a test -/
def SEntryE.idWfB (e : SEntryE) (mMs mSeq : Nat) : Bool :=
  match e.msDelta.int?, e.seqDelta.int? with
  | some dms, some dseq =>
    decide (0 ≤ (mMs : Int) + dms ∧ (mMs : Int) + dms < (2 ^ 64 : Nat) ∧
            0 ≤ (mSeq : Int) + dseq ∧ (mSeq : Int) + dseq < (2 ^ 64 : Nat))
  | _, _ => false

/-- `sound` as a test (what the driver reports for every generated stream: the harness
    ties `StreamE.cmds` / `StreamE.xval` to the real code on the streams that pass it) -/
def StreamE.soundB (s : StreamE) : Bool :=
  decide (s.nodes.length < 2 ^ 64 ∧ s.groups.length < 2 ^ 64 ∧
    (∀ g ∈ s.groups, g.pel.length < 2 ^ 64 ∧ ∀ c ∈ g.consumers, c.pel.length < 2 ^ 64)) &&
  s.nodes.all (fun n => n.entries.all (fun e => e.idWfB n.masterMs n.masterSeq)) &&
  increasingN ((0, 0) :: s.liveIds) &&
  decide (s.length = s.entriesX.length ∧
    (∀ n ∈ s.nodes, ∀ e ∈ n.entries, e.deleted = false →
        (e.same = true → n.masterFields ≠ []) ∧ (e.same = false → e.items ≠ [])) ∧
    (s.groups.map (fun g => g.name.val)).Nodup ∧
    (∀ g ∈ s.groups, (g.consumers.flatMap (fun c => c.pel)).Nodup)) &&
  decide (s.idmp.duration < 2 ^ 64 ∧ s.idmp.maxEntries < 2 ^ 64 ∧ s.idmp.producers.length < 2 ^ 64 ∧
    s.idmp.added < 2 ^ 64 ∧ s.idmp.dups < 2 ^ 64 ∧ ∀ p ∈ s.idmp.producers, p.2.length < 2 ^ 64) &&
  decide ((∀ i ∈ s.liveIds, idLtN (s.lastMs, s.lastSeq) i = false) ∧
    idLtN (s.lastMs, s.lastSeq) s.maxDel = false ∧
    s.added < 2 ^ 63 ∧ s.length ≤ s.added ∧
    (∀ g ∈ s.groups, -1 ≤ g.read s ∧ (∀ n ∈ g.pel, n.time < 2 ^ 63) ∧
      (g.consumers.map (fun c => c.name.val)).Nodup))

/-! ## datasets with streams, module values and module aux data -/

/-- the logical value of any description (streams included) on a target `x` -/
def ObjE.valueS (x : XCfg) : ObjE → Val
  | .stream s => .stream (s.xval x)
  | o => o.value

/-- the items `full_sync` carries (session 4): as `Item.carried`, plus
    * stream values of RDB types 15 / 19 / 21 / 26 that are `sound`, whose serialization is
      taken by `RESTORE` or expanded (the IDMP state of type 26 has no replay command: the
      expansion path drops it, as the tool documents);
    * module values (type 7) when they can travel by `RESTORE` (the only way the tool
      replays them: otherwise the sync FAILS by design);
    * module aux items under the `skip` policy (`failModAux = false`; under `fail`
      the sync is refused by design). -/
def Item.carriedS (d : DCfg) (cfg : RCfg) : Item → Prop
  | .moduleAux .. => d.failModAux = false
  | .key k =>
    match k.obj with
    | .stream s => s.sound
    | .module2 .. => viaRestore cfg k.obj
    | .raw .. => False
    | o => o.kind ≠ .other ∧ o.nonempty ∧ o.members.Nodup
  | _ => True

/-- as `Holds`, with the stream value `StreamE.xval` for expanded streams -/
def HoldsS (cfg : RCfg) (p : Nat × KeyE) (x : Bytes × Val × Nat) : Prop :=
  x.1 = p.2.key.val ∧ x.2.2 = ttlOf cfg.now p.2.exp.at ∧
  ((x.2.1 = p.2.obj.valueS cfg.x ∧ (¬ viaRestore cfg p.2.obj ∨ p.2.obj.rtype = 4)) ∨
   (x.2.1 = .restored (createValueDump p.2.obj.rtype p.2.obj.ser) ∧ viaRestore cfg p.2.obj))

end GunYu.Rdb
