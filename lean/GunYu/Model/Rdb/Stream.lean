/-
  C03 — stream values as Redis writes them (rdb.c rdbSaveObject for OBJ_STREAM,
  t_stream.c streamAppendItem): SPECIFICATION encoder.

  A stream is a radix tree of listpack nodes keyed by the 128-bit big-endian
  master ID; each listpack starts with the master entry
      count | deleted | num-fields | field_1 … field_N | 0
  followed by entries
      flags | ms-delta | seq-delta | [num-fields | (field value)* ] or value* | lp-count
  (SAMEFIELDS = 2: only the values; DELETED = 1), then length, last id,
  (v2+) first id, max deleted id, entries added, the consumer groups with their
  PELs and consumers, (v4) IDMP producer state.
-/
import GunYu.Model.Rdb.Str
import GunYu.Model.Rdb.Listpack

namespace GunYu.Rdb
open GunYu

/-- the narrowest listpack integer encoding (lpEncodeIntegerGetType) -/
def lpIntMin (v : Int) : LPEntry :=
  if 0 ≤ v ∧ v ≤ 127 then .u7 v.toNat
  else if inSigned 13 v then .i13 v
  else if inSigned 16 v then .i16 v
  else if inSigned 24 v then .i24 v
  else if inSigned 32 v then .i32 v
  else .i64 v

/-- the integer a listpack integer entry stores -/
def LPEntry.int? : LPEntry → Option Int
  | .u7 v => some (v : Int)
  | .i13 v => some v | .i16 v => some v | .i24 v => some v | .i32 v => some v | .i64 v => some v
  | _ => none

/-- one stream entry inside a node; ids are deltas to the node's master id,
    stored with a chosen integer encoding -/
structure SEntryE where
  deleted : Bool
  /-- SAMEFIELDS: only `values` are stored, the fields are the master's -/
  same : Bool
  msDelta : LPEntry
  seqDelta : LPEntry
  /-- SAMEFIELDS: the values; otherwise field, value, field, value … -/
  items : List LPEntry
  deriving Repr, Inhabited

def SEntryE.flags (e : SEntryE) : Nat := (if e.deleted then 1 else 0) + (if e.same then 2 else 0)

/-- number of (field, value) pairs -/
def SEntryE.numFields (e : SEntryE) (masterFields : Nat) : Nat :=
  if e.same then masterFields else e.items.length / 2

def SEntryE.lp (e : SEntryE) (masterFields : Nat) : List LPEntry :=
  let nf := e.numFields masterFields
  let lpCount : Nat := if e.same then nf + 3 else 2 * nf + 4
  [lpIntMin e.flags, e.msDelta, e.seqDelta] ++
    (if e.same then [] else [lpIntMin nf]) ++ e.items ++ [lpIntMin lpCount]

structure SNodeE where
  /-- how the listpack blob is saved (raw / LZF) -/
  w : SE
  masterMs : Nat
  masterSeq : Nat
  masterFields : List LPEntry
  entries : List SEntryE
  deriving Repr, Inhabited

def SNodeE.lpEntries (n : SNodeE) : List LPEntry :=
  let count := (n.entries.filter (fun e => !e.deleted)).length
  let deleted := (n.entries.filter (fun e => e.deleted)).length
  [lpIntMin count, lpIntMin deleted, lpIntMin n.masterFields.length] ++ n.masterFields ++ [lpIntMin 0] ++
    n.entries.flatMap (fun e => e.lp n.masterFields.length)

def SNodeE.blob (n : SNodeE) : Bytes := lpBlob n.lpEntries

def SNodeE.enc (n : SNodeE) : Bytes :=
  encLen .b6 16 ++ beN 8 n.masterMs ++ beN 8 n.masterSeq ++ n.w.enc

structure SNackE where
  ms : Nat
  seq : Nat
  time : Nat
  count : Nat
  deriving Repr, Inhabited

structure SConsumerE where
  name : SE
  seen : Nat
  active : Nat
  pel : List (Nat × Nat)
  deriving Repr, Inhabited

structure SGroupE where
  name : SE
  lastMs : Nat
  lastSeq : Nat
  entriesRead : Nat
  pel : List SNackE
  consumers : List SConsumerE
  deriving Repr, Inhabited

structure SIdmpE where
  duration : Nat
  maxEntries : Nat
  producers : List (SE × List (SE × Nat × Nat))
  added : Nat
  dups : Nat
  deriving Repr, Inhabited

structure StreamE where
  /-- 1 = RDB_TYPE_STREAM_LISTPACKS (15), 2 = _2 (19), 3 = _3 (21), 4 = _4 (26) -/
  ver : Nat
  nodes : List SNodeE
  length : Nat
  lastMs : Nat
  lastSeq : Nat
  firstMs : Nat := 0
  firstSeq : Nat := 0
  maxDelMs : Nat := 0
  maxDelSeq : Nat := 0
  entriesAdded : Nat := 0
  groups : List SGroupE
  idmp : SIdmpE := { duration := 0, maxEntries := 0, producers := [], added := 0, dups := 0 }
  deriving Repr, Inhabited

def StreamE.rtype (s : StreamE) : UInt8 :=
  if s.ver = 1 then 15 else if s.ver = 2 then 19 else if s.ver = 3 then 21 else 26

/-- rdbSaveLen -/
def saveLen (n : Nat) : Bytes := encLen (minForm n) n

def SConsumerE.enc (ver : Nat) (c : SConsumerE) : Bytes :=
  c.name.enc ++ leN 8 c.seen ++ (if ver ≥ 3 then leN 8 c.active else []) ++
    saveLen c.pel.length ++ c.pel.flatMap (fun p => beN 8 p.1 ++ beN 8 p.2)

def SGroupE.enc (ver : Nat) (g : SGroupE) : Bytes :=
  g.name.enc ++ saveLen g.lastMs ++ saveLen g.lastSeq ++
    (if ver ≥ 2 then saveLen g.entriesRead else []) ++
    saveLen g.pel.length ++
    g.pel.flatMap (fun n => beN 8 n.ms ++ beN 8 n.seq ++ leN 8 n.time ++ saveLen n.count) ++
    saveLen g.consumers.length ++ g.consumers.flatMap (SConsumerE.enc ver)

def SIdmpE.enc (i : SIdmpE) : Bytes :=
  saveLen i.duration ++ saveLen i.maxEntries ++ saveLen i.producers.length ++
    i.producers.flatMap (fun p => p.1.enc ++ saveLen p.2.length ++
      p.2.flatMap (fun e => e.1.enc ++ saveLen e.2.1 ++ saveLen e.2.2)) ++
    saveLen i.added ++ saveLen i.dups

def StreamE.ser (s : StreamE) : Bytes :=
  saveLen s.nodes.length ++ s.nodes.flatMap SNodeE.enc ++
    saveLen s.length ++ saveLen s.lastMs ++ saveLen s.lastSeq ++
    (if s.ver ≥ 2 then
      saveLen s.firstMs ++ saveLen s.firstSeq ++ saveLen s.maxDelMs ++ saveLen s.maxDelSeq ++
      saveLen s.entriesAdded else []) ++
    saveLen s.groups.length ++ s.groups.flatMap (SGroupE.enc s.ver) ++
    (if s.ver ≥ 4 then s.idmp.enc else [])

/-- the field/value list of an entry (SAMEFIELDS resolved against the master fields) -/
def SEntryE.fieldVals (e : SEntryE) (masterFields : List LPEntry) : List Bytes :=
  if e.same then
    (List.zip masterFields e.items).flatMap (fun p => [p.1.val, p.2.val])
  else e.items.map LPEntry.val

/-- "ms-seq" -/
def streamId (ms seq : Nat) : Bytes := natToDec ms ++ [45] ++ natToDec seq

/-- the id of an entry: master id plus the stored deltas -/
def SEntryE.id (e : SEntryE) (mMs mSeq : Nat) : Bytes :=
  streamId (((mMs : Int) + (e.msDelta.int?.getD 0)).toNat) (((mSeq : Int) + (e.seqDelta.int?.getD 0)).toNat)

/-- the live (not deleted) entries of a node: id and field/value list, in order -/
def SNodeE.live (n : SNodeE) : List (Bytes × List Bytes) :=
  (n.entries.filter (fun e => !e.deleted)).map (fun e => (e.id n.masterMs n.masterSeq, e.fieldVals n.masterFields))

/-- what an entry needs beyond `SNodeE.wf` for its id to be a stream id: integer
    deltas, master + delta within 0 … 2^64-1 -/
def SEntryE.idWf (e : SEntryE) (mMs mSeq : Nat) : Prop :=
  ∃ dms dseq, e.msDelta.int? = some dms ∧ e.seqDelta.int? = some dseq ∧
    0 ≤ (mMs : Int) + dms ∧ (mMs : Int) + dms < (2 ^ 64 : Nat) ∧
    0 ≤ (mSeq : Int) + dseq ∧ (mSeq : Int) + dseq < (2 ^ 64 : Nat)

def SNodeE.wf (n : SNodeE) : Prop :=
  n.w.wf ∧ n.w.val = n.blob ∧ (lpWf n.lpEntries ∧ n.lpEntries.length < 65535) ∧ n.masterMs < 2 ^ 64 ∧ n.masterSeq < 2 ^ 64 ∧
  ∀ e ∈ n.entries, (e.same = false → e.items.length % 2 = 0) ∧ (e.same = true → e.items.length = n.masterFields.length)

instance SNodeE.decWf (n : SNodeE) : Decidable n.wf := by unfold SNodeE.wf; exact inferInstance

/-- ids of all entries (live and deleted) in stored order, as (ms, seq) -/
def StreamE.ids (s : StreamE) : List (Int × Int) :=
  s.nodes.flatMap (fun n => n.entries.map (fun e =>
    -- (the stored deltas are 64-bit: master + delta wraps modulo 2^64, as in t_stream.c)
    (((n.masterMs : Int) + e.msDelta.int?.getD 0) % (2 ^ 64 : Nat),
     ((n.masterSeq : Int) + e.seqDelta.int?.getD 0) % (2 ^ 64 : Nat))))

def idLess (a b : Int × Int) : Bool := a.1 < b.1 || (a.1 == b.1 && a.2 < b.2)

def strictlyIncreasing : List (Int × Int) → Bool
  | a :: b :: r => idLess a b && strictlyIncreasing (b :: r)
  | _ => true

/-- what Redis guarantees of the ids: above 0-0, strictly increasing, none above the last id -/
def StreamE.idsOrdered (s : StreamE) : Bool :=
  strictlyIncreasing ((0, 0) :: s.ids) &&
    s.ids.all (fun i => !idLess ((s.lastMs : Int), (s.lastSeq : Int)) i)

def StreamE.wf (s : StreamE) : Prop :=
  s.idsOrdered = true ∧ 1 ≤ s.ver ∧ s.ver ≤ 4 ∧ (∀ n ∈ s.nodes, n.wf) ∧
  s.length < 2 ^ 64 ∧ s.lastMs < 2 ^ 64 ∧ s.lastSeq < 2 ^ 64 ∧ s.firstMs < 2 ^ 64 ∧ s.firstSeq < 2 ^ 64 ∧
  s.maxDelMs < 2 ^ 64 ∧ s.maxDelSeq < 2 ^ 64 ∧ s.entriesAdded < 2 ^ 64 ∧
  (∀ g ∈ s.groups, g.name.wf ∧ g.lastMs < 2 ^ 64 ∧ g.lastSeq < 2 ^ 64 ∧ g.entriesRead < 2 ^ 64 ∧
    g.consumers.length < 2 ^ 32 ∧
    (∀ n ∈ g.pel, n.ms < 2 ^ 64 ∧ n.seq < 2 ^ 64 ∧ n.time < 2 ^ 64 ∧ n.count < 2 ^ 32) ∧
    (∀ c ∈ g.consumers, c.name.wf ∧ c.seen < 2 ^ 64 ∧ c.active < 2 ^ 64 ∧ ∀ p ∈ c.pel, p.1 < 2 ^ 64 ∧ p.2 < 2 ^ 64)) ∧
  (∀ p ∈ s.idmp.producers, p.1.wf ∧ ∀ e ∈ p.2, e.1.wf ∧ e.2.1 < 2 ^ 64 ∧ e.2.2 < 2 ^ 64)

instance StreamE.decWf (s : StreamE) : Decidable s.wf := by unfold StreamE.wf; exact inferInstance

end GunYu.Rdb
