/-
  C03 — replay of parsed snapshot entries into the target under the default
  `replace` policy: model of pkg/rdbrestore/restore.go (`RdbReplay.Replay`,
  `restoreOnce`, `restoreBigRdbEntry`), of the worker loop
  `RedisOutput.rdbReplay` (DB mapping + SELECT) and of the keyed fan-out in
  `RedisOutput.sendRdb` (`fnv(key) % parallel`, round robin for key-less
  entries). The `ignore` / `error` policies belong to C20.
-/
import GunYu.Model.Rdb.Exec

namespace GunYu.Rdb
open GunYu

structure RCfg where
  x : XCfg := {}
  enableRestore : Bool := true
  maxBulk : Nat := 512 * 1024 * 1024
  parallel : Nat := 1
  /-- `cfg.TargetDb`, `-1` = unset -/
  targetDb : Int := -1
  dbMap : List (Int × Int) := []
  /-- `time.Now()` in milliseconds when the replay of an entry starts -/
  now : Nat := 0
  /-- `ReplaceHashTag`: the entry is replayed to its key with the first `{` and the
      first `}` removed -/
  replaceHashTag : Bool := false
  /-- (harness clock) milliseconds that pass per request on a connection: the
      clock a worker reads for its next entry is `now + tick * requests so far` -/
  tick : Nat := 0
  /-- the output filter's decisions, as parameters (like `Sender.PCfg`): `filterDb db` =
      `outFilter.FilterDb` (DB black list), `filterKey key` = `outFilter.FilterKey(key) ||
      outFilter.FilterSlot(key)` (reserved prefixes `redis-gunyu-checkpoint*` / `/redis-gunyu*`,
      configured prefix black/white lists, slot black/white lists). `true` = filtered out. -/
  filterDb : Int → Bool := fun _ => false
  filterKey : Bytes → Bool := fun _ => false
  deriving Inhabited

/-- TTL handed to RESTORE / PEXPIRE: remaining milliseconds, `1` when the
    absolute expiry is already past, `0` = no expiry -/
def ttlOf (now expireAt : Nat) : Nat :=
  if expireAt = 0 then 0 else if now ≥ expireAt then 1 else expireAt - now

/-- `RedisOutput.selectDB` -/
def mapDb (cfg : RCfg) (origin : Int) : Int :=
  if cfg.targetDb ≠ -1 then cfg.targetDb
  else match cfg.dbMap.find? (fun p => p.1 == origin) with
    | some p => p.2
    | none => origin

/-- hash/fnv 32-bit FNV-1a (`util.FnvHash`) -/
def fnv32a (bs : Bytes) : Nat :=
  bs.foldl (fun h b => ((h ^^^ b.toNat) * 16777619) % 2 ^ 32) 2166136261

/-- what the target knows: which keys exist, per DB -/
abbrev Exists := List (Int × Bytes)

def Exists.has (ex : Exists) (db : Int) (k : Bytes) : Bool := ex.any (fun p => p.1 == db && p.2 == k)
def Exists.add (ex : Exists) (db : Int) (k : Bytes) : Exists := if ex.has db k then ex else (db, k) :: ex
def Exists.del (ex : Exists) (db : Int) (k : Bytes) : Exists := ex.filter (fun p => !(p.1 == db && p.2 == k))

/-- can a server of major version `major` load RDB value type `t`? (RESTORE of a
    newer type answers `ERR Bad data format`): 4.x up to quicklist (14); 5/6 +
    stream (15); 7.x + listpack encodings, quicklist 2, stream 2/3 (16–21); 8.x all -/
def typeLoadable (major : Nat) (t : UInt8) : Bool :=
  if major ≥ 8 then true
  else if major ≥ 7 then t.toNat ≤ 21
  else if major ≥ 5 then t.toNat ≤ 15
  else t.toNat ≤ 14

/-- `bytes.Replace(key, "{", "", 1)` then `bytes.Replace(…, "}", "", 1)` -/
def removeFirst (c : UInt8) : Bytes → Bytes
  | [] => []
  | b :: r => if b = c then r else b :: removeFirst c r

def dstKey (cfg : RCfg) (k : Bytes) : Bytes :=
  if cfg.replaceHashTag then removeFirst 125 (removeFirst 123 k) else k

/-- `rewriteKeyArgs`: the key argument of an expanded command (position 1 for
    XGROUP <sub> key …, position 0 otherwise) that carries the snapshot's key is
    replaced by the key the entry is replayed to -/
def rewriteCmd (src dst : Bytes) (c : Cmd) : Cmd :=
  if src = [] ∨ src = dst then c else
  let idx := if lower c.name = b!"xgroup" then 1 else 0
  if c.args[idx]? = some (Arg.b src) then { c with args := c.args.set idx (Arg.b dst) } else c

/-- the expansion path of `Replay` (restore off, payload too large, split value,
    or — repaired — the fall-back after `Bad data format`): probe + DEL for a
    first chunk, the expanded commands, PEXPIRE when the key has an expiry -/
def expandEntry (cfg : RCfg) (db : Int) (ex : Exists) (e : Entry) (ot : OType) (src : Bytes := e.key) :
    List Cmd × Exists × Bool :=
  let ttl := ttlOf cfg.now e.expireAt
  if ot = .module then ([], ex, false) else
  let probe : List Cmd :=
    if e.obj.firstBin then
      cmdB b!"exists" [e.key] :: (if ex.has db e.key then [cmdB b!"del" [e.key]] else [])
    else []
  match (execCmd cfg.x e.obj).map (fun cs => cs.map (rewriteCmd src e.key)) with
  | none => (probe, ex, false)
  | some cs =>
    let expire := if e.expireAt ≠ 0 then [cmdB b!"pexpire" [e.key, natToDec ttl]] else []
    let ex1 := if e.obj.firstBin then ex.del db e.key else ex
    let ex2 := if cs.isEmpty then ex1 else ex1.add db e.key
    -- a key replayed with TTL 1 ms (already past its expiry) is gone before the next entry
    let ex3 := if e.expireAt ≠ 0 ∧ ttl = 1 then ex2.del db e.key else ex2
    (probe ++ cs ++ expire, ex3, true)

/-- `RdbReplay.Replay` (policy `replace`): requests issued on the connection
    (current DB `db`), the new existence table, success -/
def replayEntry (cfg : RCfg) (db : Int) (ex : Exists) (e0 : Entry) : List Cmd × Exists × Bool :=
  let src := e0.key
  let e : Entry := { e0 with key := dstKey cfg e0.key }
  let ttl := ttlOf cfg.now e.expireAt
  match otypeOf e.obj.rtype with
  | none => ([], ex, false)
  | some ot =>
    if ot = .function ∨ ot = .aux then
      match execCmd cfg.x e.obj with
      | none => ([], ex, false)
      | some cs => (cs, ex, true)
    else
      let restoreCmd := cfg.enableRestore &&
        !(decide (e.obj.valueDumpSize > cfg.maxBulk) || e.obj.isSplited)
      if !restoreCmd then expandEntry cfg db ex e ot src
      else
        let params := [e.key, natToDec ttl, e.obj.dump] ++
          (if cfg.x.tgtMajor ≥ 5 then
            (if e.idle ≠ 0 then [b!"IDLETIME", natToDec e.idle] else []) ++
            (if e.freq ≠ 0 then [b!"FREQ", natToDec e.freq] else [])
           else [])
        let attempts := if ex.has db e.key
          then [cmdB b!"restore" params, cmdB b!"restore" (params ++ [b!"REPLACE"])]
          else [cmdB b!"restore" params]
        if typeLoadable cfg.x.tgtMajor e.obj.rtype then
          (attempts, if e.expireAt ≠ 0 ∧ ttl = 1 then ex.del db e.key else ex.add db e.key, true)
        else
          -- the target answers "Bad data format": the value is expanded instead, through
          -- the same probe / DEL / PEXPIRE path as without RESTORE (repaired)
          let (cs, ex', ok) := expandEntry cfg db ex e ot src
          (attempts ++ cs, ex', ok)

/-- one worker connection -/
structure Worker where
  cur : Int := 0
  log : List Cmd := []
  deriving Repr, Inhabited

/-- the body of `rdbReplay`'s loop for one entry on worker `w` -/
def workerStep (cfg : RCfg) (w : Worker) (ex : Exists) (e : Entry) : Worker × Exists × Bool :=
  -- a black-listed DB: nothing is sent, not even SELECT (`FilterDb(-1)` is false)
  if e.db ≠ -1 ∧ cfg.filterDb e.db then (w, ex, true) else
  -- the connection follows the entry's DB BEFORE the key/slot filter is asked, so that the
  -- recorded current DB and the connection's DB never part
  let w1 : Worker :=
    if e.db = -1 then w else
    let t := mapDb cfg e.db
    if t ≠ w.cur then { cur := t, log := w.log ++ [cmdB b!"select" [intToDec t]] } else w
  if cfg.filterKey e.key then (w1, ex, true) else
  let (cs, ex', ok) := replayEntry { cfg with now := cfg.now + cfg.tick * w1.log.length } w1.cur ex e
  ({ w1 with log := w1.log ++ cs }, ex', ok)

def setAt {α} (l : List α) (i : Nat) (a : α) : List α := l.set i a

/-- `distributeTask`: the worker an entry goes to (`idx` = the previous choice). Entries
    are routed by the key they are REPLAYED to (`dstKey`: under `ReplaceHashTag` two
    snapshot keys such as `{a}b` and `ab` are written to one target key and must reach
    one worker — /repo 630424b); without `ReplaceHashTag` that is the snapshot key. -/
def workerOf (cfg : RCfg) (n : Nat) (e : Entry) (idx : Nat) : Nat :=
  -- every entry except a function library belongs to a key ("" is a valid key)
  if e.key.length > 0 ∨ otypeOf e.obj.rtype ≠ some .function then fnv32a (dstKey cfg e.key) % n else (idx + 1) % n

/-- `distributeTask` + workers, in snapshot order -/
def fanOut (cfg : RCfg) : List Entry → Nat → List Worker → Exists → List Worker × Exists × Bool
  | [], _, ws, ex => (ws, ex, true)
  | e :: es, idx, ws, ex =>
    let n := ws.length
    let idx' := workerOf cfg n e idx
    let w := ws.getD idx' {}
    let (w', ex', ok) := workerStep cfg w ex e
    if ok then fanOut cfg es idx' (ws.set idx' w') ex'
    else (ws.set idx' w', ex', false)

/-- per entry, in snapshot order: the worker it was routed to and the requests
    that worker issued for it (the trace `fanOut` folds into the workers' logs) -/
def fanOutTrace (cfg : RCfg) : List Entry → Nat → List Worker → Exists → List (Nat × List Cmd)
  | [], _, _, _ => []
  | e :: es, idx, ws, ex =>
    let n := ws.length
    let idx' := workerOf cfg n e idx
    let w := ws.getD idx' {}
    let (w', ex', ok) := workerStep cfg w ex e
    (idx', w'.log.drop w.log.length) :: (if ok then fanOutTrace cfg es idx' (ws.set idx' w') ex' else [])

/-- the schedule "entry after entry, in snapshot order" of a fan-out trace: every request
    tagged with the worker (connection) that issues it -/
def schedOf (tr : List (Nat × List Cmd)) : List (Nat × Cmd) :=
  tr.flatMap (fun p => p.2.map (fun c => (p.1, c)))

/-- `sendRdb` on a snapshot: per-worker request logs and success (all entries
    applied and `Done` reached) -/
def sendRdb (d : DCfg) (cfg : RCfg) (pre : Exists) (bs : Bytes) : List (List Cmd) × Bool :=
  let (entries, done) := parseRdb d bs
  let (ws, _, ok) := fanOut cfg entries 0 (List.replicate (max cfg.parallel 1) {}) pre
  (ws.map (·.log), ok && done)

end GunYu.Rdb
