/-
  C03 — expansion of a parsed value into Redis commands: model of the
  per-type `ExecCmd` of pkg/rdb/rdb_object.go, reading back the teed buffer.
  `none` = the Go code panics (the caller reports an error); commands a real run
  would have issued before the panic are not modelled (well-formed values never
  panic).
-/
import GunYu.Model.Rdb.Float
import GunYu.Model.Rdb.Dec

namespace GunYu.Rdb
open GunYu

/-- expansion configuration: target major version (`util.VersionGE(v,"7",Major)`)
    and the `functionExists` policy (0 replace/other, 1 flush, 2 append) -/
structure XCfg where
  tgtMajor : Nat := 7
  fnExists : Nat := 0
  /-- target minor version (part of the version token; the code consults the major only) -/
  tgtMinor : Nat := 0
  deriving Repr, Inhabited

/-- the target knows XGROUP CREATECONSUMER (Redis 6.2+): `util.VersionGE(target, "6.2", VersionMinor)`
    in StreamParser.ExecCmd (session 5: consulted by the code since the repair of C03-F1) -/
def XCfg.hasCreateConsumer (x : XCfg) : Bool :=
  decide (x.tgtMajor > 6) || (decide (x.tgtMajor = 6) && decide (x.tgtMinor ≥ 2))

def cmdB (name : Bytes) (args : List Bytes) : Cmd := ⟨name, args.map Arg.b⟩

def readStrings : Nat → Bytes → Option (List Bytes × Bytes)
  | 0, bs => some ([], bs)
  | n+1, bs =>
    match readString bs with
    | none => none
    | some (s, r) =>
      match readStrings n r with
      | none => none
      | some (ss, r') => some (s :: ss, r')

def readPairs : Nat → Bytes → Option (List (Bytes × Bytes) × Bytes)
  | 0, bs => some ([], bs)
  | n+1, bs =>
    match readString bs with
    | none => none
    | some (a, r) =>
      match readString r with
      | none => none
      | some (b, r1) =>
        match readPairs n r1 with
        | none => none
        | some (ps, r') => some ((a, b) :: ps, r')

/-! ### list -/

/-- quicklist (type 14): each node a ziplist -/
def quicklistNodes : Nat → Bytes → Option (List Bytes)
  | 0, _ => some []
  | n+1, bs =>
    match readString bs with
    | none => none
    | some (zl, r) =>
      match zlAll zl with
      | none => none
      | some es =>
        match quicklistNodes n r with
        | none => none
        | some rest => some (es ++ rest)

/-- quicklist v2 (type 18): container 1 = plain element, 2 = listpack -/
def quicklist2Nodes : Nat → Bytes → Option (List Bytes)
  | 0, _ => some []
  | n+1, bs =>
    match readLength bs with
    | none => none
    | some (container, r) =>
      match readString r with
      | none => none
      | some (v, r1) =>
        match (if container = 1 then some [v] else if container = 2 then lpAll v else none) with
        | none => none
        | some es =>
          match quicklist2Nodes n r1 with
          | none => none
          | some rest => some (es ++ rest)

def listElems (t : UInt8) (buf : Bytes) : Option (List Bytes) :=
  if t = 10 then
    match readString buf with
    | none => none
    | some (zl, _) => zlAll zl
  else if t = 1 then
    match readLength buf with
    | none => none
    | some (n, r) => (readStrings n r).map (·.1)
  else if t = 14 then
    match readLength buf with
    | none => none
    | some (n, r) => quicklistNodes n r
  else if t = 18 then
    match readLength buf with
    | none => none
    | some (n, r) => quicklist2Nodes n r
  else none

/-! ### set -/

def setElems (t : UInt8) (buf : Bytes) : Option (List Bytes) :=
  if t = 2 then
    match readLength buf with
    | none => none
    | some (n, r) => (readStrings n r).map (·.1)
  else if t = 11 then
    match readString buf with
    | none => none
    | some (b, _) => intsetAll b
  else if t = 20 then
    match readString buf with
    | none => none
    | some (b, _) => lpAll b
  else none

/-! ### zset -/

/-- `ReadFloat`: 253 NaN, 254 +Inf, 255 -Inf, else the ASCII text parsed by
    `strconv.ParseFloat(·, 64)` = `parseF64` (Model/Rdb/Float.lean: every decimal text,
    correctly rounded, overflow = error; session 5 — was: integers below 2^53 only) -/
def floatStrBits (fs : Bytes) : Option Nat :=
  match fs with
  | [] => none
  | u :: s =>
    if u = 253 then some 0x7FF8000000000001
    else if u = 254 then some 0x7FF0000000000000
    else if u = 255 then some 0xFFF0000000000000
    else parseF64 s

def zset1Elems : Nat → Bytes → Option (List (Bytes × Nat))
  | 0, _ => some []
  | n+1, bs =>
    match readString bs with
    | none => none
    | some (m, r) =>
      match readFloatStr r with
      | none => none
      | some (fs, r1) =>
        match floatStrBits fs with
        | none => none
        | some bits =>
          match zset1Elems n r1 with
          | none => none
          | some rest => some ((m, bits) :: rest)

def zset2Elems : Nat → Bytes → Option (List (Bytes × Nat))
  | 0, _ => some []
  | n+1, bs =>
    match readString bs with
    | none => none
    | some (m, r) =>
      match readN 8 r with
      | none => none
      | some (b, r1) =>
        match zset2Elems n r1 with
        | none => none
        | some rest => some ((m, ofLE b) :: rest)

/-! ### stream -/

def fmtId (ms seq : Nat) : Bytes := natToDec ms ++ [45] ++ natToDec seq

def interleave : List Bytes → List Bytes → List Bytes
  | a :: as, b :: bs => a :: b :: interleave as bs
  | _, _ => []

def wrap64 (a : Nat) (d : Int) : Nat := (((a : Int) + d) % (2 ^ 64 : Nat)).toNat

/-- the entries of one stream listpack after the master entry (D11 repaired:
    `numFields` of the master entry is not overwritten; ids in uint64) -/
def streamEntries (key : Bytes) (mMs mSeq : Nat) (fields : List Bytes) (numFields : Nat) :
    Nat → Int → Int → Bytes → Option (List Cmd)
  | 0, _, _, _ => none
  | fuel+1, count, deleted, rem =>
    if ¬ (count > 0 ∨ deleted > 0) then some [] else
    match lpNextInt rem with
    | none => none
    | some (flags, r1) =>
      match lpNextInt r1 with
      | none => none
      | some (ms, r2) =>
        match lpNextInt r2 with
        | none => none
        | some (seq, r3) =>
          let id := fmtId (wrap64 mMs ms) (wrap64 mSeq seq)
          match (if flags % 4 ≥ 2 then
                   (lpTake numFields r3).map (fun (vs, r) => (interleave fields vs, r))
                 else
                   match lpNextInt r3 with
                   | none => none
                   | some (n, r4) => lpTake (2 * n.toNat) r4) with
          | none => none
          | some (fv, r5) =>
            match lpNext r5 with            -- lp_count
            | none => none
            | some (_, r6) =>
              if flags % 2 = 1 then streamEntries key mMs mSeq fields numFields fuel count (deleted - 1) r6
              else
                match streamEntries key mMs mSeq fields numFields fuel (count - 1) deleted r6 with
                | none => none
                | some rest => some (cmdB b!"XADD" (key :: id :: fv) :: rest)

/-- one `<stream-id><listpack>` node -/
def streamNode (key : Bytes) (bs : Bytes) : Option (List Cmd × Bytes) :=
  match readString bs with
  | none => none
  | some (mid, r) =>
    if mid.length ≠ 16 then none else
    let mMs := ofBE (mid.take 8)
    let mSeq := ofBE (mid.drop 8)
    match readString r with
    | none => none
    | some (lpb, r1) =>
      match lpNew lpb with
      | none => none
      | some (_, rem) =>
        match lpNextInt rem with
        | none => none
        | some (count, e1) =>
          match lpNextInt e1 with
          | none => none
          | some (deleted, e2) =>
            match lpNextInt e2 with
            | none => none
            | some (numFields, e3) =>
              if numFields < 0 then none else
              match lpTake numFields.toNat e3 with
              | none => none
              | some (fields, e4) =>
                match lpNext e4 with
                | none => none
                | some (z, e5) =>
                  if z ≠ b!"0" then none else
                  match streamEntries key mMs mSeq fields numFields.toNat (lpb.length + 1) count deleted e5 with
                  | none => none
                  | some cmds => some (cmds, r1)

def streamNodes (key : Bytes) : Nat → Bytes → Option (List Cmd × Bytes)
  | 0, bs => some ([], bs)
  | n+1, bs =>
    match streamNode key bs with
    | none => none
    | some (c, r) =>
      match streamNodes key n r with
      | none => none
      | some (cs, r') => some (c ++ cs, r')

def readLengths64 : Nat → Bytes → Option (List Nat × Bytes)
  | 0, bs => some ([], bs)
  | n+1, bs =>
    match readLength64 bs with
    | none => none
    | some (v, r) =>
      match readLengths64 n r with
      | none => none
      | some (vs, r') => some (v :: vs, r')

def cmpId (aMs aSeq bMs bSeq : Nat) : Int :=
  if aMs > bMs then 1 else if aMs < bMs then -1
  else if aSeq > bSeq then 1 else if aSeq < bSeq then -1 else 0

/-- the ENTRIESREAD estimate for a v1 stream replayed into a ≥ 7 target
    (first id and max-deleted id are 0-0 there, entriesAdded = length), as a
    uint64; it is SENT as a signed counter (`-1` = SCG_INVALID_ENTRIES_READ —
    repaired: the unsigned rendering 18446744073709551615 is refused by Redis) -/
def estimateEntriesRead (entriesAdded streamLength cgMs cgSeq lastMs lastSeq : Nat) : Nat :=
  let invalid := 2 ^ 64 - 1
  if entriesAdded = 0 then 0
  else if streamLength = 0 ∧ cmpId cgMs cgSeq lastMs lastSeq < 1 then entriesAdded
  else
    let cmpLast := cmpId cgMs cgSeq lastMs lastSeq
    if cmpLast = 0 then entriesAdded
    else if cmpLast > 0 then invalid
    else
      let cmpIdFirst := cmpId cgMs cgSeq 0 0
      if cmpIdFirst < 0 then entriesAdded - streamLength
      else if cmpIdFirst = 0 then (entriesAdded - streamLength + 1) % 2 ^ 64
      else invalid

/-- global PEL: `(id string, delivery time, delivery count)`, later entries win -/
def readNacks : Nat → Bytes → Option (List (Bytes × Nat × Nat) × Bytes)
  | 0, bs => some ([], bs)
  | n+1, bs =>
    match readN 16 bs with
    | none => none
    | some (idb, r) =>
      match readN 8 r with
      | none => none
      | some (tb, r1) =>
        match readLength64 r1 with
        | none => none
        | some (cnt, r2) =>
          match readNacks n r2 with
          | none => none
          | some (rest, r') =>
            some ((fmtId (ofBE (idb.take 8)) (ofBE (idb.drop 8)), ofLE tb, cnt) :: rest, r')

def nackLookup (id : Bytes) (nacks : List (Bytes × Nat × Nat)) : Nat × Nat :=
  match nacks.reverse.find? (fun x => x.1 == id) with
  | some (_, t, c) => (t, c)
  | none => (0, 0)

def consumerPel (key group consumer : Bytes) (nacks : List (Bytes × Nat × Nat)) :
    Nat → Bytes → Option (List Cmd × Bytes)
  | 0, bs => some ([], bs)
  | n+1, bs =>
    match readN 16 bs with
    | none => none
    | some (idb, r) =>
      let id := fmtId (ofBE (idb.take 8)) (ofBE (idb.drop 8))
      let (t, c) := nackLookup id nacks
      match consumerPel key group consumer nacks n r with
      | none => none
      | some (cs, r') =>
        some (cmdB b!"XCLAIM" [key, group, consumer, b!"0", id, b!"TIME", natToDec t,
                b!"RETRYCOUNT", natToDec c, b!"JUSTID", b!"FORCE"] :: cs, r')

/-- the consumers of a group: one XCLAIM per entry of a consumer's PEL; a consumer with an EMPTY
    PEL is created with `XGROUP CREATECONSUMER key group consumer` when the target knows the
    command (`cc` = 6.2+; session 5, repair of known finding C03-F1 — rdb.WithStreamIdleConsumers,
    set at both production call sites: the model is of the tool as it runs; before the repair
    such a consumer left no command, "Empty consumers are discarded") -/
def streamConsumers (cc : Bool) (v3 : Bool) (key group : Bytes) (nacks : List (Bytes × Nat × Nat)) :
    Nat → Bytes → Option (List Cmd × Bytes)
  | 0, bs => some ([], bs)
  | n+1, bs =>
    match readString bs with
    | none => none
    | some (name, r) =>
      match skipN (if v3 then 16 else 8) r with
      | none => none
      | some r1 =>
        match readLength64 r1 with
        | none => none
        | some (np, r2) =>
          match consumerPel key group name nacks np r2 with
          | none => none
          | some (cs, r3) =>
            match streamConsumers cc v3 key group nacks n r3 with
            | none => none
            | some (cs', r') =>
              some ((if cc = true ∧ np = 0 then [cmdB b!"XGROUP" [b!"CREATECONSUMER", key, group, name]] else [])
                      ++ cs ++ cs', r')

def streamGroups (x : XCfg) (v2 v3 : Bool) (key : Bytes)
    (entriesAdded streamLength lastMs lastSeq : Nat) : Nat → Bytes → Option (List Cmd)
  | 0, _ => some []
  | n+1, bs =>
    match readString bs with
    | none => none
    | some (gname, r) =>
      match readLengths64 2 r with
      | some ([cgMs, cgSeq], r1) =>
        match (if v2 then
                 (readLength64 r1).map (fun (off, r) =>
                   ((if x.tgtMajor ≥ 7 then [b!"ENTRIESREAD", intToDec (toSigned 64 off)] else []), r))
               else
                 some ((if x.tgtMajor ≥ 7 then
                          [b!"ENTRIESREAD", intToDec (toSigned 64 (estimateEntriesRead entriesAdded streamLength cgMs cgSeq lastMs lastSeq))]
                        else []), r1)) with
        | none => none
        | some (er, r2) =>
          let create := cmdB b!"XGROUP" ([b!"CREATE", key, gname, fmtId cgMs cgSeq] ++ er)
          match readLength64 r2 with
          | none => none
          | some (np, r3) =>
            match readNacks np r3 with
            | none => none
            | some (nacks, r4) =>
              match readLength64 r4 with
              | none => none
              | some (nc, r5) =>
                match streamConsumers x.hasCreateConsumer v3 key gname nacks nc r5 with
                | none => none
                | some (claims, r6) =>
                  match streamGroups x v2 v3 key entriesAdded streamLength lastMs lastSeq n r6 with
                  | none => none
                  | some rest => some (create :: claims ++ rest)
      | _ => none

def execStream (x : XCfg) (t : UInt8) (key buf : Bytes) : Option (List Cmd) :=
  let v2 := decide (t.toNat ≥ 19)
  let v3 := decide (t.toNat ≥ 21)
  match readLength64 buf with
  | none => none
  | some (nlp, r) =>
    match streamNodes key nlp r with
    | none => none
    | some (xadds, r1) =>
      match readLengths64 3 r1 with
      | some ([streamLength, lastMs, lastSeq], r2) =>
        let empty := if streamLength = 0 then
            [cmdB b!"XADD" [key, b!"MAXLEN", b!"0", b!"0-1", b!"x", b!"y"]] else []
        match (if v2 then
                 match readLengths64 5 r2 with
                 | some ([_, _, mdMs, mdSeq, ea], r3) => some (ea, mdMs, mdSeq, r3)
                 | _ => none
               else some (streamLength, 0, 0, r2)) with
        | none => none
        | some (entriesAdded, mdMs, mdSeq, r3) =>
          let xsetid := cmdB b!"XSETID" ([key, fmtId lastMs lastSeq] ++
            (if x.tgtMajor ≥ 7 then
               [b!"ENTRIESADDED", natToDec entriesAdded, b!"MAXDELETEDID", fmtId mdMs mdSeq]
             else []))
          match readLength64 r3 with
          | none => none
          | some (ng, r4) =>
            match streamGroups x v2 v3 key entriesAdded streamLength lastMs lastSeq ng r4 with
            | none => none
            | some gs => some (xadds ++ empty ++ [xsetid] ++ gs)
      | _ => none

/-! ### ExecCmd -/

def hashPairs (p : PObj) : Option (List (Bytes × Bytes)) :=
  if p.rtype = 4 then
    let curNo := p.read - p.history
    match (if p.firstBin then skipLength p.buf else some p.buf) with
    | none => none
    | some r => (readPairs curNo r).map (·.1)
  else
    match readString p.buf with
    | none => none
    | some (b, _) =>
      if p.rtype = 13 then zlPairs b
      else if p.rtype = 16 then lpPairs b
      else if p.rtype = 9 then zipmapAll b
      else none

def execCmd (x : XCfg) (p : PObj) : Option (List Cmd) :=
  match otypeOf p.rtype with
  | none => none
  | some .string => some [cmdB b!"set" [p.key, p.val]]
  | some .list => (listElems p.rtype p.buf).map (fun es => es.map (fun e => cmdB b!"RPUSH" [p.key, e]))
  | some .set => (setElems p.rtype p.buf).map (fun es => es.map (fun e => cmdB b!"SADD" [p.key, e]))
  | some .zset =>
    if p.rtype = 3 ∨ p.rtype = 5 then
      match readLength p.buf with
      | none => none
      | some (n, r) =>
        (if p.rtype = 3 then zset1Elems n r else zset2Elems n r).map
          (fun es => es.map (fun (m, bits) => ⟨b!"ZADD", [Arg.b p.key, Arg.f bits, Arg.b m]⟩))
    else
      match readString p.buf with
      | none => none
      | some (b, _) =>
        (if p.rtype = 12 then zlPairs b else lpPairs b).map
          (fun ps => ps.map (fun (m, s) => cmdB b!"ZADD" [p.key, s, m]))
  | some .hash => (hashPairs p).map (fun ps => ps.map (fun (f, v) => cmdB b!"HSET" [p.key, f, v]))
  | some .stream => execStream x p.rtype p.key p.buf
  | some .module => none
  | some .function =>
    if x.tgtMajor ≥ 7 then
      let d := p.dump
      some [cmdB b!"FUNCTION" ([b!"RESTORE", d] ++
        (if x.fnExists = 1 then [b!"FLUSH"] else if x.fnExists = 2 then [] else [b!"REPLACE"]))]
    else some []
  | some .aux =>
    if p.key = b!"lua" then some [cmdB b!"script" [b!"load", p.val]] else some []

end GunYu.Rdb
