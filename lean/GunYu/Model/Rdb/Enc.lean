/-
  C03 — encoders as SPECIFICATION: what Redis 4.0–8.x writes into an RDB file
  (rdb.c rdbSaveObject / rdbSaveKeyValuePair / rdbSaveRio), for a described
  dataset. A description fixes the logical value AND every encoding choice
  (length forms, integer/LZF strings, container encodings, integer widths,
  prevlen forms), so "for all datasets and all encodings" is "for all
  descriptions".

  `ObjE.enc`  : type byte and value bytes
  `ObjE.value`: the logical value (RedisSem.Val)
-/
import GunYu.Model.Rdb.Float
import GunYu.Model.Rdb.Str
import GunYu.Model.Rdb.Ziplist
import GunYu.Model.Rdb.Listpack
import GunYu.Model.Rdb.Stream

namespace GunYu.Rdb
open GunYu

def flatEnc (l : List SE) : Bytes := l.flatMap SE.enc

/-- zset v1 score as rdbSaveDoubleValue writes it: 253/254/255 or length + ASCII -/
inductive Score1 where
  | nan | pinf | ninf
  | ascii (s : Bytes)
  deriving Repr, Inhabited

def Score1.enc : Score1 → Bytes
  | .nan => [253] | .pinf => [254] | .ninf => [255]
  | .ascii s => UInt8.ofNat s.length :: s

/-- quicklist v2 node -/
inductive QNode where
  | plain (s : SE)                      -- container 1: one large element
  | packed (w : SE) (es : List LPEntry) -- container 2: a listpack (wrapped as a string)
  deriving Repr, Inhabited

/-- one item of a module value / module aux payload (rdb.c RDB_MODULE_OPCODE_*) -/
inductive ModOp where
  | sint (n : Nat)          -- opcode 1 + rdbSaveLen
  | uint (n : Nat)          -- opcode 2 + rdbSaveLen
  | float (b : Bytes)       -- opcode 3 + 4 bytes
  | double (b : Bytes)      -- opcode 4 + 8 bytes
  | str (s : SE)            -- opcode 5 + string
  deriving Repr, Inhabited

def ModOp.enc : ModOp → Bytes
  | .sint n => saveLen 1 ++ saveLen n
  | .uint n => saveLen 2 ++ saveLen n
  | .float b => saveLen 3 ++ b
  | .double b => saveLen 4 ++ b
  | .str s => saveLen 5 ++ s.enc

def ModOp.wf : ModOp → Prop
  | .sint n => n < 2 ^ 64
  | .uint n => n < 2 ^ 64
  | .float b => b.length = 4
  | .double b => b.length = 8
  | .str s => s.wf

instance ModOp.decWf (o : ModOp) : Decidable o.wf := by
  cases o <;> unfold ModOp.wf <;> exact inferInstance

/-- module id, items, EOF opcode -/
def modulePayload (id : Nat) (ops : List ModOp) : Bytes :=
  saveLen id ++ ops.flatMap ModOp.enc ++ saveLen 0

/-- one value with its on-disk encoding. A "wrapper" `w : SE` is the string
    object the blob (ziplist, listpack, intset, zipmap) is saved as — raw or
    LZF-compressed; well-formedness demands `w.val = blob`. -/
inductive ObjE where
  | str (s : SE)
  | listLinked (f : LenForm) (items : List SE)                 -- type 1
  | listZiplist (w : SE) (zl : ZL)                             -- type 10
  | listQuick (f : LenForm) (nodes : List (SE × ZL))           -- type 14
  | listQuick2 (f : LenForm) (nodes : List QNode)              -- type 18
  | setTable (f : LenForm) (items : List SE)                   -- type 2
  | setIntset (w : SE) (width : Nat) (vs : List Int)           -- type 11
  | setListpack (w : SE) (es : List LPEntry)                   -- type 20
  | zset1 (f : LenForm) (items : List (SE × Score1))           -- type 3
  | zset2 (f : LenForm) (items : List (SE × Nat))              -- type 5, score = float64 bits
  | zsetZiplist (w : SE) (zl : ZL)                             -- type 12
  | zsetListpack (w : SE) (es : List LPEntry)                  -- type 17
  | hashTable (f : LenForm) (items : List (SE × SE))           -- type 4
  | hashZipmap (w : SE) (items : List (Bytes × Bytes × Nat))   -- type 9
  | hashZiplist (w : SE) (zl : ZL)                             -- type 13
  | hashListpack (w : SE) (es : List LPEntry)                  -- type 16
  | stream (s : StreamE)                                       -- types 15, 19, 21, 26
  | module2 (id : Nat) (ops : List ModOp)                      -- type 7 (opaque: RESTORE only)
  | raw (t : UInt8) (bytes : Bytes)                            -- anything else, verbatim
  deriving Repr, Inhabited

def ObjE.rtype : ObjE → UInt8
  | .str _ => 0 | .listLinked .. => 1 | .listZiplist .. => 10 | .listQuick .. => 14
  | .listQuick2 .. => 18 | .setTable .. => 2 | .setIntset .. => 11 | .setListpack .. => 20
  | .zset1 .. => 3 | .zset2 .. => 5 | .zsetZiplist .. => 12 | .zsetListpack .. => 17
  | .hashTable .. => 4 | .hashZipmap .. => 9 | .hashZiplist .. => 13 | .hashListpack .. => 16
  | .stream s => s.rtype
  | .module2 .. => 7
  | .raw t _ => t

def QNode.enc : QNode → Bytes
  | .plain s => encLen .b6 1 ++ s.enc
  | .packed w _ => encLen .b6 2 ++ w.enc

/-- the value's serialization (what follows the key in the file, what a DUMP
    payload carries between the type byte and the footer) -/
def ObjE.ser : ObjE → Bytes
  | .str s => s.enc
  | .listLinked f items => encLen f items.length ++ flatEnc items
  | .listZiplist w _ => w.enc
  | .listQuick f nodes => encLen f nodes.length ++ nodes.flatMap (fun n => n.1.enc)
  | .listQuick2 f nodes => encLen f nodes.length ++ nodes.flatMap QNode.enc
  | .setTable f items => encLen f items.length ++ flatEnc items
  | .setIntset w _ _ => w.enc
  | .setListpack w _ => w.enc
  | .zset1 f items => encLen f items.length ++ items.flatMap (fun p => p.1.enc ++ p.2.enc)
  | .zset2 f items => encLen f items.length ++ items.flatMap (fun p => p.1.enc ++ leN 8 p.2)
  | .zsetZiplist w _ => w.enc
  | .zsetListpack w _ => w.enc
  | .hashTable f items => encLen f items.length ++ items.flatMap (fun p => p.1.enc ++ p.2.enc)
  | .hashZipmap w _ => w.enc
  | .hashZiplist w _ => w.enc
  | .hashListpack w _ => w.enc
  | .stream s => s.ser
  | .module2 id ops => modulePayload id ops
  | .raw _ b => b

/-! ## well-formedness: what makes a description denote a real Redis value -/

/-- scores of the old (type 3) format: NaN/±Inf markers, or a text of at most 252 bytes that
    `strconv.ParseFloat` accepts (`parseF64`, Model/Rdb/Float.lean: any decimal text with a
    finite value, `inf`/`infinity`/`nan`) -/
def Score1.wf : Score1 → Prop
  | .ascii s => s.length < 253 ∧ (parseF64 s).isSome = true
  | _ => True

instance Score1.decWf (s : Score1) : Decidable s.wf := by
  cases s <;> unfold Score1.wf <;> exact inferInstance

def QNode.wf : QNode → Prop
  | .plain s => s.wf
  | .packed w es => w.wf ∧ w.val = lpBlob es ∧ lpWf es

instance QNode.decWf (n : QNode) : Decidable n.wf := by
  cases n <;> unfold QNode.wf <;> exact inferInstance

def ObjE.wf : ObjE → Prop
  | .str s => s.wf
  | .listLinked f items => f.fits items.length ∧ items.length < 2 ^ 32 ∧ ∀ s ∈ items, s.wf
  | .listZiplist w zl => w.wf ∧ w.val = zl.blob ∧ zl.wf
  | .listQuick f nodes => f.fits nodes.length ∧ nodes.length < 2 ^ 32 ∧
      ∀ n ∈ nodes, n.1.wf ∧ n.1.val = n.2.blob ∧ n.2.wf
  | .listQuick2 f nodes => f.fits nodes.length ∧ nodes.length < 2 ^ 32 ∧ ∀ n ∈ nodes, n.wf
  | .setTable f items => f.fits items.length ∧ items.length < 2 ^ 32 ∧ ∀ s ∈ items, s.wf
  | .setIntset w width vs => w.wf ∧ w.val = intsetBlob width vs ∧ (width = 2 ∨ width = 4 ∨ width = 8) ∧
      vs.length < 2 ^ 32 ∧ ∀ v ∈ vs, inSigned (8 * width) v
  | .setListpack w es => w.wf ∧ w.val = lpBlob es ∧ lpWf es
  | .zset1 f items => f.fits items.length ∧ items.length < 2 ^ 32 ∧ ∀ p ∈ items, p.1.wf ∧ p.2.wf
  | .zset2 f items => f.fits items.length ∧ items.length < 2 ^ 32 ∧ ∀ p ∈ items, p.1.wf ∧ p.2 < 2 ^ 64
  | .zsetZiplist w zl => w.wf ∧ w.val = zl.blob ∧ zl.wf ∧ zl.entries.length % 2 = 0
  | .zsetListpack w es => w.wf ∧ w.val = lpBlob es ∧ lpWf es ∧ es.length % 2 = 0
  | .hashTable f items => f.fits items.length ∧ items.length < 2 ^ 32 ∧ ∀ p ∈ items, p.1.wf ∧ p.2.wf
  | .hashZipmap w items => w.wf ∧ w.val = zipmapBlob items ∧
      ∀ i ∈ items, i.1.length < 2 ^ 32 ∧ i.2.1.length < 2 ^ 32 ∧ i.2.2 < 256
  | .hashZiplist w zl => w.wf ∧ w.val = zl.blob ∧ zl.wf ∧ zl.entries.length % 2 = 0
  | .hashListpack w es => w.wf ∧ w.val = lpBlob es ∧ lpWf es ∧ es.length % 2 = 0
  | .stream s => s.wf
  | .module2 id ops => id < 2 ^ 64 ∧ ∀ o ∈ ops, o.wf
  | .raw _ _ => True

instance ObjE.decWf (o : ObjE) : Decidable o.wf := by
  cases o <;> unfold ObjE.wf <;> exact inferInstance

/-! ## the file frame -/

inductive ExpE where
  | none
  | ms (t : Nat)      -- EXPIRETIME_MS, 8 bytes LE
  | sec (t : Nat)     -- EXPIRETIME, 4 bytes LE
  deriving Repr, Inhabited

def ExpE.enc : ExpE → Bytes
  | .none => []
  | .ms t => 0xFC :: leN 8 t
  | .sec t => 0xFD :: leN 4 t

def ExpE.at : ExpE → Nat
  | .none => 0
  | .ms t => t
  | .sec t => t * 1000

structure KeyE where
  exp : ExpE := .none
  idle : Option (LenForm × Nat) := none
  freq : Option Nat := none
  key : SE
  obj : ObjE
  deriving Repr, Inhabited

def idleBytes (k : KeyE) : Bytes := match k.idle with | none => [] | some (f, n) => 0xF8 :: encLen f n
def freqBytes (k : KeyE) : Bytes := match k.freq with | none => [] | some n => [0xF9, UInt8.ofNat n]

def KeyE.enc (k : KeyE) : Bytes :=
  k.exp.enc ++ idleBytes k ++ freqBytes k ++ [k.obj.rtype] ++ k.key.enc ++ k.obj.ser

inductive Item where
  | aux (k v : SE)
  | selectDb (f : LenForm) (n : Nat)
  | resizeDb (f1 : LenForm) (a : Nat) (f2 : LenForm) (b : Nat)
  | slotInfo (a b c : Nat)
  | function (code : SE)
  | moduleAux (id : Nat) (ops : List ModOp)
  | key (k : KeyE)
  deriving Repr, Inhabited

def Item.enc : Item → Bytes
  | .aux k v => 0xFA :: (k.enc ++ v.enc)
  | .selectDb f n => 0xFE :: encLen f n
  | .resizeDb f1 a f2 b => 0xFB :: (encLen f1 a ++ encLen f2 b)
  | .slotInfo a b c => 0xF4 :: (encLen (minForm a) a ++ encLen (minForm b) b ++ encLen (minForm c) c)
  | .function code => 0xF5 :: code.enc
  | .moduleAux id ops => 0xF7 :: modulePayload id ops
  | .key k => k.enc

def KeyE.wf (k : KeyE) : Prop :=
  k.key.wf ∧ k.obj.wf ∧
  (match k.exp with | .none => True | .ms t => t < 2 ^ 64 | .sec t => t < 2 ^ 32) ∧
  (match k.idle with | none => True | some (f, n) => f.fits n ∧ n < 2 ^ 32) ∧
  (match k.freq with | none => True | some n => n < 256)

instance KeyE.decWf (k : KeyE) : Decidable k.wf := by
  unfold KeyE.wf
  cases k.exp <;> cases k.idle <;> cases k.freq <;> exact inferInstance

def Item.wf : Item → Prop
  | .aux k v => k.wf ∧ v.wf
  | .selectDb f n => f.fits n ∧ n < 2 ^ 32
  | .resizeDb f1 a f2 b => f1.fits a ∧ f2.fits b
  | .slotInfo a b c => a < 2 ^ 64 ∧ b < 2 ^ 64 ∧ c < 2 ^ 64
  | .function code => code.wf
  | .moduleAux id ops => id < 2 ^ 64 ∧ ∀ o ∈ ops, o.wf
  | .key k => k.wf

instance Item.decWf (i : Item) : Decidable i.wf := by
  cases i <;> unfold Item.wf <;> exact inferInstance

inductive FooterE where
  | good      -- the CRC64 of everything before it
  | zero      -- eight zero bytes ("rdbchecksum no")
  | bad       -- a wrong checksum (for the negative cases)
  deriving Repr, DecidableEq, Inhabited

structure FileE where
  version : Nat
  items : List Item
  footer : FooterE := .good
  deriving Repr, Inhabited

def FileE.wf (f : FileE) : Prop := 1 ≤ f.version ∧ f.version ≤ 13 ∧ ∀ i ∈ f.items, i.wf

instance FileE.decWf (f : FileE) : Decidable f.wf := by unfold FileE.wf; exact inferInstance

/-- four ASCII digits -/
def verDigits (v : Nat) : Bytes :=
  [UInt8.ofNat (48 + v / 1000 % 10), UInt8.ofNat (48 + v / 100 % 10),
   UInt8.ofNat (48 + v / 10 % 10), UInt8.ofNat (48 + v % 10)]

def FileE.body (f : FileE) : Bytes :=
  b!"REDIS" ++ verDigits f.version ++ f.items.flatMap Item.enc ++ [0xFF]

def rdbFile (f : FileE) : Bytes :=
  let body := f.body
  body ++ (match f.footer with
    | .good => le64 (crc64Spec body).toNat
    | .zero => le64 0
    | .bad => le64 ((crc64Spec body).toNat + 1))

/-- `rdbFile` with the table-driven CRC (what the driver runs; equal to
    `rdbFile` by `crc64_tab_eq_jones`, see Proofs/Rdb/Frame.lean) -/
def rdbFileFast (f : FileE) : Bytes :=
  let body := f.body
  body ++ (match f.footer with
    | .good => le64 (crc64Tab body).toNat
    | .zero => le64 0
    | .bad => le64 ((crc64Tab body).toNat + 1))

end GunYu.Rdb
