/-
  C03 — encoders as SPECIFICATION: what Redis 4.0–8.x writes into an RDB file
  (rdb.c rdbSaveObject / rdbSaveKeyValuePair / rdbSaveRio), for a described
  dataset. A description fixes the logical value AND every encoding choice
  (length forms, integer/LZF strings, container encodings, integer widths,
  prevlen forms), so "for all datasets and all encodings" is "for all
  descriptions".

  `ObjE.enc`  : type byte and value bytes
  `ObjE.value`: the logical value (RedisSem.Val)
-/
import GunYu.Model.Rdb.Str
import GunYu.Model.Rdb.Ziplist
import GunYu.Model.Rdb.Listpack

namespace GunYu.Rdb
open GunYu

def flatEnc (l : List SE) : Bytes := l.flatMap SE.enc

/-- zset v1 score as rdbSaveDoubleValue writes it: 253/254/255 or length + ASCII -/
inductive Score1 where
  | nan | pinf | ninf
  | ascii (s : Bytes)
  deriving Repr, Inhabited

def Score1.enc : Score1 → Bytes
  | .nan => [253] | .pinf => [254] | .ninf => [255]
  | .ascii s => UInt8.ofNat s.length :: s

/-- quicklist v2 node -/
inductive QNode where
  | plain (s : SE)                      -- container 1: one large element
  | packed (w : SE) (es : List LPEntry) -- container 2: a listpack (wrapped as a string)
  deriving Repr, Inhabited

/-- one value with its on-disk encoding. A "wrapper" `w : SE` is the string
    object the blob (ziplist, listpack, intset, zipmap) is saved as — raw or
    LZF-compressed; well-formedness demands `w.val = blob`. -/
inductive ObjE where
  | str (s : SE)
  | listLinked (f : LenForm) (items : List SE)                 -- type 1
  | listZiplist (w : SE) (zl : ZL)                             -- type 10
  | listQuick (f : LenForm) (nodes : List (SE × ZL))           -- type 14
  | listQuick2 (f : LenForm) (nodes : List QNode)              -- type 18
  | setTable (f : LenForm) (items : List SE)                   -- type 2
  | setIntset (w : SE) (width : Nat) (vs : List Int)           -- type 11
  | setListpack (w : SE) (es : List LPEntry)                   -- type 20
  | zset1 (f : LenForm) (items : List (SE × Score1))           -- type 3
  | zset2 (f : LenForm) (items : List (SE × Nat))              -- type 5, score = float64 bits
  | zsetZiplist (w : SE) (zl : ZL)                             -- type 12
  | zsetListpack (w : SE) (es : List LPEntry)                  -- type 17
  | hashTable (f : LenForm) (items : List (SE × SE))           -- type 4
  | hashZipmap (w : SE) (items : List (Bytes × Bytes × Nat))   -- type 9
  | hashZiplist (w : SE) (zl : ZL)                             -- type 13
  | hashListpack (w : SE) (es : List LPEntry)                  -- type 16
  | raw (t : UInt8) (bytes : Bytes)                            -- anything else, verbatim (streams are built in Stream.lean)
  deriving Repr, Inhabited

def ObjE.rtype : ObjE → UInt8
  | .str _ => 0 | .listLinked .. => 1 | .listZiplist .. => 10 | .listQuick .. => 14
  | .listQuick2 .. => 18 | .setTable .. => 2 | .setIntset .. => 11 | .setListpack .. => 20
  | .zset1 .. => 3 | .zset2 .. => 5 | .zsetZiplist .. => 12 | .zsetListpack .. => 17
  | .hashTable .. => 4 | .hashZipmap .. => 9 | .hashZiplist .. => 13 | .hashListpack .. => 16
  | .raw t _ => t

def QNode.enc : QNode → Bytes
  | .plain s => encLen .b6 1 ++ s.enc
  | .packed w _ => encLen .b6 2 ++ w.enc

/-- the value's serialization (what follows the key in the file, what a DUMP
    payload carries between the type byte and the footer) -/
def ObjE.ser : ObjE → Bytes
  | .str s => s.enc
  | .listLinked f items => encLen f items.length ++ flatEnc items
  | .listZiplist w _ => w.enc
  | .listQuick f nodes => encLen f nodes.length ++ nodes.flatMap (fun n => n.1.enc)
  | .listQuick2 f nodes => encLen f nodes.length ++ nodes.flatMap QNode.enc
  | .setTable f items => encLen f items.length ++ flatEnc items
  | .setIntset w _ _ => w.enc
  | .setListpack w _ => w.enc
  | .zset1 f items => encLen f items.length ++ items.flatMap (fun p => p.1.enc ++ p.2.enc)
  | .zset2 f items => encLen f items.length ++ items.flatMap (fun p => p.1.enc ++ leN 8 p.2)
  | .zsetZiplist w _ => w.enc
  | .zsetListpack w _ => w.enc
  | .hashTable f items => encLen f items.length ++ items.flatMap (fun p => p.1.enc ++ p.2.enc)
  | .hashZipmap w _ => w.enc
  | .hashZiplist w _ => w.enc
  | .hashListpack w _ => w.enc
  | .raw _ b => b

/-! ## the file frame -/

inductive ExpE where
  | none
  | ms (t : Nat)      -- EXPIRETIME_MS, 8 bytes LE
  | sec (t : Nat)     -- EXPIRETIME, 4 bytes LE
  deriving Repr, Inhabited

def ExpE.enc : ExpE → Bytes
  | .none => []
  | .ms t => 0xFC :: leN 8 t
  | .sec t => 0xFD :: leN 4 t

def ExpE.at : ExpE → Nat
  | .none => 0
  | .ms t => t
  | .sec t => t * 1000

structure KeyE where
  exp : ExpE := .none
  idle : Option (LenForm × Nat) := none
  freq : Option Nat := none
  key : SE
  obj : ObjE
  deriving Repr, Inhabited

def KeyE.enc (k : KeyE) : Bytes :=
  k.exp.enc ++
  (match k.idle with | none => [] | some (f, n) => 0xF8 :: encLen f n) ++
  (match k.freq with | none => [] | some n => [0xF9, UInt8.ofNat n]) ++
  [k.obj.rtype] ++ k.key.enc ++ k.obj.ser

inductive Item where
  | aux (k v : SE)
  | selectDb (f : LenForm) (n : Nat)
  | resizeDb (f1 : LenForm) (a : Nat) (f2 : LenForm) (b : Nat)
  | slotInfo (a b c : Nat)
  | function (code : SE)
  | key (k : KeyE)
  deriving Repr, Inhabited

def Item.enc : Item → Bytes
  | .aux k v => 0xFA :: (k.enc ++ v.enc)
  | .selectDb f n => 0xFE :: encLen f n
  | .resizeDb f1 a f2 b => 0xFB :: (encLen f1 a ++ encLen f2 b)
  | .slotInfo a b c => 0xF4 :: (encLen (minForm a) a ++ encLen (minForm b) b ++ encLen (minForm c) c)
  | .function code => 0xF5 :: code.enc
  | .key k => k.enc

inductive FooterE where
  | good      -- the CRC64 of everything before it
  | zero      -- eight zero bytes ("rdbchecksum no")
  | bad       -- a wrong checksum (for the negative cases)
  deriving Repr, DecidableEq, Inhabited

structure FileE where
  version : Nat
  items : List Item
  footer : FooterE := .good
  deriving Repr, Inhabited

/-- four ASCII digits -/
def verDigits (v : Nat) : Bytes :=
  [UInt8.ofNat (48 + v / 1000 % 10), UInt8.ofNat (48 + v / 100 % 10),
   UInt8.ofNat (48 + v / 10 % 10), UInt8.ofNat (48 + v % 10)]

def FileE.body (f : FileE) : Bytes :=
  b!"REDIS" ++ verDigits f.version ++ f.items.flatMap Item.enc ++ [0xFF]

def rdbFile (f : FileE) : Bytes :=
  let body := f.body
  body ++ (match f.footer with
    | .good => le64 (crc64Spec body).toNat
    | .zero => le64 0
    | .bad => le64 ((crc64Spec body).toNat + 1))

end GunYu.Rdb
