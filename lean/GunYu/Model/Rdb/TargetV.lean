/-
  C03 — the replay oracle of a target of a given MAJOR VERSION (specification, new in
  session 4): as `RedisSem.applyReq`, except that `RESTORE` of a payload whose value
  type the server cannot load (`typeLoadable`: 4.x up to quicklist, 5/6 + stream v1,
  7.x + listpack encodings / quicklist 2 / stream v2, v3, 8.x all) is answered with
  `ERR Bad data format` and has NO effect on the keyspace. An error reply does not
  close the connection: the next request is executed as usual.
-/
import GunYu.Model.Rdb.StreamValue

namespace GunYu.RedisSem
open GunYu GunYu.Rdb

/-- is the request a RESTORE whose payload (third argument; its first byte is the RDB
    value type) a server of major version `major` refuses with `Bad data format`? -/
def refused (major : Nat) (c : Cmd) : Bool :=
  lower c.name == b!"restore" &&
  match c.args with
  | _ :: _ :: .b (t :: _) :: _ => !typeLoadable major t
  | _ => false

/-- one keyspace command on a server of version `major` (`some ks` unchanged = the
    error reply `Bad data format`; `none` = any other error reply) -/
def applyXCmdV (major : Nat) (ks : Keyspace) (c : Cmd) : Option Keyspace :=
  if refused major c then some ks else applyXCmd ks c

def applyCmdsV (major : Nat) : Keyspace → List Cmd → Option Keyspace
  | ks, [] => some ks
  | ks, c :: cs =>
    match applyXCmdV major ks c with
    | none => none
    | some ks' => applyCmdsV major ks' cs

def applyReqV (major : Nat) (t : TState) (c : Cmd) : Option TState :=
  if refused major c then some t else applyReq t c

def applyReqsV (major : Nat) : TState → List Cmd → Option TState
  | t, [] => some t
  | t, c :: cs =>
    match applyReqV major t c with
    | none => none
    | some t' => applyReqsV major t' cs

end GunYu.RedisSem

namespace GunYu.Rdb
open GunYu GunYu.RedisSem

/-- the expansion expected for a value (streams included) -/
def ObjE.cmdsS (x : XCfg) (k : Bytes) : ObjE → List Cmd
  | .stream s => s.cmds x k
  | o => o.cmds k

/-- the value travels as a RESTORE payload that the target also ACCEPTS -/
def viaRestoreV (cfg : RCfg) (o : ObjE) : Prop :=
  viaRestore cfg o ∧ typeLoadable cfg.x.tgtMajor o.rtype = true

/-- as `HoldsS` for a version-aware target: a value whose RESTORE is refused arrives
    expanded (the `Bad data format` fall-back) -/
def HoldsV (cfg : RCfg) (p : Nat × KeyE) (x : Bytes × Val × Nat) : Prop :=
  x.1 = p.2.key.val ∧ x.2.2 = ttlOf cfg.now p.2.exp.at ∧
  ((x.2.1 = p.2.obj.valueS cfg.x ∧ (¬ viaRestoreV cfg p.2.obj ∨ p.2.obj.rtype = 4)) ∨
   (x.2.1 = .restored (createValueDump p.2.obj.rtype p.2.obj.ser) ∧ viaRestoreV cfg p.2.obj))

end GunYu.Rdb
