/-
  C03 — CRC64 and the DUMP payload footer.
  * `crc64Tab`   : the Go loop of pkg/digest/crc64.go (`digest.update`) over the
                   REGENERATED table
  * `crc64Spec`  : bitwise CRC-64/Jones as Redis defines it (polynomial
                   0xad93d23594c935a9, reflected input and output, init 0,
                   xorout 0): LSB-first shift register over the bit-reversed
                   polynomial                                                    [spec]
  * `createValueDump` : pkg/rdb/rdb_object.go CreateValueDump
  * `verifyDumpPayload` : Redis cluster.c verifyDumpPayload                      [spec]
-/
import GunYu.Basic.Bytes
import GunYu.Gen.Crc64Table

namespace GunYu.Rdb
open GunYu

/-! ### table driven (Go) -/

/-- `d.crc = crc64_table[byte(d.crc)^b] ^ (d.crc >> 8)` -/
def crc64TabStep (crc : BitVec 64) (b : UInt8) : BitVec 64 :=
  Gen.crc64Table.getD (((crc ^^^ (b.toBitVec.setWidth 64)) &&& 0xFF#64).toNat) 0#64 ^^^ (crc >>> 8)

/-- `digest.update` continued from state `c` -/
def crc64TabFrom (c : BitVec 64) (bs : Bytes) : BitVec 64 := bs.foldl crc64TabStep c

def crc64Tab (bs : Bytes) : BitVec 64 := crc64TabFrom 0#64 bs

/-! ### bitwise specification -/

/-- the Jones polynomial as written in Redis' crc64.c (`#define POLY`) -/
def jonesPoly : BitVec 64 := 0xad93d23594c935a9#64

/-- reflected (LSB-first) form of the polynomial -/
def jonesPolyRev : BitVec 64 := jonesPoly.reverse

/-- one bit of the LSB-first shift register -/
def crc64BitStep (c : BitVec 64) : BitVec 64 :=
  if c[0] then (c >>> 1) ^^^ jonesPolyRev else c >>> 1

def crc64BitStep8 (c : BitVec 64) : BitVec 64 :=
  crc64BitStep (crc64BitStep (crc64BitStep (crc64BitStep
    (crc64BitStep (crc64BitStep (crc64BitStep (crc64BitStep c)))))))

/-- xor the byte into the low end, shift eight times -/
def crc64SpecStep (crc : BitVec 64) (b : UInt8) : BitVec 64 :=
  crc64BitStep8 (crc ^^^ (b.toBitVec.setWidth 64))

def crc64Spec (bs : Bytes) : BitVec 64 := bs.foldl crc64SpecStep 0#64

/-! ### little-endian integers -/

def le16 (n : Nat) : Bytes := [UInt8.ofNat (n % 256), UInt8.ofNat (n / 256 % 256)]

def leN : Nat → Nat → Bytes
  | 0, _ => []
  | k+1, n => UInt8.ofNat (n % 256) :: leN k (n / 256)

def le64 (n : Nat) : Bytes := leN 8 n

def ofLE : Bytes → Nat
  | [] => 0
  | b :: rest => b.toNat + 256 * ofLE rest

/-! ### DUMP payload

```go
func CreateValueDump(rtype byte, data []byte) []byte {
	c := digest.New()
	w := io.MultiWriter(&b, c)
	w.Write([]byte{rtype})                          // 1B
	w.Write(data)                                   // xB
	binary.Write(w, binary.LittleEndian, uint16(6)) // 2B
	binary.Write(w, binary.LittleEndian, c.Sum64()) // 8B
	return b.Bytes()
}
```
The multi-writer feeds the buffer and the digest the same bytes; `c.Sum64()` is
evaluated after the first three writes.
-/
def dumpVersion : Nat := 6

def createValueDump (rtype : UInt8) (data : Bytes) : Bytes :=
  let c0 := crc64TabFrom 0#64 [rtype]
  let c1 := crc64TabFrom c0 data
  let c2 := crc64TabFrom c1 (le16 dumpVersion)
  [rtype] ++ data ++ le16 dumpVersion ++ le64 c2.toNat

/-- Redis `verifyDumpPayload(p, len)` for a server whose RDB_VERSION is
    `rdbVersion`: at least 10 bytes, footer = 2-byte LE version ≤ RDB_VERSION,
    8-byte LE CRC64 of everything before it. -/
def verifyDumpPayload (rdbVersion : Nat) (p : Bytes) : Bool :=
  if p.length < 10 then false else
  let body := p.take (p.length - 10)
  let ver := (p.drop (p.length - 10)).take 2
  let crc := p.drop (p.length - 8)
  decide (ofLE ver ≤ rdbVersion) && decide (ofLE crc = (crc64Spec (body ++ ver)).toNat)

end GunYu.Rdb
