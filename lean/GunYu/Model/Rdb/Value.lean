/-
  C03 — the logical value a description denotes (`ObjE.value`, in terms of the
  replay oracle's `Val`), the expansion one expects for it (`ObjE.cmds`) and the
  parser object the loader builds for it (`pobjOf`). Specification side.
-/
import GunYu.Model.Rdb.Enc
import GunYu.Model.Rdb.Exec
import GunYu.Model.RedisSem

namespace GunYu.Rdb
open GunYu GunYu.RedisSem

/-- float64 bit pattern of an old-format score -/
def Score1.bits : Score1 → Nat
  | .nan => 0x7FF8000000000001
  | .pinf => 0x7FF0000000000000
  | .ninf => 0xFFF0000000000000
  | .ascii s => (parseF64 s).getD 0

def QNode.vals : QNode → List Bytes
  | .plain s => [s.val]
  | .packed _ es => es.map LPEntry.val

/-- elements of a list / set value, in stored order -/
def ObjE.elems : ObjE → List Bytes
  | .listLinked _ items => items.map SE.val
  | .listZiplist _ zl => zl.vals
  | .listQuick _ nodes => nodes.flatMap (fun n => n.2.vals)
  | .listQuick2 _ nodes => nodes.flatMap QNode.vals
  | .setTable _ items => items.map SE.val
  | .setIntset _ _ vs => vs.map intToDec
  | .setListpack _ es => es.map LPEntry.val
  | _ => []

/-- (member, score token) of a sorted set, in stored order -/
def ObjE.scored : ObjE → List (Bytes × Arg)
  | .zset1 _ items => items.map (fun p => (p.1.val, Arg.f p.2.bits))
  | .zset2 _ items => items.map (fun p => (p.1.val, Arg.f p.2))
  | .zsetZiplist _ zl => (pairUp zl.vals).map (fun p => (p.1, Arg.b p.2))
  | .zsetListpack _ es => (pairUp (es.map LPEntry.val)).map (fun p => (p.1, Arg.b p.2))
  | _ => []

/-- (field, value) of a hash, in stored order -/
def ObjE.pairs : ObjE → List (Bytes × Bytes)
  | .hashTable _ items => items.map (fun p => (p.1.val, p.2.val))
  | .hashZipmap _ items => items.map (fun i => (i.1, i.2.1))
  | .hashZiplist _ zl => pairUp zl.vals
  | .hashListpack _ es => pairUp (es.map LPEntry.val)
  | _ => []

inductive Kind where
  | str | list | set | zset | hash | other
  deriving Repr, DecidableEq

def ObjE.kind : ObjE → Kind
  | .str _ => .str
  | .listLinked .. | .listZiplist .. | .listQuick .. | .listQuick2 .. => .list
  | .setTable .. | .setIntset .. | .setListpack .. => .set
  | .zset1 .. | .zset2 .. | .zsetZiplist .. | .zsetListpack .. => .zset
  | .hashTable .. | .hashZipmap .. | .hashZiplist .. | .hashListpack .. => .hash
  | _ => .other

/-- the value on the source (strings, lists, sets, sorted sets, hashes) -/
def ObjE.value (o : ObjE) : Val :=
  match o.kind with
  | .str => match o with | .str s => .str s.val | _ => .str []
  | .list => .list o.elems
  | .set => .set o.elems
  | .zset => .zset o.scored
  | .hash => .hash o.pairs
  | .other => .str []

/-- the keys that Redis keeps distinct inside the value -/
def ObjE.members (o : ObjE) : List Bytes :=
  match o.kind with
  | .set => o.elems
  | .zset => o.scored.map (·.1)
  | .hash => o.pairs.map (·.1)
  | _ => []

/-- Redis never stores an empty list / set / sorted set / hash -/
def ObjE.nonempty (o : ObjE) : Prop :=
  match o.kind with
  | .list | .set => o.elems ≠ []
  | .zset => o.scored ≠ []
  | .hash => o.pairs ≠ []
  | _ => True

instance ObjE.decNonempty (o : ObjE) : Decidable o.nonempty := by
  unfold ObjE.nonempty; cases o.kind <;> exact inferInstance

/-- the expansion expected for key `k` -/
def ObjE.cmds (o : ObjE) (k : Bytes) : List Cmd :=
  match o.kind with
  | .str => match o with | .str s => [cmdB b!"set" [k, s.val]] | _ => []
  | .list => o.elems.map (fun e => cmdB b!"RPUSH" [k, e])
  | .set => o.elems.map (fun e => cmdB b!"SADD" [k, e])
  | .zset => o.scored.map (fun p => ⟨b!"ZADD", [Arg.b k, p.2, Arg.b p.1]⟩)
  | .hash => o.pairs.map (fun p => cmdB b!"HSET" [k, p.1, p.2])
  | .other => []

/-- the parser object `ReadBuffer` builds for value `o` under key `k` when the
    value is not split -/
def pobjOf (k : Bytes) (o : ObjE) : PObj :=
  { rtype := o.rtype, key := k,
    val := (match o with | .str s => s.val | _ => []),
    buf := o.ser,
    total := (match o with | .hashTable _ items => items.length | _ => 0),
    read := (match o with | .hashTable _ items => items.length | _ => 0),
    history := 0 }

end GunYu.Rdb
