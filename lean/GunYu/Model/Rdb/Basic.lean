/-
  C03 — shared pieces of the snapshot (RDB) model: typed command arguments,
  byte readers over `Bytes` (a reader consumes a prefix and returns the rest;
  `none` = the Go code panics / returns an error), big/little-endian integers,
  two's-complement conversion.
-/
import GunYu.Basic.Bytes
import GunYu.Model.Rdb.Crc64

namespace GunYu.Rdb
open GunYu

/-- an argument as handed to `client.Redis` (before the wire encoding of
    pkg/redis/client/proto/writer.go: strings/[]byte as they are, integers in
    decimal, float64 by `strconv.AppendFloat(f,'f',-1,64)` — floats are carried
    by bit pattern, their rendering is trusted to strconv). -/
inductive Arg where
  | b (bs : Bytes)
  | f (bits : Nat)
  deriving Repr, DecidableEq, Inhabited

structure Cmd where
  name : Bytes
  args : List Arg
  deriving Repr, DecidableEq, Inhabited

/-! ### primitive readers -/

def readByte : Bytes → Option (UInt8 × Bytes)
  | [] => none
  | b :: r => some (b, r)

/-- `io.ReadFull` of `n` bytes -/
def readN (n : Nat) (bs : Bytes) : Option (Bytes × Bytes) :=
  -- (`n ≤ bs.length`, tested on the taken prefix so that the cost is O(n), not O(|bs|))
  let t := bs.take n
  if t.length = n then some (t, bs.drop n) else none

def ofBE (bs : Bytes) : Nat := bs.foldl (fun acc b => acc * 256 + b.toNat) 0

/-- big-endian, `k` bytes -/
def beN : Nat → Nat → Bytes
  | 0, _ => []
  | k+1, n => UInt8.ofNat (n / 256 ^ k % 256) :: beN k n

/-- two's complement: unsigned `u` of `bits` width read as signed -/
def toSigned (bits : Nat) (u : Nat) : Int :=
  if u < 2 ^ (bits - 1) then (u : Int) else (u : Int) - (2 ^ bits : Nat)

/-- signed `v` stored in `bits` width -/
def ofSigned (bits : Nat) (v : Int) : Nat :=
  if 0 ≤ v then v.toNat else ((2 ^ bits : Nat) + v).toNat

def inSigned (bits : Nat) (v : Int) : Prop := -(2 ^ (bits - 1) : Nat) ≤ v ∧ v < (2 ^ (bits - 1) : Nat)

instance inSigned.dec (bits : Nat) (v : Int) : Decidable (inSigned bits v) := by
  unfold inSigned; exact inferInstance

/-- the bytes a reader consumed: `bs` minus its suffix `rest` -/
def consumed (bs rest : Bytes) : Bytes := bs.take (bs.length - rest.length)

/-- optional leading `-` of a decimal string: (negative?, digits) -/
def splitSign (s : Bytes) : Bool × Bytes :=
  if s.head? = some 45 then (true, s.tail) else (false, s)

/-- float64 bit pattern of a natural number below 2^53 (exact) -/
def natToF64Bits (n : Nat) : Nat :=
  if n = 0 then 0 else
  let e := n.log2
  (e + 1023) * 2 ^ 52 + (n * 2 ^ (52 - e) - 2 ^ 52)

/-- consecutive elements as pairs (a trailing odd element is dropped) -/
def pairUp : List Bytes → List (Bytes × Bytes)
  | a :: b :: rest => (a, b) :: pairUp rest
  | _ => []

/- ASCII byte-list literal: `b!"SET"` elaborates to `[83, 69, 84]` (a plain
   list literal, so `decide`/`rfl` can look inside). -/
open Lean in
macro:max "b!" s:str : term => do
  let bytes := s.getString.toUTF8.toList
  let elems ← bytes.mapM fun b => `(($(Syntax.mkNumLit (toString b.toNat)) : UInt8))
  `(([$elems.toArray,*] : List UInt8))

end GunYu.Rdb
