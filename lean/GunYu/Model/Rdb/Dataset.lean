/-
  C03 — the dataset a snapshot description denotes (specification side): the keys
  of the file with the source database each lives in, which of them a configured
  replay carries to which target database, and what the target must hold for a
  key afterwards. Used by `full_sync` (Props/C03.lean).
-/
import GunYu.Model.Rdb.Value
import GunYu.Model.Rdb.Replay

namespace GunYu.Rdb
open GunYu GunYu.RedisSem

/-- the source database after an item (SELECTDB switches it) -/
def dbAfter (db : Nat) : Item → Nat
  | .selectDb _ n => n
  | _ => db

/-- the keys of an item list with the source database each lives in, in file order -/
def keysFrom : Nat → List Item → List (Nat × KeyE)
  | _, [] => []
  | db, .key k :: r => (db, k) :: keysFrom db r
  | db, i :: r => keysFrom (dbAfter db i) r

/-- the items `full_sync` carries: every frame item except module aux data; key
    items of the string / list / set / sorted-set / hash encodings (not streams, not
    module values) that are what Redis stores — not empty, members / fields distinct -/
def Item.carried : Item → Prop
  | .moduleAux .. => False
  | .key k => k.obj.kind ≠ .other ∧ k.obj.nonempty ∧ k.obj.members.Nodup
  | _ => True

instance Item.decCarried (i : Item) : Decidable i.carried := by
  cases i <;> unfold Item.carried <;> exact inferInstance

/-- the dataset of a file: a snapshot starts in database 0 -/
def FileE.keys (f : FileE) : List (Nat × KeyE) := keysFrom 0 f.items

/-- is the key replayed (neither its database nor the key itself is filtered out)? -/
def replayed (cfg : RCfg) (p : Nat × KeyE) : Bool :=
  !cfg.filterDb (p.1 : Int) && !cfg.filterKey p.2.key.val

/-- the keys database `D` of the target must hold after the full sync, in file order -/
def expectedKeys (cfg : RCfg) (D : Int) (ks : List (Nat × KeyE)) : List (Nat × KeyE) :=
  ks.filter (fun p => replayed cfg p && mapDb cfg (p.1 : Int) == D)

/-- the value can travel as ONE `RESTORE` request: RESTORE is enabled and the payload
    (type byte, serialization, 2-byte version, 8-byte CRC) fits `MaxProtoBulkLen` -/
def viaRestore (cfg : RCfg) (o : ObjE) : Prop :=
  cfg.enableRestore = true ∧ 1 + o.ser.length + 2 + 8 ≤ cfg.maxBulk

/-- what the target holds for key item `p` (source database, key item): the key, a
    time to live realising the absolute expiry (`ttl_absolute`), and the value —
    either the logical value rebuilt by the expanded commands (RESTORE disabled or
    payload too large; a hash table also when the loader split it into chunks) or
    the object RESTORE creates from the byte-exact payload
    `type ‖ serialization ‖ version ‖ CRC64` (`dump_payload`, `dump_verifies`) -/
def Holds (cfg : RCfg) (p : Nat × KeyE) (x : Bytes × Val × Nat) : Prop :=
  x.1 = p.2.key.val ∧ x.2.2 = ttlOf cfg.now p.2.exp.at ∧
  ((x.2.1 = p.2.obj.value ∧ (¬ viaRestore cfg p.2.obj ∨ p.2.obj.rtype = 4)) ∨
   (x.2.1 = .restored (createValueDump p.2.obj.rtype p.2.obj.ser) ∧ viaRestore cfg p.2.obj))

/-- two lists of equal length whose elements are related position by position -/
inductive Pointwise {α β : Type} (R : α → β → Prop) : List α → List β → Prop
  | nil : Pointwise R [] []
  | cons {a : α} {b : β} {as : List α} {bs : List β} :
      R a b → Pointwise R as bs → Pointwise R (a :: as) (b :: bs)

end GunYu.Rdb
