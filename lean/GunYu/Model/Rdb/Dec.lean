/-
  C03 — the snapshot decoder: model of pkg/rdb/loader.go (`Header`, `Next`,
  `Footer`), pkg/rdb/rdb.go (`ParseRdb`) and pkg/rdb/rdb_object.go
  (per-type `ReadBuffer` = skip and tee the raw bytes, `ExecCmd` = expansion
  into commands, chunk bookkeeping `totalEntries/readEntries/historyEntries`).

  Confirmed defects are modelled REPAIRED (DESIGN.md Appendix A):
    D8  — a continuation chunk inherits ExpireAt/IdleTime/Freq of the entry it
          continues;
    D11 — the stream expansion keeps the master field count in its own
          variable and computes entry IDs in uint64.
  `none` = the Go code panics / returns an error.
-/
import GunYu.Model.Rdb.Str
import GunYu.Model.Rdb.Ziplist
import GunYu.Model.Rdb.Listpack
import GunYu.Gen.RdbConst

namespace GunYu.Rdb
open GunYu

/-! ## parser objects -/

/-- `BaseParser` after `ReadBuffer` -/
structure PObj where
  rtype : UInt8
  key : Bytes := []
  /-- StringParser / AuxParser value -/
  val : Bytes := []
  /-- the teed raw bytes (`bp.buf`) -/
  buf : Bytes := []
  total : Nat := 0
  read : Nat := 0
  history : Nat := 0
  deriving Repr, Inhabited

/-- object kind (`Parser.Type()`) -/
inductive OType where
  | string | list | set | zset | hash | stream | module | function | aux
  deriving Repr, DecidableEq, Inhabited

/-- `NewParser`: the kind of an RDB type byte (`none` = "unknown type") -/
def otypeOf (t : UInt8) : Option OType :=
  if t = 0 then some .string
  else if t = 10 ∨ t = 1 ∨ t = 14 ∨ t = 18 then some .list
  else if t = 2 ∨ t = 11 ∨ t = 20 then some .set
  else if t = 3 ∨ t = 5 ∨ t = 12 ∨ t = 17 then some .zset
  else if t = 4 ∨ t = 9 ∨ t = 13 ∨ t = 16 then some .hash
  else if t = 15 ∨ t = 19 ∨ t = 21 ∨ t = 26 then some .stream
  else if t = 6 ∨ t = 7 then some .module
  else if t = 0xF5 then some .function
  else if t = 0xFA then some .aux
  else none

def PObj.firstBin (p : PObj) : Bool := p.history = 0
def PObj.isSplited (p : PObj) : Bool := p.history ≠ 0 || p.total - p.read > 0
def PObj.valueDumpSize (p : PObj) : Nat := 1 + p.buf.length + 2 + 8
def PObj.dump (p : PObj) : Bytes := createValueDump p.rtype p.buf

/-! ## ReadBuffer: skipping readers (return the rest) -/

def skipString (bs : Bytes) : Option Bytes := (readString bs).map (·.2)
def skipLength (bs : Bytes) : Option Bytes := (readLength bs).map (·.2)
def skipLength64 (bs : Bytes) : Option Bytes := (readLength64 bs).map (·.2)
def skipN (n : Nat) (bs : Bytes) : Option Bytes := (readN n bs).map (·.2)

/-- `n` times `f` -/
def skipMany (f : Bytes → Option Bytes) : Nat → Bytes → Option Bytes
  | 0, bs => some bs
  | n+1, bs =>
    match f bs with
    | none => none
    | some r => skipMany f n r

/-- hash table chunk loop (`HashPaser.ReadBuffer`, `RdbTypeHash`): `start` is the
    remaining length when the tee started, `k` entries still to read;
    returns the rest and the number of pairs read in this call.
    `if hp.buf.Len() > maxBinEntryBuffer && i != int(n-1) { break }` -/
def hashChunkLoop (thr start : Nat) : Nat → Bytes → Nat → Option (Bytes × Nat)
  | 0, bs, rd => some (bs, rd)
  | k+1, bs, rd =>
    match skipString bs with
    | none => none
    | some r1 =>
      match skipString r1 with
      | none => none
      | some r2 =>
        if start - r2.length > thr ∧ k ≠ 0 then some (r2, rd + 1)
        else hashChunkLoop thr start k r2 (rd + 1)

/-- ReadFloat (zset v1 score): 253 nan, 254 +inf, 255 -inf, else `len` ASCII bytes -/
def readFloatStr (bs : Bytes) : Option (Bytes × Bytes) :=
  match bs with
  | [] => none
  | u :: r => if u.toNat ≥ 253 then some ([u], r) else
    match readN u.toNat r with
    | none => none
    | some (s, r') => some (u :: s, r')

/-- rdbLoadCheckModuleValue -/
def skipModuleValue : Nat → Bytes → Option Bytes
  | 0, _ => none
  | fuel+1, bs =>
    match readLength bs with
    | none => none
    | some (op, r) =>
      if op = 0 then some r
      else if op = 1 ∨ op = 2 then
        match skipLength r with | none => none | some r1 => skipModuleValue fuel r1
      else if op = 5 then
        match skipString r with | none => none | some r1 => skipModuleValue fuel r1
      else if op = 3 then
        match skipN 4 r with | none => none | some r1 => skipModuleValue fuel r1
      else if op = 4 then
        match skipN 8 r with | none => none | some r1 => skipModuleValue fuel r1
      else skipModuleValue fuel r

/-- one stream consumer (ReadBuffer) -/
def skipStreamConsumer (v3 : Bool) (bs : Bytes) : Option Bytes :=
  match skipString bs with
  | none => none
  | some r =>
    match skipN 8 r with
    | none => none
    | some r1 =>
      match (if v3 then skipN 8 r1 else some r1) with
      | none => none
      | some r2 =>
        match readLength64 r2 with
        | none => none
        | some (n, r3) => skipMany (skipN 16) n r3

def skipStreamNack (bs : Bytes) : Option Bytes :=
  match skipN 16 bs with
  | none => none
  | some r =>
    match skipN 8 r with
    | none => none
    | some r1 => skipLength r1

def skipStreamGroup (v2 v3 : Bool) (bs : Bytes) : Option Bytes :=
  match skipString bs with
  | none => none
  | some r =>
    match skipLength64 r with
    | none => none
    | some r1 =>
      match skipLength64 r1 with
      | none => none
      | some r2 =>
        match (if v2 then skipLength64 r2 else some r2) with
        | none => none
        | some r3 =>
          match readLength64 r3 with
          | none => none
          | some (np, r4) =>
            match skipMany skipStreamNack np r4 with
            | none => none
            | some r5 =>
              match readLength r5 with
              | none => none
              | some (nc, r6) => skipMany (skipStreamConsumer v3) nc r6

def skipStreamLp (bs : Bytes) : Option Bytes :=
  match readString bs with
  | none => none
  | some (key, r) => if key.length ≠ 16 then none else skipString r

def skipIdmpEntry (bs : Bytes) : Option Bytes :=
  match skipString bs with
  | none => none
  | some r => match skipLength64 r with
    | none => none
    | some r1 => skipLength64 r1

def skipIdmpProducer (bs : Bytes) : Option Bytes :=
  match skipString bs with
  | none => none
  | some r => match readLength64 r with
    | none => none
    | some (n, r1) => skipMany skipIdmpEntry n r1

/-- `StreamParser.ReadBuffer` body -/
def skipStream (t : UInt8) (bs : Bytes) : Option Bytes :=
  let v2 := decide (t.toNat ≥ 19)
  let v3 := decide (t.toNat ≥ 21)
  let v4 := decide (t.toNat ≥ 26)
  match readLength64 bs with
  | none => none
  | some (nlp, r) =>
    match skipMany skipStreamLp nlp r with
    | none => none
    | some r1 =>
      match skipMany skipLength64 (if v2 then 8 else 3) r1 with
      | none => none
      | some r2 =>
        match readLength64 r2 with
        | none => none
        | some (ng, r3) =>
          match skipMany (skipStreamGroup v2 v3) ng r3 with
          | none => none
          | some r4 =>
            if v4 then
              match skipMany skipLength64 2 r4 with
              | none => none
              | some r5 =>
                match readLength64 r5 with
                | none => none
                | some (np, r6) =>
                  match skipMany skipIdmpProducer np r6 with
                  | none => none
                  | some r7 => skipMany skipLength64 2 r7
            else some r4

/-- the value part of `ReadBuffer` for the non-chunked types: returns the rest.
    (`RdbTypeHash` is handled by `readBuffer` itself.) -/
def skipValue (t : UInt8) (bs : Bytes) : Option Bytes :=
  if t = 0 ∨ t = 0xFA ∨ t = 0xF5 then skipString bs            -- string / aux value / function
  else if t = 10 ∨ t = 11 ∨ t = 20 ∨ t = 12 ∨ t = 17 ∨ t = 9 ∨ t = 13 ∨ t = 16 then skipString bs
  else if t = 1 ∨ t = 14 ∨ t = 2 then
    match readLength bs with
    | none => none
    | some (n, r) => skipMany skipString n r
  else if t = 18 then
    match readLength bs with
    | none => none
    | some (n, r) => skipMany (fun b => (skipLength b).bind skipString) n r
  else if t = 3 then
    match readLength bs with
    | none => none
    | some (n, r) => skipMany (fun b => (skipString b).bind (fun r1 => (readFloatStr r1).map (·.2))) n r
  else if t = 5 then
    match readLength bs with
    | none => none
    | some (n, r) => skipMany (fun b => (skipString b).bind (skipN 8)) n r
  else if t = 15 ∨ t = 19 ∨ t = 21 ∨ t = 26 then skipStream t bs
  else if t = 7 then
    match skipLength64 bs with
    | none => none
    | some r => skipModuleValue (r.length + 1) r
  else none      -- module v1 (6): "does not support module type 1"

/-! ## Loader state and Next -/

/-- decoder configuration: `thr` = `maxBinEntryBuffer` (the chunking threshold),
    `failModAux` = `WithFailOnModuleAux` (module aux data is refused, the default
    `moduleAuxPolicy`) -/
structure DCfg where
  thr : Nat := Gen.Rdb.c_maxBinEntryBuffer
  failModAux : Bool := true
  deriving Repr, Inhabited

/-- `BinEntry` -/
structure Entry where
  db : Int := -1
  key : Bytes := []
  type : UInt8 := 0
  expireAt : Nat := 0
  idle : Nat := 0
  freq : Nat := 0
  obj : PObj := { rtype := 0 }
  deriving Repr, Inhabited

structure LState where
  db : Nat := 0
  total : Nat := 0
  read : Nat := 0
  /-- `l.lastEntry` -/
  last : Option Entry := none
  deriving Repr, Inhabited

/-- `newParser(t, l)` = `NewParser` + `ReadBuffer`: the parser object, the new
    loader counters and the rest of the input. -/
def readBuffer (cfg : DCfg) (ls : LState) (t : UInt8) (bs : Bytes) : Option (PObj × LState × Bytes) :=
  match otypeOf t with
  | none => none
  | some ot =>
    -- readBufferBegin (FunctionParser has no key)
    let cont := ls.total - ls.read ≠ 0
    match (if ot = .function then some ([], bs)
           else if cont then some ((ls.last.map (·.key)).getD [], bs)
           else readString bs) with
    | none => none
    | some (key, r0) =>
      if t = 4 then
        -- RdbTypeHash: chunked
        match (if cont then some (ls.total - ls.read, ls.total, r0)
               else (readLength r0).map (fun (n, r) => (n, n, r))) with
        | none => none
        | some (n, total, r1) =>
          match hashChunkLoop cfg.thr r0.length n r1 ls.read with
          | none => none
          | some (rest, rd) =>
            let p : PObj := { rtype := t, key := key, buf := consumed r0 rest,
                              total := total, read := rd, history := ls.read }
            let ls' := if total - rd = 0 then { ls with total := 0, read := 0 }
                       else { ls with total := total, read := rd }
            some (p, ls', rest)
      else
        match skipValue t r0 with
        | none => none
        | some rest =>
          let buf := consumed r0 rest
          let val := if t = 0 ∨ t = 0xFA then ((readString r0).map (·.1)).getD [] else []
          let p : PObj := { rtype := t, key := key, val := val, buf := buf,
                            total := ls.total, read := ls.read, history := ls.read }
          -- readBufferEnd
          let ls' := if ls.total - ls.read = 0 then { ls with total := 0, read := 0 } else ls
          some (p, ls', rest)

/-- `Loader.Next`: `some (none, …)` = EOF opcode reached. Fuel = input length
    (every opcode consumes at least one byte, a continuation at least one pair). -/
def nextLoop (cfg : DCfg) : Nat → LState → Entry → Bytes → Option (Option Entry × LState × Bytes)
  | 0, _, _, _ => none
  | fuel+1, ls, e, bs =>
    if ls.total - ls.read ≠ 0 then
      -- continuation chunk of the last entry's value            (D8 repaired)
      match ls.last with
      | none => none
      | some le =>
        match readBuffer cfg ls le.type bs with
        | none => none
        | some (p, ls', rest) =>
          let ent : Entry := { db := (ls.db : Int), key := p.key, type := le.type,
                               expireAt := le.expireAt, idle := le.idle, freq := le.freq, obj := p }
          some (some ent, { ls' with last := some ent }, rest)
    else
    match bs with
    | [] => none
    | t :: r =>
      if t = 0xFA then                                    -- AUX
        match readBuffer cfg ls t r with
        | none => none
        | some (p, ls', rest) =>
          some (some { e with db := (ls.db : Int), key := p.key, type := t, obj := p }, ls', rest)
      else if t = 0xFB then                               -- RESIZEDB
        match skipLength r with
        | none => none
        | some r1 => match skipLength r1 with
          | none => none
          | some r2 => nextLoop cfg fuel ls e r2
      else if t = 0xFC then                               -- EXPIRETIME_MS
        match readN 8 r with
        | none => none
        | some (b, r1) => nextLoop cfg fuel ls { e with expireAt := ofLE b } r1
      else if t = 0xFD then                               -- EXPIRETIME
        match readN 4 r with
        | none => none
        | some (b, r1) => nextLoop cfg fuel ls { e with expireAt := ofLE b * 1000 } r1
      else if t = 0xFE then                               -- SELECTDB
        match readLength r with
        | none => none
        | some (n, r1) => nextLoop cfg fuel { ls with db := n } e r1
      else if t = 0xF4 then                               -- slot info
        match skipMany skipLength64 3 r with
        | none => none
        | some r1 => nextLoop cfg fuel ls e r1
      else if t = 0xFF then some (none, ls, r)            -- EOF
      else if t = 0xF7 then                               -- module aux: parsed, then refused or skipped
        match skipLength64 r with
        | none => none
        | some r1 =>
          match skipModuleValue (r1.length + 1) r1 with
          | none => none
          | some r2 => if cfg.failModAux then none else nextLoop cfg fuel ls e r2
      else if t = 0xF8 then                               -- IDLE
        match readLength r with
        | none => none
        | some (n, r1) => nextLoop cfg fuel ls { e with idle := n } r1
      else if t = 0xF9 then                               -- FREQ
        match r with
        | [] => none
        | f :: r1 => nextLoop cfg fuel ls { e with freq := f.toNat } r1
      else if t = 0xF5 then                               -- function
        match readBuffer cfg ls t r with
        | none => none
        | some (p, ls', rest) => some (some { e with key := [], type := t, obj := p }, ls', rest)
      else
        match readBuffer cfg ls t r with
        | none => none
        | some (p, ls', rest) =>
          let ent : Entry := { e with db := (ls.db : Int), key := p.key, type := t, obj := p }
          some (some ent, { ls' with last := some ent }, rest)

def next (cfg : DCfg) (ls : LState) (bs : Bytes) : Option (Option Entry × LState × Bytes) :=
  nextLoop cfg (bs.length + 1) ls {} bs

/-- all entries of the value that starts at `bs`: `Next` until the value is
    complete (one entry, or several chunks of a split hash table) -/
def nextValue (cfg : DCfg) : Nat → LState → Bytes → Option (List Entry × LState × Bytes)
  | 0, _, _ => none
  | fuel+1, ls, bs =>
    match next cfg ls bs with
    | some (some e, ls', rest) =>
      if ls'.total - ls'.read = 0 then some ([e], ls', rest)
      else
        match nextValue cfg fuel ls' rest with
        | some (es, l, r) => some (e :: es, l, r)
        | none => none
    | _ => none

/-! ## Header, Footer, ParseRdb -/

/-- `Loader.Header`: 9 bytes, "REDIS" + version 1..RdbVersion -/
def header (bs : Bytes) : Option (Nat × Bytes) :=
  match readN 9 bs with
  | none => none
  | some (h, r) =>
    if h.take 5 ≠ b!"REDIS" then none else
    match parseInt64 (h.drop 5) with
    | none => none
    | some v => if v ≤ 0 ∨ v > (Gen.Rdb.c_RdbVersion : Int) then none else some (v.toNat, r)

/-- `Loader.Footer`: `whole` is the input from its first byte, `rest` what
    follows the EOF opcode; everything before `rest` went through the CRC tee. -/
def footer (whole rest : Bytes) : Bool :=
  match readN 8 rest with
  | none => false
  | some (b, _) =>
    let crc2 := ofLE b
    crc2 = 0 || (crc64Tab (consumed whole rest)).toNat = crc2

/-- `Loader.End` (after the 8 footer bytes the input must be exhausted; D19
    repaired: an EOF opcode met at a wrong position, followed by eight zero
    bytes, is not the end of a snapshot). `rest` = what follows the EOF opcode. -/
def inputEnds (rest : Bytes) : Bool := rest.length == 8

/-- entries in order and whether `Done` was reached without an error entry -/
def parseLoop (cfg : DCfg) (whole : Bytes) : Nat → LState → Bytes → List Entry × Bool
  | 0, _, _ => ([], false)
  | fuel+1, ls, bs =>
    match next cfg ls bs with
    | none => ([], false)
    | some (none, _, rest) => ([], footer whole rest && inputEnds rest)
    | some (some e, ls', rest) =>
      let (es, ok) := parseLoop cfg whole fuel ls' rest
      (e :: es, ok)

/-- `ParseRdb` (the channel contents): entries, then `Done` (true) or an error (false) -/
def parseRdb (cfg : DCfg) (bs : Bytes) : List Entry × Bool :=
  match header bs with
  | none => ([], false)
  | some (_, r) => parseLoop cfg bs (bs.length + 1) {} r

end GunYu.Rdb
