/-
  C03 — ziplist, intset, zipmap.

  Decoders: model of pkg/redis/types/ziplist.go (`NewZiplist`, `Next`,
  `ReadZiplistEntry2`) over pkg/util/slice_buffer.go, with the two confirmed
  defects repaired as DESIGN.md Appendix A describes:
    D9  — the 24-bit integer is sign-extended;
    D10 — with `zllen == 0xFFFF` the end marker is `0xFF` (a leading `0xFE` is
          the 5-byte `prevlen` form of a normal entry).
  Encoders (specification, Redis ziplist.c / intset.c / zipmap.c layouts):
  `ZL.blob`, `intsetBlob`, `zipmapBlob`.
-/
import GunYu.Model.Rdb.Str

namespace GunYu.Rdb
open GunYu

/-! ## ziplist decoder -/

/-- `ReadZiplistEntry2` after the prevlen field: encoding byte(s) and payload -/
def zlBody (rem : Bytes) : Option (Bytes × Bytes) :=
  match rem with
  | [] => none
  | e :: r =>
    let hi := e.toNat / 64
    if hi = 0 then readN (e.toNat % 64) r
    else if hi = 1 then
      match r with
      | [] => none
      | s :: r1 => readN ((e.toNat % 64) * 256 + s.toNat) r1
    else if hi = 2 then
      match readN 4 r with
      | none => none
      | some (lb, r1) => readN (ofBE lb) r1
    else if e = 0xFE then
      match readN 1 r with
      | none => none
      | some (b, r1) => some (intToDec (toSigned 8 (ofLE b)), r1)
    else if e = 0xC0 then
      match readN 2 r with
      | none => none
      | some (b, r1) => some (intToDec (toSigned 16 (ofLE b)), r1)
    else if e = 0xF0 then
      match readN 3 r with
      | none => none
      | some (b, r1) => some (intToDec (toSigned 24 (ofLE b)), r1)     -- D9 repaired
    else if e = 0xD0 then
      match readN 4 r with
      | none => none
      | some (b, r1) => some (intToDec (toSigned 32 (ofLE b)), r1)
    else if e = 0xE0 then
      match readN 8 r with
      | none => none
      | some (b, r1) => some (intToDec (toSigned 64 (ofLE b)), r1)
    else if e.toNat / 16 = 15 then
      let v := e.toNat % 16
      if 1 ≤ v ∧ v ≤ 13 then some (natToDec (v - 1), r) else none
    else none

/-- `ReadZiplistEntry2(buf, firstByte)`; `rem` is the buffer after `firstByte`:
    if prevLen < 254 it is one byte, else 5 bytes (`buf.Seek(4, 1)`) -/
def zlEntry (firstByte : UInt8) (rem : Bytes) : Option (Bytes × Bytes) :=
  zlBody (if firstByte = 0xFE then rem.drop 4 else rem)

/-- the iterator state after `NewZiplist` -/
structure ZlIter where
  rem : Bytes
  length : Nat
  pos : Nat
  done : Bool
  deriving Repr

/-- `NewZiplist`: skip zlbytes, zltail; read zllen -/
def zlNew (data : Bytes) : Option ZlIter :=
  if data.length < 10 then none
  else some { rem := data.drop 10, length := ofLE ((data.drop 8).take 2), pos := 0, done := false }

/-- `Ziplist.Next`: `some (none, _)` is Go's `nil` (end), outer `none` a panic -/
def zlNext (z : ZlIter) : Option (Option Bytes × ZlIter) :=
  if z.done then some (none, z) else
  match z.rem with
  | [] => none
  | fb :: r =>
    if z.length = 65535 then
      if fb ≠ 0xFF then                                              -- D10 repaired
        match zlEntry fb r with
        | none => none
        | some (e, r') => some (some e, { z with rem := r' })
      else some (none, { z with rem := r, done := true })
    else if z.pos < z.length then
      match zlEntry fb r with
      | none => none
      | some (e, r') => some (some e, { z with rem := r', pos := z.pos + 1 })
    else if fb ≠ 0xFF then none
    else some (none, { z with rem := r, done := true })

/-- `for e := zl.Next(); e != nil; e = zl.Next()`; fuel = buffer length -/
def zlAllLoop : Nat → ZlIter → Option (List Bytes)
  | 0, _ => none
  | fuel+1, z =>
    match zlNext z with
    | none => none
    | some (none, _) => some []
    | some (some e, z') =>
      match zlAllLoop fuel z' with
      | none => none
      | some es => some (e :: es)

def zlAll (data : Bytes) : Option (List Bytes) :=
  match zlNew data with
  | none => none
  | some z => zlAllLoop (data.length + 1) z

/-- the pair loop of the hash / zset expansion:
    `a := Next(); b := Next(); for a != nil && b != nil { emit; a = Next(); b = Next() }` -/
def zlPairsLoop : Nat → ZlIter → Option (List (Bytes × Bytes))
  | 0, _ => none
  | fuel+1, z =>
    match zlNext z with
    | none => none
    | some (a, z1) =>
      match zlNext z1 with
      | none => none
      | some (b, z2) =>
        match a, b with
        | some a, some b =>
          match zlPairsLoop fuel z2 with
          | none => none
          | some ps => some ((a, b) :: ps)
        | _, _ => some []

def zlPairs (data : Bytes) : Option (List (Bytes × Bytes)) :=
  match zlNew data with
  | none => none
  | some z => zlPairsLoop (data.length + 1) z

/-! ## ziplist encoder (specification) -/

inductive ZEntry where
  | s6 (s : Bytes)       -- |00pppppp|
  | s14 (s : Bytes)      -- |01pppppp|qqqqqqqq|
  | s32 (s : Bytes)      -- |10000000| 4 bytes big endian
  | i4 (v : Nat)         -- |1111xxxx| 0..12
  | i8 (v : Int)         -- |11111110|
  | i16 (v : Int)        -- |11000000|
  | i24 (v : Int)        -- |11110000|
  | i32 (v : Int)        -- |11010000|
  | i64 (v : Int)        -- |11100000|
  deriving Repr, Inhabited

def ZEntry.val : ZEntry → Bytes
  | .s6 s => s | .s14 s => s | .s32 s => s
  | .i4 v => natToDec v
  | .i8 v => intToDec v | .i16 v => intToDec v | .i24 v => intToDec v
  | .i32 v => intToDec v | .i64 v => intToDec v

/-- encoding byte(s) + payload (without prevlen) -/
def ZEntry.body : ZEntry → Bytes
  | .s6 s => UInt8.ofNat s.length :: s
  | .s14 s => UInt8.ofNat (64 + s.length / 256) :: UInt8.ofNat (s.length % 256) :: s
  | .s32 s => 0x80 :: (beN 4 s.length ++ s)
  | .i4 v => [UInt8.ofNat (0xF1 + v)]
  | .i8 v => 0xFE :: leN 1 (ofSigned 8 v)
  | .i16 v => 0xC0 :: leN 2 (ofSigned 16 v)
  | .i24 v => 0xF0 :: leN 3 (ofSigned 24 v)
  | .i32 v => 0xD0 :: leN 4 (ofSigned 32 v)
  | .i64 v => 0xE0 :: leN 8 (ofSigned 64 v)

def ZEntry.wf : ZEntry → Prop
  | .s6 s => s.length < 64
  | .s14 s => s.length < 16384
  | .s32 s => s.length < 2 ^ 32
  | .i4 v => v ≤ 12
  | .i8 v => inSigned 8 v | .i16 v => inSigned 16 v | .i24 v => inSigned 24 v
  | .i32 v => inSigned 32 v | .i64 v => inSigned 64 v

instance ZEntry.decWf (e : ZEntry) : Decidable e.wf := by
  cases e <;> unfold ZEntry.wf <;> exact inferInstance

/-- `prevlen`: one byte below 254 unless the 5-byte form is forced (Redis keeps
    a 5-byte prevlen after the previous entry shrank), else 0xFE + 4 bytes LE -/
def zlPrevlen (big : Bool) (prev : Nat) : Bytes :=
  if big ∨ 254 ≤ prev then 0xFE :: leN 4 prev else [UInt8.ofNat prev]

/-- entries with their prevlen; `prev` = byte length of the previous entry.
    Each entry carries the "force 5-byte prevlen" choice. -/
def zlEntriesFrom (prev : Nat) : List (Bool × ZEntry) → Bytes
  | [] => []
  | (big, e) :: rest =>
    let enc := zlPrevlen big prev ++ e.body
    enc ++ zlEntriesFrom enc.length rest

/-- byte length of the last entry (for zltail) -/
def zlLastLen (prev : Nat) : List (Bool × ZEntry) → Nat
  | [] => 0
  | [(big, e)] => (zlPrevlen big prev ++ e.body).length
  | (big, e) :: rest => zlLastLen (zlPrevlen big prev ++ e.body).length rest

structure ZL where
  entries : List (Bool × ZEntry)
  /-- write `zllen = 0xFFFF` ("unknown, walk the list") although fewer entries
      are stored: the state Redis leaves after a list shrank below 65535 -/
  unknown : Bool
  deriving Repr, Inhabited

def ZL.vals (z : ZL) : List Bytes := z.entries.map (·.2.val)

def ZL.blob (z : ZL) : Bytes :=
  let body := zlEntriesFrom 0 z.entries
  let total := 10 + body.length + 1
  let tail := if z.entries.isEmpty then 10 else 10 + body.length - zlLastLen 0 z.entries
  let n := if z.unknown ∨ 65535 ≤ z.entries.length then 65535 else z.entries.length
  leN 4 total ++ leN 4 tail ++ leN 2 n ++ body ++ [0xFF]

def ZL.wf (z : ZL) : Prop := ∀ e ∈ z.entries, e.2.wf

instance ZL.decWf (z : ZL) : Decidable z.wf := by unfold ZL.wf; exact inferInstance

/-! ## intset -/

/-- intset.c: `<encoding:4 LE><length:4 LE><values, `width` bytes LE each>` -/
def intsetBlob (width : Nat) (vs : List Int) : Bytes :=
  leN 4 width ++ leN 4 vs.length ++ vs.flatMap (fun v => leN width (ofSigned (8 * width) v))

/-- rdb_object.go `SetParser.intset`: the member strings, in stored order -/
def intsetLoop (width : Nat) : Nat → Bytes → Option (List Bytes)
  | 0, _ => some []
  | n+1, bs =>
    match readN width bs with
    | none => none
    | some (b, r) =>
      match intsetLoop width n r with
      | none => none
      | some vs => some (intToDec (toSigned (8 * width) (ofLE b)) :: vs)

def intsetAll (data : Bytes) : Option (List Bytes) :=
  match readN 4 data with
  | none => none
  | some (wb, r) =>
    let width := ofLE wb
    if width ≠ 2 ∧ width ≠ 4 ∧ width ≠ 8 then none else
    match readN 4 r with
    | none => none
    | some (lb, r1) => intsetLoop width (ofLE lb) r1

/-! ## zipmap (hashes of Redis < 2.6) — every item length and item count

  Layout (zipmap.c as Redis 2.2 … 8.x read it: `ZIPMAP_BIGLEN 254`, `ZIPMAP_END 255`):
  `<zmlen><len>field<len><free>value<free bytes>…<0xFF>`; `<len>` is one byte for
  lengths 0..253, else `254` followed by the length as 4 bytes LITTLE endian;
  `<zmlen>` is the number of pairs, or 254 = "254 or more, walk the map".
  Model of the REPAIRED reader (session 5: the code read `253` as the big-length
  marker followed by 5 bytes (4 big-endian length bytes + the free byte, also for a
  field, which has none), refused `254`, and after counting a map of >= 254 pairs
  it went back to the `<zmlen>` byte and used the item count as the pair count).
  `SliceBuffer.Seek` refuses positions >= 2^31: the model (which keeps the rest of
  the buffer, not the position) equals the code for blobs below 2 GiB - 255. -/

/-- reader.go `readZipmapItemLength`: `(length, free)`; length `none` = end (255) -/
def zmItemLength (readFree : Bool) : Bytes → Option ((Option Nat × Nat) × Bytes)
  | [] => none
  | b :: r =>
    if b = 255 then some ((none, 0), r)
    else
      let lenr : Option (Nat × Bytes) :=
        if b = 254 then
          match readN 4 r with
          | none => none
          | some (s, r1) => some (ofLE s, r1)
        else some (b.toNat, r)
      match lenr with
      | none => none
      | some (n, r1) =>
        if readFree then
          match r1 with
          | [] => none
          | f :: r2 => some ((some n, f.toNat), r2)
        else some ((some n, 0), r1)

/-- `ReadZipmapItem`: Go returns `nil` at the end marker (sent as an empty
    argument); `value := buf.Slice(length); buf.Seek(free, 1)` -/
def zmItem (readFree : Bool) (bs : Bytes) : Option (Bytes × Bytes) :=
  match zmItemLength readFree bs with
  | none => none
  | some ((none, _), r) => some ([], r)
  | some ((some n, free), r) =>
    match readN n r with
    | none => none
    | some (v, r1) => some (v, r1.drop free)

def zmPairs : Nat → Bytes → Option (List (Bytes × Bytes))
  | 0, _ => some []
  | n+1, bs =>
    match zmItem false bs with
    | none => none
    | some (f, r) =>
      match zmItem true r with
      | none => none
      | some (v, r1) =>
        match zmPairs n r1 with
        | none => none
        | some ps => some ((f, v) :: ps)

/-- `CountZipmapItems`: the number of ITEMS (fields and values) up to the end
    marker; `n` = items seen so far (an odd item is a value and has a free byte);
    every round consumes a byte, fuel = buffer length + 1 -/
def zmCount : Nat → Nat → Bytes → Option Nat
  | 0, _, _ => none
  | fuel+1, n, bs =>
    match zmItemLength (n % 2 != 0) bs with
    | none => none
    | some ((none, _), _) => some n
    | some ((some l, free), r) => zmCount fuel (n + 1) (r.drop (l + free))

/-- `HashPaser.zipmap`: the `<zmlen>` byte gives the number of pairs, 254 (or
    255) = walk the map, count its items and halve (an odd count is refused) -/
def zipmapAll (data : Bytes) : Option (List (Bytes × Bytes)) :=
  match data with
  | [] => none
  | lenByte :: r =>
    if lenByte.toNat ≥ 254 then
      match zmCount (data.length + 1) 0 r with
      | none => none
      | some n => if n % 2 ≠ 0 then none else zmPairs (n / 2) r
    else zmPairs lenByte.toNat r

/-- zipmap.c `zipmapEncodeLength` -/
def zmLen (l : Nat) : Bytes := if l < 254 then [UInt8.ofNat l] else 254 :: leN 4 l

/-- one zipmap item: `<len>field<len><free>value<free bytes>` -/
def zipmapItem (i : Bytes × Bytes × Nat) : Bytes :=
  zmLen i.1.length ++ (i.1 ++ (zmLen i.2.1.length ++ UInt8.ofNat i.2.2 :: (i.2.1 ++ List.replicate i.2.2 0)))

/-- zipmap.c layout, `free` bytes of slack after a value:
    `<zmlen><len>field<len><free>value<free bytes>...<0xFF>` -/
def zipmapBlob (items : List (Bytes × Bytes × Nat)) : Bytes :=
  UInt8.ofNat (if items.length < 254 then items.length else 254) ::
    (items.flatMap zipmapItem ++ [0xFF])

end GunYu.Rdb
