/-
  C03 — listpack.

  Decoder: model of pkg/redis/types/listpack.go (`NewListpack`, `Next`,
  `NextInteger`, `lpEncodeBacklen`). The Go code indexes `data[p+k]`; the model
  keeps `rem = data.drop p` so that `data[p+k] = rem[k]` and `p += n` is
  `rem.drop n`.
  Encoder (specification, Redis listpack.c): `LP.blob`.
-/
import GunYu.Model.Rdb.Str

namespace GunYu.Rdb
open GunYu

/-- strict `strconv.ParseInt(s, 10, 64)`: optional sign, digits, int64 range -/
def parseInt64 (bs : Bytes) : Option Int :=
  match bs with
  | [] => none
  | c :: rest =>
    let (neg, digits) := if c = 45 then (true, rest) else if c = 43 then (false, rest) else (false, bs)
    match decToNat? digits with
    | none => none
    | some n =>
      if neg then (if n ≤ 2 ^ 63 then some (-(n : Int)) else none)
      else (if n < 2 ^ 63 then some (n : Int) else none)

/-- `lpEncodeBacklen(len)`: entry length plus the size of its back-length field -/
def lpSkip (len : Nat) : Nat :=
  if len ≤ 127 then len + 1
  else if len < 16383 then len + 2
  else if len < 2097151 then len + 3
  else if len < 268435455 then len + 4
  else len + 5

/-- integer element: `bits` wide unsigned value `u` rendered as Go does -/
def lpInt (bits : Nat) (u : Nat) : Bytes := intToDec (toSigned bits u)

/-- `Listpack.Next` on `rem = data[p:]`: the element and the new `rem` -/
def lpNext (rem : Bytes) : Option (Bytes × Bytes) :=
  match rem with
  | [] => none
  | b :: r =>
    let c := b.toNat
    if c / 128 = 0 then                                   -- 7 bit uint
      some (natToDec (c % 128), rem.drop (lpSkip 1))
    else if c / 64 = 2 then                               -- 6 bit string
      let len := c % 64
      match readN len r with
      | none => none
      | some (s, _) => some (s, rem.drop (lpSkip (1 + len)))
    else if c / 32 = 6 then                               -- 13 bit int
      match r with
      | [] => none
      | b1 :: _ => some (lpInt 13 ((c % 32) * 256 + b1.toNat), rem.drop (lpSkip 2))
    else if c / 16 = 14 then                              -- 12 bit string
      match r with
      | [] => none
      | b1 :: r1 =>
        let len := (c % 16) * 256 + b1.toNat
        match readN len r1 with
        | none => none
        | some (s, _) => some (s, rem.drop (lpSkip (2 + len)))
    else if c = 0xF0 then                                 -- 32 bit string
      match readN 4 r with
      | none => none
      | some (lb, r1) =>
        let len := ofLE lb
        match readN len r1 with
        | none => none
        | some (s, _) => some (s, rem.drop (lpSkip (5 + len)))
    else if c = 0xF1 then
      match readN 2 r with
      | none => none
      | some (v, _) => some (lpInt 16 (ofLE v), rem.drop (lpSkip 3))
    else if c = 0xF2 then
      match readN 3 r with
      | none => none
      | some (v, _) => some (lpInt 24 (ofLE v), rem.drop (lpSkip 4))
    else if c = 0xF3 then
      match readN 4 r with
      | none => none
      | some (v, _) => some (lpInt 32 (ofLE v), rem.drop (lpSkip 5))
    else if c = 0xF4 then
      match readN 8 r with
      | none => none
      | some (v, _) => some (lpInt 64 (ofLE v), rem.drop (lpSkip 9))
    else
      -- 0xF5..0xFE are not element encodings, 0xFF is the end marker: panic
      -- ("invalid element encoding"; repaired in /repo 53af0a3 — the cursor used
      -- not to advance and the stream expansion never ended)
      none

/-- `NewListpack`: `(numElements, rem after the 6-byte header)` -/
def lpNew (data : Bytes) : Option (Nat × Bytes) :=
  if data.length < 6 then none else some (ofLE ((data.drop 4).take 2), data.drop 6)

/-- `n` calls of `Next` -/
def lpTake : Nat → Bytes → Option (List Bytes × Bytes)
  | 0, rem => some ([], rem)
  | n+1, rem =>
    match lpNext rem with
    | none => none
    | some (e, rem') =>
      match lpTake n rem' with
      | none => none
      | some (es, rem'') => some (e :: es, rem'')

/-- `NextInteger` -/
def lpNextInt (rem : Bytes) : Option (Int × Bytes) :=
  match lpNext rem with
  | none => none
  | some (e, rem') =>
    match parseInt64 e with
    | none => none
    | some v => some (v, rem')

/-- elements up to the `0xFF` end marker: what the count field 65535 ("unknown",
    65535 or more elements) asks for, as Redis' `lpLength` walks the listpack
    (repaired: the count field used to be taken literally, so every element past
    the 65535th was silently dropped). Fuel = data length. -/
def lpUntilEnd : Nat → Bytes → Option (List Bytes)
  | 0, _ => none
  | fuel+1, rem =>
    match rem with
    | [] => none
    | b :: _ =>
      if b = 0xFF then some [] else
      match lpNext rem with
      | none => none
      | some (e, rem') =>
        match lpUntilEnd fuel rem' with
        | none => none
        | some es => some (e :: es)

/-- all elements: `NumElements()` calls of `Next`, where `NumElements` is the count
    field, or the walked length when the field says 65535 -/
def lpAll (data : Bytes) : Option (List Bytes) :=
  match lpNew data with
  | none => none
  | some (n, rem) => if n = 65535 then lpUntilEnd (data.length + 1) rem else (lpTake n rem).map (·.1)

/-- hash / zset listpack: an odd element count is an error -/
def lpPairs (data : Bytes) : Option (List (Bytes × Bytes)) :=
  match lpAll data with
  | none => none
  | some es => if es.length % 2 ≠ 0 then none else some (pairUp es)

/-! ## encoder (specification) -/

inductive LPEntry where
  | u7 (v : Nat)          -- 0xxxxxxx
  | s6 (s : Bytes)        -- 10xxxxxx
  | i13 (v : Int)         -- 110xxxxx xxxxxxxx
  | s12 (s : Bytes)       -- 1110xxxx xxxxxxxx
  | s32 (s : Bytes)       -- 11110000 + 4 bytes LE
  | i16 (v : Int)         -- 11110001
  | i24 (v : Int)         -- 11110010
  | i32 (v : Int)         -- 11110011
  | i64 (v : Int)         -- 11110100
  deriving Repr, Inhabited

def LPEntry.val : LPEntry → Bytes
  | .u7 v => natToDec v
  | .s6 s => s | .s12 s => s | .s32 s => s
  | .i13 v => intToDec v | .i16 v => intToDec v | .i24 v => intToDec v
  | .i32 v => intToDec v | .i64 v => intToDec v

/-- encoding byte(s) + payload, without the back-length -/
def LPEntry.body : LPEntry → Bytes
  | .u7 v => [UInt8.ofNat v]
  | .s6 s => UInt8.ofNat (0x80 + s.length) :: s
  | .i13 v => [UInt8.ofNat (0xC0 + ofSigned 13 v / 256), UInt8.ofNat (ofSigned 13 v % 256)]
  | .s12 s => UInt8.ofNat (0xE0 + s.length / 256) :: UInt8.ofNat (s.length % 256) :: s
  | .s32 s => 0xF0 :: (leN 4 s.length ++ s)
  | .i16 v => 0xF1 :: leN 2 (ofSigned 16 v)
  | .i24 v => 0xF2 :: leN 3 (ofSigned 24 v)
  | .i32 v => 0xF3 :: leN 4 (ofSigned 32 v)
  | .i64 v => 0xF4 :: leN 8 (ofSigned 64 v)

def LPEntry.wf : LPEntry → Prop
  | .u7 v => v < 128
  | .s6 s => s.length < 64
  | .i13 v => inSigned 13 v
  | .s12 s => s.length < 4096
  | .s32 s => s.length < 2 ^ 32
  | .i16 v => inSigned 16 v | .i24 v => inSigned 24 v
  | .i32 v => inSigned 32 v | .i64 v => inSigned 64 v

instance LPEntry.decWf (e : LPEntry) : Decidable e.wf := by
  cases e <;> unfold LPEntry.wf <;> exact inferInstance

/-- listpack.c `lpEncodeBacklen`: the entry length `l` as a reversed varint -/
def lpBacklen (l : Nat) : Bytes :=
  if l ≤ 127 then [UInt8.ofNat l]
  else if l < 16383 then [UInt8.ofNat (l / 128), UInt8.ofNat (l % 128 + 128)]
  else if l < 2097151 then
    [UInt8.ofNat (l / 16384), UInt8.ofNat (l / 128 % 128 + 128), UInt8.ofNat (l % 128 + 128)]
  else if l < 268435455 then
    [UInt8.ofNat (l / 2097152), UInt8.ofNat (l / 16384 % 128 + 128),
     UInt8.ofNat (l / 128 % 128 + 128), UInt8.ofNat (l % 128 + 128)]
  else
    [UInt8.ofNat (l / 268435456), UInt8.ofNat (l / 2097152 % 128 + 128),
     UInt8.ofNat (l / 16384 % 128 + 128), UInt8.ofNat (l / 128 % 128 + 128),
     UInt8.ofNat (l % 128 + 128)]

def LPEntry.enc (e : LPEntry) : Bytes := e.body ++ lpBacklen e.body.length

def lpEntries (es : List LPEntry) : Bytes := es.flatMap LPEntry.enc

/-- `<total bytes:4 LE><num elements:2 LE (65535 = unknown)><entries><0xFF>` -/
def lpBlob (es : List LPEntry) : Bytes :=
  let body := lpEntries es
  leN 4 (6 + body.length + 1) ++ leN 2 (if es.length < 65535 then es.length else 65535) ++ body ++ [0xFF]

def lpWf (es : List LPEntry) : Prop := ∀ e ∈ es, e.wf

instance lpWf.dec (es : List LPEntry) : Decidable (lpWf es) := by unfold lpWf; exact inferInstance

end GunYu.Rdb
