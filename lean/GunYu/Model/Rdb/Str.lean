/-
  C03 — RDB length and string encodings.

  Decoders (model of pkg/rdb/reader.go): `readEncodedLength`, `readLength`,
  `readLength64`, `readString`, `lzfDecompress`.
  Encoders (specification, Redis rdb.c rdbSaveLen / rdbSaveRawString /
  rdbSaveLzfBlob / lzf_c.c output format): `encLen`, `SE.enc`, `lzfEmit`.
-/
import GunYu.Model.Rdb.Basic

namespace GunYu.Rdb
open GunYu

/-! ## decoders -/

/-- reader.go `readEncodedLength`: `(length, encoded)` -/
def readEncodedLength : Bytes → Option ((Nat × Bool) × Bytes)
  | [] => none
  | u :: r =>
    let t := u.toNat / 64
    if t = 0 then some ((u.toNat % 64, false), r)                  -- rdb6bitLen
    else if t = 1 then                                             -- rdb14bitLen
      match r with
      | [] => none
      | u2 :: r2 => some (((u.toNat % 64) * 256 + u2.toNat, false), r2)
    else if t = 3 then some ((u.toNat % 64, true), r)              -- rdbEncVal
    else if u = 0x80 then                                          -- rdb32bitLen
      match readN 4 r with
      | none => none
      | some (b, r') => some ((ofBE b, false), r')
    else if u = 0x81 then                                          -- rdb64bitLen
      match readN 8 r with
      | none => none
      | some (b, r') => some ((ofBE b, false), r')
    else none

/-- `ReadLength64`: error on an "encoded" marker -/
def readLength64 (bs : Bytes) : Option (Nat × Bytes) :=
  match readEncodedLength bs with
  | some ((n, false), r) => some (n, r)
  | _ => none

/-- `ReadLength`: as above, truncated to uint32 -/
def readLength (bs : Bytes) : Option (Nat × Bytes) :=
  match readEncodedLength bs with
  | some ((n, false), r) => some (n % 2 ^ 32, r)
  | _ => none

/-- reader.go `lzfDecompress`, back-reference copy: `n` bytes, each equal to
    the byte `dist` positions back. `acc` is the output so far REVERSED
    (so "the byte `dist` back" is `acc[dist-1]` throughout the copy);
    `room` is `outlen - o` (writing `out[o]` with `o ≥ outlen` panics). -/
def lzfCopy : Nat → Nat → Bytes → Nat → Option (Bytes × Nat)
  | 0, _, acc, room => some (acc, room)
  | n+1, dist, acc, room =>
    if room = 0 then none else
    match acc[dist - 1]? with
    | none => none                         -- `out[ref]` with ref < 0
    | some b => lzfCopy n dist (b :: acc) (room - 1)

/-- the main loop; fuel = input length (every round consumes ≥ 1 byte) -/
def lzfLoop : Nat → Bytes → Bytes → Nat → Option Bytes
  | 0, inp, acc, room => if inp.isEmpty && room = 0 then some acc.reverse else none
  | fuel+1, inp, acc, room =>
    match inp with
    | [] => if room = 0 then some acc.reverse else none
    | ctrl :: r =>
      let c := ctrl.toNat
      if c < 32 then
        -- literal run of c+1 bytes
        if c + 1 ≤ r.length ∧ c + 1 ≤ room then
          lzfLoop fuel (r.drop (c + 1)) ((r.take (c + 1)).reverse ++ acc) (room - (c + 1))
        else none
      else
        let len0 := c / 32
        match (if len0 = 7 then (match r with | [] => none | x :: r1 => some (len0 + x.toNat, r1))
               else some (len0, r)) with
        | none => none
        | some (len, r1) =>
          match r1 with
          | [] => none
          | lo :: r2 =>
            let dist := (c % 32) * 256 + lo.toNat + 1
            match lzfCopy (len + 2) dist acc room with
            | none => none
            | some (acc', room') => lzfLoop fuel r2 acc' room'

def lzfDecompress (inp : Bytes) (outlen : Nat) : Option Bytes :=
  lzfLoop inp.length inp [] outlen

/-- reader.go `ReadString` -/
def readString (bs : Bytes) : Option (Bytes × Bytes) :=
  match readEncodedLength bs with
  | none => none
  | some ((n, false), r) => readN n r
  | some ((t, true), r) =>
    if t = 0 then                                   -- rdbEncInt8
      match readN 1 r with
      | none => none
      | some (b, r') => some (intToDec (toSigned 8 (ofLE b)), r')
    else if t = 1 then                              -- rdbEncInt16
      match readN 2 r with
      | none => none
      | some (b, r') => some (intToDec (toSigned 16 (ofLE b)), r')
    else if t = 2 then                              -- rdbEncInt32
      match readN 4 r with
      | none => none
      | some (b, r') => some (intToDec (toSigned 32 (ofLE b)), r')
    else if t = 3 then                              -- rdbEncLZF
      match readLength r with
      | none => none
      | some (inlen, r1) =>
        match readLength r1 with
        | none => none
        | some (outlen, r2) =>
          match readN inlen r2 with
          | none => none
          | some (inp, r3) =>
            match lzfDecompress inp outlen with
            | none => none
            | some out => some (out, r3)
    else none

/-! ## encoders (specification) -/

/-- the four length forms of rdbSaveLen -/
inductive LenForm where
  | b6 | b14 | b32 | b64
  deriving Repr, DecidableEq, Inhabited

def LenForm.fits : LenForm → Nat → Prop
  | .b6, n => n < 64
  | .b14, n => n < 16384
  | .b32, n => n < 2 ^ 32
  | .b64, n => n < 2 ^ 64

instance LenForm.decFits (f : LenForm) (n : Nat) : Decidable (f.fits n) := by
  cases f <;> unfold LenForm.fits <;> exact inferInstance

def encLen : LenForm → Nat → Bytes
  | .b6, n => [UInt8.ofNat n]
  | .b14, n => [UInt8.ofNat (64 + n / 256), UInt8.ofNat (n % 256)]
  | .b32, n => 0x80 :: beN 4 n
  | .b64, n => 0x81 :: beN 8 n

/-- the form rdbSaveLen picks -/
def minForm (n : Nat) : LenForm :=
  if n < 64 then .b6 else if n < 16384 then .b14 else if n < 2 ^ 32 then .b32 else .b64

/-- one LZF output item: a literal run (1–32 bytes) or a back reference
    (`dist` 1–8192 bytes back, `len` 3–264 bytes, may overlap its own output) -/
inductive LzfOp where
  | lit (bs : Bytes)
  | ref (dist len : Nat)
  deriving Repr, DecidableEq, Inhabited

/-- the semantics of a back reference on the output so far -/
def lzfCopySpec : Nat → Nat → Bytes → Bytes
  | 0, _, out => out
  | n+1, dist, out => lzfCopySpec n dist (out ++ [out.getD (out.length - dist) 0])

def lzfExpandFrom (out : Bytes) : List LzfOp → Bytes
  | [] => out
  | .lit bs :: ops => lzfExpandFrom (out ++ bs) ops
  | .ref dist len :: ops => lzfExpandFrom (lzfCopySpec len dist out) ops

/-- the uncompressed string an op list denotes -/
def lzfExpand (ops : List LzfOp) : Bytes := lzfExpandFrom [] ops

/-! `lzfExpand` appends byte by byte (quadratic); the compiled driver runs the
    equal reversed-accumulator version below (`@[csimp]`, proved equal). -/

/-- the byte `dist` back in the reversed output (the oldest byte when `dist`
    reaches beyond the start, 0 for `dist = 0` or no output — as `lzfCopySpec`) -/
def lzfBack (dist : Nat) (acc : Bytes) : UInt8 :=
  if dist = 0 then 0 else
  match acc.drop (dist - 1) with
  | b :: _ => b
  | [] => (acc.getLast?).getD 0

def lzfCopyRev : Nat → Nat → Bytes → Bytes
  | 0, _, acc => acc
  | n+1, dist, acc =>
    lzfCopyRev n dist (lzfBack dist acc :: acc)

def lzfExpandRev (acc : Bytes) : List LzfOp → Bytes
  | [] => acc
  | .lit bs :: ops => lzfExpandRev (bs.reverse ++ acc) ops
  | .ref dist len :: ops => lzfExpandRev (lzfCopyRev len dist acc) ops

def lzfExpandFast (ops : List LzfOp) : Bytes := (lzfExpandRev [] ops).reverse

theorem lzfCopyRev_spec (n dist : Nat) (out : Bytes) :
    lzfCopyRev n dist out.reverse = (lzfCopySpec n dist out).reverse := by
  induction n generalizing out with
  | zero => rfl
  | succ n ih =>
    simp only [lzfCopyRev, lzfCopySpec]
    have hb : lzfBack dist out.reverse = out.getD (out.length - dist) 0 := by
      unfold lzfBack
      by_cases h0 : dist = 0
      · simp [h0, List.getD]
      · simp only [h0, if_false]
        by_cases hle : dist ≤ out.length
        · -- within the output: element dist-1 of the reversed list
          have hlt : dist - 1 < out.reverse.length := by simp; omega
          have hd : out.reverse.drop (dist - 1) = out.reverse[dist - 1] :: out.reverse.drop (dist - 1 + 1) :=
            List.drop_eq_getElem_cons hlt
          rw [hd]
          have hidx2 : out.length - dist < out.length := by omega
          simp only [List.getD, List.getElem?_eq_getElem hidx2, Option.getD_some]
          rw [List.getElem_reverse]
          congr 1
          omega
        · -- beyond the start: the oldest byte
          have hdrop : out.reverse.drop (dist - 1) = [] := by
            apply List.drop_eq_nil_of_le; simp; omega
          rw [hdrop]
          have h0' : out.length - dist = 0 := by omega
          rw [h0']
          cases out with
          | nil => simp [List.getD]
          | cons a t => simp [List.getD, List.getLast?_reverse]
    rw [hb]
    have := ih (out ++ [out.getD (out.length - dist) 0])
    simp only [List.reverse_append, List.reverse_cons, List.reverse_nil, List.nil_append,
      List.singleton_append] at this
    exact this

theorem lzfExpandRev_spec (out : Bytes) (ops : List LzfOp) :
    lzfExpandRev out.reverse ops = (lzfExpandFrom out ops).reverse := by
  induction ops generalizing out with
  | nil => rfl
  | cons op ops ih =>
    cases op with
    | lit bs =>
      simp only [lzfExpandRev, lzfExpandFrom]
      rw [← List.reverse_append, ih]
    | ref d l =>
      simp only [lzfExpandRev, lzfExpandFrom]
      rw [lzfCopyRev_spec, ih]

@[csimp] theorem lzfExpand_eq_fast : @lzfExpand = @lzfExpandFast := by
  funext ops
  unfold lzfExpand lzfExpandFast
  have := lzfExpandRev_spec [] ops
  simp only [List.reverse_nil] at this
  rw [this, List.reverse_reverse]

/-- wire format (lzf_c.c): literal `000LLLLL` (L = len-1) + bytes; reference
    `LLLooooo oooooooo` (L = len-2 for len ≤ 8) or `111ooooo LLLLLLLL oooooooo`
    (L = len-9), o = dist-1 -/
def lzfEmitOp : LzfOp → Bytes
  | .lit bs => UInt8.ofNat (bs.length - 1) :: bs
  | .ref dist len =>
    let o := dist - 1
    if len ≤ 8 then [UInt8.ofNat ((len - 2) * 32 + o / 256), UInt8.ofNat (o % 256)]
    else [UInt8.ofNat (7 * 32 + o / 256), UInt8.ofNat (len - 9), UInt8.ofNat (o % 256)]

def lzfEmit (ops : List LzfOp) : Bytes := ops.flatMap lzfEmitOp

/-- well-formed op list relative to the output produced so far -/
def lzfWfFrom (olen : Nat) : List LzfOp → Prop
  | [] => True
  | .lit bs :: ops => 1 ≤ bs.length ∧ bs.length ≤ 32 ∧ lzfWfFrom (olen + bs.length) ops
  | .ref dist len :: ops =>
    1 ≤ dist ∧ dist ≤ 8192 ∧ dist ≤ olen ∧ 3 ≤ len ∧ len ≤ 264 ∧ lzfWfFrom (olen + len) ops

instance lzfWfDec : (olen : Nat) → (ops : List LzfOp) → Decidable (lzfWfFrom olen ops)
  | _, [] => isTrue trivial
  | olen, .lit bs :: ops =>
    have := lzfWfDec (olen + bs.length) ops
    by unfold lzfWfFrom; exact inferInstance
  | olen, .ref dist len :: ops =>
    have := lzfWfDec (olen + len) ops
    by unfold lzfWfFrom; exact inferInstance

/-- one string as it is written into the file -/
inductive SE where
  | raw (f : LenForm) (s : Bytes)
  | int8 (v : Int)
  | int16 (v : Int)
  | int32 (v : Int)
  | lzf (fc fu : LenForm) (ops : List LzfOp)
  deriving Repr, Inhabited

/-- the string it denotes -/
def SE.val : SE → Bytes
  | .raw _ s => s
  | .int8 v => intToDec v
  | .int16 v => intToDec v
  | .int32 v => intToDec v
  | .lzf _ _ ops => lzfExpand ops

/-- its bytes in the file -/
def SE.enc : SE → Bytes
  | .raw f s => encLen f s.length ++ s
  | .int8 v => 0xC0 :: leN 1 (ofSigned 8 v)
  | .int16 v => 0xC1 :: leN 2 (ofSigned 16 v)
  | .int32 v => 0xC2 :: leN 4 (ofSigned 32 v)
  | .lzf fc fu ops =>
    0xC3 :: (encLen fc (lzfEmit ops).length ++ encLen fu (lzfExpand ops).length ++ lzfEmit ops)

def SE.wf : SE → Prop
  | .raw f s => f.fits s.length
  | .int8 v => inSigned 8 v
  | .int16 v => inSigned 16 v
  | .int32 v => inSigned 32 v
  | .lzf fc fu ops =>
    lzfWfFrom 0 ops ∧ fc.fits (lzfEmit ops).length ∧ fu.fits (lzfExpand ops).length ∧
      (lzfEmit ops).length < 2 ^ 32 ∧ (lzfExpand ops).length < 2 ^ 32

instance SE.decWf (s : SE) : Decidable s.wf := by
  cases s <;> unfold SE.wf <;> exact inferInstance

/-- raw string with the length form Redis picks -/
def SE.plain (s : Bytes) : SE := .raw (minForm s.length) s

end GunYu.Rdb
