/-
  C03 (session 5) — `strconv.ParseFloat(s, 64)` for the decimal texts a zset score of
  the old format (RDB_TYPE_ZSET, type 3: `rdbSaveDoubleValue` writes `%.17g` or the
  integer's digits) can hold — an EXECUTABLE SPECIFICATION, exact rational arithmetic:

    value  = (-1)^sign * mantissaDigits * 10^(exp10 - fractionDigits)
    result = the IEEE-754 binary64 nearest to it, ties to even (subnormals included);
             a magnitude that rounds to 2^1024 or more = strconv.ErrRange = the read FAILS
             (`ReadFloat` returns the error); underflow is not an error (±0 / subnormal).

  TRUSTED (stated once here): that Go's strconv.ParseFloat is correctly rounded
  ("returns the nearest floating-point number rounded using IEEE754 unbiased rounding",
  package documentation) on this grammar:
      [+-] digits [ . digits ] [ (e|E) [+-] digits ]      (at least one mantissa digit)
      [+-] inf | infinity  (any case), nan (any case, no sign)
  and that it reports overflow as an error. NOT modelled (`none`, outside the model; a
  Redis server never writes them): hexadecimal floats (`0x1p-2`), `_` digit separators.
  The tie: the generator formats random doubles with `%.17g` (and shorter forms), the
  real reader parses them with strconv, this function parses them in the Lean driver,
  and the two 64-bit patterns are compared (ops l1 / l2).
-/
import GunYu.Basic.Bytes

namespace GunYu.Rdb
open GunYu

/-- `num / den` (both positive) rounded to the nearest binary64, ties to even: the 64-bit
    pattern without sign, or `none` when the result is not finite (overflow) -/
def ratToF64Bits (num den : Nat) : Option Nat :=
  if num = 0 ∨ den = 0 then some 0 else
  -- e = floor(log2(num/den))
  let e0 : Int := (num.log2 : Int) - (den.log2 : Int)
  let ge (e : Int) : Bool := if 0 ≤ e then decide (den * 2 ^ e.toNat ≤ num) else decide (den ≤ num * 2 ^ (-e).toNat)
  let e : Int := if ge e0 then e0 else e0 - 1
  -- binary digits kept: 53 for a normal number, fewer below 2^-1022
  let s : Int := if -1022 ≤ e then 52 - e else 1074
  let n := if 0 ≤ s then num * 2 ^ s.toNat else num
  let d := if 0 ≤ s then den else den * 2 ^ (-s).toNat
  let q := n / d
  let r := n % d
  let q := if 2 * r > d ∨ (2 * r = d ∧ q % 2 = 1) then q + 1 else q
  -- q ∈ [2^52, 2^53] for a normal number: adding it to (e + 1022) * 2^52 sets the
  -- exponent field to e + 1023 and carries into it when q = 2^53
  let bits := if -1022 ≤ e then (e + 1022).toNat * 2 ^ 52 + q else q
  if bits ≥ 0x7FF0000000000000 then none else some bits

def eqFold (s : Bytes) (w : Bytes) : Bool := lower s == w

/-- digits of `s` up to the first non-digit: (value, count, rest) -/
def takeDigits : Bytes → Nat → Nat → Nat × Nat × Bytes
  | [], v, n => (v, n, [])
  | b :: r, v, n => if isDigit b then takeDigits r (v * 10 + (b.toNat - 48)) (n + 1) else (v, n, b :: r)

/-- `strconv.ParseFloat(s, 64)` on the grammar above: the binary64 pattern, `none` = error
    (syntax, overflow) or outside the model (hex float, underscore) -/
def parseF64 (s : Bytes) : Option Nat :=
  let (neg, signed, body) :=
    match s with
    | 45 :: r => (true, true, r)
    | 43 :: r => (false, true, r)
    | _ => (false, false, s)
  let signBit := if neg then 2 ^ 63 else 0
  if eqFold body [105, 110, 102] || eqFold body [105, 110, 102, 105, 110, 105, 116, 121] then some (signBit + 0x7FF0000000000000)
  else if !signed && eqFold body [110, 97, 110] then some 0x7FF8000000000001
  else
    let (ip, ni, r1) := takeDigits body 0 0
    let (mant, nf, r2) :=
      match r1 with
      | 46 :: r => let (v, n, r') := takeDigits r ip 0; (v, n, r')
      | _ => (ip, 0, r1)
    if ni + nf = 0 then none else
    let exp? : Option Int :=
      match r2 with
      | [] => some 0
      | c :: r =>
        if c = 101 ∨ c = 69 then
          let (eneg, digits) :=
            match r with
            | 45 :: r' => (true, r')
            | 43 :: r' => (false, r')
            | _ => (false, r)
          match decToNat? digits with
          | none => none
          | some v => some (if eneg then -(v : Int) else (v : Int))
        else none
    match exp? with
    | none => none
    | some ex =>
      let e10 : Int := ex - (nf : Int)
      -- beyond these bounds the result is decided without building 10^|e10| (mantissa
      -- < 10^253: a score text has at most 252 bytes)
      if mant = 0 then some signBit
      else if e10 > 400 then none
      else if e10 < -700 then some signBit
      else
        (if 0 ≤ e10 then ratToF64Bits (mant * 10 ^ e10.toNat) 1
         else ratToF64Bits mant (10 ^ (-e10).toNat)).map (signBit + ·)

end GunYu.Rdb
