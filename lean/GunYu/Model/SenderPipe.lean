/-
  The PIPELINED sender (`ReplayPipeline`, syncer/output.go `sendCmdsBatch` with
  `isPipeline`): the send side runs ahead of the receive side.

  `sendFuncOnce` builds the batch from `cmdQueue` exactly as in the blocking case
  (`Model/Sender.lean` `sendOnce`), but instead of `Exec` it calls `Dispatch`
  (write the batch to the connection) and hands the batcher to the receive
  goroutine through `pipeline` (a channel of capacity `W` = 2); only then is
  `cmdQueue` cleared. The receive goroutine takes the batchers in order and calls
  `Receive`; on an error reply it sets `recvFailed` and closes `replayWait`.
  `sendFunc` tests `recvFailed` before every attempt (`check`) and returns when it
  is set; an error of `sendFuncOnce` itself (a failed `Dispatch`) is retried up to
  three times WITH THE UNCLEARED QUEUE.

  The batches `bs` are those the loop model produces (`run`), one per successful
  flush; this file models what the pipelining adds: which requests reach the wire,
  in which order, how far the sender can be ahead.

    check            `recvFailed.Load()` at the top of a `sendFunc` attempt
    dispatch         `Dispatch` succeeded, the batcher went into `pipeline`, queue cleared
    dispatchFail j   `Dispatch` returned an error after `j` requests of the batch were
                     written (a write error): the attempt fails, the queue stays
    recv ok          the receive goroutine finished `Receive` of the oldest unanswered
                     batch: all replies fine / an error reply (sets `recvFailed`)

  A step that is not enabled leaves the state unchanged (`none` is never needed:
  theorems quantify over ALL schedules, enabled or not).
-/
import GunYu.Model.Sender

namespace GunYu.SenderPipe
open GunYu GunYu.Sender

inductive PEv
  | check
  | dispatch
  | dispatchFail (j : Nat)
  | recv (ok : Bool)
  deriving DecidableEq, Repr

structure PSt where
  next    : Nat := 0          -- batches whose queue was cleared (dispatched and handed over)
  wire    : List Req := []    -- everything written to the connection, in order
  recvd   : Nat := 0          -- batches the receive goroutine has finished
  failed  : Bool := false     -- `recvFailed`
  armed   : Bool := false     -- the current attempt passed the `recvFailed` test
  retries : Nat := 0          -- failed attempts of the current flush
  fails   : Nat := 0          -- failed dispatches so far (ghost)
  deriving DecidableEq, Repr

/-- one action of the two goroutines; `W` = capacity of `pipeline` -/
def pstep (W : Nat) (bs : List Batch) (s : PSt) : PEv → PSt
  | .check => if s.failed then { s with armed := false } else { s with armed := true }
  | .dispatch =>
    -- `Dispatch` writes the batch, THEN the hand-off blocks while `pipeline` is full (W queued + one
    -- inside Receive): a further batch is written only after the blocked hand-off went through, so at
    -- most W + 2 batches are on the wire unanswered
    if s.armed && decide (s.next < bs.length) && decide (s.next - s.recvd ≤ W + 1) && decide (s.retries < 3) then
      { s with next := s.next + 1, wire := s.wire ++ bs.getD s.next [], armed := false, retries := 0 }
    else s
  | .dispatchFail j =>
    if s.armed && decide (s.next < bs.length) && decide (s.retries < 3) then
      { s with wire := s.wire ++ (bs.getD s.next []).take j, armed := false,
               retries := s.retries + 1, fails := s.fails + 1 }
    else s
  | .recv ok =>
    if !s.failed && decide (s.recvd < s.next) then
      (if ok then { s with recvd := s.recvd + 1 } else { s with failed := true })
    else s

def prun (W : Nat) (bs : List Batch) (s : PSt) (evs : List PEv) : PSt := evs.foldl (pstep W bs) s

end GunYu.SenderPipe
