/-
  C14 — a numbering RESTART inside an execution: two numberings of replay units over one namespace.

  The unit numbering of a namespace starts at its root checkpoint (`World.e 0`). A full
  resynchronisation (FULLRESYNC: RedisInput.syncMeta / sendOutput call RedisOutput.ResetStartPoint —
  DelCheckpoint + purgeBisyncRecoveryState — then SendRdb replays the snapshot and setCheckpoint writes
  the new root) abandons the numbering: the next start must return the new root with sequence 0, and
  whatever the old numbering left in the recovery bookkeeping (frontier snapshot, journal records,
  index members: all of it when the purge was never run — older versions, D25 —, a part of it when
  it stopped half-way, records no start can read) must never be combined with units of the new one.

  `resync` = that step seen from the recovery bookkeeping: any list of delete requests (a prefix of a
  purge, a complete one, none) applied, the root replaced, the ghost list of committed units reset
  (units are counted per numbering), no process running.
  `twoNumberings` = an execution of the split-queue system under numbering W₁, the restart, an
  execution under numbering W₂.

  `scrub` removes what no start can ever read (a journal record of a foreign run id or one no index
  member names, a snapshot of a foreign run id): the system behaves the same with and without it
  (Proofs/FrontierScrub.lean), so the invariant is stated on scrubbed states.
-/
import GunYu.Model.FrontierTraffic

namespace GunYu.Frontier
open GunYu

/-- everything the recovery bookkeeping stores ends before offset `R` -/
def StaleBelow (R : Int) (ns : NS) : Prop :=
  (∀ f, ns.frontier = some f → f.offset < R) ∧ (∀ j ∈ ns.journal, j.r.endOff < R)

/-- a journal record a start can reach: its run id is one of `ids` and an index member names its key -/
def readable (ids : List Bytes) (ix : List (Int × Int)) (j : JRec) : Bool :=
  matchRun j.r.runId ids && ix.any (fun p => p.2 == j.kseq)

/-- a snapshot of a foreign run id is invisible -/
def scrubF (ids : List Bytes) : Option Snap → Option Snap
  | some f => if matchRun f.runId ids then some f else none
  | none => none

/-- the namespace without the records / the snapshot no start with these run ids can read -/
def scrub (ids : List Bytes) (ns : NS) : NS :=
  { root := ns.root, frontier := scrubF ids ns.frontier,
    journal := ns.journal.filter (readable ids ns.index), index := ns.index, latest := ns.latest }

def scrubS (ids : List Bytes) (s : TSys) : TSys :=
  { ns := scrub ids s.ns, committed := s.committed, run := s.run, rq := s.rq, cq := s.cq }

/-- a Redis keyspace is a map: every journal hash is THE hash with its key -/
def UniqueKeys (ns : NS) : Prop :=
  ∀ j ∈ ns.journal, ns.journal.find? (fun x => x.kseq = j.kseq) = some j

/-- a delete request (`DEL` of a journal hash, `ZREM` of index members, `DEL` of the snapshot) -/
def isDelete : Req → Bool
  | .delRec _ => true
  | .zrem _ => true
  | .delFrontier => true
  | _ => false

/-- the numbering restarts: `dels` (deletes only) applied, the root checkpoint of the finished
    snapshot replay written, nothing committed under the new numbering yet, no process running -/
def resync (W₂ : World) (db : Nat) (dels : List Req) (s : TSys) : TSys :=
  { ns := { applyAll s.ns dels with root := some (W₂.rid, W₂.e 0, db) },
    committed := [], run := none, rq := [], cq := [] }

/-- an execution under numbering W₁, the restart of the numbering, an execution under numbering W₂ -/
def twoNumberings (W₁ W₂ : World) (db : Nat) (dels : List Req) (s₀ : TSys) (steps₁ steps₂ : List Step) : TSys :=
  trunSteps W₂ (resync W₂ db dels (trunSteps W₁ s₀ steps₁)) steps₂

end GunYu.Frontier
