/-
  C15 — model of the Redis-based leader lease.

  * `evalLua`: evaluator of the Lua subset (Model/LuaAst.lean) over a lease
    store with a logical clock. The two scripts it is applied to are NOT
    written here: they are `Gen.campaignScript` / `Gen.resignScript`,
    regenerated from /repo/pkg/cluster/redis_election.go on every run.
  * `campaignCall … leaderResult`: the Go glue of
    pkg/cluster/redis_election.go (`Campaign`, `Renew`, `Resign`, `Leader`)
    on top of `common.Int` / `common.String` and the reply types
    `proto.Reader.ReadReply` produces.
  * `step`: the system of any number of instances, their role belief
    (cmd/syncer.go `runCluster`/`clusterTicker`: variable `role`), time and
    lost calls.
  * `fixCfg`: config/config.go `(*ClusterConfig).fix` (lease / renew bounds),
    `ttlSeconds`: cmd/syncer.go `int(LeaseTimeout / time.Second)`.

  Trusted transcription of external facts (DESIGN §4 item 2): the semantics
  of GET / SET … EX / EXPIRE / DEL with expiry (`evalCall`, `lookup`: a key
  is live while `now ≤ expiry`, Redis `keyIsExpired: now > when`), Lua `==`
  and truthiness, script atomicity (one `evalLua` = one step), Lua→RESP reply
  conversion. Core-only.
-/
import GunYu.Model.LuaAst
import GunYu.Gen.LeaseScripts

namespace GunYu.Lease
open GunYu GunYu.Lua

/-! ## Lease store -/

structure Entry where
  val : Bytes
  exp : Nat          -- absolute expiry, milliseconds on the store's clock
  deriving DecidableEq, Repr

/-- key ↦ value with expiry. Expired entries may still be physically present;
    everything observes the store through `lookup`. -/
abbrev Store := Bytes → Option Entry

def Store.empty : Store := fun _ => none

def Store.set (s : Store) (k : Bytes) (e : Entry) : Store :=
  fun k' => if k' = k then some e else s k'

def Store.del (s : Store) (k : Bytes) : Store :=
  fun k' => if k' = k then none else s k'

/-- the live view of a key at store time `now` -/
def lookup (s : Store) (now : Nat) (k : Bytes) : Option Entry :=
  match s k with
  | some e => if now ≤ e.exp then some e else none
  | none => none

/-! ## Lua subset evaluator -/

inductive Val where
  | nil | fls | tru
  | num (n : Nat)
  | str (b : Bytes)
  | status                 -- the `{ok='OK'}` table a status reply converts to
  deriving DecidableEq, Repr

abbrev Env := List (Nat × Val)

def envGet : Env → Nat → Val
  | [], _ => .nil
  | (y, v) :: rest, x => if x = y then v else envGet rest x

/-- Lua tables KEYS / ARGV are 1-based; a missing index is nil -/
def idx1 (l : List Bytes) (i : Nat) : Val :=
  if i = 0 then .nil else
  match l[i - 1]? with
  | some b => .str b
  | none => .nil

def evalExpr (keys argv : List Bytes) (env : Env) : Expr → Val
  | .keys i => idx1 keys i
  | .argv i => idx1 argv i
  | .var x => envGet env x
  | .num n => .num n
  | .str s => .str s
  | .fls => .fls
  | .tru => .tru
  | .nil => .nil
  | .eq a b => if evalExpr keys argv env a = evalExpr keys argv env b then .tru else .fls

def truthy : Val → Bool
  | .nil => false
  | .fls => false
  | _ => true

/-- redis.call arguments must be strings or numbers (numbers are rendered in
    decimal); anything else raises a script error (`none`). -/
def argStr : Val → Option Bytes
  | .str b => some b
  | .num n => some (natToDec n)
  | _ => none

/-- an argument Redis parses as an integer (non-negative decimals only are
    modelled; anything else is treated as the command's "not an integer" error) -/
def argInt (v : Val) : Option Nat :=
  match argStr v with
  | some b => decToNat? b
  | none => none

/-- one `redis.call`; `none` = the command (hence the script) raises an error -/
def evalCall (st : Store) (now : Nat) (ev : Expr → Val) : Call → Option (Store × Val)
  | .get k =>
    match argStr (ev k) with
    | none => none
    | some k =>
      match lookup st now k with
      | some e => some (st, .str e.val)
      | none => some (st, .fls)                 -- nil bulk → Lua false
  | .setEx k v t =>
    match argStr (ev k), argStr (ev v), argInt (ev t) with
    | some k, some v, some t =>
      if t = 0 then none                        -- "invalid expire time in 'set' command"
      else some (st.set k ⟨v, now + t * 1000⟩, .status)
    | _, _, _ => none
  | .expire k t =>
    match argStr (ev k), argInt (ev t) with
    | some k, some t =>
      match lookup st now k with
      | none => some (st, .num 0)
      | some e =>
        if t = 0 then some (st.del k, .num 1)   -- EXPIRE key 0 deletes the key
        else some (st.set k ⟨e.val, now + t * 1000⟩, .num 1)
    | _, _ => none
  | .del k =>
    match argStr (ev k) with
    | none => none
    | some k =>
      match lookup st now k with
      | none => some (st, .num 0)
      | some _ => some (st.del k, .num 1)

inductive Outcome where
  | fall                   -- end of block reached without `return`
  | ret (v : Val)
  | error                  -- a redis.call raised: script aborted, effects so far stay
  deriving DecidableEq, Repr

def evalBlk (keys argv : List Bytes) (now : Nat) : Store → Env → Blk → Store × Outcome
  | st, _, .done => (st, .fall)
  | st, env, .ret e => (st, .ret (evalExpr keys argv env e))
  | st, env, .loc x e rest => evalBlk keys argv now st ((x, evalExpr keys argv env e) :: env) rest
  | st, env, .locCall x c rest =>
    match evalCall st now (evalExpr keys argv env) c with
    | none => (st, .error)
    | some (st', v) => evalBlk keys argv now st' ((x, v) :: env) rest
  | st, env, .call c rest =>
    match evalCall st now (evalExpr keys argv env) c with
    | none => (st, .error)
    | some (st', _) => evalBlk keys argv now st' env rest
  | st, env, .ite c t e rest =>
    let r := if truthy (evalExpr keys argv env c) then evalBlk keys argv now st env t
             else evalBlk keys argv now st env e
    match r with
    | (st', .fall) => evalBlk keys argv now st' env rest   -- branch locals go out of scope
    | other => other

/-- what the client receives (RESP2) -/
inductive Reply where
  | int (n : Nat)
  | bulk (b : Bytes)
  | nil
  | status
  | err
  deriving DecidableEq, Repr

def toReply : Outcome → Reply
  | .fall => .nil
  | .error => .err
  | .ret (.num n) => .int n
  | .ret (.str b) => .bulk b
  | .ret .tru => .int 1
  | .ret .fls => .nil
  | .ret .nil => .nil
  | .ret .status => .status

/-- `EVAL script numkeys keys… args…` executed atomically at store time `now` -/
def evalLua (script : Blk) (st : Store) (now : Nat) (keys argv : List Bytes) : Store × Reply :=
  let r := evalBlk keys argv now st [] script
  (r.1, toReply r.2)

/-! ## Go glue: pkg/cluster/redis_election.go -/

/-- `common.Int(reply, err)` on what `proto.Reader.ReadReply` returns: an
    integer reply is an `int64`; bulk and status replies arrive as Go `string`
    ("unexpected type"), nil bulk as `ErrNil`, `-ERR` as an error. -/
def replyInt : Reply → Option Nat
  | .int n => some n
  | _ => none

inductive Role where
  | candidate | follower | leader
  deriving DecidableEq, Repr

inductive ErrClass where
  | ok | notLeader | nilReply | other
  deriving DecidableEq, Repr

/-- `e.cli.Do("eval", lua, []byte("1"), e.key, e.id, e.ttl)` in `Campaign`:
    KEYS = [key], ARGV = [id, decimal ttl] -/
def campaignCall (st : Store) (now : Nat) (key id : Bytes) (ttl : Nat) : Store × Reply :=
  evalLua Gen.campaignScript st now [key] [id, natToDec ttl]

/-- same argument list in `Resign` -/
def resignCall (st : Store) (now : Nat) (key id : Bytes) (ttl : Nat) : Store × Reply :=
  evalLua Gen.resignScript st now [key] [id, natToDec ttl]

/-- `Campaign`: error ⇒ (RoleCandidate, err); `ret == 1` ⇒ RoleLeader; else RoleFollower -/
def campaignResult (r : Reply) : Role × ErrClass :=
  match replyInt r with
  | none => (.candidate, .other)
  | some n => if n = 1 then (.leader, .ok) else (.follower, .ok)

/-- `Renew`: Campaign; err ⇒ err; role ≠ leader ⇒ ErrNotLeader -/
def renewResult (r : Reply) : ErrClass :=
  match campaignResult r with
  | (_, .other) => .other
  | (.leader, _) => .ok
  | _ => .notLeader

/-- `Resign`: only the conversion error is looked at, the value is ignored -/
def resignResult (r : Reply) : ErrClass :=
  match replyInt r with
  | none => .other
  | some _ => .ok

/-- `Leader`: `common.String(Do("GET", key))`; missing key ⇒ ("", ErrNil) -/
def leaderResult (st : Store) (now : Nat) (key : Bytes) : Bytes × ErrClass :=
  match lookup st now key with
  | some e => (e.val, .ok)
  | none => ([], .nilReply)

/-! ## The system: instances, beliefs, time, lost calls -/

/-- `told key id = some d`: the instance `id` contending for `key` was last
    told "leader" by a campaign/renew executed at store time `t`, with
    `d = t + ttl·1000` (its lease as it knows it runs until `d`), and has not
    since been told otherwise nor stopped (resign is called after the syncer
    was stopped: cmd/syncer.go runCluster `sy.Stop(); syncerWait.WgWait();
    elect.Resign`). -/
structure Sys where
  store : Store
  now : Nat
  told : Bytes → Bytes → Option Nat

def setTold (t : Bytes → Bytes → Option Nat) (key id : Bytes) (v : Option Nat) :
    Bytes → Bytes → Option Nat :=
  fun k i => if k = key ∧ i = id then v else t k i

inductive Ev where
  | campaign (key id : Bytes)
  | renew (key id : Bytes)
  | resign (key id : Bytes)
  | leader (key : Bytes)
  | tick (d : Nat)
  /-- a campaign/renew whose answer never arrives (error reply, broken
      connection, timeout): the script ran (`applied`) or it did not -/
  | lostCampaign (key id : Bytes) (applied : Bool)
  | lostResign (key id : Bytes) (applied : Bool)
  deriving DecidableEq, Repr

inductive Out where
  | role (r : Role) (e : ErrClass)
  | err (e : ErrClass)
  | leader (addr : Bytes) (e : ErrClass)
  | none
  deriving DecidableEq, Repr

/-- belief update after a delivered campaign/renew result -/
def toldAfter (t : Bytes → Bytes → Option Nat) (key id : Bytes) (deadline : Nat) :
    Role → Bytes → Bytes → Option Nat
  | .leader => setTold t key id (some deadline)
  | .follower => setTold t key id none
  | .candidate => t            -- error: the caller's role variable is not changed by the call

/-- `cfg id` = the instance's lease TTL in seconds (`redisCluster.ttl`). -/
def step (cfg : Bytes → Nat) (s : Sys) : Ev → Sys × Out
  | .campaign key id =>
    let r := campaignCall s.store s.now key id (cfg id)
    let res := campaignResult r.2
    ({ store := r.1, now := s.now,
       told := toldAfter s.told key id (s.now + cfg id * 1000) res.1 }, .role res.1 res.2)
  | .renew key id =>
    let r := campaignCall s.store s.now key id (cfg id)
    let res := campaignResult r.2
    ({ store := r.1, now := s.now,
       told := toldAfter s.told key id (s.now + cfg id * 1000) res.1 }, .err (renewResult r.2))
  | .resign key id =>
    let r := resignCall s.store s.now key id (cfg id)
    ({ store := r.1, now := s.now, told := setTold s.told key id none }, .err (resignResult r.2))
  | .leader key =>
    let r := leaderResult s.store s.now key
    (s, .leader r.1 r.2)
  | .tick d => ({ s with now := s.now + d }, .none)
  | .lostCampaign key id applied =>
    let st := if applied then (campaignCall s.store s.now key id (cfg id)).1 else s.store
    ({ s with store := st }, .none)
  | .lostResign key id applied =>
    let st := if applied then (resignCall s.store s.now key id (cfg id)).1 else s.store
    ({ store := st, now := s.now, told := setTold s.told key id none }, .none)

def run (cfg : Bytes → Nat) (s : Sys) : List Ev → Sys
  | [] => s
  | ev :: rest => run cfg (step cfg s ev).1 rest

/-- any store contents and clock, nobody has been told anything yet -/
def Sys.init (st : Store) (now : Nat) : Sys := { store := st, now := now, told := fun _ _ => none }

/-- `id` was told it is leader for `key` and its lease, counted from its last
    successful campaign/renew, has not run out on the store's clock -/
def holder (s : Sys) (key id : Bytes) : Prop :=
  ∃ d, s.told key id = some d ∧ s.now ≤ d

def isHolder (s : Sys) (key id : Bytes) : Bool :=
  match s.told key id with
  | some d => s.now ≤ d
  | none => false

/-! ## cmd/syncer.go `clusterTicker`: what the instance does with the answers -/

/-- scripted behaviour of the election calls: `ok | notLeader | err` for Renew,
    `leader | follower | err` for Campaign, `blk` = the call never returns
    (redisElection ignores its context, the client has no deadline) -/
inductive TRes where
  | ok | notLeader | err | leader | follower | blk
  deriving DecidableEq, Repr

structure TOut where
  calls : List Nat                     -- instants (ms since the ticker started) of the election calls
  closed : Option (Nat × ErrClass)     -- when and how the ticker closed the syncer's wait
  returned : Option Nat                -- when clusterTicker returned (only then runCluster stops the syncer)
  deadline : Nat                       -- send instant of the last successful campaign/renewal + hold
  deriving DecidableEq, Repr

def renewErr : TRes → ErrClass
  | .ok => .ok
  | .leader => .ok
  | .notLeader => .notLeader
  | .follower => .notLeader
  | .err => .other
  | .blk => .other

/-- the lease watchdog (`time.AfterFunc(leaseFrom + hold)`, re-armed from the
    send instant of every successful renewal) fires at `dl` if that is within
    the observed horizon -/
def watchdogOut (calls : List Nat) (dl hor : Nat) : TOut :=
  if dl ≤ hor then { calls := calls.reverse, closed := some (dl, .notLeader), returned := some dl, deadline := dl }
  else { calls := calls.reverse, closed := none, returned := none, deadline := dl }

/-- role = leader, tick `i` at `i·R`, `n` ticks left, `dl` = current watchdog
    deadline, `hor` = end of the observation. Every tick
    `util.Retry(clusterRenew, 2)` runs in its own goroutine while the loop
    also waits for the wait's context: success re-arms the watchdog to
    `t + H`; two failed attempts close the wait with that error at `t`; a call
    that never returns leaves the watchdog to close it at `dl`. Answers
    beyond the script are `ok`. -/
def tickerLeader (R H hor : Nat) : Nat → Nat → Nat → List TRes → List Nat → TOut
  | _, 0, dl, _, calls => watchdogOut calls dl hor
  | i, n + 1, dl, script, calls =>
    let t := i * R
    if dl < t then watchdogOut calls dl hor
    else
      let a1 := script.headD .ok
      if a1 = .blk then watchdogOut (t :: calls) dl hor
      else if renewErr a1 = .ok then tickerLeader R H hor (i + 1) n (t + H) script.tail (t :: calls)
      else
        let a2 := script.tail.headD .ok
        if a2 = .blk then watchdogOut (t :: t :: calls) dl hor
        else if renewErr a2 = .ok then tickerLeader R H hor (i + 1) n (t + H) script.tail.tail (t :: t :: calls)
        else { calls := (t :: t :: calls).reverse, closed := some (t, renewErr a2), returned := some t, deadline := dl }

/-- role = follower: every `R` ms one campaign; an error closes the wait with
    it, "leader" closes it with nil (the loop restarts as leader); a campaign
    that never returns just leaves the follower waiting (it leads nothing).
    Answers beyond the script are `follower`. -/
def tickerFollower (R : Nat) : Nat → Nat → List TRes → List Nat → TOut
  | _, 0, _, calls => { calls := calls.reverse, closed := none, returned := none, deadline := 0 }
  | i, n + 1, script, calls =>
    let t := i * R
    match script.headD .follower with
    | .err => { calls := (t :: calls).reverse, closed := some (t, .other), returned := some t, deadline := 0 }
    | .leader => { calls := (t :: calls).reverse, closed := some (t, .ok), returned := some t, deadline := 0 }
    | .ok => { calls := (t :: calls).reverse, closed := some (t, .ok), returned := some t, deadline := 0 }
    | .blk => { calls := (t :: calls).reverse, closed := none, returned := none, deadline := 0 }
    | _ => tickerFollower R (i + 1) n script.tail (t :: calls)

/-- `n` ticks of `clusterTicker` observed until `n·R + R/2`; `H` = leaseHold
    (store ttl − renew period), the campaign that made the instance leader was
    sent `ago` ms before the ticker started -/
def tickerRun (leader : Bool) (R H ago n : Nat) (script : List TRes) : TOut :=
  if leader then tickerLeader R H (n * R + R / 2) 1 n (H - ago) script []
  else tickerFollower R 1 n script []

/-- cmd/syncer.go `leaseHold`, in ms: the lease as the store counts it (whole
    seconds) minus one renew period -/
def leaseHoldMs (leaseMs renewMs : Nat) : Nat := leaseMs / 1000 * 1000 - renewMs

/-! ## election identity: config `ServerConfig.fix` + cluster-mode check,
     cmd/syncer.go `NewElection(ctx, key, Server.ListenPeer)` -/

/-- "127.0.0.1:18001" -/
def defaultListen : Bytes := [49,50,55,46,48,46,48,46,49,58,49,56,48,48,49]

def peerAddr (listen peer : Bytes) : Bytes :=
  if peer = [] then (if listen = [] then defaultListen else listen) else peer

/-- index-free split at the LAST ':' (Go `net.SplitHostPort` for the shapes
    `host:port` and `[v6]:port`); `none` if there is no ':' -/
def splitLastColon : Bytes → Option (Bytes × Bytes)
  | [] => none
  | c :: rest =>
    match splitLastColon rest with
    | some (h, p) => some (c :: h, p)
    | none => if c = 58 then some ([], rest) else none

/-- host part of `host:port`; brackets of `[v6]:port` removed; a bare host
    that itself contains ':' is malformed ("too many colons") -/
def hostOf (addr : Bytes) : Option Bytes :=
  match splitLastColon addr with
  | none => none
  | some (h, _) =>
    if h.head? = some 91 ∧ h.getLast? = some 93 then some (h.drop 1).dropLast
    else if h.contains 58 then none else some h

/-- empty host, "0.0.0.0" or "::" (the spellings of the unspecified address
    that are modelled; Go's `IP.IsUnspecified` accepts a few more) -/
def unspecHost (h : Bytes) : Bool :=
  h = [] || h = [48,46,48,46,48,46,48] || h = [58,58]

/-- the id an instance contends under, `none` = configuration refused
    ((*SyncConfig).fix → checkPeerIdentity). A host NAME (incl. `localhost`)
    is taken as it is written. -/
def electionId (cluster : Bool) (listen peer : Bytes) : Option Bytes :=
  if cluster then
    if listen = [] ∧ peer = [] then none
    else match hostOf (peerAddr listen peer) with
      | none => none
      | some h => if unspecHost h then none else some (peerAddr listen peer)
  else some (peerAddr listen peer)

/-! ## config/config.go `(*ClusterConfig).fix` (durations in nanoseconds) -/

structure Cfg where
  lease : Int
  renew : Int
  deriving DecidableEq, Repr

def second : Int := 1000000000

def fixCfg (c : Cfg) : Cfg :=
  let l0 := if c.lease = 0 then 10 * second else c.lease
  let l := if l0 < 3 * second then 3 * second
           else if l0 > 600 * second then 600 * second else l0
  let r0 := if c.renew = 0 then l / 3 else c.renew
  let r := if r0 < 1 * second then second
           else if r0 > l / 3 then l / 3 else r0
  { lease := l, renew := r }

/-- cmd/syncer.go: `ttl := int(LeaseTimeout / time.Second)` -/
def ttlSeconds (c : Cfg) : Int := c.lease / second

end GunYu.Lease
