/-
  C06 — one ATTEMPT of `RedisInput.Run`'s loop, call by call, and the loop itself.

  `Model/Psync.lean` §9 says what an attempt leaves behind by how far it got
  (`Stage`, `attempt`, `staleAttempt`). This file adds what decides how far it
  gets, transcribed from the code, so that the real `RedisInput.run` / `Run` can be
  compared with it op by op (Drive/C06Att.lean, harness vf_c06_att_test.go):

  A. `SendPSync`'s int64 arithmetic (`offset += 1` wraps at 2^63 - 1)        pkg/redis/psync.go:53
  B. the peers' answers an attempt depends on: dial/INFO, the three tries of
     `output.StartPoint` (ErrBreak), the PSYNC reply line, the header after
     `+FULLRESYNC` (`$<n>`, the diskless `$EOF:<40 bytes>`, `$0`, `$-n`)      input.go:152-189, 607-652; psync.go:105-141
  C. which `Stage` an attempt reaches when ONE call fails (`stageOf`)          input.go:191-336, 338-394, 548-585
  D. `channel.StartPoint` answering with an error (ignored by `syncMeta`)     input.go:211-214
  E. the loop: ErrCorrupted -> DelRunId, ErrBreak -> stop, back-off           input.go:451-489

  Core only (linked into the driver).
-/
import GunYu.Model.Psync

namespace GunYu.Psync

/-! ## A. int64 arithmetic of `SendPSync` -/

def two63 : Int := 9223372036854775808
def two64 : Int := 18446744073709551616

/-- two's-complement int64 of an integer -/
def wrap64 (n : Int) : Int := (n + two63) % two64 - two63

/-- psync.go:53 `if offset >= 0 { offset += 1 }` on an int64 -/
def wireOf64 (off : Int) : Int := if off ≥ 0 then wrap64 (off + 1) else off

/-- `SendPSync` with Go's int64 arithmetic (request offset and the `offset - 1` it returns on CONTINUE) -/
def sendPSync64 (src : Source) (id : Id) (off : Int) : PsyncRes :=
  match admitPsync src id (wireOf64 off) with
  | .cont nid => ⟨id, wireOf64 off, .cont nid, if nid ≠ [] then nid else id, wrap64 (wireOf64 off - 1), false, 0⟩
  | .full fid o => ⟨id, wireOf64 off, .full fid o, fid, o, true, src.snapLen⟩

/-! ## B. what the peers answer in one attempt -/

/-- the line after `+FULLRESYNC <id> <off>` (heartbeat LFs skipped): `$<snapLen>` (a disk
    transfer; `snapLen` may be any integer the peer sends), the diskless `$EOF:<40 bytes>`,
    anything else -/
inductive SnapHdr
  | len
  | eof
  | junk
deriving DecidableEq, Repr

/-- psync.go `waitRdbDump` (ParseInt of the text after `$`) + input.go `sendPsync` (a size
    that is not positive is refused): the header is accepted iff it is `$<n>` with `0 < n` -/
def hdrOk (h : SnapHdr) (s : Source) : Bool :=
  match h with
  | .len => decide (0 < s.snapLen)
  | _ => false

/-- input.go:180 `getOutputStartPoint`: `RetryLinearJitter(…, 3, 2 s, 0.5)` - the first
    success among at most three tries; none = ErrBreak. `answers` lists the tries
    (`true` = answered), a try that is not listed fails. -/
def spTries (answers : List Bool) : Bool := (answers.take 3).any id

structure Peer where
  conn : Bool := true              -- newRedisConn succeeded (3 tries; a refusal is joined with ErrRestart, which wraps ErrBreak)
  dial : Bool := true              -- INFO replication answered
  spAnswers : List Bool := [true]  -- tries of output.StartPoint
  psyncOk : Bool := true           -- REPLCONFs answered +OK, PSYNC answered +CONTINUE / +FULLRESYNC
  hdr : SnapHdr := .len
deriving Repr

/-- what `Run` does after the attempt: go on (at once or after the back-off) or stop for good -/
inductive Verdict
  | again
  | stop
deriving DecidableEq, Repr

/-- One attempt against peers that may fail before `syncMeta`'s bookkeeping starts: a refused
    connection (ErrRestart ⊂ ErrBreak: `Run` stops), a failed INFO / PSYNC, three failed
    `output.StartPoint` (ErrBreak) and an unusable snapshot header all return before anything was
    changed (input.go:159-173, 197-210, 226-279, 621); otherwise the attempt gets as far as `st`. -/
def attemptP (resume : Bool) (w : World) (σ : Sys) (p : Peer) (st : Stage) : Sys × Verdict :=
  if !p.conn then (σ, .stop)
  else if !p.dial then (σ, .again)
  else if !spTries p.spAnswers then (σ, .stop)
  else if !p.psyncOk then (σ, .again)
  else if (syncMeta σ.s σ.t.stored σ.c).ps.full && !hdrOk p.hdr σ.s then (σ, .again)
  else (attempt resume w σ st, .again)

/-! ## C. the stage an attempt reaches when one call fails -/

/-- the calls of one attempt, in program order (`none`: nothing fails) -/
inductive Call
  | dial          -- newRedisConn / INFO / output.StartPoint / REPLCONF / PSYNC / header
  | chanDel       -- channel.DelRunId            (only when FULLRESYNC or clearLocal)
  | chanSet       -- channel.SetRunId
  | outReset      -- output.ResetStartPoint, first call: syncMeta's (FULLRESYNC) or sendOutput's (cached snapshot)
  | outSetRunId   -- output.SetRunId
  | writer        -- channel.NewRdbWriter / NewAofWritter in syncData
  | reader        -- channel.NewReader in readChannel
  | outReset2     -- output.ResetStartPoint, second call: sendOutput's after a FULLRESYNC
  | send          -- output.Send fails while replaying a snapshot
  | none
deriving DecidableEq, Repr

/-- how far the attempt gets when `call` fails (everything before it succeeded; the writer,
    once created, stores all `k` bytes the source sends). A call that is not due in this
    attempt cannot fail: the attempt completes. -/
def stageOf (call : Call) (r : Result) (e k : Int) : Stage :=
  let isSnap : Bool := match r.reader with | .rdb _ _ => true | _ => false
  match call with
  | .dial => .early
  | .chanDel => if r.mt.deleted then .early else .delivered true e k
  | .chanSet => .cleared
  | .outReset =>
    if r.mt.ps.full then .relabelled
    else if isSnap then .written k
    else .delivered true e k
  | .outSetRunId => .reset
  | .writer => .metaDone
  | .reader => .written k
  | .outReset2 => if r.mt.ps.full && isSnap then .written k else .delivered true e k
  | .send => if isSnap then .delivered false e k else .delivered true e k
  | .none => .delivered true e k

def Stage.name : Stage → String
  | .early => "early"
  | .cleared => "cleared"
  | .relabelled => "relabelled"
  | .reset => "reset"
  | .metaDone => "metaDone"
  | .written _ => "written"
  | .delivered done _ _ => if done then "delivered" else "interrupted"

/-- the attempt handed a reader to `output.Send` -/
def Stage.reachedSend : Stage → Bool
  | .delivered _ _ _ => true
  | _ => false

/-! ## D. `channel.StartPoint` answers with an error

  input.go:211-214 logs the error and goes on with the `StartPoint{}` returned next to it
  (`RunId ""`, `Offset 0`: channel.go:95-98). `decisionL` / `syncMetaL` are `decision` /
  `syncMeta` with what `channel.StartPoint` returned as a parameter. -/

/-- what `StoreChannel.StartPoint` returns with an error -/
def errLoc : SP := ⟨[], 0⟩

def decisionL (src : Source) (sp : SP) (c : Cache) (loc0 : SP) : Decision :=
  let ids := [src.id1, src.id2]
  if ids.contains sp.runId && ids.contains loc0.runId then
    if c.isValidOffset loc0.runId sp.offset then
      ⟨1, sendPSync src loc0.runId loc0.offset, false, loc0, sp.offset⟩
    else
      let ps := sendPSync src sp.runId sp.offset
      ⟨2, ps, true, if ps.full then loc0 else ⟨ps.runId, sp.offset⟩, sp.offset⟩
  else if ids.contains sp.runId then
    let ps := sendPSync src sp.runId sp.offset
    ⟨3, ps, true, if ps.full then loc0 else ⟨ps.runId, sp.offset⟩, sp.offset⟩
  else if ids.contains loc0.runId && sp.isInitial then
    if (c.getRdb loc0.runId).1 ≠ -1 ∧ (c.getRdb loc0.runId).2 ≠ -1 then
      let ps := sendPSync src loc0.runId loc0.offset
      if ps.full then ⟨4, ps, false, loc0, sp.offset⟩
      else ⟨4, { ps with rdbSize := (c.getRdb loc0.runId).2 }, false,
            ⟨loc0.runId, (c.getOffsetRange loc0.runId).2⟩, (c.getRdb loc0.runId).1 - (c.getRdb loc0.runId).2⟩
    else
      ⟨5, sendPSync src qId (-1), false, loc0, sp.offset⟩
  else
    ⟨6, sendPSync src qId (-1), false, loc0, sp.offset⟩

def syncMetaL (src : Source) (sp : SP) (c : Cache) (loc0 : SP) : Meta :=
  let dc := decisionL src sp c loc0
  let rid := if dc.ps.full then dc.ps.runId else src.id1
  let del := dc.ps.full || dc.clearLocal
  let c1 := if del then c.delRunId c.runId else c
  let c2 := c1.setRunId rid
  let locOff := if dc.ps.full then dc.ps.off else dc.loc.offset
  let outOff := if dc.ps.full then dc.ps.off - dc.ps.rdbSize else dc.outOff
  { loc0 := loc0, branch := dc.branch, ps := dc.ps, clearLocal := dc.clearLocal,
    runId := rid, deleted := del, locSp := ⟨rid, locOff⟩, outSp := ⟨rid, outOff⟩,
    rdbSize := dc.ps.rdbSize, cache := c2 }

/-! ## E. the loop of `RedisInput.Run` (input.go:451-489)

  `for !closed { err := run(); if ErrCorrupted { channel.DelRunId(channel.RunId()) };
   if ErrBreak { close; break }; if err != nil { sleep 2 s } }`

  The error variables form a lattice (syncer.go:32-51): `ErrCorrupted`, `ErrRestart`, `ErrQuit` (and
  `ErrRedisTypologyChanged` below `ErrRestart`) all WRAP `ErrBreak`. So the loop is left after a
  corrupted attempt's `DelRunId`, after a refused connection, and after a `Send` that ended with one
  of the fatal errors - not only after three failed `output.StartPoint`. -/

/-- how `run()` ended beyond what `attemptP` says -/
inductive AttEnd
  | plain        -- nil or an error that wraps nothing: next attempt (after the back-off)
  | corrupted    -- ErrCorrupted (the reader met a damaged segment): DelRunId, then the loop is left
  | fatal        -- Send ended with ErrQuit / ErrRestart / ErrRedisTypologyChanged / cross-slot: the loop is left
deriving DecidableEq, Repr

structure RunSt where
  sys : Sys
  stopped : Bool      -- the loop has been left (ErrBreak, or Stop)
  attempts : Nat      -- how many times `run` was entered

inductive RunEv
  | att (resume : Bool) (p : Peer) (st : Stage) (fin : AttEnd)       -- one `run()`
  | sleep                                                            -- the back-off between two attempts
  | stop                                                             -- `Stop()`: the wait scope is closed

def runStep (w : World) (r : RunSt) : RunEv → RunSt
  | .sleep => r
  | .stop => { r with stopped := true }
  | .att resume p st fin =>
    if r.stopped then r
    else
      let a := attemptP resume w r.sys p st
      match a.2 with
      | .stop => ⟨a.1, true, r.attempts + 1⟩
      | .again =>
        match fin with
        | .plain => ⟨a.1, false, r.attempts + 1⟩
        | .corrupted => ⟨a.1.corrupted, true, r.attempts + 1⟩
        | .fatal => ⟨a.1, true, r.attempts + 1⟩

def runLoop (w : World) (r : RunSt) (evs : List RunEv) : RunSt := evs.foldl (runStep w) r

/-- the bytes an attempt stores stay within int64 (as `Stage.fits`) -/
def RunEv.fits (s : Source) : RunEv → Prop
  | .att _ _ st _ => st.fits s
  | _ => True

/-! ## F. `ResetStartPoint` -> `checkpoint.DelCheckpoints`, request by request

  The records live one per (database, label): the position in the database of the last command, stale
  lower ones where earlier traffic stored theirs or - under the other label - where an interrupted
  relabel left them; `GetCheckpoint(ids)` reads the largest offset over the labels asked for, the
  newest on a tie. `DelCheckpoints` reads every record first (a record that cannot be read aborts
  before anything is deleted), sorts ALL of them - every label, every database - in one ascending
  order, and deletes them with one HDEL each; the process can stop between two of them: what the next
  start reads is `readPos` of the records not yet deleted. (Two labels inside the SAME database hash
  are read by `fetchCheckpoint` in HGETALL order, not by maximum: C17's model, not this one.) -/

/-- one record: (offset, mtime) -/
abbrev CpRec := Int × Int

/-- checkpoint.go `GetCheckpoint` over the databases -/
def readPos : List CpRec → Option CpRec
  | [] => none
  | r :: rs =>
    match readPos rs with
    | none => some r
    | some m => if m.1 > r.1 ∨ (m.1 = r.1 ∧ m.2 > r.2) then some m else some r

/-- the comparator of `DelCheckpoint`'s `sort.Slice` (offset, then mtime; the database number only
    makes the order total) -/
def cpLe (a b : CpRec) : Prop := a.1 < b.1 ∨ (a.1 = b.1 ∧ a.2 ≤ b.2)

end GunYu.Psync
