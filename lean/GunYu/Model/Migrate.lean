/-
  C17 — switching the bidirectional recovery format: the checkpoint-level
  requests of syncer/syncer.go resolveBisyncCheckpointNameWithClient
  (+ inferBisyncNamespaceMode, loadBisyncMigrationSeed, seedBisyncNamespace,
  cleanupBisyncNamespace, checkpoint.ResolveOrCreateBisyncCheckpointName,
  SaveBisyncNamespaceMode / LoadBisyncNamespaceMode) for a standalone target.

  Only the requests that touch what a start reads through GetCheckpointHash +
  GetCheckpoint are listed: the checkpoint hash and the ROOT keys of the old and
  the new namespace (all in DB 0). The writes to frontier / latest / journal /
  index keys of the namespaces lie between them; they do not change that read, so
  a crash after one of them is the crash after the preceding listed request.

  The recovery state of the old namespace (Model/Frontier.lean `NS`) decides the
  inferred mode and the migration seed.
-/
import GunYu.Model.Checkpoint
import GunYu.Model.Frontier

namespace GunYu.Migrate
open GunYu GunYu.Checkpoint

inductive BMode | sync | pipeline | parallel
  deriving DecidableEq, Repr

def BMode.usesFrontier : BMode → Bool
  | .sync => false
  | _ => true

/-- "sync" / "pipeline" / "parallel" -/
def BMode.bytes : BMode → Bytes
  | .sync => [115, 121, 110, 99]
  | .pipeline => [112, 105, 112, 101, 108, 105, 110, 101]
  | .parallel => [112, 97, 114, 97, 108, 108, 101, 108]

def parseMode (b : Bytes) : Option BMode :=
  if b = BMode.bytes .sync then some .sync
  else if b = BMode.bytes .pipeline then some .pipeline
  else if b = BMode.bytes .parallel then some .parallel
  else none

/-- "bisync_mode" (the field `bisync_mode_mtime` is this name with the `_mtime` suffix) -/
def modeField : Bytes := [98, 105, 115, 121, 110, 99, 95, 109, 111, 100, 101]

/-- `SaveBisyncNamespaceMode` -/
def modeEntries (m : BMode) (now : Int) : List Entry :=
  [⟨modeField, .other, m.bytes⟩, ⟨modeField, .mtime, intToDec now⟩]

/-- `LoadBisyncNamespaceMode`: none = field absent; some none = invalid value (error) -/
def loadMode (t : Target) (name : Bytes) : Option (Option BMode) :=
  match (t.cps 0 name).find? (fun e => e.rid = modeField ∧ e.kind = .other) with
  | none => none
  | some e => some (parseMode e.val)

structure Seed where
  runId  : Bytes
  seq    : Int
  offset : Int
  mtime  : Int
  deriving DecidableEq, Repr

/-- `inferBisyncNamespaceMode` -/
def inferMode (ns : Frontier.NS) (ids : List Bytes) : Option BMode :=
  let fromLatest : Option BMode := match ns.latest with
    | some r => if Frontier.matchRun r.runId ids then some .sync else none
    | none => none
  match Frontier.loadSnapshot ns ids with
  | some f => if f.seq > 0 then some .parallel else fromLatest
  | none => fromLatest

/-- `loadBisyncMigrationSeed`; none = error (no authoritative seed / journal gap) -/
def loadSeed (ver : Bytes) (ns : Frontier.NS) (ids : List Bytes) (cur : BMode) : Option Seed :=
  match cur with
  | .sync =>
    match ns.latest with
    | some r => if Frontier.matchRun r.runId ids then some ⟨r.runId, r.seq, r.endOff, r.mtime⟩ else none
    | none => none
  | _ =>
    match Frontier.rebuild ver (Frontier.loadSnapshot ns ids) ((Frontier.startRecords ns ids).map (·.r)) with
    | .ok (some f) => if f.seq > 0 then some ⟨f.runId, f.seq, f.offset, f.mtime⟩ else none
    | _ => none

/-- `preferredBisyncMigrationRunID` -/
def preferredRunId (ids : List Bytes) (fallback : Bytes) : Bytes :=
  match ids.find? (fun i => i ≠ []) with
  | some i => i
  | none => fallback

/-- "<name>:frontier" -/
def frontierKey (name : Bytes) : Bytes := name ++ [58, 102, 114, 111, 110, 116, 105, 101, 114]

def sameFamily (a b : BMode) : Bool := a.usesFrontier == b.usesFrontier

/-- the offset the new namespace is seeded with: that of the mode-specific state, or of
    the root checkpoint when that is newer (REPAIRED, D22: the root checkpoint a start
    would have resumed from is not dropped). `root` = what `GetCheckpoint` read. -/
def seedOffset (sd : Seed) (root : CpInfo) (ids : List Bytes) : Int :=
  if root.runId ≠ qmark ∧ root.offset > sd.offset ∧ Frontier.matchRun root.runId ids = true
  then root.offset else sd.offset

/-- the migration proper, once the current mode is known to differ in family -/
def migrateCore (ver : Bytes) (ids : List Bytes) (cpName cpRunId : Bytes) (desired : BMode)
    (seed : Option Seed) (root : Option (CpInfo × Int)) (newName : Bytes) (nows : List Int) : List Req :=
  match seed, root, ids with
  | none, _, _ => []
  | _, none, _ => []                                   -- GetCheckpoint failed
  | _, _, [] => []
  | some sd, some (rootCp, _), id1 :: _ =>
    [Req.hsetCp 0 newName
        (cpEntries { runId := preferredRunId ids sd.runId, offset := seedOffset sd rootCp ids, version := ver }
          (nows.headD 0)),
     Req.hsetCp 0 newName (modeEntries desired (nows.tail.headD 0)),
     Req.hsetHash id1 newName]
    ++ (if cpRunId ≠ [] ∧ cpRunId ≠ id1 then [Req.hdelHash cpRunId] else [])
    ++ [Req.delKeys 0 [cpName, frontierKey cpName]]

/-- `resolveBisyncCheckpointNameWithClient(cli, ids, desired, [0])`:
    `ns` = recovery state of the namespace the hash resolves to; `newName` = the
    name `NewBisyncCheckpointName` drew; `nows` = the wall-clock values of the
    successive `time.Now()` calls that end up in requests; `order` = database order of
    the `GetCheckpoint` on the old root key. -/
def migrateReqs (ver : Bytes) (t : Target) (ns : Frontier.NS) (ids : List Bytes) (desired : BMode)
    (newName : Bytes) (nows : List Int) (order : List Nat) : List Req :=
  match ids, getHash t.hash ids with
  | [], _ => []
  | _, none => []
  | id1 :: _, some (cpName, cpRunId) =>
    if cpName = [] then
      -- ResolveOrCreateBisyncCheckpointName + SaveBisyncNamespaceMode
      -- (HSETNX on an existing empty-valued entry creates nothing: the function fails)
      if t.hash.any (fun p => p.1 = id1) then [Req.hsetnxHash id1 newName]
      else [Req.hsetnxHash id1 newName, Req.hsetCp 0 newName (modeEntries desired (nows.headD 0))]
    else
      match loadMode t cpName with
      | some none => []                                   -- invalid stored mode: error
      | some (some cur) =>
        if cur = desired then []
        else if sameFamily cur desired then [Req.hsetCp 0 cpName (modeEntries desired (nows.headD 0))]
        else migrateCore ver ids cpName cpRunId desired (loadSeed ver ns ids cur)
          (getCheckpoint ver t cpName ids order) newName nows
      | none =>
        match inferMode ns ids with
        | none => [Req.hsetCp 0 cpName (modeEntries desired (nows.headD 0))]
        | some cur =>
          Req.hsetCp 0 cpName (modeEntries cur (nows.headD 0)) ::
            (if cur = desired then []
             else if sameFamily cur desired then [Req.hsetCp 0 cpName (modeEntries desired (nows.tail.headD 0))]
             else migrateCore ver ids cpName cpRunId desired (loadSeed ver ns ids cur)
               (getCheckpoint ver t cpName ids order) newName nows.tail)

end GunYu.Migrate
